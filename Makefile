# /verif — build of the static Coq theories (full .vo build, never -vos) and hygiene greps.
NPROC ?= 16
.PHONY: setup coq hygiene clean

setup: coq hygiene

coq:
	cd coq && coq_makefile -f _CoqProject -o Makefile
	cd coq && timeout 3000 $(MAKE) -j$(NPROC)

hygiene:
	@! grep -rnE '\b(Admitted|admit|Axiom|Parameter|Conjecture|Unset Guard|bypass_check|type-in-type|impredicative-set)\b' coq --include='*.v' | grep -v '^\S*:[0-9]*:\s*(\*' || (echo "forbidden keyword found" && exit 1)

clean:
	rm -rf build; cd coq && (test -f Makefile && $(MAKE) clean || true); rm -f coq/Makefile coq/Makefile.conf
