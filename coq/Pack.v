(* Pack.v — token-level model of pack (bitstring/methods.py:12-95), bitstore_from_token
   (bitstring/bitstore_helpers.py:257-270) and unpack (Bits._readlist/_read_dtype_list, modelled in Stream.v).
   The string front end (tokenparser, preprocess_tokens, expand_brackets, structparser) is tied by
   correspondence and the grammar oracle only (see DESIGN.md §5 C05). *)
From BS Require Import Prims BitsCore Golomb IntCodec Mutators Search Stream.
Open Scope Z_scope.

(* the bits one token contributes, given its value *)
Definition encode_token (t : token) (v : value) : res bits :=
  match t, v with
  | TFixed KUint n, ValZ z => do _ <- make_dtype KUint n; set_intlike false false 0 z (Some n)
  | TFixed KInt n, ValZ z => do _ <- make_dtype KInt n; set_intlike true false 0 z (Some n)
  | TFixed KBool n, ValBool x => do _ <- make_dtype KBool n; Ok [x]
  | TFixed KPad n, _ => do bl <- make_dtype KPad n; Ok (repeat false (Z.to_nat bl))
  | TFixed k n, ValBits b =>
      match k with
      | KBits | KBin | KHex | KBytes =>
          do bl <- make_dtype k n;
          if zlen b =? bl then Ok b else Err ValueError      (* "Token with length n packed with value of length m" *)
      | _ => Err ValueError
      end
  | TStretch k, ValBits b =>
      match k with
      | KBits | KBin => Ok b
      | KHex => if zlen b mod 4 =? 0 then Ok b else Err ValueError
      | KBytes => if zlen b mod 8 =? 0 then Ok b else Err ValueError
      | _ => Err ValueError
      end
  | TStretch KUint, ValZ _ | TStretch KInt, ValZ _ => Err ValueError   (* a non-zero length must be specified *)
  | TVar c, ValZ z => g_enc c z
  | TCount n, ValBits b => if n <? 0 then Err ValueError else if zlen b =? n then Ok b else Err ValueError
  | _, _ => Err ValueError
  end.

(* pack: tokens may carry an embedded value ('uint:8=3'); the others (except pad) take the next positional value.
   Too few values: CreationError; values left over: CreationError. *)
Definition is_pad (t : token) : bool := match t with TFixed KPad _ => true | _ => false end.

Fixpoint pack_loop (toks : list (token * option value)) (vals : list value) : res (list bits * list value) :=
  match toks with
  | [] => Ok ([], vals)
  | (t, ov) :: rest =>
      do2 (v, vals') <-
        match ov with
        | Some v => Ok (v, vals)
        | None => if is_pad t then Ok (ValNone, vals)
                  else match vals with [] => Err ValueError | v :: vs => Ok (v, vs) end
        end;
      do b <- encode_token t v;
      do2 (bs, left) <- pack_loop rest vals';
      Ok (b :: bs, left)
  end.

Definition pack (lsb0 : bool) (toks : list (token * option value)) (vals : list value) : res bits :=
  do2 (bs, left) <- pack_loop toks vals;
  match left with
  | [] => Ok (concat (if lsb0 then rev bs else bs))
  | _ => Err ValueError
  end.

(* the length a token occupies (None: depends on the value) *)
Definition token_len (t : token) : option Z :=
  match t with
  | TFixed k n => Some (n * bits_per_item k)
  | TCount n => Some n
  | _ => None
  end.
