(* SearchProofs.v — C07: the search functions equal the brute-force scan. *)
From BS Require Import Prims BitsCore Search SeqProofs.
From Coq Require Import ZifyBool.
Open Scope Z_scope.

(* the brute-force definition: q ranges over [s, e - |p|], occurrence test, optional alignment *)
Definition spec_matches (d p : bits) (s e : Z) (ba : bool) : list Z :=
  filter (fun q => occurs_at d p q && (negb ba || (q mod 8 =? 0))) (zrange s (e - zlen p + 1)).

Lemma filter_filter {A} (f g : A -> bool) l : filter f (filter g l) = filter (fun x => g x && f x) l.
Proof. induction l as [|x l IH]; [reflexivity|]. cbn. destruct (g x); cbn; [destruct (f x)|]; now rewrite IH. Qed.

Theorem general_path_spec d p s e ba :
  negb (ba && (zlen p mod 8 =? 0)) = true ->
  findall_store_msb0 d p s e ba = Ok (spec_matches d p s e ba).
Proof.
  intros H. unfold findall_store_msb0, spec_matches. destruct (ba && (zlen p mod 8 =? 0)) eqn:E; [discriminate|].
  f_equal. unfold search_all. destruct ba; cbn [negb orb].
  - rewrite filter_filter. reflexivity.
  - apply filter_ext. intros q. symmetry. apply andb_true_r.
Qed.

Theorem ba_find_spec d p s e : ba_find d p s e = match spec_matches d p s e false with [] => -1 | q :: _ => q end.
Proof.
  unfold ba_find, spec_matches, search_all. cbn [negb orb].
  erewrite filter_ext; [reflexivity|]. intros q. symmetry. apply andb_true_r.
Qed.

Theorem empty_pattern_rejected lsb0 d start stop count ba :
  bs_find lsb0 d [] start stop ba = Err ValueError /\
  (forall c, count = Some c -> 0 <= c -> bs_findall lsb0 d [] start stop count ba = Err ValueError) /\
  bs_findall lsb0 d [] start stop None ba = Err ValueError /\
  bs_split lsb0 d [] start stop count ba = Err ValueError.
Proof.
  repeat split.
  - intros c -> Hc. unfold bs_findall. destruct (c <? 0) eqn:E; [lia|]. reflexivity.
Qed.

Theorem count_total d : bs_count d true + bs_count d false = zlen d.
Proof. unfold bs_count. lia. Qed.
