(* DtypeLen.v - property C15: creating a bitstring from (kind, length, value).
   Mirrors  bitstring/dtypes.py  DtypeDefinition.get_dtype, Dtype.__new__, Dtype.build
            bitstring/bits.py    Bits._initialise (keyword route) and the setters _setuint/_setint/_setuintbe/_setintbe/
                                 _setuintle/_setintle/_setfloat/_setbfloatbe/_setbfloatle/_setbool/_setpad/_setbin_safe/
                                 _sethex/_setoct/_setbytes/_setbits/_setbytes_with_truncation
            bitstring/bitstore_helpers.py  bitstore_from_token
   and proves the total classification: for every kind, every length (None, or any integer) and every value the
   result is either Ok b with b of exactly the requested bit length and exactly the encoding of the value, or
   Err ValueError (CreationError is ValueError in this library) - never another exception, never a truncated value. *)
From Coq Require Import ZArith List Bool Lia ZifyBool String.
From BS Require Import Prims Golomb IntCodec CodecProofs SeqProofs Store FastPath ByteswapProofs.
Open Scope Z_scope.

(* ------------------------------------------------------------------------------------------------ *)
(* 1. The register rows (bitstring/__init__.py dtype_definitions; same data as the generated GenDtypes.gen_dtypes).
      uintne/intne/floatne/bfloatne are aliases of the le (or, on a big-endian host, be) rows: same definition object. *)
Inductive kind := KUint | KInt | KUintbe | KIntbe | KUintle | KIntle | KFloat | KFloatle | KBfloat | KBfloatle
                | KBool | KBin | KHex | KOct | KBytes | KBits | KPad.

Definition kdef (k : kind) : dtype_def :=   (* name signed variable allowed ellipsis multiplier *)
  match k with
  | KUint => mkdd "uint" false false [] false 1
  | KInt => mkdd "int" true false [] false 1
  | KUintbe => mkdd "uintbe" false false [8; 16] true 1
  | KIntbe => mkdd "intbe" true false [8; 16] true 1
  | KUintle => mkdd "uintle" false false [8; 16] true 1
  | KIntle => mkdd "intle" true false [8; 16] true 1
  | KFloat => mkdd "float" true false [16; 32; 64] false 1
  | KFloatle => mkdd "floatle" true false [16; 32; 64] false 1
  | KBfloat => mkdd "bfloat" true false [16] false 1
  | KBfloatle => mkdd "bfloatle" true false [16] false 1
  | KBool => mkdd "bool" false false [1] false 1
  | KBin => mkdd "bin" false false [] false 1
  | KHex => mkdd "hex" false false [0; 4] true 1
  | KOct => mkdd "oct" false false [0; 3] true 1
  | KBytes => mkdd "bytes" false false [] false 8
  | KBits => mkdd "bits" false false [] false 1
  | KPad => mkdd "pad" false false [] false 1
  end.

(* the abstract description of the allowed lengths of a kind *)
Inductive allowed := AnyLen | OneOf (l : list Z) | Multiples (m : Z).
Definition kind_allowed (k : kind) : allowed :=
  match k with
  | KUint | KInt | KBin | KBytes | KBits | KPad => AnyLen
  | KUintbe | KIntbe | KUintle | KIntle => Multiples 8
  | KFloat | KFloatle => OneOf [16; 32; 64]
  | KBfloat | KBfloatle => OneOf [16]
  | KBool => OneOf [1]
  | KHex => Multiples 4
  | KOct => Multiples 3
  end.
Definition allowedb (a : allowed) (n : Z) : bool :=
  match a with AnyLen => true | OneOf l => existsb (Z.eqb n) l | Multiples m => n mod m =? 0 end.
Definition mult (k : kind) : Z := match k with KBytes => 8 | _ => 1 end.
(* the length a Dtype gets when none is stated: only for kinds with exactly one allowed length *)
Definition single (k : kind) : option Z :=
  match kind_allowed k with OneOf [v] => Some v | _ => None end.

(* Dtype(name, length) / dtype_register.get_dtype(name, length): the bitlength (None: no length) *)
Definition dtype_new (k : kind) (length : option Z) : res (option Z) := get_dtype (kdef k) length.

(* ------------------------------------------------------------------------------------------------ *)
(* 2. The setters (bits.py).  cur = len(self) of the object being set (0 while it is under construction). *)
Definition eff_length (cur : Z) (length : option Z) : option Z :=   (* "if length is None and len(self) != 0: length = len(self)" *)
  match length with None => if cur =? 0 then None else Some cur | Some l => Some l end.

(* _setuint / _setint *)
Definition set_plain (signed : bool) (cur v : Z) (length : option Z) : res bits :=
  match eff_length cur length with
  | None => Err ValueError
  | Some l => if l =? 0 then Err ValueError else int2bitstore v l signed
  end.
(* _setuintbe / _setintbe / _setuintle / _setintle *)
Definition set_endian (signed le : bool) (cur v : Z) (length : option Z) : res bits :=
  match eff_length cur length with
  | None => Err ValueError
  | Some l => if l =? 0 then Err ValueError else
              if negb (l mod 8 =? 0) then Err ValueError else
              if le then intle2bitstore v l signed else int2bitstore v l signed
  end.
(* _setpad: BitStore(length) = bitarray(length): None gives the empty bitarray, n >= 0 gives n zero bits *)
Definition set_pad (length : option Z) : res bits :=
  match length with
  | None => Ok []
  | Some l => if l <? 0 then Err ValueError else Ok (repeat false (Z.to_nat l))
  end.
(* _setbytes: bytes(data) refuses items outside range(256) *)
Definition byte_ok (x : Z) : bool := (0 <=? x) && (x <? 256).
Definition set_bytes (bs : list Z) : res bits :=
  if forallb byte_ok bs then Ok (frombytes bs) else Err ValueError.


(* ---------- helper lemmas (no floats involved) ---------- *)
Lemma mod_shift l a : (l - a) mod a = l mod a.
Proof. replace (l - a) with (l + (-1) * a) by lia. apply Z_mod_plus_full. Qed.

(* T1. Dtype(name, length): accepted iff no length is stated, or 0 <= length and the length is allowed for the kind;
   the bit length is length * multiplier (8 for bytes); a missing length becomes the only allowed one (bool 1, bfloat 16). *)
Theorem dtype_new_classification k length :
  dtype_new k length =
  match length with
  | Some l => if (0 <=? l) && allowedb (kind_allowed k) l then Ok (Some (l * mult k)) else Err ValueError
  | None => Ok (single k)
  end.
Proof.
  unfold dtype_new. destruct length as [l|]; [|destruct k; reflexivity].
  unfold get_dtype. destruct (l <? 0) eqn:Eneg.
  { replace (0 <=? l) with false by lia. reflexivity. }
  replace (0 <=? l) with true by lia. cbn [andb].
  destruct k; unfold allowed_contains, only_one_value, kdef;
    cbn [dd_allowed dd_ellipsis dd_mult dd_variable kind_allowed allowedb mult negb];
    try reflexivity;
    try (change (16 - 8) with 8; rewrite mod_shift);
    try (rewrite Z.sub_0_r; change (4 - 0) with 4; change (3 - 0) with 3);
    match goal with |- context [negb ?b] => destruct b; reflexivity end.
Qed.

Definition in_range_content (signed : bool) (n v : Z) : bits := enc_uint n (if signed then v mod 2 ^ n else v).

Lemma int2bitstore_class signed n v : 0 < n ->
  int2bitstore v n signed = if int_in_range signed n v then Ok (in_range_content signed n v) else Err ValueError.
Proof.
  intros Hn. unfold in_range_content. destruct (int_in_range signed n v) eqn:E.
  - unfold int_in_range in E. destruct signed.
    + apply int_encode; lia.
    + apply uint_encode; lia.
  - apply int_classification; assumption.
Qed.

Lemma zlen_in_range_content signed n v : 0 <= n -> zlen (in_range_content signed n v) = n.
Proof. intros. apply zlen_enc_uint. assumption. Qed.

Lemma zlen_flat_enc w ds : 0 <= w -> zlen (flat_map (enc_uint w) ds) = w * zlen ds.
Proof.
  intros Hw. induction ds as [|d ds IH]; [cbn; lia|].
  cbn [flat_map]. rewrite zlen_app, zlen_cons, IH, zlen_enc_uint by lia. lia.
Qed.

Lemma zlen_frombytes bs : zlen (frombytes bs) = 8 * zlen bs.
Proof. unfold frombytes. apply zlen_flat_enc. lia. Qed.

Lemma in_float_lengths l : existsb (Z.eqb l) [16; 32; 64] = true -> In l [16; 32; 64].
Proof. cbn. lia. Qed.

Section Create.
(* floats: the value type and struct.pack are abstract; be = big_endian *)
Variable V : Type.
Variable enc : bool -> Z -> V -> bits.          (* float2bitstore(f, length, big_endian), length in 16/32/64 *)
Variable encb : bool -> V -> bits.              (* bfloat2bitstore(f, big_endian) *)
Hypothesis enc_len : forall be n f, In n [16; 32; 64] -> zlen (enc be n f) = n.
Hypothesis encb_len : forall be f, zlen (encb be f) = 16.

(* _setfloat *)
Definition set_float (be : bool) (cur : Z) (f : V) (length : option Z) : res bits :=
  match eff_length cur length with
  | None => Err ValueError
  | Some l => if existsb (Z.eqb l) [16; 32; 64] then Ok (enc be l f) else Err ValueError
  end.
(* _setbfloatbe / _setbfloatle *)
Definition set_bfloat (be : bool) (f : V) (length : option Z) : res bits :=
  if (match length with Some l => negb (l =? 16) | None => false end) then Err ValueError else Ok (encb be f).

(* the Python type of the value of each kind: ints; floats; bool as 0/1 (True == 1); digit strings as lists of digit
   values (a value outside the digit range stands for an invalid character); bytes as a list of ints; a bitstring; None *)
Definition vtyp (k : kind) : Type :=
  match k with
  | KUint | KInt | KUintbe | KIntbe | KUintle | KIntle | KBool => Z
  | KFloat | KFloatle | KBfloat | KBfloatle => V
  | KBin | KHex | KOct | KBytes => list Z
  | KBits => bits
  | KPad => unit
  end.
Definition digit_width (k : kind) : Z := match k with KHex => 4 | KOct => 3 | _ => 1 end.

(* definition.set_fn(self, value, length=bitlength)   (partial(set_fn, length=...) when the setter takes a length) *)
Definition set_fn (k : kind) : Z -> vtyp k -> option Z -> res bits :=
  match k return Z -> vtyp k -> option Z -> res bits with
  | KUint => set_plain false
  | KInt => set_plain true
  | KUintbe => set_endian false false
  | KIntbe => set_endian true false
  | KUintle => set_endian false true
  | KIntle => set_endian true true
  | KFloat => set_float true
  | KFloatle => set_float false
  | KBfloat => fun _ => set_bfloat true
  | KBfloatle => fun _ => set_bfloat false
  | KBool => fun _ v _ => setbool v
  | KBin => fun _ ds _ => digits2bits 1 ds
  | KHex => fun _ ds _ => digits2bits 4 ds
  | KOct => fun _ ds _ => digits2bits 3 ds
  | KBytes => fun _ bs _ => set_bytes bs
  | KBits => fun _ b _ => Ok b
  | KPad => fun _ _ l => set_pad l
  end.

(* ------------------------------------------------------------------------------------------------ *)
(* 3. The three creation routes *)
(* "if d.bitlength is not None and len(b) != d.bitlength: raise" *)
Definition check_len (bl : option Z) (b : bits) : res bits :=
  match bl with Some n => if zlen b =? n then Ok b else Err ValueError | None => Ok b end.
(* Dtype.build(value) of an existing Dtype with bitlength bl: b = Bits(); set_fn(b, value); size check *)
Definition build_with (k : kind) (bl : option Z) (v : vtyp k) : res bits :=
  do b <- set_fn k 0 v bl; check_len bl b.
(* Dtype(name, length).build(value) *)
Definition build (k : kind) (length : option Z) (v : vtyp k) : res bits :=
  do bl <- dtype_new k length; build_with k bl v.

(* Bits(bytes=data, length=l): _setbytes_with_truncation (length in BITS, truncates) *)
Definition create_kw_bytes (bs : list Z) (length : option Z) : res bits :=
  if forallb byte_ok bs then setbytes_with_truncation (frombytes bs) length None else Err ValueError.
(* Bits(<kind>=value, length=length): Bits._initialise *)
Definition create_kw (k : kind) (length : option Z) : vtyp k -> res bits :=
  if (match length with Some l => l <? 0 | None => false end) then fun _ => Err ValueError else
  match k return vtyp k -> res bits with
  | KBytes => fun bs => create_kw_bytes bs length
  | k' => fun v => build k' length v       (* d = Dtype(k, length); d.set_fn(self, v); the same size check *)
  end.

(* bitstore_from_token(name, token_length, value) for a non-literal name; value None = no '=value' part *)
Definition pad_value (k : kind) : option (vtyp k) :=
  match k return option (vtyp k) with KPad => Some tt | _ => None end.
Definition from_token (k : kind) (length : option Z) (v : option (vtyp k)) : res bits :=
  do bl <- dtype_new k length;
  match (match v with Some x => Some x | None => pad_value k end) with
  | None => Err ValueError                                 (* "Token ... requires a value." *)
  | Some x => do b <- build_with k bl x;
              match length with Some _ => check_len bl b | None => Ok b end   (* "Token with length n packed with value of length m" *)
  end.

(* ------------------------------------------------------------------------------------------------ *)
(* 4. The specification: which (kind, length) pairs are accepted, what "the value fits" means, and the exact result *)
Definition intlike (k : kind) : bool :=
  match k with KUint | KInt | KUintbe | KIntbe | KUintle | KIntle => true | _ => false end.

(* the bit length of a value that needs no stated length (None: the kind needs one) *)
Definition default_len (k : kind) : vtyp k -> option Z :=
  match k return vtyp k -> option Z with
  | KBfloat | KBfloatle => fun _ => Some 16
  | KBool => fun _ => Some 1
  | KBin => fun ds => Some (1 * zlen ds)
  | KHex => fun ds => Some (4 * zlen ds)
  | KOct => fun ds => Some (3 * zlen ds)
  | KBytes => fun bs => Some (8 * zlen bs)
  | KBits => fun b => Some (zlen b)
  | KPad => fun _ => Some 0
  | _ => fun _ => None
  end.

(* the requested bit length, None when the (kind, length) pair is refused whatever the value:
   a stated length must be >= 0, allowed for the kind, and non-zero for the integer kinds *)
Definition spec_len (k : kind) (length : option Z) (v : vtyp k) : option Z :=
  match length with
  | Some l => if (0 <=? l) && allowedb (kind_allowed k) l && negb (intlike k && (l =? 0)) then Some (l * mult k) else None
  | None => default_len k v
  end.

Definition digits_fit (w bl : Z) (ds : list Z) : bool :=
  forallb (fun d => (0 <=? d) && (d <? 2 ^ w)) ds && (w * zlen ds =? bl).

(* "the value fits in bl bits" *)
Definition fitsb (k : kind) (bl : Z) : vtyp k -> bool :=
  match k return vtyp k -> bool with
  | KUint | KUintbe | KUintle => int_in_range false bl      (* 0 <= v < 2^bl *)
  | KInt | KIntbe | KIntle => int_in_range true bl          (* -2^(bl-1) <= v < 2^(bl-1) *)
  | KFloat | KFloatle | KBfloat | KBfloatle => fun _ => true
  | KBool => fun v => (v =? 0) || (v =? 1)
  | KBin => digits_fit 1 bl
  | KHex => digits_fit 4 bl
  | KOct => digits_fit 3 bl
  | KBytes => fun bs => forallb byte_ok bs && (8 * zlen bs =? bl)
  | KBits => fun b => zlen b =? bl
  | KPad => fun _ => true
  end.

(* the bits of an accepted value *)
Definition content (k : kind) (bl : Z) : vtyp k -> bits :=
  match k return vtyp k -> bits with
  | KUint | KUintbe => in_range_content false bl
  | KInt | KIntbe => in_range_content true bl
  | KUintle => fun v => swapbytes (in_range_content false bl v)
  | KIntle => fun v => swapbytes (in_range_content true bl v)
  | KFloat => enc true bl
  | KFloatle => enc false bl
  | KBfloat => encb true
  | KBfloatle => encb false
  | KBool => fun v => [v =? 1]
  | KBin => flat_map (enc_uint 1)
  | KHex => flat_map (enc_uint 4)
  | KOct => flat_map (enc_uint 3)
  | KBytes => frombytes
  | KBits => fun b => b
  | KPad => fun _ => repeat false (Z.to_nat bl)
  end.

Definition spec (k : kind) (length : option Z) (v : vtyp k) : res bits :=
  match spec_len k length v with
  | Some bl => if fitsb k bl v then Ok (content k bl v) else Err ValueError
  | None => Err ValueError
  end.

(* ------------------------------------------------------------------------------------------------ *)
(* 5. Proofs *)
Ltac case_if := match goal with |- context [if ?b then _ else _] => destruct b eqn:? end.

Lemma match_if {A} (c : bool) (a : Z) (f : Z -> A) (e : A) :
  match (if c then Some a else None) with Some bl => f bl | None => e end = if c then f a else e.
Proof. destruct c; reflexivity. Qed.

Lemma build_plain signed l v :
  (do bl <- (if (0 <=? l) && true then Ok (Some (l * 1)) else Err ValueError);
   do b <- set_plain signed 0 v bl; check_len bl b) =
  (if (0 <=? l) && true && negb (true && (l =? 0)) then
     if int_in_range signed (l * 1) v then Ok (in_range_content signed (l * 1) v) else Err ValueError
   else Err ValueError).
Proof.
  rewrite Z.mul_1_r. destruct (0 <=? l) eqn:E0; [|reflexivity]. cbn [andb bind].
  unfold set_plain. cbn [eff_length]. destruct (l =? 0) eqn:E1; [reflexivity|]. cbn [negb bind].
  rewrite int2bitstore_class by lia. case_if; [|reflexivity]. cbn [bind check_len].
  rewrite zlen_in_range_content by lia. rewrite Z.eqb_refl. reflexivity.
Qed.

Lemma build_endian signed le l v :
  (do bl <- (if (0 <=? l) && (l mod 8 =? 0) then Ok (Some (l * 1)) else Err ValueError);
   do b <- set_endian signed le 0 v bl; check_len bl b) =
  (if (0 <=? l) && (l mod 8 =? 0) && negb (true && (l =? 0)) then
     if int_in_range signed (l * 1) v
     then Ok (if le then swapbytes (in_range_content signed (l * 1) v) else in_range_content signed (l * 1) v)
     else Err ValueError
   else Err ValueError).
Proof.
  rewrite Z.mul_1_r. destruct (0 <=? l) eqn:E0; [|reflexivity]. cbn [andb].
  destruct (l mod 8 =? 0) eqn:E8; [|reflexivity]. cbn [andb bind].
  unfold set_endian. cbn [eff_length]. destruct (l =? 0) eqn:E1; [reflexivity|]. rewrite E8. cbn [negb bind].
  unfold intle2bitstore. rewrite int2bitstore_class by lia.
  destruct (int_in_range signed l v) eqn:Er; [|destruct le; reflexivity].
  assert (Hl : zlen (in_range_content signed l v) = l) by (apply zlen_in_range_content; lia).
  destruct le; cbn [bind check_len].
  - fold (swapbytes (in_range_content signed l v)). rewrite zlen_swapbytes by (unfold whole; rewrite Hl; lia).
    rewrite Hl, Z.eqb_refl. reflexivity.
  - rewrite Hl, Z.eqb_refl. reflexivity.
Qed.

Lemma build_float be l f :
  (do bl <- (if (0 <=? l) && existsb (Z.eqb l) [16; 32; 64] then Ok (Some (l * 1)) else Err ValueError);
   do b <- set_float be 0 f bl; check_len bl b) =
  (if (0 <=? l) && existsb (Z.eqb l) [16; 32; 64] && negb (false && (l =? 0)) then Ok (enc be (l * 1) f) else Err ValueError).
Proof.
  rewrite Z.mul_1_r. destruct (0 <=? l) eqn:E0; [|reflexivity]. cbn [andb negb].
  destruct (existsb (Z.eqb l) [16; 32; 64]) eqn:E; [|reflexivity]. cbn [andb bind].
  unfold set_float. cbn [eff_length]. rewrite E. cbn [bind check_len].
  rewrite enc_len by (apply in_float_lengths; exact E). rewrite Z.eqb_refl. reflexivity.
Qed.

Lemma build_digits w l ds : 0 <= w ->
  (do bl <- (if (0 <=? l) && (l mod w =? 0) then Ok (Some (l * 1)) else Err ValueError);
   do b <- digits2bits w ds; check_len bl b) =
  (if (0 <=? l) && (l mod w =? 0) && negb (false && (l =? 0)) then
     if digits_fit w (l * 1) ds then Ok (flat_map (enc_uint w) ds) else Err ValueError
   else Err ValueError).
Proof.
  intros Hw. rewrite Z.mul_1_r. unfold digits_fit, digits2bits. cbn [andb negb]. rewrite andb_true_r.
  destruct ((0 <=? l) && (l mod w =? 0)); cbn [bind]; [|reflexivity].
  case_if; cbn [bind check_len andb]; [|reflexivity]. rewrite zlen_flat_enc by lia. reflexivity.
Qed.

Lemma build_digits_nolen w ds : 0 <= w ->
  (do b <- digits2bits w ds; Ok b) = (if digits_fit w (w * zlen ds) ds then Ok (flat_map (enc_uint w) ds) else Err ValueError).
Proof.
  intros Hw. unfold digits_fit, digits2bits. rewrite Z.eqb_refl, andb_true_r. case_if; reflexivity.
Qed.

(* T2. Dtype(kind, length).build(value) is exactly the specification: accepted iff the length is allowed and the value
   fits, and then the result is exactly the encoding of the value; otherwise ValueError. *)
Theorem build_eq_spec k length v : build k length v = spec k length v.
Proof.
  unfold build, spec, spec_len. rewrite dtype_new_classification. unfold build_with.
  destruct length as [l|].
  - rewrite match_if.
    destruct k; cbn [kind_allowed allowedb mult intlike set_fn fitsb content vtyp] in *.
    + apply build_plain.
    + apply build_plain.
    + apply (build_endian false false).
    + apply (build_endian true false).
    + apply (build_endian false true).
    + apply (build_endian true true).
    + apply build_float.
    + apply build_float.
    + (* bfloat *) cbn [existsb]. rewrite orb_false_r, Z.mul_1_r. destruct (0 <=? l); cbn [andb negb bind]; [|reflexivity].
      unfold set_bfloat. destruct (l =? 16) eqn:E; cbn [negb andb bind check_len]; [|reflexivity].
      rewrite E. cbn [negb bind]. rewrite encb_len. rewrite Z.eqb_sym, E. reflexivity.
    + cbn [existsb]. rewrite orb_false_r, Z.mul_1_r. destruct (0 <=? l); cbn [andb negb bind]; [|reflexivity].
      unfold set_bfloat. destruct (l =? 16) eqn:E; cbn [negb andb bind check_len]; [|reflexivity].
      rewrite E. cbn [negb bind]. rewrite encb_len. rewrite Z.eqb_sym, E. reflexivity.
    + (* bool *) cbn [existsb]. rewrite orb_false_r, Z.mul_1_r. destruct (0 <=? l); cbn [andb negb bind]; [|reflexivity].
      destruct (l =? 1) eqn:E; cbn [negb andb bind]; [|reflexivity]. unfold setbool.
      destruct (v =? 1) eqn:E1; cbn [bind check_len].
      * replace (v =? 0) with false by lia. cbn [orb]. change (zlen [true]) with 1. rewrite Z.eqb_sym, E. reflexivity.
      * destruct (v =? 0); cbn [orb bind check_len]; [|reflexivity]. change (zlen [false]) with 1. rewrite Z.eqb_sym, E. reflexivity.
    + (* bin *) pose proof (build_digits 1 l v ltac:(lia)) as H. rewrite Z.mod_1_r in H. exact H.
    + apply build_digits; lia.
    + apply build_digits; lia.
    + (* bytes *) cbn [andb negb]. rewrite !andb_true_r. destruct (0 <=? l); cbn [bind]; [|reflexivity].
      unfold set_bytes. case_if; cbn [bind check_len andb]; [|reflexivity]. rewrite zlen_frombytes. reflexivity.
    + (* bits *) cbn [andb negb]. rewrite !andb_true_r, Z.mul_1_r. destruct (0 <=? l); reflexivity.
    + (* pad *) cbn [andb negb]. rewrite !andb_true_r, Z.mul_1_r. destruct (0 <=? l) eqn:E; cbn [bind]; [|reflexivity].
      unfold set_pad. replace (l <? 0) with false by lia. cbn [bind check_len]. rewrite zlen_repeat.
      replace (Z.of_nat (Z.to_nat l) =? l) with true by lia. reflexivity.
  - destruct k; cbn [single kind_allowed bind set_fn default_len fitsb content vtyp check_len] in *; try reflexivity.
    + (* bfloat *) change (set_bfloat true v (Some 16)) with (Ok (encb true v)). cbn [bind]. rewrite encb_len. reflexivity.
    + change (set_bfloat false v (Some 16)) with (Ok (encb false v)). cbn [bind]. rewrite encb_len. reflexivity.
    + (* bool *) unfold setbool. destruct (v =? 1) eqn:E1; [replace (v =? 0) with false by lia; reflexivity|].
      destruct (v =? 0); reflexivity.
    + apply build_digits_nolen; lia.
    + apply build_digits_nolen; lia.
    + apply build_digits_nolen; lia.
    + (* bytes *) unfold set_bytes. rewrite Z.eqb_refl, andb_true_r. case_if; reflexivity.
    + (* bits *) rewrite Z.eqb_refl. reflexivity.
Qed.

(* T3. an accepted value yields exactly the requested number of bits *)
Theorem content_len k length v bl : spec_len k length v = Some bl -> fitsb k bl v = true -> zlen (content k bl v) = bl.
Proof.
  unfold spec_len. destruct length as [l|].
  - destruct ((0 <=? l) && allowedb (kind_allowed k) l && negb (intlike k && (l =? 0))) eqn:H; [|discriminate].
    intros [= <-] Hf.
    destruct k; cbn [kind_allowed allowedb mult intlike fitsb content vtyp existsb] in *; try rewrite Z.mul_1_r in *;
      try (apply zlen_in_range_content; lia);
      try (rewrite zlen_swapbytes; [apply zlen_in_range_content; lia|unfold whole; rewrite zlen_in_range_content by lia; lia]);
      try (apply enc_len; cbn [In]; lia);
      try (rewrite encb_len; lia);
      try (unfold digits_fit in Hf; rewrite zlen_flat_enc by lia; lia).
    + change (zlen [v =? 1]) with 1. lia.
    + rewrite zlen_frombytes. lia.
    + lia.
    + rewrite zlen_repeat. lia.
  - destruct k; cbn [default_len fitsb content vtyp]; try discriminate; intros [= <-] Hf;
      try (rewrite encb_len; reflexivity); try (rewrite zlen_flat_enc by lia; reflexivity).
    + reflexivity.
    + apply zlen_frombytes.
    + reflexivity.
    + reflexivity.
Qed.

(* T4. TOTAL CLASSIFICATION of Dtype(kind, length).build(value): it returns a bitstring b iff the length is accepted for
   the kind and the value fits; b is then exactly the encoding of the value and has exactly the requested bit length;
   every failure is a ValueError. *)
Theorem build_classification k length v :
  (forall b, build k length v = Ok b <->
     exists bl, spec_len k length v = Some bl /\ fitsb k bl v = true /\ b = content k bl v /\ zlen b = bl) /\
  (forall e, build k length v = Err e -> e = ValueError).
Proof.
  rewrite build_eq_spec. unfold spec. destruct (spec_len k length v) as [bl|] eqn:Hs.
  - destruct (fitsb k bl v) eqn:Hf; split.
    + intros b. split.
      * intros [= <-]. exists bl. repeat split; try assumption. eapply content_len; eassumption.
      * intros [bl' [[= <-] [_ [-> _]]]]. reflexivity.
    + discriminate.
    + intros b. split; [discriminate|]. intros [bl' [[= <-] [Hf' _]]]. congruence.
    + intros e [= <-]. reflexivity.
  - split.
    + intros b. split; [discriminate|]. intros [bl' [Hx _]]. discriminate.
    + intros e [= <-]. reflexivity.
Qed.

(* T5. with a stated length, success means exactly length * multiplier bits (multiplier 8 for bytes, else 1) *)
Theorem build_stated_length k l v b : build k (Some l) v = Ok b -> 0 <= l /\ zlen b = l * mult k.
Proof.
  intros H. apply build_classification in H. destruct H as [bl [Hs [_ [_ Hl]]]].
  unfold spec_len in Hs.
  destruct ((0 <=? l) && allowedb (kind_allowed k) l && negb (intlike k && (l =? 0))) eqn:Hc; [|discriminate].
  injection Hs as <-. split; [lia|exact Hl].
Qed.

(* T6. the keyword route Bits(<kind>=value, length=length) is the same function for every kind except bytes *)
Theorem create_kw_eq_build k length v : k <> KBytes -> create_kw k length v = build k length v.
Proof.
  intros Hk. unfold create_kw.
  destruct (match length with Some l => l <? 0 | None => false end) eqn:Hneg.
  - destruct length as [l|]; [|discriminate]. rewrite build_eq_spec. unfold spec, spec_len.
    replace (0 <=? l) with false by lia. reflexivity.
  - destruct k; try reflexivity. congruence.
Qed.

(* T7. Bits(bytes=data, length=l): l counts BITS and the data is truncated to its first l bits; accepted iff every item is a
   byte and 0 <= l <= 8 * len(data); the result has exactly l bits; otherwise ValueError *)
Theorem create_kw_bytes_classification bs length :
  create_kw KBytes length bs =
  if forallb byte_ok bs && (match length with Some l => (0 <=? l) && (l <=? 8 * zlen bs) | None => true end)
  then Ok (match length with Some l => firstn (Z.to_nat l) (frombytes bs) | None => frombytes bs end)
  else Err ValueError.
Proof.
  unfold create_kw, create_kw_bytes, setbytes_with_truncation, check_window_args. destruct length as [l|].
  - destruct (l <? 0) eqn:Hneg.
    + replace (0 <=? l) with false by lia. cbn [andb]. rewrite andb_false_r. reflexivity.
    + replace (0 <=? l) with true by lia. destruct (forallb byte_ok bs); cbn [andb bind]; [|reflexivity].
      rewrite zlen_frombytes. destruct (l + 0 >? 8 * zlen bs) eqn:Hb.
      * replace (l <=? 8 * zlen bs) with false by lia. reflexivity.
      * replace (l <=? 8 * zlen bs) with true by lia. cbn [bind].
        rewrite seq_slice_unit by (rewrite ?zlen_frombytes; lia). rewrite Z.add_0_l, sub_0. reflexivity.
  - destruct (forallb byte_ok bs); reflexivity.
Qed.

Theorem create_kw_bytes_length bs l b : create_kw KBytes (Some l) bs = Ok b -> zlen b = l.
Proof.
  rewrite create_kw_bytes_classification.
  destruct (forallb byte_ok bs && ((0 <=? l) && (l <=? 8 * zlen bs))) eqn:H; [|discriminate].
  intros [= <-]. rewrite zlen_firstn, zlen_frombytes. lia.
Qed.

(* T8. the token route bitstore_from_token(name, length, value): the same function as build; only 'pad' may omit the value;
   so a token whose stated length disagrees with its value raises ValueError (by T4/T5) *)
Lemma check_len_idem bl b b' : check_len bl b = Ok b' -> check_len bl b' = Ok b'.
Proof.
  unfold check_len. destruct bl as [n|]; [|congruence].
  destruct (zlen b =? n) eqn:E; [|discriminate]. intros [= <-]. rewrite E. reflexivity.
Qed.

Theorem from_token_eq_build k length v : from_token k length (Some v) = build k length v.
Proof.
  unfold from_token, build. destruct (dtype_new k length) as [bl|e]; [|reflexivity]. cbn [bind].
  destruct (build_with k bl v) as [b|e] eqn:Hb; [|reflexivity]. cbn [bind].
  destruct length; [|reflexivity].
  unfold build_with in Hb. destruct (set_fn k 0 v bl) as [b0|e0]; [|discriminate]. cbn [bind] in Hb.
  eapply check_len_idem; eassumption.
Qed.

Theorem from_token_pad length : from_token KPad length None = build KPad length tt.
Proof. apply (from_token_eq_build KPad length tt). Qed.

Theorem from_token_needs_value k length : k <> KPad -> from_token k length None = Err ValueError.
Proof.
  intros Hk. unfold from_token. rewrite dtype_new_classification.
  destruct length as [l|].
  - destruct ((0 <=? l) && allowedb (kind_allowed k) l); cbn [bind]; [|reflexivity].
    destruct k; try reflexivity. congruence.
  - cbn [bind]. destruct k; try reflexivity. congruence.
Qed.

Theorem from_token_stated_length k l v b : from_token k (Some l) (Some v) = Ok b -> 0 <= l /\ zlen b = l * mult k.
Proof. rewrite from_token_eq_build. apply build_stated_length. Qed.

(* T9. property assignment on an existing bitstring of cur > 0 bits (a.uint = v, a.intle = v, a.float = f ... : the setter is
   called without a length): the new content has the old length, or ValueError is raised and nothing is assigned *)
Theorem assign_plain signed cur v : 0 < cur ->
  set_plain signed cur v None = if int_in_range signed cur v then Ok (in_range_content signed cur v) else Err ValueError.
Proof.
  intros Hc. unfold set_plain, eff_length. destruct (cur =? 0) eqn:E0; [lia|]. cbv beta iota. rewrite ?E0.
  apply int2bitstore_class. assumption.
Qed.

Theorem assign_endian signed le cur v : 0 < cur ->
  set_endian signed le cur v None =
  if (cur mod 8 =? 0) && int_in_range signed cur v
  then Ok (if le then swapbytes (in_range_content signed cur v) else in_range_content signed cur v)
  else Err ValueError.
Proof.
  intros Hc. unfold set_endian, eff_length. destruct (cur =? 0) eqn:E0; [lia|]. cbv beta iota. rewrite ?E0.
  destruct (cur mod 8 =? 0); cbn [negb andb]; [|reflexivity].
  unfold intle2bitstore. rewrite int2bitstore_class by assumption.
  destruct (int_in_range signed cur v); destruct le; reflexivity.
Qed.

Theorem assign_keeps_length signed le cur v b : 0 < cur ->
  (set_plain signed cur v None = Ok b -> zlen b = cur) /\ (set_endian signed le cur v None = Ok b -> zlen b = cur).
Proof.
  intros Hc. split.
  - rewrite assign_plain by assumption. destruct (int_in_range signed cur v); [|discriminate].
    intros [= <-]. apply zlen_in_range_content. lia.
  - rewrite assign_endian by assumption. destruct (cur mod 8 =? 0) eqn:E8; [|discriminate].
    destruct (int_in_range signed cur v); [|discriminate]. cbn [andb].
    assert (Hl : zlen (in_range_content signed cur v) = cur) by (apply zlen_in_range_content; lia).
    intros [= <-]. destruct le; [|exact Hl]. rewrite zlen_swapbytes; [exact Hl|]. unfold whole. rewrite Hl. lia.
Qed.


(* ------------------------------------------------------------------------------------------------ *)
(* 6. The classification spelled out kind by kind (instances of T2) *)
Ltac open_spec := rewrite build_eq_spec; unfold spec, spec_len;
  cbn [kind_allowed allowedb mult intlike fitsb content vtyp default_len existsb]; rewrite ?Z.mul_1_r;
  unfold int_in_range, in_range_content, digits_fit.
Ltac solve_iff :=
  split;
  [ let H := fresh in intros H; try discriminate H; injection H as <-; repeat split; try lia; try reflexivity
  | let H := fresh in intros H; decompose [and or] H; clear H; subst; try reflexivity; try lia ].

(* uint: a length >= 1 and 0 <= v < 2^l; the bits are the l-bit binary numeral of v *)
Corollary uint_created l v b : build KUint (Some l) v = Ok b <-> 0 < l /\ 0 <= v < 2 ^ l /\ b = enc_uint l v.
Proof.
  open_spec. destruct ((0 <=? l) && true && negb (true && (l =? 0))) eqn:Hc;
    [destruct ((0 <=? v) && (v <? 2 ^ l)) eqn:Hr|]; solve_iff.
Qed.

(* int: a length >= 1 and -2^(l-1) <= v < 2^(l-1); the bits are the l-bit two's complement of v *)
Corollary int_created l v b :
  build KInt (Some l) v = Ok b <-> 0 < l /\ - 2 ^ (l - 1) <= v < 2 ^ (l - 1) /\ b = enc_uint l (v mod 2 ^ l).
Proof.
  open_spec. destruct ((0 <=? l) && true && negb (true && (l =? 0))) eqn:Hc;
    [destruct ((- 2 ^ (l - 1) <=? v) && (v <? 2 ^ (l - 1))) eqn:Hr|]; solve_iff.
Qed.

(* uintle (= uintne on a little-endian host): a positive whole number of bytes, value in range, bytes reversed *)
Corollary uintle_created l v b :
  build KUintle (Some l) v = Ok b <-> 0 < l /\ l mod 8 = 0 /\ 0 <= v < 2 ^ l /\ b = swapbytes (enc_uint l v).
Proof.
  open_spec. destruct ((0 <=? l) && (l mod 8 =? 0) && negb (true && (l =? 0))) eqn:Hc;
    [destruct ((0 <=? v) && (v <? 2 ^ l)) eqn:Hr|]; solve_iff.
Qed.

(* intbe: a positive whole number of bytes, value in the signed range *)
Corollary intbe_created l v b :
  build KIntbe (Some l) v = Ok b <->
  0 < l /\ l mod 8 = 0 /\ - 2 ^ (l - 1) <= v < 2 ^ (l - 1) /\ b = enc_uint l (v mod 2 ^ l).
Proof.
  open_spec. destruct ((0 <=? l) && (l mod 8 =? 0) && negb (true && (l =? 0))) eqn:Hc;
    [destruct ((- 2 ^ (l - 1) <=? v) && (v <? 2 ^ (l - 1))) eqn:Hr|]; solve_iff.
Qed.

(* float / floatle: the length must be stated and be 16, 32 or 64 *)
Ltac float_tac length :=
  destruct length as [l|]; open_spec;
  [ destruct ((0 <=? l) && ((l =? 16) || ((l =? 32) || ((l =? 64) || false))) && negb (false && (l =? 0))) eqn:Hc; split;
    [ intros [= <-]; exists l; repeat split; try lia
    | intros [l' [[= <-] [Hl ->]]]; first [reflexivity | lia]
    | discriminate
    | intros [l' [[= <-] [Hl ->]]]; lia ]
  | split; [discriminate|intros [l' [Hx _]]; discriminate] ].
Corollary float_created length f b :
  build KFloat length f = Ok b <-> exists l, length = Some l /\ (l = 16 \/ l = 32 \/ l = 64) /\ b = enc true l f.
Proof. float_tac length. Qed.
Corollary floatle_created length f b :
  build KFloatle length f = Ok b <-> exists l, length = Some l /\ (l = 16 \/ l = 32 \/ l = 64) /\ b = enc false l f.
Proof. float_tac length. Qed.

(* bfloat / bfloatle: no length or 16 *)
Ltac bfloat_tac length :=
  destruct length as [l|]; open_spec;
  [ destruct ((0 <=? l) && ((l =? 16) || false) && negb (false && (l =? 0))) eqn:Hc; split;
    [ intros [= <-]; split; [right; f_equal; lia|reflexivity]
    | intros [[Hx|[= ->]] ->]; [discriminate|reflexivity]
    | discriminate
    | intros [[Hx|[= ->]] ->]; [discriminate|lia] ]
  | split; [intros [= <-]; split; [left|]; reflexivity|intros [_ ->]; reflexivity] ].
Corollary bfloat_created length f b :
  build KBfloat length f = Ok b <-> (length = None \/ length = Some 16) /\ b = encb true f.
Proof. bfloat_tac length. Qed.
Corollary bfloatle_created length f b :
  build KBfloatle length f = Ok b <-> (length = None \/ length = Some 16) /\ b = encb false f.
Proof. bfloat_tac length. Qed.

(* bool: no length or 1, and the value is 0/False or 1/True *)
Corollary bool_created length v b :
  build KBool length v = Ok b <-> (length = None \/ length = Some 1) /\ (v = 0 \/ v = 1) /\ b = [v =? 1].
Proof.
  destruct length as [l|]; open_spec.
  - destruct ((0 <=? l) && ((l =? 1) || false) && negb (false && (l =? 0))) eqn:Hc;
      [destruct ((v =? 0) || (v =? 1)) eqn:Hv|]; split;
      try discriminate; try (intros [= <-]; repeat split; try lia; right; f_equal; lia);
      intros [[Hx|[= ->]] [Hv' ->]]; try discriminate; first [reflexivity | lia].
  - destruct ((v =? 0) || (v =? 1)) eqn:Hv; split; try discriminate.
    + intros [= <-]. repeat split; [left; reflexivity|lia].
    + intros [_ [_ ->]]. reflexivity.
    + intros [_ [Hv' _]]. lia.
Qed.

(* hex with a stated length: every digit valid and exactly l / 4 digits (so l is a multiple of 4); same for oct (3) and bin (1) *)
Corollary hex_created l ds b :
  build KHex (Some l) ds = Ok b <->
  forallb (fun d => (0 <=? d) && (d <? 2 ^ 4)) ds = true /\ 4 * zlen ds = l /\ b = flat_map (enc_uint 4) ds.
Proof.
  pose proof (zlen_nonneg ds) as Hn. open_spec.
  destruct ((0 <=? l) && (l mod 4 =? 0) && negb (false && (l =? 0))) eqn:Hc.
  - destruct (forallb (fun d => (0 <=? d) && (d <? 2 ^ 4)) ds) eqn:Hd; cbn [andb].
    + destruct (4 * zlen ds =? l) eqn:Hl; solve_iff.
    + solve_iff; try discriminate.
  - split; [discriminate|]. intros [_ [Hl _]]. subst l. rewrite Z.mul_comm, Z.mod_mul in Hc by lia. lia.
Qed.

Corollary oct_created l ds b :
  build KOct (Some l) ds = Ok b <->
  forallb (fun d => (0 <=? d) && (d <? 2 ^ 3)) ds = true /\ 3 * zlen ds = l /\ b = flat_map (enc_uint 3) ds.
Proof.
  pose proof (zlen_nonneg ds) as Hn. open_spec.
  destruct ((0 <=? l) && (l mod 3 =? 0) && negb (false && (l =? 0))) eqn:Hc.
  - destruct (forallb (fun d => (0 <=? d) && (d <? 2 ^ 3)) ds) eqn:Hd; cbn [andb].
    + destruct (3 * zlen ds =? l) eqn:Hl; solve_iff.
    + solve_iff; try discriminate.
  - split; [discriminate|]. intros [_ [Hl _]]. subst l. rewrite Z.mul_comm, Z.mod_mul in Hc by lia. lia.
Qed.

Corollary bin_created l ds b :
  build KBin (Some l) ds = Ok b <->
  forallb (fun d => (0 <=? d) && (d <? 2 ^ 1)) ds = true /\ zlen ds = l /\ b = flat_map (enc_uint 1) ds.
Proof.
  pose proof (zlen_nonneg ds) as Hn. open_spec.
  destruct ((0 <=? l) && true && negb (false && (l =? 0))) eqn:Hc.
  - destruct (forallb (fun d => (0 <=? d) && (d <? 2 ^ 1)) ds) eqn:Hd; cbn [andb].
    + destruct (1 * zlen ds =? l) eqn:Hl; solve_iff.
    + solve_iff; try discriminate.
  - solve_iff.
Qed.

(* hex without a length: any valid digit string, 4 bits per digit (oct: 3, bin: 1 alike, see T2) *)
Corollary hex_created_nolen ds b :
  build KHex None ds = Ok b <-> forallb (fun d => (0 <=? d) && (d <? 2 ^ 4)) ds = true /\ b = flat_map (enc_uint 4) ds.
Proof.
  open_spec. rewrite Z.eqb_refl, andb_true_r.
  destruct (forallb (fun d => (0 <=? d) && (d <? 2 ^ 4)) ds) eqn:Hd; solve_iff; try discriminate.
Qed.

(* bytes through Dtype('bytes', l).build(data): l counts BYTES; every item a byte and exactly l of them *)
Corollary bytes_created l bs b :
  build KBytes (Some l) bs = Ok b <-> forallb byte_ok bs = true /\ zlen bs = l /\ b = frombytes bs.
Proof.
  pose proof (zlen_nonneg bs) as Hn. open_spec.
  destruct ((0 <=? l) && true && negb (false && (l =? 0))) eqn:Hc.
  - destruct (forallb byte_ok bs) eqn:Hd; cbn [andb].
    + destruct (8 * zlen bs =? l * 8) eqn:Hl; solve_iff.
    + solve_iff; try discriminate.
  - solve_iff.
Qed.

(* bits: the value must have exactly the stated length *)
Corollary bits_created l (x : bits) b : build KBits (Some l) x = Ok b <-> zlen x = l /\ b = x.
Proof.
  pose proof (zlen_nonneg x) as Hn. open_spec.
  destruct ((0 <=? l) && true && negb (false && (l =? 0))) eqn:Hc; [destruct (zlen x =? l) eqn:Hl|]; solve_iff.
Qed.

(* pad: any length >= 0 gives that many zero bits; no length gives none *)
Corollary pad_created length b :
  build KPad length tt = Ok b <->
  match length with Some l => 0 <= l /\ b = repeat false (Z.to_nat l) | None => b = [] end.
Proof.
  destruct length as [l|]; open_spec.
  - destruct ((0 <=? l) && true && negb (false && (l =? 0))) eqn:Hc; solve_iff.
  - split; [intros [= <-]; reflexivity|intros ->; reflexivity].
Qed.

End Create.

(* ------------------------------------------------------------------------------------------------ *)
(* 7. "never wrapped": an accepted integer is read back unchanged (be / plain kinds: _getuint/_getint; le kinds: _getuintle/_getintle) *)
Theorem accepted_int_decodes signed n v : 0 < n -> int_in_range signed n v = true ->
  ba2int (in_range_content signed n v) signed = Ok v /\
  (n mod 8 = 0 -> (if signed then getintle else getuintle) (swapbytes (in_range_content signed n v)) = Ok v).
Proof.
  intros Hn Hr.
  assert (Hd : ba2int (in_range_content signed n v) signed = Ok v).
  { unfold in_range_content, int_in_range in *. destruct signed; [apply int_encode; lia|apply uint_encode; lia]. }
  split; [exact Hd|]. intros H8.
  assert (Hl : zlen (in_range_content signed n v) = n) by (apply zlen_in_range_content; lia).
  assert (Hw : whole (in_range_content signed n v)) by (unfold whole; rewrite Hl; exact H8).
  destruct signed; unfold getintle, getuintle; rewrite zlen_swapbytes by exact Hw; rewrite Hl;
    replace (n mod 8 =? 0) with true by lia;
    fold (swapbytes (swapbytes (in_range_content true n v))); fold (swapbytes (swapbytes (in_range_content false n v)));
    rewrite swapbytes_involutive by exact Hw; exact Hd.
Qed.

(* the literal tokens '0x' '0o' '0b' (bitstore_from_token's first branch) are the digit encoders themselves *)
Theorem literal_classification w ds : 0 <= w ->
  digits2bits w ds = (if forallb (fun d => (0 <=? d) && (d <? 2 ^ w)) ds then Ok (flat_map (enc_uint w) ds) else Err ValueError)
  /\ zlen (flat_map (enc_uint w) ds) = w * zlen ds.
Proof. intros Hw. split; [reflexivity|apply zlen_flat_enc; exact Hw]. Qed.

(* ------------------------------------------------------------------------------------------------ *)
(* 8. Concrete calls, each checked against the library (the Python call and its observed result are in the comment).
      Floats are abstract in the model: the instance below only has the right lengths, so float cases show the length. *)
Definition E (be : bool) (n : Z) (f : Z) : bits := enc_uint n f.
Definition EB (be : bool) (f : Z) : bits := enc_uint 16 f.
(* the Section hypotheses are satisfiable *)
Example enc_hyps_satisfiable :
  (forall be n f, In n [16; 32; 64] -> zlen (E be n f) = n) /\ (forall be f, zlen (EB be f) = 16).
Proof. split; intros; apply zlen_enc_uint; cbn [In] in *; lia. Qed.

Notation KW := (create_kw Z E EB).
Notation BD := (build Z E EB).
Notation TK := (from_token Z E EB).
Definition show (r : res bits) : res (string * Z) := match r with Ok b => Ok (to01 b, zlen b) | Err e => Err e end.
Definition len_of (r : res bits) : res Z := match r with Ok b => Ok (zlen b) | Err e => Err e end.
Local Open Scope string_scope.
Ltac run := vm_compute; reflexivity.

(* --- keyword route --- *)
Example e01 : len_of (KW KFloat (Some 24) 1) = Err ValueError. Proof. run. Qed.        (* Bits(float=1.0, length=24): CreationError *)
Example e02 : len_of (KW KFloat (Some 32) 1) = Ok 32. Proof. run. Qed.                  (* Bits(float=1.0, length=32): 32 bits *)
Example e03 : len_of (KW KFloat None 1) = Err ValueError. Proof. run. Qed.              (* Bits(float=1.0): CreationError *)
Example e04 : len_of (KW KFloat (Some 0) 1) = Err ValueError. Proof. run. Qed.          (* Bits(float=1.0, length=0) *)
Example e05 : len_of (KW KFloat (Some (-1)) 1) = Err ValueError. Proof. run. Qed.       (* Bits(float=1.0, length=-1) *)
Example e06 : len_of (KW KFloatle (Some 16) 1) = Ok 16. Proof. run. Qed.                (* Bits(floatle=1.0, length=16): 16 bits *)
Example e07 : len_of (KW KBfloat None 1) = Ok 16. Proof. run. Qed.                      (* Bits(bfloat=1.0): 16 bits *)
Example e08 : len_of (KW KBfloat (Some 32) 1) = Err ValueError. Proof. run. Qed.        (* Bits(bfloat=1.0, length=32) *)
Example e09 : len_of (KW KBfloatle (Some 8) 1) = Err ValueError. Proof. run. Qed.       (* Bits(bfloatle=1.0, length=8) *)
Example e10 : show (KW KUintle (Some 12) 1) = Err ValueError. Proof. run. Qed.          (* Bits(uintle=1, length=12) *)
Example e11 : show (KW KUintle (Some 16) 1) = Ok ("0000000100000000", 16). Proof. run. Qed.   (* Bits(uintle=1, length=16) *)
Example e12 : show (KW KUintle (Some 0) 1) = Err ValueError. Proof. run. Qed.           (* Bits(uintle=1, length=0) *)
Example e13 : show (KW KUintle None 1) = Err ValueError. Proof. run. Qed.               (* Bits(uintle=1) *)
Example e14 : show (KW KUintle (Some (-8)) 1) = Err ValueError. Proof. run. Qed.        (* Bits(uintle=1, length=-8) *)
Example e15 : show (KW KUintbe (Some 16) 65536) = Err ValueError. Proof. run. Qed.      (* Bits(uintbe=65536, length=16) *)
Example e16 : show (KW KIntbe (Some 16) (-32768)) = Ok ("1000000000000000", 16). Proof. run. Qed.  (* Bits(intbe=-32768, length=16) *)
Example e17 : show (KW KIntbe (Some 16) (-32769)) = Err ValueError. Proof. run. Qed.    (* Bits(intbe=-32769, length=16) *)
Example e18 : show (KW KIntle (Some 24) (-2)) = Ok ("111111101111111111111111", 24). Proof. run. Qed.  (* Bits(intle=-2, length=24) *)
Example e19 : show (KW KBool (Some 2) 1) = Err ValueError. Proof. run. Qed.             (* Bits(bool=True, length=2) *)
Example e20 : show (KW KBool (Some 1) 1) = Ok ("1", 1). Proof. run. Qed.                (* Bits(bool=True, length=1) *)
Example e21 : show (KW KBool None 1) = Ok ("1", 1). Proof. run. Qed.                    (* Bits(bool=True) *)
Example e22 : show (KW KBool (Some 0) 1) = Err ValueError. Proof. run. Qed.             (* Bits(bool=True, length=0) *)
Example e23 : show (KW KBool None 2) = Err ValueError. Proof. run. Qed.                 (* Bits(bool=2) *)
Example e24 : show (KW KBool None 0) = Ok ("0", 1). Proof. run. Qed.                    (* Bits(bool=0) *)
Example e25 : show (KW KHex (Some 8) [10; 11; 12]) = Err ValueError. Proof. run. Qed.   (* Bits(hex='abc', length=8) *)
Example e26 : show (KW KHex (Some 12) [10; 11; 12]) = Ok ("101010111100", 12). Proof. run. Qed.  (* Bits(hex='abc', length=12) *)
Example e27 : show (KW KHex (Some 10) [10; 11; 12]) = Err ValueError. Proof. run. Qed.  (* Bits(hex='abc', length=10) *)
Example e28 : show (KW KHex None [10; 11; 12]) = Ok ("101010111100", 12). Proof. run. Qed.       (* Bits(hex='abc') *)
Example e29 : show (KW KHex (Some 0) []) = Ok ("", 0). Proof. run. Qed.                 (* Bits(hex='', length=0): empty *)
Example e30 : show (KW KHex (Some 0) [10]) = Err ValueError. Proof. run. Qed.           (* Bits(hex='a', length=0) *)
Example e31 : show (KW KHex None [10; 11; 16]) = Err ValueError. Proof. run. Qed.       (* Bits(hex='abg') *)
Example e32 : show (KW KOct (Some 3) [7]) = Ok ("111", 3). Proof. run. Qed.             (* Bits(oct='7', length=3) *)
Example e33 : show (KW KOct (Some 4) [7]) = Err ValueError. Proof. run. Qed.            (* Bits(oct='7', length=4) *)
Example e34 : show (KW KOct (Some 3) [7; 7]) = Err ValueError. Proof. run. Qed.         (* Bits(oct='77', length=3) *)
Example e35 : show (KW KBin (Some 3) [1; 0; 1]) = Ok ("101", 3). Proof. run. Qed.       (* Bits(bin='101', length=3) *)
Example e36 : show (KW KBin (Some 2) [1; 0; 1]) = Err ValueError. Proof. run. Qed.      (* Bits(bin='101', length=2) *)
Example e37 : show (KW KBin (Some 0) []) = Ok ("", 0). Proof. run. Qed.                 (* Bits(bin='', length=0) *)
Example e38 : show (KW KBin None [1; 0; 2]) = Err ValueError. Proof. run. Qed.          (* Bits(bin='102') *)
Example e39 : show (KW KBytes (Some 16) [97; 98]) = Ok ("0110000101100010", 16). Proof. run. Qed.  (* Bits(bytes=b'ab', length=16) *)
Example e40 : show (KW KBytes (Some 12) [97; 98]) = Ok ("011000010110", 12). Proof. run. Qed.      (* Bits(bytes=b'ab', length=12): truncated, by design *)
Example e41 : show (KW KBytes (Some 17) [97; 98]) = Err ValueError. Proof. run. Qed.    (* Bits(bytes=b'ab', length=17) *)
Example e42 : show (KW KBytes (Some 0) [97; 98]) = Ok ("", 0). Proof. run. Qed.         (* Bits(bytes=b'ab', length=0) *)
Example e43 : show (KW KBytes (Some (-1)) [97; 98]) = Err ValueError. Proof. run. Qed.  (* Bits(bytes=b'ab', length=-1) *)
Example e44 : show (KW KBytes None [1; 2; 300]) = Err ValueError. Proof. run. Qed.      (* Bits(bytes=[1,2,300]): ValueError *)
Example e45 : show (KW KBits (Some 3) [true; false; true]) = Ok ("101", 3). Proof. run. Qed.       (* Bits(bits='0b101', length=3) *)
Example e46 : show (KW KBits (Some 4) [true; false; true]) = Err ValueError. Proof. run. Qed.      (* Bits(bits='0b101', length=4) *)
Example e47 : show (KW KPad (Some 5) tt) = Ok ("00000", 5). Proof. run. Qed.            (* Bits(pad=None, length=5) *)
Example e48 : show (KW KPad None tt) = Ok ("", 0). Proof. run. Qed.                     (* Bits(pad=None) *)
Example e49 : show (KW KUint (Some 0) 0) = Err ValueError. Proof. run. Qed.             (* Bits(uint=0, length=0) *)
Example e50 : show (KW KUint None 0) = Err ValueError. Proof. run. Qed.                 (* Bits(uint=0) *)
Example e51 : show (KW KUint (Some (-1)) 0) = Err ValueError. Proof. run. Qed.          (* Bits(uint=0, length=-1) *)
Example e52 : show (KW KUint (Some 1) 2) = Err ValueError. Proof. run. Qed.             (* Bits(uint=2, length=1) *)
Example e53 : show (KW KUint (Some 8) (-1)) = Err ValueError. Proof. run. Qed.          (* Bits(uint=-1, length=8) *)
Example e54 : show (KW KInt (Some 1) (-1)) = Ok ("1", 1). Proof. run. Qed.              (* Bits(int=-1, length=1) *)
Example e55 : show (KW KInt (Some 1) 1) = Err ValueError. Proof. run. Qed.              (* Bits(int=1, length=1) *)
Example e56 : show (KW KUint (Some 8) 255) = Ok ("11111111", 8). Proof. run. Qed.       (* Bits(uint8=255) = Bits(uint=255, length=8) *)
(* --- Dtype(name, length) --- *)
Example d01 : dtype_new KBytes (Some 0) = Ok (Some 0). Proof. run. Qed.                 (* Dtype('bytes', 0): bitlength 0 *)
Example d02 : dtype_new KUint (Some (-1)) = Err ValueError. Proof. run. Qed.            (* Dtype('uint', -1) *)
Example d03 : dtype_new KUint (Some 0) = Ok (Some 0). Proof. run. Qed.                  (* Dtype('uint', 0) exists (its build refuses) *)
Example d04 : dtype_new KBool None = Ok (Some 1). Proof. run. Qed.                      (* Dtype('bool'): length 1 *)
Example d05 : dtype_new KBool (Some 0) = Err ValueError. Proof. run. Qed.               (* Dtype('bool', 0) *)
Example d06 : dtype_new KHex (Some 3) = Err ValueError. Proof. run. Qed.                (* Dtype('hex', 3) *)
Example d07 : dtype_new KHex (Some (-4)) = Err ValueError. Proof. run. Qed.             (* Dtype('hex', -4) *)
Example d08 : dtype_new KOct (Some 6) = Ok (Some 6). Proof. run. Qed.                   (* Dtype('oct', 6) *)
Example d09 : dtype_new KUintle (Some 0) = Ok (Some 0). Proof. run. Qed.                (* Dtype('uintle', 0) exists although 0 is not in (8, 16, 24, ...) *)
Example d10 : dtype_new KUintle (Some 24) = Ok (Some 24). Proof. run. Qed.              (* Dtype('uintle', 24) *)
Example d11 : dtype_new KFloat None = Ok None. Proof. run. Qed.                         (* Dtype('float'): no length *)
Example d12 : dtype_new KBfloat None = Ok (Some 16). Proof. run. Qed.                   (* Dtype('bfloat'): 16 *)
Example d13 : dtype_new KBytes (Some 3) = Ok (Some 24). Proof. run. Qed.                (* Dtype('bytes', 3): bitlength 24 *)
Example d14 : dtype_new KPad (Some (-1)) = Err ValueError. Proof. run. Qed.             (* Dtype('pad', -1) *)
Example d15 : dtype_new KFloat (Some 0) = Err ValueError. Proof. run. Qed.              (* Dtype('float', 0) *)
(* --- Dtype(...).build(value) --- *)
Example b01 : show (BD KBytes (Some 1) [97; 98]) = Err ValueError. Proof. run. Qed.     (* Dtype('bytes', 1).build(b'ab') *)
Example b02 : show (BD KBytes (Some 2) [97; 98]) = Ok ("0110000101100010", 16). Proof. run. Qed.  (* Dtype('bytes', 2).build(b'ab') *)
Example b03 : show (BD KBytes (Some 0) [97]) = Err ValueError. Proof. run. Qed.         (* Dtype('bytes', 0).build(b'a') *)
Example b04 : show (BD KUint (Some 0) 0) = Err ValueError. Proof. run. Qed.             (* Dtype('uint', 0).build(0) *)
Example b05 : show (BD KUintle (Some 0) 0) = Err ValueError. Proof. run. Qed.           (* Dtype('uintle', 0).build(0) *)
Example b06 : show (BD KHex (Some 8) [10; 11; 12]) = Err ValueError. Proof. run. Qed.   (* Dtype('hex', 8).build('abc') *)
Example b07 : show (BD KBin (Some 0) [1; 0; 1]) = Err ValueError. Proof. run. Qed.      (* Dtype('bin', 0).build('101') *)
Example b08 : show (BD KPad None tt) = Ok ("", 0). Proof. run. Qed.                     (* Dtype('pad').build(None) *)
Example b09 : show (BD KIntbe (Some 8) (-129)) = Err ValueError. Proof. run. Qed.       (* Dtype('intbe', 8).build(-129) *)
Example b10 : len_of (BD KFloat None 1) = Err ValueError. Proof. run. Qed.              (* Dtype('float').build(1.0) *)
(* --- token route --- *)
Example t01 : show (TK KOct (Some 4) (Some [7])) = Err ValueError. Proof. run. Qed.     (* Bits('oct:4=7') *)
Example t02 : show (TK KOct (Some 3) (Some [7])) = Ok ("111", 3). Proof. run. Qed.      (* Bits('oct:3=7') *)
Example t03 : show (TK KOct (Some 3) (Some [7; 7])) = Err ValueError. Proof. run. Qed.  (* Bits('oct:3=77') *)
Example t04 : show (TK KHex (Some 8) (Some [10; 11; 12])) = Err ValueError. Proof. run. Qed.  (* Bits('hex:8=abc') *)
Example t05 : show (TK KUint (Some 0) (Some 0)) = Err ValueError. Proof. run. Qed.      (* Bits('uint:0=0') *)
Example t06 : show (TK KUint (Some 8) (Some 256)) = Err ValueError. Proof. run. Qed.    (* Bits('uint:8=256') *)
Example t07 : show (TK KUint (Some 8) (Some 255)) = Ok ("11111111", 8). Proof. run. Qed.      (* Bits('uint8=255') *)
Example t08 : show (TK KBool (Some 2) (Some 1)) = Err ValueError. Proof. run. Qed.      (* Bits('bool:2=1') *)
Example t09 : show (TK KUintle (Some 12) (Some 1)) = Err ValueError. Proof. run. Qed.   (* Bits('uintle:12=1') *)
Example t10 : show (TK KPad (Some 3) None) = Ok ("000", 3). Proof. run. Qed.            (* Bits('pad:3') *)
Example t11 : show (TK KUint (Some 8) None) = Err ValueError. Proof. run. Qed.          (* bitstore_from_token('uint', 8, None) *)
Example t12 : show (TK KBits (Some 2) (Some [true; false; true])) = Err ValueError. Proof. run. Qed.  (* Bits('bits:2=0b101') *)
Example t13 : show (TK KInt (Some 1) (Some (-1))) = Ok ("1", 1). Proof. run. Qed.       (* Bits('int:1=-1') *)
Example t14 : show (TK KPad (Some (-1)) None) = Err ValueError. Proof. run. Qed.        (* bitstore_from_token('pad', -1, None) *)
Example t15 : show (TK KUint None (Some 3)) = Err ValueError. Proof. run. Qed.          (* Bits('uint=3') *)
Example t16 : len_of (TK KBfloat None (Some 1)) = Ok 16. Proof. run. Qed.               (* Bits('bfloat=1.0'): 16 bits *)
(* --- property assignment on an existing BitArray --- *)
Example a01 : show (set_endian false true 12 5 None) = Err ValueError. Proof. run. Qed. (* a = BitArray(12); a.uintle = 5: CreationError, a unchanged *)
Example a02 : show (set_plain false 12 5 None) = Ok ("000000000101", 12). Proof. run. Qed.    (* a = BitArray(12); a.uint = 5 *)
Example a03 : show (set_plain false 12 4096 None) = Err ValueError. Proof. run. Qed.    (* a = BitArray(12); a.uint = 4096 *)
Example a04 : show (set_endian true true 16 (-2) None) = Ok ("1111111011111111", 16). Proof. run. Qed.  (* a = BitArray(16); a.intle = -2 *)
Example a05 : show (set_plain false 0 0 None) = Err ValueError. Proof. run. Qed.        (* a = BitArray(); a.uint = 0 *)

Print Assumptions dtype_new_classification.
Print Assumptions build_eq_spec.
Print Assumptions content_len.
Print Assumptions build_classification.
Print Assumptions build_stated_length.
Print Assumptions create_kw_eq_build.
Print Assumptions create_kw_bytes_classification.
Print Assumptions create_kw_bytes_length.
Print Assumptions from_token_eq_build.
Print Assumptions from_token_pad.
Print Assumptions from_token_needs_value.
Print Assumptions from_token_stated_length.
Print Assumptions assign_plain.
Print Assumptions assign_endian.
Print Assumptions assign_keeps_length.
Print Assumptions accepted_int_decodes.
Print Assumptions literal_classification.
Print Assumptions uint_created.
Print Assumptions int_created.
Print Assumptions uintle_created.
Print Assumptions intbe_created.
Print Assumptions float_created.
Print Assumptions floatle_created.
Print Assumptions bfloat_created.
Print Assumptions bfloatle_created.
Print Assumptions bool_created.
Print Assumptions hex_created.
Print Assumptions oct_created.
Print Assumptions bin_created.
Print Assumptions hex_created_nolen.
Print Assumptions bytes_created.
Print Assumptions bits_created.
Print Assumptions pad_created.
