(* CaseLib.v — boolean comparisons used by the generated correspondence files (cases_*.v). *)
From BS Require Import Prims.
Open Scope Z_scope.

Definition res_eqb {A} (eqb : A -> A -> bool) (a b : res A) : bool :=
  match a, b with
  | Ok x, Ok y => eqb x y
  | Err e, Err f => exn_eqb e f
  | _, _ => false
  end.

Fixpoint list_eqb {A} (eqb : A -> A -> bool) (a b : list A) : bool :=
  match a, b with
  | [], [] => true
  | x :: a', y :: b' => eqb x y && list_eqb eqb a' b'
  | _, _ => false
  end.

Definition pair_eqb {A B} (ea : A -> A -> bool) (eb : B -> B -> bool) (a b : A * B) : bool :=
  ea (fst a) (fst b) && eb (snd a) (snd b).

Definition opt_eqb {A} (eqb : A -> A -> bool) (a b : option A) : bool :=
  match a, b with
  | None, None => true
  | Some x, Some y => eqb x y
  | _, _ => false
  end.

Definition bits_eqb : bits -> bits -> bool := list_eqb Bool.eqb.
Definition zz_eqb : Z * Z -> Z * Z -> bool := pair_eqb Z.eqb Z.eqb.
Definition rbits_eqb := res_eqb bits_eqb.
Definition rz_eqb := res_eqb Z.eqb.
Definition rzz_eqb := res_eqb zz_eqb.
Definition rbool_eqb := res_eqb Bool.eqb.
Definition zlist_eqb := list_eqb Z.eqb.
Definition unit_eqb (a b : unit) := true.
