(* BitwiseProofs.v — C16: & | ^ ~ << >> on the model are per-bit boolean functions of fixed
   length and agree with the integer operators on the unsigned value masked to len bits. *)
From BS Require Import Prims BitsCore SeqProofs.
From Coq Require Import ZifyBool.
Open Scope Z_scope.

(* ---------- map2 ---------- *)
Lemma map2_length {A} (f : A -> A -> A) a b : length a = length b -> length (map2 f a b) = length a.
Proof. revert b. induction a; destruct b; simpl; intros; try lia. f_equal. apply IHa. lia. Qed.

Lemma map2_nth (f : bool -> bool -> bool) a : forall b i, length a = length b -> (i < length a)%nat ->
  nth i (map2 f a b) false = f (nth i a false) (nth i b false).
Proof.
  induction a as [|x a IH]; intros b i Hl Hi; [simpl in Hi; lia|].
  destruct b as [|y b]; [discriminate|]. destruct i; [reflexivity|].
  cbn [map2 nth]. apply IH; simpl in *; lia.
Qed.

Lemma map2_app {A} (f : A -> A -> A) a1 : forall b1 a2 b2, length a1 = length b1 ->
  map2 f (a1 ++ a2) (b1 ++ b2) = map2 f a1 b1 ++ map2 f a2 b2.
Proof.
  induction a1; destruct b1; simpl; intros; try lia; [reflexivity|]. f_equal. apply IHa1. lia.
Qed.

(* ---------- operators are pointwise, fixed length ---------- *)
Theorem bitop_pointwise f a b : zlen a = zlen b -> ba_bitop f a b = Ok (map2 f a b).
Proof. intros H. unfold ba_bitop. rewrite H, Z.eqb_refl. reflexivity. Qed.

Theorem bitop_mismatch f a b : zlen a <> zlen b -> ba_bitop f a b = Err ValueError.
Proof. intros H. unfold ba_bitop. destruct (zlen a =? zlen b) eqn:E; [lia|reflexivity]. Qed.

Theorem bitop_length f a b r : ba_bitop f a b = Ok r -> zlen r = zlen a.
Proof.
  unfold ba_bitop. destruct (zlen a =? zlen b) eqn:E; [|discriminate]. intros [= <-].
  unfold zlen in *. rewrite map2_length; lia.
Qed.

Theorem invert_pointwise a : a <> [] -> bs_invert a = Ok (map negb a).
Proof. intros H. unfold bs_invert. destruct a; [congruence|]. rewrite zlen_cons. pose proof (zlen_nonneg a). destruct (1 + zlen a =? 0) eqn:E; [lia|reflexivity]. Qed.

Theorem invert_empty : bs_invert [] = Err BsError.
Proof. reflexivity. Qed.

(* the self-operand shortcut of & and | returns the operand's value: same as the general path *)
Lemma map2_idem (f : bool -> bool -> bool) a : (forall x, f x x = x) -> map2 f a a = a.
Proof. intros H. induction a; simpl; [reflexivity|]. now rewrite H, IHa. Qed.
Theorem and_self_shortcut_sound a : bs_and true a a = bs_and false a a.
Proof. unfold bs_and. rewrite bitop_pointwise by reflexivity. rewrite map2_idem; [reflexivity|]. destruct x; reflexivity. Qed.
Theorem or_self_shortcut_sound a : bs_or true a a = bs_or false a a.
Proof. unfold bs_or. rewrite bitop_pointwise by reflexivity. rewrite map2_idem; [reflexivity|]. destruct x; reflexivity. Qed.

(* ---------- algebraic laws ---------- *)
Theorem invert_involutive a : a <> [] -> (do x <- bs_invert a; bs_invert x) = Ok a.
Proof.
  intros H. rewrite invert_pointwise by exact H. cbn [bind]. rewrite invert_pointwise by (destruct a; [congruence|discriminate]).
  f_equal. rewrite map_map. rewrite <- (map_id a) at 2. apply map_ext. intros []; reflexivity.
Qed.

Theorem xor_self_zero a : bs_xor a a = Ok (repeat false (length a)).
Proof. unfold bs_xor. rewrite bitop_pointwise by reflexivity. f_equal. induction a as [|x a IH]; [reflexivity|]. cbn. rewrite IH. destruct x; reflexivity. Qed.

Theorem de_morgan_and a b : zlen a = zlen b -> a <> [] ->
  (do x <- bs_and false a b; bs_invert x) = (do na <- bs_invert a; do nb <- bs_invert b; bs_or false na nb).
Proof.
  intros Hl Ha. assert (Hb : b <> []) by (destruct b; [destruct a; [congruence|rewrite zlen_cons, zlen_nil in Hl; pose proof (zlen_nonneg a); lia]|discriminate]).
  unfold bs_and, bs_or. rewrite bitop_pointwise by exact Hl. cbn [bind].
  rewrite !invert_pointwise; auto.
  2:{ destruct a; [congruence|]. destruct b; [congruence|]. discriminate. }
  cbn [bind]. rewrite bitop_pointwise by (rewrite !zlen_map; exact Hl). f_equal.
  clear Ha Hb. revert b Hl. induction a as [|x a IH]; intros [|y b] Hl; try reflexivity.
  cbn. rewrite IH by (rewrite !zlen_cons in Hl; lia). destruct x, y; reflexivity.
Qed.

Theorem de_morgan_or a b : zlen a = zlen b -> a <> [] ->
  (do x <- bs_or false a b; bs_invert x) = (do na <- bs_invert a; do nb <- bs_invert b; bs_and false na nb).
Proof.
  intros Hl Ha. assert (Hb : b <> []) by (destruct b; [destruct a; [congruence|rewrite zlen_cons, zlen_nil in Hl; pose proof (zlen_nonneg a); lia]|discriminate]).
  unfold bs_and, bs_or. rewrite bitop_pointwise by exact Hl. cbn [bind].
  rewrite !invert_pointwise; auto.
  2:{ destruct a; [congruence|]. destruct b; [congruence|]. discriminate. }
  cbn [bind]. rewrite bitop_pointwise by (rewrite !zlen_map; exact Hl). f_equal.
  clear Ha Hb. revert b Hl. induction a as [|x a IH]; intros [|y b] Hl; try reflexivity.
  cbn. rewrite IH by (rewrite !zlen_cons in Hl; lia). destruct x, y; reflexivity.
Qed.

Lemma nonempty_zlen_pos {A} (b : list A) : b <> [] -> 0 < zlen b.
Proof. destruct b as [|x t]; [congruence|]. intros _. rewrite zlen_cons. pose proof (zlen_nonneg t). lia. Qed.

(* ---------- shifts ---------- *)
Lemma absolute_slice_spec b s e : 0 <= s -> s <= e -> e <= zlen b -> absolute_slice b s e = Ok (sub b s e).
Proof.
  intros Hs Hse He. unfold absolute_slice. destruct (e =? s) eqn:E.
  - apply Z.eqb_eq in E. subst. unfold sub. rewrite Z.sub_diag. reflexivity.
  - destruct (s <? e) eqn:E2; [|lia]. unfold getslice_msb0. apply seq_slice_unit; lia.
Qed.

Theorem lshift_spec b n : 0 <= n -> b <> [] ->
  bs_lshift b n = Ok (skipn (Z.to_nat (Z.min n (zlen b))) b ++ repeat false (Z.to_nat (Z.min n (zlen b)))).
Proof.
  intros Hn Hb. unfold bs_lshift. destruct (n <? 0) eqn:E; [lia|].
  assert (Hl : 0 < zlen b) by (apply nonempty_zlen_pos; exact Hb).
  destruct (zlen b =? 0) eqn:E0; [lia|].
  rewrite absolute_slice_spec by lia. cbn [bind]. rewrite sub_to_end. reflexivity.
Qed.

Theorem rshift_spec b n : 0 <= n -> b <> [] ->
  bs_rshift b n = Ok (repeat false (Z.to_nat (Z.min n (zlen b))) ++ firstn (Z.to_nat (zlen b - Z.min n (zlen b))) b).
Proof.
  intros Hn Hb. unfold bs_rshift. destruct (n <? 0) eqn:E; [lia|].
  assert (Hl : 0 < zlen b) by (apply nonempty_zlen_pos; exact Hb).
  destruct (zlen b =? 0) eqn:E0; [lia|].
  destruct (n =? 0) eqn:E1.
  - apply Z.eqb_eq in E1. subst n. replace (Z.min 0 (zlen b)) with 0 by lia. cbn [Z.to_nat repeat app].
    rewrite Z.sub_0_r. unfold zlen. rewrite Nat2Z.id, firstn_all. reflexivity.
  - rewrite absolute_slice_spec by lia. cbn [bind]. rewrite sub_0. reflexivity.
Qed.

Theorem shift_negative b n : n < 0 -> bs_lshift b n = Err ValueError /\ bs_rshift b n = Err ValueError.
Proof. intros H. unfold bs_lshift, bs_rshift. destruct (n <? 0) eqn:E; [split; reflexivity|lia]. Qed.

Theorem shift_empty n : 0 <= n -> bs_lshift [] n = Err ValueError /\ bs_rshift [] n = Err ValueError.
Proof. intros H. unfold bs_lshift, bs_rshift. destruct (n <? 0) eqn:E; [lia|]. split; reflexivity. Qed.

Lemma Ok_inj {A} (x y : A) : Ok x = Ok y -> x = y.
Proof. congruence. Qed.

Theorem lshift_length b n r : bs_lshift b n = Ok r -> zlen r = zlen b.
Proof.
  intros H. destruct (n <? 0) eqn:E; [unfold bs_lshift in H; rewrite E in H; discriminate|].
  destruct (zlen b =? 0) eqn:E0; [unfold bs_lshift in H; rewrite E, E0 in H; discriminate|].
  assert (Hb : b <> []) by (intro; subst; discriminate).
  rewrite lshift_spec in H by (try lia; exact Hb). apply Ok_inj in H. subst r.
  rewrite zlen_app, zlen_skipn, zlen_repeat. pose proof (zlen_nonneg b). lia.
Qed.

Theorem rshift_length b n r : bs_rshift b n = Ok r -> zlen r = zlen b.
Proof.
  intros H. destruct (n <? 0) eqn:E; [unfold bs_rshift in H; rewrite E in H; discriminate|].
  destruct (zlen b =? 0) eqn:E0; [unfold bs_rshift in H; rewrite E, E0 in H; discriminate|].
  assert (Hb : b <> []) by (intro; subst; discriminate).
  rewrite rshift_spec in H by (try lia; exact Hb). apply Ok_inj in H. subst r.
  rewrite zlen_app, zlen_firstn, zlen_repeat. pose proof (zlen_nonneg b). lia.
Qed.

(* in-place forms equal the pure forms *)
Theorem ilshift_eq_lshift b n : bs_ilshift b n = bs_lshift b n.
Proof.
  unfold bs_ilshift. destruct (n <? 0) eqn:E; [unfold bs_lshift; now rewrite E|].
  destruct (zlen b =? 0) eqn:E0; [unfold bs_lshift; now rewrite E, E0|].
  assert (Hb : b <> []) by (intro; subst; discriminate).
  rewrite lshift_spec by (try lia; exact Hb).
  destruct (n =? 0) eqn:E1.
  - apply Z.eqb_eq in E1. subst n. replace (Z.min 0 (zlen b)) with 0 by (pose proof (zlen_nonneg b); lia).
    cbn. now rewrite app_nil_r.
  - pose proof (zlen_nonneg b). set (m := Z.min n (zlen b)).
    destruct ((0 <? m) && (m <=? zlen b)) eqn:E2; [|unfold m in E2; lia].
    unfold truncateleft, addright. rewrite zlen_app, zlen_repeat.
    destruct ((m <? 0) || (m >? zlen b + Z.of_nat (Z.to_nat m))) eqn:E3; [unfold m in *; lia|].
    destruct (m =? 0) eqn:E4; [unfold m in *; lia|].
    destruct (m =? zlen b + Z.of_nat (Z.to_nat m)) eqn:E5; [unfold m in *; lia|].
    unfold getslice_msb0. rewrite seq_slice_from by (rewrite ?zlen_app, ?zlen_repeat; unfold m; lia).
    f_equal. rewrite skipn_app. f_equal. 
    replace (Z.to_nat m - length b)%nat with 0%nat by (unfold m, zlen in *; lia). reflexivity.
Qed.

(* ---------- integer model ---------- *)
Lemma value_msb_snoc b x : value_msb (b ++ [x]) = 2 * value_msb b + Z.b2z x.
Proof.
  unfold value_msb. assert (G : forall acc, value_msb_acc acc (b ++ [x]) = 2 * value_msb_acc acc b + Z.b2z x).
  { induction b as [|h t IH]; intros acc; cbn [app value_msb_acc].
    - destruct x; cbn; lia.
    - apply IH. }
  apply G.
Qed.

Lemma value_msb_app a b : value_msb (a ++ b) = value_msb a * 2 ^ zlen b + value_msb b.
Proof.
  induction b as [|x b IH] using rev_ind.
  - rewrite app_nil_r. cbn. lia.
  - rewrite app_assoc, !value_msb_snoc, IH, zlen_app. change (zlen [x]) with 1.
    rewrite Z.pow_add_r by (pose proof (zlen_nonneg b); lia). lia.
Qed.

Lemma value_msb_range b : 0 <= value_msb b < 2 ^ zlen b.
Proof.
  induction b as [|x b IH] using rev_ind; [cbn; lia|].
  rewrite value_msb_snoc, zlen_app. change (zlen [x]) with 1.
  rewrite Z.pow_add_r by (pose proof (zlen_nonneg b); lia). destruct x; cbn [Z.b2z]; lia.
Qed.

Lemma value_msb_zeros n : value_msb (repeat false n) = 0.
Proof. induction n; [reflexivity|]. cbn [repeat]. change (false :: repeat false n) with ([false] ++ repeat false n).
  rewrite value_msb_app, IHn. reflexivity. Qed.

Lemma bitop_value (f : bool -> bool -> bool) (zf : Z -> Z -> Z) :
  (forall a b x y, 0 <= a -> 0 <= b -> zf (2 * a + Z.b2z x) (2 * b + Z.b2z y) = 2 * zf a b + Z.b2z (f x y)) ->
  zf 0 0 = 0 ->
  forall a b, length a = length b -> value_msb (map2 f a b) = zf (value_msb a) (value_msb b).
Proof.
  intros Hstep H0 a. induction a as [|x a IH] using rev_ind; intros b Hl.
  - destruct b; [cbn; now rewrite H0|discriminate].
  - destruct (exists_last (l := b)) as [b' [y ->]].
    { intro; subst. rewrite app_length in Hl. simpl in Hl. lia. }
    rewrite !app_length in Hl. simpl in Hl.
    rewrite map2_app by lia. cbn [map2]. rewrite !value_msb_snoc. rewrite IH by lia.
    rewrite Hstep; [reflexivity| |]; apply value_msb_range.
Qed.

Lemma land_step a b x y : Z.land (2 * a + Z.b2z x) (2 * b + Z.b2z y) = 2 * Z.land a b + Z.b2z (andb x y).
Proof.
  apply Z.bits_inj'. intros n Hn. rewrite Z.land_spec.
  destruct (Z.eq_dec n 0) as [->|Hne].
  - rewrite !Z.testbit_0_r. reflexivity.
  - replace n with (Z.succ (n - 1)) by lia. rewrite !Z.testbit_succ_r by lia. now rewrite Z.land_spec.
Qed.
Lemma lor_step a b x y : Z.lor (2 * a + Z.b2z x) (2 * b + Z.b2z y) = 2 * Z.lor a b + Z.b2z (orb x y).
Proof.
  apply Z.bits_inj'. intros n Hn. rewrite Z.lor_spec.
  destruct (Z.eq_dec n 0) as [->|Hne].
  - rewrite !Z.testbit_0_r. reflexivity.
  - replace n with (Z.succ (n - 1)) by lia. rewrite !Z.testbit_succ_r by lia. now rewrite Z.lor_spec.
Qed.
Lemma lxor_step a b x y : Z.lxor (2 * a + Z.b2z x) (2 * b + Z.b2z y) = 2 * Z.lxor a b + Z.b2z (xorb x y).
Proof.
  apply Z.bits_inj'. intros n Hn. rewrite Z.lxor_spec.
  destruct (Z.eq_dec n 0) as [->|Hne].
  - rewrite !Z.testbit_0_r. reflexivity.
  - replace n with (Z.succ (n - 1)) by lia. rewrite !Z.testbit_succ_r by lia. now rewrite Z.lxor_spec.
Qed.

Theorem and_int_model a b : zlen a = zlen b ->
  res_map value_msb (bs_and false a b) = Ok (Z.land (value_msb a) (value_msb b)).
Proof.
  intros H. unfold bs_and. rewrite bitop_pointwise by exact H. cbn [res_map]. f_equal.
  apply bitop_value; [intros; apply land_step|reflexivity|unfold zlen in H; lia].
Qed.
Theorem or_int_model a b : zlen a = zlen b ->
  res_map value_msb (bs_or false a b) = Ok (Z.lor (value_msb a) (value_msb b)).
Proof.
  intros H. unfold bs_or. rewrite bitop_pointwise by exact H. cbn [res_map]. f_equal.
  apply bitop_value; [intros; apply lor_step|reflexivity|unfold zlen in H; lia].
Qed.
Theorem xor_int_model a b : zlen a = zlen b ->
  res_map value_msb (bs_xor a b) = Ok (Z.lxor (value_msb a) (value_msb b)).
Proof.
  intros H. unfold bs_xor. rewrite bitop_pointwise by exact H. cbn [res_map]. f_equal.
  apply bitop_value; [intros; apply lxor_step|reflexivity|unfold zlen in H; lia].
Qed.

Lemma value_msb_negb a : value_msb (map negb a) = 2 ^ zlen a - 1 - value_msb a.
Proof.
  induction a as [|x a IH] using rev_ind; [reflexivity|].
  rewrite map_app. cbn [map]. rewrite !value_msb_snoc, IH, zlen_app. change (zlen [x]) with 1.
  rewrite Z.pow_add_r by (pose proof (zlen_nonneg a); lia). destruct x; cbn [negb Z.b2z]; lia.
Qed.

(* ~s is the integer complement masked to len bits *)
Theorem invert_int_model a : a <> [] ->
  res_map value_msb (bs_invert a) = Ok (Z.lnot (value_msb a) mod 2 ^ zlen a).
Proof.
  intros H. rewrite invert_pointwise by exact H. cbn [res_map]. f_equal. rewrite value_msb_negb.
  pose proof (value_msb_range a). unfold Z.lnot.
  replace (Z.pred (- value_msb a)) with ((2 ^ zlen a - 1 - value_msb a) + (-1) * 2 ^ zlen a) by lia.
  rewrite Z.mod_add by lia. rewrite Z.mod_small; lia.
Qed.

Lemma firstn_skipn_value b n : (n <= length b)%nat ->
  value_msb b = value_msb (firstn n b) * 2 ^ (zlen b - Z.of_nat n) + value_msb (skipn n b).
Proof.
  intros H. rewrite <- (firstn_skipn n b) at 1. rewrite value_msb_app. rewrite zlen_skipn.
  unfold zlen. f_equal. f_equal. f_equal. lia.
Qed.

(* s << n is (value * 2^n) masked to len bits; s >> n is value / 2^n *)
Theorem lshift_int_model b n : 0 <= n -> b <> [] ->
  res_map value_msb (bs_lshift b n) = Ok ((value_msb b * 2 ^ n) mod 2 ^ zlen b).
Proof.
  intros Hn Hb. rewrite lshift_spec by assumption. cbn [res_map]. f_equal.
  pose proof (zlen_nonneg b) as Hl. set (m := Z.min n (zlen b)).
  rewrite value_msb_app, value_msb_zeros, zlen_repeat, Z.add_0_r.
  rewrite Z2Nat.id by (unfold m; lia).
  rewrite (firstn_skipn_value b (Z.to_nat m)) by (unfold m, zlen in *; lia).
  rewrite Z2Nat.id by (unfold m; lia).
  pose proof (value_msb_range (skipn (Z.to_nat m) b)) as Hr. rewrite zlen_skipn in Hr.
  rewrite Z2Nat.id in Hr by (unfold m; lia).
  replace (Z.max 0 (zlen b - m)) with (zlen b - m) in Hr by (unfold m; lia).
  destruct (Z.le_gt_cases n (zlen b)) as [Hle|Hgt].
  - replace m with n in * by (unfold m; lia).
    rewrite Z.mul_add_distr_r. rewrite <- Z.mul_assoc, <- Z.pow_add_r by lia.
    replace (zlen b - n + n) with (zlen b) by lia.
    rewrite Z.add_comm, Z.mod_add by lia.
    rewrite Z.mod_small; [reflexivity|].
    replace (2 ^ zlen b) with (2 ^ (zlen b - n) * 2 ^ n) by (rewrite <- Z.pow_add_r by lia; f_equal; lia).
    nia.
  - replace m with (zlen b) in * by (unfold m; lia).
    rewrite skipn_all2 by (unfold zlen; lia). cbn [value_msb value_msb_acc]. 
    replace (2 ^ n) with (2 ^ (n - zlen b) * 2 ^ zlen b) by (rewrite <- Z.pow_add_r by lia; f_equal; lia).
    rewrite Z.mul_assoc, Z.mod_mul by lia. lia.
Qed.

Theorem rshift_int_model b n : 0 <= n -> b <> [] ->
  res_map value_msb (bs_rshift b n) = Ok (value_msb b / 2 ^ n).
Proof.
  intros Hn Hb. rewrite rshift_spec by assumption. cbn [res_map]. f_equal.
  pose proof (zlen_nonneg b) as Hl. set (m := Z.min n (zlen b)).
  change (repeat false (Z.to_nat m) ++ firstn (Z.to_nat (zlen b - m)) b) with (repeat false (Z.to_nat m) ++ firstn (Z.to_nat (zlen b - m)) b).
  rewrite value_msb_app, value_msb_zeros, Z.mul_0_l, Z.add_0_l.
  rewrite (firstn_skipn_value b (Z.to_nat (zlen b - m))) by (unfold m, zlen in *; lia).
  rewrite Z2Nat.id by (unfold m; lia).
  replace (zlen b - (zlen b - m)) with m by lia.
  pose proof (value_msb_range (skipn (Z.to_nat (zlen b - m)) b)) as Hr. rewrite zlen_skipn in Hr.
  rewrite Z2Nat.id in Hr by (unfold m; lia).
  replace (Z.max 0 (zlen b - (zlen b - m))) with m in Hr by (unfold m; lia).
  destruct (Z.le_gt_cases n (zlen b)) as [Hle|Hgt].
  - replace m with n in * by (unfold m; lia).
    rewrite Z.div_add_l by lia. rewrite (Z.div_small _ _ Hr). lia.
  - replace m with (zlen b) in * by (unfold m; lia).
    rewrite Z.sub_diag. cbn [Z.to_nat firstn skipn]. cbn [value_msb value_msb_acc]. rewrite Z.mul_0_l, Z.add_0_l.
    symmetry. apply Z.div_small. pose proof (value_msb_range b).
    assert (2 ^ zlen b <= 2 ^ n) by (apply Z.pow_le_mono_r; lia). lia.
Qed.

Lemma seq_slice_upto_neg {A} (d : A) (l : list A) n : 0 < n -> n <= zlen l ->
  seq_slice d l (mkslice None (Some (- n)) None) = Ok (firstn (Z.to_nat (zlen l - n)) l).
Proof.
  intros Hn Hl. unfold seq_slice, slice_indices. cbn [s_step s_start s_stop].
  change (1 =? 0) with false. change (1 <? 0) with false. cbv iota.
  unfold clamp_index. destruct (- n <? 0) eqn:E1; [|lia]. destruct (- n + zlen l <? 0) eqn:E2; [lia|].
  cbn [bind]. unfold range_list. rewrite range_len_unit.
  replace (Z.max 0 (- n + zlen l - 0)) with (zlen l - n) by lia.
  change 0 with (Z.of_nat 0). rewrite map_znth_unit_progression by (unfold zlen in *; lia). reflexivity.
Qed.

Theorem irshift_eq_rshift b n : bs_irshift b n = bs_rshift b n.
Proof.
  unfold bs_irshift. destruct (n <? 0) eqn:E; [unfold bs_rshift; now rewrite E|].
  destruct (zlen b =? 0) eqn:E0; [unfold bs_rshift; now rewrite E, E0|].
  assert (Hb : b <> []) by (intro; subst; discriminate).
  rewrite rshift_spec by (try lia; exact Hb).
  destruct (n =? 0) eqn:E1.
  - apply Z.eqb_eq in E1. subst n. replace (Z.min 0 (zlen b)) with 0 by (pose proof (zlen_nonneg b); lia).
    cbn [Z.to_nat repeat app]. rewrite Z.sub_0_r. unfold zlen. rewrite Nat2Z.id, firstn_all. reflexivity.
  - pose proof (zlen_nonneg b). set (m := Z.min n (zlen b)).
    destruct ((0 <? m) && (m <=? zlen b)) eqn:E2; [|unfold m in E2; lia].
    unfold truncateright, addleft. rewrite zlen_app, zlen_repeat.
    destruct ((m <? 0) || (m >? Z.of_nat (Z.to_nat m) + zlen b)) eqn:E3; [unfold m in *; lia|].
    destruct (m =? 0) eqn:E4; [unfold m in *; lia|].
    destruct (m =? Z.of_nat (Z.to_nat m) + zlen b) eqn:E5; [unfold m in *; lia|].
    unfold getslice_msb0. rewrite seq_slice_upto_neg by (rewrite ?zlen_app, ?zlen_repeat; unfold m; lia).
    f_equal. rewrite zlen_app, zlen_repeat. rewrite firstn_app, repeat_length.
    rewrite firstn_all2 by (rewrite repeat_length; unfold m in *; lia). f_equal. f_equal. unfold m in *. lia.
Qed.
