From BS Require Import Prims Golomb GolombSpec.
Open Scope Z_scope.

(* ---------- basic list/arith lemmas ---------- *)
Lemma zlen_app {A} (a b : list A) : zlen (a ++ b) = zlen a + zlen b.
Proof. unfold zlen. rewrite app_length. lia. Qed.
Lemma zlen_nonneg {A} (a : list A) : 0 <= zlen a.
Proof. unfold zlen. lia. Qed.
Lemma zlen_cons {A} (x : A) l : zlen (x :: l) = 1 + zlen l.
Proof. unfold zlen. simpl length. lia. Qed.
Lemma zlen_repeat {A} (x : A) n : zlen (repeat x n) = Z.of_nat n.
Proof. unfold zlen. now rewrite repeat_length. Qed.

Lemma pos_bits_length p : length (pos_bits p) = Pos.size_nat p.
Proof. induction p; simpl; rewrite ?app_length; simpl; lia. Qed.

Lemma pos_bits_nonempty p : pos_bits p <> [].
Proof. destruct p; simpl; try discriminate; destruct (pos_bits p); discriminate. Qed.

Lemma pos_bits_hd p : exists t, pos_bits p = true :: t.
Proof.
  induction p as [p [t Ht] | p [t Ht] | ]; simpl.
  - rewrite Ht. eexists. reflexivity.
  - rewrite Ht. eexists. reflexivity.
  - eexists. reflexivity.
Qed.

Lemma size_nat_log2 p : Z.of_nat (Pos.size_nat p) = Z.log2 (Zpos p) + 1.
Proof.
  induction p; simpl Pos.size_nat.
  - rewrite Nat2Z.inj_succ, IHp. change (Zpos p~1) with (2 * Zpos p + 1).
    rewrite Z.log2_succ_double by lia. lia.
  - rewrite Nat2Z.inj_succ, IHp. change (Zpos p~0) with (2 * Zpos p).
    rewrite Z.log2_double by lia. lia.
  - reflexivity.
Qed.

Lemma size_nat_ge1 p : (1 <= Pos.size_nat p)%nat.
Proof. destruct p; simpl; lia. Qed.

(* ---------- the shift loop computes floor(log2) ---------- *)
Lemma shiftr1_xO p : Z.shiftr (Zpos p~0) 1 = Zpos p. Proof. reflexivity. Qed.
Lemma shiftr1_xI p : Z.shiftr (Zpos p~1) 1 = Zpos p. Proof. reflexivity. Qed.

Lemma ue_lz_loop_pos p : forall fuel lz,
  (Pos.size_nat p < fuel)%nat ->
  ue_lz_loop fuel (Zpos p) lz = Ok (lz + Z.of_nat (Pos.size_nat p)).
Proof.
  induction p; intros fuel lz Hf; destruct fuel as [|f]; try lia; simpl Pos.size_nat in *.
  - cbn [ue_lz_loop]. change (Zpos p~1 >? 0) with true. cbv iota. rewrite shiftr1_xI.
    rewrite IHp by lia. f_equal. lia.
  - cbn [ue_lz_loop]. change (Zpos p~0 >? 0) with true. cbv iota. rewrite shiftr1_xO.
    rewrite IHp by lia. f_equal. lia.
  - cbn [ue_lz_loop]. change (1 >? 0) with true. cbv iota. change (Z.shiftr 1 1) with 0.
    destruct f as [|f]; [lia|]. cbn [ue_lz_loop]. change (0 >? 0) with false. cbv iota. f_equal; lia.
Qed.

(* ---------- enc_uint of the low bits is the tail of the binary expansion ---------- *)
Lemma tl_app_nonempty {A} (l m : list A) : l <> [] -> tl (l ++ m) = tl l ++ m.
Proof. destruct l; [congruence|reflexivity]. Qed.

Lemma enc_low_bits p :
  enc_uint_nat (Pos.size_nat p - 1) (Zpos p - 2 ^ Z.of_nat (Pos.size_nat p - 1)) = tl (pos_bits p).
Proof.
  induction p.
  - simpl Pos.size_nat. replace (S (Pos.size_nat p) - 1)%nat with (S (Pos.size_nat p - 1))%nat
      by (destruct p; simpl; lia).
    cbn [enc_uint_nat pos_bits]. rewrite tl_app_nonempty by apply pos_bits_nonempty.
    rewrite Nat2Z.inj_succ, Z.pow_succ_r by lia.
    replace ((Zpos p~1 - 2 * 2 ^ Z.of_nat (Pos.size_nat p - 1)) / 2)
      with (Zpos p - 2 ^ Z.of_nat (Pos.size_nat p - 1)).
    2:{ change (Zpos p~1) with (2 * Zpos p + 1).
        replace (2 * Z.pos p + 1 - 2 * 2 ^ Z.of_nat (Pos.size_nat p - 1))
          with (1 + (Z.pos p - 2 ^ Z.of_nat (Pos.size_nat p - 1)) * 2) by lia.
        rewrite Z.div_add by lia. reflexivity. }
    rewrite IHp. f_equal. f_equal.
    change (Zpos p~1) with (2 * Zpos p + 1).
    replace (2 * Z.pos p + 1 - 2 * 2 ^ Z.of_nat (Pos.size_nat p - 1))
      with (1 + 2 * (Z.pos p - 2 ^ Z.of_nat (Pos.size_nat p - 1))) by lia.
    rewrite Z.odd_add_mul_2. reflexivity.
  - simpl Pos.size_nat. replace (S (Pos.size_nat p) - 1)%nat with (S (Pos.size_nat p - 1))%nat
      by (destruct p; simpl; lia).
    cbn [enc_uint_nat pos_bits]. rewrite tl_app_nonempty by apply pos_bits_nonempty.
    rewrite Nat2Z.inj_succ, Z.pow_succ_r by lia.
    replace ((Zpos p~0 - 2 * 2 ^ Z.of_nat (Pos.size_nat p - 1)) / 2)
      with (Zpos p - 2 ^ Z.of_nat (Pos.size_nat p - 1)).
    2:{ change (Zpos p~0) with (2 * Zpos p).
        replace (2 * Z.pos p - 2 * 2 ^ Z.of_nat (Pos.size_nat p - 1))
          with ((Z.pos p - 2 ^ Z.of_nat (Pos.size_nat p - 1)) * 2) by lia.
        rewrite Z.div_mul by lia. reflexivity. }
    rewrite IHp. f_equal. f_equal.
    change (Zpos p~0) with (2 * Zpos p).
    replace (2 * Z.pos p - 2 * 2 ^ Z.of_nat (Pos.size_nat p - 1))
      with (0 + 2 * (Z.pos p - 2 ^ Z.of_nat (Pos.size_nat p - 1))) by lia.
    rewrite Z.odd_add_mul_2. reflexivity.
  - reflexivity.
Qed.

Lemma pos_lower_bound p : 2 ^ Z.of_nat (Pos.size_nat p - 1) <= Zpos p < 2 ^ Z.of_nat (Pos.size_nat p).
Proof.
  pose proof (size_nat_log2 p) as H.
  pose proof (Z.log2_spec (Zpos p) ltac:(lia)) as [H1 H2].
  replace (Z.of_nat (Pos.size_nat p - 1)) with (Z.log2 (Zpos p)) by (destruct p; simpl Pos.size_nat in *; lia).
  rewrite H. replace (Z.log2 (Z.pos p) + 1) with (Z.succ (Z.log2 (Z.pos p))) by lia. lia.
Qed.

(* ---------- encoders equal the tables ---------- *)
Theorem ue_enc_table n : 0 <= n -> ue2bitstore n = Ok (spec_ue n).
Proof.
  intros Hn. unfold ue2bitstore, spec_ue.
  destruct (n <? 0) eqn:E; [lia|]. clear E.
  destruct (n =? 0) eqn:E0.
  - apply Z.eqb_eq in E0. subst. reflexivity.
  - apply Z.eqb_neq in E0.
    remember (Z.to_pos (n + 1)) as p eqn:Hp.
    assert (Hnp : n + 1 = Zpos p) by (subst p; rewrite Z2Pos.id; lia).
    rewrite Hnp. unfold ue_fuel. rewrite Hnp.
    rewrite ue_lz_loop_pos.
    2:{ pose proof (size_nat_log2 p). lia. }
    cbn [bind].
    set (k := (Pos.size_nat p - 1)%nat).
    assert (Hk : -1 + Z.of_nat (Pos.size_nat p) = Z.of_nat k)
      by (unfold k; destruct p; simpl Pos.size_nat; lia).
    rewrite Hk. rewrite Z.shiftl_1_l.
    pose proof (pos_lower_bound p) as [Hlo Hhi]. fold k in Hlo.
    assert (Hk1 : (1 <= k)%nat).
    { unfold k. destruct p; simpl Pos.size_nat; try (pose proof (size_nat_ge1 p); lia). exfalso. lia. }
    assert (Hhi' : Zpos p < 2 * 2 ^ Z.of_nat k).
    { replace (Pos.size_nat p) with (S k) in Hhi by (unfold k; lia).
      rewrite Nat2Z.inj_succ, Z.pow_succ_r in Hhi by lia. exact Hhi. }
    unfold int2bitstore, int2ba.
    destruct (Z.of_nat k <=? 0) eqn:E1; [lia|].
    cbn [andb orb].
    destruct (Zpos p - 2 ^ Z.of_nat k <? 0) eqn:E2; [lia|].
    destruct (Zpos p - 2 ^ Z.of_nat k >=? 2 ^ Z.of_nat k) eqn:E3; [lia|].
    cbn [orb bind]. unfold enc_uint. rewrite Nat2Z.id.
    pose proof (enc_low_bits p) as Hel. fold k in Hel. rewrite Hel.
    rewrite pos_bits_length. fold k.
    destruct (pos_bits_hd p) as [t Ht]. rewrite Ht. cbn [tl].
    rewrite <- app_assoc. reflexivity.
Qed.

Theorem ue_enc_neg n : n < 0 -> ue2bitstore n = Err ValueError.
Proof. intros H. unfold ue2bitstore. destruct (n <? 0) eqn:E; [reflexivity|lia]. Qed.

Theorem se_enc_table n : se2bitstore n = Ok (spec_se n).
Proof. unfold se2bitstore, spec_se. destruct (n >? 0) eqn:E; rewrite ue_enc_table by lia; f_equal; f_equal; lia. Qed.

Lemma join0_interleave ds : false :: join0 ds = match ds with [] => [false] | _ => interleave ds end.
Proof.
  induction ds as [|d t IH]; [reflexivity|].
  destruct t as [|d' t']; [reflexivity|].
  cbn [join0 interleave] in *. rewrite IH. reflexivity.
Qed.

Theorem uie_enc_table n : 0 <= n -> uie2bitstore n = Ok (spec_uie n).
Proof.
  intros Hn. unfold uie2bitstore, spec_uie.
  destruct (n <? 0) eqn:E; [lia|]. destruct (n =? 0) eqn:E0.
  - apply Z.eqb_eq in E0. subst. reflexivity.
  - apply Z.eqb_neq in E0. f_equal.
    remember (Z.to_pos (n + 1)) as p.
    assert (p <> xH). { subst p. intro H. assert (Zpos (Z.to_pos (n+1)) = 1) by (rewrite H; reflexivity).
                        rewrite Z2Pos.id in H0; lia. }
    change (false :: join0 (tl (pos_bits p)) ++ [true]) with ((false :: join0 (tl (pos_bits p))) ++ [true]).
    rewrite join0_interleave.
    destruct p; try congruence; simpl; destruct (pos_bits_hd p) as [t Ht]; rewrite Ht; simpl;
      destruct (t ++ _) eqn:Et; try reflexivity; destruct t; discriminate.
Qed.

Theorem uie_enc_neg n : n < 0 -> uie2bitstore n = Err ValueError.
Proof. intros H. unfold uie2bitstore. destruct (n <? 0) eqn:E; [reflexivity|lia]. Qed.

Theorem sie_enc_table n : sie2bitstore n = Ok (spec_sie n).
Proof.
  unfold sie2bitstore, spec_sie. destruct (n =? 0) eqn:E; [reflexivity|].
  rewrite uie_enc_table by lia. cbn [bind]. destruct (n <? 0); reflexivity.
Qed.

Theorem g_enc_table c n : g_dom c n = true -> g_enc c n = Ok (g_spec c n).
Proof.
  destruct c; cbn [g_dom g_enc g_spec]; intros H.
  - apply ue_enc_table; lia.
  - apply se_enc_table.
  - apply uie_enc_table; lia.
  - apply sie_enc_table.
Qed.

Theorem g_enc_reject c n : g_dom c n = false -> g_enc c n = Err ValueError.
Proof.
  destruct c; cbn [g_dom g_enc]; intros H; try discriminate.
  - apply ue_enc_neg; lia.
  - apply uie_enc_neg; lia.
Qed.

(* ================= decoders ================= *)
Lemma seq_getitem_nonneg {A} (b : list A) pos : 0 <= pos ->
  seq_getitem b pos = if pos >=? zlen b then Err IndexError
                      else match nth_error b (Z.to_nat pos) with Some x => Ok x | None => Err IndexError end.
Proof.
  intros H. unfold seq_getitem. destruct (pos <? 0) eqn:E; [lia|]. rewrite E. reflexivity.
Qed.

Lemma getbit_mid pre x rest : getbit (pre ++ x :: rest) (zlen pre) = Ok x.
Proof.
  unfold getbit. pose proof (zlen_nonneg pre). rewrite seq_getitem_nonneg by lia.
  rewrite zlen_app, zlen_cons. pose proof (zlen_nonneg rest).
  destruct (zlen pre >=? zlen pre + (1 + zlen rest)) eqn:E2; [lia|].
  unfold zlen. rewrite Nat2Z.id. rewrite nth_error_app2 by lia.
  replace (length pre - length pre)%nat with 0%nat by lia. reflexivity.
Qed.

Lemma getbit_end b pos : zlen b <= pos -> getbit b pos = Err IndexError.
Proof.
  intros H. unfold getbit. pose proof (zlen_nonneg b). rewrite seq_getitem_nonneg by lia.
  destruct (pos >=? zlen b) eqn:E2; [|lia]. reflexivity.
Qed.

Lemma app_cons_assoc {A} (pre : list A) x rest : pre ++ x :: rest = (pre ++ [x]) ++ rest.
Proof. now rewrite <- app_assoc. Qed.

Lemma skip_zeros_spec k : forall fuel pre rest,
  (k < fuel)%nat ->
  skip_zeros fuel (pre ++ repeat false k ++ true :: rest) (zlen pre) = Ok (zlen pre + Z.of_nat k).
Proof.
  induction k as [|k IH]; intros fuel pre rest Hf; destruct fuel as [|f]; try lia.
  - cbn [repeat app skip_zeros]. rewrite getbit_mid. f_equal. lia.
  - cbn [repeat skip_zeros]. rewrite <- app_comm_cons. rewrite getbit_mid.
    rewrite app_cons_assoc.
    replace (zlen pre + 1) with (zlen (pre ++ [false])) by (rewrite zlen_app; reflexivity).
    rewrite IH by lia. rewrite zlen_app. f_equal. unfold zlen at 2. simpl length. lia.
Qed.

Lemma skip_zeros_trunc k : forall fuel pre,
  (k < fuel)%nat ->
  skip_zeros fuel (pre ++ repeat false k) (zlen pre) = Err ReadError.
Proof.
  induction k as [|k IH]; intros fuel pre Hf; destruct fuel as [|f]; try lia.
  - cbn [repeat skip_zeros]. rewrite app_nil_r. rewrite getbit_end by lia. reflexivity.
  - cbn [repeat skip_zeros]. rewrite getbit_mid. rewrite app_cons_assoc.
    replace (zlen pre + 1) with (zlen (pre ++ [false])) by (rewrite zlen_app; reflexivity).
    apply IH. lia.
Qed.

Lemma sub_mid {A} (a m r : list A) : sub (a ++ m ++ r) (zlen a) (zlen a + zlen m) = m.
Proof.
  unfold sub, zlen. replace (Z.of_nat (length a) + Z.of_nat (length m) - Z.of_nat (length a)) with (Z.of_nat (length m)) by lia.
  rewrite !Nat2Z.id. rewrite skipn_app, skipn_all, Nat.sub_diag. cbn [skipn app].
  rewrite firstn_app, firstn_all, Nat.sub_diag. cbn [firstn]. now rewrite app_nil_r.
Qed.

Lemma value_msb_acc_spec t : forall a, value_msb_acc a t = a * 2 ^ zlen t + value_msb t.
Proof.
  unfold value_msb. induction t as [|h t IH]; intros a.
  - cbn. lia.
  - cbn [value_msb_acc]. rewrite IH. rewrite (IH (2 * 0 + _)). rewrite zlen_cons.
    rewrite Z.pow_add_r by (pose proof (zlen_nonneg t); lia). destruct h; lia.
Qed.

Lemma value_msb_acc_app a t u : value_msb_acc a (t ++ u) = value_msb_acc (value_msb_acc a t) u.
Proof. revert a. induction t; intros; cbn; auto. Qed.

Lemma value_pos_bits p : value_msb (pos_bits p) = Zpos p.
Proof.
  unfold value_msb. induction p; cbn [pos_bits]; rewrite ?value_msb_acc_app, ?IHp; cbn; lia.
Qed.

Lemma value_msb_bounds t : 0 <= value_msb t < 2 ^ zlen t.
Proof.
  unfold value_msb. induction t as [|h t IH] using rev_ind.
  - cbn. lia.
  - rewrite value_msb_acc_app, zlen_app. cbn [value_msb_acc]. unfold zlen at 2. simpl length.
    rewrite Z.pow_add_r by (pose proof (zlen_nonneg t); lia). destruct h; lia.
Qed.

(* ue: decode(pre ++ ue(n) ++ rest) at |pre| *)
Lemma readue_spec n pre rest : 0 <= n ->
  readue (pre ++ spec_ue n ++ rest) (zlen pre) = Ok (n, zlen pre + zlen (spec_ue n)).
Proof.
  intros Hn. unfold spec_ue.
  remember (Z.to_pos (n + 1)) as p eqn:Hp.
  assert (Hnp : n + 1 = Zpos p) by (subst p; rewrite Z2Pos.id; lia).
  destruct (pos_bits_hd p) as [t Ht].
  assert (Hlen : length (pos_bits p) = S (length t)) by (rewrite Ht; reflexivity).
  rewrite Hlen. replace (S (length t) - 1)%nat with (length t) by lia.
  set (k := length t). rewrite Ht.
  unfold readue.
  rewrite <- !app_assoc. rewrite <- app_comm_cons.
  rewrite skip_zeros_spec.
  2:{ rewrite !app_length, repeat_length. simpl. lia. }
  cbn [bind].
  replace (zlen pre + Z.of_nat k - zlen pre) with (Z.of_nat k) by lia.
  assert (Hval : Zpos p = 2 ^ Z.of_nat k + value_msb t).
  { rewrite <- (value_pos_bits p), Ht. unfold value_msb at 1. cbn [value_msb_acc].
    rewrite value_msb_acc_spec. unfold zlen, k. lia. }
  rewrite Z.shiftl_1_l.
  destruct (Z.of_nat k >? 0) eqn:Ek.
  - rewrite !zlen_app, zlen_repeat, zlen_cons, zlen_app. fold (zlen t). 
    assert (Hkt : zlen t = Z.of_nat k) by reflexivity. rewrite Hkt.
    pose proof (zlen_nonneg rest).
    destruct (zlen pre + Z.of_nat k + Z.of_nat k + 1 >? zlen pre + (Z.of_nat k + (1 + (Z.of_nat k + zlen rest)))) eqn:E; [lia|].
    (* the suffix bits *)
    replace (pre ++ repeat false k ++ true :: t ++ rest) with ((pre ++ repeat false k ++ [true]) ++ t ++ rest)
      by (rewrite <- !app_assoc; reflexivity).
    replace (zlen pre + Z.of_nat k + 1) with (zlen (pre ++ repeat false k ++ [true]))
      by (rewrite !zlen_app, zlen_repeat; change (zlen [true]) with 1; lia).
    replace (zlen (pre ++ repeat false k ++ [true]) + Z.of_nat k) with (zlen (pre ++ repeat false k ++ [true]) + zlen t) by lia.
    rewrite sub_mid. unfold getuint. rewrite Hkt.
    destruct (Z.of_nat k =? 0) eqn:Ek0; [lia|].
    unfold ba2int. destruct t as [|h t']; [simpl in k; lia|]. cbn [bind andb].
    f_equal. f_equal; [lia|].
    rewrite zlen_cons. lia.
  - assert (k = 0)%nat by lia. destruct t; [|simpl in k; lia]. cbn [repeat app].
    change (2 ^ Z.of_nat k) with 1 in *. cbn in Hval.
    change (1 - 1 =? 0) with true. cbv iota. f_equal. f_equal; [lia|].
    rewrite H. unfold zlen. simpl length. lia.
Qed.

Lemma readse_spec n pre rest :
  readse (pre ++ spec_se n ++ rest) (zlen pre) = Ok (n, zlen pre + zlen (spec_se n)).
Proof.
  unfold readse, spec_se. destruct (n >? 0) eqn:E.
  - rewrite readue_spec by lia. cbn [bind].
    replace ((2 * n - 1) mod 2) with 1.
    2:{ replace (2 * n - 1) with (1 + (n - 1) * 2) by lia. rewrite Z.mod_add by lia. reflexivity. }
    change (1 =? 0) with false. cbv iota. f_equal. f_equal.
    replace (2 * n - 1 + 1) with (n * 2) by lia. now rewrite Z.div_mul by lia.
  - rewrite readue_spec by lia. cbn [bind].
    replace ((- 2 * n) mod 2) with 0.
    2:{ replace (- 2 * n) with (0 + (- n) * 2) by lia. rewrite Z.mod_add by lia. reflexivity. }
    change (0 =? 0) with true. cbv iota. f_equal. f_equal.
    replace (- 2 * n + 1) with (1 + (- n) * 2) by lia. rewrite Z.div_add by lia.
    change (1 / 2) with 0. lia.
Qed.

Lemma zlen_interleave ds : zlen (interleave ds) = 2 * zlen ds.
Proof. induction ds; [reflexivity|]. cbn [interleave]. rewrite !zlen_cons, IHds. lia. Qed.

Lemma readuie_loop_spec ds : forall fuel pre rest c,
  (length ds < fuel)%nat ->
  readuie_loop fuel (pre ++ interleave ds ++ true :: rest) (zlen pre) c
  = Ok (value_msb_acc c ds - 1, zlen pre + 2 * zlen ds + 1).
Proof.
  induction ds as [|d ds IH]; intros fuel pre rest c Hf; destruct fuel as [|f]; simpl length in Hf; try lia.
  - cbn [interleave app readuie_loop]. rewrite getbit_mid. cbn. f_equal. f_equal. lia.
  - cbn [interleave readuie_loop]. rewrite <- !app_comm_cons. rewrite getbit_mid.
    rewrite (app_cons_assoc pre false).
    replace (zlen pre + 1) with (zlen (pre ++ [false])) by (rewrite zlen_app; reflexivity).
    rewrite getbit_mid.
    rewrite (app_cons_assoc (pre ++ [false]) d).
    replace (zlen pre + 2) with (zlen ((pre ++ [false]) ++ [d])) by (rewrite !zlen_app; change (zlen [false]) with 1; change (zlen [d]) with 1; lia).
    rewrite IH by lia. cbn [value_msb_acc]. rewrite Z.shiftl_mul_pow2 by lia.
    rewrite !zlen_app, !zlen_cons. change (zlen (@nil bool)) with 0.
    replace (c * 2 ^ 1) with (2 * c) by lia.
    f_equal. f_equal. lia.
Qed.

Lemma readuie_spec n pre rest : 0 <= n ->
  readuie (pre ++ spec_uie n ++ rest) (zlen pre) = Ok (n, zlen pre + zlen (spec_uie n)).
Proof.
  intros Hn. unfold readuie, spec_uie.
  remember (Z.to_pos (n + 1)) as p eqn:Hp.
  assert (Hnp : n + 1 = Zpos p) by (subst p; rewrite Z2Pos.id; lia).
  destruct (pos_bits_hd p) as [t Ht]. rewrite Ht. cbn [tl].
  rewrite <- app_assoc. cbn [app].
  rewrite readuie_loop_spec.
  2:{ rewrite !app_length. pose proof (zlen_interleave t). unfold zlen in H. simpl. lia. }
  f_equal. f_equal.
  - pose proof (value_pos_bits p) as Hv. rewrite Ht in Hv. unfold value_msb in Hv. cbn [value_msb_acc] in Hv.
    change (2 * 0 + 1) with 1 in Hv. lia.
  - rewrite zlen_app, zlen_interleave. change (zlen [true]) with 1. lia.
Qed.

Lemma readsie_spec n pre rest :
  readsie (pre ++ spec_sie n ++ rest) (zlen pre) = Ok (n, zlen pre + zlen (spec_sie n)).
Proof.
  unfold readsie, spec_sie. destruct (n =? 0) eqn:E0.
  - apply Z.eqb_eq in E0. subst n. change [true] with (spec_uie 0).
    rewrite readuie_spec by lia. reflexivity.
  - apply Z.eqb_neq in E0. rewrite <- app_assoc. rewrite readuie_spec by lia. cbn [bind].
    destruct (Z.abs n =? 0) eqn:E1; [lia|].
    rewrite app_assoc.
    replace (zlen pre + zlen (spec_uie (Z.abs n))) with (zlen (pre ++ spec_uie (Z.abs n))) by apply zlen_app.
    cbn [app]. rewrite getbit_mid. rewrite !zlen_app. change (zlen [n <? 0]) with 1.
    destruct (n <? 0) eqn:En; f_equal; f_equal; lia.
Qed.

Theorem g_read_spec c n pre rest : g_dom c n = true ->
  g_read c (pre ++ g_spec c n ++ rest) (zlen pre) = Ok (n, zlen pre + zlen (g_spec c n)).
Proof.
  destruct c; cbn [g_dom g_read g_spec]; intros H.
  - apply readue_spec; lia.
  - apply readse_spec.
  - apply readuie_spec; lia.
  - apply readsie_spec.
Qed.

(* a stream: any finite sequence of mixed codewords decodes item by item *)
Theorem stream_roundtrip items : forall pre rest,
  forallb (fun cn => g_dom (fst cn) (snd cn)) items = true ->
  read_stream (pre ++ stream_bits items ++ rest) (zlen pre) (map fst items)
  = Ok (map snd items, zlen pre + zlen (stream_bits items)).
Proof.
  induction items as [|[c n] items IH]; intros pre rest Hd.
  - cbn [stream_bits map read_stream app]. change (zlen (@nil bool)) with 0. f_equal. f_equal. lia.
  - cbn [forallb fst snd] in Hd. apply andb_prop in Hd as [Hd1 Hd2].
    cbn [stream_bits map fst snd read_stream]. rewrite <- app_assoc.
    rewrite g_read_spec by exact Hd1. cbn [bind].
    rewrite app_assoc.
    replace (zlen pre + zlen (g_spec c n)) with (zlen (pre ++ g_spec c n)) by apply zlen_app.
    rewrite IH by exact Hd2. cbn [bind]. rewrite !zlen_app. f_equal. f_equal. lia.
Qed.

(* ================= whole-bitstring interpretation ================= *)
Theorem get_whole_exact c n : g_dom c n = true -> get_whole (g_read c) (g_spec c n) = Ok n.
Proof.
  intros H. unfold get_whole.
  pose proof (g_read_spec c n [] [] H) as R. cbn [app] in R. rewrite app_nil_r in R.
  change (zlen (@nil bool)) with 0 in R. rewrite R.
  rewrite Z.add_0_l, Z.eqb_refl. reflexivity.
Qed.

Theorem no_trailing c n x : g_dom c n = true -> x <> [] ->
  get_whole (g_read c) (g_spec c n ++ x) = Err ValueError.
Proof.
  intros H Hx. unfold get_whole.
  pose proof (g_read_spec c n [] x H) as R. cbn [app] in R.
  change (zlen (@nil bool)) with 0 in R. rewrite R. rewrite Z.add_0_l, zlen_app.
  destruct (zlen (g_spec c n) =? zlen (g_spec c n) + zlen x) eqn:E; [|reflexivity].
  apply Z.eqb_eq in E. destruct x; [congruence|]. rewrite zlen_cons in E. pose proof (zlen_nonneg x). lia.
Qed.

(* ================= truncated codewords ================= *)
Lemma repeat_prefix {A} (x : A) k w s : w ++ s = repeat x k -> w = repeat x (length w) /\ (length w <= k)%nat.
Proof.
  revert k. induction w as [|h w IH]; intros k H.
  - split; [reflexivity|simpl; lia].
  - destruct k as [|k]; [discriminate|]. cbn in H. injection H as -> H.
    destruct (IH k H) as [E L]. split; [cbn; now rewrite <- E|simpl; lia].
Qed.

Lemma readue_trunc n pre w s : 0 <= n -> s <> [] -> w ++ s = spec_ue n ->
  readue (pre ++ w) (zlen pre) = Err ReadError.
Proof.
  intros Hn Hs Hw. unfold spec_ue in Hw.
  remember (Z.to_pos (n + 1)) as p eqn:Hp.
  destruct (pos_bits_hd p) as [t Ht].
  assert (Hlen : length (pos_bits p) = S (length t)) by (rewrite Ht; reflexivity).
  rewrite Hlen in Hw. replace (S (length t) - 1)%nat with (length t) in Hw by lia.
  rewrite Ht in Hw. set (k := length t) in *.
  apply app_eq_app in Hw as [l [[Hw1 Hw2] | [Hw1 Hw2]]].
  - (* w = zeros ++ l, true :: t = l ++ s *)
    destruct l as [|x l].
    + (* w is exactly the zeros *)
      rewrite app_nil_r in Hw1. subst w. unfold readue.
      rewrite skip_zeros_trunc by (rewrite app_length, repeat_length; lia). reflexivity.
    + cbn in Hw2. injection Hw2 as <- Hw2. subst w. unfold readue.
      rewrite skip_zeros_spec by (rewrite !app_length, repeat_length; simpl; lia).
      cbn [bind]. replace (zlen pre + Z.of_nat k - zlen pre) with (Z.of_nat k) by lia.
      assert (Hl : (length l < k)%nat).
      { unfold k. rewrite Hw2, app_length. destruct s; [congruence|]. simpl. lia. }
      destruct (Z.of_nat k >? 0) eqn:Ek; [|lia].
      rewrite !zlen_app, zlen_repeat, zlen_cons. unfold zlen at 3.
      destruct (zlen pre + Z.of_nat k + Z.of_nat k + 1 >? zlen pre + (Z.of_nat k + (1 + Z.of_nat (length l)))) eqn:E; [reflexivity|lia].
  - (* zeros = w ++ l *)
    symmetry in Hw1. apply repeat_prefix in Hw1 as [Hw1 Hle]. rewrite Hw1. unfold readue.
    rewrite skip_zeros_trunc by (rewrite app_length, repeat_length; lia). reflexivity.
Qed.

Lemma readuie_loop_trunc ds : forall fuel pre w s c,
  (length w < fuel)%nat -> s <> [] -> w ++ s = interleave ds ++ [true] ->
  readuie_loop fuel (pre ++ w) (zlen pre) c = Err ReadError.
Proof.
  induction ds as [|d ds IH]; intros fuel pre w s c Hf Hs Hw; destruct fuel as [|f]; try lia.
  - cbn [interleave app] in Hw. destruct w as [|x w].
    + cbn [readuie_loop]. rewrite app_nil_r, getbit_end by lia. reflexivity.
    + injection Hw as _ Hw. destruct w; destruct s; try discriminate; congruence.
  - cbn [interleave] in Hw. rewrite <- !app_comm_cons in Hw.
    destruct w as [|x w].
    + cbn [readuie_loop]. rewrite app_nil_r, getbit_end by lia. reflexivity.
    + injection Hw as -> Hw. destruct w as [|y w].
      * cbn [readuie_loop]. rewrite getbit_mid. rewrite getbit_end; [reflexivity|].
        rewrite zlen_app. change (zlen [false]) with 1. lia.
      * injection Hw as -> Hw. cbn [readuie_loop]. rewrite getbit_mid.
        rewrite (app_cons_assoc pre false).
        replace (zlen pre + 1) with (zlen (pre ++ [false])) by (rewrite zlen_app; reflexivity).
        rewrite getbit_mid. rewrite (app_cons_assoc (pre ++ [false]) d).
        replace (zlen pre + 2) with (zlen ((pre ++ [false]) ++ [d]))
          by (rewrite !zlen_app; change (zlen [false]) with 1; change (zlen [d]) with 1; lia).
        eapply IH; [simpl in Hf; lia|exact Hs|exact Hw].
Qed.

Lemma readuie_trunc n pre w s : s <> [] -> w ++ s = spec_uie n ->
  readuie (pre ++ w) (zlen pre) = Err ReadError.
Proof.
  intros Hs Hw. unfold readuie, spec_uie in *.
  eapply readuie_loop_trunc; [rewrite app_length; lia|exact Hs|exact Hw].
Qed.

Theorem g_read_trunc c n pre w s : g_dom c n = true -> s <> [] -> w ++ s = g_spec c n ->
  g_read c (pre ++ w) (zlen pre) = Err ReadError.
Proof.
  destruct c; cbn [g_dom g_read g_spec]; intros Hd Hs Hw.
  - eapply readue_trunc; eauto; lia.
  - unfold readse. unfold spec_se in Hw. erewrite readue_trunc; [reflexivity| |exact Hs|exact Hw].
    destruct (n >? 0) eqn:E; lia.
  - eapply readuie_trunc; eauto.
  - unfold readsie. unfold spec_sie in Hw. destruct (n =? 0) eqn:E0.
    + change [true] with (spec_uie 0) in Hw. erewrite readuie_trunc; [reflexivity|exact Hs|exact Hw].
    + apply Z.eqb_neq in E0.
      apply app_eq_app in Hw as [l [[Hw1 Hw2] | [Hw1 Hw2]]].
      * (* w = uie ++ l ; [sign] = l ++ s *)
        destruct l as [|x l].
        -- rewrite app_nil_r in Hw1. subst w.
           pose proof (readuie_spec (Z.abs n) pre [] ltac:(lia)) as R. rewrite app_nil_r in R. rewrite R.
           cbn [bind]. destruct (Z.abs n =? 0) eqn:E1; [lia|].
           rewrite getbit_end; [reflexivity|]. rewrite zlen_app. lia.
        -- cbn in Hw2. injection Hw2 as _ Hw2. destruct l; destruct s; try discriminate; congruence.
      * (* uie = w ++ l *)
        destruct l as [|x l].
        -- rewrite app_nil_r in Hw1. subst w.
           pose proof (readuie_spec (Z.abs n) pre [] ltac:(lia)) as R. rewrite app_nil_r in R. rewrite R.
           cbn [bind]. destruct (Z.abs n =? 0) eqn:E1; [lia|].
           rewrite getbit_end; [reflexivity|]. rewrite zlen_app. lia.
        -- erewrite readuie_trunc; [reflexivity| |symmetry; exact Hw1]. discriminate.
Qed.

Theorem whole_trunc c n w s : g_dom c n = true -> s <> [] -> w ++ s = g_spec c n ->
  get_whole (g_read c) w = Err ValueError.
Proof.
  intros Hd Hs Hw. unfold get_whole.
  pose proof (g_read_trunc c n [] w s Hd Hs Hw) as R. cbn [app] in R.
  change (zlen (@nil bool)) with 0 in R. rewrite R. reflexivity.
Qed.

(* ================= decoders only move forward ================= *)
Lemma skip_zeros_ge fuel b : forall pos q, skip_zeros fuel b pos = Ok q -> pos <= q.
Proof.
  induction fuel as [|f IH]; intros pos q H; [discriminate|].
  cbn [skip_zeros] in H. destruct (getbit b pos) as [[|]|]; try discriminate.
  - injection H as <-. lia.
  - apply IH in H. lia.
Qed.

Lemma readue_ge b pos x n : readue b pos = Ok (x, n) -> pos < n.
Proof.
  unfold readue. destruct (skip_zeros (S (length b)) b pos) as [q|] eqn:Es; [|discriminate].
  apply skip_zeros_ge in Es. cbn [bind].
  destruct (q - pos >? 0) eqn:E.
  - destruct (q + (q - pos) + 1 >? zlen b); [discriminate|].
    destruct (getuint _); [|discriminate]. cbn [bind]. intros [= _ <-]. lia.
  - destruct (Z.shiftl 1 (q - pos) - 1 =? 0); [|discriminate]. intros [= _ <-]. lia.
Qed.

Lemma readuie_loop_ge fuel b : forall pos c x n, readuie_loop fuel b pos c = Ok (x, n) -> pos < n.
Proof.
  induction fuel as [|f IH]; intros pos c x n H; [discriminate|].
  cbn [readuie_loop] in H. destruct (getbit b pos) as [[|]|]; try discriminate.
  - injection H as _ <-. lia.
  - destruct (getbit b (pos + 1)); [|discriminate]. apply IH in H. lia.
Qed.

Theorem g_read_forward c b pos x n : g_read c b pos = Ok (x, n) -> pos < n.
Proof.
  destruct c; cbn [g_read].
  - apply readue_ge.
  - unfold readse. destruct (readue b pos) as [[cn p]|] eqn:E; [|discriminate]. cbn [bind].
    apply readue_ge in E. destruct (cn mod 2 =? 0); intros [= _ <-]; lia.
  - unfold readuie. apply readuie_loop_ge.
  - unfold readsie, readuie. destruct (readuie_loop (S (length b)) b pos 1) as [[cn p]|] eqn:E; [|discriminate].
    cbn [bind]. apply readuie_loop_ge in E. destruct (cn =? 0); [intros [= _ <-]; lia|].
    destruct (getbit b p) as [[|]|]; try discriminate; intros [= _ <-]; lia.
Qed.

(* ================= a successful decode stays inside the data ================= *)
Lemma getbit_ok_lt b pos x : getbit b pos = Ok x -> 0 <= pos -> pos < zlen b.
Proof.
  intros H Hp. unfold getbit in H. rewrite seq_getitem_nonneg in H by lia.
  destruct (pos >=? zlen b) eqn:E; [discriminate|lia].
Qed.

Lemma skip_zeros_lt fuel b : forall pos q, 0 <= pos -> skip_zeros fuel b pos = Ok q -> q < zlen b.
Proof.
  induction fuel as [|f IH]; intros pos q Hp H; [discriminate|].
  cbn [skip_zeros] in H. destruct (getbit b pos) as [[|]|] eqn:Eg; try discriminate.
  - injection H as <-. eapply getbit_ok_lt; eauto.
  - eapply IH; [|exact H]. lia.
Qed.

Lemma readuie_loop_within fuel b : forall pos c x n, 0 <= pos -> readuie_loop fuel b pos c = Ok (x, n) -> n <= zlen b.
Proof.
  induction fuel as [|f IH]; intros pos c x n Hp H; [discriminate|].
  cbn [readuie_loop] in H. destruct (getbit b pos) as [[|]|] eqn:Eg; try discriminate.
  - injection H as _ <-. apply getbit_ok_lt in Eg; lia.
  - destruct (getbit b (pos + 1)); [|discriminate]. eapply IH; [|exact H]. lia.
Qed.

Lemma readue_within b pos x n : 0 <= pos -> readue b pos = Ok (x, n) -> n <= zlen b.
Proof.
  intros Hp. unfold readue. destruct (skip_zeros (S (length b)) b pos) as [q|] eqn:Es; [|discriminate].
  pose proof (skip_zeros_ge _ _ _ _ Es). apply skip_zeros_lt in Es; [|lia]. cbn [bind].
  destruct (q - pos >? 0) eqn:E.
  - destruct (q + (q - pos) + 1 >? zlen b) eqn:E2; [discriminate|].
    destruct (getuint _); [|discriminate]. cbn [bind]. intros [= _ <-]. lia.
  - destruct (Z.shiftl 1 (q - pos) - 1 =? 0); [|discriminate]. intros [= _ <-]. lia.
Qed.

Theorem g_read_within c b pos x n : 0 <= pos -> g_read c b pos = Ok (x, n) -> n <= zlen b.
Proof.
  intros Hp. destruct c; cbn [g_read].
  - apply readue_within; lia.
  - unfold readse. destruct (readue b pos) as [[cn p]|] eqn:E; [|discriminate]. cbn [bind].
    apply readue_within in E; [|lia]. destruct (cn mod 2 =? 0); intros [= _ <-]; lia.
  - unfold readuie. apply readuie_loop_within. lia.
  - unfold readsie, readuie. destruct (readuie_loop (S (length b)) b pos 1) as [[cn p]|] eqn:E; [|discriminate].
    cbn [bind]. pose proof (readuie_loop_ge _ _ _ _ _ _ E). apply readuie_loop_within in E; [|lia].
    destruct (cn =? 0); [intros [= _ <-]; lia|].
    destruct (getbit b p) as [[|]|] eqn:Eg; try discriminate; intros [= _ <-]; apply getbit_ok_lt in Eg; lia.
Qed.

(* ================= C20: the decoders terminate (the fuel suffices) and fail only with ReadError ================= *)
Lemma skip_zeros_no_fuel b : forall fuel pos, 0 <= pos -> (Z.to_nat (zlen b - pos) < fuel)%nat -> skip_zeros fuel b pos <> Err OutOfFuel.
Proof.
  induction fuel as [|f IH]; intros pos Hp Hf; [lia|].
  cbn [skip_zeros]. destruct (getbit b pos) as [[|]|] eqn:Eg; try discriminate.
  apply getbit_ok_lt in Eg; [|lia]. apply IH; lia.
Qed.
Lemma skip_zeros_err fuel b : forall pos e, skip_zeros fuel b pos = Err e -> e = ReadError \/ e = OutOfFuel.
Proof.
  induction fuel as [|f IH]; intros pos e H; [injection H as <-; auto|].
  cbn [skip_zeros] in H. destruct (getbit b pos) as [[|]|]; try discriminate; [eapply IH; eauto|injection H as <-; auto].
Qed.
Lemma readuie_loop_no_fuel b : forall fuel pos c, 0 <= pos -> (Z.to_nat (zlen b - pos) < fuel)%nat -> readuie_loop fuel b pos c <> Err OutOfFuel.
Proof.
  induction fuel as [|f IH]; intros pos c Hp Hf; [lia|].
  cbn [readuie_loop]. destruct (getbit b pos) as [[|]|] eqn:Eg; try discriminate.
  destruct (getbit b (pos + 1)) eqn:Eg2; [|discriminate]. apply getbit_ok_lt in Eg; [|lia]. apply IH; lia.
Qed.
Lemma readuie_loop_err fuel b : forall pos c e, readuie_loop fuel b pos c = Err e -> e = ReadError \/ e = OutOfFuel.
Proof.
  induction fuel as [|f IH]; intros pos c e H; [injection H as <-; auto|].
  cbn [readuie_loop] in H. destruct (getbit b pos) as [[|]|]; try discriminate; [|injection H as <-; auto].
  destruct (getbit b (pos + 1)); [eapply IH; eauto|injection H as <-; auto].
Qed.

Lemma readue_err b pos e : 0 <= pos -> readue b pos = Err e -> e = ReadError.
Proof.
  intros Hp. unfold readue. destruct (skip_zeros (S (length b)) b pos) as [q|e0] eqn:Es.
  - cbn [bind]. pose proof (skip_zeros_ge _ _ _ _ Es) as Hge. destruct (q - pos >? 0) eqn:E.
    + destruct (q + (q - pos) + 1 >? zlen b) eqn:E2; [intros He; congruence|].
      unfold getuint. pose proof (skip_zeros_lt _ _ _ _ Hp Es).
      assert (Hl : zlen (sub b (q + 1) (q + 1 + (q - pos))) = q - pos).
      { unfold sub, zlen in *. rewrite firstn_length, skipn_length. lia. }
      rewrite Hl. destruct (q - pos =? 0) eqn:E3; [lia|].
      destruct (sub b (q + 1) (q + 1 + (q - pos))) eqn:Esub; [cbn in Hl; lia|]. cbn. discriminate.
    + assert (q = pos) by lia. subst q. rewrite Z.sub_diag. cbn. discriminate.
  - cbn [bind]. intros He. assert (e0 = e) by congruence. subst e0. destruct (skip_zeros_err _ _ _ _ Es) as [Hr|Hr]; [exact Hr|]. subst e.
    exfalso. eapply (skip_zeros_no_fuel b (S (length b)) pos Hp); [unfold zlen; lia|exact Es].
Qed.

Theorem decoders_fail_cleanly c b pos e : 0 <= pos -> g_read c b pos = Err e -> e = ReadError.
Proof.
  intros Hp. destruct c; cbn [g_read].
  - now apply readue_err.
  - unfold readse. destruct (readue b pos) as [[cn p]|e0] eqn:E; cbn [bind].
    + destruct (cn mod 2 =? 0); discriminate.
    + intros He. assert (e0 = e) by congruence. subst e0. eapply readue_err; eauto.
  - unfold readuie. intros H. destruct (readuie_loop_err _ _ _ _ _ H) as [Hr|Hr]; [exact Hr|]. subst e.
    exfalso. eapply (readuie_loop_no_fuel b (S (length b)) pos 1 Hp); [unfold zlen; lia|exact H].
  - unfold readsie, readuie. destruct (readuie_loop (S (length b)) b pos 1) as [[cn p]|e0] eqn:E; cbn [bind].
    + destruct (cn =? 0); [discriminate|]. destruct (getbit b p) as [[|]|]; try discriminate. intros He. congruence.
    + intros He. assert (e0 = e) by congruence. subst e0. destruct (readuie_loop_err _ _ _ _ _ E) as [Hr|Hr]; [exact Hr|]. subst e.
      exfalso. eapply (readuie_loop_no_fuel b (S (length b)) pos 1 Hp); [unfold zlen; lia|exact E].
Qed.
