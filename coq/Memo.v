(* Memo.v — C09: memoisation is transparent when the cache key determines the computation;
   the option table swap is idempotent.  Generic over keys, arguments, options and values. *)
From Coq Require Import List Bool String Arith.
Import ListNotations.

Section Memo.
  Variables (A O K V : Type).
  Variable key_of : A -> O -> K.           (* what lru_cache hashes: the arguments (+ any option passed as an argument) *)
  Variable compute : A -> O -> V.          (* the undecorated function, reading options O *)
  Variable keqb : K -> K -> bool.
  Hypothesis keqb_eq : forall a b, keqb a b = true <-> a = b.
  (* THE obligation on the code (generated per function from the call graph): the key determines the result *)
  Hypothesis key_determines : forall a o a' o', key_of a o = key_of a' o' -> compute a o = compute a' o'.

  Definition mcache := list (K * V).
  Fixpoint lookup (k : K) (c : mcache) : option V :=
    match c with [] => None | (k', v) :: t => if keqb k k' then Some v else lookup k t end.
  Definition memo_call (c : mcache) (a : A) (o : O) : V * mcache :=
    match lookup (key_of a o) c with
    | Some v => (v, c)
    | None => let v := compute a o in (v, (key_of a o, v) :: c)
    end.

  (* every entry was produced by some earlier call under the options in force at that time *)
  Definition sound (c : mcache) : Prop := forall k v, In (k, v) c -> exists a o, key_of a o = k /\ compute a o = v.

  Lemma lookup_in k c v : lookup k c = Some v -> In (k, v) c.
  Proof.
    induction c as [|[k' v'] t IH]; cbn; [discriminate|]. destruct (keqb k k') eqn:E.
    - intros [= <-]. apply keqb_eq in E. subst. now left.
    - intros H. right. now apply IH.
  Qed.

  Theorem memo_transparent c a o : sound c -> fst (memo_call c a o) = compute a o /\ sound (snd (memo_call c a o)).
  Proof.
    intros Hs. unfold memo_call. destruct (lookup (key_of a o) c) as [v|] eqn:E.
    - split; [|exact Hs]. cbn. apply lookup_in in E. destruct (Hs _ _ E) as [a' [o' [Hk Hv]]].
      rewrite <- Hv. symmetry. apply key_determines. now symmetry.
    - split; [reflexivity|]. cbn. intros k v [[= <- <-]|Hin]; [now exists a, o|now apply Hs].
  Qed.

  (* eviction (any policy, any capacity): every sub-multiset of a sound cache is sound *)
  Theorem evict_sound c c' : sound c -> (forall e, In e c' -> In e c) -> sound c'.
  Proof. intros Hs Hsub k v Hin. apply Hs. now apply Hsub. Qed.

  (* histories: calls (each under its own current options) interleaved with arbitrary evictions *)
  Inductive event := Call (a : A) (o : O) | Evict (keep : K -> bool).
  Definition run_event (c : mcache) (e : event) : option V * mcache :=
    match e with
    | Call a o => let '(v, c') := memo_call c a o in (Some v, c')
    | Evict keep => (None, filter (fun kv => keep (fst kv)) c)
    end.
  Fixpoint run_events (c : mcache) (es : list event) : list (option V) :=
    match es with [] => [] | e :: t => let '(r, c') := run_event c e in r :: run_events c' t end.
  Definition cold (e : event) : option V := match e with Call a o => Some (compute a o) | Evict _ => None end.

  Theorem history_independent es : forall c, sound c -> run_events c es = map cold es.
  Proof.
    induction es as [|e t IH]; intros c Hs; [reflexivity|]. cbn [run_events map].
    destruct e as [a o|keep]; cbn [run_event cold].
    - destruct (memo_transparent c a o Hs) as [Hv Hs']. destruct (memo_call c a o) as [v c']. cbn in *. subst v.
      f_equal. now apply IH.
    - f_equal. apply IH. eapply evict_sound; [exact Hs|]. intros e Hin. apply filter_In in Hin. tauto.
  Qed.
  Theorem empty_sound : sound []. Proof. intros k v []. Qed.
End Memo.

(* ---------- the lsb0 method table swap (Options.set_lsb0) ---------- *)
Definition mtable := list (string * string * string).     (* (class, attribute, implementation) *)
Definition row_key (r : string * string * string) : string * string := (fst (fst r), snd (fst r)).
Definition key_eqb (a b : string * string) : bool := String.eqb (fst a) (fst b) && String.eqb (snd a) (snd b).
(* setattr(cls, attr, method) for every row: later rows for the same key win; other keys stay *)
Definition apply_row (st : mtable) (r : string * string * string) : mtable :=
  r :: filter (fun x => negb (key_eqb (row_key x) (row_key r))) st.
Definition apply_table (st t : mtable) : mtable := fold_left apply_row t st.
Definition binding (st : mtable) (k : string * string) : option string :=
  match find (fun x => key_eqb (row_key x) k) st with Some r => Some (snd r) | None => None end.
Definition same_keys (a b : mtable) : bool :=
  forallb (fun r => existsb (fun x => key_eqb (row_key x) (row_key r)) b) a &&
  forallb (fun r => existsb (fun x => key_eqb (row_key x) (row_key r)) a) b.

Lemma key_eqb_eq a b : key_eqb a b = true <-> a = b.
Proof.
  unfold key_eqb. destruct a as [a1 a2], b as [b1 b2]. cbn. rewrite andb_true_iff, !String.eqb_eq.
  split; [intros [-> ->]; reflexivity|intros [= -> ->]; auto].
Qed.
Lemma key_eqb_refl a : key_eqb a a = true. Proof. now apply key_eqb_eq. Qed.

Lemma binding_apply_row_same st r : binding (apply_row st r) (row_key r) = Some (snd r).
Proof. unfold binding, apply_row. cbn [find]. now rewrite key_eqb_refl. Qed.

Lemma find_filter_other (st : mtable) k k' : k <> k' ->
  find (fun x => key_eqb (row_key x) k) (filter (fun x => negb (key_eqb (row_key x) k')) st)
  = find (fun x => key_eqb (row_key x) k) st.
Proof.
  intros Hne. induction st as [|x t IH]; [reflexivity|]. cbn [filter find].
  destruct (key_eqb (row_key x) k') eqn:E'; cbn [negb].
  - destruct (key_eqb (row_key x) k) eqn:E; [|exact IH].
    apply key_eqb_eq in E. apply key_eqb_eq in E'. congruence.
  - cbn [find]. destruct (key_eqb (row_key x) k); [reflexivity|exact IH].
Qed.

Lemma binding_apply_row_other st r k : row_key r <> k -> binding (apply_row st r) k = binding st k.
Proof.
  intros Hne. unfold binding, apply_row. cbn [find].
  destruct (key_eqb (row_key r) k) eqn:E; [apply key_eqb_eq in E; congruence|].
  rewrite find_filter_other by congruence. reflexivity.
Qed.

Lemma binding_apply_table_other t : forall st k, (forall r, In r t -> row_key r <> k) -> binding (apply_table st t) k = binding st k.
Proof.
  unfold apply_table. induction t as [|r t IH]; intros st k H; [reflexivity|]. cbn [fold_left].
  rewrite IH by (intros r' Hr'; apply H; now right). apply binding_apply_row_other. apply H. now left.
Qed.

(* after installing a table without duplicate keys, every one of its keys is bound to its row *)
Theorem binding_apply_table t : NoDup (map row_key t) -> forall st r, In r t -> binding (apply_table st t) (row_key r) = Some (snd r).
Proof.
  unfold apply_table. induction t as [|r0 t IH]; intros Hnd st r Hin; [contradiction|].
  cbn [map] in Hnd. inversion Hnd as [|? ? Hnotin Hnd']; subst. cbn [fold_left].
  destruct Hin as [<-|Hin].
  - fold (apply_table (apply_row st r0) t). rewrite binding_apply_table_other.
    + apply binding_apply_row_same.
    + intros r' Hr' E. apply Hnotin. rewrite <- E. now apply in_map.
  - now apply IH.
Qed.

(* toggling: whatever tables were installed before (any history of set_lsb0 calls), installing table T
   leaves every key of T bound as T says — so switching an option back restores the earlier behaviour *)
Theorem toggle_restores (history : list mtable) (T : mtable) (st : mtable) :
  NoDup (map row_key T) -> forall r, In r T ->
  binding (apply_table (fold_left apply_table history st) T) (row_key r) = Some (snd r).
Proof. intros Hnd r Hin. now apply binding_apply_table. Qed.
