(* MutProofs2.v — C03: the multi-position mutators.
   set / invert over an iterable of positions: pointwise characterisation + frame (length kept, unlisted bits unchanged);
   set(v, range(...)): the slice fast path equals the per-position loop (the guard on the fast path is sufficient);
   *= n : n copies. *)
From BS Require Import Prims BitsCore SeqProofs Mutators MutSpec MutProofs StoreProofs.
From BS Require MirrorProofs.
From Coq Require Import ZifyBool.
Open Scope Z_scope.

(* ---------- one position ---------- *)
Definition valid_pos (len p : Z) : bool := (- len <=? p) && (p <? len).

Lemma setbit_ok b p v : valid_pos (zlen b) p = true ->
  setbit false b p v = Ok (set_nth b (Z.to_nat (norm_pos (zlen b) p)) v).
Proof.
  unfold valid_pos, setbit, setbit_msb0, ba_setitem, norm_index, norm_pos. intros H.
  destruct (p <? 0) eqn:E; destruct (_ || _) eqn:E2; try lia; reflexivity.
Qed.

Lemma setbit_err b p v : valid_pos (zlen b) p = false -> setbit false b p v = Err IndexError.
Proof.
  unfold valid_pos, setbit, setbit_msb0, ba_setitem, norm_index. intros H.
  destruct (p <? 0) eqn:E; destruct (_ || _) eqn:E2; try lia; reflexivity.
Qed.

Lemma set_nth_length {A} (l : list A) : forall n x, length (set_nth l n x) = length l.
Proof. induction l as [|h t IH]; intros [|n] x; cbn; auto. Qed.

Lemma zlen_set_nth {A} (l : list A) n x : zlen (set_nth l n x) = zlen l.
Proof. unfold zlen. now rewrite set_nth_length. Qed.

Lemma nth_set_nth {A} (d : A) (l : list A) : forall n x i, (n < length l)%nat ->
  nth i (set_nth l n x) d = if Nat.eqb i n then x else nth i l d.
Proof.
  induction l as [|h t IH]; intros n x i Hn; [cbn in Hn; lia|].
  destruct n as [|n]; destruct i as [|i]; cbn [set_nth nth Nat.eqb]; try reflexivity.
  apply IH. cbn in Hn. lia.
Qed.

Lemma znth_set_nth {A} (d : A) (l : list A) n x i : 0 <= n < zlen l -> 0 <= i ->
  znth d (set_nth l (Z.to_nat n) x) i = if i =? n then x else znth d l i.
Proof.
  intros Hn Hi. unfold znth. rewrite nth_set_nth by (unfold zlen in Hn; lia).
  destruct (i =? n) eqn:E; destruct (Nat.eqb (Z.to_nat i) (Z.to_nat n)) eqn:E2; try reflexivity.
  - apply Nat.eqb_neq in E2. lia.
  - apply Nat.eqb_eq in E2. lia.
Qed.

(* ---------- set(v, iterable) ---------- *)
(* the positions that get applied: the longest prefix of valid ones *)
Fixpoint applied (len : Z) (ps : list Z) : list Z :=
  match ps with [] => [] | p :: ps' => if valid_pos len p then norm_pos len p :: applied len ps' else [] end.
Definition all_valid (len : Z) (ps : list Z) : bool := forallb (valid_pos len) ps.

Theorem set_list_spec v : forall ps b,
  let r := set_list false b v ps in
  zlen (fst r) = zlen b /\
  (forall i, 0 <= i < zlen b -> znth false (fst r) i = if existsb (Z.eqb i) (applied (zlen b) ps) then v else znth false b i) /\
  snd r = (if all_valid (zlen b) ps then None else Some IndexError).
Proof.
  induction ps as [|p ps IH]; intros b; cbn zeta.
  - cbn. repeat split; auto.
  - cbn [set_list applied all_valid forallb]. destruct (valid_pos (zlen b) p) eqn:Hv.
    + rewrite (setbit_ok b p v Hv).
      set (n := norm_pos (zlen b) p). set (b' := set_nth b (Z.to_nat n) v).
      assert (Hn : 0 <= n < zlen b) by (unfold n, norm_pos, valid_pos in *; destruct (p <? 0) eqn:?; lia).
      assert (Hl : zlen b' = zlen b) by apply zlen_set_nth.
      destruct (IH b') as (L & P & E). cbn zeta in *. rewrite Hl in *.
      split; [exact L|]. split; [|exact E].
      intros i Hi. rewrite (P i Hi). cbn [existsb]. unfold b'. rewrite znth_set_nth by lia.
      destruct (i =? n) eqn:E1; cbn [orb]; [destruct (existsb _ _); reflexivity|reflexivity].
    + rewrite (setbit_err b p v Hv). cbn. repeat split; auto.
Qed.

Corollary set_list_frame v ps b i : 0 <= i < zlen b -> (forall p, In p ps -> norm_pos (zlen b) p <> i) ->
  znth false (fst (set_list false b v ps)) i = znth false b i.
Proof.
  intros Hi Hn. destruct (set_list_spec v ps b) as (_ & P & _). cbn zeta in P. rewrite (P i Hi).
  replace (existsb (Z.eqb i) (applied (zlen b) ps)) with false; [reflexivity|].
  symmetry. apply Bool.not_true_iff_false. intros H. apply existsb_exists in H as (x & Hx & Hxi).
  assert (Hin : exists p, In p ps /\ x = norm_pos (zlen b) p).
  { clear -Hx. induction ps as [|p ps IH]; [contradiction|]. cbn in Hx. destruct (valid_pos (zlen b) p); [|contradiction].
    destruct Hx as [<-|Hx]; [exists p; split; [left; reflexivity|reflexivity]|]. destruct (IH Hx) as (q & Hq & ->). exists q. split; [right; exact Hq|reflexivity]. }
  destruct Hin as (p & Hp & ->). apply (Hn p Hp). lia.
Qed.

(* ---------- set(v, range(a, s, c)): the slice fast path is the per-position loop ---------- *)
Lemma In_progression x a c n : In x (progression a c n) <-> exists j, (j < n)%nat /\ x = a + Z.of_nat j * c.
Proof.
  revert a. induction n as [|n IH]; intros a; cbn [progression In].
  - split; [contradiction|intros (j & Hj & _); lia].
  - rewrite IH. split.
    + intros [<-|(j & Hj & ->)]; [exists 0%nat; split; [lia|lia]|exists (S j); split; [lia|lia]].
    + intros (j & Hj & ->). destruct j as [|j]; [left; lia|right; exists j; split; [lia|lia]].
Qed.

Lemma assign_at_repeat_is_set_list v : forall idx b, (forall x, In x idx -> 0 <= x < zlen b) ->
  set_list false b v idx = (assign_at b idx (repeat v (length idx)), None).
Proof.
  induction idx as [|i idx IH]; intros b H; [reflexivity|].
  cbn [set_list length repeat assign_at].
  assert (Hi : 0 <= i < zlen b) by (apply H; left; reflexivity).
  rewrite setbit_ok by (unfold valid_pos; lia). unfold norm_pos. destruct (i <? 0) eqn:E; [lia|].
  apply IH. intros x Hx. rewrite zlen_set_nth. apply H. right; exact Hx.
Qed.

Theorem set_range_fast_path_is_loop b v a s c : c <> 0 ->
  ba_set_range false b v a s c = set_list false b v (range_list a s c).
Proof.
  intros Hc. unfold ba_set_range. pose proof (zlen_nonneg b) as Hl.
  destruct ((c >? 0) && (0 <=? a) && (0 <=? s) && (s <=? zlen b)) eqn:G; [|reflexivity].
  unfold setslice_scalar, ba_setslice_scalar, slice_indices. cbn [s_step s_start s_stop].
  destruct (c =? 0) eqn:E0; [lia|]. destruct (c <? 0) eqn:E1; [lia|]. cbn [bind].
  rewrite (clamp_id s) by lia.
  assert (Hr : range_list (clamp_index a (zlen b) 0 (zlen b)) s c = range_list a s c).
  { unfold clamp_index. destruct (a <? 0) eqn:E2; [lia|]. destruct (a >? zlen b) eqn:E3; [|reflexivity].
    unfold range_list, range_len. destruct (c >? 0) eqn:E4; [|lia].
    destruct (zlen b <? s) eqn:E5; [lia|]. destruct (a <? s) eqn:E6; [lia|]. reflexivity. }
  rewrite Hr. symmetry. apply assign_at_repeat_is_set_list.
  intros x Hx. unfold range_list in Hx. apply In_progression in Hx as (j & Hj & ->).
  unfold range_len in Hj. destruct (c >? 0) eqn:E4; [|lia]. destruct (a <? s) eqn:E5; [|cbn in Hj; lia].
  assert (Z.of_nat j <= (s - a - 1) / c) by lia.
  pose proof (Z.div_mod (s - a - 1) c ltac:(lia)). pose proof (Z.mod_pos_bound (s - a - 1) c ltac:(lia)). nia.
Qed.

(* ---------- invert(iterable): length kept, unlisted positions unchanged ---------- *)
Lemma invert_at_ok b p : 0 <= p < zlen b -> invert_at false b p = Ok (set_nth b (Z.to_nat p) (negb (znth false b p))).
Proof.
  intros H. unfold invert_at, ba_invert_at, norm_index. destruct (p <? 0) eqn:E; [lia|].
  destruct (_ || _) eqn:E2; [lia|]. reflexivity.
Qed.

Theorem invert_list_frame : forall ps b,
  let r := invert_list false b ps in
  zlen (fst r) = zlen b /\
  (forall i, 0 <= i < zlen b -> (forall p, In p ps -> norm_pos (zlen b) p <> i) -> znth false (fst r) i = znth false b i) /\
  (snd r = None <-> all_valid (zlen b) ps = true).
Proof.
  induction ps as [|p ps IH]; intros b; cbn zeta.
  - cbn. repeat split; auto.
  - cbn [invert_list all_valid forallb]. fold (norm_pos (zlen b) p).
    set (n := norm_pos (zlen b) p).
    assert (Hvn : valid_pos (zlen b) p = (0 <=? n) && (n <? zlen b)).
    { unfold valid_pos, n, norm_pos. destruct (p <? 0) eqn:E; lia. }
    rewrite Hvn. destruct ((0 <=? n) && (n <? zlen b)) eqn:Hv.
    + rewrite invert_at_ok by lia. set (b' := set_nth b (Z.to_nat n) (negb (znth false b n))).
      assert (Hl : zlen b' = zlen b) by apply zlen_set_nth.
      destruct (IH b') as (L & P & E). cbn zeta in *. rewrite Hl in *. cbn [andb].
      split; [exact L|]. split; [|exact E].
      intros i Hi Hn. rewrite P; [|exact Hi|intros q Hq; apply Hn; right; exact Hq].
      unfold b'. rewrite znth_set_nth by lia. destruct (i =? n) eqn:E1; [|reflexivity].
      exfalso. apply (Hn p); [left; reflexivity|]. fold n. lia.
    + cbn. repeat split; auto; discriminate.
Qed.

(* ---------- *= n ---------- *)
Theorem imul_is_n_copies b n : 0 <= n -> ba_imul false b n = Ok (rep b (Z.to_nat n)).
Proof.
  intros Hn. unfold ba_imul. destruct (n <? 0) eqn:E; [lia|].
  pose proof (mul_refines b n Hn) as H. unfold bs_mul in H. rewrite E in H.
  destruct (n =? 0) eqn:E0; [|exact H]. unfold imul. rewrite E, E0. exact H.
Qed.

Theorem imul_negative b n : n < 0 -> ba_imul false b n = Err ValueError.
Proof. intros Hn. unfold ba_imul. destruct (n <? 0) eqn:E; [reflexivity|lia]. Qed.

(* ---------- a[start:stop] = bits  and  del a[start:stop]  for ANY start / stop (negative, omitted, out of range, start > stop) ---------- *)
(* Python's clamping of a unit-step slice *)
Definition pyclamp (len : Z) (x : option Z) (dflt : Z) : Z :=
  match x with None => dflt | Some v => clamp_index v len 0 len end.

Lemma slice_indices_unit_any start stop len :
  slice_indices (mkslice start stop None) len = Ok (pyclamp len start 0, pyclamp len stop len, 1).
Proof. reflexivity. Qed.

Lemma pyclamp_range len x d : 0 <= len -> 0 <= d <= len -> 0 <= pyclamp len x d <= len.
Proof.
  intros Hl Hd. unfold pyclamp, clamp_index. destruct x as [v|]; [|lia].
  destruct (v <? 0) eqn:?; [destruct (v + len <? 0) eqn:?|destruct (v >? len) eqn:?]; lia.
Qed.

Theorem setslice_bits_any b start stop v :
  ba_setitem_slice false b (mkslice start stop None) (VBits v) =
  Ok (take (pyclamp (zlen b) start 0) b ++ v ++ drop (Z.max (pyclamp (zlen b) start 0) (pyclamp (zlen b) stop (zlen b))) b).
Proof.
  unfold ba_setitem_slice, setslice, setslice_msb0, ba_setslice. rewrite slice_indices_unit_any. cbn [bind].
  change (1 =? 1) with true. cbv iota. set (a := pyclamp (zlen b) start 0). set (o := pyclamp (zlen b) stop (zlen b)).
  unfold take, drop. destruct (o <? a) eqn:E; (f_equal; f_equal; f_equal; f_equal; lia).
Qed.

Theorem delslice_any b start stop :
  ba_delitem_slice false b (mkslice start stop None) =
  Ok (take (pyclamp (zlen b) start 0) b ++ drop (Z.max (pyclamp (zlen b) start 0) (pyclamp (zlen b) stop (zlen b))) b).
Proof.
  unfold ba_delitem_slice, delslice, delslice_msb0. pose proof (zlen_nonneg b) as Hl.
  pose proof (pyclamp_range (zlen b) start 0 Hl ltac:(lia)) as Ha. pose proof (pyclamp_range (zlen b) stop (zlen b) Hl ltac:(lia)) as Ho.
  set (a := pyclamp (zlen b) start 0) in *. set (o := pyclamp (zlen b) stop (zlen b)) in *.
  unfold ba_delslice. rewrite slice_indices_unit_any. cbn [bind]. fold a o. f_equal.
  unfold range_list. rewrite range_len_unit, MirrorProofs.remove_at_run. unfold take, drop. rewrite Z.sub_0_r. f_equal. f_equal. lia.
Qed.

(* frame: both keep everything before min(start') and everything from max(start', stop') on *)
Corollary setslice_bits_length b start stop v :
  forall r, ba_setitem_slice false b (mkslice start stop None) (VBits v) = Ok r ->
  zlen r = zlen b - Z.max 0 (pyclamp (zlen b) stop (zlen b) - pyclamp (zlen b) start 0) + zlen v.
Proof.
  intros r H. rewrite setslice_bits_any in H. injection H as <-. pose proof (zlen_nonneg b) as Hl.
  pose proof (pyclamp_range (zlen b) start 0 Hl ltac:(lia)) as Ha. pose proof (pyclamp_range (zlen b) stop (zlen b) Hl ltac:(lia)) as Ho.
  rewrite !zlen_app, zlen_take, zlen_drop by lia. lia.
Qed.

(* a[start:stop] = integer: the value is encoded in exactly the width of the slice (unsigned if >= 0, two's complement if < 0; C02 gives the
   encoding), a zero-width slice and a value that does not fit raise ValueError, and the rest of the content is untouched *)
Theorem setslice_int_any b start stop v :
  let a := pyclamp (zlen b) start 0 in let o := pyclamp (zlen b) stop (zlen b) in let n := Z.max 0 (o - a) in
  ba_setitem_slice false b (mkslice start stop None) (VInt v) =
  if n =? 0 then Err ValueError else
  match int2ba v n (v <? 0) with
  | Ok vb => Ok (take a b ++ vb ++ drop (Z.max a o) b)
  | Err OverflowError => Err ValueError
  | Err e => Err e
  end.
Proof.
  cbn zeta. pose proof (zlen_nonneg b) as Hl.
  pose proof (pyclamp_range (zlen b) start 0 Hl ltac:(lia)) as Ha. pose proof (pyclamp_range (zlen b) stop (zlen b) Hl ltac:(lia)) as Ho.
  set (a := pyclamp (zlen b) start 0) in *. set (o := pyclamp (zlen b) stop (zlen b)) in *.
  unfold ba_setitem_slice. cbn [s_step negb s_start s_stop].
  unfold getslice, getslice_msb0, seq_slice. rewrite slice_indices_unit_any. cbn [bind]. fold a o.
  unfold range_list. rewrite range_len_unit.
  assert (Hz : zlen (map (znth false b) (progression a 1 (Z.to_nat (Z.max 0 (o - a))))) = Z.max 0 (o - a)).
  { unfold zlen. rewrite map_length, progression_length. lia. }
  rewrite Hz. unfold make_int. destruct (Z.max 0 (o - a) =? 0) eqn:E; [reflexivity|].
  destruct (int2ba v (Z.max 0 (o - a)) (v <? 0)) as [vb|e]; [|destruct e; reflexivity].
  cbn [bind]. pose proof (setslice_bits_any b start stop vb) as S. unfold ba_setitem_slice in S. exact S.
Qed.
