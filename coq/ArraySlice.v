(* ArraySlice.v — C14: Array slicing with ANY key is the Python list slice of the items:
   a[start:stop:step].data = concat (items[start:stop:step]) - no trailing bits, whatever the step sign. *)
From BS Require Import Prims BitsCore Mutators SeqProofs MutSpec MutProofs ArrayM ArrayProofs StoreProofs MirrorProofs.
From BS Require MutProofs2 SplitProofs.
From Coq Require Import ZifyBool.
Open Scope Z_scope.

Section ArraySlice.
  Variable w : Z.
  Hypothesis w_pos : 0 < w.

  Lemma block_is_item its tr k : wfA w its tr -> 0 <= k < zlen its ->
    seq_slice false (mk its tr) (mkslice (Some (k * w)) (Some (k * w + w)) None) = Ok (nth (Z.to_nat k) its []).
  Proof.
    intros H Hk. pose proof (getitem_is_list_index w w_pos its tr k H) as G.
    unfold arr_getitem, pyidx in G. rewrite (arr_len_mk w w_pos its tr H) in G.
    destruct (k <? 0) eqn:E1; [lia|]. destruct ((k <? 0) || (k >=? zlen its)) eqn:E2; [lia|].
    injection G as G. rewrite <- G.
    assert (Hl : zlen (mk its tr) = zlen its * w + zlen tr).
    { unfold mk. rewrite zlen_app. destruct H as [Hi _]. rewrite (zlen_concat w its Hi). reflexivity. }
    pose proof (zlen_nonneg tr).
    rewrite seq_slice_unit by nia. unfold sub, take, drop.
    replace (k * w + w - k * w) with w by lia. replace (k * w) with (w * k) by lia. reflexivity.
  Qed.

  Lemma collect_blocks_items its tr : wfA w its tr -> forall idxs, (forall i, In i idxs -> 0 <= i < zlen its) ->
    collect_blocks w (mk its tr) (map (fun i => i * w) idxs) = Ok (concat (map (znth [] its) idxs)).
  Proof.
    intros H. induction idxs as [|i idxs IH]; intros Hr; [reflexivity|].
    cbn [map collect_blocks concat]. rewrite block_is_item by (try assumption; apply Hr; left; reflexivity). cbn [bind].
    rewrite IH by (intros j Hj; apply Hr; right; exact Hj). reflexivity.
  Qed.

  Lemma progression_scale a c n : progression (a * w) (c * w) n = map (fun i => i * w) (progression a c n).
  Proof. revert a. induction n as [|n IH]; intros a; [reflexivity|]. cbn [progression map]. f_equal. rewrite <- IH. f_equal. lia. Qed.

  Lemma range_len_scale a b c : c <> 0 -> range_len (a * w) (b * w) (c * w) = range_len a b c.
  Proof.
    intros Hc. unfold range_len. destruct (c >? 0) eqn:E.
    - replace (c * w >? 0) with true by nia. destruct (a <? b) eqn:E2.
      + replace (a * w <? b * w) with true by nia. f_equal.
        pose proof (Z.div_mod (b - a - 1) c ltac:(lia)) as D. pose proof (Z.mod_pos_bound (b - a - 1) c ltac:(lia)) as M.
        symmetry. apply (Z.div_unique _ _ _ (((b - a - 1) mod c + 1) * w - 1)); nia.
      + replace (a * w <? b * w) with false by nia. reflexivity.
    - replace (c * w >? 0) with false by nia. destruct (b <? a) eqn:E2.
      + replace (b * w <? a * w) with true by nia. f_equal.
        pose proof (Z.div_mod (a - b - 1) (- c) ltac:(lia)) as D. pose proof (Z.mod_pos_bound (a - b - 1) (- c) ltac:(lia)) as M.
        symmetry. apply (Z.div_unique _ _ _ (((a - b - 1) mod (- c) + 1) * w - 1)); nia.
      + replace (b * w <? a * w) with false by nia. reflexivity.
  Qed.

  Lemma range_list_scale a b c : c <> 0 -> range_list (a * w) (b * w) (c * w) = map (fun i => i * w) (range_list a b c).
  Proof. intros Hc. unfold range_list. rewrite range_len_scale by exact Hc. apply progression_scale. Qed.

  Lemma range_list_in_bounds k n a b c : 0 <= n -> slice_indices k n = Ok (a, b, c) -> forall i, In i (range_list a b c) -> 0 <= i < n.
  Proof.
    intros Hn Hsi i Hi. destruct (slice_indices_bounds k n a b c Hn Hsi) as (Hc & Hpos & Hneg).
    unfold range_list in Hi. apply MutProofs2.In_progression in Hi as (j & Hj & ->).
    unfold range_len in Hj. destruct (c >? 0) eqn:E.
    - destruct Hpos as [Ha Hb]; [lia|]. destruct (a <? b) eqn:E2; [|cbn in Hj; lia].
      pose proof (Z.div_mod (b - a - 1) c ltac:(lia)). pose proof (Z.mod_pos_bound (b - a - 1) c ltac:(lia)).
      assert (Z.of_nat j <= (b - a - 1) / c) by lia. nia.
    - destruct Hneg as [Ha Hb]; [lia|]. destruct (b <? a) eqn:E2; [|cbn in Hj; lia].
      pose proof (Z.div_mod (a - b - 1) (- c) ltac:(lia)). pose proof (Z.mod_pos_bound (a - b - 1) (- c) ltac:(lia)).
      assert (Z.of_nat j <= (a - b - 1) / (- c)) by lia. nia.
  Qed.

  (* one contiguous run of items *)
  Lemma run_of_items its tr : wfA w its tr -> forall n a, 0 <= a -> a + Z.of_nat n <= zlen its ->
    seq_slice false (mk its tr) (mkslice (Some (a * w)) (Some ((a + Z.of_nat n) * w)) None) = Ok (concat (map (znth [] its) (progression a 1 n))).
  Proof.
    intros H. assert (Hl : zlen (mk its tr) = zlen its * w + zlen tr).
    { unfold mk. rewrite zlen_app. destruct H as [Hi _]. rewrite (zlen_concat w its Hi). reflexivity. }
    pose proof (zlen_nonneg tr) as Ht.
    induction n as [|n IH]; intros a Ha Hb.
    - cbn [progression map concat]. rewrite seq_slice_unit by nia. unfold sub. replace (Z.to_nat ((a + Z.of_nat 0) * w - a * w)) with 0%nat by lia. reflexivity.
    - cbn [progression map concat]. rewrite Nat2Z.inj_succ in *.
      pose proof (block_is_item its tr a H ltac:(lia)) as B. rewrite seq_slice_unit in B by nia. injection B as B.
      pose proof (IH (a + 1) ltac:(lia) ltac:(lia)) as R. rewrite seq_slice_unit in R by nia. injection R as R.
      rewrite seq_slice_unit by nia. f_equal. change (znth [] its a) with (nth (Z.to_nat a) its []). rewrite <- B, <- R.
      replace ((a + 1 + Z.of_nat n) * w) with ((a + Z.succ (Z.of_nat n)) * w) by lia.
      symmetry. replace ((a + 1) * w) with (a * w + w) by lia. apply SplitProofs.sub_app_adj; nia.
  Qed.

  Theorem getslice_is_list_slice its tr k : wfA w its tr ->
    arr_getslice w (mk its tr) k = res_map (@concat bool) (seq_slice [] its k).
  Proof.
    intros H. unfold arr_getslice. rewrite (arr_len_mk w w_pos its tr H).
    assert (R : seq_slice [] its k = (do3 (a, b, c) <- slice_indices k (zlen its); Ok (map (znth [] its) (range_list a b c)))) by reflexivity.
    rewrite R. clear R.
    pose proof (zlen_nonneg its) as Hn.
    destruct (slice_indices k (zlen its)) as [[[a b] c]|e] eqn:Hsi; [|reflexivity]. cbn [bind res_map].
    destruct (slice_indices_bounds k (zlen its) a b c Hn Hsi) as (Hc & Hpos & Hneg).
    destruct (c =? 1) eqn:E1.
    - assert (c = 1) by lia. subst c. destruct Hpos as [Ha Hb]; [lia|].
      unfold range_list. rewrite range_len_unit.
      destruct (Z_le_gt_dec a b) as [Hle|Hgt].
      + replace (Z.max 0 (b - a)) with (b - a) by lia.
        replace b with (a + Z.of_nat (Z.to_nat (b - a))) at 1 by lia.
        apply run_of_items; try assumption; lia.
      + replace (Z.max 0 (b - a)) with 0 by lia. cbn [Z.to_nat progression map concat].
        assert (Hl : zlen (mk its tr) = zlen its * w + zlen tr).
        { unfold mk. rewrite zlen_app. destruct H as [Hi _]. rewrite (zlen_concat w its Hi). reflexivity. }
        pose proof (zlen_nonneg tr).
        unfold seq_slice, slice_indices. cbn [s_step s_start s_stop]. change (1 =? 0) with false. change (1 <? 0) with false. cbv iota.
        rewrite !clamp_id by nia. cbn [bind]. unfold range_list. rewrite range_len_unit. replace (Z.max 0 (b * w - a * w)) with 0 by nia. reflexivity.
    - rewrite range_list_scale by exact Hc.
      apply collect_blocks_items; [exact H|]. apply (range_list_in_bounds k); assumption.
  Qed.
End ArraySlice.

Section ArrayMore.
  Variable w : Z.
  Hypothesis w_pos : 0 < w.

  (* pop(i): the item at i, and the Array without it; IndexError on an empty Array or an index out of range; trailing bits untouched *)
  Theorem pop_is_list_pop its tr i : wfA w its tr ->
    arr_pop w (mk its tr) i =
    match pyidx (zlen its) i with
    | Some k => Ok (nth (Z.to_nat k) its [], mk (list_del its (Z.to_nat k)) tr)
    | None => Err IndexError
    end.
  Proof.
    intros H. unfold arr_pop. rewrite (arr_len_mk w w_pos its tr H).
    rewrite (getitem_is_list_index w w_pos its tr i H), (delitem_is_list_deletion w w_pos its tr i H).
    destruct (zlen its =? 0) eqn:E.
    - unfold pyidx. destruct (i <? 0) eqn:E1; destruct (_ || _) eqn:E2; try reflexivity; lia.
    - destruct (pyidx (zlen its) i); reflexivity.
  Qed.
End ArrayMore.
