(* HeapProofs.v — C04: value isolation as an invariant over all histories of derivations and mutations. *)
From BS Require Import Prims BitsCore Heap.
From Coq Require Import Lia.
Open Scope nat_scope.

Definition Iso (h : heap) : Prop :=
  (forall o, o < length (objects h) -> osid (get_obj h o) < length (stores h)) /\
  (forall i, In i (cache h) -> i < length (stores h) /\ hflag (get_store h i) = true) /\
  (forall o, o < length (objects h) -> mutable (ocls (get_obj h o)) = true ->
      hflag (get_store h (osid (get_obj h o))) = false /\ ~ In (osid (get_obj h o)) (cache h) /\
      forall o', o' < length (objects h) -> o' <> o -> osid (get_obj h o') <> osid (get_obj h o)).

(* ---------- list plumbing ---------- *)
Lemma set_nth_store_length l n x : length (set_nth_store l n x) = length l.
Proof. revert n. induction l; destruct n; simpl; auto. Qed.
Lemma set_nth_store_same l n x d : n < length l -> nth n (set_nth_store l n x) d = x.
Proof. revert n. induction l; destruct n; simpl; intros; try lia; auto. apply IHl. lia. Qed.
Lemma set_nth_store_other l n m x d : m <> n -> nth m (set_nth_store l n x) d = nth m l d.
Proof. revert n m. induction l; destruct n, m; simpl; intros; try lia; auto. Qed.

Lemma get_store_alloc_old h b f sid : sid < length (stores h) -> get_store (fst (alloc h b f)) sid = get_store h sid.
Proof. intros H. unfold get_store, alloc. cbn. now rewrite app_nth1. Qed.
Lemma get_store_alloc_new h b f : get_store (fst (alloc h b f)) (snd (alloc h b f)) = mkhs b f.
Proof. unfold get_store, alloc. cbn. rewrite app_nth2 by lia. now rewrite Nat.sub_diag. Qed.
Lemma get_obj_add_old h c sid o : o < length (objects h) -> get_obj (add_obj h c sid) o = get_obj h o.
Proof. intros H. unfold get_obj, add_obj. cbn. now rewrite app_nth1. Qed.
Lemma get_obj_add_new h c sid : get_obj (add_obj h c sid) (length (objects h)) = mkho c sid.
Proof. unfold get_obj, add_obj. cbn. rewrite app_nth2 by lia. now rewrite Nat.sub_diag. Qed.

(* adding an object that refers to store sid, where sid is not owned by any mutable object and,
   if the new object is mutable, is owned by nobody and unflagged *)
Lemma add_obj_iso h c sid :
  Iso h -> sid < length (stores h) ->
  (forall o, o < length (objects h) -> mutable (ocls (get_obj h o)) = true -> osid (get_obj h o) <> sid) ->
  (mutable c = true -> hflag (get_store h sid) = false /\ ~ In sid (cache h) /\
                       forall o, o < length (objects h) -> osid (get_obj h o) <> sid) ->
  Iso (add_obj h c sid).
Proof.
  intros [I1 [I2 I3]] Hsid Hmut Hnew. unfold Iso. cbn [objects stores cache add_obj].
  rewrite app_length. cbn [length]. repeat split.
  - intros o Ho. destruct (Nat.eq_dec o (length (objects h))) as [->|Hne].
    + rewrite get_obj_add_new. exact Hsid.
    + rewrite get_obj_add_old by lia. apply I1. lia.
  - apply I2. exact H.
  - apply I2. exact H.
  - destruct (Nat.eq_dec o (length (objects h))) as [->|Hne].
    + rewrite get_obj_add_new in *. cbn [ocls osid] in *. apply Hnew. exact H0.
    + rewrite get_obj_add_old in * by lia. apply I3; [lia|exact H0].
  - destruct (Nat.eq_dec o (length (objects h))) as [->|Hne].
    + rewrite get_obj_add_new in *. cbn [ocls osid] in *. apply Hnew. exact H0.
    + rewrite get_obj_add_old in * by lia. apply I3; [lia|exact H0].
  - intros o' Ho' Hneq.
    destruct (Nat.eq_dec o (length (objects h))) as [->|Hne]; destruct (Nat.eq_dec o' (length (objects h))) as [->|Hne'].
    + congruence.
    + rewrite get_obj_add_new in *. rewrite get_obj_add_old by lia. cbn [ocls osid] in *.
      apply Hnew; [exact H0|lia].
    + rewrite get_obj_add_new. rewrite get_obj_add_old in * by lia. cbn [osid].
      intro E. eapply Hmut; [|exact H0|symmetry; exact E]. lia.
    + rewrite !get_obj_add_old in * by lia. apply I3; try lia. exact H0.
Qed.

Lemma flagged_in_range h sid : hflag (get_store h sid) = true -> sid < length (stores h).
Proof.
  unfold get_store. intros H. destruct (Nat.lt_ge_cases sid (length (stores h))) as [L|G]; [exact L|].
  rewrite nth_overflow in H by lia. discriminate.
Qed.
Lemma nondefault_obj_in_range h o : ocls (get_obj h o) <> CBits -> o < length (objects h).
Proof.
  unfold get_obj. intros H. destruct (Nat.lt_ge_cases o (length (objects h))) as [L|G]; [exact L|].
  rewrite nth_overflow in H by lia. cbn in H. congruence.
Qed.

(* allocation *)
Lemma alloc_facts h b f : Iso h ->
  let h' := fst (alloc h b f) in let sid := snd (alloc h b f) in
  Iso h' /\ sid = length (stores h) /\ length (stores h') = S (length (stores h)) /\
  objects h' = objects h /\ cache h' = cache h /\ get_store h' sid = mkhs b f /\
  (forall s, s < length (stores h) -> get_store h' s = get_store h s).
Proof.
  intros [I1 [I2 I3]]. cbn zeta.
  assert (Hold : forall s, s < length (stores h) -> get_store (fst (alloc h b f)) s = get_store h s)
    by (intros; now apply get_store_alloc_old).
  assert (Hobj : forall o, get_obj (fst (alloc h b f)) o = get_obj h o) by reflexivity.
  assert (Hlen : length (stores (fst (alloc h b f))) = S (length (stores h))).
  { unfold alloc. cbn [fst stores]. rewrite app_length. cbn. lia. }
  assert (Hobjs : objects (fst (alloc h b f)) = objects h) by reflexivity.
  assert (Hcache : cache (fst (alloc h b f)) = cache h) by reflexivity.
  split; [|repeat split; auto; apply get_store_alloc_new].
  unfold Iso. rewrite Hobjs, Hcache, Hlen. repeat split.
  - intros o Ho. rewrite Hobj. specialize (I1 o Ho). lia.
  - apply I2 in H. lia.
  - destruct (I2 i H) as [L F]. rewrite Hold by exact L. exact F.
  - rewrite Hobj. rewrite Hold by (apply I1; exact H). apply I3; assumption.
  - rewrite Hobj. apply I3; assumption.
  - intros o' Ho' Hne. rewrite !Hobj. apply I3; assumption.
Qed.

Lemma get_store_set_flag h sid f s : sid < length (stores h) ->
  get_store (set_flag h sid f) s = if Nat.eqb s sid then mkhs (hbits (get_store h sid)) f else get_store h s.
Proof.
  intros L. unfold get_store at 1, set_flag. cbn [stores]. destruct (Nat.eqb s sid) eqn:E.
  - apply Nat.eqb_eq in E. subst. now rewrite set_nth_store_same.
  - apply Nat.eqb_neq in E. now rewrite set_nth_store_other.
Qed.

Lemma set_flag_iso h sid : Iso h -> sid < length (stores h) ->
  (forall o, o < length (objects h) -> mutable (ocls (get_obj h o)) = true -> osid (get_obj h o) <> sid) ->
  Iso (set_flag h sid true).
Proof.
  intros [I1 [I2 I3]] L Hm. unfold Iso.
  assert (Ho : forall o, get_obj (set_flag h sid true) o = get_obj h o) by reflexivity.
  cbn [set_flag objects cache stores]. rewrite set_nth_store_length. repeat split.
  - intros o Hlt. rewrite Ho. now apply I1.
  - now apply I2.
  - rewrite get_store_set_flag by exact L. destruct (Nat.eqb i sid); [reflexivity|now apply I2].
  - rewrite Ho. rewrite get_store_set_flag by exact L.
    destruct (Nat.eqb (osid (get_obj h o)) sid) eqn:E.
    + apply Nat.eqb_eq in E. exfalso. eapply Hm; eauto.
    + now apply I3.
  - rewrite Ho. now apply I3.
  - intros o' Ho' Hne. rewrite !Ho. now apply I3.
Qed.

Lemma finish_init_iso h c sid : Iso h -> sid < length (stores h) ->
  (forall o, o < length (objects h) -> mutable (ocls (get_obj h o)) = true -> osid (get_obj h o) <> sid) ->
  (mutable c = true -> hflag (get_store h sid) = false ->
      ~ In sid (cache h) /\ forall o, o < length (objects h) -> osid (get_obj h o) <> sid) ->
  Iso (finish_init h c sid).
Proof.
  intros HI L Hm Hnew. unfold finish_init. destruct (mutable c) eqn:Ec.
  - destruct (hflag (get_store h sid)) eqn:Ef.
    + (* copy the flagged store *)
      pose proof (alloc_facts h (hbits (get_store h sid)) false HI) as F. cbn zeta in F.
      destruct (alloc h (hbits (get_store h sid)) false) as [h' sid'] eqn:Ea. cbn [fst snd] in F.
      destruct F as [HI' [Es [Hl [Ho [Hc [Hg Hold]]]]]].
      destruct HI as [I1 [I2 I3]].
      apply add_obj_iso; auto.
      * lia.
      * rewrite Ho. intros o Hlt Hmu. change (get_obj h' o) with (nth o (objects h') (mkho CBits 0)).
        rewrite Ho. fold (get_obj h o). specialize (I1 o Hlt). lia.
      * intros _. rewrite Hg. cbn. split; [reflexivity|]. split.
        -- rewrite Hc. intro Hin. apply I2 in Hin. lia.
        -- rewrite Ho. intros o Hlt. change (get_obj h' o) with (nth o (objects h') (mkho CBits 0)). rewrite Ho.
           fold (get_obj h o). specialize (I1 o Hlt). lia.
    + apply add_obj_iso; [exact HI|exact L|exact Hm|]. intros _. split; [exact Ef|]. apply Hnew; auto.
  - pose proof (set_flag_iso h sid HI L Hm) as HI'.
    apply add_obj_iso; [exact HI'| | |].
    + cbn [set_flag stores]. now rewrite set_nth_store_length.
    + exact Hm.
    + intros H. rewrite H in Ec. discriminate.
Qed.

Lemma In_firstn {A} (l : list A) n x : In x (firstn n l) -> In x l.
Proof. revert n. induction l; destruct n; simpl; intros H; auto; try contradiction. destruct H; auto. right. eapply IHl; eauto. Qed.
Lemma In_skipn {A} (l : list A) n x : In x (skipn n l) -> In x l.
Proof. revert n. induction l; destruct n; simpl; intros H; auto. right. eapply IHl; eauto. Qed.
Lemma remove_nth_In {A} (l : list A) n x : In x (remove_nth l n) -> In x l.
Proof.
  unfold remove_nth. intros H. apply in_app_or in H as [H|H].
  - eapply In_firstn; eauto. - eapply In_skipn; eauto.
Qed.

(* ---------- every transition preserves the invariant ---------- *)
Lemma mutable_store_unflagged h o : Iso h -> o < length (objects h) -> mutable (ocls (get_obj h o)) = true ->
  hflag (get_store h (osid (get_obj h o))) = false.
Proof. intros [_ [_ I3]] H1 H2. now apply I3. Qed.

Lemma flagged_not_mutable_owned h sid : Iso h -> hflag (get_store h sid) = true ->
  forall o, o < length (objects h) -> mutable (ocls (get_obj h o)) = true -> osid (get_obj h o) <> sid.
Proof. intros HI Hf o Ho Hm E. rewrite <- E in Hf. rewrite (mutable_store_unflagged h o HI Ho Hm) in Hf. discriminate. Qed.

Lemma fresh_after_alloc h b f : Iso h ->
  let h' := fst (alloc h b f) in let sid := snd (alloc h b f) in
  sid < length (stores h') /\
  (forall o, o < length (objects h') -> osid (get_obj h' o) <> sid) /\ ~ In sid (cache h').
Proof.
  intros HI. destruct (alloc_facts h b f HI) as [HI' [Es [Hl [Ho [Hc [Hg Hold]]]]]]. cbn zeta.
  destruct HI as [I1 [I2 I3]]. repeat split.
  - lia.
  - intros o Hlt. rewrite Ho in Hlt. change (get_obj (fst (alloc h b f)) o) with (get_obj h o).
    specialize (I1 o Hlt). lia.
  - rewrite Hc. intro Hin. apply I2 in Hin. lia.
Qed.

Theorem hstep_iso h op : Iso h -> Iso (hstep h op).
Proof.
  intros HI. destruct op; cbn [hstep].
  - (* HNew *)
    destruct (alloc_facts h b false HI) as [HI' [Es [Hl [Ho [Hc [Hg Hold]]]]]].
    destruct (fresh_after_alloc h b false HI) as [F1 [F2 F3]].
    destruct (alloc h b false) as [h' sid]. cbn [fst snd] in *.
    apply finish_init_iso; auto.
  - (* HFromCache *)
    assert (Hmiss : let '(h', sid) := alloc h b true in Iso (finish_init (mkheap (stores h') (objects h') (sid :: cache h')) c sid)).
    { destruct (alloc_facts h b true HI) as [HI' [Es [Hl [Ho [Hc [Hg Hold]]]]]].
      destruct (fresh_after_alloc h b true HI) as [F1 [F2 F3]].
      destruct (alloc h b true) as [h' sid]. cbn [fst snd] in *.
      assert (HI2 : Iso (mkheap (stores h') (objects h') (sid :: cache h'))).
      { destruct HI' as [J1 [J2 J3]]. unfold Iso. cbn [stores objects cache].
        repeat split.
        - exact J1.
        - destruct H as [<-|H]; [exact F1|]. now apply J2.
        - destruct H as [<-|H]; [|now apply J2]. unfold get_store in *. cbn [stores]. rewrite Hg. reflexivity.
        - now apply J3.
        - intros [E|Hin]; [eapply F2; eauto|]. revert Hin. now apply J3.
        - now apply J3. }
      apply finish_init_iso; auto.
      - intros o Hlt Hm. cbn [objects] in Hlt. apply F2. exact Hlt.
      - intros _ Hf. exfalso. unfold get_store in Hf. cbn [stores] in Hf. unfold get_store in Hg. rewrite Hg in Hf. discriminate. }
    destruct hit as [i|]; [|exact Hmiss].
    destruct (nth_error (cache h) i) as [sid|] eqn:En; [|exact Hmiss].
    apply nth_error_In in En. destruct HI as [I1 [I2 I3]]. destruct (I2 sid En) as [L Ff].
    apply finish_init_iso; [split; [exact I1|split; [exact I2|exact I3]]|exact L| |].
    + intros o Ho Hm E. destruct (I3 o Ho Hm) as [_ [Hn _]]. rewrite E in Hn. contradiction.
    + intros _ Hf. rewrite Ff in Hf. discriminate.
  - (* HConstruct *)
    unfold store_copy. destruct (hflag (get_store h (osid (get_obj h src)))) eqn:Ef.
    + apply finish_init_iso; auto.
      * now apply flagged_in_range.
      * now apply flagged_not_mutable_owned.
      * intros _ Hf. rewrite Ef in Hf. discriminate.
    + destruct (alloc_facts h (hbits (get_store h (osid (get_obj h src)))) false HI) as [HI' [Es [Hl [Ho [Hc [Hg Hold]]]]]].
      destruct (fresh_after_alloc h (hbits (get_store h (osid (get_obj h src)))) false HI) as [F1 [F2 F3]].
      destruct (alloc h _ false) as [h' sid]. cbn [fst snd] in *. apply finish_init_iso; auto.
  - (* HBitsKw *)
    destruct (alloc_facts h (value h src) false HI) as [HI' [Es [Hl [Ho [Hc [Hg Hold]]]]]].
    destruct (fresh_after_alloc h (value h src) false HI) as [F1 [F2 F3]].
    destruct (alloc h (value h src) false) as [h' sid]. cbn [fst snd] in *. apply finish_init_iso; auto.
  - (* HCopyCopy *)
    destruct (ocls (get_obj h src)) eqn:Ec.
    + exact HI.
    + (* BitArray *)
      destruct (alloc_facts h (value h src) false HI) as [HI' [Es [Hl [Ho [Hc [Hg Hold]]]]]].
      destruct (fresh_after_alloc h (value h src) false HI) as [F1 [F2 F3]].
      destruct (alloc h (value h src) false) as [h' sid]. cbn [fst snd] in *.
      apply add_obj_iso; auto. intros _. rewrite Hg. cbn. auto.
    + (* ConstBitStream: shares *)
      assert (Hr : src < length (objects h)) by (apply nondefault_obj_in_range; rewrite Ec; discriminate).
      destruct HI as [I1 [I2 I3]].
      apply add_obj_iso; [split; [exact I1|split; [exact I2|exact I3]]|now apply I1| |discriminate].
      intros o Ho Hm E. destruct (I3 o Ho Hm) as [_ [_ Hu]].
      assert (src <> o) by (intro; subst; rewrite Ec in Hm; discriminate).
      exact (Hu src Hr H (eq_sym E)).
    + (* BitStream *)
      assert (Hr : src < length (objects h)) by (apply nondefault_obj_in_range; rewrite Ec; discriminate).
      unfold store_copy. rewrite (mutable_store_unflagged h src HI Hr) by (rewrite Ec; reflexivity).
      destruct (alloc_facts h (hbits (get_store h (osid (get_obj h src)))) false HI) as [HI' [Es [Hl [Ho [Hc [Hg Hold]]]]]].
      destruct (fresh_after_alloc h (hbits (get_store h (osid (get_obj h src)))) false HI) as [F1 [F2 F3]].
      destruct (alloc h _ false) as [h' sid]. cbn [fst snd] in *.
      apply add_obj_iso; auto. intros _. rewrite Hg. cbn. auto.
  - (* HDerive *)
    destruct (alloc_facts h (f (value h src)) false HI) as [HI' [Es [Hl [Ho [Hc [Hg Hold]]]]]].
    destruct (fresh_after_alloc h (f (value h src)) false HI) as [F1 [F2 F3]].
    destruct (alloc h (f (value h src)) false) as [h' sid]. cbn [fst snd] in *.
    apply add_obj_iso; auto. intros _. rewrite Hg. cbn. auto.
  - (* HMutate *)
    destruct (mutable (ocls (get_obj h o))) eqn:Em; [|exact HI].
    destruct (Nat.lt_ge_cases o (length (objects h))) as [Ho|Ho].
    2:{ unfold get_obj in Em. rewrite nth_overflow in Em by lia. discriminate. }
    destruct HI as [I1 [I2 I3]]. destruct (I3 o Ho Em) as [Hf [Hnc Hu]].
    set (sid := osid (get_obj h o)) in *.
    assert (Hsid : sid < length (stores h)) by (apply I1; exact Ho).
    assert (Hgs : forall s, get_store (mkheap (set_nth_store (stores h) sid (mkhs (f (value h o)) (hflag (get_store h sid)))) (objects h) (cache h)) s
                  = if Nat.eqb s sid then mkhs (f (value h o)) (hflag (get_store h sid)) else get_store h s).
    { intros s. unfold get_store at 1. cbn [stores]. destruct (Nat.eqb s sid) eqn:E.
      - apply Nat.eqb_eq in E. subst s. now rewrite set_nth_store_same.
      - apply Nat.eqb_neq in E. now rewrite set_nth_store_other. }
    unfold Iso. cbn [objects cache stores]. rewrite set_nth_store_length.
    assert (Hob : forall x, get_obj (mkheap (set_nth_store (stores h) sid (mkhs (f (value h o)) (hflag (get_store h sid)))) (objects h) (cache h)) x = get_obj h x) by reflexivity.
    repeat split.
    + intros x Hx. rewrite Hob. now apply I1.
    + now apply I2.
    + rewrite Hgs. destruct (Nat.eqb i sid) eqn:E; [|now apply I2].
      apply Nat.eqb_eq in E. subst i. contradiction.
    + rewrite Hob, Hgs. destruct (Nat.eqb (osid (get_obj h o0)) sid) eqn:E; [cbn; exact Hf|now apply I3].
    + rewrite Hob. now apply I3.
    + intros o' Ho' Hne. rewrite !Hob. now apply I3.
  - (* HEvict *)
    destruct HI as [I1 [I2 I3]]. unfold Iso. cbn [objects cache stores]. repeat split.
    + exact I1.
    + apply remove_nth_In in H. now apply I2.
    + apply remove_nth_In in H. now apply I2.
    + now apply I3.
    + intro Hin. apply remove_nth_In in Hin. revert Hin. now apply I3.
    + now apply I3.
Qed.

Theorem iso_empty : Iso empty_heap.
Proof. unfold Iso, empty_heap. cbn. repeat split; intros; try lia; contradiction. Qed.

Theorem hrun_iso ops : forall h, Iso h -> Iso (hrun h ops).
Proof. unfold hrun. induction ops as [|op ops IH]; intros h HI; [exact HI|]. cbn [fold_left]. apply IH. now apply hstep_iso. Qed.

(* ---------- values of existing objects ---------- *)
Definition ext (h h' : heap) : Prop :=
  length (stores h) <= length (stores h') /\ length (objects h) <= length (objects h') /\
  (forall s, s < length (stores h) -> hbits (get_store h' s) = hbits (get_store h s)) /\
  (forall o, o < length (objects h) -> get_obj h' o = get_obj h o).

Lemma ext_refl h : ext h h. Proof. unfold ext. repeat split; auto. Qed.
Lemma ext_trans a b c : ext a b -> ext b c -> ext a c.
Proof.
  intros [A1 [A2 [A3 A4]]] [B1 [B2 [B3 B4]]]. unfold ext. repeat split; try lia.
  - intros s Hs. rewrite B3 by lia. now apply A3.
  - intros o Ho. rewrite B4 by lia. now apply A4.
Qed.
Lemma ext_alloc h b f : ext h (fst (alloc h b f)).
Proof.
  unfold ext, alloc. cbn [fst stores objects]. rewrite app_length. cbn. repeat split; try lia.
  - intros s Hs. unfold get_store. cbn [stores]. now rewrite app_nth1.
Qed.
Lemma ext_add_obj h c sid : ext h (add_obj h c sid).
Proof.
  unfold ext, add_obj. cbn [stores objects]. rewrite app_length. cbn. repeat split; try lia.
  intros o Ho. unfold get_obj. cbn [objects]. now rewrite app_nth1.
Qed.
Lemma ext_set_flag h sid f : sid < length (stores h) -> ext h (set_flag h sid f).
Proof.
  intros L. unfold ext. cbn [set_flag stores objects]. rewrite set_nth_store_length. repeat split; try lia.
  intros s Hs. rewrite get_store_set_flag by exact L. destruct (Nat.eqb s sid) eqn:E; [|reflexivity].
  apply Nat.eqb_eq in E. now subst.
Qed.
Lemma ext_finish_init h c sid : sid < length (stores h) -> ext h (finish_init h c sid).
Proof.
  intros L. unfold finish_init. destruct (mutable c).
  - destruct (hflag (get_store h sid)).
    + pose proof (ext_alloc h (hbits (get_store h sid)) false) as E.
      destruct (alloc h (hbits (get_store h sid)) false) as [h' sid']. cbn [fst] in E.
      eapply ext_trans; [exact E|apply ext_add_obj].
    + apply ext_add_obj.
  - eapply ext_trans; [apply ext_set_flag; exact L|apply ext_add_obj].
Qed.

Lemma ext_value h h' o : Iso h -> ext h h' -> o < length (objects h) -> value h' o = value h o.
Proof.
  intros [I1 _] [E1 [E2 [E3 E4]]] Ho. unfold value. rewrite E4 by exact Ho. apply E3. now apply I1.
Qed.

Definition is_mutation_of (o : nat) (op : hop) : bool :=
  match op with HMutate o' _ => Nat.eqb o o' | _ => false end.

Lemma hstep_ext h op : Iso h -> (match op with HMutate _ _ => False | _ => True end) -> ext h (hstep h op).
Proof.
  intros HI Hnm. destruct op; cbn [hstep]; try contradiction.
  - pose proof (ext_alloc h b false) as E. destruct (fresh_after_alloc h b false HI) as [F1 _].
    destruct (alloc h b false) as [h' sid]. cbn [fst snd] in *. eapply ext_trans; [exact E|now apply ext_finish_init].
  - assert (Hmiss : let '(h', sid) := alloc h b true in ext h (finish_init (mkheap (stores h') (objects h') (sid :: cache h')) c sid)).
    { pose proof (ext_alloc h b true) as E. destruct (fresh_after_alloc h b true HI) as [F1 _].
      destruct (alloc h b true) as [h' sid]. cbn [fst snd] in *.
      eapply ext_trans; [exact E|].
      assert (E2 : ext h' (mkheap (stores h') (objects h') (sid :: cache h'))) by (unfold ext; cbn; repeat split; auto).
      eapply ext_trans; [exact E2|]. apply ext_finish_init. exact F1. }
    destruct hit as [i|].
    + destruct (nth_error (cache h) i) as [sid|] eqn:En.
      * apply nth_error_In in En. destruct HI as [I1 [I2 I3]]. destruct (I2 sid En) as [L _].
        now apply ext_finish_init.
      * destruct (alloc h b true) as [h' sid]. exact Hmiss.
    + destruct (alloc h b true) as [h' sid]. exact Hmiss.
  - unfold store_copy. destruct (hflag (get_store h (osid (get_obj h src)))) eqn:Ef.
    + apply ext_finish_init. now apply flagged_in_range.
    + pose proof (ext_alloc h (hbits (get_store h (osid (get_obj h src)))) false) as E.
      destruct (fresh_after_alloc h (hbits (get_store h (osid (get_obj h src)))) false HI) as [F1 _].
      destruct (alloc h _ false) as [h' sid]. cbn [fst snd] in *. eapply ext_trans; [exact E|now apply ext_finish_init].
  - pose proof (ext_alloc h (value h src) false) as E. destruct (fresh_after_alloc h (value h src) false HI) as [F1 _].
    destruct (alloc h (value h src) false) as [h' sid]. cbn [fst snd] in *. eapply ext_trans; [exact E|now apply ext_finish_init].
  - destruct (ocls (get_obj h src)).
    + apply ext_refl.
    + pose proof (ext_alloc h (value h src) false) as E. destruct (alloc h (value h src) false) as [h' sid]. cbn [fst] in E.
      eapply ext_trans; [exact E|apply ext_add_obj].
    + apply ext_add_obj.
    + unfold store_copy. destruct (hflag (get_store h (osid (get_obj h src)))).
      * apply ext_add_obj.
      * pose proof (ext_alloc h (hbits (get_store h (osid (get_obj h src)))) false) as E.
        destruct (alloc h _ false) as [h' sid]. cbn [fst] in E. eapply ext_trans; [exact E|apply ext_add_obj].
  - pose proof (ext_alloc h (f (value h src)) false) as E. destruct (alloc h (f (value h src)) false) as [h' sid]. cbn [fst] in E.
    eapply ext_trans; [exact E|apply ext_add_obj].
  - unfold ext. cbn. repeat split; auto.
Qed.

(* object records (class, store id) are never rewritten; the object table only grows *)
Lemma hstep_objects h op o : Iso h -> o < length (objects h) ->
  get_obj (hstep h op) o = get_obj h o /\ length (objects h) <= length (objects (hstep h op)).
Proof.
  intros HI Ho. destruct op as [| | | | | |om fm|]; try (match goal with |- context [hstep h ?op] => destruct (hstep_ext h op HI I) as [_ [E2 [_ E4]]] end; split; [now apply E4|exact E2]).
  cbn [hstep]. destruct (mutable (ocls (get_obj h om))); split; auto.
Qed.

Theorem hstep_value h op o : Iso h -> o < length (objects h) -> is_mutation_of o op = false ->
  value (hstep h op) o = value h o.
Proof.
  intros HI Ho Hnm. destruct op as [| | | | | |o0 f|]; try (apply ext_value; [exact HI|now apply hstep_ext|exact Ho]).
  (* HMutate o0 f with o0 <> o *)
  cbn [is_mutation_of] in Hnm. apply Nat.eqb_neq in Hnm. cbn [hstep].
  destruct (mutable (ocls (get_obj h o0))) eqn:Em; [|reflexivity].
  destruct (Nat.lt_ge_cases o0 (length (objects h))) as [Ho0|Ho0].
  2:{ unfold get_obj in Em. rewrite nth_overflow in Em by lia. discriminate. }
  destruct HI as [I1 [I2 I3]]. destruct (I3 o0 Ho0 Em) as [_ [_ Hu]].
  unfold value. cbn [objects].
  change (get_obj (mkheap _ (objects h) (cache h)) o) with (get_obj h o).
  unfold get_store at 1. cbn [stores]. rewrite set_nth_store_other; [reflexivity|].
  apply Hu; [exact Ho|exact Hnm].
Qed.

(* isolation over histories: an object's value is unchanged by any sequence of derivations, cache
   traffic and mutations of OTHER objects *)
Theorem isolation ops : forall h o, Iso h -> o < length (objects h) ->
  forallb (fun op => negb (is_mutation_of o op)) ops = true -> value (hrun h ops) o = value h o.
Proof.
  unfold hrun. induction ops as [|op ops IH]; intros h o HI Ho Hall; [reflexivity|].
  cbn [fold_left forallb] in *. apply andb_prop in Hall as [H1 H2].
  destruct (hstep_objects h op o HI Ho) as [_ Hl].
  rewrite IH; [apply hstep_value; auto; now destruct (is_mutation_of o op)|now apply hstep_iso|lia|exact H2].
Qed.

(* immutable classes expose no operation that alters their own content: even a "mutation request" is a no-op *)
Theorem immutable_never_changes ops : forall h o, Iso h -> o < length (objects h) ->
  mutable (ocls (get_obj h o)) = false -> value (hrun h ops) o = value h o.
Proof.
  unfold hrun. induction ops as [|op ops IH]; intros h o HI Ho Him; [reflexivity|].
  cbn [fold_left]. destruct (hstep_objects h op o HI Ho) as [Hg Hl].
  rewrite IH; [|now apply hstep_iso|lia|now rewrite Hg].
  destruct (is_mutation_of o op) eqn:Em.
  - destruct op as [| | | | | |o0 f|]; try discriminate. cbn [is_mutation_of] in Em. apply Nat.eqb_eq in Em. subst o0.
    cbn [hstep]. now rewrite Him.
  - now apply hstep_value.
Qed.
