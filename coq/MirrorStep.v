(* MirrorStep.v - C12 "LSB0 mode is a pure index mirror of MSB0 mode", the mutating half:
   slice assignment / deletion / scalar fill with ANY key (extended and negative steps included),
   set / invert over iterables, BitArray.__setitem__ / __delitem__, overwrite, append, prepend.
   Every law has the shape   op_lsb0 b args = rev (op_msb0 (rev b) (args with bitstring operands reversed)). *)
From BS Require Import Prims BitsCore SeqProofs StoreProofs Mutators MirrorProofs LsbMutators.
From Coq Require Import ZifyBool.
Open Scope Z_scope.

(* ------------------------------------------------------------------------------------------ *)
(* 1. What offset_slice_indices_lsb0 does to the index set of a key                            *)
(* ------------------------------------------------------------------------------------------ *)

Lemma slice_indices_step k len a b c : slice_indices k len = Ok (a, b, c) ->
  c <> 0 /\ match s_step k with None => c = 1 | Some s => s = c end.
Proof.
  unfold slice_indices. destruct (s_step k) as [s|].
  - destruct (s =? 0) eqn:E; [discriminate|]. intros [= _ _ <-]. split; [lia|reflexivity].
  - change (1 =? 0) with false. cbv iota. intros [= _ _ <-]. split; [lia|reflexivity].
Qed.

Lemma slice_indices_err k len e : slice_indices k len = Err e -> offset_slice_indices_lsb0 k len = Err e.
Proof. intros H. unfold offset_slice_indices_lsb0, indices. rewrite H. reflexivity. Qed.

Lemma slice_indices_explicit x y c len st : c <> 0 -> st = (if c =? 1 then st else Some c) ->
  (match st with None => c = 1 | Some s => s = c end) ->
  slice_indices (mkslice (Some x) (Some y) st) len =
  Ok (clamp_index x len (if c <? 0 then -1 else 0) (if c <? 0 then len - 1 else len),
      clamp_index y len (if c <? 0 then -1 else 0) (if c <? 0 then len - 1 else len), c).
Proof.
  intros Hc _ Hst. unfold slice_indices. cbn [s_step s_start s_stop].
  destruct st as [s|]; [subst s|subst c].
  - destruct (c =? 0) eqn:E; [lia|]. reflexivity.
  - reflexivity.
Qed.

(* the translated key selects, with the same step, the mirrored positions in reversed order *)
Lemma offset_spec k len a b c : 0 <= len -> slice_indices k len = Ok (a, b, c) ->
  exists k' a' b', offset_slice_indices_lsb0 k len = Ok k' /\ slice_indices k' len = Ok (a', b', c) /\
    range_len a' b' c = range_len a b c /\ 0 <= range_len a b c /\
    (0 < range_len a b c -> a' = len - 1 - (a + (range_len a b c - 1) * c) /\
                           forall j, 0 <= j < range_len a b c -> 0 <= a + j * c < len) /\
    (range_len a b c = 0 -> 0 < c -> a' = len - a /\ b' = len - a).
Proof.
  intros Hl Hsi.
  destruct (slice_indices_bounds k len a b c Hl Hsi) as (Hc0 & Hpos & Hneg).
  destruct (slice_indices_step k len a b c Hsi) as (_ & Hk).
  unfold offset_slice_indices_lsb0, indices. rewrite Hsi. cbn [bind].
  destruct (Z_lt_dec c 0) as [Hn|Hp].
  - (* negative step *)
    specialize (Hneg Hn). destruct Hneg as (Ha & Hb).
    destruct (s_step k) as [s|] eqn:Ek; [subst s|lia].
    destruct (c >=? 0) eqn:E0; [lia|]. cbn [bind]. destruct (c <? 0) eqn:E1; [|lia].
    assert (Hstop : (match (if b <? 0 then None else Some b) with None => -1 | Some s => s end) = b)
      by (destruct (b <? 0) eqn:E; lia).
    rewrite Hstop. clear Hstop.
    set (n := range_len a b c).
    assert (Hn' : n = if b <? a then (a - b - 1) / (- c) + 1 else 0).
    { unfold n, range_len. destruct (c >? 0) eqn:E; [lia|]. reflexivity. }
    destruct (n =? 0) eqn:En.
    + exists (mkslice (Some 0) (Some 0) (Some c)), (clamp_index 0 len (-1) (len - 1)), (clamp_index 0 len (-1) (len - 1)).
      split; [reflexivity|]. split.
      { rewrite (slice_indices_explicit 0 0 c) by (try lia; destruct (c =? 1); reflexivity). rewrite E1. reflexivity. }
      split. { unfold range_len. destruct (c >? 0); rewrite Z.ltb_irrefl; lia. }
      split; [lia|]. split; [lia|]. lia.
    + assert (Hlt : b < a) by (destruct (b <? a) eqn:E; lia).
      set (q := (a - b - 1) / (- c)).
      assert (Hq : n = q + 1) by (rewrite Hn'; replace (b <? a) with true by lia; reflexivity).
      pose proof (Z.div_mod (a - b - 1) (- c) ltac:(lia)) as Hdm. fold q in Hdm.
      pose proof (Z.mod_pos_bound (a - b - 1) (- c) ltac:(lia)) as Hmb.
      assert (Hq0 : 0 <= q) by (apply Z.div_pos; lia).
      assert (Hlast : b < a + q * c <= a) by nia.
      cbn [bind]. replace (n - 1) with q by lia.
      set (ns := len - 1 - (a + q * c)). set (ne := len - 1 - a - 1).
      assert (Hns : 0 <= ns <= len - 1) by (unfold ns; lia).
      assert (Hrl : range_len ns ne c = n).
      { unfold range_len. destruct (c >? 0) eqn:E3; [lia|]. replace (ne <? ns) with true by (unfold ns, ne; lia).
        rewrite Hq. f_equal. unfold ns, ne. replace (len - 1 - (a + q * c) - (len - 1 - a - 1) - 1) with (q * (- c)) by lia.
        apply Z.div_mul. lia. }
      exists (mkslice (Some ns) (if ne <? 0 then None else Some ne) (Some c)), ns, ne.
      split; [reflexivity|]. split.
      { unfold slice_indices. cbn [s_step s_start s_stop]. destruct (c =? 0) eqn:E; [lia|]. rewrite E1.
        rewrite (clamp_id ns) by lia. destruct (ne <? 0) eqn:E2.
        - f_equal. f_equal. f_equal. unfold ne in *. lia.
        - rewrite (clamp_id ne) by (unfold ne in *; lia). reflexivity. }
      split; [exact Hrl|]. split; [lia|]. split; [|lia].
      intros _. split; [reflexivity|]. intros j Hj. nia.
  - (* positive step *)
    assert (Hp' : 0 < c) by lia. specialize (Hpos Hp'). destruct Hpos as (Ha & Hb).
    assert (Hind : (match s_step k with
                    | None => Ok (a, Some b, c)
                    | Some st => if st >=? 0 then Ok (a, Some b, c)
                                 else Ok (a, (if b <? 0 then None else Some b), c)
                    end) = Ok (a, Some b, c)).
    { destruct (s_step k) as [s|]; [|reflexivity]. destruct (s >=? 0) eqn:E; [reflexivity|lia]. }
    rewrite Hind. cbn [bind]. destruct (c <? 0) eqn:Eneg; [lia|].
    assert (Hst : s_step k = (if c =? 1 then s_step k else Some c)).
    { destruct (c =? 1) eqn:E; [reflexivity|]. destruct (s_step k); [f_equal; lia|lia]. }
    destruct (b <=? a) eqn:Ese.
    + exists (mkslice (Some (len - a)) (Some (len - a)) (s_step k)), (len - a), (len - a).
      split; [reflexivity|]. split.
      { rewrite (slice_indices_explicit _ _ c) by (try lia; assumption). rewrite Eneg. rewrite !clamp_id by lia. reflexivity. }
      assert (Hrl1 : range_len a b c = 0).
      { unfold range_len. destruct (c >? 0) eqn:E; [|lia]. destruct (a <? b) eqn:Elt; [lia|reflexivity]. }
      rewrite Hrl1. split. { unfold range_len. destruct (c >? 0); rewrite Z.ltb_irrefl; lia. }
      split; [lia|]. split; [lia|]. intros _ _. split; reflexivity.
    + set (q := (b - 1 - a) / c).
      pose proof (Z.div_mod (b - 1 - a) c ltac:(lia)) as Hdm.
      pose proof (Z.mod_pos_bound (b - 1 - a) c Hp') as Hmb. fold q in Hdm.
      assert (Hq : 0 <= q) by (apply Z.div_pos; lia).
      assert (Hrl1 : range_len a b c = q + 1).
      { unfold range_len. destruct (c >? 0) eqn:E; [|lia]. replace (a <? b) with true by lia. unfold q. f_equal. f_equal. lia. }
      rewrite Hrl1.
      exists (mkslice (Some (len - (a + q * c) - 1)) (Some (len - a)) (s_step k)), (len - (a + q * c) - 1), (len - a).
      split; [reflexivity|]. split.
      { rewrite (slice_indices_explicit _ _ c) by (try lia; assumption). rewrite Eneg. rewrite !clamp_id by nia. reflexivity. }
      split.
      { unfold range_len. destruct (c >? 0) eqn:E; [|lia].
        destruct (len - (a + q * c) - 1 <? len - a) eqn:E5; [|nia].
        f_equal. replace (len - a - (len - (a + q * c) - 1) - 1) with (q * c) by lia.
        apply Z.div_mul. lia. }
      split; [lia|]. split; [|lia]. intros _. split; [lia|]. intros j Hj. nia.
Qed.

(* ------------------------------------------------------------------------------------------ *)
(* 2. Arithmetic progressions, assign_at and remove_at under the mirror                        *)
(* ------------------------------------------------------------------------------------------ *)

Lemma progression_snoc c n : forall a, progression a c (S n) = progression a c n ++ [a + Z.of_nat n * c].
Proof.
  induction n as [|n IH]; intros a; [cbn; f_equal; lia|].
  change (progression a c (S (S n))) with (a :: progression (a + c) c (S n)). rewrite IH. cbn [progression app].
  f_equal. f_equal. f_equal. lia.
Qed.

Lemma map_mirror_progression L c n : forall a, map (fun i => L - 1 - i) (progression a c n) = progression (L - 1 - a) (- c) n.
Proof. induction n as [|n IH]; intros a; [reflexivity|]. cbn [progression map]. rewrite IH. f_equal. f_equal. lia. Qed.

Lemma rev_progression c n : forall a, rev (progression a c n) = progression (a + (Z.of_nat n - 1) * c) (- c) n.
Proof.
  induction n as [|n IH]; intros a; [reflexivity|].
  rewrite progression_snoc, rev_app_distr, IH. cbn [rev app progression]. f_equal; [lia|]. f_equal. lia.
Qed.

(* the progression that the translated key denotes *)
Lemma mirror_progression L a c n :
  progression (L - 1 - (a + (Z.of_nat n - 1) * c)) c n = rev (map (fun i => L - 1 - i) (progression a c n)).
Proof. rewrite map_mirror_progression, rev_progression, Z.opp_involutive. f_equal. lia. Qed.

Lemma In_progression c n : forall a x, In x (progression a c n) <-> exists k, (k < n)%nat /\ x = a + Z.of_nat k * c.
Proof.
  induction n as [|n IH]; intros a x; cbn [progression In].
  - split; [tauto|]. intros (k & Hk & _). lia.
  - rewrite IH. split.
    + intros [<-|(k & Hk & ->)]; [exists 0%nat; split; lia|exists (S k); split; lia].
    + intros (k & Hk & ->). destruct k as [|k]; [left; lia|right; exists k; split; lia].
Qed.

Lemma zlen_set_nth {A} (l : list A) : forall n x, zlen (set_nth l n x) = zlen l.
Proof. induction l as [|h t IH]; intros [|n] x; try reflexivity. cbn [set_nth]. rewrite !zlen_cons, IH. reflexivity. Qed.

Lemma set_nth_comm {A} (l : list A) : forall n m x y, n <> m -> set_nth (set_nth l n x) m y = set_nth (set_nth l m y) n x.
Proof.
  induction l as [|h t IH]; intros [|n] [|m] x y H; cbn [set_nth]; try reflexivity; try lia.
  f_equal. apply IH. lia.
Qed.

Lemma assign_at_set_nth {A} (idx : list Z) : forall (l v : list A) n x, (forall i, In i idx -> Z.to_nat i <> n) ->
  assign_at (set_nth l n x) idx v = set_nth (assign_at l idx v) n x.
Proof.
  induction idx as [|i idx IH]; intros l v n x H; [reflexivity|]. destruct v as [|y v]; [reflexivity|].
  cbn [assign_at]. rewrite set_nth_comm by (intros ->; apply (H i); [left; reflexivity|reflexivity]).
  apply IH. intros j Hj. apply H. right. exact Hj.
Qed.

Lemma assign_at_snoc {A} (idx : list Z) : forall (l v : list A) i x, length idx = length v ->
  assign_at l (idx ++ [i]) (v ++ [x]) = set_nth (assign_at l idx v) (Z.to_nat i) x.
Proof.
  induction idx as [|j idx IH]; intros l [|y v] i x H; cbn in H; try discriminate; [reflexivity|].
  cbn [app assign_at]. apply IH. lia.
Qed.

Fixpoint distinct (idx : list Z) : Prop :=
  match idx with [] => True | i :: r => (forall j, In j r -> Z.to_nat j <> Z.to_nat i) /\ distinct r end.

(* assigning to pairwise different positions does not depend on the order *)
Lemma assign_at_rev {A} (idx : list Z) : forall (l v : list A), length idx = length v -> distinct idx ->
  assign_at l (rev idx) (rev v) = assign_at l idx v.
Proof.
  induction idx as [|i idx IH]; intros l [|x v] Hlen Hd; cbn in Hlen; try discriminate; [reflexivity|].
  destruct Hd as (Hi & Hd). cbn [rev]. rewrite assign_at_snoc by (rewrite !rev_length; lia).
  rewrite IH by (try lia; exact Hd). cbn [assign_at]. symmetry. apply assign_at_set_nth. exact Hi.
Qed.

Lemma distinct_progression c n : c <> 0 -> forall a, (forall x, In x (progression a c n) -> 0 <= x) -> distinct (progression a c n).
Proof.
  intros Hc. induction n as [|n IH]; intros a H; [exact I|]. cbn [progression distinct]. split.
  - intros j Hj. assert (0 <= j) by (apply H; right; exact Hj). assert (0 <= a) by (apply H; left; reflexivity).
    apply In_progression in Hj. destruct Hj as (k & Hk & ->). nia.
  - apply IH. intros x Hx. apply H. right. exact Hx.
Qed.

Lemma rev_assign_at {A} (idx : list Z) : forall (l v : list A), (forall i, In i idx -> 0 <= i < zlen l) ->
  rev (assign_at (rev l) idx v) = assign_at l (map (fun i => zlen l - 1 - i) idx) v.
Proof.
  induction idx as [|i idx IH]; intros l v H; [apply rev_involutive|]. destruct v as [|x v]; [apply rev_involutive|].
  cbn [assign_at map]. assert (Hi : 0 <= i < zlen l) by (apply H; left; reflexivity).
  assert (E : set_nth (rev l) (Z.to_nat i) x = rev (set_nth l (Z.to_nat (zlen l - 1 - i)) x)).
  { rewrite <- (rev_involutive (set_nth (rev l) (Z.to_nat i) x)). f_equal. unfold zlen in *.
    rewrite rev_set_nth by lia. f_equal. lia. }
  rewrite E, IH; rewrite zlen_set_nth; [reflexivity|]. intros j Hj. apply H. right. exact Hj.
Qed.

Lemma rev_repeat {A} (x : A) n : rev (repeat x n) = repeat x n.
Proof.
  induction n as [|n IH]; [reflexivity|]. cbn [repeat rev]. rewrite IH.
  clear IH. induction n as [|n IH]; [reflexivity|]. cbn [repeat app]. f_equal. exact IH.
Qed.

(* extended-slice assignment: the mirrored progression, the reversed operand *)
Lemma assign_at_mirror {A} (l v : list A) a c n : c <> 0 -> length v = n ->
  (forall j, 0 <= j < Z.of_nat n -> 0 <= a + j * c < zlen l) ->
  assign_at l (progression (zlen l - 1 - (a + (Z.of_nat n - 1) * c)) c n) v = rev (assign_at (rev l) (progression a c n) (rev v)).
Proof.
  intros Hc Hv Hr.
  assert (Hin : forall i, In i (progression a c n) -> 0 <= i < zlen l).
  { intros i Hi. apply In_progression in Hi. destruct Hi as (k & Hk & ->). apply Hr. lia. }
  rewrite rev_assign_at by exact Hin. rewrite mirror_progression.
  set (P := map (fun i => zlen l - 1 - i) (progression a c n)).
  rewrite <- (rev_involutive P) at 2. symmetry. apply assign_at_rev.
  - unfold P. rewrite !rev_length, map_length, progression_length. lia.
  - unfold P. rewrite <- mirror_progression. apply distinct_progression; [exact Hc|].
    intros x Hx. rewrite mirror_progression in Hx. apply in_rev in Hx. apply in_map_iff in Hx.
    destruct Hx as (i & <- & Hi). apply Hin in Hi. lia.
Qed.

(* deletion only depends on the SET of positions *)
Fixpoint remove_if {A} (f : Z -> bool) (l : list A) (j : Z) : list A :=
  match l with [] => [] | h :: t => if f j then remove_if f t (j + 1) else h :: remove_if f t (j + 1) end.

Lemma remove_at_if {A} (l : list A) idx : forall j, remove_at l j idx = remove_if (fun p => existsb (Z.eqb p) idx) l j.
Proof. induction l as [|h t IH]; intros j; [reflexivity|]. cbn [remove_at remove_if]. rewrite IH. reflexivity. Qed.

Lemma remove_if_ext {A} f g (l : list A) : (forall p, f p = g p) -> forall j, remove_if f l j = remove_if g l j.
Proof. intros H. induction l as [|h t IH]; intros j; [reflexivity|]. cbn [remove_if]. rewrite H, IH. reflexivity. Qed.

Lemma remove_if_app {A} f (l1 l2 : list A) : forall j, remove_if f (l1 ++ l2) j = remove_if f l1 j ++ remove_if f l2 (j + zlen l1).
Proof.
  induction l1 as [|h t IH]; intros j; [cbn [app remove_if]; f_equal; unfold zlen; cbn; lia|].
  cbn [app remove_if]. rewrite IH, zlen_cons. replace (j + 1 + zlen t) with (j + (1 + zlen t)) by lia.
  destruct (f j); reflexivity.
Qed.

Lemma remove_if_shift {A} f (l : list A) d : forall j, remove_if f l (j + d) = remove_if (fun p => f (p + d)) l j.
Proof.
  induction l as [|h t IH]; intros j; [reflexivity|]. cbn [remove_if].
  replace (j + d + 1) with (j + 1 + d) by lia. rewrite IH. reflexivity.
Qed.

Lemma rev_remove_if {A} (l : list A) : forall f, rev (remove_if f (rev l) 0) = remove_if (fun p => f (zlen l - 1 - p)) l 0.
Proof.
  induction l as [|h t IH]; intros f; [reflexivity|].
  cbn [rev]. rewrite remove_if_app, rev_app_distr, IH, zlen_rev. cbn [remove_if].
  rewrite zlen_cons. replace (1 + zlen t - 1 - 0) with (0 + zlen t) by lia.
  rewrite (remove_if_shift _ t 1 0).
  rewrite (remove_if_ext (fun p => f (1 + zlen t - 1 - (p + 1))) (fun p => f (zlen t - 1 - p))) by (intros p; f_equal; lia).
  destruct (f (0 + zlen t)); reflexivity.
Qed.

Lemma existsb_eqb_In p l : existsb (Z.eqb p) l = true <-> In p l.
Proof. rewrite existsb_exists. split; [intros (x & Hx & E); apply Z.eqb_eq in E; now subst|intros H; exists p; split; [exact H|apply Z.eqb_refl]]. Qed.

Lemma remove_at_mirror {A} (l : list A) a c n :
  remove_at l 0 (progression (zlen l - 1 - (a + (Z.of_nat n - 1) * c)) c n) = rev (remove_at (rev l) 0 (progression a c n)).
Proof.
  rewrite !remove_at_if, rev_remove_if. apply remove_if_ext. intros p. rewrite mirror_progression.
  apply eq_true_iff_eq. rewrite !existsb_eqb_In, <- in_rev, in_map_iff. split.
  - intros (i & E & Hi). replace (zlen l - 1 - p) with i by lia. exact Hi.
  - intros Hi. exists (zlen l - 1 - p). split; [lia|exact Hi].
Qed.

(* ------------------------------------------------------------------------------------------ *)
(* 3. BitStore level: slice assignment, deletion, scalar fill - every key                      *)
(* ------------------------------------------------------------------------------------------ *)

(* the shared core: what the translated key's index list is *)
Lemma offset_range_list k len a o c : 0 <= len -> slice_indices k len = Ok (a, o, c) ->
  exists k' a' o', offset_slice_indices_lsb0 k len = Ok k' /\ slice_indices k' len = Ok (a', o', c) /\
    let n := Z.to_nat (range_len a o c) in
    range_list a o c = progression a c n /\
    range_list a' o' c = progression (len - 1 - (a + (Z.of_nat n - 1) * c)) c n /\
    (forall j, 0 <= j < Z.of_nat n -> 0 <= a + j * c < len).
Proof.
  intros Hl Hsi. destruct (offset_spec k len a o c Hl Hsi) as (k' & a' & o' & Hoff & Hsi' & Hrl & Hn0 & Hpos & _).
  exists k', a', o'. split; [exact Hoff|]. split; [exact Hsi'|]. cbv zeta. split; [reflexivity|].
  unfold range_list. rewrite Hrl. rewrite Z2Nat.id by exact Hn0.
  destruct (Z.eq_dec (range_len a o c) 0) as [E|E].
  - rewrite E. split; [reflexivity|]. intros j Hj. lia.
  - destruct (Hpos ltac:(lia)) as (-> & Hr). split; [reflexivity|exact Hr].
Qed.

(* a[k] = v with lsb0 on: ANY slice key (extended and negative steps included).  The item stored at lsb0 position i
   is the item that Python's sequence semantics store at index i of the reversed sequence when the reversed operand
   is assigned; a size mismatch / zero step gives the same ValueError on both sides. *)
Theorem mirror_setslice (b : bits) (k : pyslice) (v : bits) :
  setslice_lsb0 b k v = res_map (@rev bool) (setslice_msb0 (rev b) k (rev v)).
Proof.
  unfold setslice_lsb0, setslice_msb0. pose proof (zlen_nonneg b) as Hl.
  unfold ba_setslice at 2. rewrite zlen_rev.
  destruct (slice_indices k (zlen b)) as [[[a o] c]|e] eqn:Hsi; [|rewrite (slice_indices_err _ _ _ Hsi); reflexivity].
  cbn [bind]. destruct (c =? 1) eqn:Ec.
  - (* contiguous: the operand is spliced in *)
    assert (c = 1) by lia. subst c.
    destruct (offset_spec k (zlen b) a o 1 Hl Hsi) as (k' & a' & o' & Hoff & Hsi' & Hrl & Hn0 & Hpos & Hzero).
    destruct (slice_indices_bounds k (zlen b) a o 1 Hl Hsi) as (_ & Hbp & _). destruct (Hbp ltac:(lia)) as (Ha & Ho).
    rewrite Hoff. cbn [bind]. unfold ba_setslice. rewrite Hsi'. cbn [bind]. change (1 =? 1) with true. cbv iota.
    rewrite !range_len_unit in *.
    assert (Hab : a' = zlen b - Z.max a o /\ Z.max a' o' = zlen b - a).
    { destruct (Z_lt_dec 0 (Z.max 0 (o - a))) as [Hlt|Hge].
      - destruct (Hpos Hlt) as (-> & _). lia.
      - destruct (Hzero ltac:(lia) ltac:(lia)) as (-> & ->). lia. }
    destruct Hab as (Ha' & Hm).
    cbn [res_map]. rewrite !rev_app_distr, <- app_assoc, rev_involutive, skipn_rev, firstn_rev, !rev_involutive.
    f_equal. unfold zlen in *.
    destruct (o' <? a') eqn:E1; destruct (o <? a) eqn:E2; (f_equal; [f_equal; lia|f_equal; f_equal; lia]).
  - (* extended: item by item *)
    destruct (offset_range_list k (zlen b) a o c Hl Hsi) as (k' & a' & o' & Hoff & Hsi' & Hr1 & Hr2 & Hin).
    destruct (slice_indices_step _ _ _ _ _ Hsi) as (Hc0 & _).
    rewrite Hoff. cbn [bind]. unfold ba_setslice. rewrite Hsi'. cbn [bind]. rewrite Ec.
    cbv zeta in Hr1, Hr2. rewrite Hr1, Hr2. set (n := Z.to_nat (range_len a o c)) in *.
    rewrite zlen_rev. assert (Hz : forall x, zlen (progression x c n) = Z.of_nat n) by (intros x; unfold zlen; now rewrite progression_length).
    rewrite !Hz. destruct (Z.of_nat n =? zlen v) eqn:En; [|reflexivity]. cbn [res_map]. f_equal.
    apply assign_at_mirror; [exact Hc0|unfold zlen in En; lia|exact Hin].
Qed.

(* del a[k] with lsb0 on: ANY slice key *)
Theorem mirror_delslice (b : bits) (k : pyslice) :
  delslice_lsb0 b k = res_map (@rev bool) (delslice_msb0 (rev b) k).
Proof.
  unfold delslice_lsb0, delslice_msb0. pose proof (zlen_nonneg b) as Hl.
  unfold ba_delslice at 2. rewrite zlen_rev.
  destruct (slice_indices k (zlen b)) as [[[a o] c]|e] eqn:Hsi; [|rewrite (slice_indices_err _ _ _ Hsi); reflexivity].
  destruct (offset_range_list k (zlen b) a o c Hl Hsi) as (k' & a' & o' & Hoff & Hsi' & Hr1 & Hr2 & _).
  rewrite Hoff. cbn [bind]. unfold ba_delslice. rewrite Hsi'. cbn [bind res_map]. f_equal.
  cbv zeta in Hr1, Hr2. rewrite Hr1, Hr2. apply remove_at_mirror.
Qed.

(* a[k] = 0 / 1 (scalar fill through BitStore.__setitem__, the fast path of set(v, range(...))): ANY slice key *)
Theorem mirror_setslice_scalar (b : bits) (k : pyslice) (x : bool) :
  setslice_scalar true b k x = res_map (@rev bool) (setslice_scalar false (rev b) k x).
Proof.
  unfold setslice_scalar. pose proof (zlen_nonneg b) as Hl.
  unfold ba_setslice_scalar at 2. rewrite zlen_rev.
  destruct (slice_indices k (zlen b)) as [[[a o] c]|e] eqn:Hsi; [|rewrite (slice_indices_err _ _ _ Hsi); reflexivity].
  destruct (offset_range_list k (zlen b) a o c Hl Hsi) as (k' & a' & o' & Hoff & Hsi' & Hr1 & Hr2 & Hin).
  destruct (slice_indices_step _ _ _ _ _ Hsi) as (Hc0 & _).
  rewrite Hoff. cbn [bind]. unfold ba_setslice_scalar. rewrite Hsi'. cbn [bind res_map]. f_equal.
  cbv zeta in Hr1, Hr2. rewrite Hr1, Hr2. set (n := Z.to_nat (range_len a o c)) in *.
  rewrite !progression_length. rewrite <- (rev_repeat x n) at 2.
  apply assign_at_mirror; [exact Hc0|apply repeat_length|exact Hin].
Qed.

(* ------------------------------------------------------------------------------------------ *)
(* 4. BitArray level                                                                           *)
(* ------------------------------------------------------------------------------------------ *)

(* set / invert over an iterable return (content reached, error that stopped the loop) *)
Definition run_map (f : bits -> bits) (r : bits * option exn) : bits * option exn := (f (fst r), snd r).

(* set(v, [p0; p1; ...]) with lsb0 on: same error at the same position, same partial effect, mirrored *)
Theorem mirror_set_list (v : bool) (ps : list Z) : forall b : bits,
  set_list true b v ps = run_map (@rev bool) (set_list false (rev b) v ps).
Proof.
  induction ps as [|p ps IH]; intros b; cbn [set_list]; [unfold run_map; cbn [fst snd]; now rewrite rev_involutive|].
  change (setbit true b p v) with (setbit_lsb0 b p v). change (setbit false (rev b) p v) with (setbit_msb0 (rev b) p v).
  rewrite mirror_setbit. destruct (setbit_msb0 (rev b) p v) as [b'|e]; cbn [res_map].
  - rewrite IH, rev_involutive. reflexivity.
  - unfold run_map; cbn [fst snd]. now rewrite rev_involutive.
Qed.

(* invert([p0; p1; ...]) with lsb0 on *)
Theorem mirror_invert_list (ps : list Z) : forall b : bits,
  invert_list true b ps = run_map (@rev bool) (invert_list false (rev b) ps).
Proof.
  induction ps as [|p ps IH]; intros b; cbn [invert_list]; [unfold run_map; cbn [fst snd]; now rewrite rev_involutive|].
  rewrite zlen_rev. set (p' := if p <? 0 then p + zlen b else p).
  destruct ((0 <=? p') && (p' <? zlen b)); [|unfold run_map; cbn [fst snd]; now rewrite rev_involutive].
  rewrite mirror_invert_at. destruct (invert_at false (rev b) p') as [b'|e]; cbn [res_map].
  - rewrite IH, rev_involutive. reflexivity.
  - unfold run_map; cbn [fst snd]. now rewrite rev_involutive.
Qed.

(* set(v, range(a, s, c)) with lsb0 on: the slice fast path and the one-by-one path alike *)
Theorem mirror_set_range (b : bits) (v : bool) (a s c : Z) :
  ba_set_range true b v a s c = run_map (@rev bool) (ba_set_range false (rev b) v a s c).
Proof.
  unfold ba_set_range. rewrite zlen_rev.
  destruct ((c >? 0) && (0 <=? a) && (0 <=? s) && (s <=? zlen b)); [|apply mirror_set_list].
  rewrite mirror_setslice_scalar.
  destruct (setslice_scalar false (rev b) (mkslice (Some a) (Some s) (Some c)) v) as [b'|e]; cbn [res_map]; unfold run_map; cbn [fst snd];
    [reflexivity|now rewrite rev_involutive].
Qed.

(* bitstring operands are mirrored, integers are not *)
Definition rev_setval (x : setval) : setval := match x with VInt v => VInt v | VBits v => VBits (rev v) end.
Definition unit_step (k : pyslice) : bool := match s_step k with None => true | Some s => (s =? 1) || (s =? -1) end.

(* a[k] = <bitstring> with lsb0 on, any slice key *)
Theorem mirror_setitem_slice_bits (b : bits) (k : pyslice) (v : bits) :
  ba_setitem_slice true b k (VBits v) = res_map (@rev bool) (ba_setitem_slice false (rev b) k (VBits (rev v))).
Proof. apply mirror_setslice. Qed.

(* a[i:j:c] = 0 / 1 with |c| <> 1 (routed through set(value, range(...))): pure mirror, the integer is kept *)
Theorem mirror_setitem_slice_fill (b : bits) (k : pyslice) (v : Z) : unit_step k = false ->
  ba_setitem_slice true b k (VInt v) = res_map (@rev bool) (ba_setitem_slice false (rev b) k (VInt v)).
Proof.
  intros Hu. unfold ba_setitem_slice. fold (unit_step k). rewrite Hu. cbn [negb].
  destruct ((v =? 0) || (v =? 1)); [|reflexivity]. rewrite zlen_rev.
  destruct (slice_indices k (zlen b)) as [[[a s] c]|e]; [|reflexivity]. cbn [bind].
  rewrite mirror_set_range. destruct (ba_set_range false (rev b) (v =? 1) a s c) as [b' [e|]]; reflexivity.
Qed.

(* a[i:j] = <int> (unit step): the integer is encoded into len(a[i:j]) bits - the same bits in both modes, because
   whole-value interpretations ignore lsb0 - and those bits are then stored like any bitstring operand.  So the lsb0
   result is the mirror of the msb0 assignment of the REVERSED encoding, not of the msb0 assignment of the integer. *)
Theorem mirror_setitem_slice_int (b : bits) (k : pyslice) (v : Z) : unit_step k = true ->
  ba_setitem_slice true b k (VInt v) =
  (do sl <- getslice false (rev b) (s_start k) (s_stop k);
   do vb <- make_int v (zlen sl);
   res_map (@rev bool) (ba_setitem_slice false (rev b) k (VBits (rev vb)))).
Proof.
  intros Hu. unfold ba_setitem_slice. fold (unit_step k). rewrite Hu. cbn [negb].
  unfold getslice at 1. rewrite mirror_getslice_nostep. unfold getslice.
  destruct (getslice_msb0 (rev b) (s_start k) (s_stop k)) as [sl|e]; [|reflexivity]. cbn [res_map bind]. rewrite zlen_rev.
  destruct (make_int v (zlen sl)) as [vb|e]; [|reflexivity]. cbn [bind]. apply mirror_setslice.
Qed.

(* the length that the integer is encoded into is the same in both modes *)
Theorem setitem_slice_int_length (b : bits) (start stop : option Z) :
  res_map zlen (getslice true b start stop) = res_map zlen (getslice false (rev b) start stop).
Proof.
  unfold getslice. rewrite mirror_getslice_nostep. destruct (getslice_msb0 (rev b) start stop); cbn [res_map]; [now rewrite zlen_rev|reflexivity].
Qed.

(* a[i] = value with lsb0 on (0 / 1 / -1 or a bitstring that replaces the bit) *)
Theorem mirror_setitem_int (b : bits) (key : Z) (value : setval) :
  ba_setitem_int true b key value = res_map (@rev bool) (ba_setitem_int false (rev b) key (rev_setval value)).
Proof.
  destruct value as [v|v]; cbn [ba_setitem_int rev_setval].
  - destruct (v =? 0); [apply mirror_setbit|]. destruct ((v =? 1) || (v =? -1)); [apply mirror_setbit|reflexivity].
  - rewrite zlen_rev. set (pk := if key <? 0 then key + zlen b else key).
    destruct ((pk <? 0) || (pk >=? zlen b)); [reflexivity|]. apply mirror_setslice.
Qed.

(* del a[k] / del a[i] with lsb0 on *)
Theorem mirror_delitem_slice (b : bits) (k : pyslice) :
  ba_delitem_slice true b k = res_map (@rev bool) (ba_delitem_slice false (rev b) k).
Proof. apply mirror_delslice. Qed.

Theorem mirror_delitem_int (b : bits) (i : Z) :
  ba_delitem_int true b i = res_map (@rev bool) (ba_delitem_int false (rev b) i).
Proof. apply mirror_delbit. Qed.

(* overwrite(bs, pos) with lsb0 on (also the `bs is self` case) *)
Theorem mirror_overwrite (same : bool) (b bs : bits) (pos : Z) :
  ba_overwrite true same b bs pos = res_map (@rev bool) (ba_overwrite false same (rev b) (rev bs) pos).
Proof.
  unfold ba_overwrite. rewrite !zlen_rev.
  set (p := if pos <? 0 then pos + zlen b else pos). destruct ((p <? 0) || (p >? zlen b)); [reflexivity|].
  destruct (zlen bs =? 0); [cbn [res_map]; now rewrite rev_involutive|].
  unfold overwrite_. rewrite !zlen_rev. destruct ((0 <=? p) && (p <=? zlen b)); [|reflexivity].
  destruct (same && (p =? 0)); [cbn [res_map]; now rewrite rev_involutive|]. apply mirror_setslice.
Qed.

(* append / prepend with lsb0 on (the method table swaps _addright / _addleft) *)
Theorem mirror_append (b bs : bits) : ba_append true b bs = rev (ba_append false (rev b) (rev bs)).
Proof. unfold ba_append, addleft, addright. now rewrite rev_app_distr, !rev_involutive. Qed.

Theorem mirror_prepend (b bs : bits) : ba_prepend true b bs = rev (ba_prepend false (rev b) (rev bs)).
Proof. unfold ba_prepend, addleft, addright. now rewrite rev_app_distr, !rev_involutive. Qed.

(* ------------------------------------------------------------------------------------------ *)
(* 5. Stretch: *= n and byteswap                                                               *)
(* ------------------------------------------------------------------------------------------ *)

Lemma rev_concat {A} (L : list (list A)) : rev (concat L) = concat (rev (map (@rev A) L)).
Proof.
  induction L as [|x L IH]; [reflexivity|]. cbn [concat map rev]. rewrite rev_app_distr, IH, concat_app. cbn [concat].
  now rewrite app_nil_r.
Qed.

Lemma map_repeat' {A B} (f : A -> B) x n : map f (repeat x n) = repeat (f x) n.
Proof. induction n as [|n IH]; [reflexivity|]. cbn [repeat map]. now rewrite IH. Qed.

Lemma rev_rep (x : bits) n : rev (rep (rev x) n) = rep x n.
Proof. unfold rep. rewrite rev_concat, map_repeat', rev_involutive, rev_repeat. reflexivity. Qed.

Lemma imul_false (self : bits) n : 0 < n -> imul false self n = Ok (rep self (Z.to_nat n)).
Proof.
  intros Hn. pose proof (mul_refines self n ltac:(lia)) as H. unfold bs_mul in H.
  destruct (n <? 0) eqn:E; [lia|]. destruct (n =? 0) eqn:E0; [lia|]. exact H.
Qed.

(* under lsb0 the tail self[0:(n-m)*len] is taken from the other end of the doubled copy, which is periodic *)
Lemma imul_true (self : bits) n : 0 < n -> imul true self n = Ok (rep self (Z.to_nat n)).
Proof.
  intros Hn. unfold imul. destruct (n <? 0) eqn:E; [lia|]. destruct (n =? 0) eqn:E0; [lia|].
  destruct (imul_loop_inv self n (imul_fuel n) 1%nat ltac:(lia) ltac:(lia)) as [m [Hl [Hm1 [Hmn Hn2]]]].
  { unfold imul_fuel. change (Nat.log2 1) with 0%nat. lia. }
  change (rep self 1) with (self ++ []) in Hl. rewrite app_nil_r in Hl. change (Z.of_nat 1) with 1 in Hl.
  rewrite Hl. cbn [bind].
  unfold bs_getitem_slice, getslice_withstep. rewrite mirror_getslice. unfold getslice_withstep_msb0.
  assert (Hlen : zlen (rep self m) = Z.of_nat m * zlen self) by (unfold zlen; rewrite rep_length; lia).
  pose proof (zlen_nonneg self) as Hs.
  rewrite seq_slice_unit by (rewrite ?zlen_rev; nia).
  cbn [res_map bind]. unfold addright. rewrite sub_0, firstn_rev, rev_involutive. f_equal.
  set (k := (Z.to_nat n - m)%nat).
  replace (Z.to_nat n) with (m + k)%nat by (unfold k; lia). rewrite rep_add. f_equal.
  replace (Z.to_nat ((n - Z.of_nat m) * zlen self)) with (k * length self)%nat by (unfold zlen, k; nia).
  replace (rep self m) with (rep self ((m - k) + k)) by (f_equal; unfold k; lia).
  rewrite rep_add, app_length, !rep_length.
  rewrite Nat.add_sub, <- (rep_length self (m - k)).
  rewrite skipn_app, skipn_all, Nat.sub_diag. reflexivity.
Qed.

(* a *= n with lsb0 on: mirror law (and in fact the same content as msb0: n copies) *)
Theorem mirror_imul (b : bits) (n : Z) : ba_imul true b n = res_map (@rev bool) (ba_imul false (rev b) n).
Proof.
  unfold ba_imul. destruct (n <? 0) eqn:E; [reflexivity|].
  destruct (Z.eq_dec n 0) as [->|Hn]; [reflexivity|].
  rewrite imul_true, imul_false by lia. cbn [res_map]. now rewrite rev_rep.
Qed.

(* ---- byteswap: bytes are reversed as groups, and reversing a whole-byte window commutes with reversing its byte order ---- *)
From BS Require Import Search MutSpec MutProofs FastPath SearchTop ByteswapProofs.

Lemma swapbytes_rev (w : bits) : whole w -> swapbytes (rev w) = rev (swapbytes w).
Proof.
  intros Hw. assert (Hw' : whole (rev w)) by (unfold whole in *; now rewrite zlen_rev).
  rewrite !swapbytes_is_byte_reversal by assumption.
  pose proof (to_bytes_all8 w Hw) as H8. set (L := to_bytes w) in *.
  assert (E : to_bytes (rev w) = rev (map (@rev bool) L)).
  { rewrite <- (concat_to_bytes w Hw) at 1. fold L. rewrite rev_concat. apply to_bytes_concat.
    apply Forall_rev. apply Forall_forall. intros c Hc. apply in_map_iff in Hc. destruct Hc as (c' & <- & Hc').
    rewrite rev_length. rewrite Forall_forall in H8. apply H8. exact Hc'. }
  rewrite E, rev_concat, map_rev, !rev_involutive. reflexivity.
Qed.

Lemma reversebytes_mirror (b : bits) x n : 0 <= x -> 0 <= n -> x + 8 * n <= zlen b ->
  reversebytes true b x (x + 8 * n) = res_map (@rev bool) (reversebytes false (rev b) x (x + 8 * n)).
Proof.
  intros Hx Hn Hb. unfold reversebytes. destruct ((x + 8 * n - x) mod 8 =? 0); [|reflexivity].
  rewrite slice_mirror. unfold slice_. rewrite getslice_unit by (rewrite ?zlen_rev; lia). cbn [res_map bind].
  set (G := take (x + 8 * n - x) (drop x (rev b))).
  assert (WG : whole G) by (unfold whole, G; rewrite zlen_take; rewrite ?zlen_drop; rewrite ?zlen_rev; lia).
  unfold setslice. rewrite mirror_setslice. fold (swapbytes (rev G)). fold (swapbytes G).
  rewrite swapbytes_rev, rev_involutive by exact WG. reflexivity.
Qed.

Lemma sum8_cons sz rest : sum8 (sz :: rest) = 8 * sz + sum8 rest.
Proof. unfold sum8. cbn [fold_right]. lia. Qed.

Lemma sum8_nonneg sizes : nonneg sizes -> 0 <= sum8 sizes.
Proof. intros H. unfold sum8. induction H; cbn [fold_right]; lia. Qed.

Lemma byteswap_pattern_mirror : forall sizes (b : bits) x, nonneg sizes -> 0 <= x -> x + sum8 sizes <= zlen b ->
  byteswap_pattern true b x sizes = res_map (@rev bool) (byteswap_pattern false (rev b) x sizes).
Proof.
  induction sizes as [|sz rest IH]; intros b x Hn Hx Hb; [cbn [byteswap_pattern res_map]; now rewrite rev_involutive|].
  inversion Hn as [|? ? Hsz Hrest]; subst. rewrite sum8_cons in Hb. pose proof (sum8_nonneg rest Hrest) as Hr0.
  cbn [byteswap_pattern]. replace (x + sz * 8) with (x + 8 * sz) by lia.
  rewrite reversebytes_mirror by lia. rewrite (reversebytes_spec (rev b)) by (rewrite ?zlen_rev; lia). cbn [res_map bind].
  set (b' := take x (rev b) ++ swapbytes (take (8 * sz) (drop x (rev b))) ++ drop (x + 8 * sz) (rev b)).
  assert (Lb' : zlen b' = zlen b).
  { unfold b'. rewrite !zlen_app, zlen_swapbytes; [|unfold whole]; rewrite !zlen_take, ?zlen_drop; rewrite ?zlen_drop; rewrite ?zlen_rev; lia. }
  rewrite IH by (try assumption; rewrite ?zlen_rev; lia). now rewrite rev_involutive.
Qed.

Lemma zlen_byteswap_pattern sizes (b : bits) x b' : nonneg sizes -> 0 <= x -> x + sum8 sizes <= zlen b ->
  byteswap_pattern false b x sizes = Ok b' -> zlen b' = zlen b.
Proof.
  intros Hn Hx Hb H. pose proof (sum8_nonneg sizes Hn) as H0. rewrite byteswap_pattern_spec in H by assumption. injection H as <-.
  rewrite !zlen_app, zlen_swap_pattern; try assumption; rewrite !zlen_take, ?zlen_drop; rewrite ?zlen_drop; lia.
Qed.

Definition rev_fst (p : bits * Z) : bits * Z := (rev (fst p), snd p).

Lemma byteswap_loop_mirror sizes total : nonneg sizes -> total = sum8 sizes ->
  forall ends (b : bits) r, (forall pe, In pe ends -> total <= pe <= zlen b) ->
  byteswap_loop true b sizes total ends r = res_map rev_fst (byteswap_loop false (rev b) sizes total ends r).
Proof.
  intros Hn Ht. induction ends as [|pe ends IH]; intros b r He; [cbn [byteswap_loop res_map]; unfold rev_fst; cbn [fst snd]; now rewrite rev_involutive|].
  cbn [byteswap_loop]. assert (Hpe : total <= pe <= zlen b) by (apply He; left; reflexivity).
  rewrite byteswap_pattern_mirror by (try assumption; lia).
  destruct (byteswap_pattern false (rev b) (pe - total) sizes) as [b'|e] eqn:E; [|reflexivity]. cbn [res_map bind].
  apply zlen_byteswap_pattern in E; try assumption; rewrite ?zlen_rev in *; try lia.
  rewrite IH; [now rewrite rev_involutive|]. intros pe' Hpe'. rewrite zlen_rev, E. apply He. right. exact Hpe'.
Qed.

Lemma range_list_pos_bound a b c x : 0 < c -> In x (range_list a b c) -> a <= x < b.
Proof.
  intros Hc Hx. unfold range_list in Hx. apply In_progression in Hx. destruct Hx as (k & Hk & ->).
  unfold range_len in Hk. destruct (c >? 0) eqn:E; [|lia]. destruct (a <? b) eqn:E2; [|lia].
  assert (Z.of_nat k <= (b - a - 1) / c) by lia. nia.
Qed.

Lemma existsb_neg_false sizes : existsb (fun x => x <? 0) sizes = false -> nonneg sizes.
Proof.
  induction sizes as [|x r IH]; intros H; [constructor|]. cbn [existsb] in H. apply orb_false_iff in H. destruct H as (H1 & H2).
  constructor; [lia|apply IH; exact H2].
Qed.

(* byteswap(fmt, start, end, repeat) with lsb0 on: [start, end) is an lsb0 range, the byte groups are cut from its lsb0 start;
   the result (and the returned number of patterns, and every error) is the mirror of the msb0 call on the reversed content *)
Theorem mirror_byteswap (b : bits) (sizes : list Z) (start stop : option Z) (repeat_ : bool) :
  ba_byteswap true b sizes start stop repeat_ = res_map rev_fst (ba_byteswap false (rev b) sizes start stop repeat_).
Proof.
  unfold ba_byteswap. rewrite validate_slice_rev.
  destruct (validate_slice b start stop) as [[s e]|err] eqn:Hv; [|reflexivity]. cbn [bind].
  destruct (validate_slice_ok _ _ _ _ _ Hv) as (H0 & H1 & H2).
  destruct (existsb (fun x => x <? 0) sizes) eqn:Hs; [reflexivity|]. apply existsb_neg_false in Hs.
  pose proof (sum8_nonneg sizes Hs) as Hs0. fold (sum8 sizes). set (total := sum8 sizes) in *.
  destruct (total =? 0) eqn:Et; [cbn [res_map]; unfold rev_fst; cbn [fst snd]; now rewrite rev_involutive|].
  apply byteswap_loop_mirror; [exact Hs|reflexivity|].
  intros pe Hpe. apply range_list_pos_bound in Hpe; [|lia]. destruct repeat_; lia.
Qed.

(* ------------------------------------------------------------------------------------------ *)
(* 6. The extended-slice law read item by item, concrete instances, assumptions                *)
(* ------------------------------------------------------------------------------------------ *)

Lemma length_set_nth {A} (l : list A) n x : length (set_nth l n x) = length l.
Proof. pose proof (zlen_set_nth l n x) as H. unfold zlen in H. lia. Qed.

Lemma length_assign_at {A} (idx : list Z) : forall (l v : list A), length (assign_at l idx v) = length l.
Proof. induction idx as [|i idx IH]; intros l [|x v]; try reflexivity. cbn [assign_at]. now rewrite IH, length_set_nth. Qed.

Lemma nth_set_nth_same {A} (d : A) (l : list A) : forall n x, (n < length l)%nat -> nth n (set_nth l n x) d = x.
Proof. induction l as [|h t IH]; intros [|n] x H; cbn in H; try lia; [reflexivity|]. cbn [set_nth nth]. apply IH. lia. Qed.

Lemma assign_at_hit {A} (d : A) (idx : list Z) : forall (l v : list A) j, length idx = length v -> distinct idx ->
  (forall i, In i idx -> 0 <= i < zlen l) -> (j < length idx)%nat ->
  nth (Z.to_nat (nth j idx 0)) (assign_at l idx v) d = nth j v d.
Proof.
  induction idx as [|i idx IH]; intros l [|x v] j Hlen Hd Hin Hj; cbn in Hlen, Hj; try lia.
  destruct Hd as (Hi & Hd). cbn [assign_at]. destruct j as [|j]; cbn [nth].
  - rewrite assign_at_set_nth by exact Hi. apply nth_set_nth_same. rewrite length_assign_at.
    specialize (Hin i (or_introl eq_refl)). unfold zlen in Hin. lia.
  - apply IH; try lia; [exact Hd|]. intros i' Hi'. rewrite zlen_set_nth. apply Hin. right. exact Hi'.
Qed.

(* a[start:stop:c] = v with lsb0 on and c <> 1: the bit read back at lsb0 position start + j*c is lsb0 item j of v -
   exactly Python's extended-slice assignment on the lsb0-indexed sequences *)
Theorem setslice_lsb0_items (b : bits) (k : pyslice) (v r : bits) a o c :
  slice_indices k (zlen b) = Ok (a, o, c) -> c <> 1 -> setslice_lsb0 b k v = Ok r ->
  zlen r = zlen b /\ zlen v = range_len a o c /\
  forall j, 0 <= j < zlen v -> getindex_lsb0 r (a + j * c) = getindex_lsb0 v j.
Proof.
  intros Hsi Hc1 H. pose proof (zlen_nonneg b) as Hl. rewrite mirror_setslice in H. unfold setslice_msb0, ba_setslice in H.
  rewrite zlen_rev, Hsi in H. cbn [bind] in H. destruct (c =? 1) eqn:Ec; [lia|].
  destruct (offset_range_list k (zlen b) a o c Hl Hsi) as (_ & _ & _ & _ & _ & Hr1 & _ & Hin). cbv zeta in Hr1, Hin.
  destruct (slice_indices_step _ _ _ _ _ Hsi) as (Hc0 & _).
  destruct (offset_spec k (zlen b) a o c Hl Hsi) as (_ & _ & _ & _ & _ & _ & Hn0 & _).
  rewrite Hr1 in H. set (n := Z.to_nat (range_len a o c)) in *.
  assert (Hz : zlen (progression a c n) = Z.of_nat n) by (unfold zlen; now rewrite progression_length).
  rewrite Hz, zlen_rev in H. destruct (Z.of_nat n =? zlen v) eqn:En; [|discriminate]. cbn [res_map] in H. injection H as <-.
  assert (HP : forall i, In i (progression a c n) -> 0 <= i < zlen (rev b)).
  { intros i Hi. apply In_progression in Hi. destruct Hi as (j & Hj & ->). rewrite zlen_rev. apply Hin. lia. }
  split; [unfold zlen; now rewrite rev_length, length_assign_at, rev_length|]. split; [unfold n in En; lia|].
  intros j Hj. rewrite !mirror_getindex, rev_involutive. unfold getindex_msb0.
  assert (Hr : 0 <= a + j * c < zlen b) by (apply Hin; lia).
  rewrite <- (Z2Nat.id (a + j * c)) by lia. rewrite <- (Z2Nat.id j) at 2 by lia.
  rewrite (seq_getitem_nth false) by (rewrite length_assign_at, rev_length; unfold zlen in Hr; lia).
  rewrite (seq_getitem_nth false) by (rewrite rev_length; unfold zlen in Hj; lia). f_equal.
  replace (a + j * c) with (nth (Z.to_nat j) (progression a c n) 0) by (rewrite progression_nth by lia; lia).
  apply assign_at_hit.
  - rewrite progression_length, rev_length. unfold zlen in En. lia.
  - apply distinct_progression; [exact Hc0|]. intros x Hx. apply HP in Hx. lia.
  - exact HP.
  - rewrite progression_length. lia.
Qed.

Definition z8 : bits := repeat false 8.

(* the call of the task text: bitstring.options.lsb0 = True; a = BitArray('0b00000000'); a[1:7:2] = '0b110'  ->  storage 00101000 *)
Example setslice_lsb0_step2 :
  setslice_lsb0 z8 (mkslice (Some 1) (Some 7) (Some 2)) [true; true; false] = Ok [false; false; true; false; true; false; false; false].
Proof. vm_compute. reflexivity. Qed.
Example setslice_lsb0_negstep :
  setslice_lsb0 z8 (mkslice (Some 6) (Some 0) (Some (-2))) [true; true; false] = Ok [false; false; false; true; false; true; false; false].
Proof. vm_compute. reflexivity. Qed.
(* the hypotheses of setslice_lsb0_items, mirror_setitem_slice_fill, mirror_setitem_slice_int, reversebytes_mirror are satisfiable *)
Example items_hyp : slice_indices (mkslice (Some 1) (Some 7) (Some 2)) (zlen z8) = Ok (1, 7, 2) /\
  setslice_lsb0 z8 (mkslice (Some 1) (Some 7) (Some 2)) [true; true; false] = Ok [false; false; true; false; true; false; false; false].
Proof. split; vm_compute; reflexivity. Qed.
Example fill_hyp : unit_step (mkslice (Some 1) (Some 7) (Some 2)) = false /\
  ba_setitem_slice true z8 (mkslice (Some 1) (Some 7) (Some 2)) (VInt 1) = Ok [false; false; true; false; true; false; true; false].
Proof. split; vm_compute; reflexivity. Qed.
(* a[1:7] = 5 under lsb0 gives storage 00001010 - the same storage as under msb0, NOT its mirror: the operand is not reversed *)
Example int_hyp : unit_step (mkslice (Some 1) (Some 7) None) = true /\
  ba_setitem_slice true z8 (mkslice (Some 1) (Some 7) None) (VInt 5) = Ok [false; false; false; false; true; false; true; false] /\
  res_map (@rev bool) (ba_setitem_slice false (rev z8) (mkslice (Some 1) (Some 7) None) (VInt 5)) = Ok [false; true; false; true; false; false; false; false].
Proof. repeat split; vm_compute; reflexivity. Qed.
Definition b12 : bits := [true; false; true; true; false; false; false; true; true; true; false; true].
Example reversebytes_hyp : 0 <= 8 /\ 0 <= 2 /\ 8 + 8 * 2 <= zlen (b12 ++ b12) /\
  reversebytes true (b12 ++ b12) 8 (8 + 8 * 2) =
  Ok [true; true; false; true; true; false; true; true; true; false; true; true; false; false; false; true; false; false; false; true; true; true; false; true].
Proof. repeat split; vm_compute; try reflexivity; discriminate. Qed.
(* why reversebytes_mirror needs its range hypothesis (byteswap always satisfies it): a window past the end is padded at the msb0 end *)
Example reversebytes_out_of_range :
  reversebytes true b12 0 16 <> res_map (@rev bool) (reversebytes false (rev b12) 0 16).
Proof. vm_compute. discriminate. Qed.

Print Assumptions mirror_setslice.
Print Assumptions setslice_lsb0_items.
Print Assumptions mirror_delslice.
Print Assumptions mirror_setslice_scalar.
Print Assumptions mirror_set_list.
Print Assumptions mirror_invert_list.
Print Assumptions mirror_set_range.
Print Assumptions mirror_setitem_slice_bits.
Print Assumptions mirror_setitem_slice_fill.
Print Assumptions mirror_setitem_slice_int.
Print Assumptions setitem_slice_int_length.
Print Assumptions mirror_setitem_int.
Print Assumptions mirror_delitem_slice.
Print Assumptions mirror_delitem_int.
Print Assumptions mirror_overwrite.
Print Assumptions mirror_append.
Print Assumptions mirror_prepend.
Print Assumptions mirror_imul.
Print Assumptions reversebytes_mirror.
Print Assumptions mirror_byteswap.
