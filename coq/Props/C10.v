(* C10 — Exponential-Golomb codes: exact codewords, self-delimiting streams.
   Statements only; every proof is [exact <lemma>].  Model: Golomb.v (mirrors the Python);
   spec: GolombSpec.v (the standards' tables).  *)
From BS Require Import Prims Golomb GolombSpec GolombProofs.
Open Scope Z_scope.

(* every integer of the domain encodes to exactly the table codeword ... *)
Theorem C10_enc_eq_table : forall c n, g_dom c n = true -> g_enc c n = Ok (g_spec c n).
Proof. exact g_enc_table. Qed.

(* ... and negative values for the unsigned codes are rejected (CreationError = ValueError) *)
Theorem C10_enc_rejects_outside_domain : forall c n, g_dom c n = false -> g_enc c n = Err ValueError.
Proof. exact g_enc_reject. Qed.

(* decoding a codeword embedded anywhere returns the integer and advances by exactly one codeword *)
Theorem C10_dec_enc : forall c n pre rest, g_dom c n = true ->
  g_read c (pre ++ g_spec c n ++ rest) (zlen pre) = Ok (n, zlen pre + zlen (g_spec c n)).
Proof. exact g_read_spec. Qed.

(* self-delimiting: any finite sequence of mixed codewords reads back as the same integers *)
Theorem C10_stream_roundtrip : forall items pre rest,
  forallb (fun cn => g_dom (fst cn) (snd cn)) items = true ->
  read_stream (pre ++ stream_bits items ++ rest) (zlen pre) (map fst items)
  = Ok (map snd items, zlen pre + zlen (stream_bits items)).
Proof. exact stream_roundtrip. Qed.

(* a truncated codeword raises ReadError (the caller's position is a parameter, so it is unchanged) *)
Theorem C10_truncated_read : forall c n pre w s, g_dom c n = true -> s <> [] -> w ++ s = g_spec c n ->
  g_read c (pre ++ w) (zlen pre) = Err ReadError.
Proof. exact g_read_trunc. Qed.

(* ... and InterpretError (= ValueError) through the whole-bitstring property *)
Theorem C10_truncated_whole : forall c n w s, g_dom c n = true -> s <> [] -> w ++ s = g_spec c n ->
  get_whole (g_read c) w = Err ValueError.
Proof. exact whole_trunc. Qed.

(* the whole-bitstring property returns the value for exactly the codeword ... *)
Theorem C10_whole_exact : forall c n, g_dom c n = true -> get_whole (g_read c) (g_spec c n) = Ok n.
Proof. exact get_whole_exact. Qed.

(* ... and a codeword followed by extra bits is not accepted as a single value *)
Theorem C10_no_trailing : forall c n x, g_dom c n = true -> x <> [] ->
  get_whole (g_read c) (g_spec c n ++ x) = Err ValueError.
Proof. exact no_trailing. Qed.

(* non-vacuity: concrete codewords from the standards' tables *)
Example C10_table_rows :
  g_spec UE 0 = [true] /\ g_spec UE 1 = [false;true;false] /\ g_spec UE 2 = [false;true;true] /\
  g_spec UE 3 = [false;false;true;false;false] /\ g_spec SE 1 = [false;true;false] /\
  g_spec SE (-1) = [false;true;true] /\ g_spec UIE 1 = [false;false;true] /\
  g_spec UIE 4 = [false;false;false;true;true] /\ g_spec SIE (-1) = [false;false;true;true] /\
  g_dom UE 3 = true.
Proof. vm_compute. repeat split. Qed.

Print Assumptions C10_enc_eq_table.
Print Assumptions C10_enc_rejects_outside_domain.
Print Assumptions C10_dec_enc.
Print Assumptions C10_stream_roundtrip.
Print Assumptions C10_truncated_read.
Print Assumptions C10_truncated_whole.
Print Assumptions C10_whole_exact.
Print Assumptions C10_no_trailing.
