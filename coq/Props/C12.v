(* C12 — LSB0 mode is a pure index mirror of MSB0 mode (statements; SeqProofs.v). *)
From BS Require Import Prims BitsCore Search Mutators SeqProofs MirrorProofs SearchProofs SearchTop LsbSearch LsbMutators.
Open Scope Z_scope.

(* bit i of X in lsb0 numbering is bit i of (rev X) in msb0 numbering, for every index incl. negative and out of range *)
Theorem C12_mirror_getindex : forall b i, getindex_lsb0 b i = getindex_msb0 (rev b) i.
Proof. exact mirror_getindex. Qed.

(* slicing with any start/stop and any positive (or omitted) step *)
Theorem C12_mirror_getslice_positive_step : forall b k,
  (match s_step k with None => True | Some s => 0 < s end) ->
  getslice_withstep_lsb0 b k = res_map (@rev bool) (getslice_withstep_msb0 (rev b) k).
Proof. exact mirror_getslice_posstep. Qed.

(* ... and any negative step: hence EVERY slice key (a zero step is refused on both sides) *)
Theorem C12_mirror_getslice_negative_step : forall b k,
  (match s_step k with None => False | Some s => s < 0 end) ->
  getslice_withstep_lsb0 b k = res_map (@rev bool) (getslice_withstep_msb0 (rev b) k).
Proof. exact mirror_getslice_negstep. Qed.
Theorem C12_mirror_getslice : forall b k, getslice_withstep_lsb0 b k = res_map (@rev bool) (getslice_withstep_msb0 (rev b) k).
Proof. exact mirror_getslice. Qed.
(* the two-argument accessor getslice_lsb0 (used by _slice, read, cut, ...) *)
Theorem C12_mirror_getslice_two_arguments : forall b start stop, getslice_lsb0 b start stop = res_map (@rev bool) (getslice_msb0 (rev b) start stop).
Proof. exact mirror_getslice_nostep. Qed.
(* single-bit assignment, inversion and deletion at any index (IndexError on the same indices) *)
Theorem C12_mirror_setbit : forall b i x, setbit_lsb0 b i x = res_map (@rev bool) (setbit_msb0 (rev b) i x).
Proof. exact mirror_setbit. Qed.
Theorem C12_mirror_invert_bit : forall b i, invert_at true b i = res_map (@rev bool) (invert_at false (rev b) i).
Proof. exact mirror_invert_at. Qed.
Theorem C12_mirror_delbit : forall b i, delbit_lsb0 b i = res_map (@rev bool) (delbit_msb0 (rev b) i).
Proof. exact mirror_delbit. Qed.
(* a[i:j] = v and del a[i:j] (unit step, any i, j incl. negative, omitted, out of range, empty): the operand is mirrored too *)
Theorem C12_mirror_slice_assignment : forall b start stop v,
  setslice_lsb0 b (mkslice start stop None) v = res_map (@rev bool) (setslice_msb0 (rev b) (mkslice start stop None) (rev v)).
Proof. exact mirror_setslice_unit. Qed.
Theorem C12_mirror_slice_deletion : forall b start stop,
  delslice_lsb0 b (mkslice start stop None) = res_map (@rev bool) (delslice_msb0 (rev b) (mkslice start stop None)).
Proof. exact mirror_delslice_unit. Qed.
(* searching under lsb0 (the chunked scan from the end backwards, any data size, any count, either alignment) is the msb0 search
   of the mirrored pattern in the mirrored data over the same [start, end) *)
Theorem C12_mirror_findall : forall d p start stop count ba s e, p <> [] -> count_ok count -> validate_slice d start stop = Ok (s, e) ->
  bs_findall true d p start stop count ba = bs_findall false (rev d) (rev p) (Some s) (Some e) count ba.
Proof. exact bs_findall_lsb0_is_mirror. Qed.
Theorem C12_mirror_find : forall d p start stop ba s e, p <> [] -> validate_slice d start stop = Ok (s, e) ->
  bs_find true d p start stop ba = bs_find false (rev d) (rev p) (Some s) (Some e) ba.
Proof. exact bs_find_lsb0_is_mirror. Qed.
Theorem C12_mirror_rfind : forall d p start stop ba s e, p <> [] -> validate_slice d start stop = Ok (s, e) ->
  bs_rfind true d p start stop ba = bs_rfind false (rev d) (rev p) (Some s) (Some e) ba.
Proof. exact bs_rfind_lsb0_is_mirror. Qed.
Theorem C12_lsb0_findall_is_brute_force_on_the_mirror : forall d p s e ba count, p <> [] -> count_ok count -> 0 <= s -> s <= e -> e <= zlen d ->
  findall_lsb0 d p s e count ba = Ok (take_count count (spec_matches (rev d) (rev p) s e ba)).
Proof. intros. apply findall_lsb0_count_is_mirror; assumption. Qed.
(* ranged mutators under lsb0: reverse(start, end) and insert(bs, pos) obey the mirror law; rol / ror keep their textual direction (like << >>),
   so ror over the lsb0 range [start, end) is the mirror of rol on the mirrored data and vice versa *)
Theorem C12_mirror_reverse : forall b start stop, ba_reverse true b start stop = res_map (@rev bool) (ba_reverse false (rev b) start stop).
Proof. exact ba_reverse_lsb0. Qed.
Theorem C12_mirror_ror_rol : forall b n start stop,
  ba_ror true b n start stop = res_map (@rev bool) (ba_rol false (rev b) n start stop) /\
  ba_rol true b n start stop = res_map (@rev bool) (ba_ror false (rev b) n start stop).
Proof. intros. split; [apply ba_ror_lsb0|apply ba_rol_lsb0]. Qed.
Theorem C12_mirror_insert : forall b bs pos, ba_insert true b bs pos = res_map (@rev bool) (ba_insert false (rev b) (rev bs) pos).
Proof. exact ba_insert_lsb0. Qed.
Example C12_nonvacuous : getslice_withstep_lsb0 [true;true;false;true;false;false;false] (mkslice (Some 6) (Some 1) (Some (-2))) = Ok [false;false;true].
Proof. vm_compute. reflexivity. Qed.

Theorem C12_len_mode_free : forall b, bs_len (rev b) = bs_len b.
Proof. exact mirror_len. Qed.

Print Assumptions C12_mirror_getindex.
Print Assumptions C12_mirror_getslice_positive_step.
Print Assumptions C12_len_mode_free.
Print Assumptions C12_mirror_getslice_negative_step.
Print Assumptions C12_mirror_getslice.
Print Assumptions C12_mirror_getslice_two_arguments.
Print Assumptions C12_mirror_setbit.
Print Assumptions C12_mirror_invert_bit.
Print Assumptions C12_mirror_delbit.
Print Assumptions C12_mirror_slice_assignment.
Print Assumptions C12_mirror_slice_deletion.
Print Assumptions C12_mirror_findall.
Print Assumptions C12_mirror_find.
Print Assumptions C12_mirror_rfind.
Print Assumptions C12_lsb0_findall_is_brute_force_on_the_mirror.
Print Assumptions C12_mirror_reverse.
Print Assumptions C12_mirror_ror_rol.
Print Assumptions C12_mirror_insert.
