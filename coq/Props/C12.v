(* C12 — LSB0 mode is a pure index mirror of MSB0 mode (statements; SeqProofs.v). *)
From BS Require Import Prims BitsCore Search Mutators SeqProofs MirrorProofs SearchProofs SearchTop LsbSearch LsbMutators LsbSplit MirrorStep Golomb Stream Pack PackProofs LsbPack.
Open Scope Z_scope.

(* bit i of X in lsb0 numbering is bit i of (rev X) in msb0 numbering, for every index incl. negative and out of range *)
Theorem C12_mirror_getindex : forall b i, getindex_lsb0 b i = getindex_msb0 (rev b) i.
Proof. exact mirror_getindex. Qed.

(* slicing with any start/stop and any positive (or omitted) step *)
Theorem C12_mirror_getslice_positive_step : forall b k,
  (match s_step k with None => True | Some s => 0 < s end) ->
  getslice_withstep_lsb0 b k = res_map (@rev bool) (getslice_withstep_msb0 (rev b) k).
Proof. exact mirror_getslice_posstep. Qed.

(* ... and any negative step: hence EVERY slice key (a zero step is refused on both sides) *)
Theorem C12_mirror_getslice_negative_step : forall b k,
  (match s_step k with None => False | Some s => s < 0 end) ->
  getslice_withstep_lsb0 b k = res_map (@rev bool) (getslice_withstep_msb0 (rev b) k).
Proof. exact mirror_getslice_negstep. Qed.
Theorem C12_mirror_getslice : forall b k, getslice_withstep_lsb0 b k = res_map (@rev bool) (getslice_withstep_msb0 (rev b) k).
Proof. exact mirror_getslice. Qed.
(* the two-argument accessor getslice_lsb0 (used by _slice, read, cut, ...) *)
Theorem C12_mirror_getslice_two_arguments : forall b start stop, getslice_lsb0 b start stop = res_map (@rev bool) (getslice_msb0 (rev b) start stop).
Proof. exact mirror_getslice_nostep. Qed.
(* single-bit assignment, inversion and deletion at any index (IndexError on the same indices) *)
Theorem C12_mirror_setbit : forall b i x, setbit_lsb0 b i x = res_map (@rev bool) (setbit_msb0 (rev b) i x).
Proof. exact mirror_setbit. Qed.
Theorem C12_mirror_invert_bit : forall b i, invert_at true b i = res_map (@rev bool) (invert_at false (rev b) i).
Proof. exact mirror_invert_at. Qed.
Theorem C12_mirror_delbit : forall b i, delbit_lsb0 b i = res_map (@rev bool) (delbit_msb0 (rev b) i).
Proof. exact mirror_delbit. Qed.
(* a[i:j] = v and del a[i:j] (unit step, any i, j incl. negative, omitted, out of range, empty): the operand is mirrored too *)
Theorem C12_mirror_slice_assignment : forall b start stop v,
  setslice_lsb0 b (mkslice start stop None) v = res_map (@rev bool) (setslice_msb0 (rev b) (mkslice start stop None) (rev v)).
Proof. exact mirror_setslice_unit. Qed.
Theorem C12_mirror_slice_deletion : forall b start stop,
  delslice_lsb0 b (mkslice start stop None) = res_map (@rev bool) (delslice_msb0 (rev b) (mkslice start stop None)).
Proof. exact mirror_delslice_unit. Qed.
(* searching under lsb0 (the chunked scan from the end backwards, any data size, any count, either alignment) is the msb0 search
   of the mirrored pattern in the mirrored data over the same [start, end) *)
Theorem C12_mirror_findall : forall d p start stop count ba s e, p <> [] -> count_ok count -> validate_slice d start stop = Ok (s, e) ->
  bs_findall true d p start stop count ba = bs_findall false (rev d) (rev p) (Some s) (Some e) count ba.
Proof. exact bs_findall_lsb0_is_mirror. Qed.
Theorem C12_mirror_find : forall d p start stop ba s e, p <> [] -> validate_slice d start stop = Ok (s, e) ->
  bs_find true d p start stop ba = bs_find false (rev d) (rev p) (Some s) (Some e) ba.
Proof. exact bs_find_lsb0_is_mirror. Qed.
Theorem C12_mirror_rfind : forall d p start stop ba s e, p <> [] -> validate_slice d start stop = Ok (s, e) ->
  bs_rfind true d p start stop ba = bs_rfind false (rev d) (rev p) (Some s) (Some e) ba.
Proof. exact bs_rfind_lsb0_is_mirror. Qed.
Theorem C12_lsb0_findall_is_brute_force_on_the_mirror : forall d p s e ba count, p <> [] -> count_ok count -> 0 <= s -> s <= e -> e <= zlen d ->
  findall_lsb0 d p s e count ba = Ok (take_count count (spec_matches (rev d) (rev p) s e ba)).
Proof. intros. apply findall_lsb0_count_is_mirror; assumption. Qed.
(* ranged mutators under lsb0: reverse(start, end) and insert(bs, pos) obey the mirror law; rol / ror keep their textual direction (like << >>),
   so ror over the lsb0 range [start, end) is the mirror of rol on the mirrored data and vice versa *)
Theorem C12_mirror_reverse : forall b start stop, ba_reverse true b start stop = res_map (@rev bool) (ba_reverse false (rev b) start stop).
Proof. exact ba_reverse_lsb0. Qed.
Theorem C12_mirror_ror_rol : forall b n start stop,
  ba_ror true b n start stop = res_map (@rev bool) (ba_rol false (rev b) n start stop) /\
  ba_rol true b n start stop = res_map (@rev bool) (ba_ror false (rev b) n start stop).
Proof. intros. split; [apply ba_ror_lsb0|apply ba_rol_lsb0]. Qed.
Theorem C12_mirror_insert : forall b bs pos, ba_insert true b bs pos = res_map (@rev bool) (ba_insert false (rev b) (rev bs) pos).
Proof. exact ba_insert_lsb0. Qed.
Example C12_nonvacuous : getslice_withstep_lsb0 [true;true;false;true;false;false;false] (mkslice (Some 6) (Some 1) (Some (-2))) = Ok [false;false;true].
Proof. vm_compute. reflexivity. Qed.

Theorem C12_len_mode_free : forall b, bs_len (rev b) = bs_len b.
Proof. exact mirror_len. Qed.

(* startswith, endswith, cut and replace under lsb0 = the msb0 operation on the bit-reversed operands with the same position arguments, reversed back
   (every window, count, alignment; same errors) *)
Theorem C12_mirror_startswith : forall d p start stop, bs_startswith true d p start stop = bs_startswith false (rev d) (rev p) start stop.
Proof. exact startswith_mirror. Qed.
Theorem C12_mirror_endswith : forall d p start stop, bs_endswith true d p start stop = bs_endswith false (rev d) (rev p) start stop.
Proof. exact endswith_mirror. Qed.
Theorem C12_mirror_cut : forall d n start stop count,
  bs_cut true d n start stop count = res_map (map (@rev bool)) (bs_cut false (rev d) n start stop count).
Proof. exact cut_mirror. Qed.
Theorem C12_mirror_replace : forall d old new_ start stop count ba,
  ba_replace true d old new_ start stop count ba = res_map (fun '(r, n) => (rev r, n)) (ba_replace false (rev d) (rev old) (rev new_) start stop count ba).
Proof. exact replace_mirror. Qed.
(* split is NOT in the property's list of mirrored operations, and indeed does not obey the mirror law (Bits.split searches with _find_msb0 and slices with
   the mode-dependent _slice; tests/test_bitarray.py::TestLsb0Setting::test_split pins the outcome). What it does, for all inputs: it slices the bit-reversed
   data at the MSB0 cut positions of the data and delimiter themselves; the law holds for a call exactly when those cut positions equal the ones of the
   reversed operands (refuted by the witness below); the pieces still tile the lsb0 window. *)
Theorem C12_split_lsb0_exact : forall d p start stop count ba,
  bs_split true d p start stop count ba = res_map (fun cs => map (@rev bool) (slices (rev d) cs)) (split_cuts d p start stop count ba).
Proof. exact split_lsb0_via_cuts. Qed.
Theorem C12_split_mirror_iff : forall d p start stop count ba,
  bs_split true d p start stop count ba = res_map (map (@rev bool)) (bs_split false (rev d) (rev p) start stop count ba)
  <-> split_cuts d p start stop count ba = split_cuts (rev d) (rev p) start stop count ba.
Proof. exact split_mirror_iff. Qed.
Theorem C12_split_mirror_refuted : exists d p,
  bs_split true d p None None None false <> res_map (map (@rev bool)) (bs_split false (rev d) (rev p) None None None false).
Proof. exists [false; true], [false]. vm_compute. discriminate. Qed.
Theorem C12_split_lsb0_tiles_the_window : forall d p start stop ba s e, p <> [] -> validate_slice d start stop = Ok (s, e) ->
  exists pieces, bs_split true d p start stop None ba = Ok pieces /\ concat (rev pieces) = sub d (zlen d - e) (zlen d - s) /\
                 getslice true d (Some s) (Some e) = Ok (concat (rev pieces)).
Proof. exact split_lsb0_partitions_window. Qed.
Example C12_split_mirror_holds_sometimes :
  let d := [true; false; false; true; false] in let p := [true; false] in
  split_cuts d p None None None false = split_cuts (rev d) (rev p) None None None false /\
  split_cuts d p None None None false = Ok [(0, 0); (0, 3); (3, 5)] /\
  bs_split true d p None None None false = Ok [[]; [false; true; false]; [true; false]].
Proof. exact split_mirror_holds_sometimes. Qed.
(* slice assignment and deletion with ANY key (any step), scalar fill, set / invert over iterables and ranges (partial effect and error included),
   item / slice assignment through __setitem__ (bitstring operands mirrored, integers encoded identically in both modes), overwrite, append, prepend,
   *=, and byteswap (content, returned count, errors): each is the msb0 operation on the bit-reversed operands, reversed back *)
Theorem C12_mirror_slice_assignment_any_step : forall b k v, setslice_lsb0 b k v = res_map (@rev bool) (setslice_msb0 (rev b) k (rev v)).
Proof. exact mirror_setslice. Qed.
Theorem C12_mirror_slice_deletion_any_step : forall b k, delslice_lsb0 b k = res_map (@rev bool) (delslice_msb0 (rev b) k).
Proof. exact mirror_delslice. Qed.
Theorem C12_mirror_scalar_fill : forall b k x, setslice_scalar true b k x = res_map (@rev bool) (setslice_scalar false (rev b) k x).
Proof. exact mirror_setslice_scalar. Qed.
Theorem C12_mirror_set_positions : forall v ps b, set_list true b v ps = run_map (@rev bool) (set_list false (rev b) v ps).
Proof. exact mirror_set_list. Qed.
Theorem C12_mirror_invert_positions : forall ps b, invert_list true b ps = run_map (@rev bool) (invert_list false (rev b) ps).
Proof. exact mirror_invert_list. Qed.
Theorem C12_mirror_set_range : forall b v a s c, ba_set_range true b v a s c = run_map (@rev bool) (ba_set_range false (rev b) v a s c).
Proof. exact mirror_set_range. Qed.
Theorem C12_mirror_setitem_slice_bits : forall b k v,
  ba_setitem_slice true b k (VBits v) = res_map (@rev bool) (ba_setitem_slice false (rev b) k (VBits (rev v))).
Proof. exact mirror_setitem_slice_bits. Qed.
Theorem C12_mirror_setitem_slice_fill : forall b k v, unit_step k = false ->
  ba_setitem_slice true b k (VInt v) = res_map (@rev bool) (ba_setitem_slice false (rev b) k (VInt v)).
Proof. exact mirror_setitem_slice_fill. Qed.
Theorem C12_mirror_setitem_int : forall b key value,
  ba_setitem_int true b key value = res_map (@rev bool) (ba_setitem_int false (rev b) key (rev_setval value)).
Proof. exact mirror_setitem_int. Qed.
Theorem C12_mirror_delitem : forall b k i,
  ba_delitem_slice true b k = res_map (@rev bool) (ba_delitem_slice false (rev b) k) /\
  ba_delitem_int true b i = res_map (@rev bool) (ba_delitem_int false (rev b) i).
Proof. intros. split; [apply mirror_delitem_slice|apply mirror_delitem_int]. Qed.
Theorem C12_mirror_overwrite : forall same b bs pos, ba_overwrite true same b bs pos = res_map (@rev bool) (ba_overwrite false same (rev b) (rev bs) pos).
Proof. exact mirror_overwrite. Qed.
Theorem C12_mirror_append_prepend : forall b bs,
  ba_append true b bs = rev (ba_append false (rev b) (rev bs)) /\ ba_prepend true b bs = rev (ba_prepend false (rev b) (rev bs)).
Proof. intros. split; [apply mirror_append|apply mirror_prepend]. Qed.
Theorem C12_mirror_imul : forall b n, ba_imul true b n = res_map (@rev bool) (ba_imul false (rev b) n).
Proof. exact mirror_imul. Qed.
Theorem C12_mirror_byteswap : forall b sizes start stop repeat_,
  ba_byteswap true b sizes start stop repeat_ = res_map rev_fst (ba_byteswap false (rev b) sizes start stop repeat_).
Proof. exact mirror_byteswap. Qed.
(* read item by item: under lsb0 an extended-step assignment puts item j of the value (lsb0 numbering) at lsb0 position start + j*step *)
Theorem C12_extended_assignment_item_by_item : forall b k v r a o c,
  slice_indices k (zlen b) = Ok (a, o, c) -> c <> 1 -> setslice_lsb0 b k v = Ok r ->
  zlen r = zlen b /\ zlen v = range_len a o c /\ forall j, 0 <= j < zlen v -> getindex_lsb0 r (a + j * c) = getindex_lsb0 v j.
Proof. exact setslice_lsb0_items. Qed.
Print Assumptions C12_mirror_getindex.
Print Assumptions C12_mirror_getslice_positive_step.
Print Assumptions C12_len_mode_free.
Print Assumptions C12_mirror_getslice_negative_step.
Print Assumptions C12_mirror_getslice.
Print Assumptions C12_mirror_getslice_two_arguments.
Print Assumptions C12_mirror_setbit.
Print Assumptions C12_mirror_invert_bit.
Print Assumptions C12_mirror_delbit.
Print Assumptions C12_mirror_slice_assignment.
Print Assumptions C12_mirror_slice_deletion.
Print Assumptions C12_mirror_findall.
Print Assumptions C12_mirror_find.
Print Assumptions C12_mirror_rfind.
Print Assumptions C12_lsb0_findall_is_brute_force_on_the_mirror.
Print Assumptions C12_mirror_reverse.
Print Assumptions C12_mirror_ror_rol.
Print Assumptions C12_mirror_insert.
Print Assumptions C12_mirror_startswith.
Print Assumptions C12_mirror_endswith.
Print Assumptions C12_mirror_cut.
Print Assumptions C12_mirror_replace.
Print Assumptions C12_split_lsb0_exact.
Print Assumptions C12_split_mirror_iff.
Print Assumptions C12_split_mirror_refuted.
Print Assumptions C12_split_lsb0_tiles_the_window.
Print Assumptions C12_mirror_slice_assignment_any_step.
Print Assumptions C12_mirror_slice_deletion_any_step.
Print Assumptions C12_mirror_scalar_fill.
Print Assumptions C12_mirror_set_positions.
Print Assumptions C12_mirror_invert_positions.
Print Assumptions C12_mirror_set_range.
Print Assumptions C12_mirror_setitem_slice_bits.
Print Assumptions C12_mirror_setitem_slice_fill.
Print Assumptions C12_mirror_setitem_int.
Print Assumptions C12_mirror_delitem.
Print Assumptions C12_mirror_overwrite.
Print Assumptions C12_mirror_append_prepend.
Print Assumptions C12_mirror_imul.
Print Assumptions C12_mirror_byteswap.
Print Assumptions C12_extended_assignment_item_by_item.

(* ------------------------------------------------------------------------------------------------------------------------------------
   read / peek / readlist / peeklist / unpack / pack order under lsb0 (LsbPack.v). The mode-dependent readers read_fixed_m / read_var_m,
   read_list_loop_m, unpack_m, readlist_m, peeklist_m, read_token_m and the packer pack_m are the model of the code with options.lsb0 as a
   parameter; with the option off they ARE the msb0 model of Stream.v / Pack.v: *)
Theorem C12_readers_with_option_off : (forall b ts, unpack_m false b ts = unpack b ts) /\ (forall s ts, readlist_m false s ts = readlist s ts) /\
  (forall s t, read_token_m false s t = read_token s t) /\ (forall toks vals, pack_m false toks vals = pack false toks vals).
Proof. repeat split; [exact unpack_m_false|exact readlist_m_false|exact read_token_m_false|intros; apply pack_m_agree; now left]. Qed.
(* pack order: both modes build the same per-token stores; msb0 joins them in order, lsb0 in reverse order (first token at the least
   significant end); same errors; and so lsb0 pack is msb0 pack of the reversed token and value lists *)
Theorem C12_pack_order : forall (lsb0 : bool) (toks : list (token * option value)) (vals : list value),
  pack lsb0 toks vals = res_map (fun bs : list (list bool) => concat (if lsb0 then rev bs else bs)) (pack_parts toks vals).
Proof. exact pack_by_parts. Qed.
Theorem C12_pack_same_errors : forall toks vals e, pack true toks vals = Err e <-> pack false toks vals = Err e.
Proof. exact pack_lsb0_same_errors. Qed.
Theorem C12_pack_is_reversed_msb0_pack : forall toks vals, no_var toks = true -> pack true toks vals = pack false (rev toks) (rev vals).
Proof. exact pack_lsb0_is_reversed_msb0. Qed.
(* ... and the lsb0 unpack of an lsb0 pack returns the values, reading exactly to the end *)
Theorem C12_unpack_inverts_pack_lsb0 : forall toks vals b, pack true toks vals = Ok b -> all_supported toks vals = true -> no_var toks = true ->
  read_dtype_list_m true b (map fst toks) 0 = Ok (used_values toks vals, zlen b) /\ unpack_m true b (map fst toks) = Ok (used_values toks vals).
Proof. exact unpack_pack_lsb0. Qed.
(* the mirror form, for EVERY token list, position and filler allowance: the lsb0 read of d is the msb0 read of (rev d) with each field
   reversed back before it is interpreted (interp_mirror); same positions, same errors *)
Theorem C12_read_list_mirror : forall d ts pos after, read_list_loop_m true d ts pos after = read_list_gen read_fixed_mirror read_var_mirror (rev d) ts pos after.
Proof. exact read_list_lsb0_mirror. Qed.
Theorem C12_interp_mirror : forall k f, interp_mirror k f = match k with KUint | KInt => interp k (rev f) | _ => res_map rev_value (interp k f) end.
Proof. exact interp_mirror_spec. Qed.
(* for bit-valued tokens (bits, bin, hex, bytes, bool, pad, counts; one length-less token allowed) that is literally
   "the msb0 result on the reversed operand, reversed back" *)
Theorem C12_read_list_mirror_bits : forall d ts, forallb bitlike ts = true -> forall pos after,
  read_list_loop_m true d ts pos after = res_map rev_values (read_list_loop (rev d) ts pos after).
Proof. exact read_list_lsb0_mirror_bits. Qed.
(* the field rule: an in-range lsb0 read of bl bits at p is the msb0 read at len - p - bl of the SAME stored bits (uint, int, hex, bytes,
   bool interpret the field in stored order in both modes); read(n) returns d[len-p-n : len-p] and advances pos by n *)
Theorem C12_read_field_rule : forall k d p bl, 0 <= p -> 0 <= bl -> p + bl <= zlen d -> read_fixed_m true k d p bl = read_fixed k d (zlen d - p - bl) bl.
Proof. exact read_fixed_lsb0_pos. Qed.
Theorem C12_read_count : forall d p n, 0 <= n -> 0 <= p -> p + n <= zlen d ->
  read_token_m true (mkstream d p) (TCount n) = (mkstream d (p + n), Ok (ValBits (sub d (zlen d - p - n) (zlen d - p)))).
Proof. exact read_token_lsb0_count. Qed.
(* exp-Golomb codes have no lsb0 storage order: pack refuses them and every reader raises ReadError, pos unchanged *)
Theorem C12_golomb_refused_under_lsb0 : (forall toks vals, no_var toks = false -> pack_m true toks vals = Err ValueError) /\
  (forall d c p, read_token_m true (mkstream d p) (TVar c) = (mkstream d p, Err ReadError)).
Proof. split; [exact pack_m_golomb|intros; apply read_golomb_lsb0; exact 0]. Qed.
Print Assumptions C12_readers_with_option_off.
Print Assumptions C12_pack_order.
Print Assumptions C12_pack_same_errors.
Print Assumptions C12_pack_is_reversed_msb0_pack.
Print Assumptions C12_unpack_inverts_pack_lsb0.
Print Assumptions C12_read_list_mirror.
Print Assumptions C12_interp_mirror.
Print Assumptions C12_read_list_mirror_bits.
Print Assumptions C12_read_field_rule.
Print Assumptions C12_read_count.
Print Assumptions C12_golomb_refused_under_lsb0.

(* lsb0 stream HISTORIES (StreamLsb.v): running any history of mirrorable operations (every operation of the stream language except reads of
   exp-Golomb tokens - refused under lsb0 - and unit-step integer slice assignment - the integer is encoded in stored order) under lsb0 on
   (d, pos) gives the bit-reversed content of running the mirrored history (bitstring operands reversed) under msb0 on (rev d, pos), with
   the same positions and the same exceptions, step by step *)
From BS Require Import StreamHistory StreamLsb.
Theorem C12_stream_step_mirror : forall (s : stream) (op : sop), mirrorable op = true -> step_x true s op = mpair (step_x false (mstream s) (mirror_op op)).
Proof. exact step_mirror. Qed.
Theorem C12_stream_history_mirror : forall (ops : list sop) (s : stream), forallb mirrorable ops = true ->
  run_m true s ops = mstream (srun (mstream s) (map mirror_op ops)).
Proof. exact run_m_mirror. Qed.
Print Assumptions C12_stream_step_mirror.
Print Assumptions C12_stream_history_mirror.
