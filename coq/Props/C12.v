(* C12 — LSB0 mode is a pure index mirror of MSB0 mode (statements; SeqProofs.v). *)
From BS Require Import Prims BitsCore SeqProofs.
Open Scope Z_scope.

(* bit i of X in lsb0 numbering is bit i of (rev X) in msb0 numbering, for every index incl. negative and out of range *)
Theorem C12_mirror_getindex : forall b i, getindex_lsb0 b i = getindex_msb0 (rev b) i.
Proof. exact mirror_getindex. Qed.

(* slicing with any start/stop and any positive (or omitted) step *)
Theorem C12_mirror_getslice_positive_step : forall b k,
  (match s_step k with None => True | Some s => 0 < s end) ->
  getslice_withstep_lsb0 b k = res_map (@rev bool) (getslice_withstep_msb0 (rev b) k).
Proof. exact mirror_getslice_posstep. Qed.

Theorem C12_len_mode_free : forall b, bs_len (rev b) = bs_len b.
Proof. exact mirror_len. Qed.

Print Assumptions C12_mirror_getindex.
Print Assumptions C12_mirror_getslice_positive_step.
Print Assumptions C12_len_mode_free.
