(* C17 — byte and file serialisation (statements; StoreProofs.v) *)
From BS Require Import Prims BitsCore Search Store StoreProofs.
Open Scope Z_scope.
Theorem C17_bytes_window : forall data l o, 0 <= o -> 0 <= l -> o + l <= zlen data ->
  setbytes_with_truncation data (Some l) (Some o) = Ok (sub data o (o + l)).
Proof. exact bytes_window. Qed.
Theorem C17_bytes_window_rejects : forall data l o, (o < 0 \/ l < 0 \/ o + l > zlen data) ->
  setbytes_with_truncation data (Some l) (Some o) = Err ValueError.
Proof. exact bytes_window_rejects. Qed.
Theorem C17_file_window : forall f l o, 0 <= o -> 0 <= l -> o + l <= zlen f ->
  exists s, setfile f (Some l) (Some o) = Ok s /\ bits_of s = sub f o (o + l) /\ wf s.
Proof. exact file_window. Qed.
Theorem C17_getbytes_whole_bytes_only : forall b, (zlen b mod 8 <> 0 -> bs_getbytes b = Err ValueError) /\ (zlen b mod 8 = 0 -> bs_getbytes b = Ok (tobytes b)).
Proof. exact getbytes_spec. Qed.
Theorem C17_chunk_constant_whole_bytes : TOFILE_CHUNK mod 8 = 0 /\ 0 < TOFILE_CHUNK.
Proof. vm_compute. split; [reflexivity|reflexivity]. Qed.
Print Assumptions C17_bytes_window.
Print Assumptions C17_bytes_window_rejects.
Print Assumptions C17_file_window.
Print Assumptions C17_getbytes_whole_bytes_only.
Print Assumptions C17_chunk_constant_whole_bytes.
