(* C17 — byte and file serialisation (statements; StoreProofs.v) *)
From BS Require Import Prims BitsCore Search Store StoreProofs SerialProofs CutProofs Serial2.
From Coq Require Import String.
Open Scope Z_scope.
Theorem C17_bytes_window : forall data l o, 0 <= o -> 0 <= l -> o + l <= zlen data ->
  setbytes_with_truncation data (Some l) (Some o) = Ok (sub data o (o + l)).
Proof. exact bytes_window. Qed.
Theorem C17_bytes_window_rejects : forall data l o, (o < 0 \/ l < 0 \/ o + l > zlen data) ->
  setbytes_with_truncation data (Some l) (Some o) = Err ValueError.
Proof. exact bytes_window_rejects. Qed.
Theorem C17_file_window : forall f l o, 0 <= o -> 0 <= l -> o + l <= zlen f ->
  exists s, setfile f (Some l) (Some o) = Ok s /\ bits_of s = sub f o (o + l) /\ wf s.
Proof. exact file_window. Qed.
Theorem C17_getbytes_whole_bytes_only : forall b, (zlen b mod 8 <> 0 -> bs_getbytes b = Err ValueError) /\ (zlen b mod 8 = 0 -> bs_getbytes b = Ok (tobytes b)).
Proof. exact getbytes_spec. Qed.
Theorem C17_chunk_constant_whole_bytes : TOFILE_CHUNK mod 8 = 0 /\ 0 < TOFILE_CHUNK.
Proof. vm_compute. split; [reflexivity|reflexivity]. Qed.
(* tofile(f) writes exactly tobytes(): for EVERY chunk size that is a positive multiple of 8 (so also at lengths that are exact
   multiples of the chunk size), and in particular for the constant in the source (compared with the source on every run) *)
(* tofile2 mirrors the loop of Bits.tofile as it is now (absolute chunk starts, no dependence on the bit numbering; repaired today: D50);
   `tofile` is the earlier cut()-based loop, equal to it for every positive chunk size *)
Theorem C17_tofile_is_tobytes : forall b chunk, 0 < chunk -> chunk mod 8 = 0 -> tofile2 b chunk = Ok (tobytes b).
Proof. exact tofile2_eq_tobytes. Qed.
Theorem C17_tofile_is_tobytes_at_the_real_chunk_size : forall b, tofile2 b TOFILE_CHUNK = Ok (tobytes b).
Proof. exact tofile2_real_chunk. Qed.
Theorem C17_tofile_same_as_the_cut_loop : forall b chunk, 0 < chunk -> tofile2 b chunk = tofile b chunk.
Proof. exact tofile2_eq_tofile. Qed.
(* the writes: ceil(len/chunk) of them, chunk i is b[i*chunk : min((i+1)*chunk, len)], all but the last have exactly `chunk` bits - so only the last write is padded *)
Theorem C17_tofile_writes : forall b chunk, 0 < chunk ->
  exists cs, tofile2_chunks b chunk = Ok cs /\ tofile2_writes b chunk = Ok (map tobytes cs) /\
    zlen cs = cdiv (zlen b) chunk /\ List.concat cs = b /\
    (forall i, 0 <= i < cdiv (zlen b) chunk ->
       znth [] cs i = sub b (i * chunk) (Z.min ((i + 1) * chunk) (zlen b)) /\ zlen (znth [] cs i) = Z.min chunk (zlen b - i * chunk) /\
       0 < zlen (znth [] cs i) <= chunk /\ (i + 1 < cdiv (zlen b) chunk -> zlen (znth [] cs i) = chunk)).
Proof. exact tofile2_write_count. Qed.
Theorem C17_tobytes_length : forall b, zlen (tobytes b) = cdiv (zlen b) 8.
Proof. exact zlen_tobytes. Qed.
Theorem C17_array_tofile : forall its tr,
  arr_tofile (List.concat its ++ tr) = Ok (tobytes (List.concat its ++ tr)) /\
  (Forall (fun it : bits => zlen it mod 8 = 0) its -> arr_tofile (List.concat its ++ tr) = Ok (flat_map tobytes its ++ tobytes tr)).
Proof. exact arr_tofile_spec. Qed.
Theorem C17_tobytes_of_concatenation : forall a b, zlen a mod 8 = 0 -> tobytes (a ++ b) = tobytes a ++ tobytes b.
Proof. exact tobytes_app. Qed.
Example C17_tofile_example : tofile2 (of01 "1011001110001111101"%string) 8 = Ok [179; 143; 160].
Proof. vm_compute. reflexivity. Qed.
Print Assumptions C17_bytes_window.
Print Assumptions C17_bytes_window_rejects.
Print Assumptions C17_file_window.
Print Assumptions C17_getbytes_whole_bytes_only.
Print Assumptions C17_chunk_constant_whole_bytes.
Print Assumptions C17_tofile_is_tobytes.
Print Assumptions C17_tofile_is_tobytes_at_the_real_chunk_size.
Print Assumptions C17_tobytes_of_concatenation.
Print Assumptions C17_tofile_same_as_the_cut_loop.
Print Assumptions C17_tofile_writes.
Print Assumptions C17_tobytes_length.
Print Assumptions C17_array_tofile.
