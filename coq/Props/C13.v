(* C13 — equality and hashing (statements; StoreProofs.v) *)
From BS Require Import Prims BitsCore Search Store StoreProofs.
Open Scope Z_scope.
Theorem C13_eq_iff_same_bits : forall a b, wf a -> wf b -> (bs_eq a b = true <-> bits_of a = bits_of b).
Proof. exact eq_iff. Qed.
Theorem C13_eq_equivalence : forall a b c, wf a -> wf b -> wf c ->
  bs_eq a a = true /\ (bs_eq a b = bs_eq b a) /\ (bs_eq a b = true -> bs_eq b c = true -> bs_eq a c = true).
Proof. exact eq_equivalence. Qed.
Theorem C13_equal_bits_equal_hash_input : forall a b : bits, a = b -> hash_input a = hash_input b.
Proof. intros a b ->. reflexivity. Qed.
Theorem C13_hash_input_mode_free_and_total : forall b, snd (hash_input b) = zlen b.
Proof. exact hash_input_len. Qed.
Print Assumptions C13_eq_iff_same_bits.
Print Assumptions C13_eq_equivalence.
Print Assumptions C13_equal_bits_equal_hash_input.
Print Assumptions C13_hash_input_mode_free_and_total.
