(* C05 — pack, unpack and token strings are mutually inverse and compositional (token level; PackProofs.v).
   The string front end: expand_brackets is modelled on character lists (Tokenizer.v) and run against utils.expand_brackets; the rest of the
   tokenizer is tied by correspondence and a grammar oracle (partial, see DESIGN.md). *)
From BS Require Import Prims BitsCore Golomb IntCodec Mutators Search Stream Pack PackProofs SeqProofs.
Open Scope Z_scope.
Theorem C05_pack_length_is_sum_of_token_lengths : forall toks vals b total,
  pack false toks vals = Ok b -> sum_lens toks = Some total -> zlen b = total.
Proof. exact pack_length. Qed.
Theorem C05_unpack_inverts_pack : forall toks vals b, pack false toks vals = Ok b -> all_supported toks vals = true ->
  scan_tokens (map fst toks) false 0 = Ok 0 -> unpack b (map fst toks) = Ok (used_values toks vals).
Proof. exact unpack_pack. Qed.
Theorem C05_formats_compose : forall f1 f2 v1 v2 b1 b2, pack false f1 v1 = Ok b1 -> pack false f2 v2 = Ok b2 ->
  pack false (f1 ++ f2) (v1 ++ v2) = Ok (b1 ++ b2).
Proof. exact pack_compose. Qed.
Theorem C05_factor_is_repetition : forall f v b, pack false f v = Ok b -> forall n, pack false (repeat_fmt n f) (repeat_fmt n v) = Ok (rep b n).
Proof. exact pack_repeat. Qed.
Theorem C05_too_few_values_rejected : forall t rest, is_pad t = false -> pack false ((t, None) :: rest) [] = Err ValueError.
Proof. exact pack_too_few. Qed.
Theorem C05_too_many_values_rejected : forall toks vals bs x left, pack_loop toks vals = Ok (bs, x :: left) -> pack false toks vals = Err ValueError.
Proof. exact pack_too_many. Qed.
Example C05_nonvacuous :
  pack false [(TFixed KUint 4, None); (TVar UE, Some (ValZ 3)); (TFixed KPad 2, None); (TFixed KBool 1, None)] [ValZ 9; ValBool true]
  = Ok [true;false;false;true; false;false;true;false;false; false;false; true].
Proof. vm_compute. reflexivity. Qed.
Print Assumptions C05_pack_length_is_sum_of_token_lengths.
Print Assumptions C05_unpack_inverts_pack.
Print Assumptions C05_formats_compose.
Print Assumptions C05_factor_is_repetition.
Print Assumptions C05_too_few_values_rejected.
Print Assumptions C05_too_many_values_rejected.

(* ------------------------------------------------------------------------------------------------------------------------------------
   utils.expand_brackets (Tokenizer.v): the Python loop - find the first '(', scan to its matching ')', look for a `digits*` factor in front
   of it, splice - on lists of characters, with explicit fuel (one unit per pass). [expand_body] is one pass; [body_eq] proves it equal to
   a list-level specification [step_spec] (s = P ( B ) R with P bracket-free and B up to the matching bracket; no '*' at the end of P:
   P B R; '*' without digits: ValueError; digits d before the '*': P0 ++ copies (int d) B ++ R). *)
From BS Require Import Tokenizer.
From Coq Require Import Ascii String.
Local Open Scope list_scope.
Local Open Scope nat_scope.
(* the loop terminates on EVERY string: some number of passes suffices, every larger fuel gives the same outcome, never OutOfFuel. (No bound
   in the length or the number of brackets exists: factors multiply - "9*(9*(9*(a)))" needs 92 passes - and digit runs can merge into new
   factors; for formats without nested brackets `number of '(' + 1` passes suffice.) *)
Theorem C05_expand_brackets_terminates : forall s : str, exists (n : nat) (r : res str), r <> Err OutOfFuel /\ (forall m : nat, n <= m -> expand_brackets m s = r).
Proof. exact expand_terminates. Qed.
Theorem C05_expand_brackets_fuel_flat : forall s : str, flat false s = true ->
  exists r : res str, r <> Err OutOfFuel /\ (forall m : nat, S (count_open s) <= m -> expand_brackets m s = r).
Proof. exact expand_fuel_flat. Qed.
(* an expanded format has no '(' left, and no ')' either unless the input had a stray one *)
Theorem C05_expanded_has_no_brackets : forall (n : nat) (s r : str), expand_brackets n s = Ok r -> noopen r = true /\ (lvl 1 s <> None -> noclose r = true).
Proof. intros n s r H. split; [exact (expand_no_open n s r H)|intros L; exact (expand_no_close n s r L H)]. Qed.
(* a format without brackets is left alone *)
Theorem C05_expand_plain : forall (n : nat) (s : str), noopen s = true -> expand_brackets (S n) s = Ok s.
Proof. exact expand_plain. Qed.
(* "n*(f)" is f written n times (joined by commas; nothing for n = 0), for every decimal spelling of the factor incl. leading zeros *)
Theorem C05_factor_is_repetition_of_text : forall (d f : str) (m : nat), alldig d = true -> d <> [] -> noopen f = true -> noclose f = true ->
  expand_brackets (2 + m) (d ++ "*"%char :: "("%char :: f ++ [")"%char]) = Ok (copies (int_of d) f).
Proof. exact expand_factor_flat. Qed.
(* ... also when the body has (balanced) brackets of its own: n copies of the expanded body *)
Theorem C05_factor_nested : forall (d g g' : str) (k m : nat), alldig d = true -> d <> [] -> balanced g -> expand_brackets k g = Ok g' ->
  expand_brackets (2 + N.to_nat (int_of d) * k + m) (d ++ "*"%char :: "("%char :: g ++ [")"%char]) = Ok (copies (int_of d) g').
Proof. exact expand_factor_nested. Qed.
(* "f1, f2" expands to the expansion of f1, a comma, the expansion of f2 (and fails exactly when f2 fails), when f1 expands on its own *)
Theorem C05_expansion_composes : forall (n1 n2 : nat) (s1 s2 r1 : str) (r : res str), expand_brackets n1 s1 = Ok r1 -> expand_brackets n2 s2 = r -> r <> Err OutOfFuel ->
  expand_brackets (n1 + n2) (s1 ++ ","%char :: s2) = map_res (fun r2 : list ascii => r1 ++ ","%char :: r2) r.
Proof. exact expand_compose. Qed.
(* the token count of "n*(f)" is n times that of f *)
Theorem C05_factor_token_count : forall (d f : str) (m : nat), alldig d = true -> d <> [] -> noopen f = true -> noclose f = true -> (0 < int_of d)%N ->
  exists r : str, expand_brackets (2 + m) (d ++ "*"%char :: "("%char :: f ++ [")"%char]) = Ok r /\ List.length (split_commas r) = N.to_nat (int_of d) * List.length (split_commas f).
Proof. exact factor_token_count. Qed.
Print Assumptions C05_expand_brackets_terminates.
Print Assumptions C05_expand_brackets_fuel_flat.
Print Assumptions C05_expanded_has_no_brackets.
Print Assumptions C05_expand_plain.
Print Assumptions C05_factor_is_repetition_of_text.
Print Assumptions C05_factor_nested.
Print Assumptions C05_expansion_composes.
Print Assumptions C05_factor_token_count.
