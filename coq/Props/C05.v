(* C05 — pack, unpack and token strings are mutually inverse and compositional (token level; PackProofs.v).
   The string front end is tied by correspondence and a grammar oracle (partial, see DESIGN.md). *)
From BS Require Import Prims BitsCore Golomb IntCodec Mutators Search Stream Pack PackProofs SeqProofs.
Open Scope Z_scope.
Theorem C05_pack_length_is_sum_of_token_lengths : forall toks vals b total,
  pack false toks vals = Ok b -> sum_lens toks = Some total -> zlen b = total.
Proof. exact pack_length. Qed.
Theorem C05_unpack_inverts_pack : forall toks vals b, pack false toks vals = Ok b -> all_supported toks vals = true ->
  scan_tokens (map fst toks) false 0 = Ok 0 -> unpack b (map fst toks) = Ok (used_values toks vals).
Proof. exact unpack_pack. Qed.
Theorem C05_formats_compose : forall f1 f2 v1 v2 b1 b2, pack false f1 v1 = Ok b1 -> pack false f2 v2 = Ok b2 ->
  pack false (f1 ++ f2) (v1 ++ v2) = Ok (b1 ++ b2).
Proof. exact pack_compose. Qed.
Theorem C05_factor_is_repetition : forall f v b, pack false f v = Ok b -> forall n, pack false (repeat_fmt n f) (repeat_fmt n v) = Ok (rep b n).
Proof. exact pack_repeat. Qed.
Theorem C05_too_few_values_rejected : forall t rest, is_pad t = false -> pack false ((t, None) :: rest) [] = Err ValueError.
Proof. exact pack_too_few. Qed.
Theorem C05_too_many_values_rejected : forall toks vals bs x left, pack_loop toks vals = Ok (bs, x :: left) -> pack false toks vals = Err ValueError.
Proof. exact pack_too_many. Qed.
Example C05_nonvacuous :
  pack false [(TFixed KUint 4, None); (TVar UE, Some (ValZ 3)); (TFixed KPad 2, None); (TFixed KBool 1, None)] [ValZ 9; ValBool true]
  = Ok [true;false;false;true; false;false;true;false;false; false;false; true].
Proof. vm_compute. reflexivity. Qed.
Print Assumptions C05_pack_length_is_sum_of_token_lengths.
Print Assumptions C05_unpack_inverts_pack.
Print Assumptions C05_formats_compose.
Print Assumptions C05_factor_is_repetition.
Print Assumptions C05_too_few_values_rejected.
Print Assumptions C05_too_many_values_rejected.
