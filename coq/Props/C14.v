(* C14 — Array is a list of fixed-width items over one bit buffer (statements; ArrayProofs.v).
   mk its tr = concat its ++ tr is the abstraction "data = item encodings followed by trailing bits". *)
From BS Require Import Prims BitsCore Mutators SeqProofs ArrayM ArrayProofs ArraySlice ArrayMut ArrayOps.
Open Scope Z_scope.
Theorem C14_len_and_trailing : forall w its tr, 0 < w -> wfA w its tr -> arr_len w (mk its tr) = zlen its /\ trailing w (mk its tr) = tr.
Proof. intros. split; [now apply arr_len_mk|now apply trailing_mk]. Qed.
Theorem C14_index : forall w its tr key, 0 < w -> wfA w its tr ->
  arr_getitem w (mk its tr) key = match pyidx (zlen its) key with Some k => Ok (nth (Z.to_nat k) its []) | None => Err IndexError end.
Proof. intros. now apply getitem_is_list_index. Qed.
Theorem C14_item_assignment : forall w its tr key e, 0 < w -> wfA w its tr -> zlen e = w ->
  arr_setitem w (mk its tr) key e = match pyidx (zlen its) key with Some k => Ok (mk (list_set its (Z.to_nat k) e) tr) | None => Err IndexError end.
Proof. intros. now apply setitem_is_list_assignment. Qed.
Theorem C14_item_deletion : forall w its tr key, 0 < w -> wfA w its tr ->
  arr_delitem w (mk its tr) key = match pyidx (zlen its) key with Some k => Ok (mk (list_del its (Z.to_nat k)) tr) | None => Err IndexError end.
Proof. intros. now apply delitem_is_list_deletion. Qed.
Theorem C14_append : forall w its e, 0 < w -> Forall (fun it : bits => zlen it = w) its -> zlen e = w -> arr_append w (mk its []) e = Ok (mk (its ++ [e]) []).
Proof. intros. now apply append_is_list_append. Qed.
Theorem C14_append_refused_with_trailing_bits : forall w its tr e, 0 < w -> wfA w its tr -> tr <> [] -> arr_append w (mk its tr) e = Err ValueError.
Proof. intros. now apply append_refused_with_trailing_bits. Qed.
Theorem C14_insert : forall w its tr i e, 0 < w -> wfA w its tr -> e <> [] ->
  arr_insert w (mk its tr) i e = Ok (mk (list_ins its (Z.to_nat (Z.min (if i <? 0 then Z.max (i + zlen its) 0 else i) (zlen its))) e) tr).
Proof. intros. now apply insert_is_list_insert. Qed.
(* slicing with ANY key (any start/stop, positive or negative step): the data of a[key] is the concatenation of the Python list slice of the
   items - in particular it carries no trailing bits; a zero step is refused *)
Theorem C14_slicing : forall w its tr k, 0 < w -> wfA w its tr ->
  arr_getslice w (mk its tr) k = res_map (@concat bool) (seq_slice [] its k).
Proof. intros. now apply getslice_is_list_slice. Qed.
Theorem C14_pop : forall w its tr i, 0 < w -> wfA w its tr ->
  arr_pop w (mk its tr) i = match pyidx (zlen its) i with
                            | Some k => Ok (nth (Z.to_nat k) its [], mk (list_del its (Z.to_nat k)) tr)
                            | None => Err IndexError end.
Proof. intros. now apply pop_is_list_pop. Qed.
Example C14_slicing_nonvacuous :
  arr_getslice 2 [true;false; false;true; true;true; false;false; true] (mkslice (Some 3) None (Some (-2))) = Ok [false;false; false;true].
Proof. vm_compute. reflexivity. Qed.
(* ANY data d is "items then trailing bits" (all items w bits, fewer than w trailing bits), so the statements below are about every Array *)
Theorem C14_data_is_items_then_trailing : forall w, 0 < w -> forall d, wfA w (items w d) (trailing w d) /\ d = mk (items w d) (trailing w d).
Proof. exact data_is_items_then_trailing. Qed.
(* del a[key], any key: the items become the Python list with the slice deleted (item j survives iff j is not in the range of key.indices(len)),
   trailing bits untouched; the only failure is a zero step *)
Theorem C14_slice_deletion : forall w, 0 < w -> forall d k,
  match slice_indices k (arr_len w d) with
  | Err e => arr_delslice w d k = Err e
  | Ok (a, b, c) => exists d', arr_delslice w d k = Ok d' /\ items w d' = remove_at (items w d) 0 (range_list a b c) /\ trailing w d' = trailing w d
  end.
Proof. exact C14_delslice. Qed.
(* a[key] = values: unit step - items a..max(a,b) replaced by any number of new items; extended step - refused unless the counts agree, else the j-th
   position of the range receives the j-th value; all other items, the item count and the trailing bits unchanged *)
Theorem C14_slice_assignment_unit_step : forall w, 0 < w -> forall d k news a b, Forall (fun e : bits => zlen e = w) news ->
  slice_indices k (arr_len w d) = Ok (a, b, 1) ->
  exists d', arr_setslice w d k news = Ok d' /\
    items w d' = firstn (Z.to_nat a) (items w d) ++ news ++ skipn (Z.to_nat (Z.max a b)) (items w d) /\ trailing w d' = trailing w d.
Proof. exact C14_setslice_step1. Qed.
Theorem C14_slice_assignment_extended_step : forall w, 0 < w -> forall d k news a b c, Forall (fun e : bits => zlen e = w) news ->
  slice_indices k (arr_len w d) = Ok (a, b, c) -> c <> 1 ->
  if zlen news =? range_len a b c then
    exists d', arr_setslice w d k news = Ok d' /\ trailing w d' = trailing w d /\ zlen (items w d') = zlen (items w d) /\
      (forall j, 0 <= j < zlen news -> znth [] (items w d') (a + j * c) = znth [] news j) /\
      (forall i, 0 <= i -> ~ In i (range_list a b c) -> znth [] (items w d') i = znth [] (items w d) i)
  else arr_setslice w d k news = Err ValueError.
Proof. exact C14_setslice_extended. Qed.
Theorem C14_extend_values : forall w, 0 < w -> forall d news, Forall (fun e : bits => zlen e = w) news ->
  if zlen d mod w =? 0 then exists d', arr_extend w d news = Ok d' /\ items w d' = items w d ++ news /\ trailing w d' = []
  else trailing w d <> [] /\ arr_extend w d news = Err ValueError.
Proof. exact C14_extend. Qed.
Theorem C14_extend_with_an_array : forall w, 0 < w -> forall d other,
  if zlen d mod w =? 0 then exists d', arr_extend_array w d other = Ok d' /\ items w d' = items w d ++ items w other /\ trailing w d' = trailing w other
  else arr_extend_array w d other = Err ValueError.
Proof. exact C14_extend_array. Qed.
Theorem C14_reverse_items : forall w, 0 < w -> forall d,
  if zlen d mod w =? 0 then exists d', arr_reverse w d = Ok d' /\ items w d' = rev (items w d) /\ trailing w d' = []
  else trailing w d <> [] /\ arr_reverse w d = Err ValueError.
Proof. exact C14_reverse. Qed.
Theorem C14_tolist_and_iteration : forall w, 0 < w -> forall d, arr_tolist w d = items w d /\ arr_iter w d = items w d.
Proof. intros w Hw d. split; [now apply C14_tolist|now apply C14_iter]. Qed.
Theorem C14_equals_and_copy : forall w, 0 < w -> forall d1 d2,
  (arr_equals d1 d2 = true <-> items w d1 = items w d2 /\ trailing w d1 = trailing w d2) /\ arr_equals (arr_copy d1) d1 = true.
Proof. intros w Hw d1 d2. split; [now apply C14_equals|now apply C14_copy]. Qed.
Theorem C14_count_items : forall w, 0 < w -> forall (V : Type) (dec : bits -> V) eqv d v,
  arr_count w dec eqv d v = zlen (filter (fun it => eqv (dec it) v) (items w d)).
Proof. intros w Hw V dec eqv d v. now apply C14_count. Qed.
Print Assumptions C14_len_and_trailing.
Print Assumptions C14_index.
Print Assumptions C14_item_assignment.
Print Assumptions C14_item_deletion.
Print Assumptions C14_append.
Print Assumptions C14_append_refused_with_trailing_bits.
Print Assumptions C14_insert.
Print Assumptions C14_slicing.
Print Assumptions C14_pop.
Print Assumptions C14_data_is_items_then_trailing.
Print Assumptions C14_slice_deletion.
Print Assumptions C14_slice_assignment_unit_step.
Print Assumptions C14_slice_assignment_extended_step.
Print Assumptions C14_extend_values.
Print Assumptions C14_extend_with_an_array.
Print Assumptions C14_reverse_items.
Print Assumptions C14_tolist_and_iteration.
Print Assumptions C14_equals_and_copy.
Print Assumptions C14_count_items.

(* ------------------------------------------------------------------------------------------------------------------------------------
   Element-wise operators (ArrayOps.v): the three Python loops _apply_op_to_all_elements(_inplace) / _apply_op_between_arrays /
   _apply_bitwise_op_to_all_elements(_inplace) modelled statement by statement (new_data / failures / index, one try-block per item), for
   ANY item codec (w, dec), result codec (w', build) and operator op : V -> res U (Err e = "raises e").
   step = op on the decoded item, then build, then the len(b) != bitlength check. *)
(* Array op scalar: the whole loop is "map the operator over the items": the first exception that is not ValueError / ZeroDivisionError
   escapes as it is, otherwise any failing item makes the call raise ValueError after the loop, otherwise the result is the concatenation *)
Theorem C14_elementwise_is_map : forall (V U : Type) (w : Z) (dec : bits -> V) (w' : Z) (build : U -> res bits) (op : V -> res U),
  0 < w -> forall d : bits, apply_op V U w dec w' build op d = outcome (map (step V U dec w' build op) (items w d)).
Proof. exact apply_op_char. Qed.
Theorem C14_elementwise_success : forall (V U : Type) (w : Z) (dec : bits -> V) (w' : Z) (build : U -> res bits) (op : V -> res U),
  0 < w -> 0 < w' -> forall d : bits,
  Forall (fun it : bits => exists e : bits, step V U dec w' build op it = Ok e) (items w d) ->
  exists d' : bits, apply_op V U w dec w' build op d = Ok d' /\
    map (step V U dec w' build op) (items w d) = map Ok (items w' d') /\ trailing w' d' = [] /\ arr_len w' d' = arr_len w d /\ zlen d' = arr_len w d * w'.
Proof. exact apply_op_success. Qed.
(* the decoded value of result item i is op of the decoded value of item i *)
Theorem C14_elementwise_values : forall (V U : Type) (w : Z) (dec : bits -> V) (w' : Z) (build : U -> res bits) (op : V -> res U),
  0 < w -> 0 < w' -> forall dec' : bits -> U, (forall (u : U) (b : bits), build u = Ok b -> dec' b = u) -> forall d : bits,
  Forall (fun it : bits => exists e : bits, step V U dec w' build op it = Ok e) (items w d) ->
  exists d' : bits, apply_op V U w dec w' build op d = Ok d' /\ Forall2 (fun it it' : bits => op (dec it) = Ok (dec' it')) (items w d) (items w' d') /\ trailing w' d' = [].
Proof. exact apply_op_values. Qed.
(* "a result that does not fit raises": whichever item it is *)
Theorem C14_elementwise_misfit_raises : forall (V U : Type) (w : Z) (dec : bits -> V) (w' : Z) (build : U -> res bits) (op : V -> res U),
  0 < w -> forall d : bits,
  Forall (fun it : bits => forall ex : exn, step V U dec w' build op it = Err ex -> caught ex = true) (items w d) ->
  Exists (fun it : bits => exists ex : exn, step V U dec w' build op it = Err ex) (items w d) -> apply_op V U w dec w' build op d = Err ValueError.
Proof. exact apply_op_failure. Qed.
(* "a failing in-place operator leaves the Array unchanged", and a succeeding one holds exactly the data of the pure operator *)
Theorem C14_inplace_is_pure_or_nothing : forall (V : Type) (w : Z) (dec : bits -> V) (build : V -> res bits) (op : V -> res V) (d : bits),
  apply_op_inplace V w dec build op d = match apply_op V V w dec w build op d with Ok d' => (d', Ok tt) | Err e => (d, Err e) end.
Proof. exact inplace_is_pure_or_nothing. Qed.
(* Array op Array: different numbers of items raise; otherwise item i meets item i *)
Theorem C14_between_length_mismatch : forall (V1 V2 U : Type) (w1 : Z) (dec1 : bits -> V1) (w2 : Z) (dec2 : bits -> V2) (w3 : Z) (build : U -> res bits)
  (new_type : res unit) (op : V1 -> V2 -> res U) (d1 d2 : bits),
  arr_len w1 d1 <> arr_len w2 d2 -> apply_between V1 V2 U w1 dec1 w2 dec2 w3 build new_type op d1 d2 = Err ValueError.
Proof. exact between_length_mismatch. Qed.
Theorem C14_between_is_zip_map : forall (V1 V2 U : Type) (w1 : Z) (dec1 : bits -> V1) (w2 : Z) (dec2 : bits -> V2) (w3 : Z) (build : U -> res bits)
  (new_type : res unit) (op : V1 -> V2 -> res U), 0 < w1 -> 0 < w2 -> forall d1 d2 : bits, arr_len w1 d1 = arr_len w2 d2 ->
  apply_between V1 V2 U w1 dec1 w2 dec2 w3 build new_type op d1 d2 =
  (do _ <- new_type; outcome (map (step2 V1 V2 U dec1 dec2 w3 build op) (combine (items w1 d1) (items w2 d2)))).
Proof. exact between_char. Qed.
(* comparisons: a bool Array holding the item-wise results; never fails against a scalar *)
Theorem C14_compare_scalar : forall (V : Type) (w : Z) (dec : bits -> V) (cmp : V -> bool) (d : bits), 0 < w ->
  apply_op V bool w dec 1 build_bool (fun v : V => Ok (cmp v)) d = Ok (map (fun it : bits => cmp (dec it)) (items w d)).
Proof. intros. now apply compare_scalar. Qed.
Theorem C14_compare_arrays : forall (V1 V2 : Type) (w1 : Z) (dec1 : bits -> V1) (w2 : Z) (dec2 : bits -> V2) (cmp : V1 -> V2 -> bool) (d1 d2 : bits), 0 < w1 -> 0 < w2 ->
  apply_between V1 V2 bool w1 dec1 w2 dec2 1 build_bool (Ok tt) (fun (a : V1) (b : V2) => Ok (cmp a b)) d1 d2 =
  (if arr_len w1 d1 =? arr_len w2 d2 then Ok (map (fun p : bits * bits => cmp (dec1 (fst p)) (dec2 (snd p))) (combine (items w1 d1) (items w2 d2))) else Err ValueError).
Proof. intros. now apply compare_arrays. Qed.
(* bitwise &= |= ^= with a w-bit value: every item combined with it, trailing bits kept; a value of another length is refused, nothing changed *)
Theorem C14_bitwise_inplace : forall w : Z, 0 < w -> forall (f : bool -> bool -> bool) (value d : bits),
  bitwise_inplace w f value d = (if zlen value =? w then (mk (map (fun it : list bool => map2 f it value) (items w d)) (trailing w d), Ok tt) else (d, Err ValueError)).
Proof. exact bitwise_inplace_spec. Qed.
(* the documented type promotion (Array._promotetype, as repaired by D62): ValueError exactly for a non-numeric dtype; otherwise the higher
   class wins (float > signed int > unsigned int), then the longer one, and a tie goes to the first; one of the two arguments is returned;
   the choice is associative *)
Theorem C14_promotion_defined : forall t1 t2 : dt,
  (numeric t1 /\ numeric t2 -> exists t : dt, promotetype t1 t2 = Ok t) /\ (~ (numeric t1 /\ numeric t2) -> promotetype t1 t2 = Err ValueError).
Proof. exact promote_defined. Qed.
Theorem C14_promotion_rule : forall t1 t2 : dt, numeric t1 -> numeric t2 -> coherent t1 t2 ->
  promotetype t1 t2 = Ok (if rank t1 =? rank t2 then if dt_len t2 >? dt_len t1 then t2 else t1 else if rank t1 >? rank t2 then t1 else t2).
Proof. exact promote_char. Qed.
Theorem C14_promotion_tie_goes_to_the_first : forall t1 t2 : dt, numeric t1 -> numeric t2 -> coherent t1 t2 -> rank t1 = rank t2 -> dt_len t1 = dt_len t2 ->
  promotetype t1 t2 = Ok t1.
Proof. exact promote_tie_first. Qed.
Theorem C14_promotion_associative : forall a b c : dt, numeric a -> numeric b -> numeric c -> coherent a b -> coherent b c -> coherent a c ->
  (do x <- promotetype a b; promotetype x c) = (do y <- promotetype b c; promotetype a y).
Proof. exact promote_assoc. Qed.
Print Assumptions C14_elementwise_is_map.
Print Assumptions C14_elementwise_success.
Print Assumptions C14_elementwise_values.
Print Assumptions C14_elementwise_misfit_raises.
Print Assumptions C14_inplace_is_pure_or_nothing.
Print Assumptions C14_between_length_mismatch.
Print Assumptions C14_between_is_zip_map.
Print Assumptions C14_compare_scalar.
Print Assumptions C14_compare_arrays.
Print Assumptions C14_bitwise_inplace.
Print Assumptions C14_promotion_defined.
Print Assumptions C14_promotion_rule.
Print Assumptions C14_promotion_tie_goes_to_the_first.
Print Assumptions C14_promotion_associative.
