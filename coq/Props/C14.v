(* C14 — Array is a list of fixed-width items over one bit buffer (statements; ArrayProofs.v).
   mk its tr = concat its ++ tr is the abstraction "data = item encodings followed by trailing bits". *)
From BS Require Import Prims BitsCore Mutators SeqProofs ArrayM ArrayProofs ArraySlice.
Open Scope Z_scope.
Theorem C14_len_and_trailing : forall w its tr, 0 < w -> wfA w its tr -> arr_len w (mk its tr) = zlen its /\ trailing w (mk its tr) = tr.
Proof. intros. split; [now apply arr_len_mk|now apply trailing_mk]. Qed.
Theorem C14_index : forall w its tr key, 0 < w -> wfA w its tr ->
  arr_getitem w (mk its tr) key = match pyidx (zlen its) key with Some k => Ok (nth (Z.to_nat k) its []) | None => Err IndexError end.
Proof. intros. now apply getitem_is_list_index. Qed.
Theorem C14_item_assignment : forall w its tr key e, 0 < w -> wfA w its tr -> zlen e = w ->
  arr_setitem w (mk its tr) key e = match pyidx (zlen its) key with Some k => Ok (mk (list_set its (Z.to_nat k) e) tr) | None => Err IndexError end.
Proof. intros. now apply setitem_is_list_assignment. Qed.
Theorem C14_item_deletion : forall w its tr key, 0 < w -> wfA w its tr ->
  arr_delitem w (mk its tr) key = match pyidx (zlen its) key with Some k => Ok (mk (list_del its (Z.to_nat k)) tr) | None => Err IndexError end.
Proof. intros. now apply delitem_is_list_deletion. Qed.
Theorem C14_append : forall w its e, 0 < w -> Forall (fun it : bits => zlen it = w) its -> zlen e = w -> arr_append w (mk its []) e = Ok (mk (its ++ [e]) []).
Proof. intros. now apply append_is_list_append. Qed.
Theorem C14_append_refused_with_trailing_bits : forall w its tr e, 0 < w -> wfA w its tr -> tr <> [] -> arr_append w (mk its tr) e = Err ValueError.
Proof. intros. now apply append_refused_with_trailing_bits. Qed.
Theorem C14_insert : forall w its tr i e, 0 < w -> wfA w its tr -> e <> [] ->
  arr_insert w (mk its tr) i e = Ok (mk (list_ins its (Z.to_nat (Z.min (if i <? 0 then Z.max (i + zlen its) 0 else i) (zlen its))) e) tr).
Proof. intros. now apply insert_is_list_insert. Qed.
(* slicing with ANY key (any start/stop, positive or negative step): the data of a[key] is the concatenation of the Python list slice of the
   items - in particular it carries no trailing bits; a zero step is refused *)
Theorem C14_slicing : forall w its tr k, 0 < w -> wfA w its tr ->
  arr_getslice w (mk its tr) k = res_map (@concat bool) (seq_slice [] its k).
Proof. intros. now apply getslice_is_list_slice. Qed.
Theorem C14_pop : forall w its tr i, 0 < w -> wfA w its tr ->
  arr_pop w (mk its tr) i = match pyidx (zlen its) i with
                            | Some k => Ok (nth (Z.to_nat k) its [], mk (list_del its (Z.to_nat k)) tr)
                            | None => Err IndexError end.
Proof. intros. now apply pop_is_list_pop. Qed.
Example C14_slicing_nonvacuous :
  arr_getslice 2 [true;false; false;true; true;true; false;false; true] (mkslice (Some 3) None (Some (-2))) = Ok [false;false; false;true].
Proof. vm_compute. reflexivity. Qed.
Print Assumptions C14_len_and_trailing.
Print Assumptions C14_index.
Print Assumptions C14_item_assignment.
Print Assumptions C14_item_deletion.
Print Assumptions C14_append.
Print Assumptions C14_append_refused_with_trailing_bits.
Print Assumptions C14_insert.
Print Assumptions C14_slicing.
Print Assumptions C14_pop.
