(* C02 — value <-> bits round trip and canonical encoding (statements; CodecProofs.v).
   enc_uint n v is "the n low bits of v, MSB first" (Prims); floats are tied to struct by the oracle only. *)
From BS Require Import Prims Golomb IntCodec CodecProofs.
Open Scope Z_scope.
Theorem C02_uint : forall n v, 0 < n -> 0 <= v < 2 ^ n ->
  int2bitstore v n false = Ok (enc_uint n v) /\ zlen (enc_uint n v) = n /\ ba2int (enc_uint n v) false = Ok v.
Proof. exact uint_encode. Qed.
Theorem C02_int_twos_complement : forall n v, 0 < n -> - 2 ^ (n - 1) <= v < 2 ^ (n - 1) ->
  int2bitstore v n true = Ok (enc_uint n (v mod 2 ^ n)) /\ zlen (enc_uint n (v mod 2 ^ n)) = n /\ ba2int (enc_uint n (v mod 2 ^ n)) true = Ok v.
Proof. exact int_encode. Qed.
Theorem C02_every_pattern_is_a_canonical_uint : forall b, b <> [] ->
  exists v, ba2int b false = Ok v /\ 0 <= v < 2 ^ zlen b /\ enc_uint (zlen b) v = b.
Proof. exact uint_decode_encode. Qed.
Theorem C02_little_endian_is_byte_reversed_big_endian : forall v n signed b, int2bitstore v n signed = Ok b ->
  intle2bitstore v n signed = Ok (frombytes (rev (tobytes b))).
Proof. exact le_is_byte_reversed_be. Qed.
Theorem C02_bytes_roundtrip : forall l, bytes_ok l -> tobytes (frombytes l) = l.
Proof. exact tobytes_frombytes. Qed.
Print Assumptions C02_uint.
Print Assumptions C02_int_twos_complement.
Print Assumptions C02_every_pattern_is_a_canonical_uint.
Print Assumptions C02_little_endian_is_byte_reversed_big_endian.
Print Assumptions C02_bytes_roundtrip.
