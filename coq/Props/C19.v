(* C19 — printable forms (statements; PrintProofs.v, PrintPP.v). *)
From BS Require Import Prims IntCodec Print PrintProofs PrintPP.
Open Scope Z_scope.
Theorem C19_str_roundtrip : forall b : bits, zlen b <= MAX_CHARS * 4 -> parse_parts (str_parts b) = b /\ p_truncated (str_parts b) = false.
Proof. exact str_roundtrip. Qed.
Theorem C19_str_truncation : forall b : bits, zlen b > MAX_CHARS * 4 ->
  p_truncated (str_parts b) = true /\ parse_parts (str_parts b) = firstn (Z.to_nat (MAX_CHARS * 4)) b.
Proof. exact str_truncated. Qed.
(* pp(): the line layout arithmetic of Bits._pp (bits per line, characters per line; compared with the implementation on every run).
   A full line is wider than `width` only when it holds a single unit (one group; ungrouped: one character, or 24 bits for two formats),
   and a line never splits a group. *)
Theorem C19_pp_line_within_width : forall a, args_ok a -> unit_bits a < max_bits_per_line a -> line_chars a (max_bits_per_line a) <= pp_width a.
Proof. exact line_within_width. Qed.
Theorem C19_pp_never_splits_a_group : forall a, 0 < pp_group a -> max_bits_per_line a mod pp_group a = 0.
Proof. exact line_holds_whole_groups. Qed.
Theorem C19_pp_makes_progress : forall a, args_ok a -> 0 < max_bits_per_line a.
Proof. exact max_bits_positive. Qed.
Example C19_pp_nonvacuous : let a := mkpp 480 1 (Some 4) 0 60 1 false in
  args_ok a /\ max_bits_per_line a = 24 /\ line_chars a 24 = 33 /\ unit_bits a = 24.
Proof. unfold args_ok, bpc_ok. cbn. repeat split; try lia; auto. Qed.
Print Assumptions C19_str_roundtrip.
Print Assumptions C19_str_truncation.
Print Assumptions C19_pp_line_within_width.
Print Assumptions C19_pp_never_splits_a_group.
Print Assumptions C19_pp_makes_progress.
