(* C19 — printable forms (statements; PrintProofs.v). pp layout is oracle-checked only (partial). *)
From BS Require Import Prims IntCodec Print PrintProofs.
Open Scope Z_scope.
Theorem C19_str_roundtrip : forall b : bits, zlen b <= MAX_CHARS * 4 -> parse_parts (str_parts b) = b /\ p_truncated (str_parts b) = false.
Proof. exact str_roundtrip. Qed.
Theorem C19_str_truncation : forall b : bits, zlen b > MAX_CHARS * 4 ->
  p_truncated (str_parts b) = true /\ parse_parts (str_parts b) = firstn (Z.to_nat (MAX_CHARS * 4)) b.
Proof. exact str_truncated. Qed.
Print Assumptions C19_str_roundtrip.
Print Assumptions C19_str_truncation.
