(* C19 — printable forms (statements; PrintProofs.v, PrintPP.v). *)
From BS Require Import Prims IntCodec Print PrintProofs PrintPP PPDigits.
Open Scope Z_scope.
Theorem C19_str_roundtrip : forall b : bits, zlen b <= MAX_CHARS * 4 -> parse_parts (str_parts b) = b /\ p_truncated (str_parts b) = false.
Proof. exact str_roundtrip. Qed.
Theorem C19_str_truncation : forall b : bits, zlen b > MAX_CHARS * 4 ->
  p_truncated (str_parts b) = true /\ parse_parts (str_parts b) = firstn (Z.to_nat (MAX_CHARS * 4)) b.
Proof. exact str_truncated. Qed.
(* pp(): the line layout arithmetic of Bits._pp (bits per line, characters per line; compared with the implementation on every run).
   A full line is wider than `width` only when it holds a single unit (one group; ungrouped: one character, or 24 bits for two formats),
   and a line never splits a group. *)
Theorem C19_pp_line_within_width : forall a, args_ok a -> unit_bits a < max_bits_per_line a -> line_chars a (max_bits_per_line a) <= pp_width a.
Proof. exact line_within_width. Qed.
Theorem C19_pp_never_splits_a_group : forall a, 0 < pp_group a -> max_bits_per_line a mod pp_group a = 0.
Proof. exact line_holds_whole_groups. Qed.
Theorem C19_pp_makes_progress : forall a, args_ok a -> 0 < max_bits_per_line a.
Proof. exact max_bits_positive. Qed.
Example C19_pp_nonvacuous : let a := mkpp 480 1 (Some 4) 0 60 1 false in
  args_ok a /\ max_bits_per_line a = 24 /\ line_chars a 24 = 33 /\ unit_bits a = 24.
Proof. unfold args_ok, bpc_ok. cbn. repeat split; try lia; auto. Qed.
(* pp() with ONE bin / oct / hex format whose group length is given (PPDigits.pp models what is printed as data: lines of groups of digit values):
   the call is accepted exactly for a non-negative group length that is a multiple of the bits per digit (ungrouped: when the data is a whole number of
   digits), else ValueError; the digits of all groups of all lines, decoded in order, are exactly the data without the reported trailing bits, and
   data = digits ++ trailing bits; no group is split (each shows exactly `group` bits); every line but the last shows exactly max_bits_per_line bits, the
   last between 1 and that, there is no empty line; every line fits in `width` unless it holds a single unit. Under lsb0 the shape is that of the msb0 output
   of the reversed data and the trailing bits are the first stored bits. *)
Theorem C19_pp_accepted_calls : forall f group width seplen off d,
  (accepted f group d -> exists out, pp false f group width seplen off d = Ok out) /\
  (~ accepted f group d -> pp false f group width seplen off d = Err ValueError).
Proof. exact pp_accepts. Qed.
Theorem C19_pp_prints_exactly_the_digits_of_the_data : forall f group width seplen off d out,
  pp false f group width seplen off d = Ok out ->
  let t := trailing_len group d in
  decode f (out_lines out) = firstn (Z.to_nat (zlen d - t)) d /\
  out_trailing out = skipn (Z.to_nat (zlen d - t)) d /\
  d = decode f (out_lines out) ++ out_trailing out /\
  zlen (out_trailing out) = t /\ 0 <= t <= zlen d /\ (0 < group -> t < group) /\ (group = 0 -> t = 0).
Proof. exact pp_digits_are_the_data. Qed.
Theorem C19_pp_groups_are_whole : forall f group width seplen off d out,
  pp false f group width seplen off d = Ok out -> forall l, In l (out_lines out) ->
  (0 < group -> Forall (fun ds => group_bits f ds = group /\ zlen ds = group / bpc f) l /\ line_bits f l = zlen l * group) /\
  (group = 0 -> exists ds, l = [ds]) /\
  Forall (Forall (fun x => 0 <= x < 2 ^ bpc f)) l.
Proof. exact pp_groups_whole. Qed.
Theorem C19_pp_line_lengths : forall f group width seplen off d out,
  pp false f group width seplen off d = Ok out ->
  let m := pp_m f group width seplen off d in
  0 < m /\ full_then_last m (map (line_bits f) (out_lines out)) /\
  (forall i, (i < length (out_lines out))%nat ->
     0 < line_bits f (nth i (out_lines out) []) <= m /\
     ((S i < length (out_lines out))%nat -> line_bits f (nth i (out_lines out) []) = m)) /\
  (out_lines out = [] <-> zlen d < Z.max group 1).
Proof. exact pp_line_lengths. Qed.
Theorem C19_pp_lines_fit : forall f group width seplen off d out,
  pp false f group width seplen off d = Ok out -> forall l, In l (out_lines out) ->
  let a := pp_a f group width seplen off d in
  let m := pp_m f group width seplen off d in
  line_width a l = line_chars a (line_bits f l) /\ (unit_bits a < m -> line_width a l <= width) /\
  unit_bits a <= m /\ (unit_bits a = m -> line_bits f l = unit_bits a).
Proof. exact pp_lines_fit. Qed.
Theorem C19_pp_under_lsb0 : forall f group width seplen off d, accepted f group d ->
  exists out out', pp true f group width seplen off d = Ok out /\ pp false f group width seplen off (rev d) = Ok out' /\
  d = out_trailing out ++ rev (decode_lsb0 f (out_lines out)) /\
  zlen (out_trailing out) = trailing_len group d /\
  map (map zlen) (out_lines out) = map (map zlen) (out_lines out') /\
  pp_m f group width seplen off (rev d) = pp_m f group width seplen off d /\
  pp_a f group width seplen off (rev d) = pp_a f group width seplen off d.
Proof. exact pp_lsb0. Qed.
Print Assumptions C19_str_roundtrip.
Print Assumptions C19_str_truncation.
Print Assumptions C19_pp_line_within_width.
Print Assumptions C19_pp_never_splits_a_group.
Print Assumptions C19_pp_makes_progress.
Print Assumptions C19_pp_accepted_calls.
Print Assumptions C19_pp_prints_exactly_the_digits_of_the_data.
Print Assumptions C19_pp_groups_are_whole.
Print Assumptions C19_pp_line_lengths.
Print Assumptions C19_pp_lines_fit.
Print Assumptions C19_pp_under_lsb0.
