(* C01 — every bitstring behaves as the Python sequence of its bits.
   Spec side: Prims.seq_getitem / seq_slice / ++ / rep (Python list semantics; seq_slice is itself
   compared with real Python str slicing exhaustively by the L0 correspondence).
   Model side: BitsCore (mirrors Bits.__getitem__, __add__/__radd__ with its copy-the-longer branch,
   __mul__/_imul with the doubling loop, BitStore.__iter__, __len__, __bool__). *)
From BS Require Import Prims BitsCore SeqProofs.
Open Scope Z_scope.

Theorem C01_getitem_is_sequence_indexing : forall b i, bs_getitem_int false b i = seq_getitem b i.
Proof. reflexivity. Qed.

Theorem C01_getitem_out_of_range : forall (b : bits) i, (i < - zlen b \/ zlen b <= i) -> bs_getitem_int false b i = Err IndexError.
Proof. exact getitem_out_of_range. Qed.

Theorem C01_getslice_is_sequence_slicing : forall b k, bs_getitem_slice false b k = seq_slice false b k.
Proof. reflexivity. Qed.

(* contiguous in-range slices are the obvious sub-list (sanity link between the two spec styles) *)
Theorem C01_contiguous_slice : forall (b : bits) s e, 0 <= s -> s <= e -> e <= zlen b ->
  bs_getitem_slice false b (mkslice (Some s) (Some e) None) = Ok (firstn (Z.to_nat (e - s)) (skipn (Z.to_nat s) b)).
Proof. intros. apply seq_slice_unit; assumption. Qed.

(* + copies whichever operand is longer and extends it on the correct side: always a ++ b *)
Theorem C01_add : forall a b, bs_add a b = a ++ b.
Proof. exact add_refines. Qed.
Theorem C01_radd : forall a b, bs_radd a b = b ++ a.
Proof. exact radd_refines. Qed.

(* the result of + has the class of the left operand, whatever the right operand is *)
Theorem C01_add_class : forall self other l1 l2, bs_add_class self other l1 l2 = self.
Proof. exact add_class_is_left. Qed.

(* * n : the doubling loop followed by the final slice yields exactly n copies, for every n >= 0 *)
Theorem C01_mul : forall b n, 0 <= n -> bs_mul false b n = Ok (rep b (Z.to_nat n)).
Proof. exact mul_refines. Qed.
Theorem C01_mul_negative : forall lsb0 b n, n < 0 -> bs_mul lsb0 b n = Err ValueError.
Proof. exact mul_negative. Qed.

(* iteration yields the bits in order; len and truth value *)
Theorem C01_iter : forall b, bs_iter false b = Ok b.
Proof. exact iter_refines. Qed.
Theorem C01_len_bool : forall b : bits, bs_len b = Z.of_nat (length b) /\ (bs_bool b = true <-> b <> []).
Proof. exact len_bool. Qed.

Example C01_nonvacuous :
  bs_mul false [true;false] 5 = Ok [true;false;true;false;true;false;true;false;true;false] /\
  bs_getitem_slice false [true;false;false;true;true] (mkslice (Some 4) None (Some (-2))) = Ok [true;false;true].
Proof. vm_compute. split; reflexivity. Qed.

Print Assumptions C01_getitem_is_sequence_indexing.
Print Assumptions C01_getitem_out_of_range.
Print Assumptions C01_getslice_is_sequence_slicing.
Print Assumptions C01_contiguous_slice.
Print Assumptions C01_add.
Print Assumptions C01_radd.
Print Assumptions C01_add_class.
Print Assumptions C01_mul.
Print Assumptions C01_mul_negative.
Print Assumptions C01_iter.
Print Assumptions C01_len_bool.
