(* C07 — search, split and count equal the brute-force definition (statements; see SearchProofs.v). *)
From BS Require Import Prims BitsCore Search SearchProofs.
Open Scope Z_scope.

Theorem C07_general_path_is_brute_force : forall d p s e ba,
  negb (ba && (zlen p mod 8 =? 0)) = true ->
  findall_store_msb0 d p s e ba = Ok (spec_matches d p s e ba).
Proof. exact general_path_spec. Qed.

Theorem C07_find_is_lowest : forall d p s e, ba_find d p s e = match spec_matches d p s e false with [] => -1 | q :: _ => q end.
Proof. exact ba_find_spec. Qed.

Theorem C07_empty_pattern_rejected : forall lsb0 d start stop count ba,
  bs_find lsb0 d [] start stop ba = Err ValueError /\
  (forall c, count = Some c -> 0 <= c -> bs_findall lsb0 d [] start stop count ba = Err ValueError) /\
  bs_findall lsb0 d [] start stop None ba = Err ValueError /\
  bs_split lsb0 d [] start stop count ba = Err ValueError.
Proof. exact empty_pattern_rejected. Qed.

Theorem C07_count : forall d, bs_count d true + bs_count d false = zlen d.
Proof. exact count_total. Qed.

Print Assumptions C07_general_path_is_brute_force.
Print Assumptions C07_find_is_lowest.
Print Assumptions C07_empty_pattern_rejected.
Print Assumptions C07_count.
