(* C07 — search, split and count equal the brute-force definition (statements; see SearchProofs.v). *)
From BS Require Import Prims BitsCore Search SeqProofs SearchProofs FastPath SearchTop SplitProofs ReplaceProofs.
From Coq Require Import String.
Open Scope Z_scope.

Theorem C07_general_path_is_brute_force : forall d p s e ba,
  negb (ba && (zlen p mod 8 =? 0)) = true ->
  findall_store_msb0 d p s e ba = Ok (spec_matches d p s e ba).
Proof. exact general_path_spec. Qed.

Theorem C07_find_is_lowest : forall d p s e, ba_find d p s e = match spec_matches d p s e false with [] => -1 | q :: _ => q end.
Proof. exact ba_find_spec. Qed.

Theorem C07_empty_pattern_rejected : forall lsb0 d start stop count ba,
  bs_find lsb0 d [] start stop ba = Err ValueError /\
  (forall c, count = Some c -> 0 <= c -> bs_findall lsb0 d [] start stop count ba = Err ValueError) /\
  bs_findall lsb0 d [] start stop None ba = Err ValueError /\
  bs_split lsb0 d [] start stop count ba = Err ValueError.
Proof. exact empty_pattern_rejected. Qed.

Theorem C07_count : forall d, bs_count d true + bs_count d false = zlen d.
Proof. exact count_total. Qed.

(* the byte fast path (bytes.find over tobytes() of the byte window) returns exactly the byte-aligned brute-force matches,
   overlapping ones included; so both paths of BitStore.findall_msb0 meet one specification *)
Theorem C07_fast_path_is_brute_force : forall d p s e, p <> [] -> zlen p mod 8 = 0 -> 0 <= s -> s <= e -> e <= zlen d ->
  findall_fast d p s e = Ok (spec_matches d p s e true).
Proof. exact fast_path_spec. Qed.
Theorem C07_store_findall : forall d p s e ba, p <> [] -> 0 <= s -> s <= e -> e <= zlen d ->
  findall_store_msb0 d p s e ba = Ok (spec_matches d p s e ba).
Proof. exact findall_store_spec. Qed.
(* the public entry points under msb0, for every start/end accepted by _validate_slice, every count and either alignment *)
Theorem C07_findall : forall d p start stop count ba s e, p <> [] -> count_ok count -> validate_slice d start stop = Ok (s, e) ->
  bs_findall false d p start stop count ba = Ok (take_count count (spec_matches d p s e ba)).
Proof. exact findall_spec. Qed.
Theorem C07_find : forall d p start stop ba s e, p <> [] -> validate_slice d start stop = Ok (s, e) ->
  bs_find false d p start stop ba = Ok (head_opt (spec_matches d p s e ba)).
Proof. exact find_spec. Qed.
Theorem C07_rfind : forall d p start stop ba s e, p <> [] -> validate_slice d start stop = Ok (s, e) ->
  bs_rfind false d p start stop ba = Ok (last_opt (spec_matches d p s e ba)).
Proof. exact rfind_spec. Qed.
Theorem C07_contains : forall d p, p <> [] ->
  bs_contains false d p = Ok (match spec_matches d p 0 (zlen d) false with [] => false | _ => true end).
Proof. exact contains_spec. Qed.
Theorem C07_findall_sound_and_complete : forall d p start stop ba s e l,
  p <> [] -> validate_slice d start stop = Ok (s, e) -> bs_findall false d p start stop None ba = Ok l ->
  forall q, In q l <-> (s <= q /\ q + zlen p <= e /\ sub d q (q + zlen p) = p /\ (ba = true -> q mod 8 = 0)).
Proof. exact findall_sound_complete. Qed.
(* split(delimiter): the pieces partition the window - they concatenate to d[start:end] - and every piece after the first begins with
   the delimiter (successive non-overlapping occurrences from the left) *)
Theorem C07_split_partitions_the_window : forall d p start stop ba s e, p <> [] -> validate_slice d start stop = Ok (s, e) ->
  exists pieces, bs_split false d p start stop None ba = Ok pieces /\ List.concat pieces = sub d s e.
Proof. exact split_partitions_window. Qed.
Theorem C07_split_pieces_begin_with_the_delimiter : forall d p start stop ba s e pieces, p <> [] -> validate_slice d start stop = Ok (s, e) ->
  bs_split false d p start stop None ba = Ok pieces ->
  match pieces with [] => False | _ :: rest => Forall (fun x => firstn (List.length p) x = p) rest end.
Proof. exact split_pieces_begin_with_delimiter. Qed.
(* replace(old, new, start, end, count): the replaced positions are occurrences of `old` inside the window with the alignment asked for,
   increasing and non-overlapping (each at least |old| after the previous one), at most `count`; the result is `new` spliced in at exactly those
   positions and the return value their number *)
Theorem C07_replace : forall d old new_ start stop count ba s e, old <> [] -> count_ok count -> validate_slice d start stop = Ok (s, e) ->
  exists ps,
    ba_replace false d old new_ start stop count ba = Ok ((if zlen ps =? 0 then d else splice d new_ (zlen old) 0 ps), zlen ps) /\
    chain (zlen old) s e ps /\
    (forall x, In x ps -> In x (spec_matches d old s e ba)) /\
    (match count with Some c => zlen ps <= c | None => True end).
Proof. exact replace_spec. Qed.
Theorem C07_replace_length_and_frame : forall d old new_ start stop count ba s e r n, old <> [] -> count_ok count -> validate_slice d start stop = Ok (s, e) ->
  ba_replace false d old new_ start stop count ba = Ok (r, n) ->
  zlen r = zlen d + n * (zlen new_ - zlen old) /\ (exists X, r = sub d 0 s ++ X) /\ (exists X, r = X ++ sub d e (zlen d)).
Proof. exact replace_length_and_frame. Qed.
Example C07_replace_nonvacuous : ba_replace false (of01 "1110110"%string) (of01 "11"%string) (of01 "00"%string) None None (Some 2) false = Ok (of01 "0010000"%string, 2).
Proof. vm_compute. reflexivity. Qed.
Example C07_overlapping_byte_matches : findall_fast (of01 "000000000000000000000000"%string) (of01 "0000000000000000"%string) 0 24 = Ok [0; 8].
Proof. vm_compute. reflexivity. Qed.
Print Assumptions C07_general_path_is_brute_force.
Print Assumptions C07_find_is_lowest.
Print Assumptions C07_empty_pattern_rejected.
Print Assumptions C07_count.
Print Assumptions C07_fast_path_is_brute_force.
Print Assumptions C07_store_findall.
Print Assumptions C07_findall.
Print Assumptions C07_find.
Print Assumptions C07_rfind.
Print Assumptions C07_contains.
Print Assumptions C07_findall_sound_and_complete.
Print Assumptions C07_split_partitions_the_window.
Print Assumptions C07_split_pieces_begin_with_the_delimiter.
Print Assumptions C07_replace.
Print Assumptions C07_replace_length_and_frame.
