(* C07 — search, split and count equal the brute-force definition (statements; see SearchProofs.v). *)
From BS Require Import Prims BitsCore Search SeqProofs SearchProofs FastPath SearchTop SplitProofs ReplaceProofs CutProofs.
From Coq Require Import String.
Open Scope Z_scope.

Theorem C07_general_path_is_brute_force : forall d p s e ba,
  negb (ba && (zlen p mod 8 =? 0)) = true ->
  findall_store_msb0 d p s e ba = Ok (spec_matches d p s e ba).
Proof. exact general_path_spec. Qed.

Theorem C07_find_is_lowest : forall d p s e, ba_find d p s e = match spec_matches d p s e false with [] => -1 | q :: _ => q end.
Proof. exact ba_find_spec. Qed.

Theorem C07_empty_pattern_rejected : forall lsb0 d start stop count ba,
  bs_find lsb0 d [] start stop ba = Err ValueError /\
  (forall c, count = Some c -> 0 <= c -> bs_findall lsb0 d [] start stop count ba = Err ValueError) /\
  bs_findall lsb0 d [] start stop None ba = Err ValueError /\
  bs_split lsb0 d [] start stop count ba = Err ValueError.
Proof. exact empty_pattern_rejected. Qed.

Theorem C07_count : forall d, bs_count d true + bs_count d false = zlen d.
Proof. exact count_total. Qed.

(* the byte fast path (bytes.find over tobytes() of the byte window) returns exactly the byte-aligned brute-force matches,
   overlapping ones included; so both paths of BitStore.findall_msb0 meet one specification *)
Theorem C07_fast_path_is_brute_force : forall d p s e, p <> [] -> zlen p mod 8 = 0 -> 0 <= s -> s <= e -> e <= zlen d ->
  findall_fast d p s e = Ok (spec_matches d p s e true).
Proof. exact fast_path_spec. Qed.
Theorem C07_store_findall : forall d p s e ba, p <> [] -> 0 <= s -> s <= e -> e <= zlen d ->
  findall_store_msb0 d p s e ba = Ok (spec_matches d p s e ba).
Proof. exact findall_store_spec. Qed.
(* the public entry points under msb0, for every start/end accepted by _validate_slice, every count and either alignment *)
Theorem C07_findall : forall d p start stop count ba s e, p <> [] -> count_ok count -> validate_slice d start stop = Ok (s, e) ->
  bs_findall false d p start stop count ba = Ok (take_count count (spec_matches d p s e ba)).
Proof. exact findall_spec. Qed.
Theorem C07_find : forall d p start stop ba s e, p <> [] -> validate_slice d start stop = Ok (s, e) ->
  bs_find false d p start stop ba = Ok (head_opt (spec_matches d p s e ba)).
Proof. exact find_spec. Qed.
Theorem C07_rfind : forall d p start stop ba s e, p <> [] -> validate_slice d start stop = Ok (s, e) ->
  bs_rfind false d p start stop ba = Ok (last_opt (spec_matches d p s e ba)).
Proof. exact rfind_spec. Qed.
Theorem C07_contains : forall d p, p <> [] ->
  bs_contains false d p = Ok (match spec_matches d p 0 (zlen d) false with [] => false | _ => true end).
Proof. exact contains_spec. Qed.
Theorem C07_findall_sound_and_complete : forall d p start stop ba s e l,
  p <> [] -> validate_slice d start stop = Ok (s, e) -> bs_findall false d p start stop None ba = Ok l ->
  forall q, In q l <-> (s <= q /\ q + zlen p <= e /\ sub d q (q + zlen p) = p /\ (ba = true -> q mod 8 = 0)).
Proof. exact findall_sound_complete. Qed.
(* split(delimiter): the pieces partition the window - they concatenate to d[start:end] - and every piece after the first begins with
   the delimiter (successive non-overlapping occurrences from the left) *)
Theorem C07_split_partitions_the_window : forall d p start stop ba s e, p <> [] -> validate_slice d start stop = Ok (s, e) ->
  exists pieces, bs_split false d p start stop None ba = Ok pieces /\ List.concat pieces = sub d s e.
Proof. exact split_partitions_window. Qed.
Theorem C07_split_pieces_begin_with_the_delimiter : forall d p start stop ba s e pieces, p <> [] -> validate_slice d start stop = Ok (s, e) ->
  bs_split false d p start stop None ba = Ok pieces ->
  match pieces with [] => False | _ :: rest => Forall (fun x => firstn (List.length p) x = p) rest end.
Proof. exact split_pieces_begin_with_delimiter. Qed.
(* replace(old, new, start, end, count): the replaced positions are occurrences of `old` inside the window with the alignment asked for,
   increasing and non-overlapping (each at least |old| after the previous one), at most `count`; the result is `new` spliced in at exactly those
   positions and the return value their number *)
Theorem C07_replace : forall d old new_ start stop count ba s e, old <> [] -> count_ok count -> validate_slice d start stop = Ok (s, e) ->
  exists ps,
    ba_replace false d old new_ start stop count ba = Ok ((if zlen ps =? 0 then d else splice d new_ (zlen old) 0 ps), zlen ps) /\
    chain (zlen old) s e ps /\
    (forall x, In x ps -> In x (spec_matches d old s e ba)) /\
    (match count with Some c => zlen ps <= c | None => True end).
Proof. exact replace_spec. Qed.
Theorem C07_replace_length_and_frame : forall d old new_ start stop count ba s e r n, old <> [] -> count_ok count -> validate_slice d start stop = Ok (s, e) ->
  ba_replace false d old new_ start stop count ba = Ok (r, n) ->
  zlen r = zlen d + n * (zlen new_ - zlen old) /\ (exists X, r = sub d 0 s ++ X) /\ (exists X, r = X ++ sub d e (zlen d)).
Proof. exact replace_length_and_frame. Qed.
Example C07_replace_nonvacuous : ba_replace false (of01 "1110110"%string) (of01 "11"%string) (of01 "00"%string) None None (Some 2) false = Ok (of01 "0010000"%string, 2).
Proof. vm_compute. reflexivity. Qed.
Example C07_overlapping_byte_matches : findall_fast (of01 "000000000000000000000000"%string) (of01 "0000000000000000"%string) 0 24 = Ok [0; 8].
Proof. vm_compute. reflexivity. Qed.
(* cut(bits, start, end, count): exactly the successive n-bit chunks of the window, min(count, ceil((end-start)/n)) of them; no empty piece, every piece but
   the last has n bits; their concatenation is a prefix of the window (all of it without a limiting count); the error clauses *)
Theorem C07_cut : forall d n start stop count s e, validate_slice d start stop = Ok (s, e) -> 0 < n -> count_ok count ->
  bs_cut false d n start stop count = Ok (pieces_of (Z.to_nat (cut_count count (e - s) n)) d n s e).
Proof. exact cut_spec. Qed.
Theorem C07_cut_piece_lengths : forall d n count s e i, 0 <= s -> s <= e -> e <= zlen d -> 0 < n -> 0 <= i < cut_count count (e - s) n ->
  zlen (piece d n s e i) = Z.min n (e - s - i * n) /\ 0 < zlen (piece d n s e i) <= n /\ (i + 1 < cut_count count (e - s) n -> zlen (piece d n s e i) = n).
Proof. exact cut_piece_lengths. Qed.
Theorem C07_cut_concat : forall d n start stop count s e pieces, validate_slice d start stop = Ok (s, e) -> 0 < n -> count_ok count ->
  bs_cut false d n start stop count = Ok pieces ->
  List.concat pieces = sub d s (Z.min (s + cut_count count (e - s) n * n) e) /\
  (match count with None => True | Some k => cdiv (e - s) n <= k end -> List.concat pieces = sub d s e).
Proof. exact cut_concat. Qed.
Theorem C07_cut_errors : forall lsb0 d n start stop count,
  (n <= 0 -> bs_cut lsb0 d n start stop count = Err ValueError) /\
  (forall c, count = Some c -> c < 0 -> bs_cut lsb0 d n start stop count = Err ValueError) /\
  (validate_slice d start stop = Err ValueError -> bs_cut lsb0 d n start stop count = Err ValueError).
Proof. exact cut_errors. Qed.
(* startswith / endswith: true exactly when the pattern fits in the window and equals its first / last |p| bits; equivalently the window start
   (end - |p|) is one of the brute-force occurrences *)
Theorem C07_startswith : forall d p start stop s e, validate_slice d start stop = Ok (s, e) ->
  exists b, bs_startswith false d p start stop = Ok b /\ (b = true <-> (s + zlen p <= e /\ sub d s (s + zlen p) = p)).
Proof. exact startswith_spec. Qed.
Theorem C07_endswith : forall d p start stop s e, validate_slice d start stop = Ok (s, e) ->
  exists b, bs_endswith false d p start stop = Ok b /\ (b = true <-> (s + zlen p <= e /\ sub d (e - zlen p) e = p)).
Proof. exact endswith_spec. Qed.
Theorem C07_startswith_endswith_are_occurrences : forall d p start stop s e, validate_slice d start stop = Ok (s, e) ->
  (bs_startswith false d p start stop = Ok true <-> In s (spec_matches d p s e false)) /\
  (bs_endswith false d p start stop = Ok true <-> In (e - zlen p) (spec_matches d p s e false)).
Proof. exact startswith_endswith_matches. Qed.
(* count(v) is the number of positions holding v *)
Theorem C07_count_is_the_number_of_positions : forall d v,
  bs_count d v = zlen (filter (fun i => Bool.eqb v (znth false d i)) (zrange 0 (zlen d))) /\
  bs_count d v = zlen (filter (Bool.eqb v) d) /\ 0 <= bs_count d v <= zlen d.
Proof. exact count_spec. Qed.
(* split with a count = the first `count` pieces of the split without one (either mode); and the pieces are EXACTLY the slices between the window start,
   the greedy chain of non-overlapping (aligned) occurrences - the unique selection in which every occurrence is a cut point or overlaps an earlier one -
   and the window end *)
Theorem C07_split_count_is_a_prefix : forall lsb0 d p start stop c ba all,
  bs_split lsb0 d p start stop None ba = Ok all -> 0 <= c -> bs_split lsb0 d p start stop (Some c) ba = Ok (firstn (Z.to_nat c) all).
Proof. exact split_count_prefix. Qed.
Theorem C07_split_exact : forall d p start stop count ba s e, p <> [] -> validate_slice d start stop = Ok (s, e) -> count_ok count ->
  bs_split false d p start stop count ba = Ok (take_count count (between d s (cuts d p s e ba) e)).
Proof. exact split_exact. Qed.
Theorem C07_split_cuts_are_the_greedy_chain : forall d p s e ba, p <> [] ->
  greedy_selection (zlen p) s e (spec_matches d p s e ba) (cuts d p s e ba) /\
  (forall cs, greedy_selection (zlen p) s e (spec_matches d p s e ba) cs -> cs = cuts d p s e ba).
Proof. exact cuts_greedy. Qed.
Theorem C07_contains_iff : forall d p, p <> [] ->
  exists b, bs_contains false d p = Ok b /\ (b = true <-> exists q, 0 <= q /\ q + zlen p <= zlen d /\ sub d q (q + zlen p) = p).
Proof. exact contains_iff. Qed.
Example C07_split_exact_nonvacuous :
  let d := [true;true;true;true;false;true;true;true] in
  spec_matches d [true;true] 0 8 false = [0; 1; 2; 5; 6] /\ cuts d [true;true] 0 8 false = [0; 2; 5] /\
  bs_split false d [true;true] None None None false = Ok [[]; [true;true]; [true;true;false]; [true;true;true]].
Proof. exact split_exact_example. Qed.
Print Assumptions C07_general_path_is_brute_force.
Print Assumptions C07_find_is_lowest.
Print Assumptions C07_empty_pattern_rejected.
Print Assumptions C07_count.
Print Assumptions C07_fast_path_is_brute_force.
Print Assumptions C07_store_findall.
Print Assumptions C07_findall.
Print Assumptions C07_find.
Print Assumptions C07_rfind.
Print Assumptions C07_contains.
Print Assumptions C07_findall_sound_and_complete.
Print Assumptions C07_split_partitions_the_window.
Print Assumptions C07_split_pieces_begin_with_the_delimiter.
Print Assumptions C07_replace.
Print Assumptions C07_replace_length_and_frame.
Print Assumptions C07_cut.
Print Assumptions C07_cut_piece_lengths.
Print Assumptions C07_cut_concat.
Print Assumptions C07_cut_errors.
Print Assumptions C07_startswith.
Print Assumptions C07_endswith.
Print Assumptions C07_startswith_endswith_are_occurrences.
Print Assumptions C07_count_is_the_number_of_positions.
Print Assumptions C07_split_count_is_a_prefix.
Print Assumptions C07_split_exact.
Print Assumptions C07_split_cuts_are_the_greedy_chain.
Print Assumptions C07_contains_iff.
