(* C07 — search, split and count equal the brute-force definition (statements; see SearchProofs.v). *)
From BS Require Import Prims BitsCore Search SearchProofs FastPath SearchTop.
From Coq Require Import String.
Open Scope Z_scope.

Theorem C07_general_path_is_brute_force : forall d p s e ba,
  negb (ba && (zlen p mod 8 =? 0)) = true ->
  findall_store_msb0 d p s e ba = Ok (spec_matches d p s e ba).
Proof. exact general_path_spec. Qed.

Theorem C07_find_is_lowest : forall d p s e, ba_find d p s e = match spec_matches d p s e false with [] => -1 | q :: _ => q end.
Proof. exact ba_find_spec. Qed.

Theorem C07_empty_pattern_rejected : forall lsb0 d start stop count ba,
  bs_find lsb0 d [] start stop ba = Err ValueError /\
  (forall c, count = Some c -> 0 <= c -> bs_findall lsb0 d [] start stop count ba = Err ValueError) /\
  bs_findall lsb0 d [] start stop None ba = Err ValueError /\
  bs_split lsb0 d [] start stop count ba = Err ValueError.
Proof. exact empty_pattern_rejected. Qed.

Theorem C07_count : forall d, bs_count d true + bs_count d false = zlen d.
Proof. exact count_total. Qed.

(* the byte fast path (bytes.find over tobytes() of the byte window) returns exactly the byte-aligned brute-force matches,
   overlapping ones included; so both paths of BitStore.findall_msb0 meet one specification *)
Theorem C07_fast_path_is_brute_force : forall d p s e, p <> [] -> zlen p mod 8 = 0 -> 0 <= s -> s <= e -> e <= zlen d ->
  findall_fast d p s e = Ok (spec_matches d p s e true).
Proof. exact fast_path_spec. Qed.
Theorem C07_store_findall : forall d p s e ba, p <> [] -> 0 <= s -> s <= e -> e <= zlen d ->
  findall_store_msb0 d p s e ba = Ok (spec_matches d p s e ba).
Proof. exact findall_store_spec. Qed.
(* the public entry points under msb0, for every start/end accepted by _validate_slice, every count and either alignment *)
Theorem C07_findall : forall d p start stop count ba s e, p <> [] -> count_ok count -> validate_slice d start stop = Ok (s, e) ->
  bs_findall false d p start stop count ba = Ok (take_count count (spec_matches d p s e ba)).
Proof. exact findall_spec. Qed.
Theorem C07_find : forall d p start stop ba s e, p <> [] -> validate_slice d start stop = Ok (s, e) ->
  bs_find false d p start stop ba = Ok (head_opt (spec_matches d p s e ba)).
Proof. exact find_spec. Qed.
Theorem C07_rfind : forall d p start stop ba s e, p <> [] -> validate_slice d start stop = Ok (s, e) ->
  bs_rfind false d p start stop ba = Ok (last_opt (spec_matches d p s e ba)).
Proof. exact rfind_spec. Qed.
Theorem C07_contains : forall d p, p <> [] ->
  bs_contains false d p = Ok (match spec_matches d p 0 (zlen d) false with [] => false | _ => true end).
Proof. exact contains_spec. Qed.
Theorem C07_findall_sound_and_complete : forall d p start stop ba s e l,
  p <> [] -> validate_slice d start stop = Ok (s, e) -> bs_findall false d p start stop None ba = Ok l ->
  forall q, In q l <-> (s <= q /\ q + zlen p <= e /\ sub d q (q + zlen p) = p /\ (ba = true -> q mod 8 = 0)).
Proof. exact findall_sound_complete. Qed.
Example C07_overlapping_byte_matches : findall_fast (of01 "000000000000000000000000"%string) (of01 "0000000000000000"%string) 0 24 = Ok [0; 8].
Proof. vm_compute. reflexivity. Qed.
Print Assumptions C07_general_path_is_brute_force.
Print Assumptions C07_find_is_lowest.
Print Assumptions C07_empty_pattern_rejected.
Print Assumptions C07_count.
Print Assumptions C07_fast_path_is_brute_force.
Print Assumptions C07_store_findall.
Print Assumptions C07_findall.
Print Assumptions C07_find.
Print Assumptions C07_rfind.
Print Assumptions C07_contains.
Print Assumptions C07_findall_sound_and_complete.
