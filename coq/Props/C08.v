(* C08 — behaviour depends only on bit content (statements; StoreProofs.v).
   Every construction route of the model establishes wf (modified_length is None or the whole buffer);
   on wf stores every buffer-level method factors through the content. *)
From BS Require Import Prims BitsCore Search Store StoreProofs.
Open Scope Z_scope.
Theorem C08_file_routes_well_formed : forall f l o s, setfile f l o = Ok s -> wf s.
Proof. exact setfile_wf. Qed.
Theorem C08_file_window_is_its_bits : forall f l o, 0 <= o -> 0 <= l -> o + l <= zlen f ->
  exists s, setfile f (Some l) (Some o) = Ok s /\ bits_of s = sub f o (o + l) /\ wf s.
Proof. exact file_window. Qed.
Theorem C08_content_determines : forall a b, wf a -> wf b -> bits_of a = bits_of b ->
  st_len a = st_len b /\ st_eq a b = true /\ (forall v, st_count a v = st_count b v) /\
  (forall i, st_getindex a i = st_getindex b i) /\ st_invert a = st_invert b /\
  (forall c, st_add a c = st_add b c) /\ raw (st_copy a) = raw (st_copy b).
Proof. exact content_determines. Qed.
(* the methods that consult modified_length (slicing with and without a step, tobytes) too: on a well-formed
   store they are the Python slice / the bytes of the content (false before fix D40: s[::-1] was empty) *)
Theorem C08_slices_depend_on_content_only : forall s k, wf s ->
  st_getslice_withstep_msb0 s k = seq_slice false (bits_of s) k.
Proof. exact getslice_withstep_content. Qed.
Theorem C08_unit_slices_depend_on_content_only : forall s a b, wf s ->
  st_getslice_msb0 s a b = seq_slice false (bits_of s) (mkslice a b None).
Proof. exact getslice_content. Qed.
Theorem C08_tobytes_depends_on_content_only : forall s, wf s -> st_tobytes s = tobytes (bits_of s).
Proof. exact tobytes_content. Qed.
(* the pinned tree violated this: a length-limited file store was not well formed *)
Example C08_pre_fix_store_not_wf : ~ wf (mkstore [true;true;false;false] (Some 2)).
Proof. unfold wf. cbn. discriminate. Qed.
Print Assumptions C08_file_routes_well_formed.
Print Assumptions C08_file_window_is_its_bits.
Print Assumptions C08_content_determines.
Print Assumptions C08_slices_depend_on_content_only.
Print Assumptions C08_unit_slices_depend_on_content_only.
Print Assumptions C08_tobytes_depends_on_content_only.
