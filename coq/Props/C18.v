(* C18 — struct codes / endian forms (statements). The table theorem is a generated obligation
   (BridgeC18.struct_tables_match_struct_module, checked by vm_compute over the tables extracted from utils.py);
   the codec theorems are shared with C02. *)
From BS Require Import Prims Golomb IntCodec CodecProofs.
Open Scope Z_scope.
Theorem C18_little_endian_is_byte_reversed_big_endian : forall v n signed b, int2bitstore v n signed = Ok b ->
  intle2bitstore v n signed = Ok (frombytes (rev (tobytes b))).
Proof. exact le_is_byte_reversed_be. Qed.
Theorem C18_byte_reversal_involutive : forall l : list Z, rev (rev l) = l.
Proof. exact (@rev_involutive Z). Qed.
Theorem C18_whole_byte_roundtrip : forall l, bytes_ok l -> tobytes (frombytes l) = l.
Proof. exact tobytes_frombytes. Qed.
Print Assumptions C18_little_endian_is_byte_reversed_big_endian.
Print Assumptions C18_byte_reversal_involutive.
Print Assumptions C18_whole_byte_roundtrip.
