(* C15 — out-of-range or mis-sized values are rejected, never wrapped or truncated (statements). *)
From BS Require Import Prims Golomb IntCodec CodecProofs Search Store StoreProofs.
Open Scope Z_scope.
(* for every integer kind, every width n > 0 and EVERY value: accepted with exactly n bits iff in range, else CreationError *)
Theorem C15_integer_classification : forall signed n v, 0 < n ->
  (int_in_range signed n v = true -> exists b, int2bitstore v n signed = Ok b /\ zlen b = n) /\
  (int_in_range signed n v = false -> int2bitstore v n signed = Err ValueError).
Proof. exact int_classification. Qed.
Theorem C15_zero_or_missing_length_rejected : forall signed le v,
  set_intlike signed le 0 v None = Err ValueError /\ forall c, set_intlike signed le c v (Some 0) = Err ValueError.
Proof. exact set_intlike_needs_length. Qed.
Theorem C15_negative_length_rejected : forall d l, l < 0 -> get_dtype d (Some l) = Err ValueError.
Proof. intros d l H. unfold get_dtype. destruct (l <? 0) eqn:E; [reflexivity|lia]. Qed.
Theorem C15_window_beyond_data_rejected : forall data l o, (o < 0 \/ l < 0 \/ o + l > zlen data) ->
  setbytes_with_truncation data (Some l) (Some o) = Err ValueError.
Proof. exact bytes_window_rejects. Qed.
Print Assumptions C15_integer_classification.
Print Assumptions C15_zero_or_missing_length_rejected.
Print Assumptions C15_negative_length_rejected.
Print Assumptions C15_window_beyond_data_rejected.

(* ------------------------------------------------------------------------------------------------------------------------------------
   The total classification for EVERY kind of the dtype register (DtypeLen.v): uint int uintbe intbe uintle intle float floatle bfloat
   bfloatle bool bin hex oct bytes bits pad (the ne names alias these rows), every length argument (none, or any integer incl. 0 and
   negative) and every value, through Dtype(name, length).build(value), the keyword route Bits(name=value, length=...) and the token
   route bitstore_from_token. The float encoders are parameters of which only the produced length is assumed. *)
From BS Require Import DtypeLen.
Section C15_all_kinds.
  Variable V : Type.
  Variable enc : bool -> Z -> V -> bits.
  Variable encb : bool -> V -> bits.
  Hypothesis enc_len : forall (be : bool) (n : Z) (f : V), In n [16; 32; 64] -> zlen (enc be n f) = n.
  Hypothesis encb_len : forall (be : bool) (f : V), zlen (encb be f) = 16.
  (* Dtype(name, length): accepted exactly for a non-negative length allowed for the kind; a missing length becomes the single allowed one *)
  Theorem C15_dtype_creation : forall (k : DtypeLen.kind) (length : option Z),
    dtype_new k length = match length with
                         | Some l => if (0 <=? l) && allowedb (kind_allowed k) l then Ok (Some (l * mult k)) else Err ValueError
                         | None => Ok (single k)
                         end.
  Proof. exact dtype_new_classification. Qed.
  (* creation succeeds iff the length is accepted (spec_len: >= 0, allowed, non-zero for the integer kinds; without a length: the value's own
     length, no default for integers and floats) and the value fits (fitsb: integer ranges; exactly bl/w valid digits; exactly bl/8 bytes; bl
     bits; 0/1 for bool); the result is exactly the encoding and has exactly the requested number of bits; every failure is ValueError *)
  Theorem C15_total_classification : forall (k : DtypeLen.kind) (length : option Z) (v : vtyp V k),
    (forall b : bits, build V enc encb k length v = Ok b <->
       (exists bl : Z, spec_len V k length v = Some bl /\ fitsb V k bl v = true /\ b = content V enc encb k bl v /\ zlen b = bl)) /\
    (forall e : exn, build V enc encb k length v = Err e -> e = ValueError).
  Proof. exact (build_classification V enc encb enc_len encb_len). Qed.
  Theorem C15_requested_length : forall (k : DtypeLen.kind) (l : Z) (v : vtyp V k) (b : bits),
    build V enc encb k (Some l) v = Ok b -> 0 <= l /\ zlen b = l * mult k.
  Proof. exact (build_stated_length V enc encb enc_len encb_len). Qed.
  (* the keyword route is the same function (bytes= counts its length in bits and truncates: stated exactly), and so is the token route;
     a token without a value is refused unless it is a pad; a stated token length that disagrees with the value is refused *)
  Theorem C15_keyword_route : forall (k : DtypeLen.kind) (length : option Z) (v : vtyp V k), k <> DtypeLen.KBytes ->
    create_kw V enc encb k length v = build V enc encb k length v.
  Proof. exact (create_kw_eq_build V enc encb enc_len encb_len). Qed.
  Theorem C15_keyword_bytes : forall (bs : vtyp V DtypeLen.KBytes) (length : option Z),
    create_kw V enc encb DtypeLen.KBytes length bs =
    (if forallb byte_ok bs && match length with Some l => (0 <=? l) && (l <=? 8 * zlen bs) | None => true end
     then Ok match length with Some l => firstn (Z.to_nat l) (frombytes bs) | None => frombytes bs end
     else Err ValueError).
  Proof. exact (create_kw_bytes_classification V enc encb enc_len). Qed.
  Theorem C15_token_route : forall (k : DtypeLen.kind) (length : option Z) (v : vtyp V k),
    from_token V enc encb k length (Some v) = build V enc encb k length v.
  Proof. exact (from_token_eq_build V enc encb). Qed.
  Theorem C15_token_needs_value : forall (k : DtypeLen.kind) (length : option Z), k <> DtypeLen.KPad -> from_token V enc encb k length None = Err ValueError.
  Proof. exact (from_token_needs_value V enc encb). Qed.
  (* property assignment of an integer keeps the length of the target (or raises) *)
  Theorem C15_assignment_keeps_length : forall (signed le : bool) (cur v : Z) (b : bits), 0 < cur ->
    (set_plain signed cur v None = Ok b -> zlen b = cur) /\ (set_endian signed le cur v None = Ok b -> zlen b = cur).
  Proof. exact (assign_keeps_length V enc encb enc_len encb_len). Qed.
End C15_all_kinds.
(* accepted integers are never wrapped or truncated: they read back unchanged (the little-endian kinds through the byte-swapped content) *)
Theorem C15_accepted_integers_read_back : forall (signed : bool) (n v : Z), 0 < n -> int_in_range signed n v = true ->
  ba2int (in_range_content signed n v) signed = Ok v /\
  (n mod 8 = 0 -> (if signed then getintle else getuintle) (ByteswapProofs.swapbytes (in_range_content signed n v)) = Ok v).
Proof. exact accepted_int_decodes. Qed.
Print Assumptions C15_dtype_creation.
Print Assumptions C15_total_classification.
Print Assumptions C15_requested_length.
Print Assumptions C15_keyword_route.
Print Assumptions C15_keyword_bytes.
Print Assumptions C15_token_route.
Print Assumptions C15_token_needs_value.
Print Assumptions C15_assignment_keeps_length.
Print Assumptions C15_accepted_integers_read_back.
