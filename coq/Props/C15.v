(* C15 — out-of-range or mis-sized values are rejected, never wrapped or truncated (statements). *)
From BS Require Import Prims Golomb IntCodec CodecProofs Search Store StoreProofs.
Open Scope Z_scope.
(* for every integer kind, every width n > 0 and EVERY value: accepted with exactly n bits iff in range, else CreationError *)
Theorem C15_integer_classification : forall signed n v, 0 < n ->
  (int_in_range signed n v = true -> exists b, int2bitstore v n signed = Ok b /\ zlen b = n) /\
  (int_in_range signed n v = false -> int2bitstore v n signed = Err ValueError).
Proof. exact int_classification. Qed.
Theorem C15_zero_or_missing_length_rejected : forall signed le v,
  set_intlike signed le 0 v None = Err ValueError /\ forall c, set_intlike signed le c v (Some 0) = Err ValueError.
Proof. exact set_intlike_needs_length. Qed.
Theorem C15_negative_length_rejected : forall d l, l < 0 -> get_dtype d (Some l) = Err ValueError.
Proof. intros d l H. unfold get_dtype. destruct (l <? 0) eqn:E; [reflexivity|lia]. Qed.
Theorem C15_window_beyond_data_rejected : forall data l o, (o < 0 \/ l < 0 \/ o + l > zlen data) ->
  setbytes_with_truncation data (Some l) (Some o) = Err ValueError.
Proof. exact bytes_window_rejects. Qed.
Print Assumptions C15_integer_classification.
Print Assumptions C15_zero_or_missing_length_rejected.
Print Assumptions C15_negative_length_rejected.
Print Assumptions C15_window_beyond_data_rejected.
