(* C04 — value isolation (statements; HeapProofs.v).
   Heap.v is the store-flow of every derivation route as read from the (repaired) code. *)
From BS Require Import Prims BitsCore Heap HeapProofs.

(* the invariant: a mutable object's store is unflagged, is in no cache entry and is referenced by no other object *)
Theorem C04_invariant_initially : Iso empty_heap.
Proof. exact iso_empty. Qed.
Theorem C04_invariant_preserved_by_every_transition : forall h op, Iso h -> Iso (hstep h op).
Proof. exact hstep_iso. Qed.
Theorem C04_invariant_over_histories : forall ops h, Iso h -> Iso (hrun h ops).
Proof. exact hrun_iso. Qed.

(* isolation: whatever is created, derived (by any route), cached, evicted or mutated elsewhere,
   the value of an object that is not itself the target of a mutation stays what it was *)
Theorem C04_isolation : forall ops h o, Iso h -> o < length (objects h) ->
  forallb (fun op => negb (is_mutation_of o op)) ops = true -> value (hrun h ops) o = value h o.
Proof. exact isolation. Qed.

(* Bits / ConstBitStream objects never change, whatever the history *)
Theorem C04_immutable_objects_never_change : forall ops h o, Iso h -> o < length (objects h) ->
  mutable (ocls (get_obj h o)) = false -> value (hrun h ops) o = value h o.
Proof. exact immutable_never_changes. Qed.

Example C04_nonvacuous :
  let h := hrun empty_heap [HFromCache CBits [true;false] None; HFromCache CBitArray [true;false] (Some 0); HConstruct CBitStream 0;
                            HMutate 1 (fun b => b ++ [true]); HCopyCopy 2; HMutate 3 (@rev bool)] in
  map (value h) [0;1;2;3] = [[true;false]; [true;false;true]; [true;false]; [false;true]].
Proof. vm_compute. reflexivity. Qed.

Print Assumptions C04_invariant_initially.
Print Assumptions C04_invariant_preserved_by_every_transition.
Print Assumptions C04_invariant_over_histories.
Print Assumptions C04_isolation.
Print Assumptions C04_immutable_objects_never_change.
