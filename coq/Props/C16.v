(* C16 — bit-wise operators and shifts are per-bit boolean functions with fixed length. *)
From BS Require Import Prims BitsCore SeqProofs BitwiseProofs.
Open Scope Z_scope.

Theorem C16_and_pointwise : forall a b, zlen a = zlen b -> bs_and false a b = Ok (map2 andb a b).
Proof. intros. unfold bs_and. now apply bitop_pointwise. Qed.
Theorem C16_or_pointwise : forall a b, zlen a = zlen b -> bs_or false a b = Ok (map2 orb a b).
Proof. intros. unfold bs_or. now apply bitop_pointwise. Qed.
Theorem C16_xor_pointwise : forall a b, zlen a = zlen b -> bs_xor a b = Ok (map2 xorb a b).
Proof. intros. unfold bs_xor. now apply bitop_pointwise. Qed.
Theorem C16_length_mismatch : forall a b, zlen a <> zlen b ->
  bs_and false a b = Err ValueError /\ bs_or false a b = Err ValueError /\ bs_xor a b = Err ValueError /\
  bs_iand a b = Err ValueError /\ bs_ior a b = Err ValueError /\ bs_ixor a b = Err ValueError.
Proof. intros. unfold bs_and, bs_or, bs_xor, bs_iand, bs_ior, bs_ixor. repeat split; now apply bitop_mismatch. Qed.
Theorem C16_result_length : forall f a b r, ba_bitop f a b = Ok r -> zlen r = zlen a.
Proof. exact bitop_length. Qed.
Theorem C16_invert_pointwise : forall a, a <> [] -> bs_invert a = Ok (map negb a).
Proof. exact invert_pointwise. Qed.
Theorem C16_invert_empty : bs_invert [] = Err BsError.
Proof. exact invert_empty. Qed.
(* `s & s` / `s | s` with both operands the same object take a shortcut; it returns the same value *)
Theorem C16_and_same_object : forall a, bs_and true a a = bs_and false a a.
Proof. exact and_self_shortcut_sound. Qed.
Theorem C16_or_same_object : forall a, bs_or true a a = bs_or false a a.
Proof. exact or_self_shortcut_sound. Qed.

Theorem C16_lshift : forall b n, 0 <= n -> b <> [] ->
  bs_lshift b n = Ok (skipn (Z.to_nat (Z.min n (zlen b))) b ++ repeat false (Z.to_nat (Z.min n (zlen b)))).
Proof. exact lshift_spec. Qed.
Theorem C16_rshift : forall b n, 0 <= n -> b <> [] ->
  bs_rshift b n = Ok (repeat false (Z.to_nat (Z.min n (zlen b))) ++ firstn (Z.to_nat (zlen b - Z.min n (zlen b))) b).
Proof. exact rshift_spec. Qed.
Theorem C16_shift_negative : forall b n, n < 0 -> bs_lshift b n = Err ValueError /\ bs_rshift b n = Err ValueError.
Proof. exact shift_negative. Qed.
Theorem C16_shift_empty : forall n, 0 <= n -> bs_lshift [] n = Err ValueError /\ bs_rshift [] n = Err ValueError.
Proof. exact shift_empty. Qed.
Theorem C16_shift_keeps_length : forall b n r, (bs_lshift b n = Ok r \/ bs_rshift b n = Ok r) -> zlen r = zlen b.
Proof. intros b n r [H|H]; [eapply lshift_length|eapply rshift_length]; eauto. Qed.
Theorem C16_inplace_shifts_equal_pure : forall b n, bs_ilshift b n = bs_lshift b n /\ bs_irshift b n = bs_rshift b n.
Proof. intros. split; [apply ilshift_eq_lshift|apply irshift_eq_rshift]. Qed.

(* consequences *)
Theorem C16_double_invert : forall a, a <> [] -> (do x <- bs_invert a; bs_invert x) = Ok a.
Proof. exact invert_involutive. Qed.
Theorem C16_xor_self : forall a, bs_xor a a = Ok (repeat false (length a)).
Proof. exact xor_self_zero. Qed.
Theorem C16_de_morgan : forall a b, zlen a = zlen b -> a <> [] ->
  (do x <- bs_and false a b; bs_invert x) = (do na <- bs_invert a; do nb <- bs_invert b; bs_or false na nb) /\
  (do x <- bs_or false a b; bs_invert x) = (do na <- bs_invert a; do nb <- bs_invert b; bs_and false na nb).
Proof. intros. split; [now apply de_morgan_and|now apply de_morgan_or]. Qed.

(* agreement with the integer operators on the unsigned value masked to len bits *)
Theorem C16_int_model_and_or_xor : forall a b, zlen a = zlen b ->
  res_map value_msb (bs_and false a b) = Ok (Z.land (value_msb a) (value_msb b)) /\
  res_map value_msb (bs_or false a b) = Ok (Z.lor (value_msb a) (value_msb b)) /\
  res_map value_msb (bs_xor a b) = Ok (Z.lxor (value_msb a) (value_msb b)).
Proof. intros. repeat split; [now apply and_int_model|now apply or_int_model|now apply xor_int_model]. Qed.
Theorem C16_int_model_invert : forall a, a <> [] ->
  res_map value_msb (bs_invert a) = Ok (Z.lnot (value_msb a) mod 2 ^ zlen a).
Proof. exact invert_int_model. Qed.
Theorem C16_int_model_shifts : forall b n, 0 <= n -> b <> [] ->
  res_map value_msb (bs_lshift b n) = Ok ((value_msb b * 2 ^ n) mod 2 ^ zlen b) /\
  res_map value_msb (bs_rshift b n) = Ok (value_msb b / 2 ^ n).
Proof. intros. split; [now apply lshift_int_model|now apply rshift_int_model]. Qed.

Example C16_nonvacuous : bs_lshift [true;false;true;true] 2 = Ok [true;true;false;false] /\
  bs_and false [true;true;false] [true;false;false] = Ok [true;false;false].
Proof. vm_compute. split; reflexivity. Qed.

Print Assumptions C16_and_pointwise.
Print Assumptions C16_or_pointwise.
Print Assumptions C16_xor_pointwise.
Print Assumptions C16_length_mismatch.
Print Assumptions C16_result_length.
Print Assumptions C16_invert_pointwise.
Print Assumptions C16_invert_empty.
Print Assumptions C16_and_same_object.
Print Assumptions C16_or_same_object.
Print Assumptions C16_lshift.
Print Assumptions C16_rshift.
Print Assumptions C16_shift_negative.
Print Assumptions C16_shift_empty.
Print Assumptions C16_shift_keeps_length.
Print Assumptions C16_inplace_shifts_equal_pure.
Print Assumptions C16_double_invert.
Print Assumptions C16_xor_self.
Print Assumptions C16_de_morgan.
Print Assumptions C16_int_model_and_or_xor.
Print Assumptions C16_int_model_invert.
Print Assumptions C16_int_model_shifts.
