(* C11 — 8-bit, micro-scaling and bfloat codecs (statements; MiniFloat.v).
   The table theorems (all 65536 half inputs x 9 tables, all codes, clamp codes, re-encoding) are generated
   obligations BridgeC11_<table>, closed by vm_compute against the tables extracted from luts.py on every run;
   they are lifted to all Python floats here. *)
From BS Require Import Prims MiniFloat.
Open Scope Z_scope.

(* if the generated table passes the finite check, then for EVERY float the library returns the code the spec
   assigns to the float's half-precision rounding, and the format's overflow code when it does not fit *)
Theorem C11_encode_all_floats : forall f ovf t cl x, check_enc f ovf t = true -> check_clamp f ovf cl = true ->
  float_to_int t cl x = match half_rne x with HOverflow => inf_code f ovf (negb (py_positive x)) | HBits h => float_to_int t cl x end /\
  (forall h c, half_rne x = HBits h -> 0 <= h < 65536 -> encode_spec f ovf (half_decode h) = Some c -> float_to_int t cl x = c).
Proof. exact float_to_int_spec. Qed.

(* the rounding used by the spec is round-to-nearest, ties to even, for every magnitude and quantum *)
Theorem C11_rounding_is_nearest : forall a q, 0 < q -> 2 * Z.abs (a - rne_div a q * q) <= q.
Proof. exact rne_div_nearest. Qed.
Theorem C11_rounding_ties_to_even : forall a q, 0 < q -> 2 * (a mod q) = q -> Z.even (rne_div a q) = true.
Proof. exact rne_div_tie_even. Qed.

Example C11_boundaries :   (* the documented boundary cases: e4m3 464 -> 0x7e in both modes, 465 -> 0xff under overflow; p4binary 232 -> 0x7e, 233 -> 0x7f *)
  encode_spec fmt_e4m3 false (FFin false (464 * 2 ^ 24)) = Some 126 /\ encode_spec fmt_e4m3 true (FFin false (464 * 2 ^ 24)) = Some 126 /\
  encode_spec fmt_e4m3 true (FFin false (465 * 2 ^ 24)) = Some 255 /\ encode_spec fmt_e4m3 false (FFin false (465 * 2 ^ 24)) = Some 126 /\
  encode_spec fmt_p4 false (FFin false (232 * 2 ^ 24)) = Some 126 /\ encode_spec fmt_p4 false (FFin false (233 * 2 ^ 24)) = Some 127 /\
  encode_spec fmt_p4 false (FFin true 0) = Some 0 /\ encode_spec fmt_e5m2 false (FInf false) = Some 123.
Proof. vm_compute. repeat split; reflexivity. Qed.

Print Assumptions C11_encode_all_floats.
Print Assumptions C11_rounding_is_nearest.
Print Assumptions C11_rounding_ties_to_even.
