(* C03 — in-place mutations equal their sequence-level specification; nothing else moves.
   Spec: MutSpec.spec_step (firstn/skipn/rev/++ only, from the reference documentation).
   Model: Mutators.v (mirrors BitArray.insert/overwrite/append/prepend/__delitem__/set/invert/reverse/
   rol/ror/<<=/>>=/clear and the Bits._insert/_overwrite/_delete/_slice helpers) through MutProofs.model_step. *)
From BS Require Import Prims BitsCore Mutators MutSpec MutProofs SeqProofs.
Open Scope Z_scope.

(* every modelled mutator, for every content and every argument value (negative positions, empty
   operands, out-of-range values): same new content, or the same exception *)
Theorem C03_step_refines : forall b op, model_step b op = spec_step b op.
Proof. exact step_refines. Qed.

(* every finite program of mutators on one object; a raising call leaves the content as it was *)
Theorem C03_program_refines : forall ops b, model_run b ops = spec_run b ops.
Proof. exact program_refines. Qed.

(* frame: an operation given a [s, e) range only changes bits inside it and keeps the length
   (reverse, rol, ror are in_window of a length-preserving function) *)
Theorem C03_window_frame : forall b s e f, 0 <= s -> s <= e -> e <= zlen b -> (forall w, zlen (f w) = zlen w) ->
  take s (in_window b s e f) = take s b /\ drop e (in_window b s e f) = drop e b /\ zlen (in_window b s e f) = zlen b.
Proof. exact window_frame. Qed.

(* *= n and the in-place & | ^ are covered by C01_mul / C16 (same model functions) *)

Example C03_nonvacuous :
  model_run [true;false;true;true;false] [MInsert [true;true] 2; MRol 1 (Some 1) (Some 5); MReverse None None; MDelBit (-1); MOverwrite [false] 9]
  = ([false;true;false;true;true;true], Some ValueError).
Proof. vm_compute. reflexivity. Qed.

Print Assumptions C03_step_refines.
Print Assumptions C03_program_refines.
Print Assumptions C03_window_frame.
