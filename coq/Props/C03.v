(* C03 — in-place mutations equal their sequence-level specification; nothing else moves.
   Spec: MutSpec.spec_step (firstn/skipn/rev/++ only, from the reference documentation).
   Model: Mutators.v (mirrors BitArray.insert/overwrite/append/prepend/__delitem__/set/invert/reverse/
   rol/ror/<<=/>>=/clear and the Bits._insert/_overwrite/_delete/_slice helpers) through MutProofs.model_step. *)
From BS Require Import Prims BitsCore Search Mutators MutSpec MutProofs SeqProofs MutProofs2 FastPath ByteswapProofs.
Open Scope Z_scope.

(* every modelled mutator, for every content and every argument value (negative positions, empty
   operands, out-of-range values): same new content, or the same exception *)
Theorem C03_step_refines : forall b op, model_step b op = spec_step b op.
Proof. exact step_refines. Qed.

(* every finite program of mutators on one object; a raising call leaves the content as it was *)
Theorem C03_program_refines : forall ops b, model_run b ops = spec_run b ops.
Proof. exact program_refines. Qed.

(* frame: an operation given a [s, e) range only changes bits inside it and keeps the length
   (reverse, rol, ror are in_window of a length-preserving function) *)
Theorem C03_window_frame : forall b s e f, 0 <= s -> s <= e -> e <= zlen b -> (forall w, zlen (f w) = zlen w) ->
  take s (in_window b s e f) = take s b /\ drop e (in_window b s e f) = drop e b /\ zlen (in_window b s e f) = zlen b.
Proof. exact window_frame. Qed.

(* set(v, iterable of positions): length kept; a bit is v exactly when its index is among the (normalised) positions before the first
   invalid one, otherwise unchanged; IndexError exactly when some position is outside [-len, len) *)
Theorem C03_set_positions : forall v ps b,
  let r := set_list false b v ps in
  zlen (fst r) = zlen b /\
  (forall i, 0 <= i < zlen b -> znth false (fst r) i = if existsb (Z.eqb i) (applied (zlen b) ps) then v else znth false b i) /\
  snd r = (if all_valid (zlen b) ps then None else Some IndexError).
Proof. exact set_list_spec. Qed.
Theorem C03_set_positions_frame : forall v ps b i, 0 <= i < zlen b -> (forall p, In p ps -> norm_pos (zlen b) p <> i) ->
  znth false (fst (set_list false b v ps)) i = znth false b i.
Proof. exact set_list_frame. Qed.
(* set(v, range(a, s, c)): the slice fast path (taken only under its guard) is the per-position loop, for every range *)
Theorem C03_set_range_fast_path_is_the_loop : forall b v a s c, c <> 0 ->
  ba_set_range false b v a s c = set_list false b v (range_list a s c).
Proof. exact set_range_fast_path_is_loop. Qed.
(* invert(iterable): length kept, unlisted positions unchanged, error exactly on an invalid position *)
Theorem C03_invert_positions_frame : forall ps b,
  let r := invert_list false b ps in
  zlen (fst r) = zlen b /\
  (forall i, 0 <= i < zlen b -> (forall p, In p ps -> norm_pos (zlen b) p <> i) -> znth false (fst r) i = znth false b i) /\
  (snd r = None <-> all_valid (zlen b) ps = true).
Proof. exact invert_list_frame. Qed.
(* *= n *)
Theorem C03_imul : forall b n, (0 <= n -> ba_imul false b n = Ok (rep b (Z.to_nat n))) /\ (n < 0 -> ba_imul false b n = Err ValueError).
Proof. intros. split; [apply imul_is_n_copies|apply imul_negative]. Qed.
(* byteswap(fmt, start, end, repeat): complete patterns inside [start, end) have each group's bytes reversed; the number of patterns is returned;
   an incomplete pattern and everything outside the window are untouched; the length is kept *)
Theorem C03_byteswap : forall b sizes start stop repeat_ s e,
  nonneg sizes -> 0 < sum8 sizes -> validate_slice b start stop = Ok (s, e) ->
  let k := patterns s e (sum8 sizes) repeat_ in
  ba_byteswap false b sizes start stop repeat_ =
  Ok (take s b ++ swap_blocks (Z.to_nat k) (sum8 sizes) sizes (take (k * sum8 sizes) (drop s b)) ++ drop (s + k * sum8 sizes) b, k).
Proof. exact byteswap_spec. Qed.
Theorem C03_byteswap_frame : forall b sizes start stop repeat_ s e b' r,
  nonneg sizes -> 0 < sum8 sizes -> validate_slice b start stop = Ok (s, e) ->
  ba_byteswap false b sizes start stop repeat_ = Ok (b', r) ->
  take s b' = take s b /\ drop e b' = drop e b /\ zlen b' = zlen b /\ r = patterns s e (sum8 sizes) repeat_.
Proof. exact byteswap_frame. Qed.
Theorem C03_swapbytes_reverses_the_bytes : forall w, whole w -> swapbytes w = concat (rev (to_bytes w)) /\ swapbytes (swapbytes w) = w.
Proof. intros. split; [apply swapbytes_is_byte_reversal|apply swapbytes_involutive]; assumption. Qed.
Example C03_byteswap_nonvacuous :
  ba_byteswap false (frombytes [1; 2; 3; 4; 5; 6; 7]) [2; 1] None None true = Ok (frombytes [2; 1; 3; 5; 4; 6; 7], 2).
Proof. vm_compute. reflexivity. Qed.
(* a[start:stop] = bits / = integer and del a[start:stop] for ANY start and stop (negative, omitted, out of range, start > stop):
   Python's clamping, then the splice; an integer is encoded in exactly the width of the slice (zero width or a value that does not fit: ValueError) *)
Theorem C03_slice_assignment_bits : forall b start stop v,
  ba_setitem_slice false b (mkslice start stop None) (VBits v) =
  Ok (take (pyclamp (zlen b) start 0) b ++ v ++ drop (Z.max (pyclamp (zlen b) start 0) (pyclamp (zlen b) stop (zlen b))) b).
Proof. exact setslice_bits_any. Qed.
Theorem C03_slice_deletion : forall b start stop,
  ba_delitem_slice false b (mkslice start stop None) =
  Ok (take (pyclamp (zlen b) start 0) b ++ drop (Z.max (pyclamp (zlen b) start 0) (pyclamp (zlen b) stop (zlen b))) b).
Proof. exact delslice_any. Qed.
Theorem C03_slice_assignment_int : forall b start stop v,
  let a := pyclamp (zlen b) start 0 in let o := pyclamp (zlen b) stop (zlen b) in let n := Z.max 0 (o - a) in
  ba_setitem_slice false b (mkslice start stop None) (VInt v) =
  if n =? 0 then Err ValueError else
  match int2ba v n (v <? 0) with
  | Ok vb => Ok (take a b ++ vb ++ drop (Z.max a o) b)
  | Err OverflowError => Err ValueError
  | Err e => Err e
  end.
Proof. exact setslice_int_any. Qed.
(* the in-place & | ^ are covered by C16 (same model functions) *)

Example C03_nonvacuous :
  model_run [true;false;true;true;false] [MInsert [true;true] 2; MRol 1 (Some 1) (Some 5); MReverse None None; MDelBit (-1); MOverwrite [false] 9]
  = ([false;true;false;true;true;true], Some ValueError).
Proof. vm_compute. reflexivity. Qed.

Print Assumptions C03_step_refines.
Print Assumptions C03_program_refines.
Print Assumptions C03_window_frame.
Print Assumptions C03_set_positions.
Print Assumptions C03_set_positions_frame.
Print Assumptions C03_set_range_fast_path_is_the_loop.
Print Assumptions C03_invert_positions_frame.
Print Assumptions C03_imul.
Print Assumptions C03_byteswap.
Print Assumptions C03_byteswap_frame.
Print Assumptions C03_swapbytes_reverses_the_bytes.
Print Assumptions C03_slice_assignment_bits.
Print Assumptions C03_slice_deletion.
Print Assumptions C03_slice_assignment_int.
