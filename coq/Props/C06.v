(* C06 — stream reads consume exactly what they return; the position is always valid. *)
From BS Require Import Prims BitsCore Mutators Search Golomb Stream StreamProofs StreamHistory.
Open Scope Z_scope.

Theorem C06_peek_leaves_stream_unchanged : forall s t, fst (peek_token s t) = s /\ snd (peek_token s t) = snd (read_token s t).
Proof. intros. split; [apply peek_pure|apply peek_same_value]. Qed.
Theorem C06_peeklist_leaves_stream_unchanged : forall s ts, fst (peeklist s ts) = s /\ snd (peeklist s ts) = snd (readlist s ts).
Proof. intros. split; [apply peeklist_pure|apply peeklist_same_value]. Qed.
Theorem C06_failing_read_restores : forall s t e, snd (read_token s t) = Err e -> fst (read_token s t) = s.
Proof. exact read_error_restores. Qed.
Theorem C06_failing_readlist_restores : forall s ts e, snd (readlist s ts) = Err e -> fst (readlist s ts) = s.
Proof. exact readlist_error_restores. Qed.
Theorem C06_read_keeps_position_valid : forall s t, valid s -> valid (fst (read_token s t)).
Proof. exact read_valid. Qed.

(* the invariant over whole histories (msb0): every operation of the stream API - reads, peeks, list reads, positioning, find / rfind /
   readto, and each BitStream mutator override - maps a valid stream to a valid stream; hence so does every finite sequence of them *)
Theorem C06_every_operation_keeps_position_valid : forall s op, valid s -> valid (fst (sstep s op)).
Proof. exact sstep_valid. Qed.
Theorem C06_every_history_keeps_position_valid : forall ops s, valid s -> valid (srun s ops).
Proof. exact srun_valid. Qed.
Theorem C06_failing_operation_restores : forall s op, snd (sstep s op) = false ->
  match op with
  | ORead _ | OPeek _ | OReadlist _ | OPeeklist _ | OSetPos _ | OSetBytepos _ | OBytealign | OFind _ _ _ _ | ORfind _ _ _ _
  | OInsert _ _ | OOverwrite _ _ | OOverwriteSelf _ | OSetitemInt _ _ | OSetitemSlice _ _ | ODelitemInt _ | ODelitemSlice _ | OReplace _ _ _ _ _ _ | OImul _ => fst (sstep s op) = s
  | _ => True
  end.
Proof. exact failing_step_restores. Qed.
Example C06_history_nonvacuous :
  let s := srun (mkstream [true;false;true;true;false;false;true;false] 3) [OReadlist [TCount 2; TFixed KUint 3]; OInsert [true;true] None; OFind [true;true] None None false; OOverwriteSelf (Some 2)] in
  (spos s, zlen (sbits s)) = (12, 12).
Proof. vm_compute. reflexivity. Qed.
Print Assumptions C06_peek_leaves_stream_unchanged.
Print Assumptions C06_peeklist_leaves_stream_unchanged.
Print Assumptions C06_failing_read_restores.
Print Assumptions C06_failing_readlist_restores.
Print Assumptions C06_read_keeps_position_valid.
Print Assumptions C06_every_operation_keeps_position_valid.
Print Assumptions C06_every_history_keeps_position_valid.
Print Assumptions C06_failing_operation_restores.
