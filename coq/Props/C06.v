(* C06 — stream reads consume exactly what they return; the position is always valid. *)
From BS Require Import Prims BitsCore Mutators Search Golomb Stream StreamProofs StreamHistory.
Open Scope Z_scope.

Theorem C06_peek_leaves_stream_unchanged : forall s t, fst (peek_token s t) = s /\ snd (peek_token s t) = snd (read_token s t).
Proof. intros. split; [apply peek_pure|apply peek_same_value]. Qed.
Theorem C06_peeklist_leaves_stream_unchanged : forall s ts, fst (peeklist s ts) = s /\ snd (peeklist s ts) = snd (readlist s ts).
Proof. intros. split; [apply peeklist_pure|apply peeklist_same_value]. Qed.
Theorem C06_failing_read_restores : forall s t e, snd (read_token s t) = Err e -> fst (read_token s t) = s.
Proof. exact read_error_restores. Qed.
Theorem C06_failing_readlist_restores : forall s ts e, snd (readlist s ts) = Err e -> fst (readlist s ts) = s.
Proof. exact readlist_error_restores. Qed.
Theorem C06_read_keeps_position_valid : forall s t, valid s -> valid (fst (read_token s t)).
Proof. exact read_valid. Qed.

(* the invariant over whole histories (msb0): every operation of the stream API - reads, peeks, list reads, positioning, find / rfind /
   readto, and each BitStream mutator override - maps a valid stream to a valid stream; hence so does every finite sequence of them *)
Theorem C06_every_operation_keeps_position_valid : forall s op, valid s -> valid (fst (sstep s op)).
Proof. exact sstep_valid. Qed.
Theorem C06_every_history_keeps_position_valid : forall ops s, valid s -> valid (srun s ops).
Proof. exact srun_valid. Qed.
Theorem C06_failing_operation_restores : forall s op, snd (sstep s op) = false ->
  match op with
  | ORead _ | OPeek _ | OReadlist _ | OPeeklist _ | OSetPos _ | OSetBytepos _ | OBytealign | OFind _ _ _ _ | ORfind _ _ _ _
  | OInsert _ _ | OOverwrite _ _ | OOverwriteSelf _ | OSetitemInt _ _ | OSetitemSlice _ _ | ODelitemInt _ | ODelitemSlice _ | OReplace _ _ _ _ _ _ | OImul _ => fst (sstep s op) = s
  | _ => True
  end.
Proof. exact failing_step_restores. Qed.
Example C06_history_nonvacuous :
  let s := srun (mkstream [true;false;true;true;false;false;true;false] 3) [OReadlist [TCount 2; TFixed KUint 3]; OInsert [true;true] None; OFind [true;true] None None false; OOverwriteSelf (Some 2)] in
  (spos s, zlen (sbits s)) = (12, 12).
Proof. vm_compute. reflexivity. Qed.
Print Assumptions C06_peek_leaves_stream_unchanged.
Print Assumptions C06_peeklist_leaves_stream_unchanged.
Print Assumptions C06_failing_read_restores.
Print Assumptions C06_failing_readlist_restores.
Print Assumptions C06_read_keeps_position_valid.
Print Assumptions C06_every_operation_keeps_position_valid.
Print Assumptions C06_every_history_keeps_position_valid.
Print Assumptions C06_failing_operation_restores.

(* ------------------------------------------------------------------------------------------------------------------------------------
   The same machine with options.lsb0 as a parameter (StreamLsb.v; readers from LsbPack.v, mutators through the mode-dependent content
   functions, searches through st_find / st_rfind lsb0; the position rules of bitstream.py do not look at the option). With the option
   off it IS the machine above; in BOTH bit numberings every operation and hence every history keeps 0 <= pos <= len, a failing operation
   leaves content and position untouched (readto included), and peeks are pure. *)
From BS Require Import LsbPack StreamLsb.
Theorem C06_lsb0_machine_with_option_off : (forall s op, step_m false s op = sstep s op) /\ (forall ops s, run_m false s ops = srun s ops).
Proof. split; [exact step_m_false|exact run_m_false]. Qed.
Theorem C06_every_operation_keeps_pos_valid_in_both_modes : forall (lsb0 : bool) (s : stream) (op : sop), valid s -> valid (fst (step_m lsb0 s op)).
Proof. exact step_m_valid. Qed.
Theorem C06_every_history_keeps_pos_valid_in_both_modes : forall (lsb0 : bool) (b : bits) (pos : Z) (ops : list sop),
  0 <= pos <= zlen b -> valid (run_m lsb0 (mkstream b pos) ops).
Proof. exact fresh_stream_histories_m. Qed.
Theorem C06_failing_operation_restores_in_both_modes : forall (lsb0 : bool) (s : stream) (op : sop), snd (step_m lsb0 s op) = false -> fst (step_m lsb0 s op) = s.
Proof. exact failing_step_m_restores. Qed.
Theorem C06_peeks_pure_in_both_modes : forall (lsb0 : bool) (s : stream),
  (forall t : token, fst (step_m lsb0 s (OPeek t)) = s /\ snd (peek_token_m lsb0 s t) = snd (read_token_m lsb0 s t)) /\
  (forall ts : list token, fst (step_m lsb0 s (OPeeklist ts)) = s /\ snd (peeklist_m lsb0 s ts) = snd (readlist_m lsb0 s ts)).
Proof. exact peeks_pure_m. Qed.
(* where the mutators leave the position, in both modes *)
Theorem C06_mutator_position_rules : forall (lsb0 : bool) (s : stream) (bs : bits) (pos : option Z),
  let p0 := match pos with Some v => v | None => spos s end in
  let p := if p0 <? 0 then p0 + zlen (sbits s) else p0 in
  (let s' := fst (st_append_m lsb0 s bs) in spos s' = zlen (sbits s') /\ zlen (sbits s') = zlen (sbits s) + zlen bs) /\
  (let s' := fst (st_prepend_m lsb0 s bs) in spos s' = 0 /\ zlen (sbits s') = zlen (sbits s) + zlen bs) /\
  (forall s' : stream, zlen bs <> 0 -> st_insert_m lsb0 s bs pos = (s', Ok tt) ->
     0 <= p <= zlen (sbits s) /\ spos s' = p + zlen bs /\ zlen (sbits s') = zlen (sbits s) + zlen bs) /\
  (forall s' : stream, zlen bs <> 0 -> st_overwrite_m lsb0 s false bs pos = (s', Ok tt) ->
     0 <= p <= zlen (sbits s) /\ spos s' = p + zlen bs /\ spos s' <= zlen (sbits s')) /\
  (forall r : res bits, let s' := fst (reset_if_len_changed s r) in spos s' = spos s \/ spos s' = 0 /\ zlen (sbits s') <> zlen (sbits s)).
Proof. exact mutator_pos_rules. Qed.
Print Assumptions C06_lsb0_machine_with_option_off.
Print Assumptions C06_every_operation_keeps_pos_valid_in_both_modes.
Print Assumptions C06_every_history_keeps_pos_valid_in_both_modes.
Print Assumptions C06_failing_operation_restores_in_both_modes.
Print Assumptions C06_peeks_pure_in_both_modes.
Print Assumptions C06_mutator_position_rules.
