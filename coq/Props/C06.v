(* C06 — stream reads consume exactly what they return; the position is always valid. *)
From BS Require Import Prims BitsCore Mutators Search Golomb Stream StreamProofs.
Open Scope Z_scope.

Theorem C06_peek_leaves_stream_unchanged : forall s t, fst (peek_token s t) = s /\ snd (peek_token s t) = snd (read_token s t).
Proof. intros. split; [apply peek_pure|apply peek_same_value]. Qed.
Theorem C06_peeklist_leaves_stream_unchanged : forall s ts, fst (peeklist s ts) = s /\ snd (peeklist s ts) = snd (readlist s ts).
Proof. intros. split; [apply peeklist_pure|apply peeklist_same_value]. Qed.
Theorem C06_failing_read_restores : forall s t e, snd (read_token s t) = Err e -> fst (read_token s t) = s.
Proof. exact read_error_restores. Qed.
Theorem C06_failing_readlist_restores : forall s ts e, snd (readlist s ts) = Err e -> fst (readlist s ts) = s.
Proof. exact readlist_error_restores. Qed.
Theorem C06_read_keeps_position_valid : forall s t, valid s -> valid (fst (read_token s t)).
Proof. exact read_valid. Qed.

Print Assumptions C06_peek_leaves_stream_unchanged.
Print Assumptions C06_peeklist_leaves_stream_unchanged.
Print Assumptions C06_failing_read_restores.
Print Assumptions C06_failing_readlist_restores.
Print Assumptions C06_read_keeps_position_valid.
