(* C20 — well-typed misuse fails cleanly (statements for the modelled API; the introspection sweep covers the rest). *)
From BS Require Import Prims BitsCore Mutators MutSpec MutProofs Golomb GolombSpec GolombProofs SeqProofs.
Open Scope Z_scope.
Definition documented (e : exn) : bool :=
  match e with ValueError | IndexError | ReadError | TypeError | BsError | ByteAlignError => true | _ => false end.

(* every modelled mutator, for every content and argument: success, or one of the documented exceptions -
   never AssertionError, AttributeError, KeyError, ZeroDivisionError or an exhausted fuel (non-termination) *)
Theorem C20_mutators_fail_cleanly : forall b op e, model_step b op = Err e -> documented e = true.
Proof. exact mutators_fail_cleanly. Qed.
(* the exp-Golomb decoders terminate and fail only with ReadError, from any non-negative position in any data *)
Theorem C20_decoders_fail_cleanly : forall c b pos e, 0 <= pos -> g_read c b pos = Err e -> e = ReadError.
Proof. exact decoders_fail_cleanly. Qed.
(* repetition terminates: the doubling loop never runs out of fuel *)
Theorem C20_mul_total : forall b n, 0 <= n -> exists r, bs_mul false b n = Ok r.
Proof. intros. eexists. now apply mul_refines. Qed.
Print Assumptions C20_mutators_fail_cleanly.
Print Assumptions C20_decoders_fail_cleanly.
Print Assumptions C20_mul_total.
