(* C09 — construction and parsing are pure (statements; Memo.v).  The per-function premise
   "the cache key determines the result" is discharged each run by the generated obligation
   BridgeC09.cache_keys_cover_option_reads (reads of options below every lru_cache site are inside its key). *)
From Coq Require Import List String. Import ListNotations.
From BS Require Import Memo.

Theorem C09_memoisation_is_transparent :
  forall (A O K V : Type) (key_of : A -> O -> K) (compute : A -> O -> V) (keqb : K -> K -> bool),
  (forall a b, keqb a b = true <-> a = b) ->
  (forall a o a' o', key_of a o = key_of a' o' -> compute a o = compute a' o') ->
  forall es, run_events A O K V key_of compute keqb [] es = map (cold A O K V compute) es.
Proof. intros. apply history_independent; auto. apply empty_sound. Qed.

Theorem C09_eviction_is_harmless :
  forall (A O K V : Type) (key_of : A -> O -> K) (compute : A -> O -> V) c c',
  sound A O K V key_of compute c -> (forall e, In e c' -> In e c) -> sound A O K V key_of compute c'.
Proof. intros. eapply evict_sound; eauto. Qed.

Theorem C09_option_toggle_restores : forall history T st, NoDup (map row_key T) -> forall r, In r T ->
  binding (apply_table (fold_left apply_table history st) T) (row_key r) = Some (snd r).
Proof. exact toggle_restores. Qed.

Print Assumptions C09_memoisation_is_transparent.
Print Assumptions C09_eviction_is_harmless.
Print Assumptions C09_option_toggle_restores.
