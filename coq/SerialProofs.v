(* SerialProofs.v — C17: tofile writes exactly tobytes(), for every chunk size that is a positive multiple of 8. *)
From BS Require Import Prims BitsCore Search Store SeqProofs CodecProofs StoreProofs.
From Coq Require Import ZifyBool.
Open Scope Z_scope.

Lemma chunks8_nil f : chunks8 f [] = [].
Proof. destruct f; reflexivity. Qed.

Lemma chunks8_fuel_irrel : forall f1 (b : bits) f2, (length b <= 8 * f1)%nat -> (length b <= 8 * f2)%nat -> chunks8 f1 b = chunks8 f2 b.
Proof.
  induction f1 as [|f1 IH]; intros b f2 H1 H2.
  - destruct b; [|cbn in H1; lia]. rewrite !chunks8_nil; reflexivity.
  - destruct b as [|x b']; [rewrite !chunks8_nil; reflexivity|].
    destruct f2 as [|f2]; [cbn in H2; lia|].
    rewrite !chunks8_cons by discriminate. f_equal.
    apply IH; rewrite skipn_length; lia.
Qed.

Lemma chunks8_app : forall k (a r : bits) f fa fr, length a = (8 * k)%nat ->
  (length (a ++ r) <= 8 * f)%nat -> (length a <= 8 * fa)%nat -> (length r <= 8 * fr)%nat ->
  chunks8 f (a ++ r) = chunks8 fa a ++ chunks8 fr r.
Proof.
  induction k as [|k IH]; intros a r f fa fr Ha Hf Hfa Hfr.
  - destruct a; [|cbn in Ha; lia]. rewrite chunks8_nil. cbn [app]. apply chunks8_fuel_irrel; [exact Hf|exact Hfr].
  - rewrite <- (firstn_skipn 8 a) in *. set (a1 := firstn 8 a) in *. set (a' := skipn 8 a) in *.
    assert (L1 : length a1 = 8%nat) by (unfold a1; rewrite firstn_length; rewrite app_length in Ha; unfold a1, a' in Ha; rewrite firstn_length, skipn_length in Ha; lia).
    assert (L2 : length a' = (8 * k)%nat) by (rewrite app_length in Ha; lia).
    rewrite app_length in Hfa. rewrite !app_length in Hf.
    destruct f as [|f]; [lia|]. destruct fa as [|fa]; [lia|].
    rewrite <- app_assoc. rewrite !chunks8_app8 by exact L1. cbn [app]. f_equal.
    apply (IH a' r f fa fr); try assumption; try rewrite app_length; lia.
Qed.

Lemma pad8_length_le (b : bits) : (length (pad8 b) <= 8 * length b)%nat.
Proof.
  unfold pad8. rewrite app_length, repeat_length.
  destruct b as [|x b]; [cbn; lia|].
  assert (0 <= (- zlen (x :: b)) mod 8 < 8) by (apply Z.mod_pos_bound; lia). cbn [length]. lia.
Qed.

Lemma pad8_app (a b : bits) : zlen a mod 8 = 0 -> pad8 (a ++ b) = a ++ pad8 b.
Proof.
  intros Ha. unfold pad8. rewrite <- app_assoc. do 3 f_equal. rewrite zlen_app.
  replace (- (zlen a + zlen b)) with (- zlen b + (- (zlen a / 8)) * 8).
  - rewrite Z.mod_add by lia. reflexivity.
  - pose proof (Z.div_mod (zlen a) 8 ltac:(lia)). lia.
Qed.

Theorem tobytes_app (a b : bits) : zlen a mod 8 = 0 -> tobytes (a ++ b) = tobytes a ++ tobytes b.
Proof.
  intros Ha. unfold tobytes. rewrite (pad8_app a b Ha), (pad8_whole a Ha). rewrite <- map_app. f_equal.
  assert (exists k, length a = (8 * k)%nat) as [k Hk].
  { exists (Z.to_nat (zlen a / 8)). unfold zlen in *. pose proof (Z.div_mod (Z.of_nat (length a)) 8 ltac:(lia)). lia. }
  apply (chunks8_app k); try assumption.
  - rewrite !app_length. pose proof (pad8_length_le b). lia.
  - lia.
  - apply pad8_length_le.
Qed.

Lemma tobytes_nil : tobytes [] = [].
Proof. reflexivity. Qed.

Lemma skipn_skipn' {A} (l : list A) : forall a b, skipn a (skipn b l) = skipn (b + a) l.
Proof. induction l as [|x l IH]; intros a b; [now rewrite !skipn_nil|]. destruct b; [reflexivity|]. cbn [skipn Nat.add]. apply IH. Qed.

(* the cut loop over the whole bitstring, msb0, no count: the chunks' bytes concatenate to the bytes of the rest of the data *)
Lemma cut_loop_tobytes n : 0 < n -> n mod 8 = 0 -> forall fuel (d : bits) s c,
  0 <= s <= zlen d -> (Z.to_nat (zlen d - s) < fuel)%nat ->
  exists chunks, cut_loop fuel false d n s (zlen d) None c = Ok chunks /\
                 flat_map tobytes chunks = tobytes (skipn (Z.to_nat s) d).
Proof.
  intros Hn Hn8. induction fuel as [|fuel IH]; intros d s c Hs Hf; [lia|].
  cbn [cut_loop]. unfold getslice, getslice_msb0.
  rewrite (seq_slice_unit false d s (Z.min (s + n) (zlen d))) by lia. cbn [bind].
  set (e := Z.min (s + n) (zlen d)).
  assert (Lc : zlen (sub d s e) = e - s).
  { unfold sub. rewrite zlen_firstn, zlen_skipn. lia. }
  rewrite Lc.
  destruct (e - s =? 0) eqn:E0.
  - exists []. split; [reflexivity|]. cbn [flat_map].
    assert (s = zlen d) by lia. subst s. unfold zlen. rewrite Nat2Z.id, skipn_all. reflexivity.
  - destruct (e - s =? n) eqn:En; cbn [negb].
    + (* a full chunk *)
      assert (He : e = s + n) by lia.
      destruct (IH d (s + n) (c + 1)) as (rest & Hr & Hb); [lia|lia|].
      rewrite Hr. cbn [bind]. exists (sub d s e :: rest). split; [reflexivity|].
      cbn [flat_map]. rewrite Hb.
      rewrite <- tobytes_app by (rewrite Lc; rewrite He; replace (s + n - s) with n by lia; exact Hn8).
      f_equal. unfold sub. rewrite He. replace (s + n - s) with n by lia.
      replace (Z.to_nat (s + n)) with (Z.to_nat s + Z.to_nat n)%nat by lia.
      rewrite <- skipn_skipn'. apply firstn_skipn.
    + (* the last, shorter chunk *)
      exists [sub d s e]. split; [reflexivity|]. cbn [flat_map]. rewrite app_nil_r.
      assert (He : e = zlen d) by lia. rewrite He. rewrite sub_to_end. reflexivity.
Qed.

Theorem tofile_eq_tobytes (b : bits) (chunk : Z) : 0 < chunk -> chunk mod 8 = 0 -> tofile b chunk = Ok (tobytes b).
Proof.
  intros Hc H8. unfold tofile, bs_cut, validate_slice.
  pose proof (zlen_nonneg b) as Hn.
  replace ((0 <=? 0) && (0 <=? zlen b) && (zlen b <=? zlen b)) with true by lia. cbn [bind].
  destruct (chunk <=? 0) eqn:E; [lia|].
  destruct (cut_loop_tobytes chunk Hc H8 (S (length b)) b 0 0) as (chunks & Hcut & Hb); [lia|unfold zlen; lia|].
  rewrite Hcut. cbn [bind]. rewrite Hb. reflexivity.
Qed.

Theorem tofile_real_chunk (b : bits) : tofile b TOFILE_CHUNK = Ok (tobytes b).
Proof. apply tofile_eq_tobytes; reflexivity. Qed.
