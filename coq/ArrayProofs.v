(* ArrayProofs.v — C14: every modelled Array operation commutes with the abstraction
   data = concat items ++ trailing, i.e. is the Python list operation on the items and leaves the trailing bits alone. *)
From BS Require Import Prims BitsCore Mutators SeqProofs MutSpec MutProofs ArrayM.
From Coq Require Import ZifyBool.
Open Scope Z_scope.

Section ArrayProofs.
  Variable w : Z.
  Hypothesis w_pos : 0 < w.

  Definition wfA (its : list bits) (tr : bits) : Prop := Forall (fun it : bits => zlen it = w) its /\ zlen tr < w.
  Definition mk (its : list bits) (tr : bits) : bits := concat its ++ tr.

  Lemma zlen_concat its : Forall (fun it : bits => zlen it = w) its -> zlen (concat its) = zlen its * w.
  Proof.
    induction 1 as [|it its Hit _ IH]; [reflexivity|]. cbn [concat]. rewrite zlen_app, IH, Hit, zlen_cons. lia.
  Qed.

  Lemma arr_len_mk its tr : wfA its tr -> arr_len w (mk its tr) = zlen its.
  Proof.
    intros [Hi Ht]. unfold arr_len, mk. rewrite zlen_app, zlen_concat by exact Hi.
    pose proof (zlen_nonneg tr). rewrite Z.add_comm, Z.div_add by lia. rewrite Z.div_small by lia. lia.
  Qed.

  Lemma trailing_mk its tr : wfA its tr -> trailing w (mk its tr) = tr.
  Proof.
    intros H. unfold trailing. rewrite arr_len_mk by exact H. unfold mk. destruct H as [Hi Ht].
    apply drop_app_exact. now rewrite zlen_concat.
  Qed.

  (* splitting the items around position k *)
  Lemma concat_split (its : list bits) k : (k < length its)%nat ->
    concat its = concat (firstn k its) ++ nth k its [] ++ concat (skipn (S k) its).
  Proof.
    revert k. induction its as [|it its IH]; intros k Hk; [cbn in Hk; lia|].
    destruct k; [reflexivity|]. cbn [firstn skipn nth concat]. rewrite <- app_assoc. f_equal. apply IH. cbn in Hk. lia.
  Qed.

  Lemma Forall_firstn {A} (P : A -> Prop) l n : Forall P l -> Forall P (firstn n l).
  Proof. intros H. revert n. induction H; intros [|n]; cbn; constructor; auto. Qed.
  Lemma Forall_skipn {A} (P : A -> Prop) l n : Forall P l -> Forall P (skipn n l).
  Proof. intros H. revert n. induction H; intros [|n]; cbn; auto. Qed.

  (* the norm of a Python index *)
  Definition pyidx (n key : Z) : option Z :=
    let k := if key <? 0 then key + n else key in if (k <? 0) || (k >=? n) then None else Some k.

  Theorem getitem_is_list_index its tr key : wfA its tr ->
    arr_getitem w (mk its tr) key =
    match pyidx (zlen its) key with Some k => Ok (nth (Z.to_nat k) its []) | None => Err IndexError end.
  Proof.
    intros H. unfold arr_getitem, pyidx. rewrite arr_len_mk by exact H.
    set (k := if key <? 0 then key + zlen its else key).
    destruct ((k <? 0) || (k >=? zlen its)) eqn:E; [reflexivity|]. f_equal.
    destruct H as [Hi Ht]. assert (Hk : (Z.to_nat k < length its)%nat) by (unfold zlen in *; lia).
    unfold mk. rewrite (concat_split its (Z.to_nat k) Hk). rewrite <- !app_assoc.
    rewrite drop_app_exact.
    2:{ rewrite zlen_concat by (apply Forall_firstn; exact Hi). rewrite zlen_firstn. unfold zlen in *. lia. }
    apply take_app_exact.
    assert (Hn : In (nth (Z.to_nat k) its []) its) by (apply nth_In; exact Hk).
    rewrite Forall_forall in Hi. symmetry. now apply Hi.
  Qed.

  (* list update / removal / insertion *)
  Definition list_set {A} (l : list A) (k : nat) (x : A) : list A := firstn k l ++ [x] ++ skipn (S k) l.
  Definition list_del {A} (l : list A) (k : nat) : list A := firstn k l ++ skipn (S k) l.
  Definition list_ins {A} (l : list A) (k : nat) (x : A) : list A := firstn k l ++ [x] ++ skipn k l.

  Lemma nth_len its k : Forall (fun it : bits => zlen it = w) its -> (k < length its)%nat -> zlen (nth k its []) = w.
  Proof. intros Hi Hk. rewrite Forall_forall in Hi. apply Hi. now apply nth_In. Qed.

  Theorem setitem_is_list_assignment its tr key e : wfA its tr -> zlen e = w ->
    arr_setitem w (mk its tr) key e =
    match pyidx (zlen its) key with Some k => Ok (mk (list_set its (Z.to_nat k) e) tr) | None => Err IndexError end.
  Proof.
    intros H He. unfold arr_setitem, pyidx. rewrite arr_len_mk by exact H.
    set (k := if key <? 0 then key + zlen its else key).
    destruct ((k <? 0) || (k >=? zlen its)) eqn:E; [reflexivity|].
    destruct H as [Hi Ht]. assert (Hk : (Z.to_nat k < length its)%nat) by (unfold zlen in *; lia).
    pose proof (step_refines (mk its tr) (MOverwrite e (w * k))) as Hs. cbn [model_step spec_step] in Hs. rewrite Hs. clear Hs.
    unfold norm_pos.
    assert (Hlen : zlen (mk its tr) = zlen its * w + zlen tr) by (unfold mk; rewrite zlen_app, zlen_concat by exact Hi; reflexivity).
    pose proof (zlen_nonneg tr).
    destruct (w * k <? 0) eqn:E1; [nia|]. rewrite Hlen.
    destruct ((0 <=? w * k) && (w * k <=? zlen its * w + zlen tr)) eqn:E2; [|nia].
    f_equal. unfold mk, list_set. rewrite (concat_split its (Z.to_nat k) Hk) at 1 2. rewrite <- !app_assoc.
    set (A := concat (firstn (Z.to_nat k) its)). set (X := nth (Z.to_nat k) its []). set (C := concat (skipn (S (Z.to_nat k)) its)).
    assert (LA : zlen A = w * k).
    { unfold A. rewrite zlen_concat by (apply Forall_firstn; exact Hi). rewrite zlen_firstn. unfold zlen in *. lia. }
    assert (LX : zlen X = w) by (apply nth_len; assumption).
    rewrite take_app_exact by lia.
    rewrite (app_assoc A X). rewrite drop_app_exact by (rewrite zlen_app; lia).
    rewrite !concat_app. cbn [concat]. rewrite app_nil_r. rewrite <- !app_assoc. reflexivity.
  Qed.

  Theorem delitem_is_list_deletion its tr key : wfA its tr ->
    arr_delitem w (mk its tr) key =
    match pyidx (zlen its) key with Some k => Ok (mk (list_del its (Z.to_nat k)) tr) | None => Err IndexError end.
  Proof.
    intros H. unfold arr_delitem, pyidx. rewrite arr_len_mk by exact H.
    set (k := if key <? 0 then key + zlen its else key).
    destruct ((k <? 0) || (k >=? zlen its)) eqn:E; [reflexivity|].
    destruct H as [Hi Ht]. assert (Hk : (Z.to_nat k < length its)%nat) by (unfold zlen in *; lia).
    assert (Hlen : zlen (mk its tr) = zlen its * w + zlen tr) by (unfold mk; rewrite zlen_app, zlen_concat by exact Hi; reflexivity).
    pose proof (zlen_nonneg tr).
    unfold ba_delitem_slice, delslice, delslice_msb0. rewrite delslice_unit by nia. f_equal.
    unfold mk, list_del. rewrite (concat_split its (Z.to_nat k) Hk) at 1 2. rewrite <- !app_assoc.
    set (A := concat (firstn (Z.to_nat k) its)). set (X := nth (Z.to_nat k) its []). set (C := concat (skipn (S (Z.to_nat k)) its)).
    assert (LA : zlen A = w * k).
    { unfold A. rewrite zlen_concat by (apply Forall_firstn; exact Hi). rewrite zlen_firstn. unfold zlen in *. lia. }
    assert (LX : zlen X = w) by (apply nth_len; assumption).
    rewrite take_app_exact by lia.
    rewrite (app_assoc A X). rewrite drop_app_exact by (rewrite zlen_app; lia).
    rewrite concat_app, <- app_assoc. reflexivity.
  Qed.

  Theorem append_is_list_append its e : Forall (fun it : bits => zlen it = w) its -> zlen e = w ->
    arr_append w (mk its []) e = Ok (mk (its ++ [e]) []).
  Proof.
    intros Hi He. unfold arr_append, mk. rewrite app_nil_r, zlen_concat by exact Hi. rewrite Z.mod_mul by lia.
    cbn. f_equal. rewrite concat_app. cbn. now rewrite !app_nil_r.
  Qed.
  Theorem append_refused_with_trailing_bits its tr e : wfA its tr -> tr <> [] -> arr_append w (mk its tr) e = Err ValueError.
  Proof.
    intros [Hi Ht] Hne. unfold arr_append, mk. rewrite zlen_app, zlen_concat by exact Hi.
    assert (0 < zlen tr) by (destruct tr; [congruence|rewrite zlen_cons; pose proof (zlen_nonneg tr); lia]).
    rewrite Z.add_comm, Z.mod_add by lia. rewrite Z.mod_small by lia. destruct (zlen tr =? 0) eqn:E; [lia|reflexivity].
  Qed.

  Theorem insert_is_list_insert its tr i e : wfA its tr -> e <> [] ->
    arr_insert w (mk its tr) i e =
    let n := zlen its in
    let k := Z.min (if i <? 0 then Z.max (i + n) 0 else i) n in
    Ok (mk (list_ins its (Z.to_nat k) e) tr).
  Proof.
    intros H Hne. unfold arr_insert. rewrite arr_len_mk by exact H. cbn zeta.
    set (k := Z.min (if i <? 0 then Z.max (i + zlen its) 0 else i) (zlen its)).
    pose proof (zlen_nonneg its) as Hn.
    assert (Hk : 0 <= k <= zlen its) by (unfold k; destruct (i <? 0) eqn:Ei; lia).
    destruct H as [Hi Ht].
    pose proof (step_refines (mk its tr) (MInsert e (k * w))) as Hs. cbn [model_step spec_step] in Hs. rewrite Hs. clear Hs.
    unfold norm_pos.
    assert (Hlen : zlen (mk its tr) = zlen its * w + zlen tr) by (unfold mk; rewrite zlen_app, zlen_concat by exact Hi; reflexivity).
    pose proof (zlen_nonneg tr).
    destruct (k * w <? 0) eqn:E1; [nia|]. rewrite Hlen.
    destruct ((0 <=? k * w) && (k * w <=? zlen its * w + zlen tr)) eqn:E2; [|nia].
    f_equal. unfold mk, list_ins.
    rewrite <- (firstn_skipn (Z.to_nat k) its) at 1 2. rewrite concat_app, <- !app_assoc.
    set (A := concat (firstn (Z.to_nat k) its)).
    assert (LA : zlen A = k * w).
    { unfold A. rewrite zlen_concat by (apply Forall_firstn; exact Hi). rewrite zlen_firstn. unfold zlen in *. lia. }
    rewrite take_app_exact by lia. rewrite drop_app_exact by lia.
    rewrite !concat_app. cbn [concat]. rewrite app_nil_r, <- !app_assoc. reflexivity.
  Qed.
End ArrayProofs.
