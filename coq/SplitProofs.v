(* SplitProofs.v — C07: split(delimiter) partitions the window: the pieces concatenate to d[start:end], and every piece after the
   first begins with the delimiter (msb0, no count; with a count the pieces are a prefix of that partition). *)
From BS Require Import Prims BitsCore Search SeqProofs RangeLemmas SearchProofs FastPath SearchTop StoreProofs MutSpec MutProofs SerialProofs.
From Coq Require Import ZifyBool.
Ltac Zify.zify_post_hook ::= Z.to_euclidean_division_equations.
Open Scope Z_scope.

Lemma firstn_plus {A} (l : list A) : forall n m, firstn (n + m) l = firstn n l ++ firstn m (skipn n l).
Proof. induction l as [|x l IH]; intros [|n] m; cbn; try reflexivity; [now rewrite firstn_nil|]. f_equal. apply IH. Qed.

Lemma sub_app_adj {A} (l : list A) a m b : 0 <= a -> a <= m -> m <= b -> b <= zlen l -> sub l a m ++ sub l m b = sub l a b.
Proof.
  intros. unfold sub. replace (Z.to_nat (b - a)) with (Z.to_nat (m - a) + Z.to_nat (b - m))%nat by lia.
  rewrite firstn_plus. f_equal. f_equal. rewrite skipn_skipn'. f_equal. lia.
Qed.

Lemma getslice_sub (d : bits) a b : 0 <= a -> a <= b -> b <= zlen d -> getslice false d (Some a) (Some b) = Ok (sub d a b).
Proof. intros. unfold getslice, getslice_msb0. apply seq_slice_unit; lia. Qed.

(* find_msb0 on explicit positions *)
Lemma find_msb0_spec d p s e ba : p <> [] -> 0 <= s -> s <= e -> e <= zlen d ->
  find_msb0 d p s e ba = Ok (head_opt (spec_matches d p s e ba)).
Proof.
  intros Hp H0 H1 H2.
  assert (Hv : validate_slice d (Some s) (Some e) = Ok (s, e)).
  { unfold validate_slice. replace (s <? 0) with false by lia. replace (e <? 0) with false by lia.
    replace ((0 <=? s) && (s <=? e) && (e <=? zlen d)) with true by lia. reflexivity. }
  pose proof (find_spec d p (Some s) (Some e) ba s e Hp Hv) as F. unfold bs_find in F.
  apply nonempty_zlen in Hp. rewrite Hp, Hv in F. exact F.
Qed.

Lemma find_msb0_found d p s e ba q : p <> [] -> 0 <= s -> s <= e -> e <= zlen d ->
  find_msb0 d p s e ba = Ok (Some q) -> s <= q /\ q + zlen p <= e /\ sub d q (q + zlen p) = p.
Proof.
  intros Hp H0 H1 H2 H. rewrite find_msb0_spec in H by assumption. injection H as H.
  destruct (spec_matches d p s e ba) as [|q0 r] eqn:E; [discriminate|]. cbn in H. injection H as ->.
  assert (Hin : In q (spec_matches d p s e ba)) by (rewrite E; left; reflexivity).
  unfold spec_matches in Hin. apply filter_In in Hin as [Hr Ho]. apply In_zrange in Hr.
  apply andb_prop in Ho as [Ho _]. unfold occurs_at in Ho. apply andb_prop in Ho as [Hb Hbits]. apply beq_bits_eq in Hbits.
  repeat split; try lia. exact Hbits.
Qed.

Definition starts_with (piece p : bits) : Prop := firstn (length p) piece = p.

Lemma split_loop_S f d p e ba sp pos c : split_loop (S f) false d p e None ba sp pos c =
  (do found <- find_msb0 d p (pos + zlen p) e ba;
   match found with
   | None => do x <- getslice false d (Some sp) (Some e); Ok [x]
   | Some q => do x <- getslice false d (Some sp) (Some q);
               do rest <- split_loop f false d p e None ba q q (c + 1); Ok (x :: rest)
   end).
Proof. reflexivity. Qed.

(* the loop: from a delimiter position sp (with pos = sp) the remaining pieces concatenate to d[sp:e] *)
Lemma split_loop_concat d p e ba : p <> [] -> e <= zlen d ->
  forall fuel sp c, 0 <= sp -> sp <= e -> (Z.to_nat (e - sp) < fuel)%nat ->
  exists pieces, split_loop fuel false d p e None ba sp sp c = Ok pieces /\ concat pieces = sub d sp e.
Proof.
  intros Hp He. pose proof (zlen_nonneg p) as Lp.
  assert (Lp1 : 0 < zlen p) by (destruct p; [congruence|unfold zlen; cbn [length]; lia]).
  induction fuel as [|fuel IH]; intros sp c H0 H1 Hf; [lia|].
  rewrite split_loop_S.
  destruct (Z_le_gt_dec (sp + zlen p) e) as [Hfit|Hnofit].
  - rewrite find_msb0_spec by (try assumption; lia).
    destruct (head_opt (spec_matches d p (sp + zlen p) e ba)) as [q|] eqn:Eh; cbn [bind].
    + assert (Hq : find_msb0 d p (sp + zlen p) e ba = Ok (Some q)) by (rewrite find_msb0_spec by (try assumption; lia); now rewrite Eh).
      destruct (find_msb0_found d p (sp + zlen p) e ba q Hp ltac:(lia) Hfit He Hq) as (Q1 & Q2 & Q3).
      rewrite (getslice_sub d sp q) by lia. cbn [bind].
      destruct (IH q (c + 1)) as (rest & Hr & Hc); [lia|lia|lia|].
      rewrite Hr. cbn [bind]. eexists. split; [reflexivity|]. cbn [concat]. rewrite Hc. apply sub_app_adj; lia.
    + rewrite (getslice_sub d sp e) by lia. cbn [bind]. eexists. split; [reflexivity|]. cbn [concat]. apply app_nil_r.
  - (* no room for another delimiter: the search window [sp+|p|, e) is empty or inverted *)
    assert (Hnone : find_msb0 d p (sp + zlen p) e ba = Ok None).
    { unfold find_msb0, store_find. destruct ba; cbn [negb].
      - unfold findall_store_msb0. destruct (true && (zlen p mod 8 =? 0)) eqn:E2.
        + unfold findall_fast. 
          set (sb := (sp + zlen p + 7) / 8). set (eb := e / 8).
          assert (Hbb : eb <= sb /\ 0 <= sb /\ 0 <= eb) by (unfold sb, eb; lia).
          assert (Hsl : seq_slice false d (mkslice (Some (sb * 8)) (Some (eb * 8)) None) = Ok []).
          { unfold seq_slice, slice_indices. cbn [s_step s_start s_stop]. cbn [Z.eqb Z.ltb Z.compare bind].
            unfold range_list, range_len. cbn [Z.gtb Z.compare].
            match goal with |- context [if ?c then _ else 0] => replace c with false end; [reflexivity|].
            unfold clamp_index. symmetry. pose proof (zlen_nonneg d).
            destruct (sb * 8 <? 0) eqn:?; destruct (eb * 8 <? 0) eqn:?; try lia;
            destruct (sb * 8 >? zlen d) eqn:?; destruct (eb * 8 >? zlen d) eqn:?; lia. }
          rewrite Hsl. cbn [bind to_bytes length chunks8 fast_loop].
          destruct (0 <? eb - sb) eqn:E3; [lia|reflexivity].
        + cbn [bind]. unfold search_all. rewrite zrange_empty by lia. reflexivity.
      - cbn [bind]. unfold ba_find, search_all. rewrite zrange_empty by lia. reflexivity. }
    rewrite Hnone. cbn [bind]. rewrite (getslice_sub d sp e) by lia. cbn [bind]. eexists. split; [reflexivity|]. cbn [concat]. apply app_nil_r.
Qed.

Theorem split_partitions_window d p start stop ba s e : p <> [] -> validate_slice d start stop = Ok (s, e) ->
  exists pieces, bs_split false d p start stop None ba = Ok pieces /\ concat pieces = sub d s e.
Proof.
  intros Hp Hv. destruct (validate_slice_ok _ _ _ _ _ Hv) as (H0 & H1 & H2).
  unfold bs_split. apply nonempty_zlen in Hp as Hz. rewrite Hz, Hv. cbn [bind].
  rewrite find_msb0_spec by assumption.
  destruct (head_opt (spec_matches d p s e ba)) as [q|] eqn:Eh; cbn [bind].
  - assert (Hq : find_msb0 d p s e ba = Ok (Some q)) by (rewrite find_msb0_spec by assumption; now rewrite Eh).
    destruct (find_msb0_found d p s e ba q Hp H0 H1 H2 Hq) as (Q1 & Q2 & Q3).
    pose proof (zlen_nonneg p).
    rewrite (getslice_sub d s q) by lia. cbn [bind].
    destruct (split_loop_concat d p e ba Hp H2 (S (length d)) q 1) as (rest & Hr & Hc); [lia|lia|unfold zlen in *; lia|].
    rewrite Hr. cbn [bind]. eexists. split; [reflexivity|]. cbn [concat]. rewrite Hc. apply sub_app_adj; lia.
  - rewrite (getslice_sub d s e) by lia. cbn [bind]. eexists. split; [reflexivity|]. cbn [concat]. apply app_nil_r.
Qed.

(* every piece after the first begins with the delimiter *)
Lemma firstn_sub_prefix (d : bits) a m b : 0 <= a -> a <= m -> m <= b -> b <= zlen d -> firstn (Z.to_nat (m - a)) (sub d a b) = sub d a m.
Proof. intros. unfold sub. rewrite firstn_firstn. f_equal. lia. Qed.

Lemma split_loop_delims d p e ba : p <> [] -> e <= zlen d ->
  forall fuel sp c, 0 <= sp -> sp + zlen p <= e -> sub d sp (sp + zlen p) = p -> (Z.to_nat (e - sp) < fuel)%nat ->
  exists pieces, split_loop fuel false d p e None ba sp sp c = Ok pieces /\ Forall (fun x => firstn (length p) x = p) pieces.
Proof.
  intros Hp He. pose proof (zlen_nonneg p) as Lp.
  assert (Lp1 : 0 < zlen p) by (destruct p; [congruence|unfold zlen; cbn [length]; lia]).
  induction fuel as [|fuel IH]; intros sp c H0 Hfit Hocc Hf; [lia|].
  rewrite split_loop_S. rewrite find_msb0_spec by (try assumption; lia).
  assert (Hpre : forall b, sp + zlen p <= b -> b <= e -> firstn (length p) (sub d sp b) = p).
  { intros b Hb1 Hb2. replace (length p) with (Z.to_nat (sp + zlen p - sp)) by (unfold zlen; lia).
    rewrite firstn_sub_prefix by lia. exact Hocc. }
  destruct (head_opt (spec_matches d p (sp + zlen p) e ba)) as [q|] eqn:Eh; cbn [bind].
  - assert (Hq : find_msb0 d p (sp + zlen p) e ba = Ok (Some q)) by (rewrite find_msb0_spec by (try assumption; lia); now rewrite Eh).
    destruct (find_msb0_found d p (sp + zlen p) e ba q Hp ltac:(lia) Hfit He Hq) as (Q1 & Q2 & Q3).
    rewrite (getslice_sub d sp q) by lia. cbn [bind].
    destruct (IH q (c + 1)) as (rest & Hr & Hc); [lia|lia|exact Q3|lia|].
    rewrite Hr. cbn [bind]. eexists. split; [reflexivity|]. constructor; [apply Hpre; lia|exact Hc].
  - rewrite (getslice_sub d sp e) by lia. cbn [bind]. eexists. split; [reflexivity|]. constructor; [apply Hpre; lia|constructor].
Qed.

Theorem split_pieces_begin_with_delimiter d p start stop ba s e pieces : p <> [] -> validate_slice d start stop = Ok (s, e) ->
  bs_split false d p start stop None ba = Ok pieces ->
  match pieces with [] => False | _ :: rest => Forall (fun x => firstn (length p) x = p) rest end.
Proof.
  intros Hp Hv. destruct (validate_slice_ok _ _ _ _ _ Hv) as (H0 & H1 & H2).
  unfold bs_split. apply nonempty_zlen in Hp as Hz. rewrite Hz, Hv. cbn [bind].
  rewrite find_msb0_spec by assumption.
  destruct (head_opt (spec_matches d p s e ba)) as [q|] eqn:Eh; cbn [bind].
  - assert (Hq : find_msb0 d p s e ba = Ok (Some q)) by (rewrite find_msb0_spec by assumption; now rewrite Eh).
    destruct (find_msb0_found d p s e ba q Hp H0 H1 H2 Hq) as (Q1 & Q2 & Q3).
    pose proof (zlen_nonneg p).
    rewrite (getslice_sub d s q) by lia. cbn [bind].
    destruct (split_loop_delims d p e ba Hp H2 (S (length d)) q 1) as (rest & Hr & Hc); [lia|lia|exact Q3|unfold zlen in *; lia|].
    rewrite Hr. cbn [bind]. intros [= <-]. exact Hc.
  - rewrite (getslice_sub d s e) by lia. cbn [bind]. intros [= <-]. constructor.
Qed.
