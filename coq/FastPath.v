(* FastPath.v — C07: the byte-aligned whole-byte fast path of BitStore.findall_msb0 (bytes.find over tobytes() of the byte window)
   returns exactly the brute-force byte-aligned matches. *)
From BS Require Import Prims BitsCore Search SeqProofs RangeLemmas SearchProofs CodecProofs SerialProofs.
From BS Require GolombProofs.
From Coq Require Import ZifyBool.
Ltac Zify.zify_post_hook ::= Z.to_euclidean_division_equations.
Open Scope Z_scope.

(* ---------- whole-byte lists ---------- *)
Definition whole (x : bits) : Prop := zlen x mod 8 = 0.

Lemma to_bytes_whole_app (a r : bits) : whole a -> whole r -> to_bytes (a ++ r) = to_bytes a ++ to_bytes r.
Proof.
  intros Ha Hr. unfold to_bytes. rewrite (pad8_app a r Ha), (pad8_whole a Ha).
  assert (exists k, length a = (8 * k)%nat) as [k Hk].
  { exists (Z.to_nat (zlen a / 8)). unfold whole, zlen in *. lia. }
  apply (chunks8_app k); try assumption.
  - rewrite !app_length. pose proof (pad8_length_le r). lia.
  - lia.
  - apply pad8_length_le.
Qed.

Lemma to_bytes_nil : to_bytes [] = [].
Proof. reflexivity. Qed.

Lemma to_bytes_8 (a : bits) : length a = 8%nat -> to_bytes a = [a].
Proof.
  intros Ha. unfold to_bytes. rewrite pad8_whole by (unfold zlen; rewrite Ha; reflexivity).
  rewrite Ha. rewrite <- (app_nil_r a) at 1. rewrite chunks8_app8 by exact Ha. reflexivity.
Qed.

Lemma whole_split (x : bits) : whole x -> x <> [] -> exists a r, x = a ++ r /\ length a = 8%nat /\ whole r.
Proof.
  intros Hw Hx. exists (firstn 8 x), (skipn 8 x). unfold whole, zlen in *.
  assert (8 <= length x)%nat by (destruct x; [congruence|cbn [length] in *; lia]).
  repeat split; [symmetry; apply firstn_skipn|rewrite firstn_length; lia|rewrite skipn_length; lia].
Qed.

Lemma whole_ind (P : bits -> Prop) : P [] -> (forall a r, length a = 8%nat -> whole r -> P r -> P (a ++ r)) -> forall x, whole x -> P x.
Proof.
  intros H0 Hs x. remember (length x) as n eqn:Hn. revert x Hn.
  induction n as [n IH] using lt_wf_ind. intros x Hn Hw.
  destruct x as [|b x']; [exact H0|].
  destruct (whole_split (b :: x') Hw ltac:(discriminate)) as (a & r & E & La & Wr).
  rewrite E. apply Hs; try assumption. apply (IH (length r)); try reflexivity; try assumption.
  rewrite Hn, E, app_length. lia.
Qed.

Lemma to_bytes_zlen (x : bits) : whole x -> zlen (to_bytes x) = zlen x / 8.
Proof.
  revert x. apply whole_ind; [reflexivity|]. intros a r La Wr IH.
  rewrite to_bytes_whole_app by (try assumption; unfold whole, zlen; rewrite La; reflexivity).
  rewrite to_bytes_8 by exact La. rewrite !zlen_app, IH. unfold zlen in *. cbn [length]. unfold whole, zlen in Wr. lia.
Qed.

Lemma beq_bits_app (a1 a2 b1 b2 : bits) : length a1 = length b1 -> beq_bits (a1 ++ a2) (b1 ++ b2) = beq_bits a1 b1 && beq_bits a2 b2.
Proof.
  revert b1. induction a1 as [|x a1 IH]; intros [|y b1] H; try discriminate; [reflexivity|].
  cbn [app beq_bits]. rewrite IH by (cbn in H; lia). now rewrite andb_assoc.
Qed.

(* comparing byte strings = comparing the bits *)
Lemma beq_bytes_to_bytes : forall x, whole x -> forall y, whole y -> zlen x = zlen y -> beq_bytes (to_bytes x) (to_bytes y) = beq_bits x y.
Proof.
  apply (whole_ind (fun x => forall y, whole y -> zlen x = zlen y -> beq_bytes (to_bytes x) (to_bytes y) = beq_bits x y)).
  - intros y Wy Hl. destruct y; [reflexivity|]. unfold zlen in Hl. cbn in Hl. lia.
  - intros a r La Wr IH y Wy Hl.
    assert (y <> []) by (intros ->; rewrite zlen_app in Hl; unfold zlen in Hl; cbn in Hl; lia).
    destruct (whole_split y Wy H) as (a' & r' & -> & La' & Wr').
    assert (Wa : whole a) by (unfold whole, zlen; rewrite La; reflexivity).
    assert (Wa' : whole a') by (unfold whole, zlen; rewrite La'; reflexivity).
    rewrite (to_bytes_whole_app a r Wa Wr), (to_bytes_whole_app a' r' Wa' Wr'). rewrite (to_bytes_8 a La), (to_bytes_8 a' La').
    cbn [app beq_bytes]. rewrite beq_bits_app by congruence. f_equal. apply IH; [assumption|].
    rewrite !zlen_app in Hl. unfold zlen in *. lia.
Qed.

Lemma sub_sub {A} (l : list A) a b x y : 0 <= a -> a <= b -> b <= zlen l -> 0 <= x -> x <= y -> y <= b - a ->
  sub (sub l a b) x y = sub l (a + x) (a + y).
Proof.
  intros. unfold sub. rewrite skipn_firstn_comm. rewrite firstn_firstn. rewrite skipn_skipn'.
  f_equal; [|f_equal]; lia.
Qed.

Lemma sub_decomp {A} (l : list A) a b : 0 <= a -> a <= b -> b <= zlen l -> l = sub l 0 a ++ sub l a b ++ sub l b (zlen l).
Proof.
  intros. unfold sub. rewrite !Z.sub_0_r. cbn [Z.to_nat skipn].
  rewrite <- (firstn_skipn (Z.to_nat a) l) at 1. f_equal.
  rewrite <- (firstn_skipn (Z.to_nat (b - a)) (skipn (Z.to_nat a) l)) at 1. f_equal.
  rewrite skipn_skipn'. rewrite firstn_all2; [f_equal; lia|]. rewrite skipn_length. unfold zlen in *. lia.
Qed.

Lemma zlen_sub {A} (l : list A) a b : 0 <= a -> a <= b -> b <= zlen l -> zlen (sub l a b) = b - a.
Proof. intros. unfold sub. rewrite zlen_firstn, zlen_skipn. lia. Qed.

(* a sub-range of the bytes = the bytes of the corresponding sub-range of bits *)
Lemma sub_to_bytes (w : bits) j m : whole w -> 0 <= j -> 0 <= m -> j + m <= zlen w / 8 ->
  sub (to_bytes w) j (j + m) = to_bytes (sub w (8 * j) (8 * j + 8 * m)).
Proof.
  intros Ww Hj Hm Hb. unfold whole in Ww.
  assert (Hb8 : 8 * j + 8 * m <= zlen w) by lia.
  rewrite (sub_decomp w (8 * j) (8 * j + 8 * m)) at 1 by lia.
  set (a := sub w 0 (8 * j)). set (mid := sub w (8 * j) (8 * j + 8 * m)). set (r := sub w (8 * j + 8 * m) (zlen w)).
  assert (La : zlen a = 8 * j) by (unfold a; rewrite zlen_sub; lia).
  assert (Lm : zlen mid = 8 * m) by (unfold mid; rewrite zlen_sub; lia).
  assert (Lr : zlen r = zlen w - (8 * j + 8 * m)) by (unfold r; rewrite zlen_sub; lia).
  assert (Wa : whole a) by (unfold whole; lia). assert (Wm : whole mid) by (unfold whole; lia). assert (Wr : whole r) by (unfold whole; lia).
  assert (Wmr : whole (mid ++ r)) by (unfold whole; rewrite zlen_app; lia).
  rewrite to_bytes_whole_app by assumption. rewrite to_bytes_whole_app by assumption.
  replace j with (zlen (to_bytes a)) by (rewrite to_bytes_zlen by assumption; lia).
  replace m with (zlen (to_bytes mid)) at 1 by (rewrite to_bytes_zlen by assumption; lia).
  apply GolombProofs.sub_mid.
Qed.

(* ---------- bytes.find occurrence = bit occurrence at the byte position ---------- *)
Lemma bytes_occurs_spec (w p : bits) j : whole w -> whole p -> 
  bytes_occurs (to_bytes w) (to_bytes p) j =
  (0 <=? j) && (j + zlen p / 8 <=? zlen w / 8) && beq_bits (sub w (8 * j) (8 * j + zlen p)) p.
Proof.
  intros Ww Wp. unfold bytes_occurs. rewrite !to_bytes_zlen by assumption.
  destruct (0 <=? j) eqn:E1; [|reflexivity]. destruct (j + zlen p / 8 <=? zlen w / 8) eqn:E2; [|reflexivity]. cbn [andb].
  pose proof (zlen_nonneg p). unfold whole in *.
  rewrite sub_to_bytes by (try assumption; lia).
  replace (8 * (zlen p / 8)) with (zlen p) by lia.
  apply beq_bytes_to_bytes; try assumption.
  - unfold whole. rewrite zlen_sub by lia. lia.
  - rewrite zlen_sub by lia. lia.
Qed.

(* ---------- the loop ---------- *)
Lemma fast_loop_spec (b needle : list bits) sb : 0 < zlen needle -> forall fuel pos, 0 <= pos ->
  (Z.to_nat (zlen b - pos) < fuel)%nat ->
  fast_loop fuel b needle pos (zlen b) sb =
  Ok (map (fun j => (j + sb) * 8) (filter (bytes_occurs b needle) (zrange pos (zlen b - zlen needle + 1)))).
Proof.
  intros Hm. induction fuel as [|fuel IH]; intros pos Hp Hf; [lia|].
  cbn [fast_loop]. destruct (pos <? zlen b) eqn:E.
  - unfold bytes_find.
    destruct (filter (bytes_occurs b needle) (zrange pos (zlen b - zlen needle + 1))) as [|j r] eqn:F.
    + cbn. reflexivity.
    + destruct (filter_zrange_head _ _ _ _ _ F) as (Hj & _ & _ & Hr).
      destruct (j =? -1) eqn:Ej; [lia|].
      rewrite IH by lia. cbn [bind map]. rewrite Hr. reflexivity.
  - rewrite zrange_empty by lia. reflexivity.
Qed.

(* ---------- the theorem ---------- *)
Theorem fast_path_spec d p s e : p <> [] -> zlen p mod 8 = 0 -> 0 <= s -> s <= e -> e <= zlen d ->
  findall_fast d p s e = Ok (spec_matches d p s e true).
Proof.
  intros Hp Wp Hs Hse He. unfold findall_fast.
  set (sb := (s + 7) / 8). set (eb := e / 8).
  assert (Hsb : s <= sb * 8 < s + 8) by (unfold sb; lia).
  assert (Heb : eb * 8 <= e < eb * 8 + 8) by (unfold eb; lia).
  clearbody sb eb.
  assert (Lp : 0 < zlen p) by (destruct p; [congruence|unfold zlen; cbn [length]; lia]).
  destruct (Z_le_gt_dec sb eb) as [Hle|Hgt].
  - (* a non-empty byte window *)
    rewrite (seq_slice_unit false d (sb * 8) (eb * 8)) by lia. cbn [bind].
    set (w := sub d (sb * 8) (eb * 8)).
    assert (Lw : zlen w = 8 * (eb - sb)) by (unfold w; rewrite zlen_sub; lia).
    assert (Ww : whole w) by (unfold whole; lia).
    assert (Lb : zlen (to_bytes w) = eb - sb) by (rewrite to_bytes_zlen by assumption; lia).
    assert (Ln : zlen (to_bytes p) = zlen p / 8) by (apply to_bytes_zlen; exact Wp).
    rewrite <- Lb. rewrite fast_loop_spec; [| lia | lia | unfold zlen; lia].
    f_equal. unfold spec_matches. cbn [negb orb].
    apply incr_ext.
    + apply incr_map; [intros; lia|]. apply incr_filter, incr_zrange.
    + apply incr_filter, incr_zrange.
    + intros q. rewrite in_map_iff, filter_In, In_zrange. split.
      * intros (j & <- & Hj). apply filter_In in Hj as [Hr Ho]. apply In_zrange in Hr.
        rewrite bytes_occurs_spec in Ho by assumption.
        apply andb_prop in Ho as [Ho Hbits]. apply andb_prop in Ho as [Hj0 Hjm].
        unfold w in Hbits. rewrite sub_sub in Hbits by lia.
        unfold occurs_at. replace (sb * 8 + 8 * j) with ((j + sb) * 8) in Hbits by lia.
        replace (sb * 8 + (8 * j + zlen p)) with ((j + sb) * 8 + zlen p) in Hbits by lia.
        rewrite Hbits. split; [lia|]. rewrite andb_true_r.
        replace ((j + sb) * 8 mod 8 =? 0) with true by lia. lia.
      * intros [Hq Ho]. apply andb_prop in Ho as [Ho Hmod]. unfold occurs_at in Ho.
        apply andb_prop in Ho as [Hb Hbits].
        exists (q / 8 - sb). split; [lia|]. apply filter_In. split; [apply In_zrange; lia|].
        rewrite bytes_occurs_spec by assumption. rewrite Lw.
        unfold w. rewrite sub_sub by lia.
        replace (sb * 8 + 8 * (q / 8 - sb)) with q by lia.
        replace (sb * 8 + (8 * (q / 8 - sb) + zlen p)) with (q + zlen p) by lia.
        rewrite Hbits. rewrite andb_true_r.
        assert (Hq8 : q = 8 * (q / 8)) by lia.
        replace (8 * (eb - sb) / 8) with (eb - sb) by lia.
        assert (Hp8 : zlen p = 8 * (zlen p / 8)) by lia.
        set (qq := q / 8) in *. set (pp := zlen p / 8) in *. clearbody qq pp. lia.
  - (* no whole byte inside [s, e): nothing can match *)
    assert (Hsl : seq_slice false d (mkslice (Some (sb * 8)) (Some (eb * 8)) None) = Ok []).
    { unfold seq_slice, slice_indices. cbn [s_step s_start s_stop]. cbn [Z.eqb Z.ltb Z.compare bind].
      unfold range_list, range_len. cbn [Z.gtb Z.compare].
      match goal with |- context [if ?c then _ else 0] => replace c with false end.
      - reflexivity.
      - unfold clamp_index. symmetry. pose proof (zlen_nonneg d).
        destruct (sb * 8 <? 0) eqn:?; destruct (eb * 8 <? 0) eqn:?; try lia;
        destruct (sb * 8 >? zlen d) eqn:?; destruct (eb * 8 >? zlen d) eqn:?; lia. }
    rewrite Hsl. cbn [bind]. cbn [to_bytes length chunks8 fast_loop].
    replace (0 <? eb - sb) with false by lia. f_equal.
    unfold spec_matches. symmetry. apply filter_nil_iff. intros q Hq. apply In_zrange in Hq.
    cbn [negb orb]. destruct (q mod 8 =? 0) eqn:E; [|apply andb_false_r]. exfalso. lia.
Qed.

(* hence the two paths of BitStore.findall_msb0 agree with the same specification, whatever the pattern length *)
Theorem findall_store_spec d p s e ba : p <> [] -> 0 <= s -> s <= e -> e <= zlen d ->
  findall_store_msb0 d p s e ba = Ok (spec_matches d p s e ba).
Proof.
  intros Hp Hs Hse He. destruct (ba && (zlen p mod 8 =? 0)) eqn:E.
  - unfold findall_store_msb0. rewrite E. apply andb_prop in E as [-> E2]. apply fast_path_spec; try assumption. lia.
  - apply general_path_spec. rewrite E. reflexivity.
Qed.
