(* StreamHistory.v — C06: 0 <= pos <= len is an invariant of EVERY finite history of stream operations (msb0): reads, peeks, list reads,
   positioning, find/rfind/readto, and every BitStream mutator override; a failing operation leaves the stream as it was. *)
From BS Require Import Prims BitsCore SeqProofs Search Mutators MutSpec MutProofs MutProofs2 Stream StreamProofs RangeLemmas SearchProofs FastPath SearchTop StoreProofs.
From Coq Require Import ZifyBool.
Open Scope Z_scope.

Inductive sop :=
| ORead (t : token) | OPeek (t : token) | OReadlist (ts : list token) | OPeeklist (ts : list token)
| OSetPos (p : Z) | OSetBytepos (p : Z) | OBytealign
| OFind (p : bits) (start stop : option Z) (ba : bool) | ORfind (p : bits) (start stop : option Z) (ba : bool)
| OReadto (p : bits) (ba : bool)
| OAppend (bs : bits) | OPrepend (bs : bits) | OInsert (bs : bits) (pos : option Z)
| OOverwrite (bs : bits) (pos : option Z)      (* another bitstring *)
| OOverwriteSelf (pos : option Z)              (* s.overwrite(s, pos): the `bs is self` branch, bs = the stream's own content *)
| OSetitemInt (key : Z) (v : setval) | OSetitemSlice (k : pyslice) (v : setval) | ODelitemInt (key : Z) | ODelitemSlice (k : pyslice)
| OReplace (old new_ : bits) (start stop : option Z) (count : option Z) (ba : bool)
| OClear | OImul (n : Z).

(* the state after one operation, and whether it failed *)
Definition sstep (s : stream) (op : sop) : stream * bool :=
  let ok {A} (r : res A) := match r with Ok _ => true | Err _ => false end in
  match op with
  | ORead t => let '(s', r) := read_token s t in (s', ok r)
  | OPeek t => let '(s', r) := peek_token s t in (s', ok r)
  | OReadlist ts => let '(s', r) := readlist s ts in (s', ok r)
  | OPeeklist ts => let '(s', r) := peeklist s ts in (s', ok r)
  | OSetPos p => let '(s', r) := set_pos s p in (s', ok r)
  | OSetBytepos p => let '(s', r) := set_bytepos s p in (s', ok r)
  | OBytealign => let '(s', r) := bytealign s in (s', ok r)
  | OFind p a b ba => let '(s', r) := st_find false s p a b ba in (s', ok r)
  | ORfind p a b ba => let '(s', r) := st_rfind false s p a b ba in (s', ok r)
  | OReadto p ba => let '(s', r) := readto s p ba in (s', ok r)
  | OAppend bs => let '(s', r) := st_append s bs in (s', ok r)
  | OPrepend bs => let '(s', r) := st_prepend s bs in (s', ok r)
  | OInsert bs pos => let '(s', r) := st_insert s bs pos in (s', ok r)
  | OOverwrite bs pos => let '(s', r) := st_overwrite s false bs pos in (s', ok r)
  | OOverwriteSelf pos => let '(s', r) := st_overwrite s true (sbits s) pos in (s', ok r)
  | OSetitemInt key v => let '(s', r) := st_setitem_int s key v in (s', ok r)
  | OSetitemSlice k v => let '(s', r) := st_setitem_slice s k v in (s', ok r)
  | ODelitemInt key => let '(s', r) := st_delitem_int s key in (s', ok r)
  | ODelitemSlice k => let '(s', r) := st_delitem_slice s k in (s', ok r)
  | OReplace o n a b c ba => let '(s', r) := st_replace s o n a b c ba in (s', ok r)
  | OClear => let '(s', r) := st_clear s in (s', ok r)
  | OImul n => let '(s', r) := st_imul s n in (s', ok r)
  end.

Definition srun (s : stream) (ops : list sop) : stream := fold_left (fun st op => fst (sstep st op)) ops s.

(* ---------- helpers ---------- *)
Lemma readlist_valid s ts : valid s -> valid (fst (readlist s ts)).
Proof.
  unfold valid, readlist, read_dtype_list. intros [H0 H1].
  destruct (check_tokens ts); [|cbn; lia]. cbn [bind].
  destruct (scan_tokens ts false 0) as [after|] eqn:Es; [|cbn; lia]. cbn [bind].
  destruct (read_list_loop (sbits s) ts (spos s) after) as [[vs p]|] eqn:El; [|cbn; lia].
  cbn [fst spos sbits]. apply scan_tokens_ok in Es.
  destruct (read_list_loop_pos _ _ _ _ _ _ Es H0 El). lia.
Qed.

Lemma spec_matches_range d p s e ba q : 0 <= s -> In q (spec_matches d p s e ba) -> 0 <= q /\ q + zlen p <= zlen d /\ s <= q /\ q + zlen p <= e.
Proof.
  intros Hs H. unfold spec_matches in H. apply filter_In in H as [Hr Ho]. apply In_zrange in Hr.
  unfold occurs_at in Ho. lia.
Qed.

Lemma find_valid s p a b ba : valid s -> valid (fst (st_find false s p a b ba)).
Proof.
  unfold valid, st_find. intros Hv.
  destruct (bs_find false (sbits s) p a b ba) as [[q|]|e] eqn:E; cbn [fst spos sbits]; try lia.
  unfold bs_find in E. destruct (zlen p =? 0) eqn:Ez; [discriminate|].
  destruct (validate_slice (sbits s) a b) as [[x y]|] eqn:Ev; [|discriminate].
  assert (Hp : p <> []) by (intros ->; discriminate).
  pose proof (find_spec (sbits s) p a b ba x y Hp Ev) as F. unfold bs_find in F. rewrite Ez, Ev in F. cbn [bind] in *.
  rewrite E in F. injection F as F. destruct (validate_slice_ok _ _ _ _ _ Ev) as (? & ? & ?).
  destruct (spec_matches (sbits s) p x y ba) as [|q0 r] eqn:Em; [discriminate|]. cbn [head_opt] in F. injection F as ->.
  destruct (spec_matches_range (sbits s) p x y ba q0 ltac:(lia)); [rewrite Em; left; reflexivity|].
  pose proof (zlen_nonneg p). lia.
Qed.

Lemma rfind_valid s p a b ba : valid s -> valid (fst (st_rfind false s p a b ba)).
Proof.
  unfold valid, st_rfind. intros Hv.
  destruct (bs_rfind false (sbits s) p a b ba) as [[q|]|e] eqn:E; cbn [fst spos sbits]; try lia.
  unfold bs_rfind in E.
  destruct (validate_slice (sbits s) a b) as [[x y]|] eqn:Ev; [|discriminate]. cbn [bind] in E.
  destruct (zlen p =? 0) eqn:Ez; [discriminate|].
  assert (Hp : p <> []) by (intros ->; discriminate).
  pose proof (rfind_spec (sbits s) p a b ba x y Hp Ev) as F. unfold bs_rfind in F. rewrite Ev in F. cbn [bind] in F. rewrite Ez in F.
  rewrite E in F. injection F as F. destruct (validate_slice_ok _ _ _ _ _ Ev) as (? & ? & ?).
  unfold last_opt in F. destruct (rev (spec_matches (sbits s) p x y ba)) as [|q0 r] eqn:Em; [discriminate|]. cbn [head_opt] in F. injection F as ->.
  destruct (spec_matches_range (sbits s) p x y ba q0 ltac:(lia)); [apply in_rev; rewrite Em; left; reflexivity|].
  pose proof (zlen_nonneg p). lia.
Qed.

Lemma readto_valid s p ba : valid s -> valid (fst (readto s p ba)).
Proof.
  unfold valid, readto, st_find. intros Hv.
  destruct (bs_find false (sbits s) p (Some (spos s)) None ba) as [[q|]|e] eqn:E; cbn [fst spos sbits]; try lia.
  assert (Hq : 0 <= q /\ q + zlen p <= zlen (sbits s)).
  { unfold bs_find in E. destruct (zlen p =? 0) eqn:Ez; [discriminate|].
    destruct (validate_slice (sbits s) (Some (spos s)) None) as [[x y]|] eqn:Ev; [|discriminate].
    assert (Hp : p <> []) by (intros ->; discriminate).
    pose proof (find_spec (sbits s) p (Some (spos s)) None ba x y Hp Ev) as F. unfold bs_find in F. rewrite Ez, Ev in F. cbn [bind] in *.
    rewrite E in F. injection F as F. destruct (validate_slice_ok _ _ _ _ _ Ev) as (? & ? & ?).
    destruct (spec_matches (sbits s) p x y ba) as [|q0 r] eqn:Em; [discriminate|]. cbn [head_opt] in F. injection F as ->.
    destruct (spec_matches_range (sbits s) p x y ba q0 ltac:(lia)); [rewrite Em; left; reflexivity|]. lia. }
  pose proof (zlen_nonneg p).
  destruct (getslice false (sbits s) (Some (spos s)) (Some (q + zlen p))); cbn [fst spos sbits]; lia.
Qed.

Lemma insert_length b bs p b' : insert_ false b bs p = Ok b' -> zlen b' = zlen b + zlen bs.
Proof.
  unfold insert_. destruct ((0 <=? p) && (p <=? zlen b)) eqn:E; [|discriminate].
  unfold setslice, setslice_msb0. rewrite setslice_unit by lia. intros [= <-].
  rewrite !zlen_app, zlen_take, zlen_drop by lia. lia.
Qed.

Lemma overwrite_length same b bs p b' : overwrite_ false same b bs p = Ok b' -> p + zlen bs <= zlen b' \/ (same = true /\ p = 0 /\ b' = b).
Proof.
  unfold overwrite_. destruct ((0 <=? p) && (p <=? zlen b)) eqn:E; [|discriminate].
  destruct (same && (p =? 0)) eqn:E2.
  - intros [= <-]. right. destruct same; [|discriminate]. split; [reflexivity|]. split; [lia|reflexivity].
  - unfold setslice, setslice_msb0. pose proof (zlen_nonneg bs) as Hb.
    unfold ba_setslice, slice_indices. cbn [s_step s_start s_stop]. change (1 =? 0) with false. change (1 <? 0) with false. cbv iota.
    rewrite (clamp_id p) by lia. cbn [bind]. change (1 =? 1) with true. cbv iota.
    intros [= <-]. left. rewrite !zlen_app, zlen_firstn, zlen_skipn. lia.
Qed.

Lemma rep_zlen (b : bits) n : zlen (rep b n) = Z.of_nat n * zlen b.
Proof. unfold zlen. rewrite rep_length. lia. Qed.

(* ---------- one step ---------- *)
Theorem sstep_valid s op : valid s -> valid (fst (sstep s op)).
Proof.
  intros Hv. pose proof Hv as [H0 H1]. destruct op; cbn [sstep].
  - destruct (read_token s t) as [s' r] eqn:E. cbn [fst]. pose proof (read_valid s t Hv) as V. rewrite E in V. exact V.
  - destruct (peek_token s t) as [s' r] eqn:E. cbn [fst]. pose proof (peek_pure s t) as P. rewrite E in P. cbn in P. subst. exact Hv.
  - destruct (readlist s ts) as [s' r] eqn:E. cbn [fst]. pose proof (readlist_valid s ts Hv) as V. rewrite E in V. exact V.
  - destruct (peeklist s ts) as [s' r] eqn:E. cbn [fst]. pose proof (peeklist_pure s ts) as P. rewrite E in P. cbn in P. subst. exact Hv.
  - unfold set_pos. destruct (p <? 0) eqn:E1; [exact Hv|]. destruct (p >? zlen (sbits s)) eqn:E2; [exact Hv|]. unfold valid; cbn; lia.
  - unfold set_bytepos, set_pos. destruct (p * 8 <? 0) eqn:E1; [exact Hv|]. destruct (p * 8 >? zlen (sbits s)) eqn:E2; [exact Hv|]. unfold valid; cbn; lia.
  - unfold bytealign, set_pos. set (k := (8 - spos s mod 8) mod 8).
    destruct (spos s + k <? 0) eqn:E1; [exact Hv|]. destruct (spos s + k >? zlen (sbits s)) eqn:E2; [exact Hv|]. unfold valid; cbn; lia.
  - destruct (st_find false s p start stop ba) as [s' r] eqn:E. cbn [fst]. pose proof (find_valid s p start stop ba Hv) as V. rewrite E in V. exact V.
  - destruct (st_rfind false s p start stop ba) as [s' r] eqn:E. cbn [fst]. pose proof (rfind_valid s p start stop ba Hv) as V. rewrite E in V. exact V.
  - destruct (readto s p ba) as [s' r] eqn:E. cbn [fst]. pose proof (readto_valid s p ba Hv) as V. rewrite E in V. exact V.
  - unfold st_append, valid. cbn. pose proof (zlen_nonneg (addright (sbits s) bs)). lia.
  - unfold st_prepend, valid. cbn. pose proof (zlen_nonneg (addleft (sbits s) bs)). lia.
  - unfold st_insert.
    set (p0 := match pos with None => spos s | Some v => v end). set (p := if p0 <? 0 then p0 + zlen (sbits s) else p0).
    destruct ((0 <=? p) && (p <=? zlen (sbits s))) eqn:Ep; [|exact Hv]. destruct (zlen bs =? 0) eqn:Ez; [exact Hv|].
    unfold on_content. destruct (insert_ false (sbits s) bs p) as [b'|] eqn:Ei; [|exact Hv].
    apply insert_length in Ei. unfold valid; cbn [fst spos sbits]. pose proof (zlen_nonneg bs). lia.
  - unfold st_overwrite.
    set (p0 := match pos with None => spos s | Some v => v end). set (p := if p0 <? 0 then p0 + zlen (sbits s) else p0).
    destruct ((p <? 0) || (p >? zlen (sbits s))) eqn:Ep; [exact Hv|]. destruct (zlen bs =? 0) eqn:Ez; [exact Hv|].
    unfold on_content. destruct (overwrite_ false false (sbits s) bs p) as [b'|] eqn:Ei; [|exact Hv].
    unfold valid; cbn [fst spos sbits]. pose proof (zlen_nonneg bs).
    destruct (overwrite_length _ _ _ _ _ Ei) as [Hl|(Hs & _)]; [lia|discriminate].
  - unfold st_overwrite.
    set (p0 := match pos with None => spos s | Some v => v end). set (p := if p0 <? 0 then p0 + zlen (sbits s) else p0).
    destruct ((p <? 0) || (p >? zlen (sbits s))) eqn:Ep; [exact Hv|]. destruct (zlen (sbits s) =? 0) eqn:Ez; [exact Hv|].
    unfold on_content. destruct (overwrite_ false true (sbits s) (sbits s) p) as [b'|] eqn:Ei; [|exact Hv].
    unfold valid; cbn [fst spos sbits].
    destruct (overwrite_length _ _ _ _ _ Ei) as [Hl|(_ & Hp & Hb)]; [lia|]. subst b'. lia.
  - unfold st_setitem_int, reset_if_len_changed, on_content. destruct (ba_setitem_int _ _ _ _) as [b'|]; [|exact Hv].
    unfold valid; cbn [fst spos sbits]. destruct (zlen b' =? zlen (sbits s)) eqn:E; pose proof (zlen_nonneg b'); lia.
  - unfold st_setitem_slice, reset_if_len_changed, on_content. destruct (ba_setitem_slice _ _ _ _) as [b'|]; [|exact Hv].
    unfold valid; cbn [fst spos sbits]. destruct (zlen b' =? zlen (sbits s)) eqn:E; pose proof (zlen_nonneg b'); lia.
  - unfold st_delitem_int, reset_if_len_changed, on_content. destruct (ba_delitem_int _ _ _) as [b'|]; [|exact Hv].
    unfold valid; cbn [fst spos sbits]. destruct (zlen b' =? zlen (sbits s)) eqn:E; pose proof (zlen_nonneg b'); lia.
  - unfold st_delitem_slice, reset_if_len_changed, on_content. destruct (ba_delitem_slice _ _ _) as [b'|]; [|exact Hv].
    unfold valid; cbn [fst spos sbits]. destruct (zlen b' =? zlen (sbits s)) eqn:E; pose proof (zlen_nonneg b'); lia.
  - unfold st_replace. destruct (ba_replace _ _ _ _ _ _ _ _) as [[b' n]|]; [|exact Hv].
    unfold valid; cbn [fst spos sbits]. destruct (zlen b' =? zlen (sbits s)) eqn:E; pose proof (zlen_nonneg b'); lia.
  - unfold st_clear, valid. cbn. lia.
  - unfold st_imul. destruct (ba_imul false (sbits s) n) as [b'|] eqn:E; [|exact Hv].
    unfold valid; cbn [fst spos sbits]. destruct (n =? 0) eqn:En; [pose proof (zlen_nonneg b'); lia|].
    unfold ba_imul in E. destruct (n <? 0) eqn:E2; [discriminate|].
    assert (Hn : 0 <= n) by lia. pose proof (imul_is_n_copies (sbits s) n Hn) as Hi. unfold ba_imul in Hi. rewrite E2 in Hi.
    rewrite E in Hi. injection Hi as ->. rewrite rep_zlen. nia.
Qed.

(* ---------- every history ---------- *)
Theorem srun_valid ops : forall s, valid s -> valid (srun s ops).
Proof.
  induction ops as [|op ops IH]; intros s Hv; [exact Hv|]. cbn [srun fold_left]. apply IH. apply sstep_valid. exact Hv.
Qed.

Corollary fresh_stream_histories (b : bits) (pos : Z) ops : 0 <= pos <= zlen b -> valid (srun (mkstream b pos) ops).
Proof. intros H. apply srun_valid. exact H. Qed.

(* a failing read / list read / positioning / search leaves the stream exactly as it was *)
Theorem failing_step_restores s op : snd (sstep s op) = false ->
  match op with
  | ORead _ | OPeek _ | OReadlist _ | OPeeklist _ | OSetPos _ | OSetBytepos _ | OBytealign | OFind _ _ _ _ | ORfind _ _ _ _
  | OInsert _ _ | OOverwrite _ _ | OOverwriteSelf _ | OSetitemInt _ _ | OSetitemSlice _ _ | ODelitemInt _ | ODelitemSlice _ | OReplace _ _ _ _ _ _ | OImul _ => fst (sstep s op) = s
  | _ => True
  end.
Proof.
  intros H. destruct op; cbn [sstep] in *; try exact I.
  - destruct (read_token s t) as [s' r] eqn:E. cbn [fst snd] in *. destruct r as [v|e]; [discriminate|].
    pose proof (read_error_restores s t e) as R. rewrite E in R. apply R. reflexivity.
  - destruct (peek_token s t) as [s' r] eqn:E. cbn [fst]. pose proof (peek_pure s t) as P. rewrite E in P. exact P.
  - destruct (readlist s ts) as [s' r] eqn:E. cbn [fst snd] in *. destruct r as [v|e]; [discriminate|].
    pose proof (readlist_error_restores s ts e) as R. rewrite E in R. apply R. reflexivity.
  - destruct (peeklist s ts) as [s' r] eqn:E. cbn [fst]. pose proof (peeklist_pure s ts) as P. rewrite E in P. exact P.
  - unfold set_pos in *. destruct (p <? 0); [reflexivity|]. destruct (p >? zlen (sbits s)); [reflexivity|discriminate].
  - unfold set_bytepos, set_pos in *. destruct (p * 8 <? 0); [reflexivity|]. destruct (p * 8 >? zlen (sbits s)); [reflexivity|discriminate].
  - unfold bytealign, set_pos in *. destruct (_ <? 0); [reflexivity|]. destruct (_ >? zlen (sbits s)); [reflexivity|discriminate].
  - unfold st_find in *. destruct (bs_find _ _ _ _ _ _) as [[q|]|e]; cbn in *; try discriminate; reflexivity.
  - unfold st_rfind in *. destruct (bs_rfind _ _ _ _ _ _) as [[q|]|e]; cbn in *; try discriminate; reflexivity.
  - unfold st_insert in *. destruct (_ && _); [|reflexivity]. destruct (zlen bs =? 0); [reflexivity|].
    unfold on_content in *. destruct (insert_ _ _ _ _); [discriminate|reflexivity].
  - unfold st_overwrite in *. destruct (_ || _); [reflexivity|]. destruct (zlen bs =? 0); [reflexivity|].
    unfold on_content in *. destruct (overwrite_ _ _ _ _ _); [discriminate|reflexivity].
  - unfold st_overwrite in *. destruct (_ || _); [reflexivity|]. destruct (zlen (sbits s) =? 0); [reflexivity|].
    unfold on_content in *. destruct (overwrite_ _ _ _ _ _); [discriminate|reflexivity].
  - unfold st_setitem_int, reset_if_len_changed, on_content in *. destruct (ba_setitem_int _ _ _ _); [discriminate|reflexivity].
  - unfold st_setitem_slice, reset_if_len_changed, on_content in *. destruct (ba_setitem_slice _ _ _ _); [discriminate|reflexivity].
  - unfold st_delitem_int, reset_if_len_changed, on_content in *. destruct (ba_delitem_int _ _ _); [discriminate|reflexivity].
  - unfold st_delitem_slice, reset_if_len_changed, on_content in *. destruct (ba_delitem_slice _ _ _); [discriminate|reflexivity].
  - unfold st_replace in *. destruct (ba_replace _ _ _ _ _ _ _ _) as [[b' n]|]; [discriminate|reflexivity].
  - unfold st_imul in *. destruct (ba_imul _ _ _); [discriminate|reflexivity].
Qed.
