(* ArrayM.v — C14: hand model of bitstring/array_.py as operations on the data bits with the item
   width w (dtype.bitlength), and the abstraction to (list of item encodings, trailing bits).
   The item codec is a parameter: an item is identified with its w-bit encoding (C02/C11 give the
   value <-> bits round trips), so the list model is a list of w-bit blocks. *)
From BS Require Import Prims BitsCore Mutators SeqProofs MutSpec MutProofs.
From Coq Require Import ZifyBool.
Open Scope Z_scope.

Section ArrayModel.
  Variable w : Z.
  Hypothesis w_pos : 0 < w.

  (* __len__: len(data) // bitlength ; trailing_bits: the leftover at the end *)
  Definition arr_len (d : bits) : Z := zlen d / w.
  Definition trailing (d : bits) : bits := drop (arr_len d * w) d.

  (* the abstraction: items are the consecutive w-bit blocks *)
  Fixpoint blocks (n : nat) (d : bits) : list bits :=
    match n with O => [] | S n' => take w d :: blocks n' (drop w d) end.
  Definition items (d : bits) : list bits := blocks (Z.to_nat (arr_len d)) d.

  (* __getitem__(int) *)
  Definition arr_getitem (d : bits) (key : Z) : res bits :=
    let k := if key <? 0 then key + arr_len d else key in
    if (k <? 0) || (k >=? arr_len d) then Err IndexError
    else Ok (take w (drop (w * k) d)).      (* read_fn(data, start = bitlength * key) *)

  (* __setitem__(int, value): overwrite at bitlength * key ; the value is already a w-bit element *)
  Definition arr_setitem (d : bits) (key : Z) (e : bits) : res bits :=
    let k := if key <? 0 then key + arr_len d else key in
    if (k <? 0) || (k >=? arr_len d) then Err IndexError
    else ba_overwrite false false d e (w * k).

  (* __delitem__(int) *)
  Definition arr_delitem (d : bits) (key : Z) : res bits :=
    let k := if key <? 0 then key + arr_len d else key in
    if (k <? 0) || (k >=? arr_len d) then Err IndexError
    else ba_delitem_slice false d (mkslice (Some (w * k)) (Some (w * k + w)) None).

  (* append: refused when there are trailing bits *)
  Definition arr_append (d : bits) (e : bits) : res bits :=
    if zlen d mod w =? 0 then Ok (d ++ e) else Err ValueError.

  (* insert(i, x): negative indices count from the end and stop at 0; beyond the end appends before the trailing bits *)
  Definition arr_insert (d : bits) (i : Z) (e : bits) : res bits :=
    let i := if i <? 0 then Z.max (i + arr_len d) 0 else i in
    let i := Z.min i (arr_len d) in
    ba_insert false d e (i * w).

  (* pop(i): x = self[i]; del self[i] *)
  Definition arr_pop (d : bits) (i : Z) : res (bits * bits) :=
    if arr_len d =? 0 then Err IndexError else
    do x <- arr_getitem d i; do d' <- arr_delitem d i; Ok (x, d').

  (* __getitem__(slice): start, stop, step = key.indices(len(self)); step 1: one slice of the data;
     otherwise: for s in range(start*w, stop*w, step*w): d.append(self.data[s:s+w]) *)
  Fixpoint collect_blocks (d : bits) (starts : list Z) : res bits :=
    match starts with
    | [] => Ok []
    | s :: r => do b <- seq_slice false d (mkslice (Some s) (Some (s + w)) None);
                do rest <- collect_blocks d r; Ok (b ++ rest)
    end.
  Definition arr_getslice (d : bits) (k : pyslice) : res bits :=
    do3 (a, b, c) <- slice_indices k (arr_len d);
    if c =? 1 then seq_slice false d (mkslice (Some (a * w)) (Some (b * w)) None)
    else collect_blocks d (range_list (a * w) (b * w) (c * w)).

  (* __getitem__(slice) with step 1 *)
  Definition arr_getslice1 (d : bits) (start stop : Z) : res bits :=
    seq_slice false d (mkslice (Some (start * w)) (Some (stop * w)) None).
End ArrayModel.
