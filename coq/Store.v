(* Store.v — hand model of BitStore's buffer + modified_length mechanism and of the construction
   routes that apply an (offset, length) window:
   bitstring/bitstore.py  frombuffer __len__ tobytes getslice_msb0 getslice_withstep_msb0 __eq__ count _copy ...
   bitstring/bits.py      _setfile _setbytes_with_truncation _setbitarray, the BytesIO branch of _setauto,
                          _initialise (negative offset/length), __eq__ __hash__ tobytes _getbytes tofile
   A file / bytes / BytesIO source is its bytes (Prims.frombytes of a list of 0..255). *)
From BS Require Import Prims BitsCore Search.
Open Scope Z_scope.

Record store := mkstore { raw : bits; mlen : option Z }.

Definition bits_of (s : store) : bits :=
  match mlen s with None => raw s | Some n => firstn (Z.to_nat n) (raw s) end.

(* what every constructor establishes since the repair of D12 *)
Definition wf (s : store) : Prop := match mlen s with None => True | Some n => n = zlen (raw s) end.

(* BitStore.frombuffer(buffer, length) *)
Definition frombuffer (buf : bits) (length : option Z) : res store :=
  match length with
  | None => Ok (mkstore buf None)
  | Some n => if n <? 0 then Err ValueError else if n >? zlen buf then Err ValueError else Ok (mkstore buf (Some n))
  end.

(* methods that honour modified_length *)
Definition st_len (s : store) : Z := match mlen s with Some n => n | None => zlen (raw s) end.
Definition st_tobytes (s : store) : list Z :=
  match mlen s with
  | Some n => match seq_slice false (raw s) (mkslice None (Some n) None) with Ok b => tobytes b | Err _ => [] end
  | None => tobytes (raw s)
  end.
Definition st_getslice_msb0 (s : store) (start stop : option Z) : res bits :=
  match mlen s with
  | Some n => do3 (a, b, c) <- slice_indices (mkslice start stop None) n;
              seq_slice false (raw s) (mkslice (Some a) (Some b) None)
  | None => seq_slice false (raw s) (mkslice start stop None)
  end.
Definition st_getslice_withstep_msb0 (s : store) (k : pyslice) : res bits :=
  match mlen s with
  | Some n => do3 (a, b, c) <- slice_indices k n;
              (* for a negative step indices() uses -1 for 'before the first bit' (fix D40) *)
              if c <? 0 then
                if a <? 0 then seq_slice false (raw s) (mkslice (Some 0) (Some 0) (Some c))
                else if b <? 0 then seq_slice false (raw s) (mkslice (Some a) None (Some c))
                else seq_slice false (raw s) (mkslice (Some a) (Some b) (Some c))
              else seq_slice false (raw s) (mkslice (Some a) (Some b) (Some c))
  | None => seq_slice false (raw s) k
  end.
(* methods that use the raw buffer *)
Definition st_eq (a b : store) : bool := beq_bits (raw a) (raw b).
Definition st_count (s : store) (v : bool) : Z := bs_count (raw s) v.
Definition st_getindex (s : store) (i : Z) : res bool := seq_getitem (raw s) i.
Definition st_copy (s : store) : store := mkstore (raw s) None.
Definition st_invert (s : store) : bits := map negb (raw s).
Definition st_add (a b : store) : bits := raw a ++ raw b.

(* ---------------- Bits._initialise: negative offset / length are refused first (fix D23) ---------------- *)
Definition check_window_args (length offset : option Z) : res unit :=
  if (match offset with Some o => o <? 0 | None => false end) then Err ValueError else
  if (match length with Some l => l <? 0 | None => false end) then Err ValueError else Ok tt.

(* ---------------- Bits._setfile(filename, length, offset); f = bits of the whole file ---------------- *)
Definition setfile (f : bits) (length offset : option Z) : res store :=
  do _ <- check_window_args length offset;
  let offset := match offset with None => 0 | Some o => o end in
  if (offset =? 0) && (match length with None => true | Some l => l =? zlen f end) then
    frombuffer f length                                      (* stays memory-mapped *)
  else if offset =? 0 then
    do temp <- frombuffer f length;                          (* fix D12: read the window into memory *)
    do b <- st_getslice_msb0 temp (Some 0) length; Ok (mkstore b None)
  else
    let temp := mkstore f None in
    match length with
    | None => if offset >? st_len temp then Err ValueError
              else do b <- st_getslice_msb0 temp (Some offset) None; Ok (mkstore b None)
    | Some l => do b <- st_getslice_msb0 temp (Some offset) (Some (offset + l));
                if (zlen b =? l) && negb (offset >? st_len temp) then Ok (mkstore b None) else Err ValueError
    end.

(* ---------------- Bits._setbytes_with_truncation(data, length, offset); data as bits (8 per byte) ---------------- *)
Definition setbytes_with_truncation (data : bits) (length offset : option Z) : res bits :=
  do _ <- check_window_args length offset;
  match length, offset with
  | None, None => Ok data
  | _, _ =>
      let offset := match offset with None => 0 | Some o => o end in
      do length <- match length with
                   | None => let l := zlen data - offset in if l <? 0 then Err ValueError else Ok l   (* fix D18 *)
                   | Some l => if l + offset >? zlen data then Err ValueError else Ok l
                   end;
      seq_slice false data (mkslice (Some offset) (Some (offset + length)) None)
  end.

(* ---------------- the BytesIO branch of _setauto; data = list of bytes ---------------- *)
Definition sub_bytes (data : list Z) (a b : Z) : list Z :=   (* Python data[a:a+b'] with a, b >= 0 *)
  firstn (Z.to_nat (b - a)) (skipn (Z.to_nat a) data).
Definition setbytesio (data : list Z) (length offset : option Z) : res bits :=
  do _ <- check_window_args length offset;
  match length, offset with
  | None, None => Ok (frombytes data)
  | _, _ =>
      let offset := match offset with None => 0 | Some o => o end in
      let total := zlen data * 8 in
      do length <- match length with
                   | None => let l := total - offset in if l <? 0 then Err ValueError else Ok l
                   | Some l => Ok l
                   end;
      let byteoffset := offset / 8 in
      let offset := offset mod 8 in
      let bytelength := (length + byteoffset * 8 + offset + 7) / 8 - byteoffset in
      if length + byteoffset * 8 + offset >? total then Err ValueError else
      seq_slice false (frombytes (sub_bytes data byteoffset (byteoffset + bytelength)))
                (mkslice (Some offset) (Some (offset + length)) None)
  end.

(* ---------------- Bits._setbitarray(ba, length, offset) ---------------- *)
Definition setbitarray (ba : bits) (length offset : option Z) : res bits :=
  do _ <- check_window_args length offset;
  let offset := match offset with None => 0 | Some o => o end in
  if offset >? zlen ba then Err ValueError else
  match length with
  | None => seq_slice false ba (mkslice (Some offset) None None)
  | Some l => if offset + l >? zlen ba then Err ValueError
              else seq_slice false ba (mkslice (Some offset) (Some (offset + l)) None)
  end.

(* ---------------- equality and hashing (Bits.__eq__, __hash__) ---------------- *)
Definition bs_eq (a b : store) : bool := st_eq a b.
(* the argument of hash(): (bytes, length); > 2000 bits: first and last 800 bits (absolute positions) *)
Definition hash_input (b : bits) : list Z * Z :=
  if zlen b <=? 2000 then (tobytes b, zlen b)
  else (tobytes (sub b 0 800 ++ sub b (zlen b - 800) (zlen b)), zlen b).

(* ---------------- serialisation ---------------- *)
(* _getbytes: refuses lengths that are not whole bytes *)
Definition bs_getbytes (b : bits) : res (list Z) :=
  if zlen b mod 8 =? 0 then Ok (tobytes b) else Err ValueError.
(* tofile: for chunk in self.cut(chunk_size): f.write(chunk.tobytes()) *)
Definition tofile (b : bits) (chunk_size : Z) : res (list Z) :=
  do chunks <- bs_cut false b chunk_size None None None;
  Ok (flat_map tobytes chunks).
Definition TOFILE_CHUNK : Z := 8 * 100 * 1024 * 1024.
