(* GolombSpec.v — the codes as the standards define them (H.264 9.1 table for ue/se,
   Dirac/VC-2 interleaved exp-Golomb for uie/sie), written over [positive] without any
   of the arithmetic the implementation uses. *)
From BS Require Import Prims Golomb.
Open Scope Z_scope.

(* ue(n): with n+1 = 1 b1..bk in binary:  k zeros, then 1 b1..bk *)
Definition spec_ue (n : Z) : bits :=
  let p := Z.to_pos (n + 1) in
  repeat false (length (pos_bits p) - 1) ++ pos_bits p.

(* se(n): n>0 -> codeNum 2n-1 ; n<=0 -> codeNum -2n *)
Definition spec_se (n : Z) : bits := spec_ue (if n >? 0 then 2 * n - 1 else - 2 * n).

(* uie(n): with n+1 = 1 b1..bk :  0 b1 0 b2 ... 0 bk 1 *)
Fixpoint interleave (ds : bits) : bits :=
  match ds with [] => [] | d :: t => false :: d :: interleave t end.
Definition spec_uie (n : Z) : bits := interleave (tl (pos_bits (Z.to_pos (n + 1)))) ++ [true].

(* sie(n): 0 -> 1 ; otherwise uie(|n|) followed by the sign bit (1 = negative) *)
Definition spec_sie (n : Z) : bits :=
  if n =? 0 then [true] else spec_uie (Z.abs n) ++ [n <? 0].

Definition g_spec (c : gcode) : Z -> bits :=
  match c with UE => spec_ue | SE => spec_se | UIE => spec_uie | SIE => spec_sie end.

(* domain of each code *)
Definition g_dom (c : gcode) (n : Z) : bool :=
  match c with UE | UIE => 0 <=? n | SE | SIE => true end.

(* a stream: any finite sequence of mixed codewords, decoded item by item *)
Fixpoint stream_bits (items : list (gcode * Z)) : bits :=
  match items with [] => [] | (c, n) :: t => g_spec c n ++ stream_bits t end.

Fixpoint read_stream (b : bits) (pos : Z) (cs : list gcode) : res (list Z * Z) :=
  match cs with
  | [] => Ok ([], pos)
  | c :: cs' => do2 (x, pos') <- g_read c b pos;
                do2 (xs, pos'') <- read_stream b pos' cs';
                Ok (x :: xs, pos'')
  end.

