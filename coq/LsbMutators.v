(* LsbMutators.v — C12: the ranged mutators under lsb0.  reverse(start, end) obeys the mirror law; rol / ror keep their textual direction
   (like << and >>), so under lsb0 ror over the lsb0 range [start, end) is the mirror of rol (and rol of ror). *)
From BS Require Import Prims BitsCore SeqProofs Mutators MutSpec MutProofs StoreProofs MirrorProofs.
From Coq Require Import ZifyBool.
Open Scope Z_scope.

Lemma validate_slice_rev (b : bits) start stop : validate_slice (rev b) start stop = validate_slice b start stop.
Proof. unfold validate_slice. now rewrite zlen_rev. Qed.

Lemma slice_mirror (b : bits) s e : slice_ true b s e = res_map (@rev bool) (slice_ false (rev b) s e).
Proof. unfold slice_, getslice. apply mirror_getslice_nostep. Qed.

Lemma delete_mirror (b : bits) n pos : delete_ true b n pos = res_map (@rev bool) (delete_ false (rev b) n pos).
Proof.
  unfold delete_. rewrite zlen_rev. destruct ((0 <=? pos) && (pos <=? zlen b) && (pos + n <=? zlen b)); [|reflexivity].
  unfold delslice. apply mirror_delslice_unit.
Qed.

Lemma insert_mirror (b bs : bits) pos : insert_ true b bs pos = res_map (@rev bool) (insert_ false (rev b) (rev bs) pos).
Proof.
  unfold insert_. rewrite zlen_rev. destruct ((0 <=? pos) && (pos <=? zlen b)); [|reflexivity].
  unfold setslice. apply mirror_setslice_unit.
Qed.

Lemma res_map_bind {A B} (f : A -> A) (r : res A) (k1 k2 : A -> res B) :
  (forall x, k1 (f x) = k2 x) -> (do y <- res_map f r; k1 y) = (do x <- r; k2 x).
Proof. intros H. destruct r; cbn; auto. Qed.

Theorem rol_lsb0_mirror (b : bits) n start stop :
  rol_msb0 true b n start stop = res_map (@rev bool) (rol_msb0 false (rev b) n start stop).
Proof.
  unfold rol_msb0. rewrite validate_slice_rev. destruct (validate_slice b start stop) as [[s e]|]; [|reflexivity]. cbn [bind].
  destruct (e - s =? 0); [cbn; now rewrite rev_involutive|].
  destruct (n mod (e - s) =? 0); [cbn; now rewrite rev_involutive|].
  rewrite slice_mirror. destruct (slice_ false (rev b) s (s + n mod (e - s))) as [lhs|]; [|reflexivity]. cbn [res_map bind].
  rewrite delete_mirror. destruct (delete_ false (rev b) (n mod (e - s)) s) as [b1|]; [|reflexivity]. cbn [res_map bind].
  rewrite insert_mirror. rewrite !rev_involutive. reflexivity.
Qed.

Theorem ror_lsb0_mirror (b : bits) n start stop :
  ror_msb0 true b n start stop = res_map (@rev bool) (ror_msb0 false (rev b) n start stop).
Proof.
  unfold ror_msb0. rewrite validate_slice_rev. destruct (validate_slice b start stop) as [[s e]|]; [|reflexivity]. cbn [bind].
  destruct (e - s =? 0); [cbn; now rewrite rev_involutive|].
  destruct (n mod (e - s) =? 0); [cbn; now rewrite rev_involutive|].
  rewrite slice_mirror. destruct (slice_ false (rev b) (e - n mod (e - s)) e) as [rhs|]; [|reflexivity]. cbn [res_map bind].
  rewrite delete_mirror. destruct (delete_ false (rev b) (n mod (e - s)) (e - n mod (e - s))) as [b1|]; [|reflexivity]. cbn [res_map bind].
  rewrite insert_mirror. rewrite !rev_involutive. reflexivity.
Qed.

(* the public methods: under lsb0 the method table binds ror to _rol_msb0 and rol to _ror_msb0, so the textual direction is kept *)
Theorem ba_ror_lsb0 (b : bits) n start stop : ba_ror true b n start stop = res_map (@rev bool) (ba_rol false (rev b) n start stop).
Proof.
  unfold ba_ror, ba_rol. rewrite zlen_rev. destruct (zlen b =? 0); [reflexivity|]. destruct (n <? 0); [reflexivity|]. apply rol_lsb0_mirror.
Qed.

Theorem ba_rol_lsb0 (b : bits) n start stop : ba_rol true b n start stop = res_map (@rev bool) (ba_ror false (rev b) n start stop).
Proof.
  unfold ba_ror, ba_rol. rewrite zlen_rev. destruct (zlen b =? 0); [reflexivity|]. destruct (n <? 0); [reflexivity|]. apply ror_lsb0_mirror.
Qed.

Theorem ba_reverse_lsb0 (b : bits) start stop : ba_reverse true b start stop = res_map (@rev bool) (ba_reverse false (rev b) start stop).
Proof.
  unfold ba_reverse. rewrite validate_slice_rev, zlen_rev. destruct (validate_slice b start stop) as [[s e]|]; [|reflexivity]. cbn [bind].
  destruct ((s =? 0) && (e =? zlen b)); [cbn; now rewrite rev_involutive|].
  rewrite slice_mirror. destruct (slice_ false (rev b) s e) as [sl|]; [|reflexivity]. cbn [res_map bind].
  unfold setslice. rewrite mirror_setslice_unit. rewrite rev_involutive. reflexivity.
Qed.

(* insert / overwrite / delete at an lsb0 position *)
Theorem ba_insert_lsb0 (b bs : bits) pos : ba_insert true b bs pos = res_map (@rev bool) (ba_insert false (rev b) (rev bs) pos).
Proof.
  unfold ba_insert. rewrite !zlen_rev.
  set (p := if pos <? 0 then pos + zlen b else pos). destruct ((0 <=? p) && (p <=? zlen b)); [|reflexivity].
  destruct (zlen bs =? 0); [cbn [res_map]; now rewrite rev_involutive|]. apply insert_mirror.
Qed.
