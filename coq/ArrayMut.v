(* ArrayMut.v — C14: the slice mutators of bitstring.Array (array_.py): __setitem__(slice), __delitem__(slice),
   extend, reverse (+ copy / equals / tolist / count) modelled on the data bits, and proved to be the Python list
   operation on the items (w-bit blocks) that leaves the trailing bits alone. *)
From BS Require Import Prims BitsCore Mutators SeqProofs MutSpec MutProofs MutProofs2 ArrayM ArrayProofs StoreProofs ArraySlice.
From Coq Require Import ZifyBool.
Open Scope Z_scope.

Section ArrayMutModel.
  Variable w : Z.

  (* ---- __setitem__(slice key, value): `news` are the elements self._create_element(x) for x in value ---- *)
  (* for s, e in zip(range(start, stop, step), elements): self.data.overwrite(e, s * bitlength) *)
  Fixpoint overwrite_each (d : bits) (idx : list Z) (els : list bits) : res bits :=
    match idx, els with
    | s :: idx', e :: els' => do d' <- ba_overwrite false false d e (s * w); overwrite_each d' idx' els'
    | _, _ => Ok d
    end.
  (* new_data = BitArray(); for x in value: new_data += element *)
  Definition join (news : list bits) : bits := fold_left (ba_append false) news [].
  Definition arr_setslice (d : bits) (k : pyslice) (news : list bits) : res bits :=
    do3 (a, b, c) <- slice_indices k (arr_len w d);
    if c =? 1 then ba_setitem_slice false d (mkslice (Some (a * w)) (Some (b * w)) None) (VBits (join news))
    else
      let items_in_slice := range_len a b c in
      if zlen news =? items_in_slice then overwrite_each d (range_list a b c) news
      else Err ValueError.

  (* ---- __delitem__(slice key) ---- *)
  (* for s in r: self.data.__delitem__(slice(s * bitlength, (s + 1) * bitlength)) *)
  Fixpoint del_each (d : bits) (r : list Z) : res bits :=
    match r with
    | [] => Ok d
    | s :: r' => do d' <- ba_delitem_slice false d (mkslice (Some (s * w)) (Some ((s + 1) * w)) None); del_each d' r'
    end.
  Definition arr_delslice (d : bits) (k : pyslice) : res bits :=
    do3 (a, b, c) <- slice_indices k (arr_len w d);
    if c =? 1 then ba_delitem_slice false d (mkslice (Some (a * w)) (Some (b * w)) None)
    else del_each d (if c >? 0 then rev (range_list a b c) else range_list a b c).

  (* ---- extend(iterable of values) and extend(Array of the same dtype) ---- *)
  Definition arr_extend (d : bits) (news : list bits) : res bits :=
    if negb (zlen d mod w =? 0) then Err ValueError
    else Ok (fold_left (ba_append false) news d).          (* for item in iterable: self.data += element *)
  Definition arr_extend_array (d other : bits) : res bits :=
    if negb (zlen d mod w =? 0) then Err ValueError
    else Ok (ba_append false d other).                      (* self.data.append(iterable.data) *)

  (* ---- reverse() ---- *)
  Fixpoint reverse_loop (d : bits) (starts : list Z) : res bits :=
    match starts with
    | [] => Ok d
    | s :: r =>
        let sw := zlen d - s - w in                                                            (* start_swap_bit *)
        do temp <- bs_getitem_slice false d (mkslice (Some s) (Some (s + w)) None);
        do other <- bs_getitem_slice false d (mkslice (Some sw) (Some (sw + w)) None);
        do d1 <- ba_setitem_slice false d (mkslice (Some s) (Some (s + w)) None) (VBits other);
        do d2 <- ba_setitem_slice false d1 (mkslice (Some sw) (Some (sw + w)) None) (VBits temp);
        reverse_loop d2 r
    end.
  Definition arr_reverse (d : bits) : res bits :=
    if negb (zlen d mod w =? 0) then Err ValueError
    else reverse_loop d (range_list 0 (zlen d / 2) w).
  (* ---- tolist / __iter__ / __copy__ / equals(Array) / count ---- *)
  (* [read_fn(self.data, start=start) for start in range(0, len(self.data) - bitlength + 1, bitlength)] (an item = its w bits) *)
  Definition arr_tolist (d : bits) : list bits := map (fun s => take w (drop s d)) (range_list 0 (zlen d - w + 1) w).
  (* start = 0; for _ in range(len(self)): yield read_fn(self.data, start=start); start += bitlength *)
  Definition arr_iter (d : bits) : list bits := map (fun s => take w (drop s d)) (progression 0 w (Z.to_nat (arr_len w d))).
  Definition arr_copy (d : bits) : bits := d.                                   (* a_copy.data = copy.copy(self.data) *)
  Definition arr_equals (d1 d2 : bits) : bool := beq_bits d1 d2.                (* same dtype, then not (self.data != other.data) *)
  (* sum(i == value for i in self) for an item decoder `dec` and the == of the decoded values *)
  Definition arr_count {V} (dec : bits -> V) (eqv : V -> V -> bool) (d : bits) (v : V) : Z :=
    zlen (filter (fun it => eqv (dec it) v) (arr_iter d)).
End ArrayMutModel.


(* ---------- the model against the real library: each value below is what /repo prints for the same call on
   Array('uint8', [10..16]) (D1) and the same with trailing bits 0b101 (D2) ---------- *)
Definition u8s (l : list Z) : bits := concat (map (enc_uint 8) l).
Definition u8l (l : list Z) : list bits := map (enc_uint 8) l.
Definition show (r : res bits) := match r with Ok d => Ok (map value_msb (items 8 d), trailing 8 d) | Err e => Err e end.
Definition D1 := u8s [10;11;12;13;14;15;16].
Definition D2 := D1 ++ [true;false;true].
Definition t101 := [true;false;true].
Example t_del1 : show (arr_delslice 8 D2 (mkslice (Some 1) (Some 6) (Some 2))) = Ok ([10;12;14;16], t101). Proof. vm_compute. reflexivity. Qed.
Example t_del2 : show (arr_delslice 8 D2 (mkslice (Some 5) (Some 0) (Some (-2)))) = Ok ([10;12;14;16], t101). Proof. vm_compute. reflexivity. Qed.
Example t_del3 : show (arr_delslice 8 D2 (mkslice (Some 2) (Some 4) None)) = Ok ([10;11;14;15;16], t101). Proof. vm_compute. reflexivity. Qed.
Example t_del4 : show (arr_delslice 8 D2 (mkslice (Some 4) (Some 2) None)) = Ok ([10;11;12;13;14;15;16], t101). Proof. vm_compute. reflexivity. Qed.
Example t_del5 : show (arr_delslice 8 D2 (mkslice None None (Some (-3)))) = Ok ([11;12;14;15], t101). Proof. vm_compute. reflexivity. Qed.
Example t_del6 : show (arr_delslice 8 D2 (mkslice None None (Some 0))) = Err ValueError. Proof. vm_compute. reflexivity. Qed.
Example t_set1 : show (arr_setslice 8 D2 (mkslice (Some 1) (Some 3) None) (u8l [1;2;3;4])) = Ok ([10;1;2;3;4;13;14;15;16], t101). Proof. vm_compute. reflexivity. Qed.
Example t_set2 : show (arr_setslice 8 D2 (mkslice (Some 5) (Some 2) None) (u8l [1;2])) = Ok ([10;11;12;13;14;1;2;15;16], t101). Proof. vm_compute. reflexivity. Qed.
Example t_set3 : show (arr_setslice 8 D2 (mkslice (Some 1) (Some 30) None) []) = Ok ([10], t101). Proof. vm_compute. reflexivity. Qed.
Example t_set4 : show (arr_setslice 8 D2 (mkslice (Some 1) None (Some 2)) (u8l [1;2;3])) = Ok ([10;1;12;2;14;3;16], t101). Proof. vm_compute. reflexivity. Qed.
Example t_set5 : show (arr_setslice 8 D2 (mkslice (Some 1) None (Some 2)) (u8l [1;2])) = Err ValueError. Proof. vm_compute. reflexivity. Qed.
Example t_set6 : show (arr_setslice 8 D2 (mkslice None None (Some (-3))) (u8l [1;2;3])) = Ok ([3;11;12;2;14;15;1], t101). Proof. vm_compute. reflexivity. Qed.
Example t_ext1 : show (arr_extend 8 D2 (u8l [1;2])) = Err ValueError. Proof. vm_compute. reflexivity. Qed.
Example t_ext2 : show (arr_extend 8 D1 (u8l [1;2])) = Ok ([10;11;12;13;14;15;16;1;2], []). Proof. vm_compute. reflexivity. Qed.
Example t_ext3 : show (arr_extend_array 8 D1 (u8s [1;2] ++ [true;true])) = Ok ([10;11;12;13;14;15;16;1;2], [true;true]). Proof. vm_compute. reflexivity. Qed.
Example t_rev1 : show (arr_reverse 8 D1) = Ok ([16;15;14;13;12;11;10], []). Proof. vm_compute. reflexivity. Qed.
Example t_rev2 : show (arr_reverse 8 D2) = Err ValueError. Proof. vm_compute. reflexivity. Qed.
Example t_rev3 : show (arr_reverse 8 (u8s [1;2;3;4])) = Ok ([4;3;2;1], []). Proof. vm_compute. reflexivity. Qed.
Example t_tolist : map value_msb (arr_tolist 8 D2) = [10;11;12;13;14;15;16]. Proof. vm_compute. reflexivity. Qed.

Section ArrayMutProofs.
  Variable w : Z.
  Hypothesis w_pos : 0 < w.
  Notation isw := (fun it : bits => zlen it = w).

  (* ---------- the abstraction is total: every data d is mk (items d) (trailing d) ---------- *)
  Lemma firstn_add {A} (l : list A) : forall a b, firstn (a + b) l = firstn a l ++ firstn b (skipn a l).
  Proof. induction l as [|h t IH]; intros [|a] b; cbn; try reflexivity; [now rewrite firstn_nil|]. f_equal. apply IH. Qed.
  Lemma take_add (d : bits) a b : 0 <= a -> 0 <= b -> take (a + b) d = take a d ++ take b (drop a d).
  Proof. intros. unfold take, drop. rewrite Z2Nat.inj_add by lia. apply firstn_add. Qed.

  Lemma blocks_spec : forall n d, Z.of_nat n * w <= zlen d ->
    Forall isw (blocks w n d) /\ concat (blocks w n d) = take (Z.of_nat n * w) d.
  Proof.
    induction n as [|n IH]; intros d Hd; [split; [constructor|reflexivity]|].
    rewrite Nat2Z.inj_succ in *. cbn [blocks concat].
    assert (Hw : w <= zlen d) by nia.
    destruct (IH (drop w d)) as [F C]; [rewrite zlen_drop by lia; nia|].
    split; [constructor; [apply zlen_take; lia|exact F]|].
    rewrite C. replace (Z.succ (Z.of_nat n) * w) with (w + Z.of_nat n * w) by lia. symmetry. apply take_add; nia.
  Qed.

  Theorem data_is_items_then_trailing d : wfA w (items w d) (trailing w d) /\ d = mk (items w d) (trailing w d).
  Proof.
    unfold items, trailing, arr_len. pose proof (zlen_nonneg d) as Hd.
    assert (Hq : 0 <= zlen d / w) by (apply Z.div_pos; lia).
    pose proof (Z.mul_div_le (zlen d) w w_pos) as Hm. pose proof (Z.mod_pos_bound (zlen d) w w_pos) as Hr.
    pose proof (Z.div_mod (zlen d) w ltac:(lia)) as Hdm.
    destruct (blocks_spec (Z.to_nat (zlen d / w)) d) as [F C]; [rewrite Z2Nat.id by lia; lia|].
    rewrite Z2Nat.id in C by lia. split.
    - split; [exact F|]. rewrite zlen_drop by lia. lia.
    - unfold mk. rewrite C. unfold take, drop. symmetry. apply firstn_skipn.
  Qed.

  Lemma blocks_concat tr : forall its, Forall isw its -> blocks w (length its) (concat its ++ tr) = its.
  Proof.
    induction 1 as [|it its Hit _ IH]; [reflexivity|]. cbv beta in Hit. cbn [length blocks concat]. rewrite <- app_assoc.
    rewrite take_app_exact, drop_app_exact by (symmetry; exact Hit). now rewrite IH.
  Qed.
  Theorem items_mk its tr : wfA w its tr -> items w (mk its tr) = its.
  Proof.
    intros H. unfold items. rewrite (arr_len_mk w w_pos its tr H). destruct H as [Hi _].
    unfold zlen. rewrite Nat2Z.id. now apply blocks_concat.
  Qed.

  (* ---------- splitting mk at an item boundary ---------- *)
  Lemma zlen_mk its tr : Forall isw its -> zlen (mk its tr) = zlen its * w + zlen tr.
  Proof. intros Hi. unfold mk. now rewrite zlen_app, (zlen_concat w its Hi). Qed.
  Lemma zlen_concat_firstn its k : Forall isw its -> 0 <= k <= zlen its -> zlen (concat (firstn (Z.to_nat k) its)) = k * w.
  Proof. intros Hi Hk. rewrite (zlen_concat w) by (apply Forall_firstn; exact Hi). rewrite zlen_firstn. f_equal. lia. Qed.
  Lemma mk_split its tr k : mk its tr = concat (firstn k its) ++ mk (skipn k its) tr.
  Proof. unfold mk. rewrite app_assoc, <- concat_app, firstn_skipn. reflexivity. Qed.
  Lemma take_mk its tr k : Forall isw its -> 0 <= k <= zlen its -> take (k * w) (mk its tr) = concat (firstn (Z.to_nat k) its).
  Proof. intros Hi Hk. rewrite (mk_split its tr (Z.to_nat k)). apply take_app_exact. now rewrite zlen_concat_firstn. Qed.
  Lemma drop_mk its tr k : Forall isw its -> 0 <= k <= zlen its -> drop (k * w) (mk its tr) = mk (skipn (Z.to_nat k) its) tr.
  Proof. intros Hi Hk. rewrite (mk_split its tr (Z.to_nat k)) at 1. apply drop_app_exact. now rewrite zlen_concat_firstn. Qed.
  Lemma pyclamp_mk its tr k dflt : Forall isw its -> 0 <= k <= zlen its -> pyclamp (zlen (mk its tr)) (Some (k * w)) dflt = k * w.
  Proof. intros Hi Hk. unfold pyclamp. pose proof (zlen_nonneg tr). apply clamp_id; [nia|]. rewrite zlen_mk by exact Hi. nia. Qed.

  Lemma wfA_app_skip its tr a b news : wfA w its tr -> Forall isw news -> wfA w (firstn a its ++ news ++ skipn b its) tr.
  Proof. intros [Hi Ht] Hn. split; [|exact Ht]. rewrite !Forall_app. auto using Forall_firstn, Forall_skipn. Qed.

  (* a[a*w : b*w] = v  and  del a[a*w : b*w]  on the data, at item boundaries *)
  Lemma setslice1_mk its tr a b v : wfA w its tr -> 0 <= a <= zlen its -> 0 <= b <= zlen its ->
    ba_setitem_slice false (mk its tr) (mkslice (Some (a * w)) (Some (b * w)) None) (VBits v) =
    Ok (concat (firstn (Z.to_nat a) its) ++ v ++ mk (skipn (Z.to_nat (Z.max a b)) its) tr).
  Proof.
    intros [Hi Ht] Ha Hb. rewrite setslice_bits_any, !pyclamp_mk by assumption.
    rewrite Z.mul_max_distr_nonneg_r by lia. rewrite take_mk, drop_mk by (try assumption; lia). reflexivity.
  Qed.
  Lemma delslice1_mk its tr a b : wfA w its tr -> 0 <= a <= zlen its -> 0 <= b <= zlen its ->
    ba_delitem_slice false (mk its tr) (mkslice (Some (a * w)) (Some (b * w)) None) =
    Ok (mk (firstn (Z.to_nat a) its ++ skipn (Z.to_nat (Z.max a b)) its) tr).
  Proof.
    intros [Hi Ht] Ha Hb. rewrite delslice_any, !pyclamp_mk by assumption.
    rewrite Z.mul_max_distr_nonneg_r by lia. rewrite take_mk, drop_mk by (try assumption; lia).
    unfold mk. now rewrite concat_app, app_assoc.
  Qed.

  (* ---------- deletion of a set of positions from a list (Prims.remove_at: keep item j iff j is not in idx) ---------- *)
  Fixpoint desc (r : list Z) : Prop := match r with [] => True | x :: r' => (forall y, In y r' -> y < x) /\ desc r' end.

  Lemma existsb_below j idx : (forall y, In y idx -> y < j) -> existsb (Z.eqb j) idx = false.
  Proof.
    induction idx as [|x idx IH]; intros H; [reflexivity|]. cbn [existsb].
    rewrite IH by (intros y Hy; apply H; now right). specialize (H x (or_introl eq_refl)). lia.
  Qed.
  Lemma remove_at_none {A} (l : list A) : forall j idx, (forall y, In y idx -> y < j) -> remove_at l j idx = l.
  Proof.
    induction l as [|h t IH]; intros j idx H; [reflexivity|]. cbn [remove_at]. rewrite existsb_below by exact H.
    f_equal. apply IH. intros y Hy. specialize (H y Hy). lia.
  Qed.
  Lemma remove_at_del1 {A} (l : list A) : forall k j r, (k < length l)%nat -> (forall y, In y r -> y < j + Z.of_nat k) ->
    remove_at (firstn k l ++ skipn (S k) l) j r = remove_at l j ((j + Z.of_nat k) :: r).
  Proof.
    induction l as [|h t IH]; intros k j r Hk Hr; [cbn in Hk; lia|]. destruct k as [|k].
    - cbn [firstn skipn app remove_at existsb]. rewrite Z.add_0_r, Z.eqb_refl. cbn [orb].
      rewrite Z.add_0_r in Hr. rewrite !remove_at_none; try reflexivity.
      + intros y [<-|Hy]; [lia|]. specialize (Hr y Hy). lia.
      + exact Hr.
    - change (firstn (S k) (h :: t) ++ skipn (S (S k)) (h :: t)) with (h :: (firstn k t ++ skipn (S k) t)).
      cbn [remove_at existsb]. cbn [length] in Hk.
      replace (j =? j + Z.of_nat (S k)) with false by lia. cbn [orb].
      rewrite (IH k (j + 1) r) by (try lia; intros y Hy; specialize (Hr y Hy); lia).
      replace (j + 1 + Z.of_nat k) with (j + Z.of_nat (S k)) by lia. reflexivity.
  Qed.
  Lemma remove_at_ext {A} (l : list A) i1 i2 : (forall j, existsb (Z.eqb j) i1 = existsb (Z.eqb j) i2) ->
    forall j, remove_at l j i1 = remove_at l j i2.
  Proof. intros E. induction l as [|h t IH]; intros j; [reflexivity|]. cbn [remove_at]. now rewrite E, !IH. Qed.
  Lemma existsb_rev {A} (f : A -> bool) l : existsb f (rev l) = existsb f l.
  Proof. induction l as [|h t IH]; [reflexivity|]. cbn [rev existsb]. rewrite existsb_app, IH. cbn. destruct (f h), (existsb f t); reflexivity. Qed.
  Lemma Forall_remove_at {A} (P : A -> Prop) l : Forall P l -> forall j idx, Forall P (remove_at l j idx).
  Proof. induction 1 as [|h t Hh _ IH]; intros j idx; [constructor|]. cbn [remove_at]. destruct (existsb _ _); [apply IH|constructor; [exact Hh|apply IH]]. Qed.

  (* the extended-step loop of __delitem__: deleting single items at strictly decreasing positions *)
  Lemma del_each_desc : forall r its tr, wfA w its tr -> desc r -> (forall y, In y r -> 0 <= y < zlen its) ->
    del_each w (mk its tr) r = Ok (mk (remove_at its 0 r) tr).
  Proof.
    induction r as [|s r IH]; intros its tr H Hd Hb.
    - cbn [del_each]. now rewrite remove_at_none by (intros y []).
    - cbn [del_each]. destruct Hd as [Hlt Hd]. pose proof (Hb s (or_introl eq_refl)) as Hs.
      rewrite (delslice1_mk its tr s (s + 1) H) by lia. cbn [bind].
      replace (Z.to_nat (Z.max s (s + 1))) with (S (Z.to_nat s)) by lia.
      assert (Hlen : zlen (firstn (Z.to_nat s) its ++ skipn (S (Z.to_nat s)) its) = zlen its - 1).
      { rewrite zlen_app, zlen_firstn, zlen_skipn. lia. }
      rewrite IH.
      + f_equal. f_equal. rewrite (remove_at_del1 its (Z.to_nat s) 0 r) by (unfold zlen in *; try lia; intros y Hy; specialize (Hlt y Hy); lia).
        f_equal. f_equal. lia.
      + exact (wfA_app_skip its tr (Z.to_nat s) (S (Z.to_nat s)) [] H (Forall_nil _)).
      + exact Hd.
      + intros y Hy. rewrite Hlen. specialize (Hlt y Hy). specialize (Hb y (or_intror Hy)). lia.
  Qed.

  (* ranges: a descending range is desc; the reversal of an ascending one too *)
  Lemma desc_progression c : c < 0 -> forall n a, desc (progression a c n).
  Proof.
    intros Hc. induction n as [|n IH]; intros a; [exact I|]. cbn [progression desc]. split; [|apply IH].
    intros y Hy. apply In_progression in Hy as (j & _ & ->). nia.
  Qed.
  Lemma progression_snoc c : forall n a, progression a c (S n) = progression a c n ++ [a + Z.of_nat n * c].
  Proof.
    induction n as [|n IH]; intros a; [cbn; f_equal; lia|].
    change (progression a c (S (S n))) with (a :: progression (a + c) c (S n)). rewrite IH. cbn [progression app]. do 3 f_equal. lia.
  Qed.
  Lemma rev_progression c : forall n a, rev (progression a c n) = progression (a + (Z.of_nat n - 1) * c) (- c) n.
  Proof.
    induction n as [|n IH]; intros a; [reflexivity|]. rewrite progression_snoc, rev_app_distr. cbn [rev app progression].
    rewrite IH. f_equal; [lia|]. f_equal. lia.
  Qed.

  (* ---------- from "d = mk its tr" back to arbitrary data ---------- *)
  Ltac to_mk d its tr H :=
    let E := fresh "E" in
    destruct (data_is_items_then_trailing d) as [H E];
    set (its := items w d) in *; set (tr := trailing w d) in *; clearbody its tr; subst d;
    rewrite ?(arr_len_mk w w_pos its tr H), ?(items_mk its tr H), ?(trailing_mk w w_pos its tr H) in *.

  (* ================= 1. del a[start:stop:step] ================= *)
  Lemma delslice_mk its tr k : wfA w its tr ->
    arr_delslice w (mk its tr) k = res_map (fun its' => mk its' tr) (ba_delslice its k).
  Proof.
    intros H. unfold arr_delslice, ba_delslice. rewrite (arr_len_mk w w_pos its tr H).
    pose proof (zlen_nonneg its) as Hn.
    destruct (slice_indices k (zlen its)) as [[[a b] c]|e] eqn:Hsi; [|reflexivity]. cbn [bind res_map].
    destruct (slice_indices_bounds k (zlen its) a b c Hn Hsi) as (Hc & Hpos & Hneg).
    pose proof (range_list_in_bounds k (zlen its) a b c Hn Hsi) as Hin.
    destruct (c =? 1) eqn:E1.
    - assert (c = 1) by lia. subst c. destruct Hpos as [Ha Hb]; [lia|].
      rewrite delslice1_mk by assumption. f_equal. f_equal.
      unfold range_list. rewrite range_len_unit, MirrorProofs.remove_at_run. rewrite !Z.sub_0_r. f_equal. f_equal. lia.
    - destruct (c >? 0) eqn:E2.
      + rewrite del_each_desc.
        * f_equal. f_equal. apply remove_at_ext. intros j. apply existsb_rev.
        * exact H.
        * unfold range_list. rewrite rev_progression. apply desc_progression. lia.
        * intros y Hy. apply in_rev in Hy. now apply Hin.
      + rewrite del_each_desc; try assumption; try reflexivity. unfold range_list. apply desc_progression. lia.
  Qed.

  (* del a[key] on ANY Array data (any key, any trailing bits): it never fails except for step 0 (ValueError); the items become the Python
     list with the slice deleted (item j survives iff j is not in range(start, stop, step) for key.indices(len(a))), the trailing bits are untouched *)
  Theorem C14_delslice d k :
    match slice_indices k (arr_len w d) with
    | Err e => arr_delslice w d k = Err e
    | Ok (a, b, c) => exists d', arr_delslice w d k = Ok d' /\
        items w d' = remove_at (items w d) 0 (range_list a b c) /\ trailing w d' = trailing w d
    end.
  Proof.
    to_mk d its tr H. rewrite (delslice_mk its tr k H). unfold ba_delslice.
    destruct (slice_indices k (zlen its)) as [[[a b] c]|e]; [|reflexivity]. cbn [bind res_map].
    assert (H' : wfA w (remove_at its 0 (range_list a b c)) tr) by (destruct H; split; [now apply Forall_remove_at|assumption]).
    eexists. split; [reflexivity|]. now rewrite (items_mk _ _ H'), (trailing_mk w w_pos _ _ H').
  Qed.

  (* ================= 2. a[start:stop:step] = values ================= *)
  Lemma join_concat news : forall acc, fold_left (ba_append false) news acc = acc ++ concat news.
  Proof.
    induction news as [|e news IH]; intros acc; cbn [fold_left concat]; [now rewrite app_nil_r|].
    rewrite IH. unfold ba_append, addright. now rewrite app_assoc.
  Qed.

  Lemma overwrite1_mk its tr s e : wfA w its tr -> zlen e = w -> 0 <= s < zlen its ->
    ba_overwrite false false (mk its tr) e (s * w) = Ok (mk (set_nth its (Z.to_nat s) e) tr).
  Proof.
    intros H He Hs. pose proof (setitem_is_list_assignment w w_pos its tr s e H He) as G.
    unfold arr_setitem, pyidx in G. rewrite (arr_len_mk w w_pos its tr H) in G.
    destruct (s <? 0) eqn:E1; [lia|]. destruct ((s <? 0) || (s >=? zlen its)) eqn:E2; [lia|].
    rewrite Z.mul_comm, G. unfold list_set. rewrite <- set_nth_split by (unfold zlen in Hs; lia). reflexivity.
  Qed.
  Lemma Forall_set_nth {A} (P : A -> Prop) l : Forall P l -> forall n x, P x -> Forall P (set_nth l n x).
  Proof. induction 1 as [|h t Hh Ht IH]; intros [|n] x Hx; cbn [set_nth]; constructor; auto. Qed.
  Lemma Forall_assign_at {A} (P : A -> Prop) : forall idx v l, Forall P l -> Forall P v -> Forall P (assign_at l idx v).
  Proof.
    induction idx as [|i idx IH]; intros v l Hl Hv; [exact Hl|]. destruct v as [|x v]; [exact Hl|]. cbn [assign_at].
    inversion Hv; subst. apply IH; [apply Forall_set_nth|]; assumption.
  Qed.

  (* the extended-step loop of __setitem__: overwriting single items (any positions in range, any order) *)
  Lemma overwrite_each_mk : forall idx news its tr, wfA w its tr -> Forall isw news -> (forall y, In y idx -> 0 <= y < zlen its) ->
    overwrite_each w (mk its tr) idx news = Ok (mk (assign_at its idx news) tr).
  Proof.
    induction idx as [|s idx IH]; intros news its tr H Hn Hb; [reflexivity|]. destruct news as [|e news]; [reflexivity|].
    cbn [overwrite_each assign_at]. pose proof (Forall_inv Hn) as He. pose proof (Forall_inv_tail Hn) as Hn'. cbv beta in He.
    rewrite overwrite1_mk by (try assumption; apply Hb; now left). cbn [bind]. apply IH.
    - destruct H as [Hi Ht]. split; [apply Forall_set_nth|]; assumption.
    - exact Hn'.
    - intros y Hy. rewrite zlen_set_nth. apply Hb. now right.
  Qed.

  Lemma range_len_nonneg a b c : c <> 0 -> 0 <= range_len a b c.
  Proof.
    intros Hc. unfold range_len. destruct (c >? 0) eqn:E.
    - destruct (a <? b) eqn:E2; [|lia]. pose proof (Z.div_pos (b - a - 1) c ltac:(lia) ltac:(lia)). lia.
    - destruct (b <? a) eqn:E2; [|lia]. pose proof (Z.div_pos (a - b - 1) (- c) ltac:(lia) ltac:(lia)). lia.
  Qed.
  Lemma zlen_range_list a b c : c <> 0 -> zlen (range_list a b c) = range_len a b c.
  Proof. intros Hc. unfold range_list, zlen. rewrite progression_length. pose proof (range_len_nonneg a b c Hc). lia. Qed.

  Lemma setslice_mk its tr k news : wfA w its tr -> Forall isw news ->
    arr_setslice w (mk its tr) k news = res_map (fun its' => mk its' tr) (ba_setslice its k news).
  Proof.
    intros H Hnews. unfold arr_setslice, ba_setslice. rewrite (arr_len_mk w w_pos its tr H).
    pose proof (zlen_nonneg its) as Hn.
    destruct (slice_indices k (zlen its)) as [[[a b] c]|e] eqn:Hsi; [|reflexivity]. cbn [bind].
    destruct (slice_indices_bounds k (zlen its) a b c Hn Hsi) as (Hc & Hpos & Hneg).
    pose proof (range_list_in_bounds k (zlen its) a b c Hn Hsi) as Hin.
    destruct (c =? 1) eqn:E1.
    - assert (c = 1) by lia. subst c. destruct Hpos as [Ha Hb]; [lia|].
      rewrite setslice1_mk by assumption. cbn [res_map]. f_equal. unfold join. rewrite join_concat. cbn [app].
      replace (Z.to_nat (if b <? a then a else b)) with (Z.to_nat (Z.max a b)) by (destruct (b <? a) eqn:E; lia).
      unfold mk. rewrite !concat_app, <- !app_assoc. reflexivity.
    - rewrite zlen_range_list by exact Hc. rewrite (Z.eqb_sym (zlen news)).
      destruct (range_len a b c =? zlen news); [|reflexivity]. cbn [res_map]. now apply overwrite_each_mk.
  Qed.

  (* a[key] = values with a unit step, on ANY data: never fails; items a..max(a,b) are replaced by the new items (any number of them,
     so the Array may grow or shrink), the trailing bits are untouched *)
  Theorem C14_setslice_step1 d k news a b : Forall isw news -> slice_indices k (arr_len w d) = Ok (a, b, 1) ->
    exists d', arr_setslice w d k news = Ok d' /\
      items w d' = firstn (Z.to_nat a) (items w d) ++ news ++ skipn (Z.to_nat (Z.max a b)) (items w d) /\
      trailing w d' = trailing w d.
  Proof.
    intros Hnews Hsi. to_mk d its tr H. rewrite (setslice_mk its tr k news H Hnews). unfold ba_setslice. rewrite Hsi. cbn [bind res_map].
    change (1 =? 1) with true. cbv iota.
    replace (Z.to_nat (if b <? a then a else b)) with (Z.to_nat (Z.max a b)) by (destruct (b <? a) eqn:E; lia).
    pose proof (wfA_app_skip its tr (Z.to_nat a) (Z.to_nat (Z.max a b)) news H Hnews) as H'.
    eexists. split; [reflexivity|]. now rewrite (items_mk _ _ H'), (trailing_mk w w_pos _ _ H').
  Qed.

  (* a[key] = values with step 0: ValueError from slice.indices, whatever the values *)
  Theorem C14_setslice_step0 d k news e : slice_indices k (arr_len w d) = Err e -> arr_setslice w d k news = Err e.
  Proof. intros Hsi. unfold arr_setslice. now rewrite Hsi. Qed.

  (* pointwise reading of assign_at *)
  Lemma assign_at_other {A} (dflt : A) : forall idx l v i, (forall x, In x idx -> 0 <= x < zlen l) -> 0 <= i -> ~ In i idx ->
    znth dflt (assign_at l idx v) i = znth dflt l i.
  Proof.
    induction idx as [|x idx IH]; intros l v i Hb Hi Hni; [reflexivity|]. destruct v as [|y v]; [reflexivity|]. cbn [assign_at].
    rewrite IH; try assumption.
    - rewrite znth_set_nth by (try lia; apply Hb; now left). destruct (i =? x) eqn:E; [|reflexivity]. exfalso. apply Hni. left. lia.
    - intros z Hz. rewrite zlen_set_nth. apply Hb. now right.
    - intros Hin. apply Hni. now right.
  Qed.
  Lemma assign_at_hit {A} (dflt : A) : forall idx l v j, NoDup idx -> (forall x, In x idx -> 0 <= x < zlen l) ->
    (j < length idx)%nat -> (j < length v)%nat -> znth dflt (assign_at l idx v) (nth j idx 0) = nth j v dflt.
  Proof.
    induction idx as [|x idx IH]; intros l v j Hnd Hb Hj Hv; [cbn in Hj; lia|]. destruct v as [|y v]; [cbn in Hv; lia|].
    cbn [assign_at]. inversion Hnd as [|? ? Hx Hnd']; subst. destruct j as [|j]; cbn [nth].
    - rewrite assign_at_other; try assumption.
      + rewrite znth_set_nth by (try lia; apply Hb; now left). now rewrite Z.eqb_refl.
      + intros z Hz. rewrite zlen_set_nth. apply Hb. now right.
      + apply Hb. now left.
    - apply IH; try assumption; cbn [length] in *; try lia. intros z Hz. rewrite zlen_set_nth. apply Hb. now right.
  Qed.
  Lemma NoDup_progression c : c <> 0 -> forall n a, NoDup (progression a c n).
  Proof.
    intros Hc. induction n as [|n IH]; intros a; cbn [progression]; constructor; [|apply IH].
    intros Hin. apply In_progression in Hin as (j & _ & Hj). nia.
  Qed.

  (* a[key] = values with an extended step (step <> 1), on ANY data: refused with ValueError unless the number of values equals
     len(range(start, stop, step)); else the j-th position of the range receives the j-th value, every other item, the number
     of items and the trailing bits are unchanged *)
  Theorem C14_setslice_extended d k news a b c : Forall isw news -> slice_indices k (arr_len w d) = Ok (a, b, c) -> c <> 1 ->
    if zlen news =? range_len a b c then
      exists d', arr_setslice w d k news = Ok d' /\ trailing w d' = trailing w d /\ zlen (items w d') = zlen (items w d) /\
        (forall j, 0 <= j < zlen news -> znth [] (items w d') (a + j * c) = znth [] news j) /\
        (forall i, 0 <= i -> ~ In i (range_list a b c) -> znth [] (items w d') i = znth [] (items w d) i)
    else arr_setslice w d k news = Err ValueError.
  Proof.
    intros Hnews Hsi Hc1. to_mk d its tr H. rewrite (setslice_mk its tr k news H Hnews). unfold ba_setslice. rewrite Hsi. cbn [bind].
    pose proof (zlen_nonneg its) as Hn.
    destruct (slice_indices_bounds k (zlen its) a b c Hn Hsi) as (Hc & _ & _).
    pose proof (range_list_in_bounds k (zlen its) a b c Hn Hsi) as Hin.
    destruct (c =? 1) eqn:E1; [lia|]. rewrite zlen_range_list by exact Hc. rewrite (Z.eqb_sym (zlen news)).
    destruct (range_len a b c =? zlen news) eqn:E2; [|reflexivity]. cbn [res_map].
    assert (H' : wfA w (assign_at its (range_list a b c) news) tr) by (destruct H; split; [now apply Forall_assign_at|assumption]).
    eexists. split; [reflexivity|]. rewrite (items_mk _ _ H'), (trailing_mk w w_pos _ _ H').
    assert (Hlen : forall (idx : list Z) (v l : list bits), zlen (assign_at l idx v) = zlen l).
    { induction idx as [|x idx IH]; intros [|y v] l; cbn [assign_at]; try reflexivity. now rewrite IH, zlen_set_nth. }
    split; [reflexivity|]. split; [apply Hlen|]. split.
    - intros j Hj. pose proof (range_len_nonneg a b c Hc) as Hrl.
      assert (Hjn : (Z.to_nat j < Z.to_nat (range_len a b c))%nat) by lia.
      pose proof (@assign_at_hit bits [] (range_list a b c) its news (Z.to_nat j)) as G.
      assert (Hnth : nth (Z.to_nat j) (range_list a b c) 0 = a + j * c) by (unfold range_list; rewrite progression_nth by exact Hjn; lia).
      rewrite Hnth in G.
      apply G.
      + apply NoDup_progression. exact Hc.
      + exact Hin.
      + unfold range_list. now rewrite progression_length.
      + unfold zlen in *. lia.
    - intros i Hi Hni. now apply assign_at_other.
  Qed.

  (* ================= 3. extend ================= *)
  Lemma trailing_nonempty d : (zlen d mod w =? 0) = false <-> trailing w d <> [].
  Proof.
    unfold trailing, arr_len. pose proof (zlen_nonneg d) as Hd.
    pose proof (Z.div_mod (zlen d) w ltac:(lia)) as Hdm. pose proof (Z.mod_pos_bound (zlen d) w w_pos) as Hr.
    assert (Hq : 0 <= zlen d / w) by (apply Z.div_pos; lia).
    assert (L : zlen (drop (zlen d / w * w) d) = zlen d mod w) by (rewrite zlen_drop by nia; lia).
    split; intros Hx.
    - intros E. rewrite E in L. cbn in L. lia.
    - destruct (drop (zlen d / w * w) d) as [|x t] eqn:E; [congruence|]. rewrite zlen_cons in L. pose proof (zlen_nonneg t). lia.
  Qed.

  (* a.extend(values) on ANY data: ValueError when there are trailing bits (nothing changes), else the new items are appended *)
  Theorem C14_extend d news : Forall isw news ->
    if zlen d mod w =? 0 then exists d', arr_extend w d news = Ok d' /\ items w d' = items w d ++ news /\ trailing w d' = []
    else trailing w d <> [] /\ arr_extend w d news = Err ValueError.
  Proof.
    intros Hnews. unfold arr_extend. destruct (zlen d mod w =? 0) eqn:E0; cbn [negb].
    - assert (Ht : trailing w d = []).
      { destruct (trailing w d) eqn:Et; [reflexivity|]. exfalso. assert (X : trailing w d <> []) by congruence. apply trailing_nonempty in X. congruence. }
      to_mk d its tr H. subst tr. rewrite join_concat.
      assert (H' : wfA w (its ++ news) []) by (destruct H; split; [rewrite Forall_app; auto|assumption]).
      replace (mk its [] ++ concat news) with (mk (its ++ news) []) by (unfold mk; now rewrite concat_app, !app_nil_r).
      eexists. split; [reflexivity|]. now rewrite (items_mk _ _ H'), (trailing_mk w w_pos _ _ H').
    - split; [now apply trailing_nonempty|reflexivity].
  Qed.

  (* a.extend(other Array of the same dtype): the raw data of `other` is appended, so its items follow and ITS trailing bits become a's *)
  Theorem C14_extend_array d other :
    if zlen d mod w =? 0 then exists d', arr_extend_array w d other = Ok d' /\
        items w d' = items w d ++ items w other /\ trailing w d' = trailing w other
    else arr_extend_array w d other = Err ValueError.
  Proof.
    unfold arr_extend_array. destruct (zlen d mod w =? 0) eqn:E0; cbn [negb]; [|reflexivity].
    assert (Ht : trailing w d = []).
    { destruct (trailing w d) eqn:Et; [reflexivity|]. exfalso. assert (X : trailing w d <> []) by congruence. apply trailing_nonempty in X. congruence. }
    to_mk d its tr H. subst tr. to_mk other its2 tr2 H2.
    assert (H' : wfA w (its ++ its2) tr2) by (destruct H, H2; split; [rewrite Forall_app; auto|assumption]).
    replace (ba_append false (mk its []) (mk its2 tr2)) with (mk (its ++ its2) tr2)
      by (unfold ba_append, addright, mk; now rewrite concat_app, app_nil_r, app_assoc).
    eexists. split; [reflexivity|]. now rewrite (items_mk _ _ H'), (trailing_mk w w_pos _ _ H').
  Qed.

  (* ================= 4. reverse ================= *)
  Lemma get_block d A X B s : d = A ++ X ++ B -> zlen A = s -> zlen X = w ->
    bs_getitem_slice false d (mkslice (Some s) (Some (s + w)) None) = Ok X.
  Proof.
    intros -> HA HX. unfold bs_getitem_slice, getslice_withstep, getslice_withstep_msb0.
    pose proof (zlen_nonneg A). pose proof (zlen_nonneg B).
    rewrite seq_slice_unit by (rewrite ?zlen_app; lia). f_equal. unfold sub.
    change (take (s + w - s) (drop s (A ++ X ++ B)) = X).
    rewrite drop_app_exact by lia. apply take_app_exact. lia.
  Qed.
  Lemma set_block d A X B s v : d = A ++ X ++ B -> zlen A = s -> zlen X = w ->
    ba_setitem_slice false d (mkslice (Some s) (Some (s + w)) None) (VBits v) = Ok (A ++ v ++ B).
  Proof.
    intros -> HA HX. unfold ba_setitem_slice, setslice, setslice_msb0.
    pose proof (zlen_nonneg A). pose proof (zlen_nonneg B).
    rewrite setslice_unit by (rewrite ?zlen_app; lia).
    rewrite take_app_exact by lia. rewrite (app_assoc A X B), drop_app_exact by (rewrite zlen_app; lia). reflexivity.
  Qed.

  (* one pass of the loop body: the block at s and its mirror block are exchanged *)
  Lemma swap_step P x M y Q s r : zlen P = s -> zlen x = w -> zlen y = w -> zlen Q = s ->
    reverse_loop w (P ++ x ++ M ++ y ++ Q) (s :: r) = reverse_loop w (P ++ y ++ M ++ x ++ Q) r.
  Proof.
    intros HP Hx Hy HQ. cbn [reverse_loop]. set (d := P ++ x ++ M ++ y ++ Q).
    assert (Hsw : zlen d - s - w = zlen (P ++ x ++ M)) by (unfold d; rewrite !zlen_app; lia).
    rewrite (get_block d P x (M ++ y ++ Q) s) by auto. cbn [bind]. rewrite Hsw.
    rewrite (get_block d (P ++ x ++ M) y Q) by (unfold d; rewrite <- ?app_assoc; auto). cbn [bind].
    rewrite (set_block d P x (M ++ y ++ Q) s y) by auto. cbn [bind].
    rewrite (set_block (P ++ y ++ M ++ y ++ Q) (P ++ y ++ M) y Q (zlen (P ++ x ++ M)) x)
      by (rewrite <- ?app_assoc, ?zlen_app; auto; lia). cbn [bind].
    rewrite <- !app_assoc. reflexivity.
  Qed.
  (* the middle item of an odd-length Array may be exchanged with itself *)
  Lemma swap_self P x Q s r : zlen P = s -> zlen x = w -> zlen Q = s ->
    reverse_loop w (P ++ x ++ Q) (s :: r) = reverse_loop w (P ++ x ++ Q) r.
  Proof.
    intros HP Hx HQ. cbn [reverse_loop]. set (d := P ++ x ++ Q).
    assert (Hsw : zlen d - s - w = s) by (unfold d; rewrite !zlen_app; lia). rewrite Hsw.
    rewrite (get_block d P x Q s) by auto. cbn [bind].
    rewrite (set_block d P x Q s x) by auto. cbn [bind]. fold d.
    rewrite (set_block d P x Q s x) by auto. reflexivity.
  Qed.

  Lemma reverse_loop_spec : forall m its P Q s, Forall isw its -> zlen P = s -> zlen Q = s ->
    zlen its - 1 <= 2 * Z.of_nat m <= zlen its + 1 ->
    reverse_loop w (P ++ concat its ++ Q) (progression s w m) = Ok (P ++ concat (rev its) ++ Q).
  Proof.
    induction m as [|m IH]; intros its P Q s Hi HP HQ Hm.
    - destruct its as [|x [|y its]]; [reflexivity|reflexivity|]. rewrite !zlen_cons in Hm. pose proof (zlen_nonneg its). lia.
    - destruct its as [|x its]; [cbn in Hm; lia|].
      pose proof (Forall_inv Hi) as Hx. pose proof (Forall_inv_tail Hi) as Hi'. cbv beta in Hx. cbn [progression].
      destruct its as [|y0 its0].
      + cbn [concat rev app]. rewrite app_nil_r. rewrite swap_self by assumption.
        destruct m; [reflexivity|]. rewrite zlen_cons in Hm. cbn in Hm. lia.
      + destruct (@exists_last _ (y0 :: its0) ltac:(discriminate)) as (mid & y & E). rewrite E in *. clear E y0 its0.
        apply Forall_app in Hi' as [Hmid Hy]. apply Forall_inv in Hy. cbv beta in Hy.
        rewrite zlen_cons, zlen_app, zlen_cons in Hm. change (zlen (@nil bits)) with 0 in Hm.
        cbn [concat rev]. rewrite concat_app, rev_app_distr. cbn [concat rev app]. rewrite concat_app. cbn [concat].
        rewrite !app_nil_r, <- !app_assoc. rewrite swap_step by assumption.
        rewrite (app_assoc P y). rewrite (IH mid (P ++ y) (x ++ Q) (s + w)); try assumption; try (rewrite zlen_app; lia); try lia.
        rewrite <- !app_assoc. reflexivity.
  Qed.

  Lemma reverse_passes n : 0 <= n -> n - 1 <= 2 * Z.of_nat (Z.to_nat (range_len 0 (n * w / 2) w)) <= n + 1.
  Proof.
    intros Hn. unfold range_len. replace (w >? 0) with true by lia.
    pose proof (Z.div_mod (n * w) 2 ltac:(lia)) as D2. pose proof (Z.mod_pos_bound (n * w) 2 ltac:(lia)) as M2.
    set (h := n * w / 2) in *. destruct (0 <? h) eqn:E; [|cbn; nia].
    pose proof (Z.div_mod (h - 0 - 1) w ltac:(lia)) as Dw. pose proof (Z.mod_pos_bound (h - 0 - 1) w w_pos) as Mw.
    set (q := (h - 0 - 1) / w) in *. assert (0 <= q) by (apply Z.div_pos; lia).
    rewrite Z2Nat.id by lia. nia.
  Qed.

  Lemma reverse_mk its : Forall isw its -> arr_reverse w (mk its []) = Ok (mk (rev its) []).
  Proof.
    intros Hi. unfold arr_reverse. rewrite zlen_mk by exact Hi. change (zlen (@nil bool)) with 0. rewrite Z.add_0_r, Z.mod_mul by lia.
    change (0 =? 0) with true. cbn [negb]. unfold range_list, mk.
    change (concat its ++ []) with ([] ++ concat its ++ []). change (concat (rev its) ++ []) with ([] ++ concat (rev its) ++ []).
    apply reverse_loop_spec; try assumption; try reflexivity. apply reverse_passes. apply zlen_nonneg.
  Qed.

  Lemma no_trailing d : (zlen d mod w =? 0) = true -> trailing w d = [].
  Proof.
    intros E0. destruct (trailing w d) eqn:Et; [reflexivity|]. exfalso.
    assert (X : trailing w d <> []) by congruence. apply trailing_nonempty in X. congruence.
  Qed.

  (* a.reverse() on ANY data: ValueError when there are trailing bits (nothing changes); else the items come out in reverse order
     (each item keeps its own bit order) and there are still no trailing bits *)
  Theorem C14_reverse d :
    if zlen d mod w =? 0 then exists d', arr_reverse w d = Ok d' /\ items w d' = rev (items w d) /\ trailing w d' = []
    else trailing w d <> [] /\ arr_reverse w d = Err ValueError.
  Proof.
    destruct (zlen d mod w =? 0) eqn:E0.
    - pose proof (no_trailing d E0) as Ht. to_mk d its tr H. subst tr. destruct H as [Hi Ht].
      rewrite (reverse_mk its Hi).
      assert (H' : wfA w (rev its) []) by (split; [now apply Forall_rev|assumption]).
      eexists. split; [reflexivity|]. now rewrite (items_mk _ _ H'), (trailing_mk w w_pos _ _ H').
    - split; [now apply trailing_nonempty|]. unfold arr_reverse. now rewrite E0.
  Qed.

  (* ================= stretch: tolist / iteration / copy / equals / count ================= *)
  Lemma skipn_add {A} : forall a b (l : list A), skipn b (skipn a l) = skipn (a + b) l.
  Proof. induction a as [|a IH]; intros b l; [reflexivity|]. destruct l as [|h t]; [now rewrite !skipn_nil|]. apply IH. Qed.
  Lemma reads_are_blocks d : forall n s, 0 <= s -> map (fun s => take w (drop s d)) (progression s w n) = blocks w n (drop s d).
  Proof.
    induction n as [|n IH]; intros s Hs; [reflexivity|]. cbn [progression map blocks]. f_equal. rewrite IH by lia. f_equal.
    unfold drop. rewrite skipn_add. f_equal. lia.
  Qed.

  (* iterating over an Array yields exactly its items (so count(value) counts the items whose decoded value == value) *)
  Theorem C14_iter d : arr_iter w d = items w d.
  Proof. unfold arr_iter, items. now rewrite reads_are_blocks by lia. Qed.
  Theorem C14_count {V} (dec : bits -> V) eqv d v : arr_count w dec eqv d v = zlen (filter (fun it => eqv (dec it) v) (items w d)).
  Proof. unfold arr_count. now rewrite C14_iter. Qed.

  (* tolist() reads exactly the items, never the trailing bits *)
  Theorem C14_tolist d : arr_tolist w d = items w d.
  Proof.
    rewrite <- C14_iter. unfold arr_tolist, arr_iter, range_list, arr_len. do 3 f_equal.
    unfold range_len. replace (w >? 0) with true by lia. pose proof (zlen_nonneg d) as Hd.
    destruct (0 <? zlen d - w + 1) eqn:E.
    - replace (zlen d - w + 1 - 0 - 1) with (zlen d + (-1) * w) by lia. rewrite Z.div_add by lia. lia.
    - rewrite Z.div_small by lia. reflexivity.
  Qed.

  (* a.equals(b) for two Arrays of the same dtype: True iff they have the same items AND the same trailing bits; a copy equals the original *)
  Theorem C14_equals d1 d2 : arr_equals d1 d2 = true <-> items w d1 = items w d2 /\ trailing w d1 = trailing w d2.
  Proof.
    unfold arr_equals. rewrite beq_bits_eq. split; [now intros ->|]. intros [Ei Et].
    destruct (data_is_items_then_trailing d1) as [_ E1]. destruct (data_is_items_then_trailing d2) as [_ E2]. congruence.
  Qed.
  Theorem C14_copy d : arr_equals (arr_copy d) d = true.
  Proof. unfold arr_copy, arr_equals. now apply beq_bits_eq. Qed.
End ArrayMutProofs.

(* the hypotheses of the theorems are satisfiable on a non-trivial input: uint8 items, trailing bits 101 *)
Example hyp_items : Forall (fun it : bits => zlen it = 8) (u8l [1;2;3]). Proof. repeat constructor. Qed.
Example hyp_step1 : slice_indices (mkslice (Some 5) (Some (-4)) None) (arr_len 8 D2) = Ok (5, 3, 1). Proof. vm_compute. reflexivity. Qed.
Example hyp_ext : slice_indices (mkslice None None (Some (-3))) (arr_len 8 D2) = Ok (6, -1, -3) /\ (zlen (u8l [1;2;3]) =? range_len 6 (-1) (-3)) = true.
Proof. vm_compute. split; reflexivity. Qed.

Print Assumptions data_is_items_then_trailing.
Print Assumptions items_mk.
Print Assumptions delslice_mk.
Print Assumptions setslice_mk.
Print Assumptions C14_delslice.
Print Assumptions C14_setslice_step0.
Print Assumptions C14_setslice_step1.
Print Assumptions C14_setslice_extended.
Print Assumptions C14_extend.
Print Assumptions C14_extend_array.
Print Assumptions C14_reverse.
Print Assumptions C14_iter.
Print Assumptions C14_count.
Print Assumptions C14_tolist.
Print Assumptions C14_equals.
Print Assumptions C14_copy.
