From BS Require Import Prims IntCodec CodecProofs SeqProofs Print.
From Coq Require Import ZifyBool.
Open Scope Z_scope.

Lemma chunks_cons w fuel (b : bits) : b <> [] -> chunks w (S fuel) b = firstn w b :: chunks w fuel (skipn w b).
Proof. destruct b; [congruence|reflexivity]. Qed.

(* hex digits then back: identity on bit strings whose length is a multiple of 4 *)
Lemma hex_roundtrip_aux : forall n (b : bits), length b = (4 * n)%nat -> forall fuel, (n <= fuel)%nat ->
  flat_map (enc_uint 4) (map value_msb (chunks 4 fuel b)) = b.
Proof.
  induction n; intros b Hl fuel Hf.
  - destruct b; [|discriminate]. destruct fuel; reflexivity.
  - destruct fuel as [|f]; [lia|].
    assert (Hne : b <> []) by (intro; subst; discriminate).
    rewrite chunks_cons by exact Hne. cbn [map flat_map].
    rewrite IHn by (try rewrite skipn_length; lia).
    assert (Hf4 : length (firstn 4 b) = 4%nat) by (rewrite firstn_length; lia).
    unfold enc_uint. change (Z.to_nat 4) with 4%nat. rewrite <- Hf4 at 1. rewrite enc_value_roundtrip.
    apply firstn_skipn.
Qed.

Lemma hex_roundtrip (b : bits) : zlen b mod 4 = 0 -> flat_map (enc_uint 4) (hexdigits b) = b.
Proof.
  intros H. unfold hexdigits. apply (hex_roundtrip_aux (length b / 4)).
  - unfold zlen in H. assert (Z.of_nat (length b) = 4 * (Z.of_nat (length b) / 4)) by (apply Z_div_exact_2; lia).
    apply Nat2Z.inj. rewrite Nat2Z.inj_mul. change (Z.of_nat 4) with 4. rewrite H0 at 1. f_equal.
    rewrite Nat2Z.inj_div. reflexivity.
  - apply Nat.div_le_upper_bound; lia.
Qed.

(* when not truncated (at most MAX_CHARS*4 = 1000 bits), parsing str(s) gives s back *)
Theorem str_roundtrip (b : bits) : zlen b <= MAX_CHARS * 4 -> parse_parts (str_parts b) = b /\ p_truncated (str_parts b) = false.
Proof.
  intros Hl. unfold str_parts. pose proof (zlen_nonneg b) as Hn.
  destruct (zlen b =? 0) eqn:E0.
  - split; [|reflexivity]. destruct b as [|x t]; [reflexivity|]. rewrite zlen_cons in E0. pose proof (zlen_nonneg t). lia.
  - destruct (zlen b >? MAX_CHARS * 4) eqn:E1; [lia|].
    destruct ((zlen b <? 32) && negb (zlen b mod 4 =? 0)) eqn:E2; [split; reflexivity|].
    destruct (zlen b mod 4 =? 0) eqn:E3.
    + split; [|reflexivity]. unfold parse_parts. cbn [p_hex p_bin]. rewrite hex_roundtrip by lia. apply app_nil_r.
    + split; [|reflexivity]. unfold parse_parts. cbn [p_hex p_bin].
      pose proof (Z.mod_pos_bound (zlen b) 4 ltac:(lia)) as Hr.
      pose proof (Z.div_mod (zlen b) 4 ltac:(lia)) as Hd.
      rewrite hex_roundtrip.
      * apply firstn_skipn.
      * rewrite zlen_firstn. rewrite Z2Nat.id by lia.
        replace (Z.min (zlen b - zlen b mod 4) (zlen b)) with (4 * (zlen b / 4)) by lia.
        rewrite Z.mul_comm. apply Z.mod_mul. lia.
Qed.

(* longer values are marked as truncated and show exactly the first MAX_CHARS*4 bits *)
Theorem str_truncated (b : bits) : zlen b > MAX_CHARS * 4 ->
  p_truncated (str_parts b) = true /\ parse_parts (str_parts b) = firstn (Z.to_nat (MAX_CHARS * 4)) b.
Proof.
  intros Hl. unfold str_parts. destruct (zlen b =? 0) eqn:E0; [unfold MAX_CHARS in *; lia|].
  destruct (zlen b >? MAX_CHARS * 4) eqn:E1; [|lia]. split; [reflexivity|].
  unfold parse_parts. cbn [p_hex p_bin]. rewrite hex_roundtrip; [apply app_nil_r|].
  rewrite zlen_firstn. rewrite Z2Nat.id by (unfold MAX_CHARS; lia). replace (Z.min (MAX_CHARS * 4) (zlen b)) with (MAX_CHARS * 4) by lia.
  reflexivity.
Qed.
