(* MutProofs.v — C03: every modelled mutator of BitArray equals its list-level specification,
   for all contents and arguments, and so does every finite program of them. *)
From BS Require Import Prims BitsCore Mutators MutSpec SeqProofs BitwiseProofs.
From Coq Require Import ZifyBool.
Open Scope Z_scope.

(* the model's interpretation of the same op language (msb0) *)
Definition model_step (b : bits) (op : mop) : res bits :=
  match op with
  | MInsert bs pos => ba_insert false b bs pos
  | MOverwrite bs pos => ba_overwrite false false b bs pos
  | MAppend bs => Ok (ba_append false b bs)
  | MPrepend bs => Ok (ba_prepend false b bs)
  | MDelRange s e => if (0 <=? s) && (s <=? e) && (e <=? zlen b)
                     then ba_delitem_slice false b (mkslice (Some s) (Some e) None) else Err ValueError
  | MDelBit i => ba_delitem_int false b i
  | MSetBit i v => setbit false b i v
  | MInvertBit i => match invert_list false b [i] with (b', None) => Ok b' | (_, Some e) => Err e end
  | MInvertAll => Ok (ba_invert_all b)
  | MReverse s e => ba_reverse false b s e
  | MRol n s e => ba_rol false b n s e
  | MRor n s e => ba_ror false b n s e
  | MLshift n => bs_ilshift b n
  | MRshift n => bs_irshift b n
  | MClear => Ok (ba_clear b)
  end.

Fixpoint model_run (b : bits) (ops : list mop) : bits * option exn :=
  match ops with
  | [] => (b, None)
  | op :: rest => match model_step b op with Ok b' => model_run b' rest | Err e => (b, Some e) end
  end.

(* ---------- primitives: contiguous slice assignment and deletion ---------- *)
Lemma slice_indices_unit (l : bits) a b : 0 <= a -> a <= b -> b <= zlen l ->
  slice_indices (mkslice (Some a) (Some b) None) (zlen l) = Ok (a, b, 1).
Proof.
  intros. unfold slice_indices. cbn [s_step s_start s_stop]. change (1 =? 0) with false. change (1 <? 0) with false.
  cbv iota. unfold clamp_index.
  destruct (a <? 0) eqn:?; [lia|]. destruct (b <? 0) eqn:?; [lia|].
  destruct (a >? zlen l) eqn:?; [lia|]. destruct (b >? zlen l) eqn:?; [lia|]. reflexivity.
Qed.

Lemma setslice_unit (l v : bits) a b : 0 <= a -> a <= b -> b <= zlen l ->
  ba_setslice l (mkslice (Some a) (Some b) None) v = Ok (take a l ++ v ++ drop b l).
Proof.
  intros. unfold ba_setslice. rewrite slice_indices_unit by lia. cbn [bind]. change (1 =? 1) with true. cbv iota.
  destruct (b <? a) eqn:?; [lia|]. reflexivity.
Qed.

Lemma existsb_progression j a n : existsb (Z.eqb j) (progression a 1 n) = (a <=? j) && (j <? a + Z.of_nat n).
Proof.
  revert a. induction n; intros a.
  - cbn. lia.
  - cbn [progression existsb]. rewrite IHn. lia.
Qed.

Lemma remove_at_contig (l : bits) : forall j a n, 0 <= j ->
  remove_at l j (progression a 1 n) = firstn (Z.to_nat (a - j)) l ++ skipn (Z.to_nat (a + Z.of_nat n - j)) l.
Proof.
  induction l as [|h t IH]; intros j a n Hj.
  - cbn. now rewrite firstn_nil, skipn_nil.
  - cbn [remove_at]. rewrite existsb_progression.
    destruct ((a <=? j) && (j <? a + Z.of_nat n)) eqn:E.
    + rewrite IH by lia. replace (Z.to_nat (a - j)) with 0%nat by lia. replace (Z.to_nat (a - (j + 1))) with 0%nat by lia.
      cbn [firstn app]. replace (Z.to_nat (a + Z.of_nat n - j)) with (S (Z.to_nat (a + Z.of_nat n - (j + 1)))) by lia.
      reflexivity.
    + rewrite IH by lia.
      destruct (Z_lt_le_dec j a) as [Hlt|Hge].
      * replace (Z.to_nat (a - j)) with (S (Z.to_nat (a - (j + 1)))) by lia.
        replace (Z.to_nat (a + Z.of_nat n - j)) with (S (Z.to_nat (a + Z.of_nat n - (j + 1)))) by lia.
        reflexivity.
      * (* j >= a + n : nothing left to remove *)
        replace (Z.to_nat (a - j)) with 0%nat by lia. replace (Z.to_nat (a - (j + 1))) with 0%nat by lia.
        replace (Z.to_nat (a + Z.of_nat n - j)) with 0%nat by lia. replace (Z.to_nat (a + Z.of_nat n - (j + 1))) with 0%nat by lia.
        reflexivity.
Qed.

Lemma delslice_unit (l : bits) a b : 0 <= a -> a <= b -> b <= zlen l ->
  ba_delslice l (mkslice (Some a) (Some b) None) = Ok (take a l ++ drop b l).
Proof.
  intros. unfold ba_delslice. rewrite slice_indices_unit by lia. cbn [bind]. unfold range_list.
  rewrite range_len_unit. rewrite remove_at_contig by lia. unfold take, drop. f_equal. f_equal; f_equal; lia.
Qed.

Lemma getslice_unit (l : bits) a b : 0 <= a -> a <= b -> b <= zlen l ->
  getslice false l (Some a) (Some b) = Ok (take (b - a) (drop a l)).
Proof. intros. unfold getslice, getslice_msb0. rewrite seq_slice_unit by lia. reflexivity. Qed.

Lemma validate_slice_spec (b : bits) start stop : validate_slice b start stop = spec_range (zlen b) start stop.
Proof. reflexivity. Qed.

Lemma set_nth_split {A} (l : list A) : forall n x, (n < length l)%nat ->
  set_nth l n x = firstn n l ++ [x] ++ skipn (S n) l.
Proof.
  induction l as [|h t IH]; intros n x H; [simpl in H; lia|].
  destruct n; [reflexivity|]. cbn [set_nth firstn skipn app]. f_equal. apply IH. simpl in H. lia.
Qed.

(* lengths of take / drop *)
Lemma zlen_take (b : bits) n : 0 <= n -> n <= zlen b -> zlen (take n b) = n.
Proof. intros. unfold take. rewrite zlen_firstn. lia. Qed.
Lemma zlen_drop (b : bits) n : 0 <= n -> n <= zlen b -> zlen (drop n b) = zlen b - n.
Proof. intros. unfold drop. rewrite zlen_skipn. lia. Qed.


(* ---------- take/drop over concatenations ---------- *)
Lemma take_app_exact (A X : bits) n : n = zlen A -> take n (A ++ X) = A.
Proof. intros ->. unfold take, zlen. rewrite Nat2Z.id, firstn_app, Nat.sub_diag, firstn_all. cbn. apply app_nil_r. Qed.
Lemma drop_app_exact (A X : bits) n : n = zlen A -> drop n (A ++ X) = X.
Proof. intros ->. unfold drop, zlen. rewrite Nat2Z.id, skipn_app, Nat.sub_diag, skipn_all. reflexivity. Qed.
Lemma take_all (A : bits) n : zlen A <= n -> take n A = A.
Proof. intros. unfold take. apply firstn_all2. unfold zlen in *. lia. Qed.
Lemma drop_all (A : bits) n : zlen A <= n -> drop n A = [].
Proof. intros. unfold drop. apply skipn_all2. unfold zlen in *. lia. Qed.
Lemma drop_0 (A : bits) : drop 0 A = A. Proof. reflexivity. Qed.
Lemma take_0 (A : bits) : take 0 A = []. Proof. reflexivity. Qed.

Lemma split4 (b : bits) s k e : 0 <= s -> 0 <= k -> s + k <= e -> e <= zlen b ->
  exists A W1 W2 C, b = A ++ W1 ++ W2 ++ C /\ zlen A = s /\ zlen W1 = k /\ zlen W2 = e - s - k.
Proof.
  intros Hs Hk Hke He.
  exists (take s b), (take k (drop s b)), (take (e - s - k) (drop k (drop s b))), (drop (e - s - k) (drop k (drop s b))).
  repeat split.
  - unfold take, drop. now rewrite !firstn_skipn.
  - apply zlen_take; lia.
  - rewrite zlen_take; rewrite ?zlen_drop; lia.
  - assert (D1 : zlen (drop s b) = zlen b - s) by (apply zlen_drop; lia).
    assert (D2 : zlen (drop k (drop s b)) = zlen b - s - k) by (rewrite zlen_drop; lia).
    rewrite zlen_take; lia.
Qed.

Lemma zlen_0_nil (b : bits) : (zlen b =? 0) = true -> b = [].
Proof. destruct b; [reflexivity|]. unfold zlen. cbn [length]. lia. Qed.

(* ---------- each mutator equals its specification ---------- *)
Theorem step_refines b op : model_step b op = spec_step b op.
Proof.
  pose proof (zlen_nonneg b) as Hlen.
  destruct op; cbn [model_step spec_step].
  - (* insert *)
    unfold ba_insert, norm_pos.
    set (p := if pos <? 0 then pos + zlen b else pos).
    destruct ((0 <=? p) && (p <=? zlen b)) eqn:E; [|reflexivity].
    destruct (zlen bs =? 0) eqn:E0.
    { apply zlen_0_nil in E0. subst bs. cbn [app]. unfold take, drop. now rewrite firstn_skipn. }
    unfold insert_. rewrite E. unfold setslice, setslice_msb0. apply setslice_unit; lia.
  - (* overwrite *)
    unfold ba_overwrite, norm_pos.
    set (p := if pos <? 0 then pos + zlen b else pos).
    destruct ((p <? 0) || (p >? zlen b)) eqn:E; destruct ((0 <=? p) && (p <=? zlen b)) eqn:E'; try lia; [reflexivity|].
    destruct (zlen bs =? 0) eqn:E0.
    { apply zlen_0_nil in E0. subst bs. cbn [app zlen length]. change (Z.of_nat 0) with 0. rewrite Z.add_0_r.
      unfold take, drop. now rewrite firstn_skipn. }
    unfold overwrite_. rewrite E'. cbn [andb]. unfold setslice, setslice_msb0.
    pose proof (zlen_nonneg bs).
    destruct (Z_le_gt_dec (p + zlen bs) (zlen b)) as [Hin|Hout].
    + apply setslice_unit; lia.
    + (* extends past the end: the stop is clamped to len *)
      unfold ba_setslice, slice_indices. cbn [s_step s_start s_stop]. change (1 =? 0) with false. change (1 <? 0) with false.
      cbv iota. unfold clamp_index.
      destruct (p <? 0) eqn:?; [lia|]. destruct (p + zlen bs <? 0) eqn:?; [lia|].
      destruct (p >? zlen b) eqn:?; [lia|]. destruct (p + zlen bs >? zlen b) eqn:?; [|lia].
      cbn [bind]. change (1 =? 1) with true. cbv iota. destruct (zlen b <? p) eqn:?; [lia|].
      f_equal. unfold take, drop. f_equal. f_equal.
      rewrite !skipn_all2 by (unfold zlen in *; lia). reflexivity.
  - reflexivity.
  - reflexivity.
  - (* del range *)
    destruct ((0 <=? s) && (s <=? e) && (e <=? zlen b)) eqn:E; [|reflexivity].
    unfold ba_delitem_slice, delslice, delslice_msb0. apply delslice_unit; lia.
  - (* del bit *)
    unfold ba_delitem_int, delbit, delbit_msb0, ba_delitem, norm_index, norm_pos.
    set (p := if i <? 0 then i + zlen b else i).
    destruct ((p <? 0) || (p >=? zlen b)) eqn:E; destruct ((0 <=? p) && (p <? zlen b)) eqn:E'; try lia; [reflexivity|].
    cbn [bind]. unfold take, drop. f_equal. f_equal. f_equal. lia.
  - (* set bit *)
    unfold setbit, setbit_msb0, ba_setitem, norm_index, norm_pos.
    set (p := if i <? 0 then i + zlen b else i).
    destruct ((p <? 0) || (p >=? zlen b)) eqn:E; destruct ((0 <=? p) && (p <? zlen b)) eqn:E'; try lia; [reflexivity|].
    cbn [bind]. rewrite set_nth_split by (unfold zlen in *; lia). unfold take, drop. f_equal. f_equal. f_equal. f_equal. lia.
  - (* invert bit *)
    unfold invert_list, norm_pos. set (p := if i <? 0 then i + zlen b else i).
    destruct ((0 <=? p) && (p <? zlen b)) eqn:E; [|reflexivity].
    unfold invert_at, ba_invert_at, norm_index.
    destruct (p <? 0) eqn:?; [lia|]. destruct ((p <? 0) || (p >=? zlen b)) eqn:?; [lia|].
    cbn [bind]. rewrite set_nth_split by (unfold zlen in *; lia). unfold take, drop. f_equal. f_equal. f_equal. f_equal. lia.
  - reflexivity.
  - (* reverse *)
    unfold ba_reverse. rewrite validate_slice_spec. destruct (spec_range (zlen b) start stop) as [[s e]|err] eqn:Er; [|reflexivity].
    cbn [bind]. unfold spec_range in Er.
    match type of Er with (if ?c then _ else _) = _ => destruct c eqn:Ec; [|discriminate] end.
    injection Er as Hs He.
    assert (Hr : 0 <= s /\ s <= e /\ e <= zlen b) by lia. clear Ec Hs He.
    unfold in_window. destruct ((s =? 0) && (e =? zlen b)) eqn:E.
    + assert (s = 0) by lia. assert (e = zlen b) by lia. subst s e.
      f_equal. unfold take, drop. cbn [Z.to_nat firstn skipn app].
      rewrite Z.sub_0_r. unfold zlen. rewrite Nat2Z.id, firstn_all, skipn_all, app_nil_r. reflexivity.
    + unfold slice_. rewrite getslice_unit by lia. cbn [bind]. unfold setslice, setslice_msb0.
      rewrite setslice_unit by lia. reflexivity.
  - (* rol *)
    unfold ba_rol. destruct (zlen b =? 0) eqn:E0; [reflexivity|]. destruct (n <? 0) eqn:En; [reflexivity|].
    unfold rol_msb0. rewrite validate_slice_spec. destruct (spec_range (zlen b) start stop) as [[s e]|err] eqn:Er; [|reflexivity].
    cbn [bind]. unfold spec_range in Er.
    match type of Er with (if ?c then _ else _) = _ => destruct c eqn:Ec; [|discriminate] end.
    injection Er as Hs He. assert (Hr : 0 <= s /\ s <= e /\ e <= zlen b) by lia. clear Ec Hs He.
    destruct (e - s =? 0) eqn:Ew; [reflexivity|].
    pose proof (Z.mod_pos_bound n (e - s) ltac:(lia)) as Hk. set (k := n mod (e - s)) in *. clearbody k.
    destruct (split4 b s k e ltac:(lia) ltac:(lia) ltac:(lia) ltac:(lia)) as [A [W1 [W2 [C [Hb [LA [L1 L2]]]]]]].
    assert (T1 : take s b = A) by (rewrite Hb; apply take_app_exact; lia).
    assert (T2 : drop s b = W1 ++ W2 ++ C) by (rewrite Hb; apply drop_app_exact; lia).
    assert (T3 : drop (s + k) b = W2 ++ C).
    { rewrite Hb. rewrite app_assoc. apply drop_app_exact. rewrite zlen_app. lia. }
    assert (T4 : drop e b = C).
    { rewrite Hb. rewrite !app_assoc. apply drop_app_exact. rewrite !zlen_app. lia. }
    assert (T5 : take (e - s) (drop s b) = W1 ++ W2).
    { rewrite T2. rewrite app_assoc. apply take_app_exact. rewrite zlen_app. lia. }
    unfold in_window, rot_left. rewrite T1, T4, T5.
    destruct (k =? 0) eqn:Ek.
    + assert (HW : zlen W1 = 0) by lia. replace k with 0 by lia.
      destruct W1 as [|x W1']; [|rewrite zlen_cons in HW; pose proof (zlen_nonneg W1'); lia].
      cbn [app]. rewrite drop_0, take_0, app_nil_r. f_equal. exact Hb.
    + unfold slice_. rewrite getslice_unit by lia. cbn [bind].
      replace (s + k - s) with k by lia.
      assert (T6 : take k (drop s b) = W1) by (rewrite T2; apply take_app_exact; lia).
      rewrite T6.
      unfold delete_. destruct ((0 <=? s) && (s <=? zlen b) && (s + k <=? zlen b)) eqn:Ed; [|lia].
      unfold delslice, delslice_msb0. rewrite delslice_unit by lia. cbn [bind]. rewrite T1, T3.
      unfold insert_.
      assert (Hl1 : zlen (A ++ W2 ++ C) = zlen b - k).
      { rewrite Hb, !zlen_app. lia. }
      rewrite Hl1. destruct ((0 <=? e - k) && (e - k <=? zlen b - k)) eqn:Ei; [|lia].
      unfold setslice, setslice_msb0. rewrite setslice_unit by lia. f_equal.
      rewrite (app_assoc A W2 C). rewrite take_app_exact by (rewrite zlen_app; lia).
      rewrite drop_app_exact by (rewrite zlen_app; lia).
      rewrite drop_app_exact by lia. rewrite take_app_exact by lia.
      rewrite <- !app_assoc. reflexivity.
  - (* ror *)
    unfold ba_ror. destruct (zlen b =? 0) eqn:E0; [reflexivity|]. destruct (n <? 0) eqn:En; [reflexivity|].
    unfold ror_msb0. rewrite validate_slice_spec. destruct (spec_range (zlen b) start stop) as [[s e]|err] eqn:Er; [|reflexivity].
    cbn [bind]. unfold spec_range in Er.
    match type of Er with (if ?c then _ else _) = _ => destruct c eqn:Ec; [|discriminate] end.
    injection Er as Hs He. assert (Hr : 0 <= s /\ s <= e /\ e <= zlen b) by lia. clear Ec Hs He.
    destruct (e - s =? 0) eqn:Ew; [reflexivity|].
    pose proof (Z.mod_pos_bound n (e - s) ltac:(lia)) as Hk. set (k := n mod (e - s)) in *. clearbody k.
    destruct (split4 b s (e - s - k) e ltac:(lia) ltac:(lia) ltac:(lia) ltac:(lia)) as [A [W1 [W2 [C [Hb [LA [L1 L2]]]]]]].
    replace (e - s - (e - s - k)) with k in L2 by lia.
    assert (T1 : take (e - k) b = A ++ W1).
    { rewrite Hb. rewrite app_assoc. apply take_app_exact. rewrite zlen_app. lia. }
    assert (T2 : drop s b = W1 ++ W2 ++ C) by (rewrite Hb; apply drop_app_exact; lia).
    assert (T3 : drop (e - k) b = W2 ++ C).
    { rewrite Hb. rewrite app_assoc. apply drop_app_exact. rewrite zlen_app. lia. }
    assert (T4 : drop e b = C).
    { rewrite Hb. rewrite !app_assoc. apply drop_app_exact. rewrite !zlen_app. lia. }
    assert (T5 : take (e - s) (drop s b) = W1 ++ W2).
    { rewrite T2. rewrite app_assoc. apply take_app_exact. rewrite zlen_app. lia. }
    assert (T7 : take s b = A) by (rewrite Hb; apply take_app_exact; lia).
    unfold in_window, rot_right. rewrite T7, T4, T5. rewrite zlen_app.
    replace (zlen W1 + zlen W2 - k) with (zlen W1) by lia.
    rewrite drop_app_exact by lia. rewrite take_app_exact by lia.
    destruct (k =? 0) eqn:Ek.
    + assert (HW : zlen W2 = 0) by lia.
      destruct W2 as [|x W2']; [|rewrite zlen_cons in HW; pose proof (zlen_nonneg W2'); lia].
      cbn [app]. f_equal. rewrite Hb. reflexivity.
    + unfold slice_. rewrite getslice_unit by lia. cbn [bind].
      replace (e - (e - k)) with k by lia.
      assert (T6 : take k (drop (e - k) b) = W2) by (rewrite T3; apply take_app_exact; lia).
      rewrite T6.
      unfold delete_. destruct ((0 <=? e - k) && (e - k <=? zlen b) && (e - k + k <=? zlen b)) eqn:Ed; [|lia].
      unfold delslice, delslice_msb0. rewrite delslice_unit by lia. cbn [bind].
      replace (e - k + k) with e by lia. rewrite T1, T4.
      unfold insert_.
      assert (Hl1 : zlen ((A ++ W1) ++ C) = zlen b - k).
      { rewrite Hb, !zlen_app. lia. }
      rewrite Hl1. destruct ((0 <=? s) && (s <=? zlen b - k)) eqn:Ei; [|lia].
      unfold setslice, setslice_msb0. rewrite setslice_unit by lia. f_equal.
      rewrite <- (app_assoc A W1 C). rewrite take_app_exact by lia. rewrite drop_app_exact by lia.
      rewrite <- !app_assoc. reflexivity.
  - (* <<= *)
    rewrite ilshift_eq_lshift. unfold bs_lshift. destruct (n <? 0) eqn:En; [reflexivity|].
    destruct (zlen b =? 0) eqn:E0; cbn [orb]; [reflexivity|].
    fold (bs_lshift b n). assert (Hb : b <> []) by (intro; subst; discriminate).
    pose proof (lshift_spec b n ltac:(lia) Hb) as Hs. unfold bs_lshift in Hs. rewrite En, E0 in Hs. exact Hs.
  - (* >>= *)
    rewrite irshift_eq_rshift. destruct (n <? 0) eqn:En; [unfold bs_rshift; rewrite En; reflexivity|].
    destruct (zlen b =? 0) eqn:E0; cbn [orb]; [unfold bs_rshift; rewrite En, E0; reflexivity|].
    assert (Hb : b <> []) by (intro; subst; discriminate).
    apply rshift_spec; [lia|exact Hb].
  - reflexivity.
Qed.

(* every finite program of mutators on one object *)
Theorem program_refines ops : forall b, model_run b ops = spec_run b ops.
Proof.
  induction ops as [|op rest IH]; intros b; [reflexivity|].
  cbn [model_run spec_run]. rewrite step_refines. destruct (spec_step b op); [apply IH|reflexivity].
Qed.

(* frame: a ranged operation never alters bits outside [s, e) and keeps the length *)
Theorem window_frame b s e f : 0 <= s -> s <= e -> e <= zlen b -> (forall w, zlen (f w) = zlen w) ->
  take s (in_window b s e f) = take s b /\ drop e (in_window b s e f) = drop e b /\ zlen (in_window b s e f) = zlen b.
Proof.
  intros Hs Hse He Hf. unfold in_window.
  assert (L1 : zlen (take s b) = s) by (apply zlen_take; lia).
  assert (L2 : zlen (f (take (e - s) (drop s b))) = e - s).
  { rewrite Hf. rewrite zlen_take; rewrite ?zlen_drop; lia. }
  repeat split.
  - unfold take at 1. rewrite firstn_app. replace (Z.to_nat s - length (take s b))%nat with 0%nat by (unfold zlen in L1; lia).
    cbn [firstn]. rewrite app_nil_r. apply firstn_all2. unfold zlen in L1. lia.
  - unfold drop at 1. rewrite app_assoc, skipn_app.
    rewrite skipn_all2 by (rewrite app_length; unfold zlen in *; lia). cbn [app].
    replace (Z.to_nat e - length (take s b ++ f (take (e - s) (drop s b))))%nat with 0%nat by (rewrite app_length; unfold zlen in *; lia).
    reflexivity.
  - rewrite !zlen_app, L1, L2, zlen_drop by lia. lia.
Qed.

(* ---------- C20: only documented exceptions ---------- *)
Theorem mutators_fail_cleanly b op e : model_step b op = Err e ->
  match e with ValueError | IndexError | ReadError | TypeError | BsError | ByteAlignError => true | _ => false end = true.
Proof.
  rewrite step_refines. unfold spec_step, spec_range. intros H.
  destruct op; cbn beta iota delta [bind] in H;
    repeat (match type of H with
            | context [if ?c then _ else _] => destruct c
            end; cbn beta iota delta [bind] in H);
    try discriminate; try (injection H as <-; reflexivity).
Qed.
