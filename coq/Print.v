(* Print.v — C19: model of Bits.__str__ / _repr layout (bitstring/bits.py:251-294) at the level of
   hex digits and bits, and the parser of the same notation. MAX_CHARS is read from the source each run. *)
From BS Require Import Prims IntCodec.
Open Scope Z_scope.

Definition MAX_CHARS : Z := 250.

(* the printed form: hex digits, then bits printed in binary, and whether "..." follows *)
Record printed := mkprinted { p_hex : list Z; p_bin : bits; p_truncated : bool }.

Definition hexdigits (b : bits) : list Z := map value_msb (chunks 4 (length b) b).

Definition str_parts (b : bits) : printed :=
  let len := zlen b in
  if len =? 0 then mkprinted [] [] false
  else if len >? MAX_CHARS * 4 then mkprinted (hexdigits (firstn (Z.to_nat (MAX_CHARS * 4)) b)) [] true
  else if (len <? 32) && negb (len mod 4 =? 0) then mkprinted [] b false
  else if len mod 4 =? 0 then mkprinted (hexdigits b) [] false
  else let r := len mod 4 in
       mkprinted (hexdigits (firstn (Z.to_nat (len - r)) b)) (skipn (Z.to_nat (len - r)) b) false.

(* Bits('0x<hex>, 0b<bin>') *)
Definition parse_parts (p : printed) : bits := flat_map (enc_uint 4) (p_hex p) ++ p_bin p.
