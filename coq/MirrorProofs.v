(* MirrorProofs.v — C12: lsb0 slicing with a NEGATIVE step is the mirror of msb0 slicing (completes SeqProofs.mirror_getslice_posstep),
   so the mirror law holds for every slice key. *)
From BS Require Import Prims BitsCore SeqProofs StoreProofs.
From Coq Require Import ZifyBool.
Open Scope Z_scope.

Lemma slice_indices_negstep k len start stop step : 0 <= len -> slice_indices k len = Ok (start, stop, step) -> step < 0 ->
  -1 <= start <= len - 1 /\ -1 <= stop <= len - 1 /\ s_step k = Some step.
Proof.
  intros Hl H Hs. destruct (slice_indices_bounds k len start stop step Hl H) as (_ & _ & Hneg).
  specialize (Hneg Hs). split; [tauto|]. split; [tauto|].
  unfold slice_indices in H. destruct (s_step k) as [s|].
  - destruct (s =? 0); [discriminate|]. injection H as _ _ <-. reflexivity.
  - change (1 =? 0) with false in H. cbv iota in H. injection H as _ _ <-. lia.
Qed.

Theorem mirror_getslice_negstep (b : bits) (k : pyslice) :
  (match s_step k with None => False | Some s => s < 0 end) ->
  getslice_withstep_lsb0 b k = res_map (@rev bool) (getslice_withstep_msb0 (rev b) k).
Proof.
  intros Hstep.
  unfold getslice_withstep_lsb0, getslice_withstep_msb0, offset_slice_indices_lsb0, indices.
  unfold seq_slice at 2. rewrite zlen_rev. set (len := zlen b). pose proof (zlen_nonneg b) as Hlen. fold len in Hlen.
  destruct (slice_indices k len) as [[[start stop] step]|e] eqn:Hsi; [|reflexivity].
  cbn [bind].
  assert (Hneg : step < 0).
  { unfold slice_indices in Hsi. destruct (s_step k) as [s|]; [|contradiction]. destruct (s =? 0); [discriminate|]. injection Hsi as _ _ <-. exact Hstep. }
  destruct (slice_indices_negstep k len start stop step Hlen Hsi Hneg) as (Hst & Hsp & Hk).
  rewrite Hk. destruct (step >=? 0) eqn:E0; [lia|]. cbn [bind].
  destruct (step <? 0) eqn:E1; [|lia].
  assert (Hstop : (match (if stop <? 0 then None else Some stop) with None => -1 | Some s => s end) = stop)
    by (destruct (stop <? 0) eqn:E; lia).
  rewrite Hstop. clear Hstop.
  set (n := range_len start stop step).
  assert (Hn : n = if stop <? start then (start - stop - 1) / (- step) + 1 else 0).
  { unfold n, range_len. destruct (step >? 0) eqn:E; [lia|]. reflexivity. }
  destruct (n =? 0) eqn:En.
  - (* nothing selected *)
    cbn [bind res_map]. unfold range_list. fold n. replace n with 0 by lia. cbn [Z.to_nat progression map rev].
    unfold seq_slice, slice_indices. cbn [s_step s_start s_stop]. destruct (step =? 0) eqn:E; [lia|]. rewrite E1. cbn [bind].
    fold len. unfold range_list.
    match goal with |- context [range_len ?a ?c step] => assert (Hr : range_len a c step = 0) end.
    { unfold range_len, clamp_index. destruct (step >? 0) eqn:E2; [lia|].
      destruct (0 <? 0) eqn:?; [lia|]. destruct (0 >? len - 1) eqn:?; rewrite Z.ltb_irrefl; reflexivity. }
    rewrite Hr. reflexivity.
  - (* n >= 1 items *)
    assert (Hlt : stop < start) by (destruct (stop <? start) eqn:E; lia).
    assert (Hn1 : 1 <= n).
    { rewrite Hn. replace (stop <? start) with true by lia. assert (0 <= (start - stop - 1) / (- step)) by (apply Z.div_pos; lia). lia. }
    set (q := (start - stop - 1) / (- step)).
    assert (Hq : n = q + 1) by (rewrite Hn; replace (stop <? start) with true by lia; reflexivity).
    pose proof (Z.div_mod (start - stop - 1) (- step) ltac:(lia)) as Hdm. fold q in Hdm.
    pose proof (Z.mod_pos_bound (start - stop - 1) (- step) ltac:(lia)) as Hmb.
    assert (Hq0 : 0 <= q) by lia.
    assert (Hlast : stop < start + q * step <= start) by nia.
    cbn [bind]. replace (n - 1) with q by lia.
    set (ns := len - 1 - (start + q * step)). set (ne := len - 1 - start - 1).
    unfold seq_slice at 1. unfold slice_indices. cbn [s_step s_start s_stop]. destruct (step =? 0) eqn:E; [lia|]. rewrite E1. cbn [bind].
    fold len.
    assert (Hns : 0 <= ns <= len - 1) by (unfold ns; lia).
    assert (Hcs : clamp_index ns len (-1) (len - 1) = ns) by (apply clamp_id; lia).
    assert (Hstop' : match (if ne <? 0 then None else Some ne) with None => -1 | Some v => clamp_index v len (-1) (len - 1) end = ne).
    { destruct (ne <? 0) eqn:E2; [unfold ne in *; lia|]. apply clamp_id; unfold ne in *; lia. }
    destruct (ne <? 0) eqn:E2.
    + (* stop becomes None *)
      cbn [s_stop] in *. rewrite Hcs.
      assert (Hrl : range_len ns (-1) step = n).
      { unfold range_len. destruct (step >? 0) eqn:E3; [lia|]. replace (-1 <? ns) with true by lia.
        rewrite Hq. f_equal. unfold ns. replace (len - 1 - (start + q * step) - -1 - 1) with (q * (- step)) by (unfold ne in E2; lia).
        apply Z.div_mul. lia. }
      unfold range_list. rewrite Hrl. cbn [res_map]. f_equal.
      fold n. rewrite rev_map_znth_rev.
      * fold len. f_equal. f_equal. unfold ns. rewrite Z2Nat.id by lia. rewrite Hq. f_equal. f_equal. lia.
      * intros j Hj. fold len. nia.
    + rewrite Hcs. rewrite (clamp_id ne) by (unfold ne in *; lia).
      assert (Hrl : range_len ns ne step = n).
      { unfold range_len. destruct (step >? 0) eqn:E3; [lia|]. replace (ne <? ns) with true by (unfold ns, ne; lia).
        rewrite Hq. f_equal. unfold ns, ne. replace (len - 1 - (start + q * step) - (len - 1 - start - 1) - 1) with (q * (- step)) by lia.
        apply Z.div_mul. lia. }
      unfold range_list. rewrite Hrl. cbn [res_map]. f_equal.
      fold n. rewrite rev_map_znth_rev.
      * fold len. f_equal. f_equal. unfold ns. rewrite Z2Nat.id by lia. rewrite Hq. f_equal. f_equal. lia.
      * intros j Hj. fold len. nia.
Qed.

(* the mirror law for slicing, every key: a zero step is refused on both sides *)
Theorem mirror_getslice (b : bits) (k : pyslice) :
  getslice_withstep_lsb0 b k = res_map (@rev bool) (getslice_withstep_msb0 (rev b) k).
Proof.
  destruct (s_step k) as [s|] eqn:E.
  - destruct (Z.lt_trichotomy s 0) as [H|[H|H]].
    + apply mirror_getslice_negstep. rewrite E. exact H.
    + subst s. unfold getslice_withstep_lsb0, getslice_withstep_msb0, offset_slice_indices_lsb0, indices, seq_slice, slice_indices.
      rewrite E. reflexivity.
    + apply mirror_getslice_posstep. rewrite E. exact H.
  - apply mirror_getslice_posstep. rewrite E. exact I.
Qed.

(* ---------- the two-argument slice accessor getslice_lsb0 (its own code path in bitstore.py) ---------- *)
Theorem mirror_getslice_nostep (b : bits) (start stop : option Z) :
  getslice_lsb0 b start stop = res_map (@rev bool) (getslice_msb0 (rev b) start stop).
Proof.
  unfold getslice_msb0. change (seq_slice false (rev b) (mkslice start stop None)) with (getslice_withstep_msb0 (rev b) (mkslice start stop None)).
  rewrite <- mirror_getslice. unfold getslice_lsb0, getslice_withstep_lsb0.
  destruct (offset_slice_indices_lsb0 (mkslice start stop None) (zlen b)) as [s'|e] eqn:E; [|reflexivity]. cbn [bind].
  assert (s_step s' = None).
  { unfold offset_slice_indices_lsb0 in E. destruct (indices _ _) as [[[a o] c]|]; [|discriminate]. cbn [bind s_step] in E.
    destruct (c <? 0); [destruct (_ =? 0); injection E as <-; reflexivity|].
    destruct o as [o|]; [|discriminate]. destruct (o <=? a); injection E as <-; reflexivity. }
  destruct s' as [x y z]. cbn [s_step s_start s_stop] in *. subst z. reflexivity.
Qed.

(* ---------- single-bit operations: index -i-1 on b is index i on rev b ---------- *)
Lemma norm_index_mirror {A} (l : list A) i :
  norm_index l (- i - 1) = res_map (fun j => zlen l - 1 - j) (norm_index (rev l) i).
Proof.
  unfold norm_index. rewrite zlen_rev. pose proof (zlen_nonneg l).
  destruct (i <? 0) eqn:E1; destruct (- i - 1 <? 0) eqn:E2; try lia.
  - destruct ((- i - 1 <? 0) || (- i - 1 >=? zlen l)) eqn:E3; destruct ((i + zlen l <? 0) || (i + zlen l >=? zlen l)) eqn:E4; try lia; cbn [res_map]; [reflexivity|f_equal; lia].
  - destruct ((- i - 1 + zlen l <? 0) || (- i - 1 + zlen l >=? zlen l)) eqn:E3; destruct ((i <? 0) || (i >=? zlen l)) eqn:E4; try lia; cbn [res_map]; [reflexivity|f_equal; lia].
Qed.

Lemma norm_index_range {A} (l : list A) i j : norm_index l i = Ok j -> 0 <= j < zlen l.
Proof. unfold norm_index. destruct (_ || _) eqn:E; [discriminate|]. intros [= <-]. lia. Qed.

Lemma set_nth_firstn_skipn {A} (l : list A) n x : (n < length l)%nat -> set_nth l n x = firstn n l ++ x :: skipn (S n) l.
Proof.
  revert n. induction l as [|h t IH]; intros n Hn; [cbn in Hn; lia|]. destruct n; [reflexivity|].
  cbn [set_nth firstn skipn app]. f_equal. apply IH. cbn in Hn. lia.
Qed.

Lemma rev_set_nth {A} (l : list A) n x : (n < length l)%nat -> rev (set_nth (rev l) n x) = set_nth l (length l - 1 - n) x.
Proof.
  intros Hn. rewrite !set_nth_firstn_skipn by (try rewrite rev_length; lia).
  rewrite rev_app_distr. cbn [rev]. rewrite <- app_assoc. cbn [app].
  rewrite skipn_rev, firstn_rev, !rev_involutive. f_equal; [f_equal; lia|]. f_equal. f_equal. lia.
Qed.

Theorem mirror_setbit (b : bits) i x : setbit_lsb0 b i x = res_map (@rev bool) (setbit_msb0 (rev b) i x).
Proof.
  unfold setbit_lsb0, setbit_msb0, ba_setitem. rewrite norm_index_mirror.
  destruct (norm_index (rev b) i) as [j|e] eqn:E; [|reflexivity]. cbn [res_map bind]. f_equal.
  apply norm_index_range in E. rewrite zlen_rev in E. unfold zlen in *.
  rewrite rev_set_nth by lia. f_equal. lia.
Qed.

Theorem mirror_invert_at (b : bits) i : invert_at true b i = res_map (@rev bool) (invert_at false (rev b) i).
Proof.
  unfold invert_at, ba_invert_at. rewrite norm_index_mirror.
  destruct (norm_index (rev b) i) as [j|e] eqn:E; [|reflexivity]. cbn [res_map bind]. f_equal.
  apply norm_index_range in E. rewrite zlen_rev in E.
  rewrite (znth_rev false b j) by lia. unfold zlen in *.
  rewrite rev_set_nth by lia. f_equal. lia.
Qed.

Theorem mirror_delbit (b : bits) i : delbit_lsb0 b i = res_map (@rev bool) (delbit_msb0 (rev b) i).
Proof.
  unfold delbit_lsb0, delbit_msb0, ba_delitem. rewrite norm_index_mirror.
  destruct (norm_index (rev b) i) as [j|e] eqn:E; [|reflexivity]. cbn [res_map bind]. f_equal.
  apply norm_index_range in E. rewrite zlen_rev in E. unfold zlen in *.
  rewrite rev_app_distr, skipn_rev, firstn_rev, !rev_involutive. f_equal; f_equal; lia.
Qed.

(* ---------- slice assignment and deletion with a unit step (a[i:j] = v, del a[i:j]) ---------- *)
Lemma slice_indices_unit start stop len : 0 <= len ->
  exists a o, slice_indices (mkslice start stop None) len = Ok (a, o, 1) /\ 0 <= a <= len /\ 0 <= o <= len.
Proof.
  intros Hl. unfold slice_indices. cbn [s_step s_start s_stop]. change (1 =? 0) with false. change (1 <? 0) with false. cbv iota.
  eexists _, _. split; [reflexivity|]. unfold clamp_index. split.
  - destruct start as [v|]; [|lia]. destruct (v <? 0) eqn:?; [destruct (v + len <? 0) eqn:?|destruct (v >? len) eqn:?]; lia.
  - destruct stop as [v|]; [|lia]. destruct (v <? 0) eqn:?; [destruct (v + len <? 0) eqn:?|destruct (v >? len) eqn:?]; lia.
Qed.

Lemma slice_indices_unit_id x y len : 0 <= x <= len -> 0 <= y <= len -> slice_indices (mkslice (Some x) (Some y) None) len = Ok (x, y, 1).
Proof.
  intros Hx Hy. unfold slice_indices. cbn [s_step s_start s_stop]. change (1 =? 0) with false. change (1 <? 0) with false. cbv iota.
  rewrite !clamp_id by lia. reflexivity.
Qed.

Lemma offset_unit start stop len a o : 0 <= len -> slice_indices (mkslice start stop None) len = Ok (a, o, 1) ->
  offset_slice_indices_lsb0 (mkslice start stop None) len =
  Ok (if o <=? a then mkslice (Some (len - a)) (Some (len - a)) None else mkslice (Some (len - o)) (Some (len - a)) None).
Proof.
  intros Hl H. unfold offset_slice_indices_lsb0, indices. rewrite H. cbn [bind s_step]. change (1 <? 0) with false. cbv iota.
  destruct (o <=? a) eqn:E; [reflexivity|]. rewrite Z.div_1_r. f_equal. f_equal. f_equal. lia.
Qed.

Theorem mirror_setslice_unit (b : bits) (start stop : option Z) (v : bits) :
  setslice_lsb0 b (mkslice start stop None) v = res_map (@rev bool) (setslice_msb0 (rev b) (mkslice start stop None) (rev v)).
Proof.
  unfold setslice_lsb0, setslice_msb0. pose proof (zlen_nonneg b) as Hl.
  destruct (slice_indices_unit start stop (zlen b) Hl) as (a & o & Hsi & Ha & Ho).
  rewrite (offset_unit _ _ _ _ _ Hl Hsi). cbn [bind].
  unfold ba_setslice at 2. rewrite zlen_rev, Hsi. cbn [bind]. change (1 =? 1) with true. cbv iota. cbn [res_map].
  rewrite !rev_app_distr, <- app_assoc, rev_involutive. rewrite skipn_rev, firstn_rev, !rev_involutive.
  destruct (o <=? a) eqn:E.
  - unfold ba_setslice. rewrite slice_indices_unit_id by lia. cbn [bind]. change (1 =? 1) with true. cbv iota.
    rewrite Z.ltb_irrefl. f_equal. unfold zlen in *.
    destruct (o <? a) eqn:E2; (f_equal; [f_equal; lia|f_equal; f_equal; lia]).
  - unfold ba_setslice. rewrite slice_indices_unit_id by lia. cbn [bind]. change (1 =? 1) with true. cbv iota.
    destruct (zlen b - a <? zlen b - o) eqn:E3; [lia|]. destruct (o <? a) eqn:E2; [lia|].
    f_equal. unfold zlen in *. f_equal; [f_equal; lia|f_equal; f_equal; lia].
Qed.

Lemma existsb_progression j a n : existsb (Z.eqb j) (progression a 1 n) = (a <=? j) && (j <? a + Z.of_nat n).
Proof.
  revert a. induction n as [|n IH]; intros a; [cbn; lia|]. cbn [progression existsb]. rewrite IH. lia.
Qed.

Lemma remove_at_run {A} : forall (l : list A) j a n,
  remove_at l j (progression a 1 n) = firstn (Z.to_nat (a - j)) l ++ skipn (Z.to_nat (Z.max (a - j) (a + Z.of_nat n - j))) l.
Proof.
  induction l as [|h t IH]; intros j a n; [cbn; now rewrite firstn_nil, skipn_nil|].
  cbn [remove_at]. rewrite existsb_progression. rewrite IH.
  destruct ((a <=? j) && (j <? a + Z.of_nat n)) eqn:E.
  - replace (Z.to_nat (a - j)) with 0%nat by lia. replace (Z.to_nat (a - (j + 1))) with 0%nat by lia. cbn [firstn app].
    replace (Z.to_nat (Z.max (a - j) (a + Z.of_nat n - j))) with (S (Z.to_nat (Z.max (a - (j + 1)) (a + Z.of_nat n - (j + 1))))) by lia.
    reflexivity.
  - destruct (Z_lt_dec j a) as [Hlt|Hge].
    + replace (Z.to_nat (a - j)) with (S (Z.to_nat (a - (j + 1)))) by lia. cbn [firstn app]. f_equal. f_equal.
      replace (Z.to_nat (Z.max (a - j) (a + Z.of_nat n - j))) with (S (Z.to_nat (Z.max (a - (j + 1)) (a + Z.of_nat n - (j + 1))))) by lia.
      reflexivity.
    + replace (Z.to_nat (a - j)) with 0%nat by lia. replace (Z.to_nat (a - (j + 1))) with 0%nat by lia.
      replace (Z.to_nat (Z.max (a - j) (a + Z.of_nat n - j))) with 0%nat by lia.
      replace (Z.to_nat (Z.max (a - (j + 1)) (a + Z.of_nat n - (j + 1)))) with 0%nat by lia. reflexivity.
Qed.

Lemma ba_delslice_unit {A} (l : list A) x y : 0 <= x <= zlen l -> 0 <= y <= zlen l ->
  ba_delslice l (mkslice (Some x) (Some y) None) = Ok (firstn (Z.to_nat x) l ++ skipn (Z.to_nat (Z.max x y)) l).
Proof.
  intros Hx Hy. unfold ba_delslice. rewrite slice_indices_unit_id by lia. cbn [bind]. f_equal.
  unfold range_list. rewrite remove_at_run. rewrite range_len_unit. rewrite Z.sub_0_r. f_equal. f_equal. lia.
Qed.

Theorem mirror_delslice_unit (b : bits) (start stop : option Z) :
  delslice_lsb0 b (mkslice start stop None) = res_map (@rev bool) (delslice_msb0 (rev b) (mkslice start stop None)).
Proof.
  unfold delslice_lsb0, delslice_msb0. pose proof (zlen_nonneg b) as Hl.
  destruct (slice_indices_unit start stop (zlen b) Hl) as (a & o & Hsi & Ha & Ho).
  rewrite (offset_unit _ _ _ _ _ Hl Hsi). cbn [bind].
  assert (R : ba_delslice (rev b) (mkslice start stop None) = Ok (firstn (Z.to_nat a) (rev b) ++ skipn (Z.to_nat (Z.max a o)) (rev b))).
  { unfold ba_delslice. rewrite zlen_rev, Hsi. cbn [bind]. f_equal. unfold range_list. rewrite remove_at_run.
    rewrite range_len_unit, Z.sub_0_r. f_equal. f_equal. lia. }
  rewrite R. cbn [res_map]. rewrite rev_app_distr, skipn_rev, firstn_rev, !rev_involutive.
  destruct (o <=? a) eqn:E.
  - rewrite ba_delslice_unit by lia. f_equal. unfold zlen in *. f_equal; f_equal; lia.
  - rewrite ba_delslice_unit by lia. f_equal. unfold zlen in *. f_equal; f_equal; lia.
Qed.
