(* ByteswapProofs.v — C03: byteswap(fmt, start, end, repeat) equals its sequence-level specification (msb0):
   the window [start, end) is cut into consecutive patterns of `total` bits; in each complete pattern every group of `size` bytes has its
   bytes reversed; an incomplete last pattern, and everything outside the window, is untouched; the return value is the number of patterns. *)
From BS Require Import Prims BitsCore SeqProofs Search Mutators MutSpec MutProofs CodecProofs SerialProofs FastPath SearchTop.
From Coq Require Import ZifyBool.
Ltac Zify.zify_post_hook ::= Z.to_euclidean_division_equations.
Open Scope Z_scope.

(* reversing the byte order of a whole-byte bit list *)
Definition swapbytes (w : bits) : bits := frombytes (rev (tobytes w)).

Lemma tobytes_length (w : bits) : whole w -> Z.of_nat (length (tobytes w)) = zlen w / 8.
Proof.
  intros Hw. unfold tobytes. rewrite map_length. fold (to_bytes w). pose proof (to_bytes_zlen w Hw) as H. unfold zlen in *. exact H.
Qed.

Lemma zlen_swapbytes (w : bits) : whole w -> zlen (swapbytes w) = zlen w.
Proof.
  intros Hw. unfold swapbytes, zlen. rewrite frombytes_length, rev_length.
  pose proof (tobytes_length w Hw) as H. unfold whole, zlen in *. lia.
Qed.

Fixpoint swap_pattern (w : bits) (sizes : list Z) : bits :=
  match sizes with
  | [] => w
  | sz :: rest => swapbytes (take (8 * sz) w) ++ swap_pattern (drop (8 * sz) w) rest
  end.

Fixpoint swap_blocks (k : nat) (total : Z) (sizes : list Z) (w : bits) : bits :=
  match k with
  | O => w
  | S k' => swap_pattern (take total w) sizes ++ swap_blocks k' total sizes (drop total w)
  end.

Definition sum8 (sizes : list Z) : Z := 8 * fold_right Z.add 0 sizes.
Definition nonneg (sizes : list Z) : Prop := Forall (fun x => 0 <= x) sizes.

Lemma zlen_swap_pattern : forall sizes w, nonneg sizes -> sum8 sizes <= zlen w -> zlen (swap_pattern w sizes) = zlen w.
Proof.
  induction sizes as [|sz rest IH]; intros w Hn Hs; [reflexivity|].
  inversion Hn as [|? ? Hsz Hrest]; subst. unfold sum8 in *. cbn [fold_right] in Hs.
  assert (0 <= fold_right Z.add 0 rest) by (clear -Hrest; induction Hrest; cbn [fold_right]; lia).
  cbn [swap_pattern]. rewrite zlen_app, zlen_swapbytes, IH; try assumption.
  - rewrite zlen_take, zlen_drop by lia. lia.
  - rewrite zlen_drop by lia. lia.
  - unfold whole. rewrite zlen_take by lia. lia.
Qed.

(* ---------- _reversebytes ---------- *)
Lemma reversebytes_spec (b : bits) x n : 0 <= x -> 0 <= n -> x + 8 * n <= zlen b ->
  reversebytes false b x (x + 8 * n) = Ok (take x b ++ swapbytes (take (8 * n) (drop x b)) ++ drop (x + 8 * n) b).
Proof.
  intros Hx Hn Hb. unfold reversebytes. replace ((x + 8 * n - x) mod 8 =? 0) with true by lia.
  unfold slice_. rewrite getslice_unit by lia. cbn [bind]. unfold setslice, setslice_msb0.
  rewrite setslice_unit by lia. replace (x + 8 * n - x) with (8 * n) by lia. reflexivity.
Qed.

(* ---------- one pattern ---------- *)
Lemma byteswap_pattern_spec : forall sizes (b : bits) x, nonneg sizes -> 0 <= x -> x + sum8 sizes <= zlen b ->
  byteswap_pattern false b x sizes =
  Ok (take x b ++ swap_pattern (take (sum8 sizes) (drop x b)) sizes ++ drop (x + sum8 sizes) b).
Proof.
  induction sizes as [|sz rest IH]; intros b x Hn Hx Hb.
  - cbn [byteswap_pattern swap_pattern]. unfold sum8. cbn [fold_right]. rewrite Z.mul_0_r, Z.add_0_r. cbn [take Z.to_nat firstn app].
    unfold take, drop. now rewrite firstn_skipn.
  - inversion Hn as [|? ? Hsz Hrest]; subst.
    assert (Hr0 : 0 <= sum8 rest) by (unfold sum8; clear -Hrest; induction Hrest; cbn [fold_right]; lia).
    assert (Hs : sum8 (sz :: rest) = 8 * sz + sum8 rest) by (unfold sum8; cbn [fold_right]; lia).
    rewrite Hs in *.
    cbn [byteswap_pattern]. replace (x + sz * 8) with (x + 8 * sz) by lia. rewrite reversebytes_spec by lia. cbn [bind].
    set (A := take x b). set (G := take (8 * sz) (drop x b)). set (R := drop (x + 8 * sz) b).
    assert (LA : zlen A = x) by (unfold A; apply zlen_take; lia).
    assert (LG : zlen G = 8 * sz) by (unfold G; rewrite zlen_take; rewrite ?zlen_drop; lia).
    assert (LR : zlen R = zlen b - x - 8 * sz) by (unfold R; rewrite zlen_drop; lia).
    assert (WG : whole G) by (unfold whole; lia).
    assert (LS : zlen (swapbytes G) = 8 * sz) by (rewrite zlen_swapbytes; assumption).
    set (b' := A ++ swapbytes G ++ R).
    assert (Lb' : zlen b' = zlen b) by (unfold b'; rewrite !zlen_app; lia).
    rewrite IH; [|assumption|lia|lia].
    (* take/drop of b' at x + 8 sz *)
    assert (T1 : take (x + 8 * sz) b' = A ++ swapbytes G).
    { unfold b'. rewrite app_assoc. apply take_app_exact. rewrite zlen_app. lia. }
    assert (D1 : drop (x + 8 * sz) b' = R).
    { unfold b'. rewrite app_assoc. apply drop_app_exact. rewrite zlen_app. lia. }
    rewrite T1, D1. 
    assert (D2 : drop (x + 8 * sz + sum8 rest) b' = drop (x + (8 * sz + sum8 rest)) b).
    { unfold drop. replace (Z.to_nat (x + 8 * sz + sum8 rest)) with (Z.to_nat (x + 8 * sz) + Z.to_nat (sum8 rest))%nat by lia.
      rewrite <- skipn_skipn'. fold (drop (x + 8 * sz) b'). rewrite D1. unfold R, drop. rewrite skipn_skipn'. f_equal. lia. }
    rewrite D2. rewrite <- app_assoc. f_equal.
    cbn [swap_pattern].
    assert (TG : take (8 * sz) (take (8 * sz + sum8 rest) (drop x b)) = G).
    { unfold G, take. rewrite firstn_firstn. f_equal. lia. }
    rewrite TG. rewrite <- app_assoc. f_equal.
    assert (DR : drop (8 * sz) (take (8 * sz + sum8 rest) (drop x b)) = take (sum8 rest) R).
    { unfold R, take, drop. rewrite skipn_firstn_comm. rewrite skipn_skipn'. f_equal; [lia|f_equal; lia]. }
    rewrite DR. reflexivity.
Qed.

(* ---------- the loop over the patterns ---------- *)
Lemma byteswap_loop_spec sizes total : nonneg sizes -> total = sum8 sizes -> 0 < total ->
  forall k (b : bits) x r, 0 <= x -> x + Z.of_nat k * total <= zlen b ->
  byteswap_loop false b sizes total (progression (x + total) total k) r =
  Ok (take x b ++ swap_blocks k total sizes (take (Z.of_nat k * total) (drop x b)) ++ drop (x + Z.of_nat k * total) b, r + Z.of_nat k).
Proof.
  intros Hn Ht Hpos. induction k as [|k IH]; intros b x r Hx Hb.
  - cbn [progression byteswap_loop swap_blocks]. cbn [Z.of_nat]. rewrite Z.mul_0_l, !Z.add_0_r. cbn [take Z.to_nat firstn app].
    unfold take, drop. now rewrite firstn_skipn.
  - cbn [progression byteswap_loop]. replace (x + total - total) with x by lia.
    rewrite Nat2Z.inj_succ in *. 
    rewrite byteswap_pattern_spec by (try assumption; subst total; lia). cbn [bind]. rewrite <- Ht.
    set (A := take x b). set (P := take total (drop x b)). set (R := drop (x + total) b).
    assert (LA : zlen A = x) by (unfold A; apply zlen_take; lia).
    assert (LP : zlen P = total) by (unfold P; rewrite zlen_take; rewrite ?zlen_drop; nia).
    assert (LSP : zlen (swap_pattern P sizes) = total) by (rewrite zlen_swap_pattern; try assumption; lia).
    set (b' := A ++ swap_pattern P sizes ++ R).
    assert (LR : zlen R = zlen b - x - total) by (unfold R; rewrite zlen_drop; nia).
    assert (Lb' : zlen b' = zlen b) by (unfold b'; rewrite !zlen_app; lia).
    rewrite (IH b' (x + total) (r + 1)) by nia.
    f_equal. f_equal; [|lia].
    assert (T1 : take (x + total) b' = A ++ swap_pattern P sizes).
    { unfold b'. rewrite app_assoc. apply take_app_exact. rewrite zlen_app. lia. }
    assert (D1 : drop (x + total) b' = R).
    { unfold b'. rewrite app_assoc. apply drop_app_exact. rewrite zlen_app. lia. }
    rewrite T1, D1. rewrite <- app_assoc. f_equal. cbn [swap_blocks].
    assert (TP : take total (take (Z.succ (Z.of_nat k) * total) (drop x b)) = P).
    { unfold P, take. rewrite firstn_firstn. f_equal. nia. }
    rewrite TP. rewrite <- app_assoc. f_equal.
    assert (DR : drop total (take (Z.succ (Z.of_nat k) * total) (drop x b)) = take (Z.of_nat k * total) R).
    { unfold R, take, drop. rewrite skipn_firstn_comm. rewrite skipn_skipn'. f_equal; [nia|f_equal; lia]. }
    rewrite DR. f_equal.
    unfold drop. replace (Z.to_nat (x + total + Z.of_nat k * total)) with (Z.to_nat (x + total) + Z.to_nat (Z.of_nat k * total))%nat by nia.
    rewrite <- skipn_skipn'. fold (drop (x + total) b'). rewrite D1. unfold R, drop. rewrite skipn_skipn'. f_equal. nia.
Qed.

(* ---------- byteswap ---------- *)
Definition patterns (s e total : Z) (repeat_ : bool) : Z :=
  if repeat_ then (e - s) / total else (if s + total <=? e then 1 else 0).

Theorem byteswap_spec (b : bits) sizes start stop repeat_ s e :
  nonneg sizes -> 0 < sum8 sizes -> validate_slice b start stop = Ok (s, e) ->
  let k := patterns s e (sum8 sizes) repeat_ in
  ba_byteswap false b sizes start stop repeat_ =
  Ok (take s b ++ swap_blocks (Z.to_nat k) (sum8 sizes) sizes (take (k * sum8 sizes) (drop s b)) ++ drop (s + k * sum8 sizes) b, k).
Proof.
  intros Hn Hpos Hv k. destruct (validate_slice_ok _ _ _ _ _ Hv) as (H0 & H1 & H2).
  unfold ba_byteswap. rewrite Hv. cbn [bind].
  replace (existsb (fun x => x <? 0) sizes) with false.
  2:{ symmetry. apply Bool.not_true_iff_false. intros H. apply existsb_exists in H as (x & Hx & Hlt).
      unfold nonneg in Hn. rewrite Forall_forall in Hn. specialize (Hn x Hx). lia. }
  fold (sum8 sizes). set (total := sum8 sizes) in *. destruct (total =? 0) eqn:E0; [lia|].
  set (finalbit := if repeat_ then e else Z.min e (s + total)).
  assert (Hk : 0 <= k /\ k * total <= finalbit - s < (k + 1) * total /\ s + k * total <= e).
  { unfold k, patterns, finalbit. destruct repeat_.
    - pose proof (Z.div_mod (e - s) total ltac:(lia)). pose proof (Z.mod_pos_bound (e - s) total Hpos). nia.
    - destruct (s + total <=? e) eqn:E; lia. }
  destruct Hk as (Hk0 & Hkb & Hke).
  assert (Hrl : range_list (s + total) (finalbit + 1) total = progression (s + total) total (Z.to_nat k)).
  { unfold range_list. f_equal. f_equal. unfold range_len. destruct (total >? 0) eqn:E; [|lia].
    destruct (s + total <? finalbit + 1) eqn:E2.
    - assert (k >= 1) by nia. 
      assert ((finalbit + 1 - (s + total) - 1) / total = k - 1).
      { symmetry. apply (Z.div_unique _ _ _ (finalbit - s - k * total)); lia. }
      lia.
    - assert (k = 0) by nia. lia. }
  rewrite Hrl. rewrite (byteswap_loop_spec sizes total Hn eq_refl Hpos (Z.to_nat k) b s 0) by lia.
  rewrite Z2Nat.id by lia. reflexivity.
Qed.

Lemma drop_app_plus (P Q : bits) n : 0 <= n -> drop (zlen P + n) (P ++ Q) = drop n Q.
Proof.
  intros Hn. unfold drop, zlen. replace (Z.to_nat (Z.of_nat (length P) + n)) with (length P + Z.to_nat n)%nat by lia.
  rewrite <- skipn_skipn'. rewrite skipn_app, skipn_all, Nat.sub_diag. reflexivity.
Qed.

(* frame: the length is kept and bits outside [start, end) are untouched *)
Corollary byteswap_frame (b : bits) sizes start stop repeat_ s e b' r :
  nonneg sizes -> 0 < sum8 sizes -> validate_slice b start stop = Ok (s, e) ->
  ba_byteswap false b sizes start stop repeat_ = Ok (b', r) ->
  take s b' = take s b /\ drop e b' = drop e b /\ zlen b' = zlen b /\ r = patterns s e (sum8 sizes) repeat_.
Proof.
  intros Hn Hpos Hv H. destruct (validate_slice_ok _ _ _ _ _ Hv) as (H0 & H1 & H2).
  rewrite (byteswap_spec b sizes start stop repeat_ s e Hn Hpos Hv) in H. cbn zeta in H.
  set (k := patterns s e (sum8 sizes) repeat_) in *. set (total := sum8 sizes) in *.
  injection H as <- <-.
  assert (Hk : 0 <= k /\ s + k * total <= e).
  { unfold k, patterns. destruct repeat_.
    - pose proof (Z.div_mod (e - s) total ltac:(lia)). pose proof (Z.mod_pos_bound (e - s) total Hpos). nia.
    - destruct (s + total <=? e) eqn:E; lia. }
  destruct Hk as [Hk0 Hke].
  set (M := swap_blocks (Z.to_nat k) total sizes (take (k * total) (drop s b))).
  assert (LM : zlen M = k * total).
  { unfold M. assert (G : forall n w, Z.of_nat n * total <= zlen w -> zlen (swap_blocks n total sizes w) = zlen w).
    { induction n as [|n IH]; intros w Hw; [reflexivity|]. cbn [swap_blocks]. rewrite Nat2Z.inj_succ in Hw.
      rewrite zlen_app, zlen_swap_pattern, IH; try assumption.
      - rewrite zlen_take, zlen_drop by nia. lia.
      - rewrite zlen_drop by nia. nia.
      - rewrite zlen_take by nia. unfold total. lia. }
    rewrite G; rewrite zlen_take; rewrite ?zlen_drop; try nia. }
  assert (LA : zlen (take s b) = s) by (apply zlen_take; lia).
  repeat split.
  - apply take_app_exact. lia.
  - rewrite app_assoc. replace e with (zlen (take s b ++ M) + (e - (s + k * total))) at 1 by (rewrite zlen_app; lia).
    rewrite drop_app_plus by lia. unfold drop. rewrite skipn_skipn'. f_equal. nia.
  - rewrite !zlen_app, LM, LA, zlen_drop by nia. lia.
Qed.

(* swapbytes really is "the same bytes in the opposite order" *)
Lemma to_bytes_all8 : forall w, whole w -> Forall (fun c => length c = 8%nat) (to_bytes w).
Proof.
  apply whole_ind; [constructor|]. intros a r La Wr IH.
  rewrite to_bytes_whole_app by (try assumption; unfold whole, zlen; rewrite La; reflexivity).
  rewrite to_bytes_8 by exact La. constructor; assumption.
Qed.

Lemma concat_to_bytes : forall w, whole w -> concat (to_bytes w) = w.
Proof.
  apply whole_ind; [reflexivity|]. intros a r La Wr IH.
  rewrite to_bytes_whole_app by (try assumption; unfold whole, zlen; rewrite La; reflexivity).
  rewrite to_bytes_8 by exact La. cbn [app concat]. now rewrite IH.
Qed.

Lemma flat_map_enc_value (l : list bits) : Forall (fun c => length c = 8%nat) l -> flat_map (enc_uint 8) (map value_msb l) = concat l.
Proof.
  induction l as [|c l IH]; intros H8; [reflexivity|]. apply Forall_cons_iff in H8 as [Hc Hl].
  cbn [map flat_map concat]. rewrite (IH Hl). f_equal.
  unfold enc_uint. change (Z.to_nat 8) with 8%nat. rewrite <- Hc. apply enc_value_roundtrip.
Qed.

Theorem swapbytes_is_byte_reversal (w : bits) : whole w -> swapbytes w = concat (rev (to_bytes w)).
Proof.
  intros Hw. unfold swapbytes, tobytes. change (chunks8 (length w) (pad8 w)) with (to_bytes w). unfold frombytes. rewrite <- map_rev.
  apply flat_map_enc_value. apply Forall_rev. apply to_bytes_all8. exact Hw.
Qed.

Lemma to_bytes_concat (l : list bits) : Forall (fun c => length c = 8%nat) l -> to_bytes (concat l) = l.
Proof.
  induction l as [|c l IH]; intros H8; [reflexivity|]. apply Forall_cons_iff in H8 as [Hc Hl]. cbn [concat].
  assert (Wl : whole (concat l)).
  { clear -Hl. unfold whole. induction Hl as [|c l Hc Hl IH]; [reflexivity|]. cbn [concat]. rewrite zlen_app. unfold zlen at 1. rewrite Hc. lia. }
  rewrite to_bytes_whole_app; [|unfold whole, zlen; rewrite Hc; reflexivity|exact Wl].
  rewrite to_bytes_8 by exact Hc. cbn [app]. f_equal. apply IH. exact Hl.
Qed.

Corollary swapbytes_involutive (w : bits) : whole w -> swapbytes (swapbytes w) = w.
Proof.
  intros Hw.
  assert (W2 : whole (swapbytes w)) by (unfold whole; rewrite zlen_swapbytes by assumption; exact Hw).
  rewrite (swapbytes_is_byte_reversal (swapbytes w) W2).
  rewrite (swapbytes_is_byte_reversal w Hw) at 1.
  rewrite to_bytes_concat by (apply Forall_rev, to_bytes_all8; exact Hw).
  rewrite rev_involutive. apply concat_to_bytes. exact Hw.
Qed.
