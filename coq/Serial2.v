(* Serial2.v - C17 for the NEW Bits.tofile loop (absolute chunk starts, bits.py 1559-1562):
       chunk_size = 8 * 100 * 1024 * 1024
       for chunk_start in range(0, len(self), chunk_size):
           f.write(self._absolute_slice(chunk_start, min(chunk_start + chunk_size, len(self))).tobytes())
   The file is modelled as the list of the byte strings handed to f.write (tofile2_writes) and as their
   concatenation (tofile2). *)
From Coq Require Import ZArith List Bool Lia ZifyBool.
From BS Require Import Prims BitsCore Search Store SeqProofs CodecProofs FastPath SplitProofs BitwiseProofs SearchTop SerialProofs CutProofs.
Open Scope Z_scope.

(* ---------------- the model ---------------- *)
(* Python range(a, b, c) as a list: ValueError for step 0 (Prims.range_list is only specified for c <> 0) *)
Definition py_range (a b c : Z) : res (list Z) :=
  if c =? 0 then Err ValueError else Ok (range_list a b c).

(* the loop body for each start: the chunk that is handed (after .tobytes()) to f.write *)
Fixpoint tofile2_loop (b : bits) (chunk_size : Z) (starts : list Z) : res (list bits) :=
  match starts with
  | [] => Ok []
  | chunk_start :: rest =>
      do c <- absolute_slice b chunk_start (Z.min (chunk_start + chunk_size) (zlen b));
      do cs <- tofile2_loop b chunk_size rest;
      Ok (c :: cs)
  end.

(* the chunks sliced by the loop, in order *)
Definition tofile2_chunks (b : bits) (chunk_size : Z) : res (list bits) :=
  do starts <- py_range 0 (zlen b) chunk_size;
  tofile2_loop b chunk_size starts.

(* the successive arguments of f.write *)
Definition tofile2_writes (b : bits) (chunk_size : Z) : res (list (list Z)) :=
  do cs <- tofile2_chunks b chunk_size; Ok (map tobytes cs).

(* the content of the file afterwards *)
Definition tofile2 (b : bits) (chunk_size : Z) : res (list Z) :=
  do ws <- tofile2_writes b chunk_size; Ok (concat ws).

(* ---------------- helpers ---------------- *)
Lemma range_len_cdiv n c : 0 <= n -> 0 < c -> range_len 0 n c = cdiv n c.
Proof.
  intros Hn Hc. unfold range_len, cdiv. destruct (c >? 0) eqn:E; [|lia].
  destruct (0 <? n) eqn:E1.
  - replace (n + c - 1) with ((n - 0 - 1) + 1 * c) by lia. rewrite Z.div_add by lia. reflexivity.
  - assert (n = 0) by lia. subst n. symmetry. apply Z.div_small. lia.
Qed.

(* the loop over k starts s, s+n, ... produces CutProofs.chunks as long as the last start is inside the data *)
Lemma loop_chunks (d : bits) n : 0 < n -> forall k s, 0 <= s ->
  (k = O \/ s + (Z.of_nat k - 1) * n <= zlen d) ->
  tofile2_loop d n (progression s n k) = Ok (chunks k d n s (zlen d)).
Proof.
  intros Hn. induction k as [|k IH]; intros s Hs Hk; [reflexivity|].
  destruct Hk as [Hk|Hk]; [discriminate|].
  assert (Hsl : s <= zlen d) by nia.
  cbn [progression tofile2_loop chunks].
  rewrite absolute_slice_spec by lia. cbn [bind].
  rewrite IH; [reflexivity|lia|].
  destruct k as [|k]; [left; reflexivity|right]. nia.
Qed.

Lemma concat_map_flat_map {A B} (f : A -> list B) l : concat (map f l) = flat_map f l.
Proof. induction l as [|x l IH]; [reflexivity|]. cbn [map concat flat_map]. now rewrite IH. Qed.

(* the bytes of successive n-bit chunks (n a multiple of 8) are the bytes of the stretch they cover *)
Lemma flat_tobytes_chunks (d : bits) n : 0 < n -> n mod 8 = 0 -> forall k s, 0 <= s ->
  flat_map tobytes (chunks k d n s (zlen d)) = tobytes (sub d s (Z.min (s + Z.of_nat k * n) (zlen d))).
Proof.
  intros Hn H8. induction k as [|k IH]; intros s Hs.
  - cbn [chunks flat_map]. rewrite sub_empty by lia. reflexivity.
  - cbn [chunks flat_map]. rewrite IH by lia.
    set (kn := Z.of_nat k * n). assert (Hkn : 0 <= kn) by (unfold kn; nia).
    replace (s + Z.of_nat (S k) * n) with (s + n + kn) by (unfold kn; lia).
    destruct (Z_le_gt_dec (s + n) (zlen d)) as [Hfit|Hno].
    + replace (Z.min (s + n) (zlen d)) with (s + n) by lia.
      rewrite <- tobytes_app.
      * f_equal. apply sub_app_adj; lia.
      * rewrite zlen_sub by lia. replace (s + n - s) with n by lia. exact H8.
    + rewrite (sub_empty d (s + n)) by lia. rewrite tobytes_nil, app_nil_r. do 2 f_equal. lia.
Qed.

(* ---------------- main theorems ---------------- *)

(* MAIN 0 (shape). For every positive chunk size the new loop never fails and slices exactly the pieces
   b[i*chunk : min((i+1)*chunk, len)], i = 0 .. ceil(len/chunk)-1 (the same closed form as cut_spec). *)
Theorem tofile2_chunks_spec (b : bits) (chunk : Z) : 0 < chunk ->
  tofile2_chunks b chunk = Ok (pieces_of (Z.to_nat (cdiv (zlen b) chunk)) b chunk 0 (zlen b)).
Proof.
  intros Hc. pose proof (zlen_nonneg b) as Hn. unfold tofile2_chunks, py_range.
  destruct (chunk =? 0) eqn:E; [lia|]. cbn [bind]. unfold range_list.
  rewrite range_len_cdiv by lia.
  rewrite loop_chunks; [now rewrite chunks_pieces|exact Hc|lia|].
  pose proof (cdiv_spec (zlen b) chunk Hc) as [Lo _].
  pose proof (cdiv_nonneg (zlen b) chunk Hc Hn) as Hp.
  destruct (Z.to_nat (cdiv (zlen b) chunk)) eqn:Ek; [left; reflexivity|right].
  rewrite <- Ek. rewrite Z2Nat.id by exact Hp. lia.
Qed.

(* MAIN 0'. For every positive chunk size (a multiple of 8 or not) the new loop writes the same sequence of
   chunks as the old `for chunk in self.cut(chunk_size)` loop did under msb0, hence the same file. *)
Theorem tofile2_chunks_eq_cut (b : bits) (chunk : Z) : 0 < chunk ->
  tofile2_chunks b chunk = bs_cut false b chunk None None None.
Proof.
  intros Hc. pose proof (zlen_nonneg b) as Hn.
  assert (Hv : validate_slice b None None = Ok (0, zlen b)).
  { unfold validate_slice. replace ((0 <=? 0) && (0 <=? zlen b) && (zlen b <=? zlen b)) with true by lia. reflexivity. }
  rewrite (cut_spec b chunk None None None 0 (zlen b) Hv Hc I).
  rewrite tofile2_chunks_spec by exact Hc. cbn [cut_count]. now rewrite Z.sub_0_r.
Qed.

Theorem tofile2_eq_tofile (b : bits) (chunk : Z) : 0 < chunk -> tofile2 b chunk = tofile b chunk.
Proof.
  intros Hc. unfold tofile2, tofile2_writes, tofile. rewrite tofile2_chunks_eq_cut by exact Hc.
  destruct (bs_cut false b chunk None None None) as [cs|e]; [|reflexivity].
  cbn [bind]. now rewrite concat_map_flat_map.
Qed.

(* MAIN 1. For every bitstring and every chunk size that is a positive multiple of 8, the bytes written by the new
   tofile loop are exactly tobytes() (direct proof by induction over the chunks, with tobytes_app). *)
Theorem tofile2_eq_tobytes (b : bits) (chunk : Z) : 0 < chunk -> chunk mod 8 = 0 -> tofile2 b chunk = Ok (tobytes b).
Proof.
  intros Hc H8. pose proof (zlen_nonneg b) as Hn.
  unfold tofile2, tofile2_writes. rewrite tofile2_chunks_spec by exact Hc. cbn [bind].
  rewrite concat_map_flat_map, <- chunks_pieces, flat_tobytes_chunks by (assumption || lia).
  pose proof (cdiv_spec (zlen b) chunk Hc) as [_ Hi].
  pose proof (cdiv_nonneg (zlen b) chunk Hc Hn) as Hp.
  rewrite Z2Nat.id by exact Hp.
  replace (Z.min (0 + cdiv (zlen b) chunk * chunk) (zlen b)) with (zlen b) by lia.
  rewrite sub_to_end. reflexivity.
Qed.

(* the same through the old model: tofile2 = tofile = tobytes *)
Theorem tofile2_eq_tobytes_via_cut (b : bits) (chunk : Z) : 0 < chunk -> chunk mod 8 = 0 -> tofile2 b chunk = Ok (tobytes b).
Proof. intros Hc H8. rewrite tofile2_eq_tofile by exact Hc. now apply tofile_eq_tobytes. Qed.

(* MAIN 2. With the constant of the source (100 MiB of bits) Bits.tofile writes exactly tobytes(), whatever the
   content and length; options.lsb0 does not occur in the new loop at all. *)
Theorem tofile2_real_chunk (b : bits) : tofile2 b TOFILE_CHUNK = Ok (tobytes b).
Proof. apply tofile2_eq_tobytes; reflexivity. Qed.

(* MAIN 3a. chunk size 0: range(0, len, 0) raises ValueError before anything is written. *)
Theorem tofile2_zero_chunk (b : bits) : tofile2 b 0 = Err ValueError /\ tofile2_writes b 0 = Err ValueError.
Proof. split; reflexivity. Qed.

(* MAIN 3b. negative chunk size: range(0, len, c) is empty, so there is no write at all and the call succeeds:
   the file stays empty even when the bitstring is not. *)
Theorem tofile2_negative_chunk (b : bits) (chunk : Z) : chunk < 0 ->
  tofile2_writes b chunk = Ok [] /\ tofile2 b chunk = Ok [].
Proof.
  intros Hc. pose proof (zlen_nonneg b) as Hn.
  assert (E : tofile2_chunks b chunk = Ok []).
  { unfold tofile2_chunks, py_range. destruct (chunk =? 0) eqn:E0; [lia|]. cbn [bind].
    unfold range_list, range_len. destruct (chunk >? 0) eqn:E1; [lia|].
    destruct (zlen b <? 0) eqn:E2; [lia|]. reflexivity. }
  unfold tofile2, tofile2_writes. rewrite E. split; reflexivity.
Qed.

(* MAIN 3c (remark on the primitives). Prims.range_list itself does NOT raise for step 0: it is specified for c <> 0
   only and returns the empty list there, which is why tofile2 goes through py_range. *)
Theorem range_list_step0 (n : Z) : 0 <= n -> range_list 0 n 0 = [].
Proof. intros Hn. unfold range_list, range_len. cbn [Z.gtb Z.compare Z.opp]. destruct (n <? 0) eqn:E; [lia|]. reflexivity. Qed.

(* MAIN 4. For a positive chunk size there are exactly ceil(len/chunk) write calls (none for an empty bitstring);
   the i-th chunk is b[i*chunk : min((i+1)*chunk, len)], it is never empty, every chunk but the last has exactly
   `chunk` bits, and the chunks concatenate to b.  With chunk a multiple of 8 every write but the last therefore has
   exactly chunk/8 bytes and no padding, and only the last write is zero padded (to ceil(lastlen/8) bytes). *)
Theorem tofile2_write_count (b : bits) (chunk : Z) : 0 < chunk ->
  exists cs, tofile2_chunks b chunk = Ok cs /\ tofile2_writes b chunk = Ok (map tobytes cs) /\
    zlen cs = cdiv (zlen b) chunk /\
    concat cs = b /\
    (forall i, 0 <= i < cdiv (zlen b) chunk ->
       znth [] cs i = sub b (i * chunk) (Z.min ((i + 1) * chunk) (zlen b)) /\
       zlen (znth [] cs i) = Z.min chunk (zlen b - i * chunk) /\
       0 < zlen (znth [] cs i) <= chunk /\
       (i + 1 < cdiv (zlen b) chunk -> zlen (znth [] cs i) = chunk)).
Proof.
  intros Hc. pose proof (zlen_nonneg b) as Hn.
  pose proof (cdiv_nonneg (zlen b) chunk Hc Hn) as Hp.
  pose proof (cdiv_spec (zlen b) chunk Hc) as [Lo Hi].
  set (K := cdiv (zlen b) chunk) in *.
  exists (pieces_of (Z.to_nat K) b chunk 0 (zlen b)).
  split; [apply tofile2_chunks_spec; exact Hc|].
  split; [unfold tofile2_writes; rewrite tofile2_chunks_spec by exact Hc; reflexivity|].
  split; [unfold zlen at 1; rewrite pieces_of_length; lia|].
  split.
  - rewrite <- chunks_pieces, concat_chunks by lia. rewrite Z2Nat.id by exact Hp.
    replace (Z.min (0 + K * chunk) (zlen b)) with (zlen b) by lia.
    rewrite sub_to_end. reflexivity.
  - intros i Hi'. unfold znth. rewrite pieces_of_nth by lia. rewrite Z2Nat.id by lia.
    pose proof (cut_piece_lengths b chunk None 0 (zlen b) i ltac:(lia) Hn ltac:(lia) Hc) as P.
    cbn [cut_count] in P. rewrite !Z.sub_0_r in P. fold K in P.
    destruct (P Hi') as (L1 & L2 & L3).
    split; [unfold piece; f_equal; lia|]. split; [exact L1|]. split; [exact L2|exact L3].
Qed.

(* byte counts of the writes, chunk a positive multiple of 8: write i has ceil(bits_i / 8) bytes *)
Lemma length_chunks8 : forall f (l : bits), (length l <= 8 * f)%nat -> zlen (chunks8 f l) = cdiv (zlen l) 8.
Proof.
  induction f as [|f IH]; intros l Hl.
  - destruct l; [reflexivity|cbn in Hl; lia].
  - destruct l as [|x l]; [reflexivity|].
    rewrite chunks8_cons by discriminate. rewrite zlen_cons, IH by (rewrite skipn_length; lia).
    rewrite zlen_skipn. set (m := zlen (x :: l)). assert (0 < m) by (unfold m; rewrite zlen_cons; pose proof (zlen_nonneg l); lia).
    change (Z.of_nat 8) with 8. unfold cdiv.
    destruct (Z_le_gt_dec m 8).
    + replace (Z.max 0 (m - 8)) with 0 by lia. rewrite (Z.div_small (0 + 8 - 1)) by lia.
      replace (m + 8 - 1) with ((m - 1) + 1 * 8) by lia. rewrite Z.div_add by lia. rewrite Z.div_small by lia. reflexivity.
    + replace (Z.max 0 (m - 8)) with (m - 8) by lia.
      replace (m + 8 - 1) with ((m - 8 + 8 - 1) + 1 * 8) by lia. rewrite Z.div_add by lia. lia.
Qed.

(* MAIN 4'. tobytes() of any bitstring has ceil(len/8) bytes: so write i of tofile has chunk/8 bytes except the last. *)
Theorem zlen_tobytes (b : bits) : zlen (tobytes b) = cdiv (zlen b) 8.
Proof.
  unfold tobytes. rewrite zlen_map, length_chunks8 by apply pad8_length_le.
  unfold pad8. rewrite zlen_app, zlen_repeat.
  pose proof (zlen_nonneg b) as Hn. set (n := zlen b) in *.
  pose proof (Z.mod_pos_bound (- n) 8 ltac:(lia)) as Hm.
  rewrite Z2Nat.id by lia. unfold cdiv.
  pose proof (Z.div_mod (- n) 8 ltac:(lia)) as E.
  set (q := (- n) / 8) in *. set (r := (- n) mod 8) in *.
  replace (n + r + 8 - 1) with (7 + (- q) * 8) by lia. rewrite Z.div_add by lia.
  replace (n + 8 - 1) with ((7 - r) + (- q) * 8) by lia. rewrite Z.div_add by lia.
  rewrite !Z.div_small by lia. reflexivity.
Qed.

(* ---------------- stretch: Array.tofile (array_.py: self.data.tofile(f)) ---------------- *)
Definition arr_tofile (data : bits) : res (list Z) := tofile2 data TOFILE_CHUNK.

Lemma tobytes_concat (its : list bits) (tr : bits) : Forall (fun it : bits => zlen it mod 8 = 0) its ->
  tobytes (concat its ++ tr) = flat_map tobytes its ++ tobytes tr.
Proof.
  induction 1 as [|it its Hit _ IH]; [reflexivity|].
  cbn [concat flat_map]. rewrite <- !app_assoc, tobytes_app by exact Hit. now rewrite IH.
Qed.

(* MAIN 5. Array.tofile writes tobytes() of the data (items then trailing bits, zero padded once at the very end);
   when every item is a whole number of bytes long that is the items' own bytes one after the other, followed by
   the padded trailing bits. *)
Theorem arr_tofile_spec (its : list bits) (tr : bits) :
  arr_tofile (concat its ++ tr) = Ok (tobytes (concat its ++ tr)) /\
  (Forall (fun it : bits => zlen it mod 8 = 0) its ->
   arr_tofile (concat its ++ tr) = Ok (flat_map tobytes its ++ tobytes tr)).
Proof.
  split; [apply tofile2_real_chunk|]. intros H. unfold arr_tofile. rewrite tofile2_real_chunk. now rewrite tobytes_concat.
Qed.

(* ---------------- the hypotheses are satisfiable / concrete runs ---------------- *)
Example tofile2_run :
  let b := [true; false; true; true; false; false; true; false; true; true; true; false; false; false; true; true; true; true; false] in
  tofile2_writes b 8 = Ok [[178]; [227]; [192]] /\ tofile2 b 8 = Ok (tobytes b) /\
  tofile2_writes b 16 = Ok [[178; 227]; [192]] /\
  tofile2_chunks b 5 = bs_cut false b 5 None None None /\
  tofile2 b 0 = Err ValueError /\ tofile2 b (-8) = Ok [].
Proof. vm_compute. repeat split; reflexivity. Qed.

Print Assumptions tofile2_chunks_spec.
Print Assumptions tofile2_chunks_eq_cut.
Print Assumptions tofile2_eq_tofile.
Print Assumptions tofile2_eq_tobytes.
Print Assumptions tofile2_eq_tobytes_via_cut.
Print Assumptions tofile2_real_chunk.
Print Assumptions tofile2_zero_chunk.
Print Assumptions tofile2_negative_chunk.
Print Assumptions range_list_step0.
Print Assumptions tofile2_write_count.
Print Assumptions zlen_tobytes.
Print Assumptions arr_tofile_spec.
