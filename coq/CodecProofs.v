(* CodecProofs.v — C02 / C15 / C18: value <-> bits round trips and range classification. *)
From BS Require Import Prims Golomb IntCodec SeqProofs BitwiseProofs.
From Coq Require Import ZifyBool.
Open Scope Z_scope.

Lemma enc_uint_nat_length n : forall v, length (enc_uint_nat n v) = n.
Proof. induction n; intros v; cbn [enc_uint_nat]; [reflexivity|]. rewrite app_length, IHn. cbn. lia. Qed.

Lemma zlen_enc_uint n v : 0 <= n -> zlen (enc_uint n v) = n.
Proof. intros H. unfold zlen, enc_uint. rewrite enc_uint_nat_length. lia. Qed.

Lemma odd_b2z v : Z.b2z (Z.odd v) = v mod 2.
Proof. rewrite Zmod_odd. destruct (Z.odd v); reflexivity. Qed.

Lemma value_enc_uint_nat n : forall v, value_msb (enc_uint_nat n v) = v mod 2 ^ Z.of_nat n.
Proof.
  induction n; intros v.
  - cbn. now rewrite Z.mod_1_r.
  - cbn [enc_uint_nat]. rewrite value_msb_snoc, IHn, odd_b2z. rewrite Nat2Z.inj_succ, Z.pow_succ_r by lia.
    apply Z.mod_unique_pos with (q := (v / 2) / 2 ^ Z.of_nat n).
    + pose proof (Z.mod_pos_bound (v / 2) (2 ^ Z.of_nat n) ltac:(lia)). pose proof (Z.mod_pos_bound v 2 ltac:(lia)). lia.
    + pose proof (Z.div_mod (v / 2) (2 ^ Z.of_nat n) ltac:(lia)). pose proof (Z.div_mod v 2 ltac:(lia)). nia.
Qed.

Lemma enc_value_roundtrip b : enc_uint_nat (length b) (value_msb b) = b.
Proof.
  induction b as [|x b IH] using rev_ind; [reflexivity|].
  rewrite app_length. cbn [length]. rewrite Nat.add_1_r. cbn [enc_uint_nat].
  rewrite value_msb_snoc.
  replace ((2 * value_msb b + Z.b2z x) / 2) with (value_msb b) by (destruct x; cbn [Z.b2z]; [rewrite Z.add_comm, Z.mul_comm, Z.div_add by lia; reflexivity|rewrite Z.add_0_r, Z.mul_comm, Z.div_mul by lia; reflexivity]).
  rewrite IH. f_equal. f_equal. rewrite Z.add_comm, Z.odd_add_mul_2. destruct x; reflexivity.
Qed.

(* ---------- unsigned ---------- *)
Theorem uint_encode n v : 0 < n -> 0 <= v < 2 ^ n ->
  int2bitstore v n false = Ok (enc_uint n v) /\ zlen (enc_uint n v) = n /\ ba2int (enc_uint n v) false = Ok v.
Proof.
  intros Hn Hv. unfold int2bitstore, int2ba.
  destruct (n <=? 0) eqn:E0; [lia|]. destruct ((v <? 0) || (v >=? 2 ^ n)) eqn:E1; [lia|].
  split; [reflexivity|]. split; [apply zlen_enc_uint; lia|].
  unfold ba2int. destruct (enc_uint n v) as [|h t] eqn:Ee.
  - pose proof (zlen_enc_uint n v ltac:(lia)) as Hl. rewrite Ee in Hl. cbn in Hl. lia.
  - cbn [andb]. rewrite <- Ee. unfold enc_uint. rewrite value_enc_uint_nat. rewrite Z2Nat.id by lia.
    rewrite Z.mod_small by lia. reflexivity.
Qed.

Theorem uint_out_of_range n v : 0 < n -> (v < 0 \/ 2 ^ n <= v) -> int2bitstore v n false = Err ValueError.
Proof.
  intros Hn Hv. unfold int2bitstore, int2ba. destruct (n <=? 0) eqn:E0; [lia|].
  destruct ((v <? 0) || (v >=? 2 ^ n)) eqn:E1; [|lia]. rewrite Z.shiftl_1_l.
  destruct (v >=? 2 ^ n) eqn:E2; [reflexivity|]. destruct (v <? 0) eqn:E3; [reflexivity|lia].
Qed.

Theorem uint_decode_encode b : b <> [] -> exists v, ba2int b false = Ok v /\ 0 <= v < 2 ^ zlen b /\ enc_uint (zlen b) v = b.
Proof.
  intros Hb. exists (value_msb b). split; [|split].
  - unfold ba2int. destruct b; [congruence|reflexivity].
  - apply value_msb_range.
  - unfold enc_uint, zlen. rewrite Nat2Z.id. apply enc_value_roundtrip.
Qed.

(* ---------- signed (two's complement) ---------- *)
Lemma hd_enc_uint n v : 0 < n -> 0 <= v < 2 ^ n ->
  exists t, enc_uint n v = (2 ^ (n - 1) <=? v) :: t.
Proof.
  intros Hn Hv. pose proof (zlen_enc_uint n v ltac:(lia)) as Hl.
  destruct (enc_uint n v) as [|h t] eqn:Ee; [cbn in Hl; lia|]. exists t. f_equal.
  assert (Hval : value_msb (h :: t) = v).
  { rewrite <- Ee. unfold enc_uint. rewrite value_enc_uint_nat, Z2Nat.id by lia. apply Z.mod_small. lia. }
  change (h :: t) with ([h] ++ t) in Hval. rewrite value_msb_app in Hval.
  rewrite zlen_cons in Hl. assert (Ht : zlen t = n - 1) by lia. rewrite Ht in Hval.
  pose proof (value_msb_range t) as Hr. rewrite Ht in Hr.
  destruct h; cbn [value_msb value_msb_acc] in Hval; lia.
Qed.

Theorem int_encode n v : 0 < n -> - 2 ^ (n - 1) <= v < 2 ^ (n - 1) ->
  int2bitstore v n true = Ok (enc_uint n (v mod 2 ^ n)) /\ zlen (enc_uint n (v mod 2 ^ n)) = n /\
  ba2int (enc_uint n (v mod 2 ^ n)) true = Ok v.
Proof.
  intros Hn Hv. unfold int2bitstore, int2ba.
  destruct (n <=? 0) eqn:E0; [lia|]. destruct ((v <? - 2 ^ (n - 1)) || (v >=? 2 ^ (n - 1))) eqn:E1; [lia|].
  split; [reflexivity|]. split; [apply zlen_enc_uint; lia|].
  assert (Hp : 2 ^ n = 2 * 2 ^ (n - 1)) by (replace n with (Z.succ (n - 1)) at 1 by lia; apply Z.pow_succ_r; lia).
  pose proof (Z.mod_pos_bound v (2 ^ n) ltac:(lia)) as Hm.
  destruct (hd_enc_uint n (v mod 2 ^ n) Hn Hm) as [t Ht].
  unfold ba2int. rewrite Ht. rewrite <- Ht. rewrite zlen_enc_uint by lia.
  assert (Hval : value_msb (enc_uint n (v mod 2 ^ n)) = v mod 2 ^ n).
  { unfold enc_uint. rewrite value_enc_uint_nat, Z2Nat.id by lia. apply Z.mod_small. lia. }
  rewrite Hval. cbn [andb].
  destruct (Z_lt_le_dec v 0) as [Hneg|Hpos].
  - assert (v mod 2 ^ n = v + 2 ^ n).
    { symmetry. apply Z.mod_unique_pos with (q := -1); lia. }
    destruct (2 ^ (n - 1) <=? v mod 2 ^ n) eqn:E; [f_equal; lia|lia].
  - rewrite Z.mod_small by lia. destruct (2 ^ (n - 1) <=? v) eqn:E; [lia|reflexivity].
Qed.

Theorem int_out_of_range n v : 0 < n -> (v < - 2 ^ (n - 1) \/ 2 ^ (n - 1) <= v) -> int2bitstore v n true = Err ValueError.
Proof.
  intros Hn Hv. unfold int2bitstore, int2ba. destruct (n <=? 0) eqn:E0; [lia|].
  destruct ((v <? - 2 ^ (n - 1)) || (v >=? 2 ^ (n - 1))) eqn:E1; [|lia]. rewrite Z.shiftl_1_l.
  destruct ((v >=? 2 ^ (n - 1)) || (v <? - 2 ^ (n - 1))) eqn:E2; [reflexivity|lia].
Qed.

(* the classification used by C15, for every width and value *)
Theorem int_classification signed n v : 0 < n ->
  (int_in_range signed n v = true -> exists b, int2bitstore v n signed = Ok b /\ zlen b = n) /\
  (int_in_range signed n v = false -> int2bitstore v n signed = Err ValueError).
Proof.
  intros Hn. unfold int_in_range. destruct signed; split; intros H.
  - destruct (int_encode n v Hn ltac:(lia)) as [E [L _]]. eauto.
  - apply int_out_of_range; lia.
  - destruct (uint_encode n v Hn ltac:(lia)) as [E [L _]]. eauto.
  - apply uint_out_of_range; lia.
Qed.

(* a zero or missing length is refused by every integer setter *)
Theorem set_intlike_needs_length signed le v : set_intlike signed le 0 v None = Err ValueError /\ forall c, set_intlike signed le c v (Some 0) = Err ValueError.
Proof. split; reflexivity. Qed.

(* ---------- whole bytes: tobytes / frombytes are mutually inverse; little-endian = byte reversal ---------- *)
Lemma chunks8_cons fuel (b : bits) : b <> [] -> chunks8 (S fuel) b = firstn 8 b :: chunks8 fuel (skipn 8 b).
Proof. destruct b; [congruence|reflexivity]. Qed.

Lemma chunks8_app8 fuel (a rest : bits) : length a = 8%nat -> chunks8 (S fuel) (a ++ rest) = a :: chunks8 fuel rest.
Proof.
  intros Ha. rewrite chunks8_cons by (destruct a; [discriminate|discriminate]).
  rewrite firstn_app, skipn_app, Ha. replace (8 - 8)%nat with 0%nat by lia.
  change (firstn 0 rest) with (@nil bool). change (skipn 0 rest) with rest.
  rewrite app_nil_r. rewrite firstn_all2 by lia. rewrite skipn_all2 by lia. reflexivity.
Qed.

Definition bytes_ok (l : list Z) : Prop := Forall (fun x => 0 <= x < 256) l.

Lemma pad8_whole b : zlen b mod 8 = 0 -> pad8 b = b.
Proof. intros H. unfold pad8. replace ((- zlen b) mod 8) with 0; [cbn; apply app_nil_r|]. 
  symmetry. rewrite Z.mod_opp_l_z; lia. Qed.

Lemma frombytes_length l : length (frombytes l) = (8 * length l)%nat.
Proof. unfold frombytes. induction l; cbn [flat_map length]; [reflexivity|]. rewrite app_length, IHl. unfold enc_uint. rewrite enc_uint_nat_length. cbn. lia. Qed.

Theorem tobytes_frombytes l : bytes_ok l -> tobytes (frombytes l) = l.
Proof.
  intros Hok. unfold tobytes. rewrite pad8_whole.
  2:{ unfold zlen. rewrite frombytes_length. rewrite Nat2Z.inj_mul. change (Z.of_nat 8) with 8. rewrite Z.mul_comm. apply Z.mod_mul. lia. }
  assert (G : forall fuel, (length l <= fuel)%nat -> map value_msb (chunks8 fuel (frombytes l)) = l).
  { induction Hok as [|x l Hx Hl IH]; intros fuel Hf.
    - destruct fuel; reflexivity.
    - destruct fuel as [|f]; [cbn in Hf; lia|]. unfold frombytes. cbn [flat_map].
      rewrite chunks8_app8 by (unfold enc_uint; apply enc_uint_nat_length). cbn [map]. f_equal.
      + unfold enc_uint. rewrite value_enc_uint_nat. change (Z.of_nat (Z.to_nat 8)) with 8. apply Z.mod_small. lia.
      + apply IH. cbn in Hf. lia. }
  apply G. rewrite frombytes_length. lia.
Qed.

Theorem le_is_byte_reversed_be v n signed b : int2bitstore v n signed = Ok b ->
  intle2bitstore v n signed = Ok (frombytes (rev (tobytes b))).
Proof. intros H. unfold intle2bitstore. now rewrite H. Qed.
