(* Tokenizer.v - bitstring.utils.expand_brackets (the string front end of pack/unpack formats)
   modelled on [list ascii], mirroring the Python loop statement by statement, and its laws. *)
From Coq Require Import ZArith NArith List Bool Lia ZifyBool Ascii String.
From BS Require Import Prims.
Import ListNotations.
Open Scope char_scope.
Open Scope nat_scope.

Definition str := list ascii.
Definition S_ (x : string) : str := list_ascii_of_string x.

(* ---------- Python helpers ---------- *)
Definition is_open (c : ascii) : bool := Ascii.eqb c "(".
Definition is_close (c : ascii) : bool := Ascii.eqb c ")".
Definition is_star (c : ascii) : bool := Ascii.eqb c "*".
Definition is_digit (c : ascii) : bool :=                      (* regex \d on the 8-bit range *)
  let n := nat_of_ascii c in (48 <=? n) && (n <=? 57).

(* s.find('(') ; None stands for -1 *)
Fixpoint find_open (s : str) : option nat :=
  match s with
  | [] => None
  | c :: t => if is_open c then Some 0 else option_map S (find_open t)
  end.

(* s[a:b] and s[a:] for 0 <= a *)
Definition slice (s : str) (a b : nat) : str := firstn (b - a) (skipn a s).
Definition from (s : str) (a : nat) : str := skipn a s.

(* the inner loop  while p < len(s): count += ...; if count == 0: break; p += 1
   [rest] is s[p:]; returns (count, p) at loop exit *)
Fixpoint scan (count p : nat) (rest : str) : nat * nat :=
  match rest with
  | [] => (count, p)
  | c :: t =>
      let count' := if is_open c then S count else if is_close c then pred count else count in
      if count' =? 0 then (0, p) else scan count' (S p) t
  end.

(* n * x for a str x *)
Fixpoint rep (n : nat) (x : str) : str := match n with 0 => [] | S k => x ++ rep k x end.

(* int(digits) *)
Definition digit_val (c : ascii) : N := N.of_nat (nat_of_ascii c - 48).
Definition int_of (d : str) : N := fold_left (fun a c => (10 * a + digit_val c)%N) d 0%N.

(* longest digit prefix (greedy \d+) *)
Fixpoint span_digits (s : str) : str * str :=
  match s with
  | c :: t => if is_digit c then let (d, r) := span_digits t in (c :: d, r) else ([], s)
  | [] => ([], [])
  end.

(* BRACKET_RE = (?P<factor>\d+)\*\(  anchored at the head of s: number of digits matched *)
Definition match_here (s : str) : option str :=
  match span_digits s with
  | (c :: d, st :: op :: _) => if is_star st && is_open op then Some (c :: d) else None
  | _ => None
  end.

(* BRACKET_RE.search(s[i:]) shifted by i: (m.start('factor'), m.end(), int(m.group('factor'))) *)
Fixpoint re_search (i : nat) (s : str) : option (nat * nat * N) :=
  match s with
  | [] => None
  | _ :: t =>
      match match_here s with
      | Some d => Some (i, i + List.length d + 2, int_of d)
      | None => re_search (S i) t
      end
  end.

(* one pass of the  while True  body: Ok None = break, Ok (Some s') = next iteration with s' *)
Definition expand_body (s : str) : res (option str) :=
  match find_open s with
  | None => Ok None                                              (* if start == -1: break *)
  | Some start =>
      let '(count, p) := scan 1 (start + 1) (from s (start + 1)) in
      if negb (count =? 0) then Err ValueError                    (* Unbalanced parenthesis *)
      else if (start =? 0) || negb (is_star (nth (start - 1) s "000")) then
        Ok (Some (slice s 0 start ++ slice s (start + 1) p ++ from s (p + 1)))
      else
        match re_search 0 s with
        | Some (matchstart, mend, factor) =>
            if mend =? start + 1 then
              if (factor =? 0)%N then Ok (Some (slice s 0 matchstart ++ from s (p + 1)))
              else Ok (Some (slice s 0 matchstart
                             ++ rep (N.to_nat (factor - 1)) (slice s (start + 1) p ++ [","])
                             ++ slice s (start + 1) p ++ from s (p + 1)))
            else Err ValueError                                   (* Failed to parse *)
        | None => Err ValueError                                  (* Failed to parse *)
        end
  end.

Fixpoint expand_brackets (fuel : nat) (s : str) : res str :=
  match fuel with
  | 0 => Err OutOfFuel
  | S f =>
      match expand_body s with
      | Err e => Err e
      | Ok None => Ok s
      | Ok (Some s') => expand_brackets f s'
      end
  end.

(* test harness helper *)
Definition run (fuel : nat) (x : string) : res string :=
  match expand_brackets fuel (S_ x) with Ok r => Ok (string_of_list_ascii r) | Err e => Err e end.

(* ================= list-level specification of one loop pass ================= *)
Fixpoint noopen (s : str) : bool :=
  match s with [] => true | c :: t => negb (is_open c) && noopen t end.
Fixpoint alldig (s : str) : bool :=
  match s with [] => true | c :: t => is_digit c && alldig t end.

(* s = P ++ "(" ++ rest with no '(' in P *)
Fixpoint split_open (s : str) : option (str * str) :=
  match s with
  | [] => None
  | c :: t => if is_open c then Some ([], t)
              else match split_open t with Some (P, r) => Some (c :: P, r) | None => None end
  end.

(* rest = B ++ ")" ++ R where that ')' closes the bracket opened before rest (c pending opens) *)
Fixpoint split_close (c : nat) (l : str) : option (str * str) :=
  match l with
  | [] => None
  | ch :: t =>
      let c' := if is_open ch then S c else if is_close ch then pred c else c in
      if c' =? 0 then Some ([], t)
      else match split_close c' t with Some (B, R) => Some (ch :: B, R) | None => None end
  end.

(* the text in front of the bracket: None = no '*', Some None = '*' without digits (error),
   Some (Some (P0, n)) : P = P0 ++ digits ++ "*", digits maximal, n = int(digits) *)
Definition factor_of (P : str) : option (option (str * N)) :=
  match rev P with
  | st :: r =>
      if is_star st then
        match span_digits r with
        | ([], _) => Some None
        | (d, r') => Some (Some (rev r', int_of (rev d)))
        end
      else None
  | [] => None
  end.

Definition copies (n : N) (B : str) : str :=
  if (n =? 0)%N then [] else rep (N.to_nat (n - 1)) (B ++ [","]) ++ B.

Definition step_spec (s : str) : res (option str) :=
  match split_open s with
  | None => Ok None
  | Some (P, rest) =>
      match split_close 1 rest with
      | None => Err ValueError
      | Some (B, R) =>
          match factor_of P with
          | None => Ok (Some (P ++ B ++ R))
          | Some None => Err ValueError
          | Some (Some (P0, n)) => Ok (Some (P0 ++ copies n B ++ R))
          end
      end
  end.

(* ---- basic facts ---- *)
Lemma noopen_app a b : noopen (a ++ b) = noopen a && noopen b.
Proof. induction a as [|c a IH]; cbn [noopen app]; [reflexivity|]. rewrite IH. apply andb_assoc. Qed.
Lemma alldig_app a b : alldig (a ++ b) = alldig a && alldig b.
Proof. induction a as [|c a IH]; cbn [alldig app]; [reflexivity|]. rewrite IH. apply andb_assoc. Qed.
Lemma alldig_rev a : alldig (rev a) = alldig a.
Proof. induction a as [|c a IH]; cbn [rev alldig]; [reflexivity|]. rewrite alldig_app, IH. cbn [alldig]. destruct (is_digit c), (alldig a); reflexivity. Qed.
Lemma noopen_rev a : noopen (rev a) = noopen a.
Proof. induction a as [|c a IH]; cbn [rev noopen]; [reflexivity|]. rewrite noopen_app, IH. cbn [noopen]. destruct (is_open c), (noopen a); reflexivity. Qed.

Lemma open_eq c : is_open c = true -> c = "(".
Proof. unfold is_open. apply Ascii.eqb_eq. Qed.
Lemma close_eq c : is_close c = true -> c = ")".
Proof. unfold is_close. apply Ascii.eqb_eq. Qed.
Lemma star_eq c : is_star c = true -> c = "*".
Proof. unfold is_star. apply Ascii.eqb_eq. Qed.
Lemma digit_not_open c : is_digit c = true -> is_open c = false.
Proof. intros H. destruct (is_open c) eqn:E; [|reflexivity]. apply open_eq in E. subst. discriminate. Qed.
Lemma digit_not_star c : is_digit c = true -> is_star c = false.
Proof. intros H. destruct (is_star c) eqn:E; [|reflexivity]. apply star_eq in E. subst. discriminate. Qed.
Lemma alldig_noopen d : alldig d = true -> noopen d = true.
Proof. induction d as [|c d IH]; cbn [alldig noopen]; [reflexivity|]. intros H. apply andb_prop in H. destruct H as [H1 H2].
  rewrite (digit_not_open _ H1), IH by assumption. reflexivity. Qed.

Lemma split_open_some s P r : split_open s = Some (P, r) ->
  s = P ++ "(" :: r /\ noopen P = true /\ find_open s = Some (length P).
Proof.
  revert P r. induction s as [|c t IH]; cbn [split_open find_open]; intros P r H; [discriminate|].
  destruct (is_open c) eqn:E.
  - inversion H; subst. apply open_eq in E. subst. auto.
  - destruct (split_open t) as [[P' r']|] eqn:E2; [|discriminate]. inversion H; subst.
    destruct (IH _ _ eq_refl) as (H1 & H2 & H3). cbn [app noopen length]. rewrite E, H2, H3. subst t. auto.
Qed.
Lemma split_open_none s : split_open s = None -> noopen s = true /\ find_open s = None.
Proof.
  induction s as [|c t IH]; cbn [split_open find_open noopen]; intros H; [auto|].
  destruct (is_open c) eqn:E; [discriminate|].
  destruct (split_open t) as [[P' r']|] eqn:E2; [discriminate|]. destruct (IH eq_refl) as [H1 H2]. rewrite H1, H2. auto.
Qed.
Lemma split_open_app P r : noopen P = true -> split_open (P ++ "(" :: r) = Some (P, r).
Proof.
  induction P as [|c P IH]; cbn [noopen app split_open]; intros H; [reflexivity|].
  apply andb_prop in H. destruct H as [H1 H2]. apply negb_true_iff in H1. rewrite H1, IH by assumption. reflexivity.
Qed.
Lemma split_open_noopen s : noopen s = true -> split_open s = None.
Proof.
  induction s as [|c s IH]; cbn [noopen split_open]; intros H; [reflexivity|].
  apply andb_prop in H. destruct H as [H1 H2]. apply negb_true_iff in H1. rewrite H1, IH by assumption. reflexivity.
Qed.
(* the first '(' of a string is unique *)
Lemma first_open_unique A X A' X' : noopen A = true -> noopen A' = true ->
  A ++ "(" :: X = A' ++ "(" :: X' -> A = A' /\ X = X'.
Proof.
  intros HA HA' E. pose proof (split_open_app A X HA) as H1. rewrite E, (split_open_app A' X' HA') in H1.
  inversion H1; auto.
Qed.

Lemma scan_spec rest : forall c p, 1 <= c ->
  match split_close c rest with
  | Some (B, R) => rest = B ++ ")" :: R /\ scan c p rest = (0, p + length B)
  | None => fst (scan c p rest) <> 0
  end.
Proof.
  induction rest as [|ch t IH]; intros c p Hc; cbn [split_close scan]; [cbn; lia|].
  set (c' := if is_open ch then S c else if is_close ch then pred c else c).
  destruct (c' =? 0) eqn:E0.
  - cbn [app length]. split; [|f_equal; lia]. subst c'. destruct (is_open ch); [lia|].
    destruct (is_close ch) eqn:E1; [|lia]. apply close_eq in E1. subst; reflexivity.
  - specialize (IH c' (S p)). destruct (split_close c' t) as [[B R]|].
    + destruct IH as [H1 H2]; [lia|]. cbn [app length]. rewrite H2. subst t. split; [reflexivity|f_equal; lia].
    + apply IH. lia.
Qed.

(* ---- the regular expression ---- *)
Lemma span_digits_spec s : forall d r, span_digits s = (d, r) ->
  s = d ++ r /\ alldig d = true /\ match r with [] => True | x :: _ => is_digit x = false end.
Proof.
  induction s as [|c t IH]; cbn [span_digits]; intros d r H.
  - inversion H; subst; auto.
  - destruct (is_digit c) eqn:E.
    + destruct (span_digits t) as [d' r'] eqn:E2. inversion H; subst. destruct (IH _ _ eq_refl) as (H1 & H2 & H3).
      cbn [app alldig]. rewrite E, H2. subst t. auto.
    + inversion H; subst. cbn. auto.
Qed.
Lemma span_digits_app d r : alldig d = true -> match r with [] => True | x :: _ => is_digit x = false end ->
  span_digits (d ++ r) = (d, r).
Proof.
  intros Hd Hr. induction d as [|c d IH]; cbn [app].
  - destruct r as [|x r]; [reflexivity|]. cbn [span_digits]. rewrite Hr. reflexivity.
  - cbn [alldig] in Hd. apply andb_prop in Hd. destruct Hd as [H1 H2]. cbn [span_digits]. rewrite H1, IH by assumption. reflexivity.
Qed.

Lemma match_here_some s d : match_here s = Some d ->
  exists X, s = d ++ "*" :: "(" :: X /\ alldig d = true /\ d <> [].
Proof.
  unfold match_here. destruct (span_digits s) as [d' r] eqn:E. destruct (span_digits_spec _ _ _ E) as (H1 & H2 & _).
  destruct d' as [|c d']; [discriminate|]. destruct r as [|st [|op X]]; try discriminate.
  destruct (is_star st) eqn:E1; [|discriminate]. destruct (is_open op) eqn:E2; [|discriminate]. cbn [andb].
  intros H. inversion H; subst d. apply star_eq in E1. apply open_eq in E2. subst. exists X. split; [reflexivity|]. split; [assumption|discriminate].
Qed.
Lemma match_here_digits d X : alldig d = true -> d <> [] -> match_here (d ++ "*" :: "(" :: X) = Some d.
Proof.
  intros Hd Hn. unfold match_here. rewrite span_digits_app; [|assumption|reflexivity].
  destruct d; [congruence|reflexivity].
Qed.

Definition last_nondigit (A : str) : Prop := forall A1 x, A = A1 ++ [x] -> is_digit x = false.
Lemma last_nondigit_tl c A : last_nondigit (c :: A) -> last_nondigit A.
Proof. intros H A1 x E. apply (H (c :: A1) x). rewrite E. reflexivity. Qed.
Lemma last_nondigit_not_alldig A : A <> [] -> last_nondigit A -> alldig A = true -> False.
Proof.
  intros Hn HL Hd. destruct (exists_last Hn) as (A1 & x & E). pose proof (HL _ _ E) as Hx. subst A.
  rewrite alldig_app in Hd. cbn [alldig] in Hd. rewrite Hx in Hd. destruct (alldig A1); discriminate.
Qed.

(* a digit run in front of the first "*(" , preceded by a non-digit, is what the search finds *)
Lemma re_search_first A : forall i d X, noopen A = true -> last_nondigit A -> alldig d = true -> d <> [] ->
  re_search i (A ++ d ++ "*" :: "(" :: X) = Some (i + length A, i + length A + length d + 2, int_of d).
Proof.
  induction A as [|c A IH]; intros i d X HA HL Hd Hn.
  - cbn [app length]. destruct d as [|c0 d0] eqn:Ed; [congruence|]. rewrite <- Ed in *.
    assert (E : re_search i (d ++ "*" :: "(" :: X) = match match_here (d ++ "*" :: "(" :: X) with
              Some d' => Some (i, i + length d' + 2, int_of d') | None => re_search (S i) (tl (d ++ "*" :: "(" :: X)) end)
      by (rewrite Ed; reflexivity).
    rewrite E, match_here_digits by assumption. rewrite !Nat.add_0_r. reflexivity.
  - cbn [app re_search]. change (c :: A ++ d ++ "*" :: "(" :: X) with ((c :: A) ++ d ++ "*" :: "(" :: X).
    destruct (match_here ((c :: A) ++ d ++ "*" :: "(" :: X)) as [d'|] eqn:E.
    + exfalso. apply match_here_some in E. destruct E as (X' & E & Hd' & _).
      replace ((c :: A) ++ d ++ "*" :: "(" :: X) with (((c :: A) ++ d ++ ["*"]) ++ "(" :: X) in E
        by (rewrite <- !app_assoc; reflexivity).
      replace (d' ++ "*" :: "(" :: X') with ((d' ++ ["*"]) ++ "(" :: X') in E by (rewrite <- app_assoc; reflexivity).
      apply first_open_unique in E.
      * destruct E as [E _]. rewrite app_assoc in E. apply app_inj_tail in E. destruct E as [E _].
        apply (last_nondigit_not_alldig (c :: A)); [discriminate|assumption|].
        rewrite <- E, alldig_app in Hd'. apply andb_prop in Hd'. tauto.
      * rewrite !noopen_app, HA, (alldig_noopen _ Hd). reflexivity.
      * rewrite noopen_app, (alldig_noopen _ Hd'). reflexivity.
    + cbn [noopen] in HA. apply andb_prop in HA. destruct HA as [_ HA].
      rewrite IH; [|assumption|eapply last_nondigit_tl; eassumption|assumption|assumption]. cbn [length]. replace (S i + length A) with (i + S (length A)) by lia. reflexivity.
Qed.

Lemma re_search_bounds s : forall i a e n, re_search i s = Some (a, e, n) -> i <= a /\ a + 3 <= e.
Proof.
  induction s as [|c t IH]; intros i a e n H; cbn [re_search] in H; [discriminate|].
  destruct (match_here (c :: t)) as [d|] eqn:E.
  - inversion H; subst. apply match_here_some in E. destruct E as (_ & _ & _ & Hn). destruct d; [congruence|]. cbn [length]. lia.
  - apply IH in H. lia.
Qed.

(* '*' in front of the first '(' but no digit before it: the search cannot end at that bracket *)
Lemma re_search_nodigits A : forall i X, noopen A = true -> last_nondigit A ->
  match re_search i (A ++ "*" :: "(" :: X) with
  | Some (_, e, _) => e <> i + length A + 2
  | None => True
  end.
Proof.
  induction A as [|c A IH]; intros i X HA HL.
  - cbn [app length]. assert (E0 : match_here ("*" :: "(" :: X) = None) by reflexivity.
    change (re_search i ("*" :: "(" :: X)) with (match match_here ("*" :: "(" :: X) with
      Some d => Some (i, i + length d + 2, int_of d) | None => re_search (S i) ("(" :: X) end). rewrite E0.
    destruct (re_search (S i) ("(" :: X)) as [[[a e] n]|] eqn:E; [|exact I]. apply re_search_bounds in E. lia.
  - cbn [app re_search]. change (c :: A ++ "*" :: "(" :: X) with ((c :: A) ++ "*" :: "(" :: X).
    destruct (match_here ((c :: A) ++ "*" :: "(" :: X)) as [d'|] eqn:E.
    + exfalso. apply match_here_some in E. destruct E as (X' & E & Hd' & _).
      replace ((c :: A) ++ "*" :: "(" :: X) with (((c :: A) ++ ["*"]) ++ "(" :: X) in E by (rewrite <- app_assoc; reflexivity).
      replace (d' ++ "*" :: "(" :: X') with ((d' ++ ["*"]) ++ "(" :: X') in E by (rewrite <- app_assoc; reflexivity).
      apply first_open_unique in E.
      * destruct E as [E _]. apply app_inj_tail in E. destruct E as [E _].
        apply (last_nondigit_not_alldig (c :: A)); [discriminate|assumption|congruence].
      * rewrite noopen_app, HA. reflexivity.
      * rewrite noopen_app, (alldig_noopen _ Hd'). reflexivity.
    + cbn [noopen] in HA. apply andb_prop in HA. destruct HA as [_ HA].
      specialize (IH (S i) X HA (last_nondigit_tl _ _ HL)).
      destruct (re_search (S i) (A ++ "*" :: "(" :: X)) as [[[a e] n]|]; [|exact I]. cbn [length]. lia.
Qed.

(* ---- slices ---- *)
Lemma slice_eq s A M X a b : s = A ++ M ++ X -> a = length A -> b = length A + length M -> slice s a b = M.
Proof.
  intros -> -> ->. unfold slice. rewrite skipn_app, skipn_all, Nat.sub_diag. cbn [skipn app].
  replace (length A + length M - length A) with (length M + 0) by lia.
  rewrite firstn_app_2. cbn [firstn]. apply app_nil_r.
Qed.
Lemma from_eq s A X a : s = A ++ X -> a = length A -> from s a = X.
Proof. intros -> ->. unfold from. rewrite skipn_app, skipn_all, Nat.sub_diag. reflexivity. Qed.

Ltac lens := repeat (rewrite app_length || rewrite rev_length || cbn [length]); lia.
Ltac apps := repeat (rewrite <- app_assoc || cbn [app]); reflexivity.

(* the index-based loop body is the list-level step *)
Lemma body_eq s : expand_body s = step_spec s.
Proof.
  unfold expand_body, step_spec. destruct (split_open s) as [[P rest]|] eqn:E.
  2:{ apply split_open_none in E. destruct E as [_ E]. rewrite E. reflexivity. }
  apply split_open_some in E. destruct E as (Hs & HP & Hf). rewrite Hf.
  rewrite (from_eq s (P ++ ["("]) rest) by (subst s; apps || lens).
  pose proof (scan_spec rest 1 (length P + 1) (le_n 1)) as Hsc.
  destruct (split_close 1 rest) as [[B R]|].
  2:{ destruct (scan 1 (length P + 1) rest) as [count p]. cbn [fst] in Hsc.
      destruct (count =? 0) eqn:E0; [lia|reflexivity]. }
  destruct Hsc as [Hr Hsc]. rewrite Hsc. cbn [Nat.eqb negb]. subst rest.
  assert (HB : slice s (length P + 1) (length P + 1 + length B) = B)
    by (apply (slice_eq s (P ++ ["("]) B (")" :: R)); [subst s; apps|lens|lens]).
  assert (HR : from s (length P + 1 + length B + 1) = R)
    by (apply (from_eq s (P ++ "(" :: B ++ [")"]) R); [subst s; apps|lens]).
  rewrite HB, HR.
  assert (HP0 : slice s 0 (length P) = P)
    by (apply (slice_eq s [] P ("(" :: B ++ ")" :: R)); [subst s; apps|reflexivity|reflexivity]).
  unfold factor_of. destruct (rev P) as [|st r] eqn:ER.
  { apply (f_equal (@rev ascii)) in ER. rewrite rev_involutive in ER. cbn in ER. subst P. cbn [length Nat.eqb orb].
    cbn [length] in HP0. rewrite HP0. reflexivity. }
  apply (f_equal (@rev ascii)) in ER. rewrite rev_involutive in ER. cbn [rev] in ER.
  assert (Hlen : length P = length (rev r) + 1) by (subst P; lens).
  replace (length P =? 0) with false by (symmetry; apply Nat.eqb_neq; lia). cbn [orb].
  replace (nth (length P - 1) s "000") with st.
  2:{ subst s P. rewrite <- !app_assoc. cbn [app]. replace (length (rev r ++ [st]) - 1) with (length (rev r)) by lens.
      rewrite nth_middle. reflexivity. }
  destruct (is_star st) eqn:Est; cbn [negb]; [|rewrite HP0; reflexivity].
  apply star_eq in Est. subst st.
  destruct (span_digits r) as [d r'] eqn:Esp. apply span_digits_spec in Esp. destruct Esp as (Er & Hd & Hr').
  assert (HnoA : noopen (rev r') = true).
  { subst P r. rewrite rev_app_distr, !noopen_app in HP. apply andb_prop in HP. destruct HP as [HP _].
    apply andb_prop in HP. tauto. }
  assert (HLA : last_nondigit (rev r')).
  { intros A1 x EA. apply (f_equal (@rev ascii)) in EA. rewrite rev_involutive, rev_app_distr in EA. cbn in EA.
    subst r'. exact Hr'. }
  destruct d as [|c d0].
  - cbn [app] in Er. subst r'.
    assert (Es : s = rev r ++ "*" :: "(" :: B ++ ")" :: R) by (subst s P; apps).
    pose proof (re_search_nodigits (rev r) 0 (B ++ ")" :: R) HnoA HLA) as Hre. rewrite <- Es in Hre.
    destruct (re_search 0 s) as [[[a e] n]|]; [|reflexivity].
    replace (e =? length P + 1) with false; [reflexivity|]. symmetry. apply Nat.eqb_neq. lia.
  - remember (c :: d0) as d eqn:Ed.
    assert (Es : s = rev r' ++ rev d ++ "*" :: "(" :: B ++ ")" :: R).
    { subst s P r. rewrite rev_app_distr. apps. }
    assert (Hrd : alldig (rev d) = true) by (rewrite alldig_rev; exact Hd).
    assert (Hnd : rev d <> []) by (subst d; cbn [rev]; intros Hx; apply app_eq_nil in Hx; destruct Hx; discriminate).
    pose proof (re_search_first (rev r') 0 (rev d) (B ++ ")" :: R) HnoA HLA Hrd Hnd) as Hre. rewrite <- Es in Hre.
    rewrite Hre. cbn [Nat.add].
    assert (HlenP : length P = length (rev r') + length (rev d) + 1) by (subst P r; rewrite rev_app_distr; lens).
    replace (length (rev r') + length (rev d) + 2 =? length P + 1) with true by (symmetry; apply Nat.eqb_eq; lia).
    assert (HA : slice s 0 (length (rev r')) = rev r')
      by (apply (slice_eq s [] (rev r') (rev d ++ "*" :: "(" :: B ++ ")" :: R)); [rewrite Es; apps|reflexivity|reflexivity]).
    rewrite HA. unfold copies. subst d. destruct (int_of (rev (c :: d0)) =? 0)%N; [reflexivity|].
    rewrite <- !app_assoc. reflexivity.
Qed.

(* ================= bracket levels ================= *)
(* scan l with c pending opens; None as soon as the count reaches 0 *)
Fixpoint lvl (c : nat) (l : str) : option nat :=
  match l with
  | [] => Some c
  | ch :: t =>
      let c' := if is_open ch then S c else if is_close ch then pred c else c in
      if c' =? 0 then None else lvl c' t
  end.
(* every bracket of l is matched inside l *)
Definition balanced (l : str) : Prop := lvl 1 l = Some 1.
Fixpoint noclose (s : str) : bool :=
  match s with [] => true | c :: t => negb (is_close c) && noclose t end.

Lemma split_close_some l : forall c B R, 1 <= c -> split_close c l = Some (B, R) ->
  l = B ++ ")" :: R /\ lvl c B = Some 1.
Proof.
  induction l as [|ch t IH]; intros c B R Hc H; cbn [split_close] in H; [discriminate|].
  set (c' := if is_open ch then S c else if is_close ch then pred c else c) in *.
  destruct (c' =? 0) eqn:E0.
  - inversion H; subst B R. cbn [app lvl]. subst c'. destruct (is_open ch); [lia|].
    destruct (is_close ch) eqn:E1; [|lia]. apply close_eq in E1. subst. split; [reflexivity|f_equal; lia].
  - destruct (split_close c' t) as [[B' R']|] eqn:E1; [|discriminate]. inversion H; subst B R.
    destruct (IH c' B' R') as [H1 H2]; [lia|assumption|]. subst t. cbn [app lvl]. fold c'. rewrite E0. auto.
Qed.
Lemma split_close_lvl B : forall c R, lvl c B = Some 1 -> split_close c (B ++ ")" :: R) = Some (B, R).
Proof.
  induction B as [|ch t IH]; intros c R H; cbn [lvl] in H.
  - inversion H; subst. reflexivity.
  - cbn [app split_close]. set (c' := if is_open ch then S c else if is_close ch then pred c else c) in *.
    destruct (c' =? 0); [discriminate|]. rewrite IH by assumption. reflexivity.
Qed.
Lemma lvl_app a : forall c b, lvl c (a ++ b) = match lvl c a with Some c' => lvl c' b | None => None end.
Proof.
  induction a as [|ch t IH]; intros c b; cbn [app lvl]; [reflexivity|].
  destruct ((if is_open ch then S c else if is_close ch then pred c else c) =? 0); [reflexivity|apply IH].
Qed.
(* a bracket-free string *)
Lemma lvl_plain f : forall c, 1 <= c -> noopen f = true -> noclose f = true -> lvl c f = Some c.
Proof.
  induction f as [|ch t IH]; intros c Hc H1 H2; cbn [lvl]; [reflexivity|].
  cbn [noopen noclose] in H1, H2. apply andb_prop in H1, H2. destruct H1 as [H1 H1'], H2 as [H2 H2'].
  apply negb_true_iff in H1, H2. rewrite H1, H2. replace (c =? 0) with false by (symmetry; apply Nat.eqb_neq; lia). auto.
Qed.
(* inside one pending bracket, a prefix without '(' that does not close it has no ')' either *)
Lemma lvl1_noopen P : forall c', noopen P = true -> lvl 1 P = Some c' -> c' = 1 /\ noclose P = true.
Proof.
  induction P as [|ch t IH]; intros c' H1 H; cbn [lvl] in H; [inversion H; auto|].
  cbn [noopen] in H1. apply andb_prop in H1. destruct H1 as [H1 H1']. apply negb_true_iff in H1. rewrite H1 in H.
  cbn [noclose]. destruct (is_close ch); [discriminate|]. cbn [Nat.eqb negb andb] in *. auto.
Qed.
(* the matching ')' of a bracket opened at level c+1 *)
Lemma lvl_close_split l : forall c, 1 <= c -> lvl (S c) l = Some 1 ->
  exists B R, split_close c l = Some (B, R) /\ lvl 1 R = Some 1.
Proof.
  induction l as [|ch t IH]; intros c Hc H; cbn [lvl] in H; [inversion H; lia|].
  cbn [split_close].
  destruct (is_open ch) eqn:E1.
  - cbn [Nat.eqb] in *. destruct (IH (S c)) as (B & R & H1 & H2); [lia|assumption|]. rewrite H1. eauto.
  - destruct (is_close ch) eqn:E2.
    + cbn [pred Nat.eqb] in H. destruct c as [|c0]; [lia|]. cbn [pred]. destruct c0 as [|c1].
      * cbn [Nat.eqb]. eauto.
      * cbn [Nat.eqb] in *. destruct (IH (S c1)) as (B & R & H1 & H2); [lia|assumption|]. rewrite H1. eauto.
    + cbn [Nat.eqb] in H. replace (c =? 0) with false by (symmetry; apply Nat.eqb_neq; lia).
      destruct (IH c) as (B & R & H1 & H2); [lia|assumption|]. rewrite H1. eauto.
Qed.

(* shape of a balanced string that contains a '(' *)
Lemma balanced_split X P rest : balanced X -> split_open X = Some (P, rest) ->
  exists B R, X = P ++ "(" :: B ++ ")" :: R /\ noopen P = true /\ noclose P = true /\ balanced B /\ balanced R.
Proof.
  intros HX E. apply split_open_some in E. destruct E as (Es & HP & _). unfold balanced in HX. subst X.
  rewrite lvl_app in HX. destruct (lvl 1 P) as [c'|] eqn:E1; [|discriminate].
  destruct (lvl1_noopen P c' HP E1) as [-> HcP]. cbn [lvl is_open Ascii.eqb] in HX. cbn in HX.
  destruct (lvl_close_split rest 1 (le_n 1) HX) as (B & R & H1 & H2).
  destruct (split_close_some rest 1 B R (le_n 1) H1) as [H3 H4]. subst rest. exists B, R. auto.
Qed.

(* one pass on  Q ( B ) T *)
Lemma step_shape Q B T : noopen Q = true -> balanced B ->
  step_spec (Q ++ "(" :: B ++ ")" :: T) =
  match factor_of Q with
  | None => Ok (Some (Q ++ B ++ T))
  | Some None => Err ValueError
  | Some (Some (P0, n)) => Ok (Some (P0 ++ copies n B ++ T))
  end.
Proof. intros HQ HB. unfold step_spec. rewrite split_open_app by assumption. rewrite split_close_lvl by exact HB. reflexivity. Qed.

Lemma step_none s : step_spec s = Ok None <-> noopen s = true.
Proof.
  split.
  - unfold step_spec. destruct (split_open s) as [[P rest]|] eqn:E.
    + destruct (split_close 1 rest) as [[B R]|]; [|discriminate]. destruct (factor_of P) as [[[P0 n]|]|]; discriminate.
    + intros _. apply split_open_none in E. tauto.
  - intros H. unfold step_spec. rewrite split_open_noopen by assumption. reflexivity.
Qed.

(* ================= the loop as a sequence of steps ================= *)
Lemma expand_S f s : expand_brackets (S f) s =
  match step_spec s with Err e => Err e | Ok None => Ok s | Ok (Some s') => expand_brackets f s' end.
Proof. cbn [expand_brackets]. rewrite body_eq. reflexivity. Qed.

Inductive steps : nat -> str -> str -> Prop :=
| steps_0 s : steps 0 s s
| steps_S k s s1 s2 : step_spec s = Ok (Some s1) -> steps k s1 s2 -> steps (S k) s s2.

Lemma steps_trans k1 s1 s2 : steps k1 s1 s2 -> forall k2 s3, steps k2 s2 s3 -> steps (k1 + k2) s1 s3.
Proof. induction 1; intros k2 s3 H2; cbn [Nat.add]; [assumption|]. econstructor; eauto. Qed.
Lemma steps_1 s s1 : step_spec s = Ok (Some s1) -> steps 1 s s1.
Proof. intros H. econstructor; [eassumption|constructor]. Qed.
Lemma expand_steps k s s' : steps k s s' -> forall m, expand_brackets (k + m) s = expand_brackets m s'.
Proof. induction 1; intros m; cbn [Nat.add]; [reflexivity|]. rewrite expand_S, H. apply IHsteps. Qed.
Lemma expand_done s m : noopen s = true -> expand_brackets (S m) s = Ok s.
Proof. intros H. rewrite expand_S. apply step_none in H. rewrite H. reflexivity. Qed.
Lemma expand_ok_steps n : forall s r, expand_brackets n s = Ok r -> exists k, k < n /\ steps k s r /\ noopen r = true.
Proof.
  induction n as [|n IH]; intros s r H; [discriminate|]. rewrite expand_S in H.
  destruct (step_spec s) as [[s'|]|e] eqn:E; [| |discriminate].
  - destruct (IH _ _ H) as (k & Hk & Hs & Hr). exists (S k). split; [lia|]. split; [econstructor; eauto|assumption].
  - inversion H; subst r. exists 0. split; [lia|]. split; [constructor|]. apply step_none. assumption.
Qed.
Lemma steps_expand k s r F : steps k s r -> noopen r = true -> k < F -> expand_brackets F s = Ok r.
Proof.
  intros Hs Hr HF. replace F with (k + S (F - k - 1)) by lia. rewrite (expand_steps _ _ _ Hs). apply expand_done. assumption.
Qed.

(* ================= contexts ================= *)
(* text that may stand in front of a format without changing how its brackets are read:
   no '(' and not ending in a digit or '*'  (e.g. anything bracket-free that ends in ',') *)
Definition safe (Z : str) : Prop :=
  noopen Z = true /\ forall Z1 x, Z = Z1 ++ [x] -> is_digit x = false /\ is_star x = false.

Lemma safe_nil : safe [].
Proof. split; [reflexivity|]. intros Z1 x E. destruct Z1; discriminate. Qed.
Lemma safe_comma Z : noopen Z = true -> safe (Z ++ [","]).
Proof. intros H. split; [rewrite noopen_app, H; reflexivity|]. intros Z1 x E. apply app_inj_tail in E. destruct E as [_ <-]. auto. Qed.

Lemma step_suffix X X1 Y : step_spec X = Ok (Some X1) -> step_spec (X ++ Y) = Ok (Some (X1 ++ Y)).
Proof.
  intros H. unfold step_spec in H. destruct (split_open X) as [[P rest]|] eqn:E; [|discriminate].
  destruct (split_close 1 rest) as [[B R]|] eqn:E2; [|discriminate].
  apply split_open_some in E. destruct E as (Es & HP & _).
  apply split_close_some in E2; [|lia]. destruct E2 as [Er HB]. subst rest X.
  replace ((P ++ "(" :: B ++ ")" :: R) ++ Y) with (P ++ "(" :: B ++ ")" :: (R ++ Y)) by (rewrite <- !app_assoc; cbn [app]; rewrite <- app_assoc; reflexivity).
  rewrite step_shape by assumption.
  destruct (factor_of P) as [[[P0 n]|]|]; [| discriminate |]; inversion H; subst X1; rewrite <- !app_assoc; reflexivity.
Qed.

Lemma factor_of_prefix Z P : safe Z ->
  factor_of (Z ++ P) = match factor_of P with
                       | None => None | Some None => Some None
                       | Some (Some (P0, n)) => Some (Some (Z ++ P0, n)) end.
Proof.
  intros [HZ HL]. unfold factor_of. rewrite rev_app_distr. destruct (rev P) as [|st r] eqn:ER.
  - cbn [app]. destruct (rev Z) as [|x rz] eqn:EZ; [reflexivity|].
    apply (f_equal (@rev ascii)) in EZ. rewrite rev_involutive in EZ. cbn [rev] in EZ. destruct (HL _ _ EZ) as [_ Hx]. rewrite Hx. reflexivity.
  - cbn [app]. destruct (is_star st); [|reflexivity].
    destruct (span_digits r) as [d r'] eqn:Esp. apply span_digits_spec in Esp. destruct Esp as (Er & Hd & Hr').
    assert (Hsp : span_digits (r ++ rev Z) = (d, r' ++ rev Z)).
    { subst r. rewrite <- app_assoc. apply span_digits_app; [assumption|]. destruct r' as [|x r'']; [|exact Hr']. cbn [app].
      destruct (rev Z) as [|x rz] eqn:EZ; [exact I|].
      apply (f_equal (@rev ascii)) in EZ. rewrite rev_involutive in EZ. cbn [rev] in EZ. destruct (HL _ _ EZ) as [Hx _]. exact Hx. }
    rewrite Hsp. destruct d; [reflexivity|]. rewrite rev_app_distr, rev_involutive. reflexivity.
Qed.

Lemma step_prefix Z Y : safe Z ->
  step_spec (Z ++ Y) = match step_spec Y with
                       | Ok (Some y) => Ok (Some (Z ++ y)) | Ok None => Ok None | Err e => Err e end.
Proof.
  intros HS. pose proof HS as [HZ _]. destruct (split_open Y) as [[P rest]|] eqn:E.
  - pose proof E as E'. apply split_open_some in E'. destruct E' as (Es & HP & _).
    unfold step_spec. rewrite E. subst Y. rewrite app_assoc, split_open_app by (rewrite noopen_app, HZ, HP; reflexivity).
    destruct (split_close 1 rest) as [[B R]|]; [|reflexivity]. rewrite factor_of_prefix by assumption.
    destruct (factor_of P) as [[[P0 n]|]|]; rewrite <- ?app_assoc; reflexivity.
  - apply split_open_none in E. destruct E as [E _]. assert (E2 : noopen (Z ++ Y) = true) by (rewrite noopen_app, HZ, E; reflexivity).
    apply step_none in E, E2. rewrite E, E2. reflexivity.
Qed.

Lemma steps_ctx k X X' : steps k X X' -> forall Z Y, safe Z -> steps k (Z ++ X ++ Y) (Z ++ X' ++ Y).
Proof.
  induction 1 as [|k s s1 s2 Hst _ IH]; intros Z Y HS; [constructor|].
  econstructor; [|apply IH; assumption]. rewrite step_prefix by assumption. rewrite (step_suffix _ _ Y Hst). reflexivity.
Qed.

Lemma factor_of_digits d : alldig d = true -> d <> [] -> factor_of (d ++ ["*"]) = Some (Some ([], int_of d)).
Proof.
  intros Hd Hn. unfold factor_of. rewrite rev_app_distr. cbn [rev app is_star Ascii.eqb]. cbn.
  replace (rev d) with (rev d ++ []) at 1 by apply app_nil_r. rewrite span_digits_app; [|rewrite alldig_rev; assumption|exact I].
  destruct (rev d) as [|c rd] eqn:E.
  - apply (f_equal (@rev ascii)) in E. rewrite rev_involutive in E. cbn in E. congruence.
  - rewrite <- E, rev_involutive. reflexivity.
Qed.
Lemma factor_of_noopen P P0 n : factor_of P = Some (Some (P0, n)) -> noopen P = true -> noopen P0 = true.
Proof.
  unfold factor_of. intros H HP. destruct (rev P) as [|st r] eqn:ER; [discriminate|]. destruct (is_star st); [|discriminate].
  destruct (span_digits r) as [d r'] eqn:Esp. apply span_digits_spec in Esp. destruct Esp as (Er & _ & _).
  destruct d; [discriminate|]. inversion H; subst P0.
  rewrite <- noopen_rev, ER in HP. cbn [noopen] in HP. apply andb_prop in HP. destruct HP as [_ HP]. subst r.
  rewrite noopen_app in HP. apply andb_prop in HP. rewrite noopen_rev. tauto.
Qed.
Lemma factor_of_nostar P : (forall P1 x, P = P1 ++ [x] -> is_star x = false) -> factor_of P = None.
Proof.
  intros H. unfold factor_of. destruct (rev P) as [|st r] eqn:ER; [reflexivity|].
  apply (f_equal (@rev ascii)) in ER. rewrite rev_involutive in ER. cbn [rev] in ER. rewrite (H _ _ ER). reflexivity.
Qed.

(* ================= helper lemmas for the main theorems ================= *)
Definition map_res {A B} (f : A -> B) (r : res A) : res B := match r with Ok a => Ok (f a) | Err e => Err e end.

Lemma expand_prefix Z : safe Z -> forall n Y, expand_brackets n (Z ++ Y) = map_res (app Z) (expand_brackets n Y).
Proof.
  intros HS. induction n as [|n IH]; intros Y; [reflexivity|]. rewrite !expand_S, step_prefix by assumption.
  destruct (step_spec Y) as [[y|]|e]; [apply IH|reflexivity|reflexivity].
Qed.
Lemma expand_mono n : forall s r j, expand_brackets n s = r -> r <> Err OutOfFuel -> expand_brackets (n + j) s = r.
Proof.
  induction n as [|n IH]; intros s r j H Hr; [cbn in H; congruence|]. cbn [Nat.add]. rewrite expand_S in *.
  destruct (step_spec s) as [[y|]|e]; [apply IH; assumption|assumption|assumption].
Qed.

Lemma rep_snoc i (x : str) : rep (S i) x = rep i x ++ x.
Proof. induction i as [|i IH]; [cbn [rep app]; rewrite app_nil_r; reflexivity|]. cbn [rep] in *. rewrite IH at 1. rewrite <- app_assoc. reflexivity. Qed.
Lemma noopen_rep i x : noopen x = true -> noopen (rep i x) = true.
Proof. intros H. induction i as [|i IH]; [reflexivity|]. cbn [rep]. rewrite noopen_app, H, IH. reflexivity. Qed.
Lemma noopen_copies n B : noopen B = true -> noopen (copies n B) = true.
Proof. intros H. unfold copies. destruct (n =? 0)%N; [reflexivity|]. rewrite noopen_app, noopen_rep, H; [reflexivity|]. rewrite noopen_app, H. reflexivity. Qed.
Lemma safe_rep i g : noopen g = true -> safe (rep i (g ++ [","])).
Proof.
  intros H. destruct i as [|i]; [apply safe_nil|]. rewrite rep_snoc, app_assoc. apply safe_comma.
  rewrite noopen_app, noopen_rep, H; [reflexivity|]. rewrite noopen_app, H. reflexivity.
Qed.

(* i copies of g, each followed by a comma, are expanded one after the other *)
Lemma steps_rep j g g' : steps j g g' -> noopen g' = true -> forall i Z Y, safe Z ->
  steps (i * j) (Z ++ rep i (g ++ [","]) ++ Y) (Z ++ rep i (g' ++ [","]) ++ Y).
Proof.
  intros Hs Hg'. induction i as [|i IH]; intros Z Y HS; [constructor|]. cbn [rep Nat.mul].
  pose proof HS as [HZ _].
  replace (Z ++ ((g ++ [","]) ++ rep i (g ++ [","])) ++ Y) with (Z ++ g ++ ("," :: rep i (g ++ [","]) ++ Y))
    by (rewrite <- !app_assoc; reflexivity).
  replace (Z ++ ((g' ++ [","]) ++ rep i (g' ++ [","])) ++ Y) with ((Z ++ g' ++ [","]) ++ rep i (g' ++ [","]) ++ Y)
    by (rewrite <- !app_assoc; reflexivity).
  eapply steps_trans; [apply steps_ctx; eassumption|].
  replace (Z ++ g' ++ "," :: rep i (g ++ [","]) ++ Y) with ((Z ++ g' ++ [","]) ++ rep i (g ++ [","]) ++ Y)
    by (rewrite <- !app_assoc; reflexivity).
  apply IH. rewrite app_assoc. apply safe_comma. rewrite noopen_app, HZ, Hg'. reflexivity.
Qed.

Lemma steps_copies j g g' n : steps j g g' -> noopen g' = true ->
  steps (N.to_nat n * j) (copies n g) (copies n g').
Proof.
  intros Hs Hg'. unfold copies. destruct (n =? 0)%N eqn:E.
  - apply N.eqb_eq in E. subst n. constructor.
  - apply N.eqb_neq in E. replace (N.to_nat n * j) with (N.to_nat (n - 1) * j + j) by nia.
    eapply steps_trans.
    + pose proof (steps_rep j g g' Hs Hg' (N.to_nat (n - 1)) [] g safe_nil) as H. cbn [app] in H. exact H.
    + pose proof (steps_ctx j g g' Hs (rep (N.to_nat (n - 1)) (g' ++ [","])) [] (safe_rep _ _ Hg')) as H.
      rewrite !app_nil_r in H. exact H.
Qed.

Lemma balanced_plain f : noopen f = true -> noclose f = true -> balanced f.
Proof. intros H1 H2. apply lvl_plain; [lia|assumption|assumption]. Qed.
Lemma noopen_digits_star d : alldig d = true -> noopen (d ++ ["*"]) = true.
Proof. intros H. rewrite noopen_app, (alldig_noopen _ H). reflexivity. Qed.

(* ================= MAIN THEOREMS ================= *)

(* 2. When expand_brackets returns a string, it contains no '('. *)
Theorem expand_no_open n s r : expand_brackets n s = Ok r -> noopen r = true.
Proof. intros H. destruct (expand_ok_steps _ _ _ H) as (k & _ & _ & Hr). exact Hr. Qed.

(* 3. A string without '(' is returned unchanged (expand_brackets removes no whitespace; stray ')' stay). *)
Theorem expand_plain n s : noopen s = true -> expand_brackets (S n) s = Ok s.
Proof. intros H. apply expand_done. exact H. Qed.

(* 4a. "(f)" with a bracket-free f expands to f. *)
Theorem expand_paren_flat f m : noopen f = true -> noclose f = true ->
  expand_brackets (2 + m) ("(" :: f ++ [")"]) = Ok f.
Proof.
  intros H1 H2. cbn [Nat.add]. rewrite expand_S.
  pose proof (step_shape [] f [] eq_refl (balanced_plain f H1 H2)) as Hst. cbn [app] in Hst. rewrite Hst.
  cbn. rewrite app_nil_r. apply expand_done. assumption.
Qed.

(* 4b. "n*(f)", n any decimal numeral d (leading zeros allowed) and f bracket-free, expands to
   int(d) copies of f joined by commas; for int(d) = 0 to the empty string. *)
Theorem expand_factor_flat d f m : alldig d = true -> d <> [] -> noopen f = true -> noclose f = true ->
  expand_brackets (2 + m) (d ++ "*" :: "(" :: f ++ [")"]) = Ok (copies (int_of d) f).
Proof.
  intros Hd Hn H1 H2. cbn [Nat.add]. rewrite expand_S.
  pose proof (step_shape (d ++ ["*"]) f [] (noopen_digits_star d Hd) (balanced_plain f H1 H2)) as Hst.
  rewrite <- app_assoc in Hst. cbn [app] in Hst. rewrite Hst, factor_of_digits by assumption.
  cbn [app]. rewrite app_nil_r. apply expand_done. apply noopen_copies. assumption.
Qed.

(* 5. Formats compose at a comma: if s1 expands to r1 on its own, then "s1,s2" expands to
   r1 , (expansion of s2), and fails exactly as s2 fails. *)
Theorem expand_compose n1 n2 s1 s2 r1 r : expand_brackets n1 s1 = Ok r1 -> expand_brackets n2 s2 = r ->
  r <> Err OutOfFuel ->
  expand_brackets (n1 + n2) (s1 ++ "," :: s2) = map_res (fun r2 => r1 ++ "," :: r2) r.
Proof.
  intros H1 H2 Hr. destruct (expand_ok_steps _ _ _ H1) as (k & Hk & Hs & Hr1).
  pose proof (steps_ctx k s1 r1 Hs [] ("," :: s2) safe_nil) as Hc. cbn [app] in Hc.
  replace (n1 + n2) with (k + (n2 + (n1 - k))) by lia. rewrite (expand_steps _ _ _ Hc).
  replace (r1 ++ "," :: s2) with ((r1 ++ [","]) ++ s2) by (rewrite <- app_assoc; reflexivity).
  rewrite expand_prefix by (apply safe_comma; assumption). rewrite (expand_mono _ _ _ _ H2 Hr).
  destruct r as [r2|e]; cbn [map_res]; [rewrite <- app_assoc|]; reflexivity.
Qed.

(* stretch A. "(g)" for any balanced g behaves exactly as g (one more loop pass). *)
Theorem expand_paren g k : balanced g -> expand_brackets (S k) ("(" :: g ++ [")"]) = expand_brackets k g.
Proof.
  intros Hg. rewrite expand_S. pose proof (step_shape [] g [] eq_refl Hg) as Hst. cbn [app] in Hst. rewrite Hst.
  cbn. rewrite app_nil_r. reflexivity.
Qed.

(* stretch B. nested factor law: for balanced g that expands to g', "n*(g)" expands to int(n) copies of g'. *)
Theorem expand_factor_nested d g g' k m : alldig d = true -> d <> [] -> balanced g ->
  expand_brackets k g = Ok g' ->
  expand_brackets (2 + N.to_nat (int_of d) * k + m) (d ++ "*" :: "(" :: g ++ [")"]) = Ok (copies (int_of d) g').
Proof.
  intros Hd Hn Hg He. destruct (expand_ok_steps _ _ _ He) as (j & Hj & Hs & Hg').
  cbn [Nat.add]. rewrite expand_S.
  pose proof (step_shape (d ++ ["*"]) g [] (noopen_digits_star d Hd) Hg) as Hst.
  rewrite <- app_assoc in Hst. cbn [app] in Hst. rewrite Hst, factor_of_digits by assumption.
  cbn [app]. rewrite app_nil_r.
  apply (steps_expand (N.to_nat (int_of d) * j)); [apply steps_copies; assumption|apply noopen_copies; assumption|nia].
Qed.

(* ================= termination ================= *)
Definition fails (s : str) : Prop := exists k s', steps k s s' /\ step_spec s' = Err ValueError.
Definition halts (s : str) : Prop := fails s \/ exists k r, steps k s r /\ noopen r = true.
(* in any context Z . Y the part X is used up after finitely many passes (or the loop raises) *)
Definition reach (Z X Y : str) : Prop :=
  fails (Z ++ X ++ Y) \/ exists k Z', noopen Z' = true /\ steps k (Z ++ X ++ Y) (Z' ++ Y).
Definition good (X : str) : Prop := forall Z Y, noopen Z = true -> reach Z X Y.

Lemma fails_steps k s s1 : steps k s s1 -> fails s1 -> fails s.
Proof. intros Hs (k2 & s' & H1 & H2). exists (k + k2), s'. split; [eapply steps_trans; eassumption|assumption]. Qed.
Lemma halts_steps k s s1 : steps k s s1 -> halts s1 -> halts s.
Proof.
  intros Hs [F|(k2 & r & H1 & H2)]; [left; eapply fails_steps; eassumption|].
  right. exists (k + k2), r. split; [eapply steps_trans; eassumption|assumption].
Qed.

Lemma good_noopen X : noopen X = true -> good X.
Proof.
  intros HX Z Y HZ. right. exists 0, (Z ++ X). split; [rewrite noopen_app, HZ, HX; reflexivity|].
  rewrite <- app_assoc. constructor.
Qed.
Lemma good_app X1 X2 : good X1 -> good X2 -> good (X1 ++ X2).
Proof.
  intros H1 H2 Z Y HZ. unfold reach. rewrite <- app_assoc.
  destruct (H1 Z (X2 ++ Y) HZ) as [F|(k & Z' & HZ' & Hs)]; [left; exact F|].
  destruct (H2 Z' Y HZ') as [F|(k2 & Z2 & HZ2 & Hs2)]; [left; eapply fails_steps; eassumption|].
  right. exists (k + k2), Z2. split; [assumption|eapply steps_trans; eassumption].
Qed.
Lemma good_rep i X : good X -> good (rep i X).
Proof. intros H. induction i as [|i IH]; [apply good_noopen; reflexivity|]. cbn [rep]. apply good_app; assumption. Qed.
Lemma good_copies n B : good B -> good (copies n B).
Proof.
  intros H. unfold copies. destruct (n =? 0)%N; [apply good_noopen; reflexivity|].
  apply good_app; [apply good_rep, good_app; [assumption|apply good_noopen; reflexivity]|assumption].
Qed.
Lemma good_step X :
  (forall Z Y, noopen Z = true -> step_spec (Z ++ X ++ Y) = Err ValueError \/
     exists Z1 X1, noopen Z1 = true /\ good X1 /\ step_spec (Z ++ X ++ Y) = Ok (Some (Z1 ++ X1 ++ Y))) -> good X.
Proof.
  intros H Z Y HZ. destruct (H Z Y HZ) as [E|(Z1 & X1 & HZ1 & HX1 & E)].
  - left. exists 0, (Z ++ X ++ Y). split; [constructor|assumption].
  - destruct (HX1 Z1 Y HZ1) as [F|(k & Z' & HZ' & Hs)].
    + left. eapply fails_steps; [apply steps_1; eassumption|assumption].
    + right. exists (1 + k), Z'. split; [assumption|]. eapply steps_trans; [apply steps_1; eassumption|assumption].
Qed.

(* the three outcomes of one pass on  Q ( B ) T *)
Lemma step_cases Q B T : noopen Q = true -> balanced B -> good B ->
  step_spec (Q ++ "(" :: B ++ ")" :: T) = Err ValueError \/
  exists Z1 M, noopen Z1 = true /\ good M /\ step_spec (Q ++ "(" :: B ++ ")" :: T) = Ok (Some (Z1 ++ M ++ T)).
Proof.
  intros HQ HB HG. rewrite step_shape by assumption. destruct (factor_of Q) as [[[P0 n]|]|] eqn:EF.
  - right. exists P0, (copies n B). split; [eapply factor_of_noopen; eassumption|]. split; [apply good_copies; assumption|reflexivity].
  - left; reflexivity.
  - right. exists Q, B. auto.
Qed.

Lemma good_balanced n : forall X, length X < n -> balanced X -> good X.
Proof.
  induction n as [|n IH]; intros X Hlen HX; [lia|].
  destruct (split_open X) as [[P rest]|] eqn:E.
  2:{ apply split_open_none in E. apply good_noopen. tauto. }
  destruct (balanced_split X P rest HX E) as (B & R & EX & HP & _ & HB & HR).
  assert (HlB : length B < n) by (subst X; rewrite app_length in Hlen; cbn [length] in Hlen; rewrite app_length in Hlen; cbn [length] in Hlen; lia).
  assert (HlR : length R < n) by (subst X; rewrite app_length in Hlen; cbn [length] in Hlen; rewrite app_length in Hlen; cbn [length] in Hlen; lia).
  pose proof (IH B HlB HB) as GB. pose proof (IH R HlR HR) as GR.
  apply good_step. intros Z Y HZ. subst X.
  replace (Z ++ (P ++ "(" :: B ++ ")" :: R) ++ Y) with ((Z ++ P) ++ "(" :: B ++ ")" :: (R ++ Y))
    by (rewrite <- !app_assoc; cbn [app]; rewrite <- app_assoc; reflexivity).
  destruct (step_cases (Z ++ P) B (R ++ Y)) as [Er|(Z1 & M & HZ1 & GM & Es)];
    [rewrite noopen_app, HZ, HP; reflexivity|assumption|assumption|left; assumption|].
  right. exists Z1, (M ++ R). split; [assumption|]. split; [apply good_app; assumption|]. rewrite Es, <- app_assoc. reflexivity.
Qed.

Lemma halts_all n : forall s, length s < n -> forall Z, noopen Z = true -> halts (Z ++ s).
Proof.
  induction n as [|n IH]; intros s Hlen Z HZ; [lia|].
  destruct (split_open s) as [[P rest]|] eqn:E.
  2:{ apply split_open_none in E. right. exists 0, (Z ++ s). split; [constructor|]. rewrite noopen_app, HZ. tauto. }
  apply split_open_some in E. destruct E as (Es & HP & _).
  assert (HQ : noopen (Z ++ P) = true) by (rewrite noopen_app, HZ, HP; reflexivity).
  destruct (split_close 1 rest) as [[B R]|] eqn:E2.
  - apply split_close_some in E2; [|lia]. destruct E2 as [Er HB]. subst rest s.
    assert (HlB : length B < S (length B)) by lia.
    pose proof (good_balanced _ B HlB HB) as GB.
    rewrite app_assoc.
    destruct (step_cases (Z ++ P) B R HQ HB GB) as [Er|(Z1 & M & HZ1 & GM & Est)].
    + left. exists 0, ((Z ++ P) ++ "(" :: B ++ ")" :: R). split; [constructor|assumption].
    + destruct (GM Z1 R HZ1) as [F|(k & Z' & HZ' & Hs)].
      * left. eapply fails_steps; [apply steps_1; eassumption|assumption].
      * eapply halts_steps; [apply steps_1; eassumption|]. eapply halts_steps; [eassumption|].
        apply IH; [|assumption]. rewrite app_length in Hlen. cbn [length] in Hlen. rewrite app_length in Hlen. cbn [length] in Hlen. lia.
  - left. exists 0, (Z ++ s). split; [constructor|]. subst s. rewrite app_assoc. unfold step_spec.
    rewrite split_open_app by assumption. rewrite E2. reflexivity.
Qed.

(* 1. The loop terminates on every string: there is a number of passes n after which the outcome
   (a string or ValueError, never OutOfFuel) is the same for every larger fuel. *)
Theorem expand_terminates s : exists n r, r <> Err OutOfFuel /\ forall m, n <= m -> expand_brackets m s = r.
Proof.
  destruct (halts_all (S (length s)) s (le_n _) [] eq_refl) as [(k & s' & Hs & He)|(k & r & Hs & Hr)]; cbn [app] in *.
  - exists (S k), (Err ValueError). split; [discriminate|]. intros m Hm. replace m with (k + S (m - k - 1)) by lia.
    rewrite (expand_steps _ _ _ Hs), expand_S, He. reflexivity.
  - exists (S k), (Ok r). split; [discriminate|]. intros m Hm. apply (steps_expand k); [assumption|assumption|lia].
Qed.

(* ================= ')' in the result ================= *)
Lemma noclose_app a b : noclose (a ++ b) = noclose a && noclose b.
Proof. induction a as [|c a IH]; cbn [noclose app]; [reflexivity|]. rewrite IH. apply andb_assoc. Qed.
Lemma noclose_rev a : noclose (rev a) = noclose a.
Proof. induction a as [|c a IH]; cbn [rev noclose]; [reflexivity|]. rewrite noclose_app, IH. cbn [noclose]. destruct (is_close c), (noclose a); reflexivity. Qed.
Lemma factor_of_noclose P P0 n : factor_of P = Some (Some (P0, n)) -> noclose P = true -> noclose P0 = true.
Proof.
  unfold factor_of. intros H HP. destruct (rev P) as [|st r] eqn:ER; [discriminate|]. destruct (is_star st); [|discriminate].
  destruct (span_digits r) as [d r'] eqn:Esp. apply span_digits_spec in Esp. destruct Esp as (Er & _ & _).
  destruct d; [discriminate|]. inversion H; subst P0.
  rewrite <- noclose_rev, ER in HP. cbn [noclose] in HP. apply andb_prop in HP. destruct HP as [_ HP]. subst r.
  rewrite noclose_app in HP. apply andb_prop in HP. rewrite noclose_rev. tauto.
Qed.
Lemma lvl_shift B : forall c c' k, 1 <= c -> lvl c B = Some c' -> lvl (c + k) B = Some (c' + k).
Proof.
  induction B as [|ch t IH]; intros c c' k Hc H; cbn [lvl] in *; [inversion H; reflexivity|].
  destruct (is_open ch).
  - cbn [Nat.eqb] in *. apply (IH (S c)); [lia|assumption].
  - destruct (is_close ch).
    + destruct c as [|c0]; [lia|]. cbn [pred Nat.add] in *. destruct c0 as [|c1]; [discriminate|].
      cbn [Nat.eqb Nat.add] in *. apply (IH (S c1)); [lia|assumption].
    + destruct c as [|c0]; [lia|]. cbn [Nat.eqb Nat.add] in *. apply (IH (S c0)); [lia|assumption].
Qed.
Lemma lvl_rep i B : lvl 1 B = Some 1 -> lvl 1 (rep i B) = Some 1.
Proof. intros H. induction i as [|i IH]; [reflexivity|]. cbn [rep]. rewrite lvl_app, H. exact IH. Qed.
Lemma lvl_copies n B : lvl 1 B = Some 1 -> lvl 1 (copies n B) = Some 1.
Proof.
  intros H. unfold copies. destruct (n =? 0)%N; [reflexivity|]. rewrite lvl_app, lvl_rep; [assumption|].
  rewrite lvl_app, H. reflexivity.
Qed.

(* one pass keeps the level profile: no new stray ')' appears *)
Lemma step_keeps_lvl s s1 : step_spec s = Ok (Some s1) -> lvl 1 s <> None -> lvl 1 s1 = lvl 1 s.
Proof.
  intros H HL. unfold step_spec in H. destruct (split_open s) as [[P rest]|] eqn:E; [|discriminate].
  destruct (split_close 1 rest) as [[B R]|] eqn:E2; [|discriminate].
  apply split_open_some in E. destruct E as (Es & HP & _).
  apply split_close_some in E2; [|lia]. destruct E2 as [Er HB]. subst rest s.
  rewrite lvl_app in HL |- *. destruct (lvl 1 P) as [cP|] eqn:ELP; [|congruence].
  destruct (lvl1_noopen P cP HP ELP) as [-> HcP].
  assert (Hs : lvl 1 ("(" :: B ++ ")" :: R) = lvl 1 R).
  { cbn [lvl is_open Ascii.eqb]. cbn. rewrite lvl_app. pose proof (lvl_shift B 1 1 1 (le_n 1) HB) as HS2. cbn [Nat.add] in HS2. rewrite HS2. reflexivity. }
  rewrite Hs. destruct (factor_of P) as [[[P0 n]|]|] eqn:EF; [|discriminate|]; inversion H; subst s1.
  - rewrite lvl_app, (lvl_plain P0 1 (le_n 1)); [|eapply factor_of_noopen; eassumption|eapply factor_of_noclose; eassumption].
    rewrite lvl_app, lvl_copies by assumption. reflexivity.
  - rewrite lvl_app, ELP, lvl_app, HB. reflexivity.
Qed.

(* 2'. If no ')' of s comes before its '(' (no stray closing bracket), the result contains no ')' either.
   (With a stray ')' the result does contain ')': see ex_stray below.) *)
Theorem expand_no_close n s r : lvl 1 s <> None -> expand_brackets n s = Ok r -> noclose r = true.
Proof.
  intros HL H. destruct (expand_ok_steps _ _ _ H) as (k & _ & Hs & Hr). clear H.
  induction Hs as [s|k s s1 s2 Hst _ IH].
  - destruct (lvl 1 s) as [c|] eqn:E; [|congruence]. apply (lvl1_noopen s c Hr E).
  - apply IH; [|assumption]. rewrite (step_keeps_lvl _ _ Hst HL). assumption.
Qed.

(* ================= an explicit fuel bound for formats without nested brackets ================= *)
Fixpoint count_open (s : str) : nat :=
  match s with [] => 0 | c :: t => (if is_open c then 1 else 0) + count_open t end.
(* no '(' inside a bracket *)
Fixpoint flat (inb : bool) (s : str) : bool :=
  match s with
  | [] => true
  | c :: t => if is_open c then negb inb && flat true t else if is_close c then flat false t else flat inb t
  end.
Lemma count_open_app a b : count_open (a ++ b) = count_open a + count_open b.
Proof. induction a as [|c a IH]; cbn [count_open app]; [reflexivity|]. rewrite IH. lia. Qed.
Lemma count_open_noopen a : noopen a = true -> count_open a = 0.
Proof. induction a as [|c a IH]; cbn [count_open noopen]; [reflexivity|]. intros H. apply andb_prop in H. destruct H as [H1 H2]. apply negb_true_iff in H1. rewrite H1, IH by assumption. reflexivity. Qed.
Lemma flat_noopen U l : noopen U = true -> flat false (U ++ l) = flat false l.
Proof.
  induction U as [|c U IH]; cbn [noopen app flat]; [reflexivity|]. intros H. apply andb_prop in H. destruct H as [H1 H2].
  apply negb_true_iff in H1. rewrite H1. destruct (is_close c); apply IH; assumption.
Qed.
Lemma flat_close rest : forall B R, flat true rest = true -> split_close 1 rest = Some (B, R) ->
  noopen B = true /\ flat false R = true /\ count_open rest = count_open R.
Proof.
  induction rest as [|ch t IH]; intros B R HF H; cbn [split_close] in H; [discriminate|]. cbn [flat count_open] in *.
  destruct (is_open ch) eqn:E1; [discriminate|]. destruct (is_close ch) eqn:E2.
  - cbn in H. inversion H; subst. auto.
  - cbn [Nat.eqb] in H. destruct (split_close 1 t) as [[B' R']|] eqn:E3; [|discriminate]. inversion H; subst.
    destruct (IH _ _ HF eq_refl) as (H1 & H2 & H3). cbn [noopen]. rewrite E1, H1. auto.
Qed.

Lemma flat_step s s1 : flat false s = true -> step_spec s = Ok (Some s1) ->
  flat false s1 = true /\ S (count_open s1) = count_open s.
Proof.
  intros HF H. unfold step_spec in H. destruct (split_open s) as [[P rest]|] eqn:E; [|discriminate].
  destruct (split_close 1 rest) as [[B R]|] eqn:E2; [|discriminate].
  apply split_open_some in E. destruct E as (Es & HP & _). subst s.
  rewrite flat_noopen in HF by assumption. cbn [flat is_open Ascii.eqb] in HF. cbn in HF.
  destruct (flat_close rest B R HF E2) as (HB & HR & HC).
  rewrite count_open_app, (count_open_noopen P HP). cbn [count_open is_open Ascii.eqb]. cbn. rewrite HC.
  destruct (factor_of P) as [[[P0 n]|]|] eqn:EF; [|discriminate|]; inversion H; subst s1.
  - pose proof (factor_of_noopen _ _ _ EF HP) as HP0. pose proof (noopen_copies n B HB) as HM.
    rewrite flat_noopen, flat_noopen by assumption. rewrite !count_open_app, (count_open_noopen _ HP0), (count_open_noopen _ HM). auto.
  - rewrite flat_noopen, flat_noopen by assumption. rewrite !count_open_app, (count_open_noopen _ HP), (count_open_noopen _ HB). auto.
Qed.

(* 1'. For a format without nested brackets, (number of '(' in s) + 1 passes always suffice.
   (For nested factors no bound in terms of the length or the bracket count exists: see ex_fuel_nested.) *)
Theorem expand_fuel_flat s : flat false s = true ->
  exists r, r <> Err OutOfFuel /\ forall m, S (count_open s) <= m -> expand_brackets m s = r.
Proof.
  remember (count_open s) as c eqn:Ec. revert s Ec. induction c as [|c IH]; intros s Ec HF.
  - destruct (step_spec s) as [[s1|]|e] eqn:E.
    + destruct (flat_step s s1 HF E) as [_ H]. lia.
    + exists (Ok s). split; [discriminate|]. intros m Hm. destruct m; [lia|]. rewrite expand_S, E. reflexivity.
    + exists (Err e). split; [|intros m Hm; destruct m; [lia|]; rewrite expand_S, E; reflexivity].
      unfold step_spec in E. destruct (split_open s) as [[P rest]|]; [|discriminate]. destruct (split_close 1 rest) as [[B R]|]; [|congruence].
      destruct (factor_of P) as [[[P0 n]|]|]; congruence.
  - destruct (step_spec s) as [[s1|]|e] eqn:E.
    + destruct (flat_step s s1 HF E) as [HF1 H]. destruct (IH s1) as (r & Hr & Hm); [lia|assumption|].
      exists r. split; [assumption|]. intros m Hm'. destruct m; [lia|]. rewrite expand_S, E. apply Hm. lia.
    + exists (Ok s). split; [discriminate|]. intros m Hm. destruct m; [lia|]. rewrite expand_S, E. reflexivity.
    + exists (Err e). split; [|intros m Hm; destruct m; [lia|]; rewrite expand_S, E; reflexivity].
      unfold step_spec in E. destruct (split_open s) as [[P rest]|]; [|discriminate]. destruct (split_close 1 rest) as [[B R]|]; [|congruence].
      destruct (factor_of P) as [[[P0 n]|]|]; congruence.
Qed.

(* ================= token count ================= *)
Definition is_comma (c : ascii) : bool := Ascii.eqb c ",".
(* s.split(',') *)
Fixpoint split_commas (s : str) : list str :=
  match s with
  | [] => [[]]
  | c :: t => if is_comma c then [] :: split_commas t
              else match split_commas t with h :: r => (c :: h) :: r | [] => [[c]] end
  end.
Fixpoint count_commas (s : str) : nat :=
  match s with [] => 0 | c :: t => (if is_comma c then 1 else 0) + count_commas t end.
Lemma split_commas_length s : length (split_commas s) = S (count_commas s).
Proof.
  induction s as [|c t IH]; cbn [split_commas count_commas]; [reflexivity|].
  destruct (is_comma c); cbn [length Nat.add]; [rewrite IH; reflexivity|].
  destruct (split_commas t); cbn [length] in *; [discriminate|assumption].
Qed.
Lemma count_commas_app a b : count_commas (a ++ b) = count_commas a + count_commas b.
Proof. induction a as [|c a IH]; cbn [count_commas app]; [reflexivity|]. rewrite IH. lia. Qed.
Lemma count_commas_rep i x : count_commas (rep i x) = i * count_commas x.
Proof. induction i as [|i IH]; cbn [rep Nat.mul]; [reflexivity|]. rewrite count_commas_app, IH. reflexivity. Qed.

(* stretch C. for n > 0 the expansion of "n*(f)" splits at commas into n times as many pieces as f. *)
Theorem copies_token_count n f : (0 < n)%N ->
  length (split_commas (copies n f)) = N.to_nat n * length (split_commas f).
Proof.
  intros Hn. rewrite !split_commas_length. unfold copies. replace (n =? 0)%N with false by (symmetry; apply N.eqb_neq; lia).
  rewrite count_commas_app, count_commas_rep, count_commas_app. cbn [count_commas is_comma Ascii.eqb]. cbn.
  replace (N.to_nat n) with (S (N.to_nat (n - 1))) by lia. nia.
Qed.
Corollary factor_token_count d f m : alldig d = true -> d <> [] -> noopen f = true -> noclose f = true -> (0 < int_of d)%N ->
  exists r, expand_brackets (2 + m) (d ++ "*" :: "(" :: f ++ [")"]) = Ok r /\
            length (split_commas r) = N.to_nat (int_of d) * length (split_commas f).
Proof.
  intros Hd Hn H1 H2 Hp. exists (copies (int_of d) f). split; [apply expand_factor_flat; assumption|apply copies_token_count; assumption].
Qed.

(* ================= decimal numerals ================= *)
Definition digit_char (k : N) : ascii := ascii_of_nat (48 + N.to_nat k).
Fixpoint dec (fuel : nat) (n : N) : str :=
  match fuel with
  | 0 => [digit_char n]
  | S f => if (n <? 10)%N then [digit_char n] else dec f (n / 10) ++ [digit_char (n mod 10)]
  end.
(* str(n) *)
Definition decimal (n : N) : str := dec (N.to_nat (N.size n)) n.

Lemma int_of_snoc l c : int_of (l ++ [c]) = (10 * int_of l + digit_val c)%N.
Proof. unfold int_of. rewrite fold_left_app. reflexivity. Qed.
Lemma digit_char_ok k : (k < 10)%N -> is_digit (digit_char k) = true /\ digit_val (digit_char k) = k.
Proof.
  intros H. unfold is_digit, digit_val, digit_char. rewrite nat_ascii_embedding by lia.
  split; [apply andb_true_intro; split; apply Nat.leb_le; lia|lia].
Qed.
Lemma dec_ok fuel : forall n, (n < 2 ^ N.of_nat fuel)%N ->
  alldig (dec fuel n) = true /\ dec fuel n <> [] /\ int_of (dec fuel n) = n.
Proof.
  induction fuel as [|f IH]; intros n Hn.
  - cbn [dec]. change (2 ^ N.of_nat 0)%N with 1%N in Hn. destruct (digit_char_ok n) as [H1 H2]; [lia|].
    cbn [alldig]. rewrite H1. split; [reflexivity|]. split; [discriminate|]. unfold int_of. cbn [fold_left]. lia.
  - cbn [dec]. destruct (n <? 10)%N eqn:E.
    + destruct (digit_char_ok n) as [H1 H2]; [lia|].
      cbn [alldig]. rewrite H1. split; [reflexivity|]. split; [discriminate|]. unfold int_of. cbn [fold_left]. lia.
    + rewrite Nat2N.inj_succ, N.pow_succ_r' in Hn.
      destruct (IH (n / 10)%N) as (H1 & H2 & H3); [apply N.div_lt_upper_bound; lia|].
      destruct (digit_char_ok (n mod 10)) as [H4 H5]; [apply N.mod_lt; lia|].
      rewrite alldig_app, H1. cbn [alldig]. rewrite H4. split; [reflexivity|].
      split; [intros Hx; apply app_eq_nil in Hx; destruct Hx; discriminate|].
      rewrite int_of_snoc, H3, H5. symmetry. apply N.div_mod. lia.
Qed.
Lemma decimal_ok n : alldig (decimal n) = true /\ decimal n <> [] /\ int_of (decimal n) = n.
Proof. apply dec_ok. rewrite N2Nat.id. apply N.size_gt. Qed.

(* 4c. "n*(f)" with n >= 0 written in decimal and f bracket-free: n copies of f joined by commas ("" for n = 0). *)
Theorem expand_factor_decimal n f m : noopen f = true -> noclose f = true ->
  expand_brackets (2 + m) (decimal n ++ "*" :: "(" :: f ++ [")"]) = Ok (copies n f).
Proof.
  intros H1 H2. destruct (decimal_ok n) as (Ha & Hb & Hc). rewrite <- Hc at 2. apply expand_factor_flat; assumption.
Qed.

(* ================= examples ================= *)
Open Scope string_scope.
(* hypotheses of the theorems are satisfiable on non-trivial inputs *)
Example hyp_digits : alldig (S_ "012") = true /\ S_ "012" <> [] /\ int_of (S_ "012") = 12%N.
Proof. split; [vm_compute; reflexivity|]. split; [discriminate|vm_compute; reflexivity]. Qed.
Example hyp_decimal : decimal 12 = S_ "12" /\ decimal 0 = S_ "0" /\ copies 3 (S_ "u8") = S_ "u8,u8,u8" /\ copies 0 (S_ "u8") = [].
Proof. repeat split; vm_compute; reflexivity. Qed.
Example hyp_flat_body : noopen (S_ "uint:8, hex4") = true /\ noclose (S_ "uint:8, hex4") = true.
Proof. split; vm_compute; reflexivity. Qed.
Example hyp_compose : expand_brackets 4 (S_ "2*(a,(b))") = Ok (S_ "a,b,a,b") /\ expand_brackets 3 (S_ "x,3*(y)") = Ok (S_ "x,y,y,y").
Proof. split; vm_compute; reflexivity. Qed.
Example hyp_nested : balanced (S_ "a,2*(b,(c))") /\ expand_brackets 4 (S_ "a,2*(b,(c))") = Ok (S_ "a,b,c,b,c").
Proof. split; vm_compute; reflexivity. Qed.
Example hyp_no_stray : lvl 1 (S_ "2*(a,(b)),c") <> None.
Proof. vm_compute. discriminate. Qed.
Example hyp_flat : flat false (S_ "2*(a),(b),c),3*(d)") = true /\ count_open (S_ "2*(a),(b),c),3*(d)") = 3.
Proof. split; vm_compute; reflexivity. Qed.
(* counterexamples to the naive statements *)
Example ex_stray : run 5 "a)(b)" = Ok "a)b".                       (* a stray ')' survives *)
Proof. vm_compute. reflexivity. Qed.
Example ex_fuel_nested :                                           (* 13 characters, 3 brackets, 92 passes *)
  expand_brackets 91 (S_ "9*(9*(9*(a)))") = Err OutOfFuel /\
  match expand_brackets 92 (S_ "9*(9*(9*(a)))") with Ok r => Nat.eqb (length r) 1457 | Err _ => false end = true.
Proof. split; vm_compute; reflexivity. Qed.
Example ex_compose_needs_s1 : run 5 "(a" = Err ValueError /\ run 5 "(a,b)" = Ok "a,b".   (* s1 must expand on its own *)
Proof. split; vm_compute; reflexivity. Qed.
Example ex_merge : run 20 "1(2*(a))" = Ok "a,a,a,a,a,a,a,a,a,a,a,a".  (* digits merge into a factor 12 *)
Proof. vm_compute. reflexivity. Qed.

(* the model against bitstring.utils.expand_brackets of /repo (outputs taken from the library) *)
Example ex0 : run 2000 "" = Ok "". Proof. vm_compute. reflexivity. Qed.
Example ex1 : run 2000 "a" = Ok "a". Proof. vm_compute. reflexivity. Qed.
Example ex2 : run 2000 "uint:8,hex" = Ok "uint:8,hex". Proof. vm_compute. reflexivity. Qed.
Example ex3 : run 2000 "(a)" = Ok "a". Proof. vm_compute. reflexivity. Qed.
Example ex4 : run 2000 "((a))" = Ok "a". Proof. vm_compute. reflexivity. Qed.
Example ex5 : run 2000 "2*(a)" = Ok "a,a". Proof. vm_compute. reflexivity. Qed.
Example ex6 : run 2000 "0*(a)" = Ok "". Proof. vm_compute. reflexivity. Qed.
Example ex7 : run 2000 "1*(a)" = Ok "a". Proof. vm_compute. reflexivity. Qed.
Example ex8 : run 2000 "12*(ab)" = Ok "ab,ab,ab,ab,ab,ab,ab,ab,ab,ab,ab,ab". Proof. vm_compute. reflexivity. Qed.
Example ex9 : run 2000 "3*(2*(a))" = Ok "a,a,a,a,a,a". Proof. vm_compute. reflexivity. Qed.
Example ex10 : run 2000 "3*(a,2*(b,c))" = Ok "a,b,c,b,c,a,b,c,b,c,a,b,c,b,c". Proof. vm_compute. reflexivity. Qed.
Example ex11 : run 2000 "a,2*(b),c" = Ok "a,b,b,c". Proof. vm_compute. reflexivity. Qed.
Example ex12 : run 2000 "(a" = Err ValueError. Proof. vm_compute. reflexivity. Qed.
Example ex13 : run 2000 "a)" = Ok "a)". Proof. vm_compute. reflexivity. Qed.
Example ex14 : run 2000 "a)(b)" = Ok "a)b". Proof. vm_compute. reflexivity. Qed.
Example ex15 : run 2000 "(a))" = Ok "a)". Proof. vm_compute. reflexivity. Qed.
Example ex16 : run 2000 "((a)" = Err ValueError. Proof. vm_compute. reflexivity. Qed.
Example ex17 : run 2000 ")(" = Err ValueError. Proof. vm_compute. reflexivity. Qed.
Example ex18 : run 2000 "*(a)" = Err ValueError. Proof. vm_compute. reflexivity. Qed.
Example ex19 : run 2000 "x*(a)" = Err ValueError. Proof. vm_compute. reflexivity. Qed.
Example ex20 : run 2000 "2 *(a)" = Err ValueError. Proof. vm_compute. reflexivity. Qed.
Example ex21 : run 2000 "2* (a)" = Ok "2* a". Proof. vm_compute. reflexivity. Qed.
Example ex22 : run 2000 "2*( a , b )" = Ok " a , b , a , b ". Proof. vm_compute. reflexivity. Qed.
Example ex23 : run 2000 "*(3*(a))" = Err ValueError. Proof. vm_compute. reflexivity. Qed.
Example ex24 : run 2000 "1(2*(a))" = Ok "a,a,a,a,a,a,a,a,a,a,a,a". Proof. vm_compute. reflexivity. Qed.
Example ex25 : run 2000 "2*(1)3*(a)" = Ok "1,a,a,a,a,a,a,a,a,a,a,a,a,a". Proof. vm_compute. reflexivity. Qed.
Example ex26 : run 2000 "(1)*(a)" = Ok "a". Proof. vm_compute. reflexivity. Qed.
Example ex27 : run 2000 "2*(1)*(a)" = Ok "1,a". Proof. vm_compute. reflexivity. Qed.
Example ex28 : run 2000 "00*(a)x" = Ok "x". Proof. vm_compute. reflexivity. Qed.
Example ex29 : run 2000 "007*(a)" = Ok "a,a,a,a,a,a,a". Proof. vm_compute. reflexivity. Qed.
Example ex30 : run 2000 "a10*(x)3*(b)" = Ok "ax,x,x,x,x,x,x,x,x,xb,b,b". Proof. vm_compute. reflexivity. Qed.
Example ex31 : run 2000 "2*(),q" = Ok ",,q". Proof. vm_compute. reflexivity. Qed.
Example ex32 : run 2000 "0*(2*(a)),b" = Ok ",b". Proof. vm_compute. reflexivity. Qed.
Example ex33 : run 2000 "0*((a)" = Err ValueError. Proof. vm_compute. reflexivity. Qed.
Example ex34 : run 2000 "2*(a)3*(b)" = Ok "a,ab,b,b". Proof. vm_compute. reflexivity. Qed.
Example ex35 : run 2000 "2*(a),3*(b)" = Ok "a,a,b,b,b". Proof. vm_compute. reflexivity. Qed.
Example ex36 : run 2000 "u8,2*(u4,3*(b1)),h" = Ok "u8,u4,b1,b1,b1,u4,b1,b1,b1,h". Proof. vm_compute. reflexivity. Qed.
Example ex37 : run 2000 "**2*((a))" = Err ValueError. Proof. vm_compute. reflexivity. Qed.
Example ex38 : run 2000 "3*(3*(3*(a)))" = Ok "a,a,a,a,a,a,a,a,a,a,a,a,a,a,a,a,a,a,a,a,a,a,a,a,a,a,a". Proof. vm_compute. reflexivity. Qed.
Example ex39 : run 2000 "2*(a)(" = Err ValueError. Proof. vm_compute. reflexivity. Qed.
Example ex40 : run 2000 "(a)(b" = Err ValueError. Proof. vm_compute. reflexivity. Qed.
Example ex41 : run 2000 "(()" = Err ValueError. Proof. vm_compute. reflexivity. Qed.
Example ex42 : run 2000 "5*()" = Ok ",,,,". Proof. vm_compute. reflexivity. Qed.
Example ex43 : run 2000 "3*(2*(a)b)c)" = Ok "a,ab,a,ab,a,abc)". Proof. vm_compute. reflexivity. Qed.
Example ex44 : run 2000 "a*2*(b)" = Ok "a*b,b". Proof. vm_compute. reflexivity. Qed.
Example ex45 : run 2000 "2*3*(b)" = Ok "2*b,b,b". Proof. vm_compute. reflexivity. Qed.
Example ex46 : run 2000 "x2*(b)" = Ok "xb,b". Proof. vm_compute. reflexivity. Qed.
Example ex47 : run 2000 ",2*(b)," = Ok ",b,b,". Proof. vm_compute. reflexivity. Qed.

Print Assumptions body_eq.
Print Assumptions expand_terminates.
Print Assumptions expand_fuel_flat.
Print Assumptions expand_no_open.
Print Assumptions expand_no_close.
Print Assumptions expand_plain.
Print Assumptions expand_paren_flat.
Print Assumptions expand_factor_flat.
Print Assumptions expand_factor_decimal.
Print Assumptions expand_compose.
Print Assumptions expand_paren.
Print Assumptions expand_factor_nested.
Print Assumptions factor_token_count.
