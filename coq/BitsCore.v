(* BitsCore.v — hand model of the sequence core of /repo, function by function:
   bitstring/bitstore.py   indices, offset_slice_indices_lsb0, BitStore.get*/set*/del*/invert (msb0 + lsb0)
   bitstring/bits.py       __getitem__ __add__ __radd__ __mul__ _imul __len__ __bool__ __iter__
                           __and__ __or__ __xor__ __invert__ __lshift__ __rshift__
                           _absolute_slice _addright _addleft _truncateleft _truncateright
                           _ilshift _irshift _validate_slice
   A bitstring's content is [bits]; `lsb0 : bool` is options.lsb0 (which selects the method table). *)
From BS Require Import Prims.
Open Scope Z_scope.

(* ---------------- bitstore.py: indices / offset_slice_indices_lsb0 ---------------- *)
(* indices(s, length) -> (start, stop | None, step) *)
Definition indices (k : pyslice) (len : Z) : res (Z * option Z * Z) :=
  do3 (start, stop, step) <- slice_indices k len;
  match s_step k with
  | None => Ok (start, Some stop, step)
  | Some st => if st >=? 0 then Ok (start, Some stop, step)      (* step = 0 already failed in slice_indices *)
               else Ok (start, (if stop <? 0 then None else Some stop), step)
  end.

Definition offset_slice_indices_lsb0 (key : pyslice) (len : Z) : res pyslice :=
  do3 (start, stop, step) <- indices key len;
  if step <? 0 then
    (* fix D15a: items = len(range(start, -1 if stop is None else stop, step)) *)
    let items := range_len start (match stop with None => -1 | Some s => s end) step in
    if items =? 0 then Ok (mkslice (Some 0) (Some 0) (s_step key)) else
    let first_element := start in
    let last_element := start + (items - 1) * step in
    let new_start := len - 1 - last_element in
    let new_stop := len - 1 - first_element - 1 in
    Ok (mkslice (Some new_start) (if new_stop <? 0 then None else Some new_stop) (s_step key))
  else
    match stop with
    | None => Err TypeError        (* `None <= start` is Python's TypeError; unreachable: stop is None only for negative steps *)
    | Some stop =>
        if stop <=? start then Ok (mkslice (Some (len - start)) (Some (len - start)) (s_step key)) else
        let first_element := start in
        let last_element := start + ((stop - 1 - start) / step) * step in
        Ok (mkslice (Some (len - last_element - 1)) (Some (len - first_element)) (s_step key))
    end.

(* ---------------- BitStore accessors ---------------- *)
Definition getindex_msb0 (b : bits) (i : Z) : res bool := seq_getitem b i.
Definition getindex_lsb0 (b : bits) (i : Z) : res bool := seq_getitem b (- i - 1).
Definition getindex (lsb0 : bool) := if lsb0 then getindex_lsb0 else getindex_msb0.

Definition getslice_withstep_msb0 (b : bits) (k : pyslice) : res bits := seq_slice false b k.
Definition getslice_withstep_lsb0 (b : bits) (k : pyslice) : res bits :=
  do k' <- offset_slice_indices_lsb0 k (zlen b); seq_slice false b k'.
Definition getslice_withstep (lsb0 : bool) := if lsb0 then getslice_withstep_lsb0 else getslice_withstep_msb0.

Definition getslice_msb0 (b : bits) (start stop : option Z) : res bits :=
  seq_slice false b (mkslice start stop None).
Definition getslice_lsb0 (b : bits) (start stop : option Z) : res bits :=
  do s <- offset_slice_indices_lsb0 (mkslice start stop None) (zlen b);
  seq_slice false b (mkslice (s_start s) (s_stop s) None).
Definition getslice (lsb0 : bool) := if lsb0 then getslice_lsb0 else getslice_msb0.

(* __setitem__ with a slice key and a BitStore value / an int key and 0|1 *)
Definition setslice_msb0 (b : bits) (k : pyslice) (v : bits) : res bits := ba_setslice b k v.
Definition setslice_lsb0 (b : bits) (k : pyslice) (v : bits) : res bits :=
  do k' <- offset_slice_indices_lsb0 k (zlen b); ba_setslice b k' v.
Definition setslice (lsb0 : bool) := if lsb0 then setslice_lsb0 else setslice_msb0.

Definition setbit_msb0 (b : bits) (i : Z) (x : bool) : res bits := ba_setitem b i x.
Definition setbit_lsb0 (b : bits) (i : Z) (x : bool) : res bits := ba_setitem b (- i - 1) x.
Definition setbit (lsb0 : bool) := if lsb0 then setbit_lsb0 else setbit_msb0.

Definition delslice_msb0 (b : bits) (k : pyslice) : res bits := ba_delslice b k.
Definition delslice_lsb0 (b : bits) (k : pyslice) : res bits :=
  do k' <- offset_slice_indices_lsb0 k (zlen b); ba_delslice b k'.
Definition delslice (lsb0 : bool) := if lsb0 then delslice_lsb0 else delslice_msb0.

Definition delbit_msb0 (b : bits) (i : Z) : res bits := ba_delitem b i.
Definition delbit_lsb0 (b : bits) (i : Z) : res bits := ba_delitem b (- i - 1).
Definition delbit (lsb0 : bool) := if lsb0 then delbit_lsb0 else delbit_msb0.

Definition invert_at (lsb0 : bool) (b : bits) (i : Z) : res bits :=
  ba_invert_at b (if lsb0 then - i - 1 else i).

(* ---------------- Bits: sequence protocol ---------------- *)
Definition bs_len (b : bits) : Z := zlen b.
Definition bs_bool (b : bits) : bool := negb (zlen b =? 0).
Definition bs_getitem_int (lsb0 : bool) (b : bits) (i : Z) : res bool := getindex lsb0 b i.
Definition bs_getitem_slice (lsb0 : bool) (b : bits) (k : pyslice) : res bits := getslice_withstep lsb0 b k.

(* BitStore.__iter__: for i in range(len(self)): yield self.getindex(i) *)
Fixpoint iter_from (lsb0 : bool) (b : bits) (i : Z) (n : nat) : res (list bool) :=
  match n with
  | O => Ok []
  | S n' => do x <- getindex lsb0 b i; do xs <- iter_from lsb0 b (i + 1) n'; Ok (x :: xs)
  end.
Definition bs_iter (lsb0 : bool) (b : bits) : res (list bool) := iter_from lsb0 b 0 (length b).

(* __add__: s = self._copy() if len(bs) <= len(self) else bs._copy();
            then s._addright(bs) or s._addleft(self) *)
Definition addright (s bs : bits) : bits := s ++ bs.
Definition addleft (s bs : bits) : bits := bs ++ s.
Definition bs_add (self bs : bits) : bits :=
  if zlen bs <=? zlen self then addright self bs else addleft bs self.
Definition bs_radd (self bs : bits) : bits := bs_add bs self.

(* classes: the result of __add__ is self._copy() or bs._copy() where
   bs = self.__class__._create_from_bitstype(bs) keeps bs when it already is an instance *)
Inductive cls := CBits | CBitArray | CConstBitStream | CBitStream.
Definition subclass (a b : cls) : bool :=   (* isinstance(an a, b) *)
  match a, b with
  | _, CBits => true
  | CBitArray, CBitArray | CBitStream, CBitArray => true
  | CConstBitStream, CConstBitStream | CBitStream, CConstBitStream => true
  | CBitStream, CBitStream => true
  | _, _ => false
  end.
(* other = None: a str/bytes/iterable operand *)
Definition create_from_bitstype_class (target : cls) (other : option cls) : cls :=
  match other with
  | Some o => if subclass o target then o else target
  | None => target
  end.
Definition bs_add_class (self : cls) (other : option cls) (len_self len_other : Z) : cls :=
  let bcls := create_from_bitstype_class self other in
  if len_other <=? len_self then self else self.   (* fix D1 (repo commit 'fix: __add__ ...'): the copy of the longer right operand is built as self.__class__ *)

(* _imul(n): m = 1; while m*2 < n: self += self; m *= 2;  self += self[0:(n-m)*old_len] *)
Fixpoint imul_loop (fuel : nat) (s : bits) (m n : Z) : res (bits * Z) :=
  match fuel with
  | O => Err OutOfFuel
  | S f => if m * 2 <? n then imul_loop f (addright s s) (m * 2) n else Ok (s, m)
  end.
Definition imul_fuel (n : Z) : nat := S (Z.to_nat (Z.log2_up n)).
Definition imul (lsb0 : bool) (self : bits) (n : Z) : res bits :=
  if n <? 0 then Err AssertionError else
  if n =? 0 then Ok [] else
  let old_len := zlen self in
  do2 (s, m) <- imul_loop (imul_fuel n) self 1 n;
  do t <- bs_getitem_slice lsb0 s (mkslice (Some 0) (Some ((n - m) * old_len)) None);
  Ok (addright s t).
Definition bs_mul (lsb0 : bool) (self : bits) (n : Z) : res bits :=
  if n <? 0 then Err ValueError else
  if n =? 0 then Ok [] else imul lsb0 self n.

(* ---------------- bit-wise operators ---------------- *)
Fixpoint map2 {A} (f : A -> A -> A) (a b : list A) : list A :=
  match a, b with x :: a', y :: b' => f x y :: map2 f a' b' | _, _ => [] end.
(* bitarray & | ^ : ValueError on a length mismatch *)
Definition ba_bitop (f : bool -> bool -> bool) (a b : bits) : res bits :=
  if zlen a =? zlen b then Ok (map2 f a b) else Err ValueError.
(* Bits.__and__/__or__: `if bs is self: return self.copy()`; __xor__ has no shortcut *)
Definition bs_and (same_object : bool) (a b : bits) : res bits :=
  if same_object then Ok a else ba_bitop andb a b.
Definition bs_or (same_object : bool) (a b : bits) : res bits :=
  if same_object then Ok a else ba_bitop orb a b.
Definition bs_xor (a b : bits) : res bits := ba_bitop xorb a b.
Definition bs_invert (a : bits) : res bits :=
  if zlen a =? 0 then Err BsError else Ok (map negb a).

(* _absolute_slice(start, end): always msb0 *)
Definition absolute_slice (b : bits) (s e : Z) : res bits :=
  if e =? s then Ok [] else
  if s <? e then getslice_msb0 b (Some s) (Some e) else Err AssertionError.

Definition bs_lshift (b : bits) (n : Z) : res bits :=
  if n <? 0 then Err ValueError else
  if zlen b =? 0 then Err ValueError else
  let n := Z.min n (zlen b) in
  do s <- absolute_slice b n (zlen b);
  Ok (addright s (repeat false (Z.to_nat n))).

Definition bs_rshift (b : bits) (n : Z) : res bits :=
  if n <? 0 then Err ValueError else
  if zlen b =? 0 then Err ValueError else
  if n =? 0 then Ok b else
  let s := repeat false (Z.to_nat (Z.min n (zlen b))) in
  let n := Z.min n (zlen b) in
  do t <- absolute_slice b 0 (zlen b - n);
  Ok (addright s t).

(* _truncateleft(bits) / _truncateright(bits): new content (the returned bits are not modelled) *)
Definition truncateleft (b : bits) (n : Z) : res bits :=
  if (n <? 0) || (n >? zlen b) then Err AssertionError else
  if n =? 0 then Ok b else
  if n =? zlen b then Ok [] else getslice_msb0 b (Some n) None.
Definition truncateright (b : bits) (n : Z) : res bits :=
  if (n <? 0) || (n >? zlen b) then Err AssertionError else
  if n =? 0 then Ok b else
  if n =? zlen b then Ok [] else getslice_msb0 b None (Some (- n)).

(* BitArray.__ilshift__/__irshift__ and Bits._ilshift/_irshift *)
Definition bs_ilshift (b : bits) (n : Z) : res bits :=
  if n <? 0 then Err ValueError else
  if zlen b =? 0 then Err ValueError else
  if n =? 0 then Ok b else
  let n := Z.min n (zlen b) in
  if (0 <? n) && (n <=? zlen b) then truncateleft (addright b (repeat false (Z.to_nat n))) n
  else Err AssertionError.
Definition bs_irshift (b : bits) (n : Z) : res bits :=
  if n <? 0 then Err ValueError else
  if zlen b =? 0 then Err ValueError else
  if n =? 0 then Ok b else
  let n := Z.min n (zlen b) in
  if (0 <? n) && (n <=? zlen b) then truncateright (addleft b (repeat false (Z.to_nat n))) n
  else Err AssertionError.

(* in-place & | ^ : BitArray.__iand__ etc (no self shortcut) *)
Definition bs_iand := ba_bitop andb.
Definition bs_ior := ba_bitop orb.
Definition bs_ixor := ba_bitop xorb.

(* _validate_slice(start, end) *)
Definition validate_slice (b : bits) (start stop : option Z) : res (Z * Z) :=
  let len := zlen b in
  let s := match start with None => 0 | Some v => if v <? 0 then v + len else v end in
  let e := match stop with None => len | Some v => if v <? 0 then v + len else v end in
  if (0 <=? s) && (s <=? e) && (e <=? len) then Ok (s, e) else Err ValueError.
