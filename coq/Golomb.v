(* Golomb.v — hand model of the exp-Golomb codecs of /repo, function by function.
   bitstring/bitstore_helpers.py: ue2bitstore se2bitstore uie2bitstore sie2bitstore int2bitstore
   bitstring/bits.py: _readue _readse _readuie _readsie _getue.. (whole-bitstring wrappers)
   bitstring/dtypes.py: variable-length read_fn / length_checked_get_fn wrappers.
   The arithmetic kernels are ALSO regenerated from source (GenGolomb.v) and bridged
   (Bridge/BridgeGolomb.v). *)
From BS Require Import Prims.
Open Scope Z_scope.

(* int2bitstore(i, length, signed): int2ba, OverflowError diagnosed into CreationError(ValueError);
   an OverflowError that the diagnosis does not explain is re-raised. *)
Definition int2bitstore (i n : Z) (signed : bool) : res bits :=
  match int2ba i n signed with
  | Ok b => Ok b
  | Err OverflowError =>
      if signed then
        if (i >=? Z.shiftl 1 (n - 1)) || (i <? - Z.shiftl 1 (n - 1)) then Err ValueError
        else Err OverflowError
      else
        if i >=? Z.shiftl 1 n then Err ValueError
        else if i <? 0 then Err ValueError
        else Err OverflowError
  | Err e => Err e
  end.

(* while tmp > 0: tmp >>= 1; leadingzeros += 1 *)
Fixpoint ue_lz_loop (fuel : nat) (tmp lz : Z) : res Z :=
  match fuel with
  | O => Err OutOfFuel
  | S f => if tmp >? 0 then ue_lz_loop f (Z.shiftr tmp 1) (lz + 1) else Ok lz
  end.

Definition ue_fuel (i : Z) : nat := S (S (Z.to_nat (Z.log2 (i + 1)))).

Definition ue2bitstore (i : Z) : res bits :=
  if i <? 0 then Err ValueError else
  if i =? 0 then Ok [true] else
  do lz <- ue_lz_loop (ue_fuel i) (i + 1) (-1);
  let remainingpart := i + 1 - Z.shiftl 1 lz in
  do r <- int2bitstore remainingpart lz false;
  Ok ((repeat false (Z.to_nat lz) ++ [true]) ++ r).

Definition se2bitstore (i : Z) : res bits :=
  let u := if i >? 0 then i * 2 - 1 else -2 * i in
  ue2bitstore u.

(* bin(p)[3:] — binary digits after the leading one *)
Fixpoint pos_bits (p : positive) : bits :=
  match p with
  | xH => [true]
  | xO q => pos_bits q ++ [false]
  | xI q => pos_bits q ++ [true]
  end.

(* '0'.join(ds) *)
Fixpoint join0 (ds : bits) : bits :=
  match ds with
  | [] => []
  | [d] => [d]
  | d :: t => d :: false :: join0 t
  end.

Definition uie2bitstore (i : Z) : res bits :=
  if i <? 0 then Err ValueError else
  if i =? 0 then Ok [true] else
  Ok (false :: join0 (tl (pos_bits (Z.to_pos (i + 1)))) ++ [true]).

Definition sie2bitstore (i : Z) : res bits :=
  if i =? 0 then Ok [true] else
  do u <- uie2bitstore (Z.abs i);
  Ok (u ++ [if i <? 0 then true else false]).

(* ---------- decoders ---------- *)
(* self[pos] : IndexError outside, negative index wraps (Python) *)
Definition getbit (b : bits) (pos : Z) : res bool := seq_getitem b pos.

(* while not self[pos]: pos += 1   (IndexError -> ReadError) *)
Fixpoint skip_zeros (fuel : nat) (b : bits) (pos : Z) : res Z :=
  match fuel with
  | O => Err OutOfFuel
  | S f => match getbit b pos with
           | Err _ => Err ReadError
           | Ok true => Ok pos
           | Ok false => skip_zeros f b (pos + 1)
           end
  end.

Definition getuint (b : bits) : res Z :=
  if zlen b =? 0 then Err ValueError else ba2int b false.

Definition readue (b : bits) (pos : Z) : res (Z * Z) :=
  let oldpos := pos in
  do pos <- skip_zeros (S (length b)) b pos;
  let leadingzeros := pos - oldpos in
  let codenum := Z.shiftl 1 leadingzeros - 1 in
  if leadingzeros >? 0 then
    if pos + leadingzeros + 1 >? zlen b then Err ReadError else
    do u <- getuint (sub b (pos + 1) (pos + 1 + leadingzeros));
    Ok (codenum + u, pos + leadingzeros + 1)
  else
    if codenum =? 0 then Ok (codenum, pos + 1) else Err AssertionError.

Definition readse (b : bits) (pos : Z) : res (Z * Z) :=
  do2 (codenum, pos) <- readue b pos;
  let m := (codenum + 1) / 2 in
  Ok (if codenum mod 2 =? 0 then (- m, pos) else (m, pos)).

(* codenum = 1; while not self[pos]: pos += 1; codenum <<= 1; codenum += self[pos]; pos += 1
   pos += 1; any IndexError -> ReadError *)
Fixpoint readuie_loop (fuel : nat) (b : bits) (pos codenum : Z) : res (Z * Z) :=
  match fuel with
  | O => Err OutOfFuel
  | S f => match getbit b pos with
           | Err _ => Err ReadError
           | Ok true => Ok (codenum - 1, pos + 1)
           | Ok false =>
               match getbit b (pos + 1) with
               | Err _ => Err ReadError
               | Ok d => readuie_loop f b (pos + 2) (Z.shiftl codenum 1 + (if d then 1 else 0))
               end
           end
  end.

Definition readuie (b : bits) (pos : Z) : res (Z * Z) := readuie_loop (S (length b)) b pos 1.

Definition readsie (b : bits) (pos : Z) : res (Z * Z) :=
  do2 (codenum, pos) <- readuie b pos;
  if codenum =? 0 then Ok (0, pos) else
  match getbit b pos with
  | Err _ => Err ReadError
  | Ok s => Ok (if s then (- codenum, pos + 1) else (codenum, pos + 1))
  end.

(* whole-bitstring properties  s.ue  etc:  _getue maps ReadError to InterpretError (ValueError);
   DtypeDefinition.length_checked_get_fn raises ValueError when the code is not the whole string *)
Definition get_whole (rd : bits -> Z -> res (Z * Z)) (b : bits) : res Z :=
  match rd b 0 with
  | Err ReadError => Err ValueError
  | Err e => Err e
  | Ok (x, n) => if n =? zlen b then Ok x else Err ValueError
  end.

(* DtypeDefinition variable-length read_fn(bs, start):  get_fn(bs[start:]) , InterpretError -> ReadError,
   result (x, start + length).  bs[start:] is a Python slice. *)
Definition read_fn_var (rd : bits -> Z -> res (Z * Z)) (b : bits) (start : Z) : res (Z * Z) :=
  match seq_slice false b (mkslice (Some start) None None) with
  | Err e => Err e
  | Ok tail =>
      match rd tail 0 with
      | Err ReadError => Err ReadError   (* _getue: ReadError -> InterpretError; read_fn: InterpretError -> ReadError *)
      | Err e => Err e
      | Ok (x, n) => Ok (x, start + n)
      end
  end.

Inductive gcode := UE | SE | UIE | SIE.

Definition g_enc (c : gcode) : Z -> res bits :=
  match c with UE => ue2bitstore | SE => se2bitstore | UIE => uie2bitstore | SIE => sie2bitstore end.
Definition g_read (c : gcode) : bits -> Z -> res (Z * Z) :=
  match c with UE => readue | SE => readse | UIE => readuie | SIE => readsie end.
