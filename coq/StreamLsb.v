(* StreamLsb.v — C06 (and the stream part of C12) for BOTH bit orders: the mode-parametric stream machine [step_m lsb0] over (bits, pos).
   Reads go through LsbPack.v's mode-dependent readers, mutators through the mode-dependent content functions of Mutators.v /
   Search.v; the pos updates are those of bitstream.py, which never look at options.lsb0.
   Validation: v01-v120 and ex_hist_run (right-hand sides printed by the library with lsb0 = True).
   Main theorems: step_m_false / run_m_false (1), step_m_valid / run_m_valid (2), failing_step_m_restores / peeks_pure_m (3),
   step_mirror / run_mirror / run_m_mirror / golomb_refused_lsb0 / setitem_slice_int_lsb0 (4, stretch), mutator_pos_rules (5). *)
From Coq Require Import ZArith List Bool Lia ZifyBool String.
From BS Require Import Prims BitsCore SeqProofs Search Mutators MutSpec MutProofs MutProofs2 Golomb GolombSpec GolombProofs Stream StreamProofs RangeLemmas
  SearchProofs FastPath SearchTop StoreProofs StreamHistory MirrorProofs LsbMutators MirrorStep LsbSearch LsbSplit LsbPack.
Open Scope Z_scope.

(* ================= the machine ================= *)
(* readto(bs, bytealigned): find (mode-dependent) from pos, then pos += len(bs), then self._slice(oldpos, pos) (mode-dependent) *)
Definition readto_m (lsb0 : bool) (s : stream) (p : bits) (ba : bool) : stream * res bits :=
  let oldpos := spos s in
  match st_find lsb0 s p (Some oldpos) None ba with
  | (s', Ok (Some q)) =>
      let newpos := q + zlen p in
      match getslice lsb0 (sbits s) (Some oldpos) (Some newpos) with
      | Ok sl => (mkstream (sbits s) newpos, Ok sl)
      | Err e => (mkstream (sbits s) newpos, Err e)
      end
  | (s', Ok None) => (s', Err ReadError)
  | (s', Err e) => (s', Err e)
  end.

(* BitStream.append / += : self._append(bs) (the table swaps _addright / _addleft); self._pos = len(self) *)
Definition st_append_m (lsb0 : bool) (s : stream) (bs : bits) : stream * res unit :=
  let b' := ba_append lsb0 (sbits s) bs in (mkstream b' (zlen b'), Ok tt).
(* BitStream.prepend: super().prepend(bs); self._pos = 0 *)
Definition st_prepend_m (lsb0 : bool) (s : stream) (bs : bits) : stream * res unit :=
  (mkstream (ba_prepend lsb0 (sbits s) bs) 0, Ok tt).
(* BitStream.insert(bs, pos=None): self._insert(bs, pos); self._pos = pos + len(bs) *)
Definition st_insert_m (lsb0 : bool) (s : stream) (bs : bits) (pos : option Z) : stream * res unit :=
  let p := match pos with None => spos s | Some v => v end in
  let p := if p <? 0 then p + zlen (sbits s) else p in
  if (0 <=? p) && (p <=? zlen (sbits s)) then
    (if zlen bs =? 0 then (s, Ok tt) else on_content s (insert_ lsb0 (sbits s) bs p) (fun _ => p + zlen bs))
  else (s, Err ValueError).
(* BitStream.overwrite(bs, pos=None): self._overwrite(bs, pos); self._pos = pos + length *)
Definition st_overwrite_m (lsb0 : bool) (s : stream) (same_object : bool) (bs : bits) (pos : option Z) : stream * res unit :=
  let p := match pos with None => spos s | Some v => v end in
  let p := if p <? 0 then p + zlen (sbits s) else p in
  if (p <? 0) || (p >? zlen (sbits s)) then (s, Err ValueError)
  else if zlen bs =? 0 then (s, Ok tt) else on_content s (overwrite_ lsb0 same_object (sbits s) bs p) (fun _ => p + zlen bs).
(* __setitem__ / __delitem__ / replace: the BitArray operation, then pos = 0 iff the length changed *)
Definition st_setitem_int_m (lsb0 : bool) (s : stream) (key : Z) (v : setval) := reset_if_len_changed s (ba_setitem_int lsb0 (sbits s) key v).
Definition st_setitem_slice_m (lsb0 : bool) (s : stream) (k : pyslice) (v : setval) := reset_if_len_changed s (ba_setitem_slice lsb0 (sbits s) k v).
Definition st_delitem_int_m (lsb0 : bool) (s : stream) (key : Z) := reset_if_len_changed s (ba_delitem_int lsb0 (sbits s) key).
Definition st_delitem_slice_m (lsb0 : bool) (s : stream) (k : pyslice) := reset_if_len_changed s (ba_delitem_slice lsb0 (sbits s) k).
Definition st_replace_m (lsb0 : bool) (s : stream) (old new_ : bits) (start stop : option Z) (count : option Z) (ba : bool) : stream * res Z :=
  match ba_replace lsb0 (sbits s) old new_ start stop count ba with
  | Ok (b', n) => (mkstream b' (if zlen b' =? zlen (sbits s) then spos s else 0), Ok n)
  | Err e => (s, Err e)
  end.
Definition st_imul_m (lsb0 : bool) (s : stream) (n : Z) : stream * res unit :=
  match ba_imul lsb0 (sbits s) n with
  | Ok b' => (mkstream b' (if n =? 0 then 0 else spos s), Ok tt)
  | Err e => (s, Err e)
  end.

Definition okb {A} (r : res A) : bool := match r with Ok _ => true | Err _ => false end.

(* the state after one operation of StreamHistory.v's language, and whether it succeeded *)
Definition step_m (lsb0 : bool) (s : stream) (op : sop) : stream * bool :=
  match op with
  | ORead t => let '(s', r) := read_token_m lsb0 s t in (s', okb r)
  | OPeek t => let '(s', r) := peek_token_m lsb0 s t in (s', okb r)
  | OReadlist ts => let '(s', r) := readlist_m lsb0 s ts in (s', okb r)
  | OPeeklist ts => let '(s', r) := peeklist_m lsb0 s ts in (s', okb r)
  | OSetPos p => let '(s', r) := set_pos s p in (s', okb r)
  | OSetBytepos p => let '(s', r) := set_bytepos s p in (s', okb r)
  | OBytealign => let '(s', r) := bytealign s in (s', okb r)
  | OFind p a b ba => let '(s', r) := st_find lsb0 s p a b ba in (s', okb r)
  | ORfind p a b ba => let '(s', r) := st_rfind lsb0 s p a b ba in (s', okb r)
  | OReadto p ba => let '(s', r) := readto_m lsb0 s p ba in (s', okb r)
  | OAppend bs => let '(s', r) := st_append_m lsb0 s bs in (s', okb r)
  | OPrepend bs => let '(s', r) := st_prepend_m lsb0 s bs in (s', okb r)
  | OInsert bs pos => let '(s', r) := st_insert_m lsb0 s bs pos in (s', okb r)
  | OOverwrite bs pos => let '(s', r) := st_overwrite_m lsb0 s false bs pos in (s', okb r)
  | OOverwriteSelf pos => let '(s', r) := st_overwrite_m lsb0 s true (sbits s) pos in (s', okb r)
  | OSetitemInt key v => let '(s', r) := st_setitem_int_m lsb0 s key v in (s', okb r)
  | OSetitemSlice k v => let '(s', r) := st_setitem_slice_m lsb0 s k v in (s', okb r)
  | ODelitemInt key => let '(s', r) := st_delitem_int_m lsb0 s key in (s', okb r)
  | ODelitemSlice k => let '(s', r) := st_delitem_slice_m lsb0 s k in (s', okb r)
  | OReplace o n a b c ba => let '(s', r) := st_replace_m lsb0 s o n a b c ba in (s', okb r)
  | OClear => let '(s', r) := st_clear s in (s', okb r)
  | OImul n => let '(s', r) := st_imul_m lsb0 s n in (s', okb r)
  end.
Definition run_m (lsb0 : bool) (s : stream) (ops : list sop) : stream := fold_left (fun st op => fst (step_m lsb0 st op)) ops s.

(* ================= validation against the library with bitstring.options.lsb0 = True ================= *)
Definition S (d : string) (p : Z) : stream := mkstream (of01 d) p.
Definition B (d : string) : bits := of01 d.
(* 120 (stream, operation) pairs, every expected right-hand side printed by the library itself (gen_cases.py: BitStream(bin=d, pos=p), the
   call, then s.bin / s.pos / the value or the exception): reads of every token kind at several positions, stretchy tokens, readlist /
   peeklist, pos / bytepos / bytealign, find / rfind / readto, insert / overwrite (pos=None, explicit, negative, out of range, of itself),
   append, prepend, del s[..], s[..] = x, replace, *=, clear. *)
(* generated by gen_cases.py from the library run with bitstring.options.lsb0 = True *)
Example v01 : read_token_m true (S "101100111000101101001110" 0) (TFixed KUint 5) = (S "101100111000101101001110" 5, Ok (ValZ 14)).
Proof. vm_compute. reflexivity. Qed.
Example v02 : read_token_m true (S "101100111000101101001110" 7) (TFixed KUint 5) = (S "101100111000101101001110" 12, Ok (ValZ 22)).
Proof. vm_compute. reflexivity. Qed.
Example v03 : read_token_m true (S "101100111000101101001110" 3) (TFixed KInt 6) = (S "101100111000101101001110" 9, Ok (ValZ (-23))).
Proof. vm_compute. reflexivity. Qed.
Example v04 : read_token_m true (S "101100111000101101001110" 2) (TFixed KBin 4) = (S "101100111000101101001110" 6, Ok (ValBits (B "0011"))).
Proof. vm_compute. reflexivity. Qed.
Example v05 : read_token_m true (S "101100111000101101001110" 4) (TFixed KHex 8) = (S "101100111000101101001110" 12, Ok (ValBits (B "10110100"))).
Proof. vm_compute. reflexivity. Qed.
Example v06 : read_token_m true (S "101100111000101101001110" 9) (TFixed KBytes 1) = (S "101100111000101101001110" 17, Ok (ValBits (B "11000101"))).
Proof. vm_compute. reflexivity. Qed.
Example v07 : read_token_m true (S "101100111000101101001110" 5) (TFixed KBool 1) = (S "101100111000101101001110" 6, Ok (ValBool false)).
Proof. vm_compute. reflexivity. Qed.
Example v08 : read_token_m true (S "101100111000101101001110" 6) (TFixed KBool 1) = (S "101100111000101101001110" 7, Ok (ValBool true)).
Proof. vm_compute. reflexivity. Qed.
Example v09 : read_token_m true (S "101100111000101101001110" 10) (TFixed KBits 7) = (S "101100111000101101001110" 17, Ok (ValBits (B "1100010"))).
Proof. vm_compute. reflexivity. Qed.
Example v10 : read_token_m true (S "101100111000101101001110" 1) (TFixed KPad 3) = (S "101100111000101101001110" 4, Ok (ValNone)).
Proof. vm_compute. reflexivity. Qed.
Example v11 : read_token_m true (S "101100111000101101001110" 13) (TCount 6) = (S "101100111000101101001110" 19, Ok (ValBits (B "011100"))).
Proof. vm_compute. reflexivity. Qed.
Example v12 : read_token_m true (S "101100111000101101001110" 0) (TVar UE) = (S "101100111000101101001110" 0, Err ReadError).
Proof. vm_compute. reflexivity. Qed.
Example v13 : read_token_m true (S "101100111000101101001110" 4) (TVar SIE) = (S "101100111000101101001110" 4, Err ReadError).
Proof. vm_compute. reflexivity. Qed.
Example v14 : read_token_m true (S "101100111000101101001110" 20) (TFixed KUint 9) = (S "101100111000101101001110" 20, Err ReadError).
Proof. vm_compute. reflexivity. Qed.
Example v15 : read_token_m true (S "101100111000101101001110" 20) (TCount 5) = (S "101100111000101101001110" 20, Err ReadError).
Proof. vm_compute. reflexivity. Qed.
Example v16 : read_token_m true (S "101100111000101101001110" 17) (TStretch KBin) = (S "101100111000101101001110" 24, Ok (ValBits (B "1011001"))).
Proof. vm_compute. reflexivity. Qed.
Example v17 : read_token_m true (S "101100111000101101001110" 3) (TStretch KHex) = (S "101100111000101101001110" 3, Err ValueError).
Proof. vm_compute. reflexivity. Qed.
Example v18 : read_token_m true (S "101100111000101101001110" 8) (TStretch KBytes) = (S "101100111000101101001110" 24, Ok (ValBits (B "1011001110001011"))).
Proof. vm_compute. reflexivity. Qed.
Example v19 : read_token_m true (S "101100111000101101001110" 19) (TStretch KUint) = (S "101100111000101101001110" 24, Ok (ValZ 22)).
Proof. vm_compute. reflexivity. Qed.
Example v20 : read_token_m true (S "101100111000101101001110" 24) (TStretch KUint) = (S "101100111000101101001110" 24, Err ValueError).
Proof. vm_compute. reflexivity. Qed.
Example v21 : peek_token_m true (S "101100111000101101001110" 6) (TFixed KUint 4) = (S "101100111000101101001110" 6, Ok (ValZ 13)).
Proof. vm_compute. reflexivity. Qed.
Example v22 : peek_token_m true (S "101100111000101101001110" 22) (TFixed KInt 4) = (S "101100111000101101001110" 22, Err ReadError).
Proof. vm_compute. reflexivity. Qed.
Example v23 : readlist_m true (S "101100111000101101001110" 2) [TFixed KUint 3; TStretch KBin; TFixed KInt 4] = (S "101100111000101101001110" 24, Ok ([ValZ 3; ValBits (B "001110001011010"); ValZ (-5)])).
Proof. vm_compute. reflexivity. Qed.
Example v24 : readlist_m true (S "101100111000101101001110" 3) [TFixed KBits 4; TStretch KBytes; TFixed KBool 1] = (S "101100111000101101001110" 24, Ok ([ValBits (B "1001"); ValBits (B "0110011100010110"); ValBool true])).
Proof. vm_compute. reflexivity. Qed.
Example v25 : readlist_m true (S "101100111000101101001110" 1) [TFixed KBits 4; TStretch KBytes; TFixed KBool 1] = (S "101100111000101101001110" 1, Err ValueError).
Proof. vm_compute. reflexivity. Qed.
Example v26 : readlist_m true (S "101100111000101101001110" 0) [TFixed KUint 10; TFixed KUint 20] = (S "101100111000101101001110" 0, Err ReadError).
Proof. vm_compute. reflexivity. Qed.
Example v27 : readlist_m true (S "101100111000101101001110" 5) [TFixed KHex 4; TFixed KPad 2; TCount 3; TFixed KBool 1] = (S "101100111000101101001110" 15, Ok ([ValBits (B "1010"); ValBits (B "001"); ValBool false])).
Proof. vm_compute. reflexivity. Qed.
Example v28 : readlist_m true (S "101100111000101101001110" 5) [TFixed KUint 2; TVar UE] = (S "101100111000101101001110" 5, Err ReadError).
Proof. vm_compute. reflexivity. Qed.
Example v29 : readlist_m true (S "101100111000101101001110" 20) [TStretch KUint; TFixed KUint 6] = (S "101100111000101101001110" 20, Err ValueError).
Proof. vm_compute. reflexivity. Qed.
Example v30 : peeklist_m true (S "101100111000101101001110" 4) [TFixed KInt 3; TStretch KBits; TFixed KUint 2] = (S "101100111000101101001110" 4, Ok ([ValZ (-4); ValBits (B "110011100010110"); ValZ 2])).
Proof. vm_compute. reflexivity. Qed.
Example v31 : bytealign (S "1011001110001011010011" 3) = (S "1011001110001011010011" 8, Ok (5)).
Proof. vm_compute. reflexivity. Qed.
Example v32 : bytealign (S "1011001110001011010011" 16) = (S "1011001110001011010011" 16, Ok (0)).
Proof. vm_compute. reflexivity. Qed.
Example v33 : bytealign (S "1011001110001011010011" 20) = (S "1011001110001011010011" 20, Err ValueError).
Proof. vm_compute. reflexivity. Qed.
Example v34 : set_pos (S "1011001110001011010011" 3) 22 = (S "1011001110001011010011" 22, Ok tt).
Proof. vm_compute. reflexivity. Qed.
Example v35 : set_pos (S "1011001110001011010011" 3) 23 = (S "1011001110001011010011" 3, Err ValueError).
Proof. vm_compute. reflexivity. Qed.
Example v36 : set_bytepos (S "1011001110001011010011" 3) 2 = (S "1011001110001011010011" 16, Ok tt).
Proof. vm_compute. reflexivity. Qed.
Example v37 : set_bytepos (S "1011001110001011010011" 3) 3 = (S "1011001110001011010011" 3, Err ValueError).
Proof. vm_compute. reflexivity. Qed.
Example v38 : st_find true (S "101100111000101101001110" 5) (B "111") None None false = (S "101100111000101101001110" 1, Ok ((Some 1))).
Proof. vm_compute. reflexivity. Qed.
Example v39 : st_find true (S "101100111000101101001110" 5) (B "1011") None None false = (S "101100111000101101001110" 8, Ok ((Some 8))).
Proof. vm_compute. reflexivity. Qed.
Example v40 : st_find true (S "101100111000101101001110" 5) (B "1011") (Some 8) (Some 22) false = (S "101100111000101101001110" 8, Ok ((Some 8))).
Proof. vm_compute. reflexivity. Qed.
Example v41 : st_find true (S "101100111000101101001110" 5) (B "10") (Some 3) None true = (S "101100111000101101001110" 5, Ok (None)).
Proof. vm_compute. reflexivity. Qed.
Example v42 : st_find true (S "101100111000101101001110" 5) (B "0000") None None false = (S "101100111000101101001110" 5, Ok (None)).
Proof. vm_compute. reflexivity. Qed.
Example v43 : st_find true (S "101100111000101101001110" 5) (B "") None None false = (S "101100111000101101001110" 5, Err ValueError).
Proof. vm_compute. reflexivity. Qed.
Example v44 : st_find true (S "101100111000101101001110" 5) (B "1") (Some 9) (Some 4) false = (S "101100111000101101001110" 5, Err ValueError).
Proof. vm_compute. reflexivity. Qed.
Example v45 : st_rfind true (S "101100111000101101001110" 5) (B "111") None None false = (S "101100111000101101001110" 15, Ok ((Some 15))).
Proof. vm_compute. reflexivity. Qed.
Example v46 : st_rfind true (S "101100111000101101001110" 5) (B "1011") (Some 2) (Some (-3)) false = (S "101100111000101101001110" 8, Ok ((Some 8))).
Proof. vm_compute. reflexivity. Qed.
Example v47 : st_rfind true (S "101100111000101101001110" 5) (B "01") None None true = (S "101100111000101101001110" 5, Ok (None)).
Proof. vm_compute. reflexivity. Qed.
Example v48 : readto_m true (S "101100111000101101001110" 4) (B "11") false = (S "101100111000101101001110" 10, Ok ((B "110100"))).
Proof. vm_compute. reflexivity. Qed.
Example v49 : readto_m true (S "101100111000101101001110" 0) (B "1011") false = (S "101100111000101101001110" 12, Ok ((B "101101001110"))).
Proof. vm_compute. reflexivity. Qed.
Example v50 : readto_m true (S "101100111000101101001110" 1) (B "100") true = (S "101100111000101101001110" 1, Err ReadError).
Proof. vm_compute. reflexivity. Qed.
Example v51 : readto_m true (S "101100111000101101001110" 21) (B "11") false = (S "101100111000101101001110" 21, Err ReadError).
Proof. vm_compute. reflexivity. Qed.
Example v52 : readto_m true (S "101100111000101101001110" 21) (B "") false = (S "101100111000101101001110" 21, Err ValueError).
Proof. vm_compute. reflexivity. Qed.
Example v53 : st_append_m true (S "101100111000101101001110" 5) (B "110") = (S "110101100111000101101001110" 27, Ok tt).
Proof. vm_compute. reflexivity. Qed.
Example v54 : st_prepend_m true (S "101100111000101101001110" 5) (B "110") = (S "101100111000101101001110110" 0, Ok tt).
Proof. vm_compute. reflexivity. Qed.
Example v55 : st_insert_m true (S "101100111000101101001110" 5) (B "110") None = (S "101100111000101101011001110" 8, Ok tt).
Proof. vm_compute. reflexivity. Qed.
Example v56 : st_insert_m true (S "101100111000101101001110" 5) (B "110") (Some 2) = (S "101100111000101101001111010" 5, Ok tt).
Proof. vm_compute. reflexivity. Qed.
Example v57 : st_insert_m true (S "101100111000101101001110" 5) (B "110") (Some (-3)) = (S "101110100111000101101001110" 24, Ok tt).
Proof. vm_compute. reflexivity. Qed.
Example v58 : st_insert_m true (S "101100111000101101001110" 5) (B "110") (Some 25) = (S "101100111000101101001110" 5, Err ValueError).
Proof. vm_compute. reflexivity. Qed.
Example v59 : st_insert_m true (S "101100111000101101001110" 5) (B "") (Some 2) = (S "101100111000101101001110" 5, Ok tt).
Proof. vm_compute. reflexivity. Qed.
Example v60 : st_overwrite_m true (S "101100111000101101001110" 4) false (B "11010") None = (S "101100111000101110101110" 9, Ok tt).
Proof. vm_compute. reflexivity. Qed.
Example v61 : st_overwrite_m true (S "101100111000101101001110" 4) false (B "11010") (Some 9) = (S "101100111011010101001110" 14, Ok tt).
Proof. vm_compute. reflexivity. Qed.
Example v62 : st_overwrite_m true (S "101100111000101101001110" 4) false (B "110101") (Some 20) = (S "11010100111000101101001110" 26, Ok tt).
Proof. vm_compute. reflexivity. Qed.
Example v63 : st_overwrite_m true (S "101100111000101101001110" 4) false (B "110101") (Some (-2)) = (S "1101011100111000101101001110" 28, Ok tt).
Proof. vm_compute. reflexivity. Qed.
Example v64 : st_overwrite_m true (S "101100111000101101001110" 4) false (B "1") (Some (-25)) = (S "101100111000101101001110" 4, Err ValueError).
Proof. vm_compute. reflexivity. Qed.
Example v65 : st_overwrite_m true (S "1011001110001011010011" 4) true (sbits (S "1011001110001011010011" 4)) (Some 3) = (S "1011001110001011010011011" 25, Ok tt).
Proof. vm_compute. reflexivity. Qed.
Example v66 : st_overwrite_m true (S "1011001110001011010011" 4) true (sbits (S "1011001110001011010011" 4)) (Some 0) = (S "1011001110001011010011" 22, Ok tt).
Proof. vm_compute. reflexivity. Qed.
Example v67 : st_delitem_slice_m true (S "101100111000101101001110" 9) (mkslice (Some 2) (Some 7) None) = (S "1011001110001011010" 0, Ok tt).
Proof. vm_compute. reflexivity. Qed.
Example v68 : st_delitem_slice_m true (S "101100111000101101001110" 9) (mkslice (Some 7) (Some 2) None) = (S "101100111000101101001110" 9, Ok tt).
Proof. vm_compute. reflexivity. Qed.
Example v69 : st_delitem_slice_m true (S "101100111000101101001110" 9) (mkslice None None (Some 3)) = (S "1010110010100011" 0, Ok tt).
Proof. vm_compute. reflexivity. Qed.
Example v70 : st_delitem_slice_m true (S "101100111000101101001110" 9) (mkslice (Some (-4)) None (Some (-2))) = (S "1010110110011" 0, Ok tt).
Proof. vm_compute. reflexivity. Qed.
Example v71 : st_delitem_int_m true (S "101100111000101101001110" 9) 3 = (S "10110011100010110100110" 0, Ok tt).
Proof. vm_compute. reflexivity. Qed.
Example v72 : st_delitem_int_m true (S "101100111000101101001110" 9) (-1) = (S "01100111000101101001110" 0, Ok tt).
Proof. vm_compute. reflexivity. Qed.
Example v73 : st_delitem_int_m true (S "101100111000101101001110" 9) 24 = (S "101100111000101101001110" 9, Err IndexError).
Proof. vm_compute. reflexivity. Qed.
Example v74 : st_setitem_slice_m true (S "101100111000101101001110" 9) (mkslice (Some 2) (Some 7) None) (VBits (B "11")) = (S "101100111000101101110" 0, Ok tt).
Proof. vm_compute. reflexivity. Qed.
Example v75 : st_setitem_slice_m true (S "101100111000101101001110" 9) (mkslice (Some 2) (Some 7) None) (VBits (B "11010")) = (S "101100111000101101101010" 9, Ok tt).
Proof. vm_compute. reflexivity. Qed.
Example v76 : st_setitem_slice_m true (S "101100111000101101001110" 9) (mkslice (Some 4) (Some 8) None) (VInt 5) = (S "101100111000101101011110" 9, Ok tt).
Proof. vm_compute. reflexivity. Qed.
Example v77 : st_setitem_slice_m true (S "101100111000101101001110" 9) (mkslice (Some 4) (Some 8) None) (VInt 16) = (S "101100111000101101001110" 9, Err ValueError).
Proof. vm_compute. reflexivity. Qed.
Example v78 : st_setitem_slice_m true (S "101100111000101101001110" 9) (mkslice (Some 1) (Some 10) (Some 3)) (VInt 1) = (S "101100111000101111011110" 9, Ok tt).
Proof. vm_compute. reflexivity. Qed.
Example v79 : st_setitem_slice_m true (S "101100111000101101001110" 9) (mkslice (Some 1) (Some 10) (Some 3)) (VBits (B "010")) = (S "101100111000101101011100" 9, Ok tt).
Proof. vm_compute. reflexivity. Qed.
Example v80 : st_setitem_slice_m true (S "101100111000101101001110" 9) (mkslice (Some 1) (Some 10) (Some 3)) (VBits (B "01")) = (S "101100111000101101001110" 9, Err ValueError).
Proof. vm_compute. reflexivity. Qed.
Example v81 : st_setitem_int_m true (S "101100111000101101001110" 9) 3 (VInt 1) = (S "101100111000101101001110" 9, Ok tt).
Proof. vm_compute. reflexivity. Qed.
Example v82 : st_setitem_int_m true (S "101100111000101101001110" 9) 3 (VBits (B "101")) = (S "10110011100010110100101110" 0, Ok tt).
Proof. vm_compute. reflexivity. Qed.
Example v83 : st_setitem_int_m true (S "101100111000101101001110" 9) (-30) (VInt 0) = (S "101100111000101101001110" 9, Err IndexError).
Proof. vm_compute. reflexivity. Qed.
Example v84 : st_replace_m true (S "101100111000101101001110" 9) (B "10") (B "1") None None None false = (S "11101110011110111" 0, Ok (7)).
Proof. vm_compute. reflexivity. Qed.
Example v85 : st_replace_m true (S "101100111000101101001110" 9) (B "10") (B "01") None None (Some 2) false = (S "101100111000101100101101" 9, Ok (2)).
Proof. vm_compute. reflexivity. Qed.
Example v86 : st_replace_m true (S "101100111000101101001110" 9) (B "110") (B "0001") (Some 3) (Some 20) None false = (S "10110010001001000011001110" 0, Ok (2)).
Proof. vm_compute. reflexivity. Qed.
Example v87 : st_replace_m true (S "101100111000101101001110" 9) (B "0000") (B "1") None None None false = (S "101100111000101101001110" 9, Ok (0)).
Proof. vm_compute. reflexivity. Qed.
Example v88 : st_replace_m true (S "101100111000101101001110" 9) (B "") (B "1") None None None false = (S "101100111000101101001110" 9, Err ValueError).
Proof. vm_compute. reflexivity. Qed.
Example v89 : st_imul_m true (S "1011001110001011010011" 9) 3 = (S "101100111000101101001110110011100010110100111011001110001011010011" 9, Ok tt).
Proof. vm_compute. reflexivity. Qed.
Example v90 : st_imul_m true (S "1011001110001011010011" 9) 0 = (S "" 0, Ok tt).
Proof. vm_compute. reflexivity. Qed.
Example v91 : st_imul_m true (S "1011001110001011010011" 9) (-1) = (S "1011001110001011010011" 9, Err ValueError).
Proof. vm_compute. reflexivity. Qed.
Example v92 : st_clear (S "1011001110001011010011" 9) = (S "" 0, Ok tt).
Proof. vm_compute. reflexivity. Qed.
Example v93 : st_find true (S "0110100111010011010011100101101001110100" 2) (B "1101") None None true = (S "0110100111010011010011100101101001110100" 2, Ok (None)).
Proof. vm_compute. reflexivity. Qed.
Example v94 : st_find true (S "0110100111010011010011100101101001110100" 2) (B "0011") (Some 3) None true = (S "0110100111010011010011100101101001110100" 24, Ok ((Some 24))).
Proof. vm_compute. reflexivity. Qed.
Example v95 : st_rfind true (S "0110100111010011010011100101101001110100" 2) (B "0011") None (Some 37) true = (S "0110100111010011010011100101101001110100" 24, Ok ((Some 24))).
Proof. vm_compute. reflexivity. Qed.
Example v96 : st_rfind true (S "0110100111010011010011100101101001110100" 2) (B "10100111") None None true = (S "0110100111010011010011100101101001110100" 2, Ok (None)).
Proof. vm_compute. reflexivity. Qed.
Example v97 : readto_m true (S "0110100111010011010011100101101001110100" 2) (B "0011") true = (S "0110100111010011010011100101101001110100" 28, Ok ((B "00110100111001011010011101"))).
Proof. vm_compute. reflexivity. Qed.
Example v98 : readto_m true (S "0110100111010011010011100101101001110100" 9) (B "10100111") true = (S "0110100111010011010011100101101001110100" 9, Err ReadError).
Proof. vm_compute. reflexivity. Qed.
Example v99 : st_replace_m true (S "0110100111010011010011100101101001110100" 9) (B "0011") (B "111") None None None true = (S "011010011101111010011100101101001110100" 0, Ok (1)).
Proof. vm_compute. reflexivity. Qed.
Example v100 : st_replace_m true (S "0110100111010011010011100101101001110100" 9) (B "01") (B "10") (Some 5) (Some 30) (Some 3) false = (S "0110100111010011010011100110110010110100" 9, Ok (3)).
Proof. vm_compute. reflexivity. Qed.
Example v101 : st_replace_m true (S "0110100111010011010011100101101001110100" 9) (B "01") (B "10") (Some 5) (Some 30) (Some 0) false = (S "0110100111010011010011100101101001110100" 9, Ok (0)).
Proof. vm_compute. reflexivity. Qed.
Example v102 : st_replace_m true (S "0110100111010011010011100101101001110100" 9) (B "01") (B "10") (Some 30) (Some 5) None false = (S "0110100111010011010011100101101001110100" 9, Err ValueError).
Proof. vm_compute. reflexivity. Qed.
Example v103 : st_setitem_slice_m true (S "101100111000101101001110" 9) (mkslice (Some 10) (Some 1) (Some (-3))) (VBits (B "011")) = (S "101100111000111111001110" 9, Ok tt).
Proof. vm_compute. reflexivity. Qed.
Example v104 : st_setitem_slice_m true (S "101100111000101101001110" 9) (mkslice (Some 8) (Some 2) (Some (-1))) (VBits (B "011")) = (S "101100111000101101001110" 9, Err ValueError).
Proof. vm_compute. reflexivity. Qed.
Example v105 : st_setitem_slice_m true (S "101100111000101101001110" 9) (mkslice (Some 8) (Some 2) (Some (-1))) (VInt 5) = (S "101100111000101101001110" 9, Err ValueError).
Proof. vm_compute. reflexivity. Qed.
Example v106 : st_setitem_slice_m true (S "101100111000101101001110" 9) (mkslice None None None) (VInt (-2)) = (S "111111111111111111111110" 9, Ok tt).
Proof. vm_compute. reflexivity. Qed.
Example v107 : st_setitem_slice_m true (S "101100111000101101001110" 9) (mkslice (Some 5) (Some 5) None) (VInt 0) = (S "101100111000101101001110" 9, Err ValueError).
Proof. vm_compute. reflexivity. Qed.
Example v108 : st_delitem_int_m true (S "101100111000101101001110" 9) (-24) = (S "10110011100010110100111" 0, Ok tt).
Proof. vm_compute. reflexivity. Qed.
Example v109 : st_insert_m true (S "101100111000101101001110" 9) (B "01") (Some 24) = (S "01101100111000101101001110" 26, Ok tt).
Proof. vm_compute. reflexivity. Qed.
Example v110 : st_insert_m true (S "101100111000101101001110" 24) (B "01") None = (S "01101100111000101101001110" 26, Ok tt).
Proof. vm_compute. reflexivity. Qed.
Example v111 : st_overwrite_m true (S "101100111000101101001110" 0) false (B "0101") None = (S "101100111000101101000101" 4, Ok tt).
Proof. vm_compute. reflexivity. Qed.
Example v112 : st_overwrite_m true (S "101100111000101101001110" 24) false (B "0101") None = (S "0101101100111000101101001110" 28, Ok tt).
Proof. vm_compute. reflexivity. Qed.
Example v113 : st_overwrite_m true (S "1011001110001011010011" 7) true (sbits (S "1011001110001011010011" 7)) None = (S "10110011100010110100111010011" 29, Ok tt).
Proof. vm_compute. reflexivity. Qed.
Example v114 : st_append_m true (S "1011001110001011010011" 7) (sbits (S "1011001110001011010011" 7)) = (S "10110011100010110100111011001110001011010011" 44, Ok tt).
Proof. vm_compute. reflexivity. Qed.
Example v115 : st_prepend_m true (S "1011001110001011010011" 7) (sbits (S "1011001110001011010011" 7)) = (S "10110011100010110100111011001110001011010011" 0, Ok tt).
Proof. vm_compute. reflexivity. Qed.
Example v116 : st_insert_m true (S "1011001110001011010011" 7) (sbits (S "1011001110001011010011" 7)) None = (S "10110011100010110110011100010110100111010011" 29, Ok tt).
Proof. vm_compute. reflexivity. Qed.
Example v117 : st_append_m true (S "" 0) (B "101") = (S "101" 3, Ok tt).
Proof. vm_compute. reflexivity. Qed.
Example v118 : read_token_m true (S "" 0) (TFixed KBool 1) = (S "" 0, Err ReadError).
Proof. vm_compute. reflexivity. Qed.
Example v119 : readlist_m true (S "" 0) [TStretch KBits] = (S "" 0, Ok ([ValBits (B "")])).
Proof. vm_compute. reflexivity. Qed.
Example v120 : st_find true (S "" 0) (B "1") None None false = (S "" 0, Ok (None)).
Proof. vm_compute. reflexivity. Qed.

(* ================= 1. with the option off this is StreamHistory.v's machine ================= *)
Lemma peek_token_m_false s t : peek_token_m false s t = peek_token s t.
Proof. unfold peek_token_m, peek_token. now rewrite read_token_m_false. Qed.
Lemma peeklist_m_false s ts : peeklist_m false s ts = peeklist s ts.
Proof. unfold peeklist_m, peeklist. now rewrite readlist_m_false. Qed.

(* THEOREM 1. Python: with options.lsb0 = False every operation of the mode-parametric machine is the msb0 machine's. *)
Theorem step_m_false s op : step_m false s op = sstep s op.
Proof.
  destruct op; cbn [step_m sstep]; rewrite ?read_token_m_false, ?peek_token_m_false, ?readlist_m_false, ?peeklist_m_false; reflexivity.
Qed.
Theorem run_m_false ops : forall s, run_m false s ops = srun s ops.
Proof. induction ops as [|op ops IH]; intros s; [reflexivity|]. cbn [run_m srun fold_left]. rewrite step_m_false. apply IH. Qed.

(* ================= 2. 0 <= pos <= len in both modes ================= *)
(* ---- reads ---- *)
Lemma read_fixed_m_ok lsb0 k b start bl v : read_fixed_m lsb0 k b start bl = Ok v -> start + bl <= zlen b.
Proof. unfold read_fixed_m. destruct (zlen b <? start + bl) eqn:E; [discriminate|]. intros _. lia. Qed.

Lemma read_var_m_forward lsb0 c b p x p' : read_var_m lsb0 c b p = Ok (x, p') -> p <= p'.
Proof.
  destruct lsb0; [rewrite read_var_lsb0; discriminate|]. unfold read_var_m, read_fn_var.
  destruct (seq_slice false b (mkslice (Some p) None None)) as [tl|]; [|discriminate].
  destruct (g_read c tl 0) as [[y n]|e] eqn:Eg; [|destruct e; discriminate]. intros [= _ <-].
  apply g_read_forward in Eg. lia.
Qed.

Lemma read_tok_bound lsb0 b p t v p' : 0 <= p <= zlen b ->
  read_tok_gen (read_fixed_m lsb0) (read_var_m lsb0) (getslice lsb0) b p t = Ok (v, p') -> p <= p' <= zlen b.
Proof.
  intros Hp H. destruct t; cbn [read_tok_gen] in H; cbv zeta in H.
  - destruct (make_dtype k n) as [bl|] eqn:Em; [|discriminate]. cbn [bind] in H. apply make_dtype_nonneg in Em.
    destruct (read_fixed_m lsb0 k b p bl); [|discriminate]. cbn [bind] in H.
    destruct (p + bl >? zlen b) eqn:E; [discriminate|]. injection H as _ <-. lia.
  - destruct (_ =? 0); [|discriminate]. destruct (make_dtype k _) as [bl|] eqn:Em; [|discriminate]. cbn [bind] in H.
    apply make_dtype_nonneg in Em. destruct (read_fixed_m lsb0 k b p bl); [|discriminate]. cbn [bind] in H.
    destruct (p + bl >? zlen b) eqn:E; [discriminate|]. injection H as _ <-. lia.
  - destruct (read_var_m lsb0 c b p) as [[x q]|] eqn:Er; [|discriminate]. cbn [bind] in H. apply read_var_m_forward in Er.
    destruct (q >? zlen b) eqn:E; [discriminate|]. injection H as _ <-. lia.
  - destruct (n <? 0) eqn:E1; [discriminate|]. destruct (n >? zlen b - p) eqn:E2; [discriminate|].
    destruct (getslice lsb0 b (Some p) (Some (p + n))); [|discriminate]. cbn [bind] in H. injection H as _ <-. lia.
Qed.

(* a read keeps the content, moves pos forward and never beyond the end; an error leaves the stream alone *)
Lemma read_token_m_spec lsb0 s t : valid s ->
  sbits (fst (read_token_m lsb0 s t)) = sbits s /\
  spos s <= spos (fst (read_token_m lsb0 s t)) <= zlen (sbits s) /\
  (okb (snd (read_token_m lsb0 s t)) = false -> fst (read_token_m lsb0 s t) = s).
Proof.
  intros Hv. unfold read_token_m, read_token_gen.
  destruct (read_tok_gen _ _ _ (sbits s) (spos s) t) as [[v p']|e] eqn:E; cbn [fst snd sbits spos okb].
  - apply read_tok_bound in E; [|exact Hv]. split; [reflexivity|]. split; [lia|discriminate].
  - unfold valid in Hv. split; [reflexivity|]. split; [lia|reflexivity].
Qed.

Lemma read_list_m_pos lsb0 b ts : forall pos after vs p, Forall tok_ok ts -> 0 <= pos <= zlen b ->
  read_list_loop_m lsb0 b ts pos after = Ok (vs, p) -> pos <= p <= zlen b.
Proof.
  destruct lsb0; [|intros pos after vs p Hok Hp H; rewrite read_list_loop_m_false in H;
                   destruct (read_list_loop_pos b ts pos after vs p Hok ltac:(lia) H); lia].
  unfold read_list_loop_m. induction ts as [|t ts IH]; intros pos after vs p Hok Hpos H.
  - cbn in H. injection H as _ <-. lia.
  - inversion Hok as [|? ? Ht Hrest]; subst. cbn [read_list_gen] in H.
    destruct (read_step_gen (read_fixed_m true) (read_var_m true) b t pos after) as [[v pos']|] eqn:Es; [|discriminate]. cbn [bind] in H.
    destruct (read_list_gen _ _ b ts pos' after) as [[vs' p'']|] eqn:Er; [|discriminate]. cbn [bind] in H. injection H as _ <-.
    assert (Hstep : pos <= pos' <= zlen b).
    { destruct t; cbn [read_step_gen] in Es; cbv zeta in Es.
      - destruct (make_dtype k n) as [bl|] eqn:Em; [|discriminate]. cbn [bind] in Es. apply make_dtype_nonneg in Em.
        destruct (read_fixed_m true k b pos bl) eqn:Ef; [|discriminate]. cbn [bind] in Es. injection Es as _ <-.
        apply read_fixed_m_ok in Ef. lia.
      - destruct (_ =? 0); [|discriminate]. destruct (make_dtype k _) as [bl|] eqn:Em; [|discriminate]. cbn [bind] in Es.
        apply make_dtype_nonneg in Em. destruct (read_fixed_m true k b pos bl) eqn:Ef; [|discriminate]. cbn [bind] in Es.
        injection Es as _ <-. apply read_fixed_m_ok in Ef. lia.
      - rewrite read_var_lsb0 in Es. discriminate.
      - cbn [tok_ok] in Ht. destruct (read_fixed_m true KBits b pos n) eqn:Ef; [|discriminate]. cbn [bind] in Es.
        injection Es as _ <-. apply read_fixed_m_ok in Ef. lia. }
    specialize (IH pos' after vs' p'' Hrest ltac:(lia) Er). lia.
Qed.

Lemma readlist_m_spec lsb0 s ts : valid s ->
  sbits (fst (readlist_m lsb0 s ts)) = sbits s /\ spos s <= spos (fst (readlist_m lsb0 s ts)) <= zlen (sbits s) /\
  (okb (snd (readlist_m lsb0 s ts)) = false -> fst (readlist_m lsb0 s ts) = s).
Proof.
  intros Hv. unfold readlist_m, read_dtype_list_m, read_dtype_list_gen. unfold valid in Hv.
  destruct (check_tokens ts); [|cbn; repeat split; lia]. cbn [bind].
  destruct (scan_tokens ts false 0) as [after|] eqn:Es; [|cbn; repeat split; lia]. cbn [bind].
  fold (read_list_loop_m lsb0).
  destruct (read_list_loop_m lsb0 (sbits s) ts (spos s) after) as [[vs p]|] eqn:El; [|cbn; repeat split; lia].
  cbn [fst snd spos sbits okb]. apply scan_tokens_ok in Es. apply read_list_m_pos in El; [|exact Es|exact Hv].
  split; [reflexivity|]. split; [lia|discriminate].
Qed.

(* ---- find / rfind: a match lies inside the data, in either numbering ---- *)
Lemma bs_find_bound lsb0 d p a b ba q : bs_find lsb0 d p a b ba = Ok (Some q) -> 0 <= q /\ q + zlen p <= zlen d.
Proof.
  assert (F : forall d p a b, bs_find false d p a b ba = Ok (Some q) -> 0 <= q /\ q + zlen p <= zlen d).
  { clear. intros d p a b E. unfold bs_find in E. destruct (zlen p =? 0) eqn:Ez; [discriminate|].
    destruct (validate_slice d a b) as [[x y]|] eqn:Ev; [|discriminate].
    assert (Hp : p <> []) by (intros ->; discriminate).
    pose proof (find_spec d p a b ba x y Hp Ev) as F. unfold bs_find in F. rewrite Ez, Ev in F. cbn [bind] in *.
    rewrite E in F. injection F as F. destruct (validate_slice_ok _ _ _ _ _ Ev) as (? & ? & ?).
    destruct (spec_matches d p x y ba) as [|q0 r] eqn:Em; [discriminate|]. cbn [head_opt] in F. injection F as ->.
    destruct (spec_matches_range d p x y ba q0 ltac:(lia)); [rewrite Em; left; reflexivity|]. lia. }
  destruct lsb0; [|apply F]. intros E.
  destruct (zlen p =? 0) eqn:Ez; [unfold bs_find in E; rewrite Ez in E; discriminate|].
  destruct (validate_slice d a b) as [[x y]|] eqn:Ev; [|unfold bs_find in E; rewrite Ez, Ev in E; discriminate].
  assert (Hp : p <> []) by (intros ->; discriminate).
  rewrite (bs_find_lsb0_is_mirror d p a b ba x y Hp Ev) in E. apply F in E. now rewrite !zlen_rev in E.
Qed.

Lemma bs_rfind_bound lsb0 d p a b ba q : bs_rfind lsb0 d p a b ba = Ok (Some q) -> 0 <= q /\ q + zlen p <= zlen d.
Proof.
  assert (F : forall d p a b, bs_rfind false d p a b ba = Ok (Some q) -> 0 <= q /\ q + zlen p <= zlen d).
  { clear. intros d p a b E. unfold bs_rfind in E.
    destruct (validate_slice d a b) as [[x y]|] eqn:Ev; [|discriminate]. cbn [bind] in E.
    destruct (zlen p =? 0) eqn:Ez; [discriminate|].
    assert (Hp : p <> []) by (intros ->; discriminate).
    pose proof (rfind_spec d p a b ba x y Hp Ev) as F. unfold bs_rfind in F. rewrite Ev in F. cbn [bind] in F. rewrite Ez in F.
    rewrite E in F. injection F as F. destruct (validate_slice_ok _ _ _ _ _ Ev) as (? & ? & ?).
    unfold last_opt in F. destruct (rev (spec_matches d p x y ba)) as [|q0 r] eqn:Em; [discriminate|]. cbn [head_opt] in F. injection F as ->.
    destruct (spec_matches_range d p x y ba q0 ltac:(lia)); [apply in_rev; rewrite Em; left; reflexivity|]. lia. }
  destruct lsb0; [|apply F]. intros E.
  destruct (validate_slice d a b) as [[x y]|] eqn:Ev; [|unfold bs_rfind in E; rewrite Ev in E; discriminate].
  destruct (zlen p =? 0) eqn:Ez; [unfold bs_rfind in E; rewrite Ev in E; cbn [bind] in E; rewrite Ez in E; discriminate|].
  assert (Hp : p <> []) by (intros ->; discriminate).
  rewrite (bs_rfind_lsb0_is_mirror d p a b ba x y Hp Ev) in E. apply F in E. now rewrite !zlen_rev in E.
Qed.

(* Bits._slice never raises *)
Lemma getslice_total lsb0 (b : bits) x y : exists sl, getslice lsb0 b x y = Ok sl.
Proof.
  assert (F : forall b : bits, exists sl, getslice false b x y = Ok sl).
  { intros b0. unfold getslice, getslice_msb0, seq_slice, slice_indices. cbn [s_step]. change (1 =? 0) with false. cbv iota.
    cbn [bind]. eauto. }
  destruct lsb0; [|apply F]. unfold getslice. rewrite mirror_getslice_nostep. destruct (F (rev b)) as [sl E].
  unfold getslice in E. rewrite E. cbn [res_map]. eauto.
Qed.

(* ---- the length lemmas of the content functions do not depend on the mode ---- *)
Lemma overwrite_mirror same (b bs : bits) p : overwrite_ true same b bs p = res_map (@rev bool) (overwrite_ false same (rev b) (rev bs) p).
Proof.
  unfold overwrite_. rewrite !zlen_rev. destruct ((0 <=? p) && (p <=? zlen b)); [|reflexivity].
  destruct (same && (p =? 0)); [cbn [res_map]; now rewrite rev_involutive|]. apply mirror_setslice.
Qed.
Lemma insert_length_m lsb0 b bs p b' : insert_ lsb0 b bs p = Ok b' -> zlen b' = zlen b + zlen bs.
Proof.
  destruct lsb0; [|apply insert_length]. rewrite insert_mirror.
  destruct (insert_ false (rev b) (rev bs) p) as [r|] eqn:E; [|discriminate]. intros [= <-].
  apply insert_length in E. now rewrite !zlen_rev in *.
Qed.
Lemma overwrite_length_m lsb0 same b bs p b' : overwrite_ lsb0 same b bs p = Ok b' ->
  p + zlen bs <= zlen b' \/ (same = true /\ p = 0 /\ b' = b).
Proof.
  destruct lsb0; [|apply overwrite_length]. rewrite overwrite_mirror.
  destruct (overwrite_ false same (rev b) (rev bs) p) as [r|] eqn:E; [|discriminate]. intros [= <-].
  apply overwrite_length in E. rewrite !zlen_rev in *. destruct E as [E|(E1 & E2 & ->)]; [left; exact E|right].
  now rewrite rev_involutive.
Qed.
Lemma imul_length_m lsb0 b n b' : ba_imul lsb0 b n = Ok b' -> n <> 0 -> zlen b <= zlen b'.
Proof.
  assert (F : forall b b', ba_imul false b n = Ok b' -> n <> 0 -> zlen b <= zlen b').
  { clear. intros b b' E Hn. unfold ba_imul in E. destruct (n <? 0) eqn:E2; [discriminate|].
    assert (H0 : 0 <= n) by lia. pose proof (imul_is_n_copies b n H0) as Hi. unfold ba_imul in Hi. rewrite E2 in Hi.
    rewrite E in Hi. injection Hi as ->. rewrite rep_zlen. pose proof (zlen_nonneg b). nia. }
  destruct lsb0; [|apply F]. rewrite mirror_imul. destruct (ba_imul false (rev b) n) as [r|] eqn:E; [|discriminate].
  intros [= <-] Hn. apply F in E; [|exact Hn]. now rewrite !zlen_rev in *.
Qed.

Lemma peek_m_pure lsb0 s t : fst (peek_token_m lsb0 s t) = s.
Proof. unfold peek_token_m. destruct (read_token_m lsb0 s t). reflexivity. Qed.
Lemma peeklist_m_pure lsb0 s ts : fst (peeklist_m lsb0 s ts) = s.
Proof. unfold peeklist_m. destruct (readlist_m lsb0 s ts). reflexivity. Qed.

(* the state readto leaves, and when it fails *)
Lemma readto_m_cases lsb0 s p ba :
  (exists q sl, bs_find lsb0 (sbits s) p (Some (spos s)) None ba = Ok (Some q) /\
                readto_m lsb0 s p ba = (mkstream (sbits s) (q + zlen p), Ok sl)) \/
  (exists e, readto_m lsb0 s p ba = (s, Err e)).
Proof.
  unfold readto_m, st_find.
  destruct (bs_find lsb0 (sbits s) p (Some (spos s)) None ba) as [[q|]|e] eqn:E; [left|right; eauto|right; eauto].
  destruct (getslice_total lsb0 (sbits s) (Some (spos s)) (Some (q + zlen p))) as [sl ->]. eauto.
Qed.

(* THEOREM 2a. Python, either bit order: every stream operation (read, peek, readlist, peeklist, pos=, bytepos=, bytealign, find, rfind,
   readto, append, prepend, insert, overwrite (also of itself), s[i]=, s[a:b:c]=, del s[i], del s[a:b:c], replace, clear, *=) started with
   0 <= pos <= len ends with 0 <= pos <= len. *)
Theorem step_m_valid lsb0 s op : valid s -> valid (fst (step_m lsb0 s op)).
Proof.
  intros Hv. pose proof Hv as [H0 H1]. destruct op; cbn [step_m].
  - destruct (read_token_m_spec lsb0 s t Hv) as (Hb & Hp & _). destruct (read_token_m lsb0 s t) as [s' r]. cbn [fst] in *.
    unfold valid. rewrite Hb. lia.
  - pose proof (peek_m_pure lsb0 s t) as P. destruct (peek_token_m lsb0 s t) as [s' r]. cbn [fst] in *. now subst.
  - destruct (readlist_m_spec lsb0 s ts Hv) as (Hb & Hp & _). destruct (readlist_m lsb0 s ts) as [s' r]. cbn [fst] in *.
    unfold valid. rewrite Hb. lia.
  - pose proof (peeklist_m_pure lsb0 s ts) as P. destruct (peeklist_m lsb0 s ts) as [s' r]. cbn [fst] in *. now subst.
  - exact (sstep_valid s (OSetPos p) Hv).
  - exact (sstep_valid s (OSetBytepos p) Hv).
  - exact (sstep_valid s OBytealign Hv).
  - unfold st_find. destruct (bs_find lsb0 (sbits s) p start stop ba) as [[q|]|e] eqn:E; cbn [fst]; try exact Hv.
    apply bs_find_bound in E. pose proof (zlen_nonneg p). unfold valid; cbn [spos sbits]; lia.
  - unfold st_rfind. destruct (bs_rfind lsb0 (sbits s) p start stop ba) as [[q|]|e] eqn:E; cbn [fst]; try exact Hv.
    apply bs_rfind_bound in E. pose proof (zlen_nonneg p). unfold valid; cbn [spos sbits]; lia.
  - destruct (readto_m_cases lsb0 s p ba) as [(q & sl & E & ->)|(e & ->)]; cbn [fst]; [|exact Hv].
    apply bs_find_bound in E. pose proof (zlen_nonneg p). unfold valid; cbn [spos sbits]; lia.
  - unfold st_append_m, valid. cbn [fst spos sbits]. pose proof (zlen_nonneg (ba_append lsb0 (sbits s) bs)). lia.
  - unfold st_prepend_m, valid. cbn [fst spos sbits]. pose proof (zlen_nonneg (ba_prepend lsb0 (sbits s) bs)). lia.
  - unfold st_insert_m.
    set (p0 := match pos with None => spos s | Some v => v end). set (p := if p0 <? 0 then p0 + zlen (sbits s) else p0).
    destruct ((0 <=? p) && (p <=? zlen (sbits s))) eqn:Ep; [|exact Hv]. destruct (zlen bs =? 0) eqn:Ez; [exact Hv|].
    unfold on_content. destruct (insert_ lsb0 (sbits s) bs p) as [b'|] eqn:Ei; [|exact Hv].
    apply insert_length_m in Ei. unfold valid; cbn [fst spos sbits]. pose proof (zlen_nonneg bs). lia.
  - unfold st_overwrite_m.
    set (p0 := match pos with None => spos s | Some v => v end). set (p := if p0 <? 0 then p0 + zlen (sbits s) else p0).
    destruct ((p <? 0) || (p >? zlen (sbits s))) eqn:Ep; [exact Hv|]. destruct (zlen bs =? 0) eqn:Ez; [exact Hv|].
    unfold on_content. destruct (overwrite_ lsb0 false (sbits s) bs p) as [b'|] eqn:Ei; [|exact Hv].
    unfold valid; cbn [fst spos sbits]. pose proof (zlen_nonneg bs).
    destruct (overwrite_length_m _ _ _ _ _ _ Ei) as [Hl|(Hs & _)]; [lia|discriminate].
  - unfold st_overwrite_m.
    set (p0 := match pos with None => spos s | Some v => v end). set (p := if p0 <? 0 then p0 + zlen (sbits s) else p0).
    destruct ((p <? 0) || (p >? zlen (sbits s))) eqn:Ep; [exact Hv|]. destruct (zlen (sbits s) =? 0) eqn:Ez; [exact Hv|].
    unfold on_content. destruct (overwrite_ lsb0 true (sbits s) (sbits s) p) as [b'|] eqn:Ei; [|exact Hv].
    unfold valid; cbn [fst spos sbits].
    destruct (overwrite_length_m _ _ _ _ _ _ Ei) as [Hl|(_ & Hp & Hb)]; [lia|]. subst b'. lia.
  - unfold st_setitem_int_m, reset_if_len_changed, on_content. destruct (ba_setitem_int _ _ _ _) as [b'|]; [|exact Hv].
    unfold valid; cbn [fst spos sbits]. destruct (zlen b' =? zlen (sbits s)) eqn:E; pose proof (zlen_nonneg b'); lia.
  - unfold st_setitem_slice_m, reset_if_len_changed, on_content. destruct (ba_setitem_slice _ _ _ _) as [b'|]; [|exact Hv].
    unfold valid; cbn [fst spos sbits]. destruct (zlen b' =? zlen (sbits s)) eqn:E; pose proof (zlen_nonneg b'); lia.
  - unfold st_delitem_int_m, reset_if_len_changed, on_content. destruct (ba_delitem_int _ _ _) as [b'|]; [|exact Hv].
    unfold valid; cbn [fst spos sbits]. destruct (zlen b' =? zlen (sbits s)) eqn:E; pose proof (zlen_nonneg b'); lia.
  - unfold st_delitem_slice_m, reset_if_len_changed, on_content. destruct (ba_delitem_slice _ _ _) as [b'|]; [|exact Hv].
    unfold valid; cbn [fst spos sbits]. destruct (zlen b' =? zlen (sbits s)) eqn:E; pose proof (zlen_nonneg b'); lia.
  - unfold st_replace_m. destruct (ba_replace _ _ _ _ _ _ _ _) as [[b' n]|]; [|exact Hv].
    unfold valid; cbn [fst spos sbits]. destruct (zlen b' =? zlen (sbits s)) eqn:E; pose proof (zlen_nonneg b'); lia.
  - unfold st_clear, valid. cbn. lia.
  - unfold st_imul_m. destruct (ba_imul lsb0 (sbits s) n) as [b'|] eqn:E; [|exact Hv].
    unfold valid; cbn [fst spos sbits]. destruct (n =? 0) eqn:En; [pose proof (zlen_nonneg b'); lia|].
    apply imul_length_m in E; lia.
Qed.

(* THEOREM 2b. Python, either bit order: 0 <= pos <= len holds after every finite history of stream operations. *)
Theorem run_m_valid lsb0 ops : forall s, valid s -> valid (run_m lsb0 s ops).
Proof.
  induction ops as [|op ops IH]; intros s Hv; [exact Hv|]. cbn [run_m fold_left]. apply IH. apply step_m_valid. exact Hv.
Qed.
Corollary fresh_stream_histories_m lsb0 (b : bits) (pos : Z) ops : 0 <= pos <= zlen b -> valid (run_m lsb0 (mkstream b pos) ops).
Proof. intros H. apply run_m_valid. exact H. Qed.

(* ================= 3. failing operations and peeks ================= *)
(* THEOREM 3a. Python, either bit order: an operation that raises leaves the stream (content and pos) exactly as it was - for EVERY
   operation of the language, readto included (its _slice cannot fail once find succeeded). *)
Theorem failing_step_m_restores lsb0 s op : snd (step_m lsb0 s op) = false -> fst (step_m lsb0 s op) = s.
Proof.
  intros H. destruct op; cbn [step_m] in *.
  - unfold read_token_m, read_token_gen in *. destruct (read_tok_gen _ _ _ _ _ _) as [[v p']|e]; [discriminate|reflexivity].
  - pose proof (peek_m_pure lsb0 s t) as P. destruct (peek_token_m lsb0 s t) as [s' r]. exact P.
  - unfold readlist_m in *. destruct (read_dtype_list_m _ _ _ _) as [[vs p']|e]; [discriminate|reflexivity].
  - pose proof (peeklist_m_pure lsb0 s ts) as P. destruct (peeklist_m lsb0 s ts) as [s' r]. exact P.
  - unfold set_pos in *. destruct (p <? 0); [reflexivity|]. destruct (p >? zlen (sbits s)); [reflexivity|discriminate].
  - unfold set_bytepos, set_pos in *. destruct (p * 8 <? 0); [reflexivity|]. destruct (p * 8 >? zlen (sbits s)); [reflexivity|discriminate].
  - unfold bytealign, set_pos in *. destruct (_ <? 0); [reflexivity|]. destruct (_ >? zlen (sbits s)); [reflexivity|discriminate].
  - unfold st_find in *. destruct (bs_find _ _ _ _ _ _) as [[q|]|e]; cbn in *; try discriminate; reflexivity.
  - unfold st_rfind in *. destruct (bs_rfind _ _ _ _ _ _) as [[q|]|e]; cbn in *; try discriminate; reflexivity.
  - destruct (readto_m_cases lsb0 s p ba) as [(q & sl & _ & E)|(e & E)]; rewrite E in *; cbn [fst snd okb] in *; [discriminate|reflexivity].
  - discriminate.
  - discriminate.
  - unfold st_insert_m in *. destruct (_ && _); [|reflexivity]. destruct (zlen bs =? 0); [reflexivity|].
    unfold on_content in *. destruct (insert_ _ _ _ _); [discriminate|reflexivity].
  - unfold st_overwrite_m in *. destruct (_ || _); [reflexivity|]. destruct (zlen bs =? 0); [reflexivity|].
    unfold on_content in *. destruct (overwrite_ _ _ _ _ _); [discriminate|reflexivity].
  - unfold st_overwrite_m in *. destruct (_ || _); [reflexivity|]. destruct (zlen (sbits s) =? 0); [reflexivity|].
    unfold on_content in *. destruct (overwrite_ _ _ _ _ _); [discriminate|reflexivity].
  - unfold st_setitem_int_m, reset_if_len_changed, on_content in *. destruct (ba_setitem_int _ _ _ _); [discriminate|reflexivity].
  - unfold st_setitem_slice_m, reset_if_len_changed, on_content in *. destruct (ba_setitem_slice _ _ _ _); [discriminate|reflexivity].
  - unfold st_delitem_int_m, reset_if_len_changed, on_content in *. destruct (ba_delitem_int _ _ _); [discriminate|reflexivity].
  - unfold st_delitem_slice_m, reset_if_len_changed, on_content in *. destruct (ba_delitem_slice _ _ _); [discriminate|reflexivity].
  - unfold st_replace_m in *. destruct (ba_replace _ _ _ _ _ _ _ _) as [[b' n]|]; [discriminate|reflexivity].
  - discriminate.
  - unfold st_imul_m in *. destruct (ba_imul _ _ _); [discriminate|reflexivity].
Qed.

(* THEOREM 3b. Python, either bit order: peek / peeklist never change the stream, whether they succeed or raise, and they return what the
   corresponding read returns. *)
Theorem peeks_pure_m lsb0 s :
  (forall t, fst (step_m lsb0 s (OPeek t)) = s /\ snd (peek_token_m lsb0 s t) = snd (read_token_m lsb0 s t)) /\
  (forall ts, fst (step_m lsb0 s (OPeeklist ts)) = s /\ snd (peeklist_m lsb0 s ts) = snd (readlist_m lsb0 s ts)).
Proof.
  split; intros t; cbn [step_m].
  - pose proof (peek_m_pure lsb0 s t) as P. unfold peek_token_m in *. destruct (read_token_m lsb0 s t). cbn [fst snd] in *. auto.
  - pose proof (peeklist_m_pure lsb0 s t) as P. unfold peeklist_m in *. destruct (readlist_m lsb0 s t). cbn [fst snd] in *. auto.
Qed.

(* ================= 4. stretch: an lsb0 history is the mirror image of an msb0 history ================= *)
(* the finer machine: the state after one operation and the exception it raised, if any *)
Definition exn_of {A} (r : res A) : option exn := match r with Ok _ => None | Err e => Some e end.
Definition fin {A} (x : stream * res A) : stream * option exn := (fst x, exn_of (snd x)).
Definition step_x (lsb0 : bool) (s : stream) (op : sop) : stream * option exn :=
  match op with
  | ORead t => fin (read_token_m lsb0 s t)
  | OPeek t => fin (peek_token_m lsb0 s t)
  | OReadlist ts => fin (readlist_m lsb0 s ts)
  | OPeeklist ts => fin (peeklist_m lsb0 s ts)
  | OSetPos p => fin (set_pos s p)
  | OSetBytepos p => fin (set_bytepos s p)
  | OBytealign => fin (bytealign s)
  | OFind p a b ba => fin (st_find lsb0 s p a b ba)
  | ORfind p a b ba => fin (st_rfind lsb0 s p a b ba)
  | OReadto p ba => fin (readto_m lsb0 s p ba)
  | OAppend bs => fin (st_append_m lsb0 s bs)
  | OPrepend bs => fin (st_prepend_m lsb0 s bs)
  | OInsert bs pos => fin (st_insert_m lsb0 s bs pos)
  | OOverwrite bs pos => fin (st_overwrite_m lsb0 s false bs pos)
  | OOverwriteSelf pos => fin (st_overwrite_m lsb0 s true (sbits s) pos)
  | OSetitemInt key v => fin (st_setitem_int_m lsb0 s key v)
  | OSetitemSlice k v => fin (st_setitem_slice_m lsb0 s k v)
  | ODelitemInt key => fin (st_delitem_int_m lsb0 s key)
  | ODelitemSlice k => fin (st_delitem_slice_m lsb0 s k)
  | OReplace o n a b c ba => fin (st_replace_m lsb0 s o n a b c ba)
  | OClear => fin (st_clear s)
  | OImul n => fin (st_imul_m lsb0 s n)
  end.
Definition is_none {A} (o : option A) : bool := match o with None => true | Some _ => false end.
(* step_m is step_x with the exception forgotten *)
Lemma step_m_x lsb0 s op : step_m lsb0 s op = (fst (step_x lsb0 s op), is_none (snd (step_x lsb0 s op))).
Proof.
  destruct op; cbn [step_m step_x]; unfold fin;
    match goal with |- (let '(_, _) := ?X in _) = _ => destruct X as [s' [r|e]] end; reflexivity.
Qed.
Fixpoint run_x (lsb0 : bool) (s : stream) (ops : list sop) : stream * list (option exn) :=
  match ops with
  | [] => (s, [])
  | op :: rest => let '(s1, x) := step_x lsb0 s op in let '(s2, xs) := run_x lsb0 s1 rest in (s2, x :: xs)
  end.
Lemma run_x_m lsb0 ops : forall s, fst (run_x lsb0 s ops) = run_m lsb0 s ops.
Proof.
  induction ops as [|op ops IH]; intros s; [reflexivity|].
  change (run_m lsb0 s (op :: ops)) with (run_m lsb0 (fst (step_m lsb0 s op)) ops). rewrite step_m_x. cbn [run_x fst].
  destruct (step_x lsb0 s op) as [s1 x]. cbn [fst]. rewrite <- IH. destruct (run_x lsb0 s1 ops). reflexivity.
Qed.

(* the mirror image of a stream, of an operation (bitstring operands are reversed, numbers and tokens are kept) *)
Definition mstream (s : stream) : stream := mkstream (rev (sbits s)) (spos s).
Definition mpair {A} (x : stream * A) : stream * A := (mstream (fst x), snd x).
Definition mirror_op (op : sop) : sop :=
  match op with
  | OFind p a b ba => OFind (rev p) a b ba
  | ORfind p a b ba => ORfind (rev p) a b ba
  | OReadto p ba => OReadto (rev p) ba
  | OAppend bs => OAppend (rev bs)
  | OPrepend bs => OPrepend (rev bs)
  | OInsert bs pos => OInsert (rev bs) pos
  | OOverwrite bs pos => OOverwrite (rev bs) pos
  | OSetitemInt key v => OSetitemInt key (rev_setval v)
  | OSetitemSlice k v => OSetitemSlice k (rev_setval v)
  | OReplace o n a b c ba => OReplace (rev o) (rev n) a b c ba
  | _ => op
  end.
(* not mirror images of anything: exp-Golomb tokens (refused under lsb0) and s[a:b] = <int> (encoded in stored order) *)
Definition tok_m (t : token) : bool := negb (is_variable t).
Definition mirrorable (op : sop) : bool :=
  match op with
  | ORead t | OPeek t => tok_m t
  | OReadlist ts | OPeeklist ts => forallb tok_m ts
  | OSetitemSlice k (VInt _) => negb (unit_step k)
  | _ => true
  end.

Lemma mstream_invol s : mstream (mstream s) = s.
Proof. destruct s as [b p]. unfold mstream. cbn [sbits spos]. now rewrite rev_involutive. Qed.

(* ---- reads: same positions and same exceptions (the values are related by LsbPack.v's Theorems 4a-4g) ---- *)
Definition sh {A} (r : res A) : res unit := res_map (fun _ => tt) r.
Lemma ba2int_sh (f : bits) sg : sh (ba2int (rev f) sg) = sh (ba2int f sg).
Proof.
  destruct f as [|x f]; [reflexivity|]. cbn [rev]. destruct (rev f ++ [x]) eqn:E; [destruct (rev f); discriminate|]. reflexivity.
Qed.
Lemma interp_mirror_sh k f : sh (interp_mirror k f) = sh (interp k f).
Proof.
  rewrite interp_mirror_spec. destruct k; cbn [interp]; rewrite ?zlen_rev; try reflexivity;
    try (destruct (_ =? 0); [reflexivity|]).
  - pose proof (ba2int_sh f false) as H. destruct (ba2int (rev f) false), (ba2int f false); cbn in *; congruence.
  - pose proof (ba2int_sh f true) as H. destruct (ba2int (rev f) true), (ba2int f true); cbn in *; congruence.
  - reflexivity.
  - destruct (seq_getitem f 0); reflexivity.
Qed.
Lemma read_fixed_mirror_sh k b s l : sh (read_fixed_mirror k b s l) = sh (read_fixed_m false k b s l).
Proof.
  rewrite read_fixed_m_false. unfold read_fixed_mirror, read_fixed. destruct (zlen b <? s + l); [reflexivity|].
  destruct (seq_slice false b _) as [sl|]; [|reflexivity]. cbn [bind].
  destruct k; try apply interp_mirror_sh. destruct (zlen sl =? 1); [apply interp_mirror_sh|reflexivity].
Qed.

Lemma sh_bind {A A' B B'} (r : res A) (r' : res A') (k : A -> res (B * Z)) (k' : A' -> res (B' * Z)) :
  sh r = sh r' -> (forall a a', res_map snd (k a) = res_map snd (k' a')) ->
  res_map snd (bind r k) = res_map snd (bind r' k').
Proof. intros H K. destruct r, r'; cbn in *; try congruence. apply K. Qed.

Lemma read_tok_gen_sh rf rv gs rf' rv' gs' b : (forall k s l, sh (rf k b s l) = sh (rf' k b s l)) ->
  (forall x y, sh (gs b x y) = sh (gs' b x y)) -> forall p t, tok_m t = true ->
  res_map snd (read_tok_gen rf rv gs b p t) = res_map snd (read_tok_gen rf' rv' gs' b p t).
Proof.
  intros Hf Hg p t Ht. destruct t; try discriminate; cbn [read_tok_gen]; cbv zeta.
  - destruct (make_dtype k n) as [bl|]; [|reflexivity]. cbn [bind]. apply sh_bind; [apply Hf|]. intros ? ?. destruct (_ >? _); reflexivity.
  - destruct (_ =? 0); [|reflexivity]. destruct (make_dtype k _) as [bl|]; [|reflexivity]. cbn [bind].
    apply sh_bind; [apply Hf|]. intros ? ?. destruct (_ >? _); reflexivity.
  - destruct (n <? 0); [reflexivity|]. destruct (n >? _); [reflexivity|]. apply sh_bind; [apply Hg|]. reflexivity.
Qed.

Lemma read_step_gen_sh rf rv rf' rv' b : (forall k s l, sh (rf k b s l) = sh (rf' k b s l)) -> forall t pos after, tok_m t = true ->
  res_map snd (read_step_gen rf rv b t pos after) = res_map snd (read_step_gen rf' rv' b t pos after).
Proof.
  intros Hf t pos after Ht. destruct t; try discriminate; cbn [read_step_gen]; cbv zeta.
  - destruct (make_dtype k n) as [bl|]; [|reflexivity]. cbn [bind]. apply sh_bind; [apply Hf|]. reflexivity.
  - destruct (_ =? 0); [|reflexivity]. destruct (make_dtype k _) as [bl|]; [|reflexivity]. cbn [bind]. apply sh_bind; [apply Hf|]. reflexivity.
  - apply sh_bind; [apply Hf|]. reflexivity.
Qed.
Lemma read_list_gen_sh rf rv rf' rv' b : (forall k s l, sh (rf k b s l) = sh (rf' k b s l)) -> forall ts pos after, forallb tok_m ts = true ->
  res_map snd (read_list_gen rf rv b ts pos after) = res_map snd (read_list_gen rf' rv' b ts pos after).
Proof.
  intros Hf ts. induction ts as [|t ts IH]; intros pos after Hts; [reflexivity|]. cbn [forallb] in Hts. apply andb_prop in Hts as [Ht Hts].
  cbn [read_list_gen]. pose proof (read_step_gen_sh rf rv rf' rv' b Hf t pos after Ht) as Hs.
  destruct (read_step_gen rf rv b t pos after) as [[v q]|], (read_step_gen rf' rv' b t pos after) as [[v' q']|]; cbn in Hs; try congruence; [|cbn [bind res_map]; congruence].
  injection Hs as <-. cbn [bind]. specialize (IH q after Hts).
  destruct (read_list_gen rf rv b ts q after) as [[vs r]|], (read_list_gen rf' rv' b ts q after) as [[vs' r']|]; cbn in *; congruence.
Qed.

Ltac fin_m := unfold fin, mpair, mstream; cbn [fst snd sbits spos exn_of]; rewrite ?rev_involutive;
  try reflexivity; try (match goal with s : stream |- _ => destruct s; reflexivity end).
Lemma read_mirror s t : tok_m t = true -> fin (read_token_m true s t) = mpair (fin (read_token_m false (mstream s) t)).
Proof.
  intros Ht. unfold read_token_m, read_token_gen. rewrite read_token_lsb0_mirror. cbn [mstream sbits spos].
  pose proof (read_tok_gen_sh read_fixed_mirror read_var_mirror (fun b x y => res_map (@rev bool) (getslice false b x y))
    (read_fixed_m false) (read_var_m false) (getslice false) (rev (sbits s)) (fun k x l => read_fixed_mirror_sh k _ x l)
    ltac:(intros x y; cbv beta; destruct (getslice false (rev (sbits s)) x y); reflexivity) (spos s) t Ht) as H.
  destruct (read_tok_gen read_fixed_mirror _ _ _ _ _) as [[v q]|e], (read_tok_gen (read_fixed_m false) _ _ _ _ _) as [[v' q']|e'];
    cbn in H; try congruence; unfold fin, mpair, mstream; cbn [fst snd sbits spos exn_of]; rewrite rev_involutive.
  - congruence.
  - destruct s; cbn. congruence.
Qed.
Lemma readlist_mirror s ts : forallb tok_m ts = true -> fin (readlist_m true s ts) = mpair (fin (readlist_m false (mstream s) ts)).
Proof.
  intros Hts. rewrite readlist_lsb0_mirror. unfold readlist_m, read_dtype_list_m, read_dtype_list_gen. cbn [mstream sbits spos].
  destruct (check_tokens ts); [|cbn [bind]; fin_m]. cbn [bind].
  destruct (scan_tokens ts false 0) as [after|]; [|cbn [bind]; fin_m]. cbn [bind].
  pose proof (read_list_gen_sh read_fixed_mirror read_var_mirror (read_fixed_m false) (read_var_m false) (rev (sbits s))
    (fun k x l => read_fixed_mirror_sh k _ x l) ts (spos s) after Hts) as H.
  destruct (read_list_gen read_fixed_mirror _ _ _ _ _) as [[v q]|e], (read_list_gen (read_fixed_m false) _ _ _ _ _) as [[v' q']|e'];
    cbn in H; try congruence; unfold fin, mpair, mstream; cbn [fst snd sbits spos exn_of]; rewrite rev_involutive.
  - congruence.
  - destruct s; cbn. congruence.
Qed.

(* ---- searches ---- *)
Lemma bs_find_mirror d p a b ba : bs_find true d p a b ba = bs_find false (rev d) (rev p) a b ba.
Proof.
  destruct (zlen p =? 0) eqn:Ez; [unfold bs_find; now rewrite zlen_rev, Ez|].
  assert (Hp : p <> []) by (intros ->; discriminate).
  destruct (validate_slice d a b) as [[x y]|e] eqn:Ev.
  - rewrite (bs_find_lsb0_is_mirror d p a b ba x y Hp Ev). destruct (validate_slice_ok _ _ _ _ _ Ev) as (? & ? & ?).
    rewrite (find_spec (rev d) (rev p) (Some x) (Some y) ba x y (rev_nonempty _ Hp)) by (apply validate_slice_idem; rewrite ?zlen_rev; lia).
    rewrite (find_spec (rev d) (rev p) a b ba x y (rev_nonempty _ Hp)) by (now rewrite validate_slice_rev). reflexivity.
  - unfold bs_find. now rewrite !zlen_rev, Ez, validate_slice_rev, Ev.
Qed.
Lemma bs_rfind_mirror d p a b ba : bs_rfind true d p a b ba = bs_rfind false (rev d) (rev p) a b ba.
Proof.
  destruct (validate_slice d a b) as [[x y]|e] eqn:Ev; [|unfold bs_rfind; now rewrite validate_slice_rev, Ev].
  destruct (zlen p =? 0) eqn:Ez; [unfold bs_rfind; rewrite validate_slice_rev, Ev; cbn [bind]; now rewrite zlen_rev, Ez|].
  assert (Hp : p <> []) by (intros ->; discriminate).
  rewrite (bs_rfind_lsb0_is_mirror d p a b ba x y Hp Ev). destruct (validate_slice_ok _ _ _ _ _ Ev) as (? & ? & ?).
  rewrite (rfind_spec (rev d) (rev p) (Some x) (Some y) ba x y (rev_nonempty _ Hp)) by (apply validate_slice_idem; rewrite ?zlen_rev; lia).
  rewrite (rfind_spec (rev d) (rev p) a b ba x y (rev_nonempty _ Hp)) by (now rewrite validate_slice_rev). reflexivity.
Qed.

Ltac mfin := unfold mpair, mstream; cbn [fst snd sbits spos]; rewrite ?rev_involutive, ?zlen_rev;
  try reflexivity; try (match goal with s : stream |- _ => destruct s; reflexivity end).

Lemma find_mirror s p a b ba : st_find true s p a b ba = mpair (st_find false (mstream s) (rev p) a b ba).
Proof. unfold st_find. cbn [mstream sbits]. rewrite bs_find_mirror. destruct (bs_find false _ _ _ _ _) as [[q|]|e]; mfin. Qed.
Lemma rfind_mirror s p a b ba : st_rfind true s p a b ba = mpair (st_rfind false (mstream s) (rev p) a b ba).
Proof. unfold st_rfind. cbn [mstream sbits]. rewrite bs_rfind_mirror. destruct (bs_rfind false _ _ _ _ _) as [[q|]|e]; mfin. Qed.
(* readto returns the reverse of what the mirrored readto returns *)
Lemma readto_mirror s p ba :
  readto_m true s p ba = (mstream (fst (readto_m false (mstream s) (rev p) ba)), res_map (@rev bool) (snd (readto_m false (mstream s) (rev p) ba))).
Proof.
  unfold readto_m, st_find. cbn [mstream sbits spos]. rewrite bs_find_mirror, zlen_rev.
  destruct (bs_find false _ _ _ _ _) as [[q|]|e]; try mfin.
  rewrite getslice_mirror. destruct (getslice false (rev (sbits s)) _ _); mfin.
Qed.

(* ---- mutators: the content is mirrored, pos and the outcome are the same ---- *)
Lemma on_content_mirror s (r : res bits) f g : (forall b, f (rev b) = g b) ->
  on_content s (res_map (@rev bool) r) f = mpair (on_content (mstream s) r g).
Proof. intros H. unfold on_content. destruct r as [b'|e]; cbn [res_map]; [rewrite H|]; mfin. Qed.
Lemma reset_mirror s (r : res bits) : reset_if_len_changed s (res_map (@rev bool) r) = mpair (reset_if_len_changed (mstream s) r).
Proof. unfold reset_if_len_changed. apply on_content_mirror. intros b. cbn [mstream sbits spos]. now rewrite !zlen_rev. Qed.

Lemma append_mirror s bs : st_append_m true s bs = mpair (st_append_m false (mstream s) (rev bs)).
Proof. unfold st_append_m. cbn [mstream sbits]. rewrite mirror_append. mfin. Qed.
Lemma prepend_mirror s bs : st_prepend_m true s bs = mpair (st_prepend_m false (mstream s) (rev bs)).
Proof. unfold st_prepend_m. cbn [mstream sbits]. rewrite mirror_prepend. mfin. Qed.
Lemma insert_st_mirror s bs pos : st_insert_m true s bs pos = mpair (st_insert_m false (mstream s) (rev bs) pos).
Proof.
  unfold st_insert_m. cbn [mstream sbits spos]. rewrite !zlen_rev. cbv zeta.
  destruct (_ && _); [|mfin]. destruct (zlen bs =? 0); [mfin|]. rewrite insert_mirror. now apply on_content_mirror.
Qed.
Lemma overwrite_st_mirror s same bs pos : st_overwrite_m true s same bs pos = mpair (st_overwrite_m false (mstream s) same (rev bs) pos).
Proof.
  unfold st_overwrite_m. cbn [mstream sbits spos]. rewrite !zlen_rev. cbv zeta.
  destruct (_ || _); [mfin|]. destruct (zlen bs =? 0); [mfin|]. rewrite overwrite_mirror. now apply on_content_mirror.
Qed.
Lemma replace_st_mirror s o n a b c ba : st_replace_m true s o n a b c ba = mpair (st_replace_m false (mstream s) (rev o) (rev n) a b c ba).
Proof.
  unfold st_replace_m. cbn [mstream sbits spos]. rewrite replace_mirror.
  destruct (ba_replace false _ _ _ _ _ _ _) as [[b' k]|e]; cbn [res_map]; mfin.
Qed.
Lemma imul_st_mirror s n : st_imul_m true s n = mpair (st_imul_m false (mstream s) n).
Proof. unfold st_imul_m. cbn [mstream sbits spos]. rewrite mirror_imul. destruct (ba_imul false _ _) as [b'|e]; cbn [res_map]; mfin. Qed.

Lemma fin_mpair {A} (x : stream * res A) : fin (mpair x) = mpair (fin x).
Proof. reflexivity. Qed.

(* THEOREM 4a. Python: one operation with lsb0 on, on (d, pos), leaves the bit-reversed content, the same pos and raises the same exception
   (or none) as the mirrored operation (bitstring operands reversed) with lsb0 off on (reversed d, pos) - for every operation except reads
   of exp-Golomb tokens and s[a:b] = <int>. *)
Theorem step_mirror s op : mirrorable op = true -> step_x true s op = mpair (step_x false (mstream s) (mirror_op op)).
Proof.
  intros Hm. destruct op; cbn [mirrorable] in Hm; cbn [step_x mirror_op]; rewrite <- ?fin_mpair.
  - now apply read_mirror.
  - unfold peek_token_m. pose proof (read_mirror s t Hm) as H. destruct (read_token_m true s t), (read_token_m false (mstream s) t).
    unfold fin, mpair in *. cbn [fst snd] in *. rewrite mstream_invol. congruence.
  - now apply readlist_mirror.
  - unfold peeklist_m. pose proof (readlist_mirror s ts Hm) as H. destruct (readlist_m true s ts), (readlist_m false (mstream s) ts).
    unfold fin, mpair in *. cbn [fst snd] in *. rewrite mstream_invol. congruence.
  - f_equal. unfold set_pos. cbn [mstream sbits]. rewrite zlen_rev. destruct (p <? 0); [mfin|]. destruct (p >? _); mfin.
  - f_equal. unfold set_bytepos, set_pos. cbn [mstream sbits]. rewrite zlen_rev. destruct (p * 8 <? 0); [mfin|]. destruct (p * 8 >? _); mfin.
  - f_equal. unfold bytealign, set_pos. cbn [mstream sbits spos]. rewrite zlen_rev. destruct (_ <? 0); [mfin|]. destruct (_ >? _); mfin.
  - f_equal. apply find_mirror.
  - f_equal. apply rfind_mirror.
  - rewrite readto_mirror. destruct (readto_m false (mstream s) (rev p) ba) as [s' [r|e]]; reflexivity.
  - f_equal. apply append_mirror.
  - f_equal. apply prepend_mirror.
  - f_equal. apply insert_st_mirror.
  - f_equal. apply overwrite_st_mirror.
  - f_equal. rewrite overwrite_st_mirror. reflexivity.
  - f_equal. unfold st_setitem_int_m. rewrite mirror_setitem_int. apply reset_mirror.
  - f_equal. unfold st_setitem_slice_m. destruct v as [v|v]; cbn [rev_setval].
    + rewrite mirror_setitem_slice_fill by (now apply negb_true_iff). apply reset_mirror.
    + rewrite mirror_setitem_slice_bits. apply reset_mirror.
  - f_equal. unfold st_delitem_int_m. rewrite mirror_delitem_int. apply reset_mirror.
  - f_equal. unfold st_delitem_slice_m. rewrite mirror_delitem_slice. apply reset_mirror.
  - f_equal. apply replace_st_mirror.
  - reflexivity.
  - f_equal. apply imul_st_mirror.
Qed.

(* THEOREM 4b. Python: a whole history with lsb0 on, started on (d, pos), ends with the bit-reversed content, the same pos and the same
   sequence of exceptions as the mirrored history with lsb0 off started on (reversed d, pos). *)
Theorem run_mirror ops : forallb mirrorable ops = true -> forall s,
  run_x true s ops = mpair (run_x false (mstream s) (map mirror_op ops)).
Proof.
  induction ops as [|op ops IH]; intros Hm s; [unfold mpair; cbn [run_x map fst snd]; now rewrite mstream_invol|]. cbn [forallb] in Hm. apply andb_prop in Hm as [H1 H2].
  cbn [run_x map]. rewrite (step_mirror s op H1). destruct (step_x false (mstream s) (mirror_op op)) as [s1 x]. unfold mpair at 1. cbn [fst snd].
  rewrite (IH H2 (mstream s1)), mstream_invol. destruct (run_x false s1 (map mirror_op ops)). reflexivity.
Qed.
Corollary run_m_mirror ops s : forallb mirrorable ops = true -> run_m true s ops = mstream (srun (mstream s) (map mirror_op ops)).
Proof. intros Hm. rewrite <- run_x_m, (run_mirror ops Hm s), <- run_m_false, <- run_x_m. reflexivity. Qed.

(* ---- the two exclusions of Theorem 4, precisely ---- *)
Lemma read_list_gen_var_fails rf b ts : existsb is_variable ts = true -> forall pos after,
  exists e, read_list_gen rf (read_var_m true) b ts pos after = Err e.
Proof.
  induction ts as [|t ts IH]; intros H pos after; [discriminate|]. cbn [existsb] in H. cbn [read_list_gen].
  destruct (read_step_gen rf (read_var_m true) b t pos after) as [[v q]|e] eqn:Es; [|cbn [bind]; eauto]. cbn [bind].
  destruct (is_variable t) eqn:Et.
  - destruct t; try discriminate. cbn [read_step_gen] in Es. rewrite read_var_lsb0 in Es. discriminate.
  - cbn [orb] in H. destruct (IH H q after) as [e ->]. cbn [bind]. eauto.
Qed.
(* THEOREM 4c. Python, lsb0 on: read / peek of 'ue' 'se' 'uie' 'sie' always raise ReadError, and a readlist / peeklist whose format contains
   such a token always raises; the stream is left as it was.  (With lsb0 off the mirrored call may well succeed: ex_golomb.) *)
Theorem golomb_refused_lsb0 s :
  (forall c, read_token_m true s (TVar c) = (s, Err ReadError)) /\
  (forall ts, existsb is_variable ts = true -> exists e, readlist_m true s ts = (s, Err e)).
Proof.
  split; [intros c; destruct s as [d p]; apply read_golomb_lsb0; exact 0|].
  intros ts H. unfold readlist_m, read_dtype_list_m, read_dtype_list_gen.
  destruct (check_tokens ts); [|cbn; eauto]. cbn [bind]. destruct (scan_tokens ts false 0) as [after|]; [|cbn; eauto]. cbn [bind].
  destruct (read_list_gen_var_fails (read_fixed_m true) (sbits s) ts H (spos s) after) as [e ->]. eauto.
Qed.
(* THEOREM 4d. Python, lsb0 on: s[a:b] = <int> (unit step) encodes the integer into len(s[a:b]) bits exactly as with lsb0 off, so it is
   the mirror image of assigning the REVERSED encoding to the reversed stream, not of assigning the integer (ex_setint). *)
Theorem setitem_slice_int_lsb0 s k v : unit_step k = true ->
  st_setitem_slice_m true s k (VInt v) =
  match getslice false (rev (sbits s)) (s_start k) (s_stop k) with
  | Ok sl => match make_int v (zlen sl) with
             | Ok vb => mpair (st_setitem_slice_m false (mstream s) k (VBits (rev vb)))
             | Err e => (s, Err e)
             end
  | Err e => (s, Err e)
  end.
Proof.
  intros Hu. unfold st_setitem_slice_m. rewrite (mirror_setitem_slice_int _ _ _ Hu).
  destruct (getslice false (rev (sbits s)) (s_start k) (s_stop k)) as [sl|e]; [|reflexivity]. cbn [bind].
  destruct (make_int v (zlen sl)) as [vb|e]; [|reflexivity]. cbn [bind]. apply reset_mirror.
Qed.

(* ================= 5. the documented pos rules, in either bit order ================= *)
(* THEOREM 5. Python, either bit order: append leaves pos at the new end, prepend at 0; a successful insert / overwrite of a non-empty bs at
   the resolved position p leaves pos = p + len(bs) (insert: the length grows by len(bs); overwrite: pos is inside the new content);
   s[..] = x, del s[..] and replace keep pos when the length is unchanged and reset it to 0 otherwise. *)
Theorem mutator_pos_rules lsb0 s bs pos :
  let p0 := match pos with None => spos s | Some v => v end in
  let p := if p0 <? 0 then p0 + zlen (sbits s) else p0 in
  (let s' := fst (st_append_m lsb0 s bs) in spos s' = zlen (sbits s') /\ zlen (sbits s') = zlen (sbits s) + zlen bs) /\
  (let s' := fst (st_prepend_m lsb0 s bs) in spos s' = 0 /\ zlen (sbits s') = zlen (sbits s) + zlen bs) /\
  (forall s', zlen bs <> 0 -> st_insert_m lsb0 s bs pos = (s', Ok tt) ->
     0 <= p <= zlen (sbits s) /\ spos s' = p + zlen bs /\ zlen (sbits s') = zlen (sbits s) + zlen bs) /\
  (forall s', zlen bs <> 0 -> st_overwrite_m lsb0 s false bs pos = (s', Ok tt) ->
     0 <= p <= zlen (sbits s) /\ spos s' = p + zlen bs /\ spos s' <= zlen (sbits s')) /\
  (forall r, let s' := fst (reset_if_len_changed s r) in spos s' = spos s \/ (spos s' = 0 /\ zlen (sbits s') <> zlen (sbits s))).
Proof.
  cbv zeta. repeat apply conj.
  - reflexivity.
  - unfold st_append_m, ba_append, addleft, addright. cbn [fst sbits]. destruct lsb0; rewrite zlen_app; lia.
  - reflexivity.
  - unfold st_prepend_m, ba_prepend, addleft, addright. cbn [fst sbits]. destruct lsb0; rewrite zlen_app; lia.
  - intros s' Hb. unfold st_insert_m.
    set (p0 := match pos with None => spos s | Some v => v end). set (p := if p0 <? 0 then p0 + zlen (sbits s) else p0).
    destruct ((0 <=? p) && (p <=? zlen (sbits s))) eqn:Ep; [|discriminate]. destruct (zlen bs =? 0) eqn:Ez; [lia|].
    unfold on_content. destruct (insert_ lsb0 (sbits s) bs p) as [b'|] eqn:Ei; [|discriminate]. intros [= <-].
    apply insert_length_m in Ei. cbn [spos sbits]. lia.
  - intros s' Hb. unfold st_overwrite_m.
    set (p0 := match pos with None => spos s | Some v => v end). set (p := if p0 <? 0 then p0 + zlen (sbits s) else p0).
    destruct ((p <? 0) || (p >? zlen (sbits s))) eqn:Ep; [discriminate|]. destruct (zlen bs =? 0) eqn:Ez; [lia|].
    unfold on_content. destruct (overwrite_ lsb0 false (sbits s) bs p) as [b'|] eqn:Ei; [|discriminate]. intros [= <-].
    cbn [spos sbits]. destruct (overwrite_length_m _ _ _ _ _ _ Ei) as [Hl|(Hs & _)]; [lia|discriminate].
  - intros r. unfold reset_if_len_changed, on_content. destruct r as [b'|e]; cbn [fst spos sbits]; [|auto].
    destruct (zlen b' =? zlen (sbits s)) eqn:E; [auto|right; lia].
Qed.

(* ================= the hypotheses are satisfiable; a whole history against the library ================= *)
(* the final content, the final pos and the exception raised at each step were printed by the library (gen_hist.py, lsb0 = True) *)
Definition ex_hist : list sop :=
  [ORead (TFixed KUint 5);
   OInsert (B "110") None;
   OFind (B "1011") None None false;
   OReadto (B "11") false;
   OOverwrite (B "0101") (Some 2);
   OSetitemSlice (mkslice (Some 1) (Some 10) (Some 3)) (VBits (B "010"));
   ORead (TFixed KUint 40);
   OPeek (TFixed KInt 7);
   ODelitemSlice (mkslice (Some 2) (Some 7) None);
   OSetPos 11;
   ORfind (B "01") (Some 3) None false;
   OSetitemSlice (mkslice (Some 2) (Some 12) (Some 4)) (VInt 1);
   OAppend (B "1");
   OInsert (B "1") (Some 99);
   OReplace (B "10") (B "011") None None None false;
   OSetPos 5;
   OBytealign;
   OPrepend (B "00");
   OReadlist [TFixed KHex 4; TStretch KBin; TFixed KBool 1];
   OOverwriteSelf (Some 30);
   OImul 2].
Example ex_hist_run : run_x true (S "101100111000101101001110" 3) ex_hist = (S "10111011011011010111110110110000111011011011010111110110110001011101101101101011111011011000011101101101101011111011011000" 61, [None; None; None; None; None; None; Some ReadError; None; None; None; None; None; None; Some ValueError; None; None; None; None; None; None; None]).
Proof. vm_compute. reflexivity. Qed.
Example ex_hist_ok : valid (S "101100111000101101001110" 3) /\ forallb mirrorable ex_hist = true /\
  run_x true (S "101100111000101101001110" 3) ex_hist = mpair (run_x false (mstream (S "101100111000101101001110" 3)) (map mirror_op ex_hist)) /\
  validb (run_m true (S "101100111000101101001110" 3) ex_hist) = true.
Proof. split; [unfold valid; vm_compute; split; discriminate|]. vm_compute. repeat split; reflexivity. Qed.
(* lsb0: read('ue') raises although the mirrored msb0 read succeeds; s[4:8] = 5 is not the mirror of the msb0 s[4:8] = 5 *)
Example ex_golomb : read_token_m true (S "101100111000101101001110" 0) (TVar UE) = (S "101100111000101101001110" 0, Err ReadError) /\
  okb (snd (read_token_m false (mstream (S "101100111000101101001110" 0)) (TVar UE))) = true.
Proof. vm_compute. split; reflexivity. Qed.
Example ex_setint : unit_step (mkslice (Some 4) (Some 8) None) = true /\
  fst (st_setitem_slice_m true (S "101100111000101101001110" 9) (mkslice (Some 4) (Some 8) None) (VInt 5)) = S "101100111000101101011110" 9 /\
  fst (mpair (st_setitem_slice_m false (mstream (S "101100111000101101001110" 9)) (mkslice (Some 4) (Some 8) None) (VInt 5))) = S "101100111000101110101110" 9.
Proof. vm_compute. repeat split; reflexivity. Qed.

Print Assumptions step_m_false.
Print Assumptions run_m_false.
Print Assumptions step_m_valid.
Print Assumptions run_m_valid.
Print Assumptions failing_step_m_restores.
Print Assumptions peeks_pure_m.
Print Assumptions step_mirror.
Print Assumptions run_mirror.
Print Assumptions run_m_mirror.
Print Assumptions golomb_refused_lsb0.
Print Assumptions setitem_slice_int_lsb0.
Print Assumptions mutator_pos_rules.
