(* MutSpec.v — the documented meaning of each mutator as a function on the list of bits
   (written from the reference documentation with firstn/skipn/rev/++ only). *)
From BS Require Import Prims.
Open Scope Z_scope.

Definition norm_pos (len p : Z) : Z := if p <? 0 then p + len else p.

(* the [start, end) range arguments: None = 0 / len; negative counts from the end; must satisfy 0<=s<=e<=len *)
Definition spec_range (len : Z) (start stop : option Z) : res (Z * Z) :=
  let s := match start with None => 0 | Some v => norm_pos len v end in
  let e := match stop with None => len | Some v => norm_pos len v end in
  if (0 <=? s) && (s <=? e) && (e <=? len) then Ok (s, e) else Err ValueError.

Definition take (n : Z) (b : bits) := firstn (Z.to_nat n) b.
Definition drop (n : Z) (b : bits) := skipn (Z.to_nat n) b.

Inductive mop :=
| MInsert (bs : bits) (pos : Z)
| MOverwrite (bs : bits) (pos : Z)
| MAppend (bs : bits)
| MPrepend (bs : bits)
| MDelRange (s e : Z)               (* del a[s:e] with 0 <= s <= e <= len *)
| MDelBit (i : Z)
| MSetBit (i : Z) (v : bool)        (* a.set(v, i) / a[i] = v *)
| MInvertBit (i : Z)
| MInvertAll
| MReverse (start stop : option Z)
| MRol (n : Z) (start stop : option Z)
| MRor (n : Z) (start stop : option Z)
| MLshift (n : Z)
| MRshift (n : Z)
| MClear.

Definition rot_left (w : bits) (k : Z) : bits := drop k w ++ take k w.
Definition rot_right (w : bits) (k : Z) : bits := drop (zlen w - k) w ++ take (zlen w - k) w.

Definition in_window (b : bits) (s e : Z) (f : bits -> bits) : bits :=
  take s b ++ f (take (e - s) (drop s b)) ++ drop e b.

Definition spec_step (b : bits) (op : mop) : res bits :=
  let len := zlen b in
  match op with
  | MInsert bs pos =>
      let p := norm_pos len pos in
      if (0 <=? p) && (p <=? len) then Ok (take p b ++ bs ++ drop p b) else Err ValueError
  | MOverwrite bs pos =>
      let p := norm_pos len pos in
      if (0 <=? p) && (p <=? len) then Ok (take p b ++ bs ++ drop (p + zlen bs) b) else Err ValueError
  | MAppend bs => Ok (b ++ bs)
  | MPrepend bs => Ok (bs ++ b)
  | MDelRange s e => if (0 <=? s) && (s <=? e) && (e <=? len) then Ok (take s b ++ drop e b) else Err ValueError
  | MDelBit i => let p := norm_pos len i in
                 if (0 <=? p) && (p <? len) then Ok (take p b ++ drop (p + 1) b) else Err IndexError
  | MSetBit i v => let p := norm_pos len i in
                   if (0 <=? p) && (p <? len) then Ok (take p b ++ [v] ++ drop (p + 1) b) else Err IndexError
  | MInvertBit i => let p := norm_pos len i in
                    if (0 <=? p) && (p <? len) then Ok (take p b ++ [negb (znth false b p)] ++ drop (p + 1) b) else Err IndexError
  | MInvertAll => Ok (map negb b)
  | MReverse start stop =>
      do2 (s, e) <- spec_range len start stop; Ok (in_window b s e (@rev bool))
  | MRol n start stop =>
      if len =? 0 then Err BsError else if n <? 0 then Err ValueError else
      do2 (s, e) <- spec_range len start stop;
      Ok (if e - s =? 0 then b else in_window b s e (fun w => rot_left w (n mod (e - s))))
  | MRor n start stop =>
      if len =? 0 then Err BsError else if n <? 0 then Err ValueError else
      do2 (s, e) <- spec_range len start stop;
      Ok (if e - s =? 0 then b else in_window b s e (fun w => rot_right w (n mod (e - s))))
  | MLshift n =>
      if (n <? 0) || (len =? 0) then Err ValueError else
      let m := Z.min n len in Ok (drop m b ++ repeat false (Z.to_nat m))
  | MRshift n =>
      if (n <? 0) || (len =? 0) then Err ValueError else
      let m := Z.min n len in Ok (repeat false (Z.to_nat m) ++ take (len - m) b)
  | MClear => Ok []
  end.

(* a program: stop at the first error, the content then being what it was before the failing call *)
Fixpoint spec_run (b : bits) (ops : list mop) : bits * option exn :=
  match ops with
  | [] => (b, None)
  | op :: rest => match spec_step b op with Ok b' => spec_run b' rest | Err e => (b, Some e) end
  end.
