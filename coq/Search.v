(* Search.v — hand model of searching and splitting:
   bitstring/bitstore.py  BitStore.find rfind findall_msb0 rfindall_msb0
   bitstring/bits.py      find _find_msb0 _find_lsb0 findall _findall_msb0 _findall_lsb0 rfind _rfind_msb0 _rfind_lsb0
                          __contains__ cut split startswith endswith count
   bitstring/bitarray_.py _replace replace
   Primitives outside /repo (Prims.search_all = bitarray.search/find, bytes.find) are modelled. *)
From BS Require Import Prims BitsCore.
Open Scope Z_scope.

(* ---------- modelled primitives ---------- *)
(* bitarray.find(sub, start, end) -> lowest match or -1 ; right=True -> highest *)
Definition ba_find (d p : bits) (s e : Z) : Z :=
  match search_all d p s e with [] => -1 | q :: _ => q end.
Definition ba_rfind (d p : bits) (s e : Z) : Z :=
  match rev (search_all d p s e) with [] => -1 | q :: _ => q end.

(* bytes: lists of 8-bit groups.  tobytes pads the last group with zeros. *)
Definition to_bytes (b : bits) : list bits := chunks8 (length b) (pad8 b).

Fixpoint beq_bytes (a b : list bits) : bool :=
  match a, b with
  | [], [] => true
  | x :: a', y :: b' => beq_bits x y && beq_bytes a' b'
  | _, _ => false
  end.
(* bytes.find(sub, from) -> lowest j >= from with hay[j:j+len(sub)] == sub, or -1 *)
Definition bytes_occurs (hay needle : list bits) (j : Z) : bool :=
  (0 <=? j) && (j + zlen needle <=? zlen hay) && beq_bytes (sub hay j (j + zlen needle)) needle.
Definition bytes_find (hay needle : list bits) (from : Z) : Z :=
  match filter (bytes_occurs hay needle) (zrange from (zlen hay - zlen needle + 1)) with
  | [] => -1 | j :: _ => j end.

(* ---------- BitStore.findall_msb0 ---------- *)
(* the byte fast path loop:
   byte_pos = 0; while byte_pos < bytes_to_search: byte_pos = b.find(bytes_, byte_pos); if -1: break;
   yield (byte_pos + start_byte) * 8; byte_pos += 1 *)
Fixpoint fast_loop (fuel : nat) (b needle : list bits) (byte_pos n start_byte : Z) : res (list Z) :=
  match fuel with
  | O => Err OutOfFuel
  | S f =>
      if byte_pos <? n then
        let j := bytes_find b needle byte_pos in
        if j =? -1 then Ok []
        else do rest <- fast_loop f b needle (j + 1) n start_byte; Ok ((j + start_byte) * 8 :: rest)
      else Ok []
  end.

Definition findall_fast (d p : bits) (s e : Z) : res (list Z) :=
  let start_byte := (s + 7) / 8 in
  let end_byte := e / 8 in
  do window <- seq_slice false d (mkslice (Some (start_byte * 8)) (Some (end_byte * 8)) None);
  let b := to_bytes window in
  fast_loop (S (length b)) b (to_bytes p) 0 (end_byte - start_byte) start_byte.

Definition findall_store_msb0 (d p : bits) (s e : Z) (bytealigned : bool) : res (list Z) :=
  if bytealigned && (zlen p mod 8 =? 0) then findall_fast d p s e
  else
    let i := search_all d p s e in
    Ok (if bytealigned then filter (fun q => q mod 8 =? 0) i else i).

Definition rfindall_store_msb0 (d p : bits) (s e : Z) (bytealigned : bool) : list Z :=
  let i := rev (search_all d p s e) in
  if bytealigned then filter (fun q => q mod 8 =? 0) i else i.

(* BitStore.find / rfind : -1 or position *)
Definition store_find (d p : bits) (s e : Z) (bytealigned : bool) : res Z :=
  if negb bytealigned then Ok (ba_find d p s e)
  else do l <- findall_store_msb0 d p s e bytealigned; Ok (match l with [] => -1 | q :: _ => q end).
Definition store_rfind (d p : bits) (s e : Z) (bytealigned : bool) : res Z :=
  if negb bytealigned then Ok (ba_rfind d p s e)
  else Ok (match rfindall_store_msb0 d p s e bytealigned with [] => -1 | q :: _ => q end).

(* ---------- Bits level ---------- *)
Definition find_msb0 (d p : bits) (s e : Z) (ba : bool) : res (option Z) :=
  do q <- store_find d p s e ba; Ok (if q =? -1 then None else Some q).
Definition rfind_msb0 (d p : bits) (s e : Z) (ba : bool) : res (option Z) :=
  do q <- store_rfind d p s e ba; Ok (if q =? -1 then None else Some q).

(* the msb0 window that an lsb0 [start, end) denotes *)
Definition lsb0_window (d : bits) (s e : Z) : res (Z * Z) :=
  do k <- offset_slice_indices_lsb0 (mkslice (Some s) (Some e) None) (zlen d);
  validate_slice d (s_start k) (s_stop k).

(* _findall_lsb0: search chunks starting near the end and moving back (fix D15c/D15d):
   hi = msb0_end - len(bs); while hi >= msb0_start: lo = max(msb0_start, hi - increment + 1);
   found = matches starting in [lo, hi]; pop from the end ...; hi = lo - 1 *)
Fixpoint emit_lsb0 (d p : bits) (l : list Z) (count : option Z) (ba : bool) (c : Z) : list Z * Z * bool :=
  match l with
  | [] => ([], c, false)
  | q :: l' =>
      if (match count with Some k => c >=? k | None => false end) then ([], c, true) else
      let lsb0_pos := zlen d - q - zlen p in
      if negb ba || (lsb0_pos mod 8 =? 0) then
        let '(r, c', stop) := emit_lsb0 d p l' count ba (c + 1) in (lsb0_pos :: r, c', stop)
      else emit_lsb0 d p l' count ba c
  end.

Fixpoint lsb0_chunks (fuel : nat) (d p : bits) (ms increment hi : Z)
         (count : option Z) (ba : bool) (c : Z) : res (list Z) :=
  match fuel with
  | O => Err OutOfFuel
  | S f =>
      if hi >=? ms then
        let lo := Z.max ms (hi - increment + 1) in
        do found <- findall_store_msb0 d p lo (hi + zlen p) false;
        let '(out, c', stopped) := emit_lsb0 d p (rev found) count ba c in
        if stopped then Ok out else
        do rest <- lsb0_chunks f d p ms increment (lo - 1) count ba c'; Ok (out ++ rest)
      else Ok []
  end.

Definition findall_lsb0 (d p : bits) (s e : Z) (count : option Z) (ba : bool) : res (list Z) :=
  if s <=? e then
    do2 (ms, me) <- lsb0_window d s e;
    let increment := Z.max 8192 (zlen p * 80) in
    lsb0_chunks (S (length d)) d p ms increment (me - zlen p) count ba 0
  else Err AssertionError.

Definition find_lsb0 (d p : bits) (s e : Z) (ba : bool) : res (option Z) :=
  if s <=? e then
    do2 (ms, me) <- lsb0_window d s e;
    if ba then   (* fix D15b: the lsb0 position must be aligned *)
      do l <- findall_lsb0 d p s e (Some 1) true;
      Ok (match l with q :: _ => Some q | [] => None end)
    else
    do r <- rfind_msb0 d p ms me false;
    Ok (match r with Some q => Some (zlen d - q - zlen p) | None => None end)
  else Err AssertionError.
Definition rfind_lsb0 (d p : bits) (s e : Z) (ba : bool) : res (option Z) :=
  if s <=? e then
    do2 (ms, me) <- lsb0_window d s e;
    if ba then
      do l <- findall_store_msb0 d p ms me false;
      Ok (match filter (fun q => (zlen d - q - zlen p) mod 8 =? 0) l with
          | q :: _ => Some (zlen d - q - zlen p) | [] => None end)
    else
    do r <- find_msb0 d p ms me false;
    Ok (match r with Some q => Some (zlen d - q - zlen p) | None => None end)
  else Err AssertionError.

(* Bits.find / rfind : the public entry points; `ba` is the resolved bytealigned
   (explicit argument or options.bytealigned) *)
Definition bs_find (lsb0 : bool) (d p : bits) (start stop : option Z) (ba : bool) : res (option Z) :=
  if zlen p =? 0 then Err ValueError else
  do2 (s, e) <- validate_slice d start stop;
  if lsb0 then find_lsb0 d p s e ba else find_msb0 d p s e ba.
Definition bs_rfind (lsb0 : bool) (d p : bits) (start stop : option Z) (ba : bool) : res (option Z) :=
  do2 (s, e) <- validate_slice d start stop;
  if zlen p =? 0 then Err ValueError else
  if lsb0 then rfind_lsb0 d p s e ba else rfind_msb0 d p s e ba.

Definition take_count {A} (count : option Z) (l : list A) : list A :=
  match count with None => l | Some c => firstn (Z.to_nat c) l end.

Definition findall_msb0 (d p : bits) (s e : Z) (count : option Z) (ba : bool) : res (list Z) :=
  do l <- findall_store_msb0 d p s e ba; Ok (take_count count l).

Definition bs_findall (lsb0 : bool) (d p : bits) (start stop : option Z) (count : option Z) (ba : bool) : res (list Z) :=
  if (match count with Some c => c <? 0 | None => false end) then Err ValueError else
  if zlen p =? 0 then Err ValueError else       (* fix D22 *)
  do2 (s, e) <- validate_slice d start stop;
  if lsb0 then findall_lsb0 d p s e count ba else findall_msb0 d p s e count ba.

(* __contains__: Bits.find(self, bs, bytealigned=False) *)
Definition bs_contains (lsb0 : bool) (d p : bits) : res bool :=
  do r <- bs_find lsb0 d p None None false; Ok (match r with Some _ => true | None => false end).

(* startswith / endswith *)
Definition bs_startswith (lsb0 : bool) (d p : bits) (start stop : option Z) : res bool :=
  do2 (s, e) <- validate_slice d start stop;
  if e >=? s + zlen p then do sl <- getslice lsb0 d (Some s) (Some (s + zlen p)); Ok (beq_bits sl p) else Ok false.
Definition bs_endswith (lsb0 : bool) (d p : bits) (start stop : option Z) : res bool :=
  do2 (s, e) <- validate_slice d start stop;
  if s + zlen p <=? e then do sl <- getslice lsb0 d (Some (e - zlen p)) (Some e); Ok (beq_bits sl p) else Ok false.

(* count(value) *)
Definition bs_count (d : bits) (v : bool) : Z :=
  let ones := zlen (filter (fun x => x) d) in if v then ones else zlen d - ones.

(* cut(bits, start, end, count) *)
Fixpoint cut_loop (fuel : nat) (lsb0 : bool) (d : bits) (n s e : Z) (count : option Z) (c : Z) : res (list bits) :=
  match fuel with
  | O => Err OutOfFuel
  | S f =>
      if (match count with None => true | Some k => c <? k end) then
        do chunk <- getslice lsb0 d (Some s) (Some (Z.min (s + n) e));
        if zlen chunk =? 0 then Ok [] else
        if negb (zlen chunk =? n) then Ok [chunk] else
        do rest <- cut_loop f lsb0 d n (s + n) e count (c + 1); Ok (chunk :: rest)
      else Ok []
  end.
Definition bs_cut (lsb0 : bool) (d : bits) (n : Z) (start stop : option Z) (count : option Z) : res (list bits) :=
  do2 (s, e) <- validate_slice d start stop;
  if (match count with Some c => c <? 0 | None => false end) then Err ValueError else
  if n <=? 0 then Err ValueError else
  cut_loop (S (length d)) lsb0 d n s e count 0.

(* split(delimiter, start, end, count, bytealigned): uses _find_msb0 and _slice (mode dependent) *)
Fixpoint split_loop (fuel : nat) (lsb0 : bool) (d p : bits) (e : Z) (count : option Z) (ba : bool)
         (startpos pos c : Z) : res (list bits) :=
  match fuel with
  | O => Err OutOfFuel
  | S f =>
      if (match count with None => true | Some k => c <? k end) then
        let pos := pos + zlen p in
        do found <- find_msb0 d p pos e ba;
        match found with
        | None => do x <- getslice lsb0 d (Some startpos) (Some e); Ok [x]
        | Some q => do x <- getslice lsb0 d (Some startpos) (Some q);
                    do rest <- split_loop f lsb0 d p e count ba q q (c + 1); Ok (x :: rest)
        end
      else Ok []
  end.
Definition bs_split (lsb0 : bool) (d p : bits) (start stop : option Z) (count : option Z) (ba : bool) : res (list bits) :=
  if zlen p =? 0 then Err ValueError else
  do2 (s, e) <- validate_slice d start stop;
  if (match count with Some c => c <? 0 | None => false end) then Err ValueError else
  if (match count with Some c => c =? 0 | None => false end) then Ok [] else
  do found <- find_msb0 d p s e ba;
  match found with
  | None => do x <- getslice lsb0 d (Some s) (Some e); Ok [x]
  | Some q => do x <- getslice lsb0 d (Some s) (Some q);
              do rest <- split_loop (S (length d)) lsb0 d p e count ba q q 1; Ok (x :: rest)
  end.

(* BitArray._replace: collect non-overlapping matches, rebuild *)
Fixpoint collect_points (found : list Z) (oldlen : Z) (count : Z) (acc : list Z) : list Z :=
  (* acc is reversed *)
  match found with
  | [] => rev acc
  | x :: rest =>
      let acc' := match acc with
                  | [] => [x]
                  | last :: _ => if x >=? last + oldlen then x :: acc else acc
                  end in
      if negb (count =? 0) && (zlen acc' =? count) then rev acc' else collect_points rest oldlen count acc'
  end.

Fixpoint rebuild (lsb0 : bool) (d new_ : bits) (oldlen : Z) (points : list Z) : res (list bits) :=
  (* pieces after the first replacement: new, d[p_i+old : p_{i+1}], ..., new, d[p_last+old:] *)
  match points with
  | [] => Ok []
  | [p] => do tail <- getslice lsb0 d (Some (p + oldlen)) None; Ok [new_; tail]
  | p :: ((q :: _) as rest) =>
      do mid <- getslice lsb0 d (Some (p + oldlen)) (Some q);
      do more <- rebuild lsb0 d new_ oldlen rest; Ok (new_ :: mid :: more)
  end.

Definition ba_replace (lsb0 : bool) (d old new_ : bits) (start stop : option Z) (count : option Z) (ba : bool) : res (bits * Z) :=
  if zlen old =? 0 then Err ValueError else          (* fix D53: the checks come before the count = 0 shortcut *)
  do2 (s, e) <- validate_slice d start stop;
  match count with Some 0 => Ok (d, 0) | _ =>
  let cnt := match count with None => 0 | Some c => c end in
  do found <- bs_findall lsb0 d old (Some s) (Some e) None ba;
  let points := collect_points found (zlen old) cnt [] in
  match points with
  | [] => Ok (d, 0)
  | p0 :: _ =>
      do first <- getslice lsb0 d (Some 0) (Some p0);
      do more <- rebuild lsb0 d new_ (zlen old) points;
      let pieces := first :: more in
      let pieces := if lsb0 then rev pieces else pieces in
      Ok (concat pieces, zlen points)
  end
  end.
