(* Stream.v — hand model of the stream classes (bitstring/bitstream.py) as a machine over (bits, pos):
   ConstBitStream: read readlist peek peeklist readto bytealign pos/bytepos find rfind __getitem__ copy operators
   BitStream: append += prepend insert overwrite __setitem__ __delitem__ replace clear and the inherited
              BitArray mutators that do not touch pos.
   Token interpretation: DtypeDefinition.read_fn wrappers (dtypes.py:291-317) and Bits._read_dtype_list. *)
From BS Require Import Prims BitsCore Mutators Search Golomb.
Open Scope Z_scope.

Record stream := mkstream { sbits : bits; spos : Z }.

(* ---------------- tokens and values ---------------- *)
Inductive kind := KBits | KUint | KInt | KBin | KHex | KBool | KPad | KBytes.
Inductive value := ValBits (b : bits) | ValZ (z : Z) | ValBool (b : bool) | ValNone.
Inductive token :=
| TFixed (k : kind) (n : Z)      (* 'uint:12', 'bits:5', 'bytes:2' (n in units: bytes count), 'bool', 'pad:3' *)
| TStretch (k : kind)            (* 'bin', 'bits', 'bytes', 'uint' ... without a length *)
| TVar (c : gcode)               (* 'ue' 'se' 'uie' 'sie' *)
| TCount (n : Z).                (* an integer: like 'bits:n' *)

Definition bits_per_item (k : kind) : Z := match k with KBytes => 8 | _ => 1 end.

(* DtypeDefinition.get_dtype: allowed lengths (hex: multiples of 4, bool: exactly 1) *)
Definition length_allowed (k : kind) (n : Z) : bool :=
  match k with
  | KBool => n =? 1
  | KHex => n mod 4 =? 0
  | _ => true
  end.

(* the get_fn of each kind on an exact-length bitstring *)
Definition interp (k : kind) (b : bits) : res value :=
  match k with
  | KBits | KBin | KBytes => Ok (ValBits b)
  | KHex => if zlen b mod 4 =? 0 then Ok (ValBits b) else Err ValueError
  | KUint => if zlen b =? 0 then Err ValueError else do v <- ba2int b false; Ok (ValZ v)
  | KInt => if zlen b =? 0 then Err ValueError else do v <- ba2int b true; Ok (ValZ v)
  | KBool => do x <- seq_getitem b 0; Ok (ValBool x)   (* _getbool = self[0] *)
  | KPad => Ok ValNone
  end.

(* read_fn(bs, start, length) for ordinary fixed-length dtypes:
     if len(bs) < start + length: ReadError ; get_fn(bs[start:start+length])
   read_fn(bs, start) for single-allowed-length dtypes (bool): get_fn(bs[start:start+1]) with the
   allowed-length check inside get_fn; fix D11 adds the same ReadError guard *)
Definition read_fixed (k : kind) (b : bits) (start bitlength : Z) : res value :=
  if zlen b <? start + bitlength then Err ReadError else
  do sl <- seq_slice false b (mkslice (Some start) (Some (start + bitlength)) None);
  match k with
  | KBool => if zlen sl =? 1 then interp k sl else Err ValueError
  | _ => interp k sl
  end.

(* Dtype(name, length) creation for a fixed token; None on failure (ValueError) *)
Definition make_dtype (k : kind) (n : Z) : res Z :=   (* returns bitlength *)
  if n <? 0 then Err ValueError else     (* fix D28: get_dtype rejects negative lengths *)
  if length_allowed k n then Ok (n * bits_per_item k) else Err ValueError.

(* ---------------- ConstBitStream.read ---------------- *)
Definition read_token (s : stream) (t : token) : stream * res value :=
  let b := sbits s in let p := spos s in
  match t with
  | TCount n =>
      if n <? 0 then (s, Err ValueError) else
      if n >? zlen b - p then (s, Err ReadError) else
      match getslice false b (Some p) (Some (p + n)) with
      | Ok sl => (mkstream b (p + n), Ok (ValBits sl))
      | Err e => (s, Err e)
      end
  | TVar c =>
      match read_fn_var (g_read c) b p with
      | Ok (x, p') => if p' >? zlen b then (s, Err ReadError) else (mkstream b p', Ok (ValZ x))
      | Err e => (s, Err e)
      end
  | TFixed k n =>
      match make_dtype k n with
      | Err e => (s, Err e)
      | Ok bl =>
          match read_fixed k b p bl with
          | Ok v => if p + bl >? zlen b then (s, Err ReadError) else (mkstream b (p + bl), Ok v)
          | Err e => (s, Err e)
          end
      end
  | TStretch k =>
      let bitlength := zlen b - p in
      if bitlength mod bits_per_item k =? 0 then
        match make_dtype k (bitlength / bits_per_item k) with
        | Err e => (s, Err e)
        | Ok bl =>
            match read_fixed k b p bl with
            | Ok v => if p + bl >? zlen b then (s, Err ReadError) else (mkstream b (p + bl), Ok v)
            | Err e => (s, Err e)
            end
        end
      else (s, Err ValueError)
  end.

Definition peek_token (s : stream) (t : token) : stream * res value :=
  let '(_, r) := read_token s t in (s, r).

(* ---------------- _read_dtype_list (readlist / unpack) ---------------- *)
Definition is_stretchy (t : token) : bool := match t with TStretch _ => true | _ => false end.
Definition is_variable (t : token) : bool := match t with TVar _ => true | _ => false end.
Definition token_bitlength (t : token) : res Z :=
  match t with
  | TFixed k n => make_dtype k n
  | TCount n => if n <? 0 then Err ValueError else Ok n    (* fix D10: rejected while the list is built *)
  | _ => Ok 0
  end.

(* first pass: at most one stretchy token; no variable-length token after it; sum of later lengths *)
Fixpoint scan_tokens (ts : list token) (has_stretchy : bool) (after : Z) : res Z :=
  match ts with
  | [] => Ok after
  | t :: rest =>
      do bl <- token_bitlength t;      (* Dtype creation errors surface when the list is built *)
      if is_stretchy t then
        if has_stretchy then Err BsError else scan_tokens rest true after
      else if has_stretchy then
        if is_variable t then Err BsError else scan_tokens rest true (after + bl)
      else scan_tokens rest has_stretchy after
  end.

Fixpoint read_list_loop (b : bits) (ts : list token) (pos after : Z) : res (list value * Z) :=
  match ts with
  | [] => Ok ([], pos)
  | t :: rest =>
      do2 (v, pos') <-
        match t with
        | TStretch k =>
            let bitlength := Z.max (zlen b - pos - after) 0 in
            if bitlength mod bits_per_item k =? 0 then
              do bl <- make_dtype k (bitlength / bits_per_item k);
              do v <- read_fixed k b pos bl; Ok (v, pos + bl)
            else Err ValueError
        | TFixed k n => do bl <- make_dtype k n; do v <- read_fixed k b pos bl; Ok (v, pos + bl)
        | TCount n =>
            do v <- read_fixed KBits b pos n; Ok (v, pos + n)
        | TVar c => do2 (x, p') <- read_fn_var (g_read c) b pos; Ok (ValZ x, p')
        end;
      do2 (vs, pos'') <- read_list_loop b rest pos' after;
      Ok ((match v with ValNone => vs | _ => v :: vs end), pos'')
  end.

(* _readlist builds the whole list of Dtypes first (an invalid token anywhere fails here, in order), and only then
   _read_dtype_list looks at the structure (more than one filler, a variable-length token after the filler) *)
Fixpoint check_tokens (ts : list token) : res unit :=
  match ts with [] => Ok tt | t :: rest => do _ <- token_bitlength t; check_tokens rest end.

Definition read_dtype_list (b : bits) (ts : list token) (pos : Z) : res (list value * Z) :=
  do _ <- check_tokens ts;
  do after <- scan_tokens ts false 0;
  read_list_loop b ts pos after.

(* readlist: value, self._pos = self._readlist(fmt, self._pos)  — pos assigned only on success *)
Definition readlist (s : stream) (ts : list token) : stream * res (list value) :=
  match read_dtype_list (sbits s) ts (spos s) with
  | Ok (vs, p) => (mkstream (sbits s) p, Ok vs)
  | Err e => (s, Err e)
  end.
Definition peeklist (s : stream) (ts : list token) : stream * res (list value) :=
  let '(_, r) := readlist s ts in (s, r).
(* Bits.unpack: _readlist(fmt, 0)[0] *)
Definition unpack (b : bits) (ts : list token) : res (list value) :=
  do2 (vs, _) <- read_dtype_list b ts 0; Ok vs.

(* ---------------- positioning ---------------- *)
Definition set_pos (s : stream) (p : Z) : stream * res unit :=
  if p <? 0 then (s, Err ValueError) else
  if p >? zlen (sbits s) then (s, Err ValueError) else (mkstream (sbits s) p, Ok tt).
Definition set_bytepos (s : stream) (p : Z) : stream * res unit := set_pos s (p * 8).
Definition get_bytepos (s : stream) : res Z :=
  if spos s mod 8 =? 0 then Ok (spos s / 8) else Err ByteAlignError.
Definition bytealign (s : stream) : stream * res Z :=
  let skipped := (8 - spos s mod 8) mod 8 in
  match set_pos s (spos s + skipped) with
  | (s', Ok _) => (s', Ok skipped)
  | (s', Err e) => (s', Err e)
  end.

(* find / rfind move pos to the match *)
Definition st_find (lsb0 : bool) (s : stream) (p : bits) (start stop : option Z) (ba : bool) : stream * res (option Z) :=
  match bs_find lsb0 (sbits s) p start stop ba with
  | Ok (Some q) => (mkstream (sbits s) q, Ok (Some q))
  | r => (s, r)
  end.
Definition st_rfind (lsb0 : bool) (s : stream) (p : bits) (start stop : option Z) (ba : bool) : stream * res (option Z) :=
  match bs_rfind lsb0 (sbits s) p start stop ba with
  | Ok (Some q) => (mkstream (sbits s) q, Ok (Some q))
  | r => (s, r)
  end.

(* readto(bs, bytealigned): find from pos; ReadError when absent; returns bits [oldpos, match end) *)
Definition readto (s : stream) (p : bits) (ba : bool) : stream * res bits :=
  let oldpos := spos s in
  match st_find false s p (Some oldpos) None ba with
  | (s', Ok (Some q)) =>
      let newpos := q + zlen p in
      match getslice false (sbits s) (Some oldpos) (Some newpos) with
      | Ok sl => (mkstream (sbits s) newpos, Ok sl)
      | Err e => (mkstream (sbits s) newpos, Err e)
      end
  | (s', Ok None) => (s', Err ReadError)
  | (s', Err e) => (s', Err e)
  end.

(* ---------------- BitStream mutators: content from Mutators.v, pos as documented in the code ---------------- *)
Definition on_content (s : stream) (r : res bits) (newpos : bits -> Z) : stream * res unit :=
  match r with
  | Ok b' => (mkstream b' (newpos b'), Ok tt)
  | Err e => (s, Err e)
  end.
Definition keep_pos (s : stream) (r : res bits) : stream * res unit := on_content s r (fun _ => spos s).
Definition reset_if_len_changed (s : stream) (r : res bits) : stream * res unit :=
  on_content s r (fun b' => if zlen b' =? zlen (sbits s) then spos s else 0).

Definition st_append (s : stream) (bs : bits) : stream * res unit :=
  let b' := ba_append false (sbits s) bs in (mkstream b' (zlen b'), Ok tt).
Definition st_prepend (s : stream) (bs : bits) : stream * res unit :=
  (mkstream (ba_prepend false (sbits s) bs) 0, Ok tt).
(* BitStream.insert(bs, pos=None) *)
Definition st_insert (s : stream) (bs : bits) (pos : option Z) : stream * res unit :=
  let p := match pos with None => spos s | Some v => v end in
  let p := if p <? 0 then p + zlen (sbits s) else p in
  if (0 <=? p) && (p <=? zlen (sbits s)) then
    (if zlen bs =? 0 then (s, Ok tt) else on_content s (insert_ false (sbits s) bs p) (fun _ => p + zlen bs))
  else (s, Err ValueError).
(* ConstBitStream.overwrite(bs, pos=None) (inherited by BitStream) *)
Definition st_overwrite (s : stream) (same_object : bool) (bs : bits) (pos : option Z) : stream * res unit :=
  let p := match pos with None => spos s | Some v => v end in
  let p := if p <? 0 then p + zlen (sbits s) else p in
  if (p <? 0) || (p >? zlen (sbits s)) then (s, Err ValueError)
  else if zlen bs =? 0 then (s, Ok tt) else on_content s (overwrite_ false same_object (sbits s) bs p) (fun _ => p + zlen bs).
Definition st_setitem_int (s : stream) (key : Z) (v : setval) := reset_if_len_changed s (ba_setitem_int false (sbits s) key v).
Definition st_setitem_slice (s : stream) (k : pyslice) (v : setval) := reset_if_len_changed s (ba_setitem_slice false (sbits s) k v).
Definition st_delitem_int (s : stream) (key : Z) := reset_if_len_changed s (ba_delitem_int false (sbits s) key).
Definition st_delitem_slice (s : stream) (k : pyslice) := reset_if_len_changed s (ba_delitem_slice false (sbits s) k).
Definition st_replace (s : stream) (old new_ : bits) (start stop : option Z) (count : option Z) (ba : bool) : stream * res Z :=
  match ba_replace false (sbits s) old new_ start stop count ba with
  | Ok (b', n) => (mkstream b' (if zlen b' =? zlen (sbits s) then spos s else 0), Ok n)
  | Err e => (s, Err e)
  end.
Definition st_clear (s : stream) : stream * res unit := (mkstream [] 0, Ok tt).
(* *= : _imul ; n = 0 goes through _clear which resets pos *)
Definition st_imul (s : stream) (n : Z) : stream * res unit :=
  match ba_imul false (sbits s) n with
  | Ok b' => (mkstream b' (if n =? 0 then 0 else spos s), Ok tt)
  | Err e => (s, Err e)
  end.

(* the stream invariant *)
Definition valid (s : stream) : Prop := 0 <= spos s <= zlen (sbits s).
Definition validb (s : stream) : bool := (0 <=? spos s) && (spos s <=? zlen (sbits s)).
