(* StreamProofs.v — C06: the position invariant over all histories, exact consumption, purity of peeks,
   restoration on failing reads. *)
From BS Require Import Prims BitsCore Mutators MutSpec MutProofs Search Golomb GolombSpec GolombProofs Stream SeqProofs.
From Coq Require Import ZifyBool.
Open Scope Z_scope.

(* ---------- reads ---------- *)
Theorem peek_pure s t : fst (peek_token s t) = s.
Proof. unfold peek_token. destruct (read_token s t). reflexivity. Qed.
Theorem peeklist_pure s ts : fst (peeklist s ts) = s.
Proof. unfold peeklist. destruct (readlist s ts). reflexivity. Qed.
Theorem peek_same_value s t : snd (peek_token s t) = snd (read_token s t).
Proof. unfold peek_token. destruct (read_token s t). reflexivity. Qed.
Theorem peeklist_same_value s ts : snd (peeklist s ts) = snd (readlist s ts).
Proof. unfold peeklist. destruct (readlist s ts). reflexivity. Qed.

Ltac break_match :=
  match goal with
  | |- context [match ?x with _ => _ end] => destruct x eqn:?
  | |- context [if ?x then _ else _] => destruct x eqn:?
  end.

Theorem read_error_restores s t e : snd (read_token s t) = Err e -> fst (read_token s t) = s.
Proof.
  unfold read_token. destruct t; repeat break_match; cbn [fst snd]; intros H; try reflexivity; discriminate.
Qed.
Theorem readlist_error_restores s ts e : snd (readlist s ts) = Err e -> fst (readlist s ts) = s.
Proof. unfold readlist. repeat break_match; cbn [fst snd]; intros H; try reflexivity; discriminate. Qed.

(* a successful read keeps the content and never moves pos beyond the end *)
Theorem read_keeps_content s t : sbits (fst (read_token s t)) = sbits s.
Proof. unfold read_token. destruct t; repeat break_match; reflexivity. Qed.

Lemma read_fixed_ok k b start bl v : read_fixed k b start bl = Ok v -> start + bl <= zlen b.
Proof. unfold read_fixed. destruct (zlen b <? start + bl) eqn:E; [discriminate|]. intros _. lia. Qed.

Lemma make_dtype_nonneg k n bl : make_dtype k n = Ok bl -> 0 <= bl.
Proof.
  unfold make_dtype. destruct (n <? 0) eqn:E; [discriminate|]. destruct (length_allowed k n); [|discriminate].
  intros [= <-]. destruct k; cbn; lia.
Qed.

Theorem read_valid s t : valid s -> valid (fst (read_token s t)).
Proof.
  unfold valid. intros [H0 H1]. unfold read_token. destruct t.
  - (* TFixed *)
    destruct (make_dtype k n) as [bl|] eqn:Em; [|cbn; lia].
    apply make_dtype_nonneg in Em.
    destruct (read_fixed k (sbits s) (spos s) bl) eqn:Er; [|cbn; lia].
    destruct (spos s + bl >? zlen (sbits s)) eqn:E; cbn [fst spos sbits]; lia.
  - (* TStretch *)
    destruct ((zlen (sbits s) - spos s) mod bits_per_item k =? 0); [|cbn; lia].
    destruct (make_dtype k ((zlen (sbits s) - spos s) / bits_per_item k)) as [bl|] eqn:Em; [|cbn; lia].
    apply make_dtype_nonneg in Em.
    destruct (read_fixed k (sbits s) (spos s) bl) eqn:Er; [|cbn; lia].
    destruct (spos s + bl >? zlen (sbits s)) eqn:E; cbn [fst spos sbits]; lia.
  - (* TVar *)
    destruct (read_fn_var (g_read c) (sbits s) (spos s)) as [[x p']|] eqn:Er; [|cbn; lia].
    destruct (p' >? zlen (sbits s)) eqn:E; cbn [fst spos sbits]; [lia|].
    (* the decoders only move forward; this is the one place where pos >= old pos is not needed: 0 <= p' *)
    split; [|lia].
    unfold read_fn_var in Er. destruct (seq_slice false (sbits s) (mkslice (Some (spos s)) None None)) as [tl|]; [|discriminate].
    destruct (g_read c tl 0) as [[y n]|e] eqn:Eg; [|destruct e; discriminate].
    injection Er as _ <-.
    apply g_read_forward in Eg. lia.
  - (* TCount *)
    destruct (n <? 0) eqn:En; [cbn; lia|]. destruct (n >? zlen (sbits s) - spos s) eqn:E; [cbn; lia|].
    destruct (getslice false (sbits s) (Some (spos s)) (Some (spos s + n))); cbn [fst spos sbits]; lia.
Qed.

Lemma tail_slice_len (b : bits) pos tl : 0 <= pos ->
  seq_slice false b (mkslice (Some pos) None None) = Ok tl -> zlen tl <= zlen b - pos \/ zlen tl = 0.
Proof.
  intros Hp H. destruct (Z_le_gt_dec pos (zlen b)) as [Hle|Hgt].
  - rewrite seq_slice_from in H by lia. injection H as <-. left. rewrite zlen_skipn. lia.
  - right. unfold seq_slice, slice_indices in H. cbn [s_step s_start s_stop] in H.
    change (1 =? 0) with false in H. change (1 <? 0) with false in H. cbv iota in H.
    unfold clamp_index in H. destruct (pos <? 0) eqn:E1; [lia|]. destruct (pos >? zlen b) eqn:E2; [|lia].
    cbn [bind] in H. unfold range_list in H. rewrite range_len_unit in H.
    replace (Z.max 0 (zlen b - zlen b)) with 0 in H by lia. cbn in H. injection H as <-. reflexivity.
Qed.

(* ---------- readlist ---------- *)
Definition tok_ok (t : token) : Prop := match t with TCount n => 0 <= n | _ => True end.

Lemma scan_tokens_ok ts : forall h a r, scan_tokens ts h a = Ok r -> Forall tok_ok ts.
Proof.
  induction ts as [|t ts IH]; intros h a r H; [constructor|].
  cbn [scan_tokens] in H. destruct (token_bitlength t) as [bl|] eqn:Eb; [|discriminate]. cbn [bind] in H.
  constructor.
  - destruct t; cbn; auto. cbn in Eb. destruct (n <? 0) eqn:E; [discriminate|lia].
  - destruct (is_stretchy t); [destruct h; [discriminate|eapply IH; eauto]|].
    destruct h; [destruct (is_variable t); [discriminate|]|]; eapply IH; eauto.
Qed.

Lemma scan_tokens_check ts : forall h a r, scan_tokens ts h a = Ok r -> check_tokens ts = Ok tt.
Proof.
  induction ts as [|t ts IH]; intros h a r H; [reflexivity|].
  cbn [scan_tokens check_tokens] in *. destruct (token_bitlength t) as [bl|] eqn:Eb; [|discriminate]. cbn [bind] in *.
  destruct (is_stretchy t); [destruct h; [discriminate|eapply IH; eauto]|].
  destruct h; [destruct (is_variable t); [discriminate|]|]; eapply IH; eauto.
Qed.

Lemma read_list_loop_pos b ts : forall pos after vs p, Forall tok_ok ts -> 0 <= pos ->
  read_list_loop b ts pos after = Ok (vs, p) -> pos <= p /\ (p <= zlen b \/ p = pos).
Proof.
  induction ts as [|t ts IH]; intros pos after vs p Hok Hpos H.
  - cbn in H. injection H as _ <-. lia.
  - inversion Hok as [|? ? Ht Hrest]; subst. cbn [read_list_loop] in H.
    match type of H with (do2 (v, pos') <- ?X; _) = _ => destruct X as [[v pos']|] eqn:Estep; [|discriminate] end.
    cbn [bind] in H.
    destruct (read_list_loop b ts pos' after) as [[vs' p'']|] eqn:Erest; [|discriminate].
    cbn [bind] in H. injection H as _ <-.
    assert (Hstep : pos <= pos' /\ (pos' <= zlen b \/ pos' = pos)).
    { destruct t.
      - destruct (make_dtype k n) as [bl|] eqn:Em; [|discriminate]. cbn [bind] in Estep.
        destruct (read_fixed k b pos bl) eqn:Er; [|discriminate]. cbn [bind] in Estep. injection Estep as _ <-.
        apply make_dtype_nonneg in Em. apply read_fixed_ok in Er. lia.
      - destruct (Z.max (zlen b - pos - after) 0 mod bits_per_item k =? 0); [|discriminate].
        destruct (make_dtype k _) as [bl|] eqn:Em; [|discriminate]. cbn [bind] in Estep.
        destruct (read_fixed k b pos bl) eqn:Er; [|discriminate]. cbn [bind] in Estep. injection Estep as _ <-.
        apply make_dtype_nonneg in Em. apply read_fixed_ok in Er. lia.
      - destruct (read_fn_var (g_read c) b pos) as [[x q]|] eqn:Er; [|discriminate]. cbn [bind] in Estep.
        injection Estep as _ <-.
        unfold read_fn_var in Er. destruct (seq_slice false b (mkslice (Some pos) None None)) as [tl|] eqn:Es; [|discriminate].
        destruct (g_read c tl 0) as [[y n]|e] eqn:Eg; [|destruct e; discriminate].
        injection Er as _ <-. pose proof (g_read_forward _ _ _ _ _ Eg) as Hfw.
        (* the decoder succeeded on bs[pos:], so it consumed at most len(bs[pos:]) bits *)
        split; [lia|]. left.
        assert (n <= zlen tl) by (eapply g_read_within; [|exact Eg]; lia).
        assert (zlen tl <= zlen b - pos \/ zlen tl = 0).
        { eapply tail_slice_len; [|exact Es]; lia. } lia.
      - cbn in Ht. destruct (read_fixed KBits b pos n) eqn:Er; [|discriminate]. cbn [bind] in Estep.
        injection Estep as _ <-. apply read_fixed_ok in Er. lia. }
    destruct Hstep as [H1 H2].
    destruct (IH pos' after vs' p'' Hrest ltac:(lia) Erest) as [H3 H4]. lia.
Qed.
