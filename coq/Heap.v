(* Heap.v — which BitStore each bitstring object owns or shares: the store-flow of every derivation
   route as read from the code (DESIGN.md §5 C04 has the table), as transitions of an explicit heap.
   bitstring/bits.py        __new__/__init__ _setauto_no_length_or_offset _setbits _copy __copy__ copy fromstring
                            tobitarray _addleft and every method returning a new bitstring
   bitstring/bitarray_.py   __init__ (copy an immutable store) __copy__ copy fromstring
   bitstring/bitstream.py   __init__ __copy__ (both classes) copy fromstring
   bitstring/bitstore.py    copy (share if immutable) / _copy (always copy)
   bitstring/bitstore_helpers.py  str_to_bitstore (LRU cache, result flagged immutable) *)
From BS Require Import Prims BitsCore.
Open Scope Z_scope.

Definition mutable (c : cls) : bool := match c with CBitArray | CBitStream => true | _ => false end.

(* a store: content + the advisory `immutable` flag of BitStore *)
Record hstore := mkhs { hbits : bits; hflag : bool }.
Record hobj := mkho { ocls : cls; osid : nat }.
Record heap := mkheap {
  stores : list hstore;           (* store id = index; stores are never freed in the model *)
  objects : list hobj;            (* object id = index *)
  cache : list nat                (* store ids held by the string -> store LRU cache (any subset of past parses) *)
}.

Definition get_store (h : heap) (sid : nat) : hstore := nth sid (stores h) (mkhs [] false).
Definition get_obj (h : heap) (oid : nat) : hobj := nth oid (objects h) (mkho CBits 0).
Definition value (h : heap) (oid : nat) : bits := hbits (get_store h (osid (get_obj h oid))).

Fixpoint set_nth_store (l : list hstore) (n : nat) (x : hstore) : list hstore :=
  match l, n with
  | [], _ => []
  | _ :: t, O => x :: t
  | a :: t, S n' => a :: set_nth_store t n' x
  end.

Definition alloc (h : heap) (b : bits) (flag : bool) : heap * nat :=
  (mkheap (stores h ++ [mkhs b flag]) (objects h) (cache h), length (stores h)).
Definition set_flag (h : heap) (sid : nat) (f : bool) : heap :=
  mkheap (set_nth_store (stores h) sid (mkhs (hbits (get_store h sid)) f)) (objects h) (cache h).
Definition add_obj (h : heap) (c : cls) (sid : nat) : heap :=
  mkheap (stores h) (objects h ++ [mkho c sid]) (cache h).

(* X.__init__ after the store has been installed:
   Bits / ConstBitStream: self._bitstore.immutable = True
   BitArray / BitStream: if self._bitstore.immutable: self._bitstore = self._bitstore._copy(); flag False *)
Definition finish_init (h : heap) (c : cls) (sid : nat) : heap :=
  if mutable c then
    if hflag (get_store h sid) then
      let '(h', sid') := alloc h (hbits (get_store h sid)) false in add_obj h' c sid'
    else add_obj h c sid
  else add_obj (set_flag h sid true) c sid.

(* BitStore.copy(): the same store if flagged immutable, else a fresh copy *)
Definition store_copy (h : heap) (sid : nat) : heap * nat :=
  if hflag (get_store h sid) then (h, sid) else alloc h (hbits (get_store h sid)) false.

Inductive hop :=
| HNew (c : cls) (b : bits)                 (* bin=, hex=, bytes=, bytearray, memoryview, array, iterable, bitarray, dtype keywords, file: a fresh store *)
| HFromCache (c : cls) (b : bits) (hit : option nat)   (* cls('0x..') / operand string / fromstring: str_to_bitstore; hit = index into `cache` on a cache hit *)
| HConstruct (c : cls) (src : nat)          (* cls(other_bitstring): _setauto -> BitStore.copy(), then __init__ *)
| HBitsKw (c : cls) (src : nat)             (* cls(bits=other) / x.bits = other : _setbits copies (fix D5) *)
| HCopyCopy (src : nat)                     (* copy.copy(x) / x.copy() for the classes where it makes a new object *)
| HDerive (c : cls) (src : nat) (f : bits -> bits)   (* slice, operators, join, pack, read bits, cut, split, _copy: BitStore(...) fresh *)
| HMutate (o : nat) (f : bits -> bits)      (* any in-place mutator of a mutable object *)
| HEvict (i : nat).                         (* the LRU cache drops an entry *)

Definition remove_nth {A} (l : list A) (n : nat) : list A := firstn n l ++ skipn (S n) l.

Definition hstep (h : heap) (op : hop) : heap :=
  match op with
  | HNew c b => let '(h', sid) := alloc h b false in finish_init h' c sid
  | HFromCache c b hit =>
      (* the cached store is flagged immutable; Bits/ConstBitStream keep it, BitArray/BitStream copy it
         (constructor: BitArray.__init__; fromstring: fix D6) *)
      let miss := let '(h', sid) := alloc h b true in (mkheap (stores h') (objects h') (sid :: cache h'), sid) in
      let '(h1, sid) := match hit with
                        | Some i => match nth_error (cache h) i with Some sid => (h, sid) | None => miss end
                        | None => miss
                        end in
      finish_init h1 c sid
  | HConstruct c src =>
      let '(h1, sid) := store_copy h (osid (get_obj h src)) in finish_init h1 c sid
  | HBitsKw c src =>
      let '(h1, sid) := alloc h (value h src) false in finish_init h1 c sid
  | HCopyCopy src =>
      let o := get_obj h src in
      match ocls o with
      | CBits => h                                        (* Bits.__copy__/copy: the same object *)
      | CConstBitStream => add_obj h CConstBitStream (osid o)   (* new object, same (immutable) store *)
      | CBitArray => let '(h1, sid) := alloc h (value h src) false in add_obj h1 CBitArray sid
      | CBitStream => let '(h1, sid) := store_copy h (osid o) in add_obj h1 CBitStream sid
      end
  | HDerive c src f =>
      let '(h1, sid) := alloc h (f (value h src)) false in
      (* object.__new__ + _bitstore assignment: no __init__, the flag stays False *)
      add_obj h1 c sid
  | HMutate o f =>
      let ob := get_obj h o in
      if mutable (ocls ob) then
        mkheap (set_nth_store (stores h) (osid ob) (mkhs (f (value h o)) (hflag (get_store h (osid ob))))) (objects h) (cache h)
      else h    (* immutable classes expose no mutating operation *)
  | HEvict i => mkheap (stores h) (objects h) (remove_nth (cache h) i)
  end.

Definition empty_heap : heap := mkheap [] [] [].
Definition hrun (h : heap) (ops : list hop) : heap := fold_left hstep ops h.
