(* LsbPack.v — C12 clause "read/peek/unpack/pack order" under lsb0, and C05 under lsb0.
   Pack.v's [pack true] reverses the per-token bit stores (as methods.py does); Stream.v's readers are msb0-only, so the
   mode-dependent readers are modelled here ([read_fixed_m], [read_step], [read_list_loop_m], [unpack_m], [readlist_m],
   [read_token_m]) and tied back to Stream.v for lsb0 = false. *)
From Coq Require Import ZArith List Bool Lia ZifyBool.
From BS Require Import Prims BitsCore Golomb GolombSpec GolombProofs IntCodec CodecProofs Mutators Search Stream StreamProofs
  Pack PackProofs SeqProofs MirrorProofs LsbSearch.
Open Scope Z_scope.

(* ================= the mode-dependent readers (dtypes.py read_fn, bits.py _read_dtype_list) ================= *)
(* get_fn: only _getbool (= self[0]) goes through a mode-dependent accessor; uint/int/bin/hex/bytes/bits read the store *)
Definition interp_m (lsb0 : bool) (k : kind) (b : bits) : res value :=
  match k with
  | KBool => do x <- bs_getitem_int lsb0 b 0; Ok (ValBool x)
  | _ => interp k b
  end.

(* read_fn(bs, start, length): ReadError guard, then get_fn(bs[start:start+length]) with Bits.__getitem__ (mode-dependent) *)
Definition read_fixed_m (lsb0 : bool) (k : kind) (b : bits) (start bitlength : Z) : res value :=
  if zlen b <? start + bitlength then Err ReadError else
  do sl <- bs_getitem_slice lsb0 b (mkslice (Some start) (Some (start + bitlength)) None);
  match k with
  | KBool => if zlen sl =? 1 then interp_m lsb0 k sl else Err ValueError
  | _ => interp_m lsb0 k sl
  end.

(* variable-length read_fn(bs, start): get_fn(bs[start:]); under lsb0 _readue/_readse/_readuie/_readsie raise ReadError
   at once (-> InterpretError in _getue -> ReadError in read_fn) *)
Definition read_var_m (lsb0 : bool) (c : gcode) (b : bits) (start : Z) : res (Z * Z) :=
  if lsb0 then do _ <- bs_getitem_slice true b (mkslice (Some start) None None); Err ReadError
  else read_fn_var (g_read c) b start.

(* one iteration of the second loop of _read_dtype_list, over the two read_fn families *)
Section Gen.
  Variable rf : kind -> bits -> Z -> Z -> res value.
  Variable rv : gcode -> bits -> Z -> res (Z * Z).
  Definition read_step_gen (b : bits) (t : token) (pos after : Z) : res (value * Z) :=
    match t with
    | TStretch k =>
        let bitlength := Z.max (zlen b - pos - after) 0 in
        if bitlength mod bits_per_item k =? 0 then
          do bl <- make_dtype k (bitlength / bits_per_item k);
          do v <- rf k b pos bl; Ok (v, pos + bl)
        else Err ValueError
    | TFixed k n => do bl <- make_dtype k n; do v <- rf k b pos bl; Ok (v, pos + bl)
    | TCount n => do v <- rf KBits b pos n; Ok (v, pos + n)
    | TVar c => do2 (x, p') <- rv c b pos; Ok (ValZ x, p')
    end.
  Fixpoint read_list_gen (b : bits) (ts : list token) (pos after : Z) : res (list value * Z) :=
    match ts with
    | [] => Ok ([], pos)
    | t :: rest =>
        do2 (v, pos') <- read_step_gen b t pos after;
        do2 (vs, pos'') <- read_list_gen b rest pos' after;
        Ok ((match v with ValNone => vs | _ => v :: vs end), pos'')
    end.
  (* _readlist: all Dtypes are built first, then the structure is checked, then the tokens are read *)
  Definition read_dtype_list_gen (b : bits) (ts : list token) (pos : Z) : res (list value * Z) :=
    do _ <- check_tokens ts;
    do after <- scan_tokens ts false 0;
    read_list_gen b ts pos after.
End Gen.

Definition read_step (lsb0 : bool) := read_step_gen (read_fixed_m lsb0) (read_var_m lsb0).
Definition read_list_loop_m (lsb0 : bool) := read_list_gen (read_fixed_m lsb0) (read_var_m lsb0).
Definition read_dtype_list_m (lsb0 : bool) := read_dtype_list_gen (read_fixed_m lsb0) (read_var_m lsb0).
(* Bits.unpack, ConstBitStream.readlist / peeklist *)
Definition unpack_m (lsb0 : bool) (b : bits) (ts : list token) : res (list value) :=
  do2 (vs, _) <- read_dtype_list_m lsb0 b ts 0; Ok vs.
Definition readlist_m (lsb0 : bool) (s : stream) (ts : list token) : stream * res (list value) :=
  match read_dtype_list_m lsb0 (sbits s) ts (spos s) with
  | Ok (vs, p) => (mkstream (sbits s) p, Ok vs)
  | Err e => (s, Err e)
  end.
Definition peeklist_m (lsb0 : bool) (s : stream) (ts : list token) : stream * res (list value) :=
  let '(_, r) := readlist_m lsb0 s ts in (s, r).

(* two reader families that agree token by token on two data of the same length agree on every token list *)
Lemma read_step_gen_rel rf rv rf' rv' (b b' : bits) : zlen b = zlen b' ->
  (forall k s l, rf k b s l = rf' k b' s l) -> (forall c s, rv c b s = rv' c b' s) ->
  forall t pos after, read_step_gen rf rv b t pos after = read_step_gen rf' rv' b' t pos after.
Proof. intros Hl Hf Hv t pos after. destruct t; cbn [read_step_gen]; rewrite ?Hl, ?Hv; try reflexivity.
  - destruct (make_dtype k n); [|reflexivity]. cbn [bind]. now rewrite Hf.
  - cbv zeta. destruct (_ =? 0); [|reflexivity]. destruct (make_dtype k _); [|reflexivity]. cbn [bind]. now rewrite Hf.
  - now rewrite Hf.
Qed.
Lemma read_list_gen_rel rf rv rf' rv' (b b' : bits) : zlen b = zlen b' ->
  (forall k s l, rf k b s l = rf' k b' s l) -> (forall c s, rv c b s = rv' c b' s) ->
  forall ts pos after, read_list_gen rf rv b ts pos after = read_list_gen rf' rv' b' ts pos after.
Proof.
  intros Hl Hf Hv ts. induction ts as [|t ts IH]; intros pos after; [reflexivity|]. cbn [read_list_gen].
  rewrite (read_step_gen_rel rf rv rf' rv' b b' Hl Hf Hv). destruct (read_step_gen rf' rv' b' t pos after) as [[v p]|]; [|reflexivity].
  cbn [bind]. now rewrite IH.
Qed.

(* ---------- for lsb0 = false these are the Stream.v functions ---------- *)
Lemma read_fixed_m_false k b start bl : read_fixed_m false k b start bl = read_fixed k b start bl.
Proof. unfold read_fixed_m, read_fixed. destruct k; reflexivity. Qed.

Lemma read_list_gen_stream b ts : forall pos after,
  read_list_gen read_fixed (fun c => read_fn_var (g_read c)) b ts pos after = read_list_loop b ts pos after.
Proof.
  induction ts as [|t ts IH]; intros pos after; [reflexivity|]. cbn [read_list_gen read_list_loop].
  destruct t; cbn [read_step_gen]; cbv zeta.
  - destruct (make_dtype k n); [|reflexivity]. cbn [bind].
    destruct (read_fixed k b pos a); [|reflexivity]. cbn [bind]. now rewrite IH.
  - destruct (_ =? 0); [|reflexivity]. destruct (make_dtype k _); [|reflexivity]. cbn [bind].
    destruct (read_fixed k b pos a); [|reflexivity]. cbn [bind]. now rewrite IH.
  - destruct (read_fn_var (g_read c) b pos) as [[x p]|]; [|reflexivity]. cbn [bind]. now rewrite IH.
  - destruct (read_fixed KBits b pos n); [|reflexivity]. cbn [bind]. now rewrite IH.
Qed.
Lemma read_list_loop_m_false b ts pos after : read_list_loop_m false b ts pos after = read_list_loop b ts pos after.
Proof.
  rewrite <- read_list_gen_stream. apply read_list_gen_rel; [reflexivity| |reflexivity]. intros; apply read_fixed_m_false.
Qed.

(* unpack / readlist with the option off are Stream.unpack / Stream.readlist *)
Theorem unpack_m_false b ts : unpack_m false b ts = unpack b ts.
Proof.
  unfold unpack_m, unpack, read_dtype_list_m, read_dtype_list_gen, read_dtype_list. destruct (check_tokens ts); [|reflexivity]. cbn [bind].
  destruct (scan_tokens ts false 0); [|reflexivity]. cbn [bind]. now rewrite <- read_list_loop_m_false.
Qed.
Theorem readlist_m_false s ts : readlist_m false s ts = readlist s ts.
Proof.
  unfold readlist_m, readlist, read_dtype_list_m, read_dtype_list_gen, read_dtype_list. destruct (check_tokens ts); [|reflexivity]. cbn [bind].
  destruct (scan_tokens ts false 0); [|reflexivity]. cbn [bind]. now rewrite <- read_list_loop_m_false.
Qed.

(* ================= 4. the mirror form: an lsb0 read is the msb0 read of the bit-reversed data ================= *)
Definition rev_value (v : value) : value := match v with ValBits b => ValBits (rev b) | _ => v end.
(* what the mirrored msb0 computation does with a field f cut out of rev d: the field is reversed back before it is interpreted *)
Definition interp_mirror (k : kind) (f : bits) : res value :=
  match k with KBool => interp k f | _ => interp k (rev f) end.
(* ... i.e. bit-valued results are the msb0 results reversed back, bool / pad results are the msb0 results,
   and integers are computed from the reversed field *)
Lemma interp_mirror_spec k f :
  interp_mirror k f = match k with KUint | KInt => interp k (rev f) | _ => res_map rev_value (interp k f) end.
Proof.
  destruct k; cbn [interp_mirror interp res_map rev_value]; try reflexivity.
  - rewrite zlen_rev. destruct (_ =? 0); reflexivity.
  - destruct (seq_getitem f 0); reflexivity.
Qed.

Definition read_fixed_mirror (k : kind) (b : bits) (start bitlength : Z) : res value :=
  if zlen b <? start + bitlength then Err ReadError else
  do sl <- seq_slice false b (mkslice (Some start) (Some (start + bitlength)) None);
  match k with
  | KBool => if zlen sl =? 1 then interp_mirror k sl else Err ValueError
  | _ => interp_mirror k sl
  end.
Definition read_var_mirror (c : gcode) (b : bits) (start : Z) : res (Z * Z) := Err ReadError.

Lemma read_fixed_lsb0_mirror k d start bl : read_fixed_m true k d start bl = read_fixed_mirror k (rev d) start bl.
Proof.
  unfold read_fixed_m, read_fixed_mirror. rewrite zlen_rev. destruct (zlen d <? start + bl); [reflexivity|].
  unfold bs_getitem_slice, getslice_withstep. rewrite mirror_getslice. unfold getslice_withstep_msb0.
  destruct (seq_slice false (rev d) _) as [sl|]; [|reflexivity]. cbn [res_map bind].
  destruct k; cbn [interp_m interp_mirror]; try reflexivity.
  rewrite zlen_rev. destruct (zlen sl =? 1); [|reflexivity].
  unfold bs_getitem_int, getindex. rewrite mirror_getindex, rev_involutive. reflexivity.
Qed.
Lemma read_var_lsb0 c d start : read_var_m true c d start = Err ReadError.
Proof.
  unfold read_var_m, bs_getitem_slice, getslice_withstep. rewrite mirror_getslice. unfold getslice_withstep_msb0, seq_slice, slice_indices.
  cbn [s_step]. change (1 =? 0) with false. cbv iota. reflexivity.
Qed.

(* THEOREM 4a. Python, lsb0 on: the second loop of _read_dtype_list on data d, for EVERY token list, position and filler
   allowance, returns what the msb0 loop returns on the bit-reversed data when every field is reversed back before its
   interpretation (exp-Golomb tokens: ReadError, they are refused under lsb0); same positions, same errors. *)
Theorem read_list_lsb0_mirror d ts pos after :
  read_list_loop_m true d ts pos after = read_list_gen read_fixed_mirror read_var_mirror (rev d) ts pos after.
Proof.
  apply read_list_gen_rel; [now rewrite zlen_rev| |]; intros.
  - apply read_fixed_lsb0_mirror.
  - apply read_var_lsb0.
Qed.
(* THEOREM 4b. the same for Bits.unpack / _readlist (token checks included) *)
Theorem unpack_lsb0_mirror d ts :
  unpack_m true d ts = do2 (vs, _) <- read_dtype_list_gen read_fixed_mirror read_var_mirror (rev d) ts 0; Ok vs.
Proof.
  unfold unpack_m, read_dtype_list_m, read_dtype_list_gen. destruct (check_tokens ts); [|reflexivity]. cbn [bind].
  destruct (scan_tokens ts false 0); [|reflexivity]. cbn [bind]. now rewrite <- read_list_lsb0_mirror.
Qed.
(* THEOREM 4c. ... and for readlist / peeklist on a stream (bits, pos): same values, same new pos, content unchanged *)
Theorem readlist_lsb0_mirror s ts :
  readlist_m true s ts =
  match read_dtype_list_gen read_fixed_mirror read_var_mirror (rev (sbits s)) ts (spos s) with
  | Ok (vs, p) => (mkstream (sbits s) p, Ok vs)
  | Err e => (s, Err e)
  end.
Proof.
  unfold readlist_m, read_dtype_list_m, read_dtype_list_gen. destruct (check_tokens ts); [|reflexivity]. cbn [bind].
  destruct (scan_tokens ts false 0); [|reflexivity]. cbn [bind]. now rewrite <- read_list_lsb0_mirror.
Qed.

(* THEOREM 4g (pure mirror for tokens whose value is made of bits). Python, lsb0 on: for token lists of bits / bin / hex /
   bytes / bool / pad tokens and integer counts (with or without a length-less token), reading from d returns exactly
   what msb0 reading returns on the bit-reversed d, each bit-valued result reversed back; same final position, same errors.
   (uint / int tokens are covered by 4a and 4d: they are whole-value interpretations of the field in STORED order, hence not
   the mirror image of anything.) *)
Definition nonint (k : kind) : bool := match k with KUint | KInt => false | _ => true end.
Definition bitlike (t : token) : bool :=
  match t with TFixed k _ | TStretch k => nonint k | TCount _ => true | TVar _ => false end.
Definition rev_step (vp : value * Z) : value * Z := (rev_value (fst vp), snd vp).
Definition rev_values (vp : list value * Z) : list value * Z := (map rev_value (fst vp), snd vp).

Lemma read_fixed_mirror_bits k b s l : nonint k = true -> read_fixed_mirror k b s l = res_map rev_value (read_fixed k b s l).
Proof.
  intros Hk. unfold read_fixed_mirror, read_fixed. destruct (zlen b <? s + l); [reflexivity|].
  destruct (seq_slice false b _) as [sl|]; [|reflexivity]. cbn [bind]. rewrite interp_mirror_spec.
  destruct k; try discriminate; try reflexivity. destruct (zlen sl =? 1); reflexivity.
Qed.
Lemma read_step_mirror_bits b t pos after : bitlike t = true ->
  read_step_gen read_fixed_mirror read_var_mirror b t pos after =
  res_map rev_step (read_step_gen read_fixed (fun c => read_fn_var (g_read c)) b t pos after).
Proof.
  intros Ht. destruct t; cbn [bitlike] in Ht; try discriminate; cbn [read_step_gen]; cbv zeta.
  - destruct (make_dtype k n); [|reflexivity]. cbn [bind]. rewrite read_fixed_mirror_bits by exact Ht.
    destruct (read_fixed k b pos a); reflexivity.
  - destruct (_ =? 0); [|reflexivity]. destruct (make_dtype k _); [|reflexivity]. cbn [bind].
    rewrite read_fixed_mirror_bits by exact Ht. destruct (read_fixed k b pos a); reflexivity.
  - rewrite read_fixed_mirror_bits by reflexivity. destruct (read_fixed KBits b pos n); reflexivity.
Qed.
Theorem read_list_lsb0_mirror_bits d ts : forallb bitlike ts = true -> forall pos after,
  read_list_loop_m true d ts pos after = res_map rev_values (read_list_loop (rev d) ts pos after).
Proof.
  intros Hts pos after. rewrite read_list_lsb0_mirror, <- read_list_gen_stream. revert pos.
  induction ts as [|t ts IH]; intros pos; [reflexivity|]. cbn [forallb] in Hts. apply andb_prop in Hts as [Ht Hts].
  cbn [read_list_gen]. rewrite (read_step_mirror_bits _ _ _ _ Ht).
  destruct (read_step_gen read_fixed _ (rev d) t pos after) as [[v p]|]; [|reflexivity]. cbn [res_map bind rev_step fst snd].
  rewrite (IH Hts). destruct (read_list_gen read_fixed _ (rev d) ts p after) as [[vs p']|]; [|reflexivity].
  cbn [res_map bind rev_values fst snd]. destruct v; reflexivity.
Qed.

(* THEOREM 4d (position form). Python, lsb0 on: reading a fixed-length token of bl bits at position p (in range) returns
   exactly what the msb0 read of the same stored bits returns at position len - p - bl: the field is the stored bits
   d[len-p-bl : len-p] in stored order, and uint / int / bin / hex / bytes / bool interpret it as in msb0 mode. *)
Theorem read_fixed_lsb0_pos k d p bl : 0 <= p -> 0 <= bl -> p + bl <= zlen d ->
  read_fixed_m true k d p bl = read_fixed k d (zlen d - p - bl) bl.
Proof.
  intros Hp Hbl Hr. rewrite read_fixed_lsb0_mirror. unfold read_fixed_mirror, read_fixed. rewrite zlen_rev.
  destruct (zlen d <? p + bl) eqn:E1; [lia|]. destruct (zlen d <? zlen d - p - bl + bl) eqn:E2; [lia|].
  rewrite !seq_slice_unit by (rewrite ?zlen_rev; lia). cbn [bind]. rewrite sub_rev by lia.
  replace (zlen d - (p + bl)) with (zlen d - p - bl) by lia. replace (zlen d - p - bl + bl) with (zlen d - p) by lia.
  set (f := sub d (zlen d - p - bl) (zlen d - p)).
  destruct k; cbn [interp_mirror]; rewrite ?rev_involutive; try reflexivity.
  rewrite zlen_rev. destruct (zlen f =? 1) eqn:E; [|reflexivity].
  destruct f as [|x [|y f']]; [discriminate| reflexivity|]. unfold zlen in E. cbn [length] in E. lia.
Qed.

Lemma read_step_lsb0_pos d t p after l : token_len t = Some l -> 0 <= p -> 0 <= l -> p + l <= zlen d ->
  read_step true d t p after =
  match read_step false d t (zlen d - p - l) after with Ok (v, _) => Ok (v, p + l) | Err e => Err e end.
Proof.
  intros Hl Hp Hl0 Hr. unfold read_step. destruct t as [k n| k | c | n]; cbn [token_len] in Hl; try discriminate; injection Hl as <-;
    cbn [read_step_gen].
  - destruct (make_dtype k n) as [bl|] eqn:Em; [|reflexivity]. cbn [bind].
    apply make_dtype_ok in Em as [-> _]. rewrite read_fixed_lsb0_pos, read_fixed_m_false by lia.
    destruct (read_fixed k d _ _); reflexivity.
  - rewrite read_fixed_lsb0_pos, read_fixed_m_false by lia. destruct (read_fixed KBits d _ _); reflexivity.
Qed.

(* ================= 1 / 2. pack under lsb0 ================= *)
(* the per-token bit stores (bsl in methods.py), with the arity check *)
Definition pack_parts (toks : list (token * option value)) (vals : list value) : res (list bits) :=
  do2 (bs, left) <- pack_loop toks vals;
  match left with [] => Ok bs | _ => Err ValueError end.
Definition no_var (toks : list (token * option value)) : bool := forallb (fun tv => negb (is_variable (fst tv))) toks.

(* THEOREM 1a. Python: pack builds the same list of per-token bit stores in both modes (so it fails in exactly the same
   cases with the same error: too few / too many values, a value out of range or of the wrong size) and joins it in
   order under msb0, in REVERSE order under lsb0: the first token ends up at the least significant (right-hand) end. *)
Theorem pack_by_parts lsb0 toks vals :
  pack lsb0 toks vals = res_map (fun bs => concat (if lsb0 then rev bs else bs)) (pack_parts toks vals).
Proof.
  unfold pack, pack_parts. destruct (pack_loop toks vals) as [[bs left]|]; [|reflexivity]. cbn [bind]. destruct left; reflexivity.
Qed.
Corollary pack_lsb0_same_errors toks vals e : pack true toks vals = Err e <-> pack false toks vals = Err e.
Proof. rewrite !pack_by_parts. destruct (pack_parts toks vals); cbn [res_map]; split; intros H; congruence. Qed.

Lemma zlen_concat_rev {A} (l : list (list A)) : zlen (concat (rev l)) = zlen (concat l).
Proof.
  induction l as [|x l IH]; [reflexivity|]. cbn [rev concat]. rewrite concat_app, !zlen_app, IH. cbn [concat]. rewrite app_nil_r. lia.
Qed.

(* THEOREM 2. Python: in either mode the packed bitstring is as long as the sum of the token lengths *)
Theorem pack_length_any lsb0 toks vals b total : pack lsb0 toks vals = Ok b -> sum_lens toks = Some total -> zlen b = total.
Proof.
  rewrite pack_by_parts. unfold pack_parts. destruct (pack_loop toks vals) as [[bs left]|] eqn:E; [|discriminate]. cbn [bind].
  destruct left; [|discriminate]. cbn [res_map]. intros [= <-] Hs. destruct lsb0; rewrite ?zlen_concat_rev; eapply pack_loop_len; eauto.
Qed.

(* values not consumed are passed through *)
Lemma pack_loop_frame toks : forall v1 v2 bs l1, pack_loop toks v1 = Ok (bs, l1) -> pack_loop toks (v1 ++ v2) = Ok (bs, l1 ++ v2).
Proof.
  induction toks as [|[t ov] rest IH]; intros v1 v2 bs l1 H.
  - cbn in *. now injection H as <- <-.
  - cbn [pack_loop] in *. destruct ov as [v|]; [|destruct (is_pad t)].
    + cbn [bind] in *. destruct (encode_token t v); [|discriminate]. cbn [bind] in *.
      destruct (pack_loop rest v1) as [[bs' l']|] eqn:Ep; [|discriminate]. cbn [bind] in H. injection H as <- <-.
      now rewrite (IH _ v2 _ _ Ep).
    + cbn [bind] in *. destruct (encode_token t ValNone); [|discriminate]. cbn [bind] in *.
      destruct (pack_loop rest v1) as [[bs' l']|] eqn:Ep; [|discriminate]. cbn [bind] in H. injection H as <- <-.
      now rewrite (IH _ v2 _ _ Ep).
    + destruct v1 as [|x xs]; [discriminate|]. cbn [app bind] in *. destruct (encode_token t x); [|discriminate]. cbn [bind] in *.
      destruct (pack_loop rest xs) as [[bs' l']|] eqn:Ep; [|discriminate]. cbn [bind] in H. injection H as <- <-.
      now rewrite (IH _ v2 _ _ Ep).
Qed.

Lemma pack_loop_rev toks : forall vals bs, pack_loop toks vals = Ok (bs, []) -> pack_loop (rev toks) (rev vals) = Ok (rev bs, []).
Proof.
  induction toks as [|[t ov] rest IH]; intros vals bs H.
  - cbn in H. injection H as <- ->. reflexivity.
  - cbn [pack_loop] in H. cbn [rev]. destruct ov as [v|]; [|destruct (is_pad t) eqn:Epad].
    + cbn [bind] in H. destruct (encode_token t v) as [b|] eqn:Ee; [|discriminate]. cbn [bind] in H.
      destruct (pack_loop rest vals) as [[bs' l']|] eqn:Ep; [|discriminate]. cbn [bind] in H. injection H as <- ->.
      rewrite (pack_loop_app _ _ _ _ _ (IH _ _ Ep)). cbn [pack_loop bind rev]. rewrite Ee. reflexivity.
    + cbn [bind] in H. destruct (encode_token t ValNone) as [b|] eqn:Ee; [|discriminate]. cbn [bind] in H.
      destruct (pack_loop rest vals) as [[bs' l']|] eqn:Ep; [|discriminate]. cbn [bind] in H. injection H as <- ->.
      rewrite (pack_loop_app _ _ _ _ _ (IH _ _ Ep)). cbn [pack_loop bind rev]. rewrite Epad. cbn [bind]. rewrite Ee. reflexivity.
    + destruct vals as [|x xs]; [discriminate|]. cbn [bind] in H. destruct (encode_token t x) as [b|] eqn:Ee; [|discriminate]. cbn [bind] in H.
      destruct (pack_loop rest xs) as [[bs' l']|] eqn:Ep; [|discriminate]. cbn [bind] in H. injection H as <- ->.
      cbn [rev]. rewrite (pack_loop_app _ _ _ _ _ (pack_loop_frame _ _ [x] _ _ (IH _ _ Ep))).
      cbn [app pack_loop bind rev]. rewrite Epad. cbn [bind]. rewrite Ee. reflexivity.
Qed.

Lemma pack_parts_rev toks vals bs : pack_parts toks vals = Ok bs -> pack_parts (rev toks) (rev vals) = Ok (rev bs).
Proof.
  unfold pack_parts. destruct (pack_loop toks vals) as [[bs0 left]|] eqn:E; [|discriminate]. cbn [bind].
  destruct left; [|discriminate]. intros [= <-]. rewrite (pack_loop_rev _ _ _ E). reflexivity.
Qed.

(* every failure of a token that is not exp-Golomb is the model's ValueError (CreationError) *)
Lemma int2bitstore_err v n s e : int2bitstore v n s = Err e -> e = ValueError.
Proof.
  unfold int2bitstore, int2ba. destruct (n <=? 0) eqn:E0; [congruence|]. rewrite !Z.shiftl_1_l. destruct s.
  - destruct ((v <? - 2 ^ (n - 1)) || (v >=? 2 ^ (n - 1))) eqn:E; [|discriminate].
    replace ((v >=? 2 ^ (n - 1)) || (v <? - 2 ^ (n - 1))) with true by lia. congruence.
  - destruct ((v <? 0) || (v >=? 2 ^ n)) eqn:E; [|discriminate].
    destruct (v >=? 2 ^ n) eqn:E1; [congruence|]. destruct (v <? 0) eqn:E2; [congruence|]. lia.
Qed.
Lemma make_dtype_err k n e : make_dtype k n = Err e -> e = ValueError.
Proof. unfold make_dtype. destruct (n <? 0); [congruence|]. destruct (length_allowed k n); congruence. Qed.
Lemma encode_token_err t v e : is_variable t = false -> encode_token t v = Err e -> e = ValueError.
Proof.
  intros Hv H. destruct t as [k n| k | c | n]; [| | discriminate |].
  - destruct k, v; cbn [encode_token] in H; try congruence;
      (destruct (make_dtype _ n) eqn:Em; [|cbn [bind] in H; apply make_dtype_err in Em; congruence]); cbn [bind] in H;
      try (destruct (zlen b =? _); congruence); try congruence.
    + unfold set_intlike in H. destruct (n =? 0); [congruence|]. eapply int2bitstore_err; eauto.
    + unfold set_intlike in H. destruct (n =? 0); [congruence|]. eapply int2bitstore_err; eauto.
  - destruct k, v; cbn [encode_token] in H; try congruence; destruct (_ =? 0); congruence.
  - destruct v; cbn [encode_token] in H; try congruence. destruct (n <? 0); [congruence|]. destruct (zlen b =? n); congruence.
Qed.
Lemma pack_loop_err toks : forall vals e, no_var toks = true -> pack_loop toks vals = Err e -> e = ValueError.
Proof.
  induction toks as [|[t ov] rest IH]; intros vals e Hn H; [discriminate|].
  cbn [no_var forallb fst] in Hn. apply andb_prop in Hn as [Hv Hn]. apply negb_true_iff in Hv.
  cbn [pack_loop] in H.
  match type of H with (do2 (v, vals') <- ?X; _) = _ => destruct X as [[v vals']|] eqn:Es end.
  - cbn [bind] in H. destruct (encode_token t v) eqn:Ee; [|cbn [bind] in H; injection H as <-; eapply encode_token_err; eauto].
    cbn [bind] in H. destruct (pack_loop rest vals') as [[bs l]|] eqn:Ep; [discriminate|]. cbn [bind] in H. injection H as <-.
    eapply IH; eauto.
  - cbn [bind] in H. injection H as <-. destruct ov; [discriminate|]. destruct (is_pad t); [discriminate|]. destruct vals; congruence.
Qed.
Lemma pack_parts_err toks vals e : no_var toks = true -> pack_parts toks vals = Err e -> e = ValueError.
Proof.
  unfold pack_parts. intros Hn. destruct (pack_loop toks vals) as [[bs left]|] eqn:E.
  - cbn [bind]. destruct left; congruence.
  - cbn [bind]. intros [= <-]. eapply pack_loop_err; eauto.
Qed.
Lemma no_var_rev toks : no_var (rev toks) = no_var toks.
Proof.
  unfold no_var. induction toks as [|x l IH]; [reflexivity|]. cbn [rev forallb]. rewrite forallb_app, IH. cbn [forallb]. 
  destruct (negb _), (forallb _ l); reflexivity.
Qed.

(* THEOREM 1b. Python: for formats without exp-Golomb tokens, packing under lsb0 is packing the reversed token list with
   the reversed values under msb0 — same bits when it succeeds, and it fails (CreationError) in exactly the same cases. *)
Theorem pack_lsb0_is_reversed_msb0 toks vals : no_var toks = true ->
  pack true toks vals = pack false (rev toks) (rev vals).
Proof.
  intros Hn. rewrite !pack_by_parts. destruct (pack_parts toks vals) as [bs|e] eqn:E.
  - rewrite (pack_parts_rev _ _ _ E). reflexivity.
  - pose proof (pack_parts_err _ _ _ Hn E) as ->. destruct (pack_parts (rev toks) (rev vals)) as [bs'|e'] eqn:E'.
    + apply pack_parts_rev in E'. rewrite !rev_involutive in E'. congruence.
    + apply pack_parts_err in E' as ->; [reflexivity|]. now rewrite no_var_rev.
Qed.

(* ================= 3. unpack inverts pack under lsb0 ================= *)
(* msb0 single-token read of an encoded field (extracted from PackProofs.token_roundtrip) *)
Lemma read_step_msb0_encoded t v e : encode_token t v = Ok e -> supported t v = true -> forall pre rest after,
  read_step false (pre ++ e ++ rest) t (zlen pre) after = Ok ((if is_pad t then ValNone else v), zlen pre + zlen e).
Proof.
  intros He Hs pre rest after.
  pose proof (token_roundtrip t v e He Hs pre rest [] after) as R.
  rewrite <- !read_list_loop_m_false in R. unfold read_list_loop_m in R. cbn [read_list_gen bind] in R. fold (read_step false) in R.
  destruct (read_step false (pre ++ e ++ rest) t (zlen pre) after) as [[v' p']|]; [|discriminate]. cbn [bind] in R.
  destruct (is_pad t) eqn:Epad.
  - destruct v'; try discriminate R. injection R as Hp. now subst.
  - destruct v'; try discriminate R; injection R as Hv Hp; now subst.
Qed.

(* lsb0 single-token read of an encoded field sitting zlen pre bits from the right-hand end *)
Lemma read_step_lsb0_encoded t v e l : encode_token t v = Ok e -> supported t v = true -> token_len t = Some l ->
  forall rest pre after,
  read_step true (rest ++ e ++ pre) t (zlen pre) after = Ok ((if is_pad t then ValNone else v), zlen pre + zlen e).
Proof.
  intros He Hs Hl rest pre after. pose proof (encode_token_len _ _ _ _ He Hl) as Hlen.
  pose proof (zlen_nonneg pre). pose proof (zlen_nonneg rest). pose proof (zlen_nonneg e).
  rewrite (read_step_lsb0_pos _ _ _ _ l Hl) by (rewrite ?zlen_app; lia).
  replace (zlen (rest ++ e ++ pre) - zlen pre - l) with (zlen rest) by (rewrite !zlen_app; lia).
  rewrite (read_step_msb0_encoded t v e He Hs). now rewrite Hlen.
Qed.

Lemma supported_len t v e : encode_token t v = Ok e -> supported t v = true -> is_variable t = false ->
  exists l, token_len t = Some l.
Proof.
  intros He Hs Hv. destruct t as [k n| k | c | n]; cbn [token_len]; eauto; [|discriminate].
  destruct k, v; discriminate.
Qed.
Lemma supported_bitlength t v e : encode_token t v = Ok e -> supported t v = true ->
  is_stretchy t = false /\ exists bl, token_bitlength t = Ok bl.
Proof.
  intros He Hs. destruct t as [k n| k | c | n]; cbn [token_bitlength is_stretchy]; split; eauto.
  - destruct k, v; cbn [supported] in Hs; try discriminate; cbn [encode_token] in He;
      (destruct (make_dtype _ n) as [bl|]; [eauto|discriminate]).
  - destruct v; try discriminate. cbn [encode_token] in He. destruct (n <? 0); [discriminate|eauto].
Qed.

(* the token of the head of pack_loop and the value it takes *)
Lemma pack_loop_cons t ov toks vals bs : pack_loop ((t, ov) :: toks) vals = Ok (bs, []) -> all_supported ((t, ov) :: toks) vals = true ->
  exists v vals' b bs', encode_token t v = Ok b /\ pack_loop toks vals' = Ok (bs', []) /\ bs = b :: bs' /\
    supported t v = true /\ all_supported toks vals' = true /\
    used_values ((t, ov) :: toks) vals = (if is_pad t then [] else [v]) ++ used_values toks vals'.
Proof.
  intros Hp Hs. cbn [pack_loop] in Hp. cbn [all_supported used_values] in *.
  destruct ov as [v|]; [|destruct (is_pad t) eqn:Epad; [|destruct vals as [|x xs]; [discriminate|]]]; cbn [bind] in Hp;
    (destruct (encode_token t _) as [b|] eqn:Ee; [|discriminate]); cbn [bind] in Hp;
    (destruct (pack_loop toks _) as [[bs' left]|] eqn:Ep; [|discriminate]); cbn [bind] in Hp; injection Hp as <- ->.
  - apply andb_prop in Hs as [H1 H2]. exists v, vals, b, bs'. repeat split; auto.
  - exists ValNone, vals, b, bs'. repeat split; auto.   (* supported t ValNone is convertible with is_pad t *)
  - apply andb_prop in Hs as [H1 H2]. exists x, xs, b, bs'. repeat split; auto.
Qed.

Lemma scan_of_pack toks : forall vals bs, pack_loop toks vals = Ok (bs, []) -> all_supported toks vals = true ->
  check_tokens (map fst toks) = Ok tt /\ scan_tokens (map fst toks) false 0 = Ok 0.
Proof.
  induction toks as [|[t ov] toks IH]; intros vals bs Hp Hs; [split; reflexivity|].
  destruct (pack_loop_cons _ _ _ _ _ Hp Hs) as (v & vals' & b & bs' & He & Hp' & _ & H1 & H2 & _).
  destruct (supported_bitlength _ _ _ He H1) as [Hst [bl Hbl]]. destruct (IH _ _ Hp' H2) as [Hc Hsc].
  cbn [map fst check_tokens scan_tokens]. rewrite Hbl, Hst. cbn [bind]. auto.
Qed.

Lemma unpack_pack_loop_lsb0 toks : forall vals bs, pack_loop toks vals = Ok (bs, []) -> all_supported toks vals = true ->
  no_var toks = true -> forall rest pre after,
  read_list_loop_m true (rest ++ concat (rev bs) ++ pre) (map fst toks) (zlen pre) after
  = Ok (used_values toks vals, zlen pre + zlen (concat (rev bs))).
Proof.
  induction toks as [|[t ov] toks IH]; intros vals bs Hp Hs Hn rest pre after.
  - cbn in Hp. injection Hp as <- _. cbn. f_equal. f_equal. change (zlen (@nil bool)) with 0. lia.
  - destruct (pack_loop_cons _ _ _ _ _ Hp Hs) as (v & vals' & b & bs' & He & Hp' & -> & H1 & H2 & H3).
    cbn [no_var forallb fst] in Hn. apply andb_prop in Hn as [Hv Hn]. apply negb_true_iff in Hv.
    destruct (supported_len _ _ _ He H1 Hv) as [l Hl].
    cbn [rev map fst]. rewrite concat_app. cbn [concat]. rewrite app_nil_r.
    unfold read_list_loop_m. cbn [read_list_gen]. fold (read_step true). fold (read_list_loop_m true).
    replace (rest ++ (concat (rev bs') ++ b) ++ pre) with ((rest ++ concat (rev bs')) ++ b ++ pre) by (now rewrite <- !app_assoc).
    rewrite (read_step_lsb0_encoded t v b l He H1 Hl). cbn [bind].
    replace ((rest ++ concat (rev bs')) ++ b ++ pre) with (rest ++ concat (rev bs') ++ (b ++ pre)) by (now rewrite <- !app_assoc).
    replace (zlen pre + zlen b) with (zlen (b ++ pre)) by (rewrite zlen_app; lia).
    rewrite (IH vals' bs' Hp' H2 Hn rest (b ++ pre) after). cbn [bind]. rewrite H3, !zlen_app.
    destruct (is_pad t) eqn:Epad; cbn [app].
    + f_equal. f_equal. lia.
    + assert (Hnn : v <> ValNone).
      { intros ->. destruct t as [k n| | |]; cbn [supported] in H1; try discriminate. destruct k; discriminate. }
      destruct v; try congruence; (f_equal; f_equal; lia).
Qed.

(* THEOREM 3. Python, lsb0 on: for fixed-length tokens (uint, int, bits, bool, pad, integer counts; values embedded or
   positional) unpack(fmt) on pack(fmt, *values) returns the values, and the read ends at the end of the data. *)
Theorem unpack_pack_lsb0 toks vals b : pack true toks vals = Ok b -> all_supported toks vals = true -> no_var toks = true ->
  read_dtype_list_m true b (map fst toks) 0 = Ok (used_values toks vals, zlen b) /\
  unpack_m true b (map fst toks) = Ok (used_values toks vals).
Proof.
  unfold pack. destruct (pack_loop toks vals) as [[bs left]|] eqn:Ep; [|discriminate]. cbn [bind].
  destruct left; [|discriminate]. intros [= <-] Hs Hn.
  destruct (scan_of_pack _ _ _ Ep Hs) as [Hc Hsc].
  assert (R : read_dtype_list_m true (concat (rev bs)) (map fst toks) 0 = Ok (used_values toks vals, zlen (concat (rev bs)))).
  { unfold read_dtype_list_m, read_dtype_list_gen. rewrite Hc, Hsc. cbn [bind].
    pose proof (unpack_pack_loop_lsb0 toks vals bs Ep Hs Hn [] [] 0) as R. cbn [app] in R. rewrite app_nil_r in R.
    change (zlen (@nil bool)) with 0 in R. exact R. }
  split; [exact R|]. unfold unpack_m. rewrite R. reflexivity.
Qed.

(* ================= ConstBitStream.read / peek under either mode ================= *)
Section GenTok.
  Variable rf : kind -> bits -> Z -> Z -> res value.
  Variable rv : gcode -> bits -> Z -> res (Z * Z).
  Variable gs : bits -> option Z -> option Z -> res bits.      (* Bits._slice = BitStore.getslice *)
  (* the value and the new position; any error leaves pos alone *)
  Definition read_tok_gen (b : bits) (p : Z) (t : token) : res (value * Z) :=
    match t with
    | TCount n =>
        if n <? 0 then Err ValueError else
        if n >? zlen b - p then Err ReadError else
        do sl <- gs b (Some p) (Some (p + n)); Ok (ValBits sl, p + n)
    | TVar c => do2 (x, p') <- rv c b p; if p' >? zlen b then Err ReadError else Ok (ValZ x, p')
    | TFixed k n =>
        do bl <- make_dtype k n; do v <- rf k b p bl;
        if p + bl >? zlen b then Err ReadError else Ok (v, p + bl)
    | TStretch k =>
        let bitlength := zlen b - p in
        if bitlength mod bits_per_item k =? 0 then
          do bl <- make_dtype k (bitlength / bits_per_item k); do v <- rf k b p bl;
          if p + bl >? zlen b then Err ReadError else Ok (v, p + bl)
        else Err ValueError
    end.
  Definition read_token_gen (s : stream) (t : token) : stream * res value :=
    match read_tok_gen (sbits s) (spos s) t with
    | Ok (v, p') => (mkstream (sbits s) p', Ok v)
    | Err e => (s, Err e)
    end.
End GenTok.
Definition read_token_m (lsb0 : bool) := read_token_gen (read_fixed_m lsb0) (read_var_m lsb0) (getslice lsb0).
Definition peek_token_m (lsb0 : bool) (s : stream) (t : token) : stream * res value :=
  let '(_, r) := read_token_m lsb0 s t in (s, r).

Lemma read_tok_gen_rel rf rv gs rf' rv' gs' (b b' : bits) : zlen b = zlen b' ->
  (forall k s l, rf k b s l = rf' k b' s l) -> (forall c s, rv c b s = rv' c b' s) ->
  (forall x y, gs b x y = res_map (@rev bool) (gs' b' x y)) ->
  forall p t, read_tok_gen rf rv gs b p t =
              read_tok_gen rf' rv' (fun b x y => res_map (@rev bool) (gs' b x y)) b' p t.
Proof.
  intros Hl Hf Hv Hg p t. destruct t; cbn [read_tok_gen]; cbv zeta; rewrite ?Hl, ?Hv, ?Hg; try reflexivity.
  - destruct (make_dtype k n); [|reflexivity]. cbn [bind]. now rewrite Hf.
  - destruct (_ =? 0); [|reflexivity]. destruct (make_dtype k _); [|reflexivity]. cbn [bind]. now rewrite Hf.
Qed.

(* with the option off this is Stream.read_token *)
Theorem read_token_m_false s t : read_token_m false s t = read_token s t.
Proof.
  unfold read_token_m, read_token_gen, read_token. destruct t; cbn [read_tok_gen read_var_m]; cbv zeta.
  - destruct (make_dtype k n); [|reflexivity]. cbn [bind]. rewrite read_fixed_m_false.
    destruct (read_fixed k _ _ _); [|reflexivity]. cbn [bind]. destruct (_ >? _); reflexivity.
  - destruct (_ =? 0); [|reflexivity]. destruct (make_dtype k _); [|reflexivity]. cbn [bind]. rewrite read_fixed_m_false.
    destruct (read_fixed k _ _ _); [|reflexivity]. cbn [bind]. destruct (_ >? _); reflexivity.
  - destruct (read_fn_var _ _ _) as [[x p]|]; [|reflexivity]. cbn [bind]. destruct (_ >? _); reflexivity.
  - destruct (n <? 0); [reflexivity|]. destruct (n >? _); [reflexivity|]. destruct (getslice false _ _ _); reflexivity.
Qed.

(* THEOREM 4e. Python, lsb0 on: read(token) / peek(token) at position p of data d gives the value, the new position and
   the errors of the msb0 read at the same position of the bit-reversed data with the field reversed back before
   interpretation (an integer token: the slice reversed back); exp-Golomb tokens raise ReadError. *)
Theorem read_token_lsb0_mirror d p t :
  read_tok_gen (read_fixed_m true) (read_var_m true) (getslice true) d p t =
  read_tok_gen read_fixed_mirror read_var_mirror (fun b x y => res_map (@rev bool) (getslice false b x y)) (rev d) p t.
Proof.
  apply (read_tok_gen_rel _ _ _ _ _ (getslice false)); [now rewrite zlen_rev| | |]; intros.
  - apply read_fixed_lsb0_mirror.
  - apply read_var_lsb0.
  - apply mirror_getslice_nostep.
Qed.

(* THEOREM 4f (position form of read). Python, lsb0 on, stream (d, p): read('k:n') with p + bitlength inside the data
   returns the msb0 interpretation of the stored bits d[len-p-bl : len-p] and moves pos to p + bl (pos unchanged on an
   interpretation error); read(n) returns exactly those stored bits. *)
Theorem read_token_lsb0_fixed d p k n bl : make_dtype k n = Ok bl -> 0 <= p -> p + bl <= zlen d ->
  read_token_m true (mkstream d p) (TFixed k n) =
  match read_fixed k d (zlen d - p - bl) bl with
  | Ok v => (mkstream d (p + bl), Ok v)
  | Err e => (mkstream d p, Err e)
  end.
Proof.
  intros Hm Hp Hr. pose proof (make_dtype_nonneg _ _ _ Hm) as Hbl.
  unfold read_token_m, read_token_gen. cbn [sbits spos read_tok_gen]. rewrite Hm. cbn [bind].
  rewrite read_fixed_lsb0_pos by lia. destruct (read_fixed k d _ bl); [|reflexivity]. cbn [bind].
  destruct (p + bl >? zlen d) eqn:E; [lia|reflexivity].
Qed.
Theorem read_token_lsb0_count d p n : 0 <= n -> 0 <= p -> p + n <= zlen d ->
  read_token_m true (mkstream d p) (TCount n) = (mkstream d (p + n), Ok (ValBits (sub d (zlen d - p - n) (zlen d - p)))).
Proof.
  intros Hn Hp Hr. unfold read_token_m, read_token_gen. cbn [sbits spos read_tok_gen].
  destruct (n <? 0) eqn:E1; [lia|]. destruct (n >? zlen d - p) eqn:E2; [lia|].
  unfold getslice. rewrite mirror_getslice_nostep. unfold getslice_msb0.
  rewrite seq_slice_unit by (rewrite ?zlen_rev; lia). cbn [res_map bind]. rewrite sub_rev, rev_involutive by lia.
  do 3 f_equal. f_equal; lia.
Qed.

(* ================= stretch: exp-Golomb tokens under lsb0 are refused, by pack and by every reader ================= *)
(* bitstore_from_token in either mode: the exp-Golomb setters (_setue _setse _setuie _setsie) begin with
   `if options.lsb0: raise CreationError`; no other setter looks at the option.  (Pack.encode_token has no mode argument:
   it is the msb0 behaviour, and [pack true] of Pack.v wrongly accepts 'ue'/'se'/'uie'/'sie' - see the report.) *)
Definition encode_token_m (lsb0 : bool) (t : token) (v : value) : res bits :=
  if lsb0 && is_variable t then Err ValueError else encode_token t v.
Fixpoint pack_loop_m (lsb0 : bool) (toks : list (token * option value)) (vals : list value) : res (list bits * list value) :=
  match toks with
  | [] => Ok ([], vals)
  | (t, ov) :: rest =>
      do2 (v, vals') <-
        match ov with
        | Some v => Ok (v, vals)
        | None => if is_pad t then Ok (ValNone, vals)
                  else match vals with [] => Err ValueError | v :: vs => Ok (v, vs) end
        end;
      do b <- encode_token_m lsb0 t v;
      do2 (bs, left) <- pack_loop_m lsb0 rest vals';
      Ok (b :: bs, left)
  end.
Definition pack_m (lsb0 : bool) (toks : list (token * option value)) (vals : list value) : res bits :=
  do2 (bs, left) <- pack_loop_m lsb0 toks vals;
  match left with
  | [] => Ok (concat (if lsb0 then rev bs else bs))
  | _ => Err ValueError
  end.

Lemma pack_loop_m_agree lsb0 toks : lsb0 = false \/ no_var toks = true -> forall vals, pack_loop_m lsb0 toks vals = pack_loop toks vals.
Proof.
  induction toks as [|[t ov] rest IH]; intros H vals; [reflexivity|]. cbn [pack_loop_m pack_loop].
  assert (E : forall v, encode_token_m lsb0 t v = encode_token t v /\ (lsb0 = false \/ no_var rest = true)).
  { intros v. unfold encode_token_m. destruct H as [->|H]; [auto|]. cbn [no_var forallb fst] in H. apply andb_prop in H as [Hv Hn].
    apply negb_true_iff in Hv. rewrite Hv, andb_false_r. auto. }
  match goal with |- (do2 (v, vals') <- ?X; _) = _ => destruct X as [[v vals']|]; [|reflexivity] end. cbn [bind].
  destruct (E v) as [-> Hr]. destruct (encode_token t v); [|reflexivity]. cbn [bind]. now rewrite (IH Hr).
Qed.
(* THEOREM 5a. the mode-aware pack is Pack.pack when the option is off, and when there is no exp-Golomb token *)
Theorem pack_m_agree lsb0 toks vals : lsb0 = false \/ no_var toks = true -> pack_m lsb0 toks vals = pack lsb0 toks vals.
Proof. intros H. unfold pack_m, pack. now rewrite (pack_loop_m_agree lsb0 toks H). Qed.

Lemma pack_loop_m_golomb toks : no_var toks = false -> forall vals, pack_loop_m true toks vals = Err ValueError.
Proof.
  induction toks as [|[t ov] rest IH]; intros H vals; [discriminate|]. cbn [pack_loop_m]. cbn [no_var forallb fst] in H.
  match goal with |- (do2 (v, vals') <- ?X; _) = _ => destruct X as [[v vals']|] eqn:Es end.
  - cbn [bind]. unfold encode_token_m. destruct (is_variable t) eqn:Ev; [reflexivity|]. cbn [andb negb] in *.
    destruct (encode_token t v) eqn:Ee; [|cbn [bind]; f_equal; eapply encode_token_err; eauto]. cbn [bind].
    now rewrite (IH H).
  - cbn [bind]. destruct ov; [discriminate|]. destruct (is_pad t); [discriminate|]. destruct vals; congruence.
Qed.
(* THEOREM 5b. Python, lsb0 on: pack with a format that contains an exp-Golomb token ('ue' 'se' 'uie' 'sie') always
   raises CreationError, whatever the values; and (read_var_lsb0, Theorems 4a-4e) reading such a token always raises
   ReadError: there is no lsb0 storage order for these codes. *)
Theorem pack_m_golomb toks vals : no_var toks = false -> pack_m true toks vals = Err ValueError.
Proof. intros H. unfold pack_m. now rewrite (pack_loop_m_golomb toks H). Qed.
Theorem read_golomb_lsb0 d c p after : read_step true d (TVar c) p after = Err ReadError /\
  read_token_m true (mkstream d p) (TVar c) = (mkstream d p, Err ReadError).
Proof.
  unfold read_step, read_token_m, read_token_gen. cbn [read_step_gen read_tok_gen sbits spos]. rewrite read_var_lsb0. split; reflexivity.
Qed.

(* ================= the hypotheses are satisfiable; the model agrees with the library on a concrete call ================= *)
(* lsb0: pack('uint:4, bits:3, pad:2, int:5, bool', 5, '0b110', -3, True) stores 111101001100101 and unpacks to [5, 110, -3, True] *)
Definition ex_toks : list (token * option value) :=
  [(TFixed KUint 4, None); (TFixed KBits 3, None); (TFixed KPad 2, None); (TFixed KInt 5, None); (TFixed KBool 1, None)].
Definition ex_vals : list value := [ValZ 5; ValBits [true; true; false]; ValZ (-3); ValBool true].
Definition ex_bits : bits := [true;true;true;true;false;true;false;false;true;true;false;false;true;false;true].
Example ex_pack : pack true ex_toks ex_vals = Ok ex_bits /\ all_supported ex_toks ex_vals = true /\ no_var ex_toks = true /\
  sum_lens ex_toks = Some 15 /\ unpack_m true ex_bits (map fst ex_toks) = Ok ex_vals /\
  pack false (rev ex_toks) (rev ex_vals) = Ok ex_bits.
Proof. vm_compute. repeat split; reflexivity. Qed.
Example ex_read : make_dtype KInt 5 = Ok 5 /\ 0 <= 9 /\ 9 + 5 <= zlen ex_bits /\
  read_token_m true (mkstream ex_bits 9) (TFixed KInt 5) = (mkstream ex_bits 14, Ok (ValZ (-3))) /\
  read_token_m true (mkstream ex_bits 4) (TCount 3) = (mkstream ex_bits 7, Ok (ValBits [true; true; false])).
Proof. vm_compute. repeat split; congruence. Qed.
Example ex_golomb : no_var [(TFixed KUint 3, None); (TVar UE, @None value)] = false /\
  pack true [(TFixed KUint 3, None); (TVar UE, None)] [ValZ 2; ValZ 5] = Ok [false; false; true; true; false; false; true; false] /\
  pack_m true [(TFixed KUint 3, None); (TVar UE, None)] [ValZ 2; ValZ 5] = Err ValueError.
Proof. vm_compute. repeat split; reflexivity. Qed.

Print Assumptions read_list_lsb0_mirror.
Print Assumptions unpack_lsb0_mirror.
Print Assumptions readlist_lsb0_mirror.
Print Assumptions read_list_lsb0_mirror_bits.
Print Assumptions read_fixed_lsb0_pos.
Print Assumptions read_token_lsb0_mirror.
Print Assumptions read_token_lsb0_fixed.
Print Assumptions read_token_lsb0_count.
Print Assumptions pack_by_parts.
Print Assumptions pack_lsb0_same_errors.
Print Assumptions pack_length_any.
Print Assumptions pack_lsb0_is_reversed_msb0.
Print Assumptions unpack_pack_lsb0.
Print Assumptions unpack_m_false.
Print Assumptions readlist_m_false.
Print Assumptions read_token_m_false.
Print Assumptions pack_m_agree.
Print Assumptions pack_m_golomb.
Print Assumptions read_golomb_lsb0.
