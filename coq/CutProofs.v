(* CutProofs.v - C07 (msb0): cut, startswith/endswith, count and split-with-count against their brute-force definitions. *)
From Coq Require Import ZArith List Bool Lia ZifyBool.
From BS Require Import Prims BitsCore Search SeqProofs RangeLemmas SearchProofs FastPath SearchTop StoreProofs SerialProofs SplitProofs ReplaceProofs.
Ltac Zify.zify_post_hook ::= Z.to_euclidean_division_equations.
Open Scope Z_scope.

(* ================= 1. cut ================= *)
(* ceil(x / n) *)
Definition cdiv (x n : Z) : Z := (x + n - 1) / n.

Lemma cdiv_0 n : 0 < n -> cdiv 0 n = 0.
Proof. intros. unfold cdiv. apply Z.div_small. lia. Qed.
Lemma cdiv_small x n : 0 < x -> x <= n -> cdiv x n = 1.
Proof.
  intros. unfold cdiv. replace (x + n - 1) with ((x - 1) + 1 * n) by lia.
  rewrite Z.div_add by lia. rewrite Z.div_small by lia. reflexivity.
Qed.
Lemma cdiv_step x n : 0 < n -> cdiv (x + n) n = cdiv x n + 1.
Proof. intros. unfold cdiv. replace (x + n + n - 1) with ((x + n - 1) + 1 * n) by lia. apply Z.div_add. lia. Qed.
Lemma cdiv_nonneg x n : 0 < n -> 0 <= x -> 0 <= cdiv x n.
Proof. intros. unfold cdiv. apply Z.div_pos; lia. Qed.
(* the defining property of the ceiling *)
Lemma cdiv_spec x n : 0 < n -> (cdiv x n - 1) * n < x <= cdiv x n * n.
Proof.
  intros Hn. unfold cdiv. pose proof (Z.div_mod (x + n - 1) n ltac:(lia)) as E.
  pose proof (Z.mod_pos_bound (x + n - 1) n Hn) as B.
  set (q := (x + n - 1) / n) in *. set (r := (x + n - 1) mod n) in *. nia.
Qed.

(* the number of pieces generated from loop state (count, c) with x bits left *)
Definition npieces (count : option Z) (c x n : Z) : nat :=
  Z.to_nat (match count with None => cdiv x n | Some k => Z.min (k - c) (cdiv x n) end).

(* k successive n-bit chunks of d[s:e] (the last one clipped at e) *)
Fixpoint chunks (k : nat) (d : bits) (n s e : Z) : list bits :=
  match k with O => [] | S k' => sub d s (Z.min (s + n) e) :: chunks k' d n (s + n) e end.

Lemma cut_loop_chunks d n e count : 0 < n -> e <= zlen d ->
  forall fuel s c, 0 <= s -> s <= e -> (Z.to_nat (e - s) < fuel)%nat ->
  cut_loop fuel false d n s e count c = Ok (chunks (npieces count c (e - s) n) d n s e).
Proof.
  intros Hn He. induction fuel as [|fuel IH]; intros s c H0 H1 Hf; [lia|].
  cbn [cut_loop].
  destruct (match count with None => true | Some k => c <? k end) eqn:G.
  - rewrite getslice_sub by lia. cbn [bind]. rewrite zlen_sub by lia.
    destruct (Z.min (s + n) e - s =? 0) eqn:E0.
    + assert (e - s = 0) by lia. replace (e - s) with 0 by lia.
      unfold npieces. rewrite cdiv_0 by lia.
      destruct count as [k|]; [replace (Z.min (k - c) 0) with 0 by lia|]; reflexivity.
    + destruct (Z.min (s + n) e - s =? n) eqn:En; cbn [negb].
      * rewrite IH by lia. cbn [bind].
        assert (Hk : npieces count c (e - s) n = S (npieces count (c + 1) (e - (s + n)) n)).
        { unfold npieces. replace (e - s) with ((e - (s + n)) + n) by lia. rewrite cdiv_step by lia.
          pose proof (cdiv_nonneg (e - (s + n)) n Hn ltac:(lia)).
          destruct count as [k|]; lia. }
        rewrite Hk. reflexivity.
      * assert (Hk : npieces count c (e - s) n = 1%nat).
        { unfold npieces. rewrite cdiv_small by lia. destruct count as [k|]; lia. }
        rewrite Hk. reflexivity.
  - destruct count as [k|]; [|discriminate]. unfold npieces.
    pose proof (cdiv_nonneg (e - s) n Hn ltac:(lia)).
    replace (Z.to_nat (Z.min (k - c) (cdiv (e - s) n))) with 0%nat by lia. reflexivity.
Qed.

(* closed form of the i-th piece *)
Definition piece (d : bits) (n s e i : Z) : bits := sub d (s + i * n) (Z.min (s + (i + 1) * n) e).
Definition pieces_of (k : nat) (d : bits) (n s e : Z) : list bits := map (fun i => piece d n s e (Z.of_nat i)) (seq 0 k).

Lemma pieces_of_length k d n s e : length (pieces_of k d n s e) = k.
Proof. unfold pieces_of. now rewrite map_length, seq_length. Qed.
Lemma pieces_of_nth k d n s e i : (i < k)%nat -> nth i (pieces_of k d n s e) [] = piece d n s e (Z.of_nat i).
Proof.
  intros H. unfold pieces_of. rewrite (nth_indep _ [] (piece d n s e (Z.of_nat 0))) by (now rewrite map_length, seq_length).
  rewrite (map_nth (fun i => piece d n s e (Z.of_nat i))). now rewrite seq_nth.
Qed.

Lemma chunks_pieces d n e : forall k s, chunks k d n s e = pieces_of k d n s e.
Proof.
  unfold pieces_of. induction k as [|k IH]; intros s; [reflexivity|].
  cbn [chunks seq map]. f_equal.
  - unfold piece. f_equal; [|f_equal]; lia.
  - rewrite IH, <- seq_shift, map_map. apply map_ext. intros i. unfold piece. f_equal; [|f_equal]; lia.
Qed.

Lemma sub_empty {A} (l : list A) a b : b <= a -> sub l a b = [].
Proof. intros. unfold sub. replace (Z.to_nat (b - a)) with 0%nat by lia. reflexivity. Qed.

Lemma concat_chunks d n e : 0 < n -> e <= zlen d -> forall k s, 0 <= s ->
  concat (chunks k d n s e) = sub d s (Z.min (s + Z.of_nat k * n) e).
Proof.
  intros Hn He. induction k as [|k IH]; intros s Hs.
  - cbn [chunks concat]. symmetry. apply sub_empty. lia.
  - cbn [chunks concat]. rewrite IH by lia.
    set (kn := Z.of_nat k * n). assert (0 <= kn) by (unfold kn; nia).
    replace (s + Z.of_nat (S k) * n) with (s + n + kn) by (unfold kn; lia).
    destruct (Z_le_gt_dec (s + n) e) as [Hfit|Hno].
    + replace (Z.min (s + n) e) with (s + n) by lia. apply sub_app_adj; lia.
    + rewrite (sub_empty d (s + n)) by lia. rewrite app_nil_r. f_equal. lia.
Qed.

(* the number of pieces: min(count, ceil((e-s)/n)) *)
Definition cut_count (count : option Z) (x n : Z) : Z :=
  match count with None => cdiv x n | Some k => Z.min k (cdiv x n) end.

(* MAIN 1a. cut(bits=n, start, end, count) on an accepted call yields exactly the successive n-bit chunks
   d[s+i*n : min(s+(i+1)*n, e)], i = 0 .. min(count, ceil((e-s)/n)) - 1; the fuel S(len d) always suffices. *)
Theorem cut_spec d n start stop count s e :
  validate_slice d start stop = Ok (s, e) -> 0 < n -> count_ok count ->
  bs_cut false d n start stop count = Ok (pieces_of (Z.to_nat (cut_count count (e - s) n)) d n s e).
Proof.
  intros Hv Hn Hc. destruct (validate_slice_ok _ _ _ _ _ Hv) as (H0 & H1 & H2).
  unfold bs_cut. rewrite Hv. cbn [bind].
  replace (match count with Some c => c <? 0 | None => false end) with false by (destruct count; cbn in *; lia).
  destruct (n <=? 0) eqn:E; [lia|].
  rewrite cut_loop_chunks by (unfold zlen in *; lia). rewrite chunks_pieces. f_equal. f_equal.
  unfold npieces, cut_count. destruct count as [k|]; [rewrite Z.sub_0_r|]; reflexivity.
Qed.

(* MAIN 1b. shape of the pieces: piece i has length min(n, e-s-i*n): it is never empty, never longer than n,
   and every piece but the last has exactly n bits *)
Theorem cut_piece_lengths d n count s e i :
  0 <= s -> s <= e -> e <= zlen d -> 0 < n -> 0 <= i < cut_count count (e - s) n ->
  zlen (piece d n s e i) = Z.min n (e - s - i * n) /\ 0 < zlen (piece d n s e i) <= n /\
  (i + 1 < cut_count count (e - s) n -> zlen (piece d n s e i) = n).
Proof.
  intros H0 H1 H2 Hn Hi. pose proof (cdiv_spec (e - s) n Hn) as [Lo Hi'].
  assert (Hc : cut_count count (e - s) n <= cdiv (e - s) n) by (unfold cut_count; destruct count; lia).
  set (N := cut_count count (e - s) n) in *. set (C := cdiv (e - s) n) in *.
  assert (Hin : i * n <= (C - 1) * n) by nia.
  assert (L : zlen (piece d n s e i) = Z.min n (e - s - i * n)).
  { unfold piece. rewrite zlen_sub by nia. lia. }
  rewrite L. split; [reflexivity|]. split; [lia|]. intros Hi1.
  assert ((i + 1) * n <= (C - 1) * n) by nia. lia.
Qed.

(* MAIN 1c. the pieces concatenate to a prefix of the window: d[s : min(s + N*n, e)], N the number of pieces;
   with no count, or a count of at least ceil((e-s)/n), that is the whole window d[s:e] *)
Theorem cut_concat d n start stop count s e pieces :
  validate_slice d start stop = Ok (s, e) -> 0 < n -> count_ok count ->
  bs_cut false d n start stop count = Ok pieces ->
  concat pieces = sub d s (Z.min (s + cut_count count (e - s) n * n) e) /\
  (match count with None => True | Some k => cdiv (e - s) n <= k end -> concat pieces = sub d s e).
Proof.
  intros Hv Hn Hc H. rewrite (cut_spec _ _ _ _ _ _ _ Hv Hn Hc) in H. injection H as <-.
  destruct (validate_slice_ok _ _ _ _ _ Hv) as (H0 & H1 & H2).
  pose proof (cdiv_nonneg (e - s) n Hn ltac:(lia)) as Hcn.
  assert (Hnn : 0 <= cut_count count (e - s) n) by (unfold cut_count; destruct count; cbn in *; lia).
  rewrite <- chunks_pieces, concat_chunks by assumption. rewrite Z2Nat.id by assumption.
  split; [reflexivity|]. intros Hbig. f_equal.
  assert (E : cut_count count (e - s) n = cdiv (e - s) n) by (unfold cut_count; destruct count; lia).
  rewrite E. pose proof (cdiv_spec (e - s) n Hn). lia.
Qed.

(* MAIN 1d. the error clauses (either mode, whatever the other arguments): bits <= 0, a negative count, an invalid range
   all raise ValueError; and an invalid range is the only way _validate_slice fails *)
Lemma validate_slice_cases d start stop : validate_slice d start stop = Err ValueError \/ exists s e, validate_slice d start stop = Ok (s, e).
Proof. unfold validate_slice. match goal with |- context [if ?c then _ else _] => destruct c end; [right; eauto|left; reflexivity]. Qed.

Theorem cut_errors lsb0 d n start stop count :
  (n <= 0 -> bs_cut lsb0 d n start stop count = Err ValueError) /\
  (forall c, count = Some c -> c < 0 -> bs_cut lsb0 d n start stop count = Err ValueError) /\
  (validate_slice d start stop = Err ValueError -> bs_cut lsb0 d n start stop count = Err ValueError).
Proof.
  unfold bs_cut. destruct (validate_slice_cases d start stop) as [->|(s & e & ->)]; cbn [bind]; [repeat split|].
  split; [|split].
  - intros Hn. destruct (match count with Some c => c <? 0 | None => false end); [reflexivity|].
    destruct (n <=? 0) eqn:E; [reflexivity|lia].
  - intros c -> Hc. destruct (c <? 0) eqn:E; [reflexivity|lia].
  - discriminate.
Qed.

Example cut_example :
  bs_cut false [true;false;true;true;false;false;true;true] 3 (Some 1) None (Some 5)
  = Ok [[false;true;true];[false;false;true];[true]]
  /\ bs_cut false [true;false;true;true;false;false;true;true] 3 (Some 1) None (Some 2)
  = Ok [[false;true;true];[false;false;true]]
  /\ validate_slice [true;false;true;true;false;false;true;true] (Some 1) None = Ok (1, 8)
  /\ cut_count (Some 5) (8 - 1) 3 = 3.
Proof. vm_compute. repeat split. Qed.

(* ================= 2. startswith / endswith ================= *)
(* MAIN 2a. startswith(p, start, end) is true exactly when p fits in the window and d[s : s+|p|] = p
   (so an empty p is a prefix of every valid window, including the empty one) *)
Theorem startswith_spec d p start stop s e :
  validate_slice d start stop = Ok (s, e) ->
  exists b, bs_startswith false d p start stop = Ok b /\
            (b = true <-> (s + zlen p <= e /\ sub d s (s + zlen p) = p)).
Proof.
  intros Hv. destruct (validate_slice_ok _ _ _ _ _ Hv) as (H0 & H1 & H2). pose proof (zlen_nonneg p) as Lp.
  unfold bs_startswith. rewrite Hv. cbn [bind]. destruct (e >=? s + zlen p) eqn:E.
  - rewrite getslice_sub by lia. cbn [bind]. eexists. split; [reflexivity|].
    rewrite beq_bits_eq. split; [intros H; split; [lia|exact H]|intros [_ H]; exact H].
  - exists false. split; [reflexivity|]. split; [discriminate|]. intros [H _]. lia.
Qed.

(* MAIN 2b. endswith(p, start, end) is true exactly when p fits in the window and d[e-|p| : e] = p *)
Theorem endswith_spec d p start stop s e :
  validate_slice d start stop = Ok (s, e) ->
  exists b, bs_endswith false d p start stop = Ok b /\
            (b = true <-> (s + zlen p <= e /\ sub d (e - zlen p) e = p)).
Proof.
  intros Hv. destruct (validate_slice_ok _ _ _ _ _ Hv) as (H0 & H1 & H2). pose proof (zlen_nonneg p) as Lp.
  unfold bs_endswith. rewrite Hv. cbn [bind]. destruct (s + zlen p <=? e) eqn:E.
  - rewrite getslice_sub by lia. cbn [bind]. eexists. split; [reflexivity|].
    rewrite beq_bits_eq. split; [intros H; split; [lia|exact H]|intros [_ H]; exact H].
  - exists false. split; [reflexivity|]. split; [discriminate|]. intros [H _]. lia.
Qed.

(* membership in the brute-force list of occurrences *)
Lemma In_spec_matches d p s e q : 0 <= s ->
  In q (spec_matches d p s e false) <-> (s <= q /\ q + zlen p <= e /\ q + zlen p <= zlen d /\ sub d q (q + zlen p) = p).
Proof.
  intros H0. unfold spec_matches. rewrite filter_In, In_zrange. cbn [negb orb]. rewrite andb_true_r.
  unfold occurs_at. rewrite !andb_true_iff, beq_bits_eq. split.
  - intros (Hr & (Ha & Hb) & Hc). repeat split; try lia. exact Hc.
  - intros (Ha & Hb & Hc & Hd). repeat split; try lia. exact Hd.
Qed.

(* MAIN 2c. relation to the search specification: startswith <-> the window start is an occurrence reported by findall;
   endswith <-> e - |p| is one (this holds for an empty p as well) *)
Theorem startswith_endswith_matches d p start stop s e :
  validate_slice d start stop = Ok (s, e) ->
  (bs_startswith false d p start stop = Ok true <-> In s (spec_matches d p s e false)) /\
  (bs_endswith false d p start stop = Ok true <-> In (e - zlen p) (spec_matches d p s e false)).
Proof.
  intros Hv. destruct (validate_slice_ok _ _ _ _ _ Hv) as (H0 & H1 & H2). pose proof (zlen_nonneg p) as Lp.
  rewrite !In_spec_matches by assumption. split.
  - destruct (startswith_spec d p start stop s e Hv) as (b & -> & Hb). split.
    + intros [= ->]. destruct (proj1 Hb eq_refl) as [Ha Hc]. repeat split; try lia. exact Hc.
    + intros (_ & Ha & _ & Hc). f_equal. apply Hb. split; assumption.
  - destruct (endswith_spec d p start stop s e Hv) as (b & -> & Hb). split.
    + intros [= ->]. destruct (proj1 Hb eq_refl) as [Ha Hc]. repeat split; try lia. replace (e - zlen p + zlen p) with e by lia. exact Hc.
    + intros (Ha & _ & _ & Hc). f_equal. apply Hb. split; [lia|]. replace (e - zlen p + zlen p) with e in Hc by lia. exact Hc.
Qed.

(* startswith is true for a non-empty p iff find(p, start, end) returns the window start *)
Corollary startswith_find d p start stop s e : p <> [] ->
  validate_slice d start stop = Ok (s, e) ->
  (bs_startswith false d p start stop = Ok true <-> bs_find false d p start stop false = Ok (Some s)).
Proof.
  intros Hp Hv. rewrite (proj1 (startswith_endswith_matches d p start stop s e Hv)).
  rewrite (find_spec d p start stop false s e Hp Hv).
  destruct (validate_slice_ok _ _ _ _ _ Hv) as (H0 & H1 & H2).
  unfold spec_matches. destruct (filter _ (zrange s (e - zlen p + 1))) as [|q r] eqn:E; cbn [head_opt].
  - split; [intros []|discriminate].
  - pose proof E as E'. apply filter_zrange_head in E as (Hr & Hf & Hmin & _). split.
    + intros Hin. f_equal. f_equal. destruct (Z.eq_dec q s) as [->|Hne]; [reflexivity|exfalso].
      rewrite <- E' in Hin. apply filter_In in Hin as [_ Hfs]. rewrite Hmin in Hfs by lia. discriminate.
    + intros [= ->]. left; reflexivity.
Qed.

Example startswith_example :
  bs_startswith false [true;false;true;true;false] [false;true] (Some 1) (Some (-1)) = Ok true /\
  bs_endswith false [true;false;true;true;false] [true;true] (Some 1) (Some (-1)) = Ok true /\
  bs_startswith false [true;false;true;true;false] [] (Some 5) None = Ok true /\
  validate_slice [true;false;true;true;false] (Some 1) (Some (-1)) = Ok (1, 4).
Proof. vm_compute. repeat split. Qed.

(* ================= 3. count ================= *)
Lemma count_filter_eqb d v : bs_count d v = zlen (filter (Bool.eqb v) d).
Proof.
  unfold bs_count. induction d as [|x d IH]; [destruct v; reflexivity|].
  cbn [filter]. destruct v, x; cbn [Bool.eqb] in *; rewrite ?zlen_cons in *; lia.
Qed.

(* positions instead of elements: filtering the index range [0, len) *)
Lemma filter_positions (f : bool -> bool) (l : bits) :
  zlen (filter (fun i => f (znth false l i)) (zrange 0 (zlen l))) = zlen (filter f l).
Proof.
  induction l as [|x l IH] using rev_ind; [reflexivity|].
  rewrite zlen_app. change (zlen [x]) with 1. pose proof (zlen_nonneg l) as Hl.
  rewrite (zrange_split 0 (zlen l) (zlen l + 1)) by lia. rewrite !filter_app, !zlen_app.
  rewrite (zrange_cons (zlen l)) by lia. rewrite (zrange_empty (zlen l + 1)) by lia.
  f_equal.
  - rewrite <- IH. f_equal. apply filter_ext_in. intros i Hi. apply In_zrange in Hi.
    unfold znth. rewrite app_nth1 by (unfold zlen in *; lia). reflexivity.
  - cbn [filter]. unfold znth. rewrite app_nth2 by (unfold zlen; lia).
    replace (Z.to_nat (zlen l) - length l)%nat with 0%nat by (unfold zlen; lia). cbn [nth]. destruct (f x); reflexivity.
Qed.

Lemma zlen_filter_le {A} (f : A -> bool) l : zlen (filter f l) <= zlen l.
Proof. induction l as [|x l IH]; [reflexivity|]. cbn [filter]. destruct (f x); rewrite ?zlen_cons; lia. Qed.

(* MAIN 3. count(v) is the number of positions i in [0, len) with d[i] = v; it lies between 0 and len *)
Theorem count_spec d v :
  bs_count d v = zlen (filter (fun i => Bool.eqb v (znth false d i)) (zrange 0 (zlen d))) /\
  bs_count d v = zlen (filter (Bool.eqb v) d) /\
  0 <= bs_count d v <= zlen d.
Proof.
  rewrite (filter_positions (Bool.eqb v) d), count_filter_eqb. repeat split; try apply zlen_nonneg.
  apply zlen_filter_le.
Qed.

Example count_example : bs_count [true;false;true;true;false] true = 3 /\ bs_count [true;false;true;true;false] false = 2.
Proof. vm_compute. split; reflexivity. Qed.

(* ================= 4. split with a count ================= *)
(* the counted loop yields a prefix of what the uncounted loop yields (any mode, any arguments, same fuel) *)
Lemma split_loop_count lsb0 d p e ba k : forall fuel sp pos c all,
  split_loop fuel lsb0 d p e None ba sp pos c = Ok all -> c <= k ->
  split_loop fuel lsb0 d p e (Some k) ba sp pos c = Ok (firstn (Z.to_nat (k - c)) all).
Proof.
  induction fuel as [|fuel IH]; intros sp pos c all H Hck; [discriminate|].
  cbn [split_loop] in *. destruct (c <? k) eqn:G.
  - destruct (find_msb0 d p (pos + zlen p) e ba) as [[q|]|err]; cbn [bind] in *; [| |discriminate].
    + destruct (getslice lsb0 d (Some sp) (Some q)) as [x|err]; cbn [bind] in *; [|discriminate].
      destruct (split_loop fuel lsb0 d p e None ba q q (c + 1)) as [rest|err] eqn:R; cbn [bind] in *; [|discriminate].
      injection H as <-. rewrite (IH _ _ _ _ R) by lia. cbn [bind].
      replace (Z.to_nat (k - c)) with (S (Z.to_nat (k - (c + 1)))) by lia. reflexivity.
    + destruct (getslice lsb0 d (Some sp) (Some e)) as [x|err]; cbn [bind] in *; [|discriminate].
      injection H as <-. replace (Z.to_nat (k - c)) with (S (Z.to_nat (k - (c + 1)))) by lia. cbn [firstn]. now rewrite firstn_nil.
  - replace (Z.to_nat (k - c)) with 0%nat by lia. reflexivity.
Qed.

(* MAIN 4a. split(..., count=c), c >= 0, returns the first c pieces of split(...) without a count (either mode);
   in particular count=0 gives no piece at all *)
Theorem split_count_prefix lsb0 d p start stop c ba all :
  bs_split lsb0 d p start stop None ba = Ok all -> 0 <= c ->
  bs_split lsb0 d p start stop (Some c) ba = Ok (firstn (Z.to_nat c) all).
Proof.
  unfold bs_split. intros H Hc. destruct (zlen p =? 0); [discriminate|].
  destruct (validate_slice d start stop) as [[s e]|err]; cbn [bind] in *; [|discriminate].
  destruct (c <? 0) eqn:E0; [lia|]. destruct (c =? 0) eqn:E1.
  - replace c with 0 by lia. reflexivity.
  - destruct (find_msb0 d p s e ba) as [[q|]|err]; cbn [bind] in *; [| |discriminate].
    + destruct (getslice lsb0 d (Some s) (Some q)) as [x|err]; cbn [bind] in *; [|discriminate].
      destruct (split_loop (S (length d)) lsb0 d p e None ba q q 1) as [rest|err] eqn:R; cbn [bind] in *; [|discriminate].
      injection H as <-. rewrite (split_loop_count _ _ _ _ _ c _ _ _ _ _ R) by lia. cbn [bind].
      replace (Z.to_nat c) with (S (Z.to_nat (c - 1))) by lia. reflexivity.
    + destruct (getslice lsb0 d (Some s) (Some e)) as [x|err]; cbn [bind] in *; [|discriminate].
      injection H as <-. replace (Z.to_nat c) with (S (Z.to_nat (c - 1))) by lia. cbn [firstn]. now rewrite firstn_nil.
Qed.

Lemma Forall_firstn' {A} (P : A -> Prop) l : forall n, Forall P l -> Forall P (firstn n l).
Proof. induction l as [|x l IH]; intros [|n] H; cbn [firstn]; try constructor; inversion H; subst; auto. Qed.

(* MAIN 4b. msb0, any accepted call with any count >= 0: split succeeds, yields at most `count` pieces, which are the first
   pieces of a partition of the window d[s:e] (their concatenation is a prefix of it), each piece after the first begins with the delimiter *)
Theorem split_count_spec d p start stop count ba s e :
  p <> [] -> validate_slice d start stop = Ok (s, e) -> count_ok count ->
  exists all, bs_split false d p start stop None ba = Ok all /\ concat all = sub d s e /\
    let pieces := take_count count all in
    bs_split false d p start stop count ba = Ok pieces /\
    (match count with Some c => zlen pieces <= c | None => True end) /\
    (exists rest, concat pieces ++ rest = sub d s e) /\
    Forall (fun x => firstn (length p) x = p) (tl pieces).
Proof.
  intros Hp Hv Hc. destruct (split_partitions_window d p start stop ba s e Hp Hv) as (all & Hall & Hcat).
  pose proof (split_pieces_begin_with_delimiter d p start stop ba s e all Hp Hv Hall) as Hd.
  exists all. split; [exact Hall|]. split; [exact Hcat|]. cbn zeta.
  destruct count as [c|]; cbn [take_count count_ok] in *.
  - split; [apply split_count_prefix; assumption|]. split; [rewrite zlen_firstn; lia|]. split.
    + exists (concat (skipn (Z.to_nat c) all)). rewrite <- concat_app, firstn_skipn. exact Hcat.
    + destruct all as [|x rest]; [contradiction|]. destruct (Z.to_nat c); cbn [firstn tl]; [constructor|].
      apply Forall_firstn'. exact Hd.
  - split; [exact Hall|]. split; [exact I|]. split; [exists []; rewrite app_nil_r; exact Hcat|].
    destruct all; [contradiction|exact Hd].
Qed.

Example split_count_example :
  bs_split false [true;false;true;true;false;true;false;false] [true;false] (Some 1) None (Some 2) false
  = Ok [[false;true]; [true;false]] /\
  bs_split false [true;false;true;true;false;true;false;false] [true;false] (Some 1) None None false
  = Ok [[false;true]; [true;false]; [true;false;false]].
Proof. vm_compute. split; reflexivity. Qed.

(* ================= 5. the split pieces exactly; contains ================= *)
(* find_msb0 at any non-negative position, the window possibly inverted (the loop of split searches from pos + |p|, which may exceed end) *)
Lemma find_msb0_any d p pos e ba : p <> [] -> 0 <= pos -> 0 <= e -> e <= zlen d ->
  find_msb0 d p pos e ba = Ok (head_opt (spec_matches d p pos e ba)).
Proof.
  intros Hp H0 He0 He. destruct (Z_le_gt_dec pos e) as [Hle|Hgt]; [apply find_msb0_spec; assumption|].
  pose proof (zlen_nonneg p) as Lp.
  assert (Hm : spec_matches d p pos e ba = []) by (unfold spec_matches; rewrite zrange_empty by lia; reflexivity).
  rewrite Hm. cbn [head_opt].
  unfold find_msb0, store_find. destruct ba; cbn [negb].
  - unfold findall_store_msb0. destruct (true && (zlen p mod 8 =? 0)) eqn:E2.
    + unfold findall_fast. set (sb := (pos + 7) / 8). set (eb := e / 8).
      assert (Hbb : eb <= sb /\ 0 <= sb /\ 0 <= eb) by (unfold sb, eb; lia).
      assert (Hsl : seq_slice false d (mkslice (Some (sb * 8)) (Some (eb * 8)) None) = Ok []).
      { unfold seq_slice, slice_indices. cbn [s_step s_start s_stop]. cbn [Z.eqb Z.ltb Z.compare bind].
        unfold range_list, range_len. cbn [Z.gtb Z.compare].
        match goal with |- context [if ?c then _ else 0] => replace c with false end; [reflexivity|].
        unfold clamp_index. symmetry. pose proof (zlen_nonneg d).
        destruct (sb * 8 <? 0) eqn:?; destruct (eb * 8 <? 0) eqn:?; try lia;
        destruct (sb * 8 >? zlen d) eqn:?; destruct (eb * 8 >? zlen d) eqn:?; lia. }
      rewrite Hsl. cbn [bind to_bytes length chunks8 fast_loop].
      destruct (0 <? eb - sb) eqn:E3; [lia|reflexivity].
    + cbn [bind]. unfold search_all. rewrite zrange_empty by lia. reflexivity.
  - cbn [bind]. unfold ba_find, search_all. rewrite zrange_empty by lia. reflexivity.
Qed.

(* greedy thinning of an increasing list: keep x when it is at or after the limit, then move the limit to x + w *)
Fixpoint thin (w lim : Z) (l : list Z) : list Z :=
  match l with [] => [] | x :: r => if lim <=? x then x :: thin w (x + w) r else thin w lim r end.
(* the cut points of split: the greedy chain of non-overlapping occurrences of p in the window *)
Definition cuts (d p : bits) (s e : Z) (ba : bool) : list Z := thin (zlen p) s (spec_matches d p s e ba).
(* the pieces between successive cut points *)
Fixpoint between (d : bits) (from : Z) (cs : list Z) (e : Z) : list bits :=
  match cs with [] => [sub d from e] | q :: r => sub d from q :: between d q r e end.

Lemma thin_drop w lim l2 : forall l1, (forall x, In x l1 -> x < lim) -> thin w lim (l1 ++ l2) = thin w lim l2.
Proof.
  induction l1 as [|a l1 IH]; intros H; [reflexivity|]. cbn [app thin].
  destruct (lim <=? a) eqn:E; [specialize (H a (or_introl eq_refl)); lia|].
  apply IH. intros x Hx. apply H. right; exact Hx.
Qed.

Lemma thin_filter_from w f a lim hi : a <= lim ->
  thin w lim (filter f (zrange a hi)) = thin w lim (filter f (zrange lim hi)).
Proof.
  intros Ha. destruct (Z_le_gt_dec lim hi) as [Hle|Hgt].
  - rewrite (zrange_split a lim hi) by lia. rewrite filter_app. apply thin_drop.
    intros x Hx. apply filter_In in Hx as [Hx _]. apply In_zrange in Hx. lia.
  - rewrite (zrange_empty lim hi) by lia. cbn [filter]. rewrite <- (app_nil_r (filter f (zrange a hi))).
    apply thin_drop. intros x Hx. apply filter_In in Hx as [Hx _]. apply In_zrange in Hx. lia.
Qed.

Lemma cuts_unfold d p from e ba : p <> [] ->
  cuts d p from e ba = match head_opt (spec_matches d p from e ba) with
                       | None => [] | Some q => q :: cuts d p (q + zlen p) e ba end.
Proof.
  intros Hp. assert (Lp : 0 < zlen p) by (destruct p; [congruence|rewrite zlen_cons; pose proof (zlen_nonneg p); lia]).
  unfold cuts, spec_matches.
  destruct (filter _ (zrange from (e - zlen p + 1))) as [|q r] eqn:E; cbn [head_opt]; [reflexivity|].
  apply filter_zrange_head in E as (Hr & _ & _ & ->). cbn [thin].
  destruct (from <=? q) eqn:E1; [|lia]. f_equal. apply thin_filter_from. lia.
Qed.

Lemma head_spec_matches_bounds d p a e ba q : head_opt (spec_matches d p a e ba) = Some q -> a <= q /\ q + zlen p <= e.
Proof.
  unfold spec_matches. destruct (filter _ (zrange a (e - zlen p + 1))) as [|q0 r] eqn:E; cbn [head_opt]; [discriminate|].
  intros [= ->]. apply filter_zrange_head in E as (Hr & _). lia.
Qed.

Lemma split_loop_exact d p e ba : p <> [] -> e <= zlen d ->
  forall fuel sp c, 0 <= sp -> sp <= e -> (Z.to_nat (e - sp) < fuel)%nat ->
  split_loop fuel false d p e None ba sp sp c = Ok (between d sp (cuts d p (sp + zlen p) e ba) e).
Proof.
  intros Hp He. pose proof (zlen_nonneg p) as Lp.
  assert (Lp1 : 0 < zlen p) by (destruct p; [congruence|rewrite zlen_cons; pose proof (zlen_nonneg p); lia]).
  induction fuel as [|fuel IH]; intros sp c H0 H1 Hf; [lia|].
  rewrite split_loop_S, find_msb0_any by (try assumption; lia). rewrite cuts_unfold by assumption.
  destruct (head_opt (spec_matches d p (sp + zlen p) e ba)) as [q|] eqn:Eh; cbn [bind].
  - apply head_spec_matches_bounds in Eh as [Q1 Q2].
    rewrite (getslice_sub d sp q) by lia. cbn [bind]. rewrite IH by lia. reflexivity.
  - rewrite (getslice_sub d sp e) by lia. reflexivity.
Qed.

(* MAIN 5a. split(p, start, end, count, bytealigned) returns exactly the slices of d between s, the successive cut points and e,
   where the cut points are the greedy chain of non-overlapping (aligned) occurrences of p in [s, e); at most `count` of them *)
Theorem split_exact d p start stop count ba s e :
  p <> [] -> validate_slice d start stop = Ok (s, e) -> count_ok count ->
  bs_split false d p start stop count ba = Ok (take_count count (between d s (cuts d p s e ba) e)).
Proof.
  intros Hp Hv Hc. destruct (validate_slice_ok _ _ _ _ _ Hv) as (H0 & H1 & H2). pose proof (zlen_nonneg p) as Lp.
  assert (Hnone : bs_split false d p start stop None ba = Ok (between d s (cuts d p s e ba) e)).
  { unfold bs_split. apply nonempty_zlen in Hp as Hz. rewrite Hz, Hv. cbn [bind].
    rewrite find_msb0_spec by assumption. rewrite cuts_unfold by assumption.
    destruct (head_opt (spec_matches d p s e ba)) as [q|] eqn:Eh; cbn [bind].
    - apply head_spec_matches_bounds in Eh as [Q1 Q2].
      rewrite (getslice_sub d s q) by lia. cbn [bind].
      rewrite split_loop_exact by (try assumption; unfold zlen in *; lia). reflexivity.
    - rewrite (getslice_sub d s e) by lia. reflexivity. }
  destruct count as [c|]; cbn [take_count]; [|exact Hnone]. apply split_count_prefix; assumption.
Qed.

(* MAIN 5b. what the cut points are: (1) each is an occurrence listed by the brute-force search of the window; (2) they form a chain:
   increasing, inside the window, successive ones at least |p| apart; (3) greedy: every occurrence in the window that is not a
   cut point overlaps an earlier cut point c (c < x < c + |p|).  These three facts determine the list. *)
Lemma thin_In w : 0 <= w -> forall l lim q, In q (thin w lim l) -> In q l /\ lim <= q.
Proof.
  intros Hw. induction l as [|a l IH]; intros lim q H; cbn [thin] in H; [contradiction|].
  destruct (lim <=? a) eqn:E.
  - destruct H as [<-|H]; [split; [left; reflexivity|lia]|].
    destruct (IH _ _ H). split; [right; assumption|lia].
  - destruct (IH _ _ H). split; [right; assumption|assumption].
Qed.

Lemma thin_chain w hi : forall l lim, (forall x, In x l -> x + w <= hi) -> chain w lim hi (thin w lim l).
Proof.
  induction l as [|a l IH]; intros lim H; cbn [thin]; [exact I|].
  assert (H' : forall x, In x l -> x + w <= hi) by (intros x Hx; apply H; right; exact Hx).
  destruct (lim <=? a) eqn:E; [|apply IH; exact H'].
  cbn [chain]. split; [lia|]. split; [apply H; left; reflexivity|]. apply IH; exact H'.
Qed.

Lemma thin_greedy w : forall l lim x, incr l -> In x l -> lim <= x ->
  In x (thin w lim l) \/ exists c, In c (thin w lim l) /\ c < x < c + w.
Proof.
  induction l as [|a l IH]; intros lim x Hinc Hin Hlim; [contradiction|].
  destruct (incr_cons_inv _ _ Hinc) as [Hinc' Hlt]. cbn [thin].
  destruct Hin as [->|Hin].
  - destruct (lim <=? x) eqn:E; [|lia]. left; left; reflexivity.
  - pose proof (Hlt _ Hin) as Hax. destruct (lim <=? a) eqn:E.
    + destruct (Z_le_gt_dec (a + w) x) as [Hfar|Hnear].
      * destruct (IH (a + w) x Hinc' Hin Hfar) as [H|(c & Hc & Hcx)]; [left; right; exact H|].
        right. exists c. split; [right; exact Hc|exact Hcx].
      * right. exists a. split; [left; reflexivity|lia].
    + destruct (IH lim x Hinc' Hin Hlim) as [H|(c & Hc & Hcx)]; [left; exact H|]. right. exists c. split; assumption.
Qed.

(* a greedy selection from L: members of L, a chain, and every member of L is selected or overlaps a selected one *)
Definition greedy_selection (w lo hi : Z) (L cs : list Z) : Prop :=
  (forall q, In q cs -> In q L) /\ chain w lo hi cs /\
  (forall x, In x L -> In x cs \/ exists c, In c cs /\ c < x < c + w).

Lemma chain_lower w hi : forall ps lo x, 0 <= w -> chain w lo hi ps -> In x ps -> lo <= x.
Proof.
  induction ps as [|p ps IH]; intros lo x Hw Hc Hx; [contradiction|]. cbn [chain] in Hc. destruct Hc as (H1 & H2 & H3).
  destruct Hx as [<-|Hx]; [exact H1|]. pose proof (IH _ _ Hw H3 Hx). lia.
Qed.

Lemma chain_gap w hi : forall ps lo a b, 0 <= w -> chain w lo hi ps -> In a ps -> In b ps -> a < b -> a + w <= b.
Proof.
  induction ps as [|p ps IH]; intros lo a b Hw Hc Ha Hb Hab; [contradiction|]. cbn [chain] in Hc. destruct Hc as (H1 & H2 & H3).
  destruct Ha as [->|Ha]; destruct Hb as [->|Hb].
  - lia.
  - apply (chain_lower w hi ps (a + w) b Hw H3 Hb).
  - pose proof (chain_lower w hi ps (b + w) a Hw H3 Ha). lia.
  - apply (IH _ _ _ Hw H3 Ha Hb Hab).
Qed.

Lemma chain_incr w hi : 0 < w -> forall ps lo, chain w lo hi ps -> incr ps.
Proof.
  intros Hw. induction ps as [|p ps IH]; intros lo Hc; [apply incr_nil|]. cbn [chain] in Hc. destruct Hc as (H1 & H2 & H3).
  apply incr_cons; [apply (IH _ H3)|]. intros y Hy. pose proof (chain_lower w hi ps (p + w) y ltac:(lia) H3 Hy). lia.
Qed.

(* the three properties determine the selection *)
Lemma greedy_unique w lo hi L A B : 0 < w -> greedy_selection w lo hi L A -> greedy_selection w lo hi L B -> A = B.
Proof.
  intros Hw (A1 & A2 & A3) (B1 & B2 & B3).
  apply incr_ext; [apply (chain_incr w hi Hw A lo A2)|apply (chain_incr w hi Hw B lo B2)|].
  assert (Hlow : forall x, x < lo -> (In x A <-> In x B)).
  { intros x Hx. split; intros H; exfalso.
    - pose proof (chain_lower w hi A lo x ltac:(lia) A2 H). lia.
    - pose proof (chain_lower w hi B lo x ltac:(lia) B2 H). lia. }
  intros x. destruct (Z_lt_le_dec x lo) as [Hx|Hx]; [apply Hlow; exact Hx|].
  revert x Hx. apply (Zlt_lower_bound_ind (fun x => In x A <-> In x B) lo). intros x IHx Hx.
  assert (IH' : forall y, y < x -> (In y A <-> In y B)).
  { intros y Hy. destruct (Z_lt_le_dec y lo); [apply Hlow; assumption|apply IHx; lia]. }
  split; intros H.
  - destruct (B3 x (A1 x H)) as [HB|(c & Hc & Hcx)]; [exact HB|exfalso].
    apply IH' in Hc; [|lia]. pose proof (chain_gap w hi A lo c x ltac:(lia) A2 Hc H ltac:(lia)). lia.
  - destruct (A3 x (B1 x H)) as [HA|(c & Hc & Hcx)]; [exact HA|exfalso].
    apply IH' in Hc; [|lia]. pose proof (chain_gap w hi B lo c x ltac:(lia) B2 Hc H ltac:(lia)). lia.
Qed.

Theorem cuts_greedy d p s e ba : p <> [] ->
  greedy_selection (zlen p) s e (spec_matches d p s e ba) (cuts d p s e ba) /\
  (forall cs, greedy_selection (zlen p) s e (spec_matches d p s e ba) cs -> cs = cuts d p s e ba).
Proof.
  intros Hp. assert (Lp : 0 < zlen p) by (destruct p; [congruence|rewrite zlen_cons; pose proof (zlen_nonneg p); lia]).
  assert (G : greedy_selection (zlen p) s e (spec_matches d p s e ba) (cuts d p s e ba)).
  { unfold cuts. split; [|split].
    - intros q Hq. apply (thin_In (zlen p) ltac:(lia) _ _ _ Hq).
    - apply thin_chain. intros x Hx. unfold spec_matches in Hx. apply filter_In in Hx as [Hx _]. apply In_zrange in Hx. lia.
    - intros x Hx. apply thin_greedy; [unfold spec_matches; apply incr_filter, incr_zrange|exact Hx|].
      unfold spec_matches in Hx. apply filter_In in Hx as [Hx _]. apply In_zrange in Hx. lia. }
  split; [exact G|]. intros cs Hcs. apply (greedy_unique (zlen p) s e _ _ _ Lp Hcs G).
Qed.

Example split_exact_example :
  let d := [true;true;true;true;false;true;true;true] in
  spec_matches d [true;true] 0 8 false = [0; 1; 2; 5; 6] /\ cuts d [true;true] 0 8 false = [0; 2; 5] /\
  bs_split false d [true;true] None None None false = Ok [[]; [true;true]; [true;true;false]; [true;true;true]].
Proof. vm_compute. repeat split. Qed.

(* MAIN 5c. `p in d` (non-empty p) is true exactly when p occurs somewhere in d; an empty p raises ValueError *)
Theorem contains_iff d p : p <> [] ->
  exists b, bs_contains false d p = Ok b /\
            (b = true <-> exists q, 0 <= q /\ q + zlen p <= zlen d /\ sub d q (q + zlen p) = p).
Proof.
  intros Hp. rewrite (contains_spec d p Hp).
  destruct (spec_matches d p 0 (zlen d) false) as [|q r] eqn:E; eexists; (split; [reflexivity|]).
  - split; [discriminate|]. intros (q & Hq0 & Hq1 & Hq2). exfalso.
    assert (Hin : In q (spec_matches d p 0 (zlen d) false)) by (apply In_spec_matches; repeat split; try lia; exact Hq2).
    rewrite E in Hin. exact Hin.
  - split; [|reflexivity]. intros _.
    assert (Hin : In q (spec_matches d p 0 (zlen d) false)) by (rewrite E; left; reflexivity).
    apply In_spec_matches in Hin as (Ha & Hb & Hc & Hd); [|lia]. exists q. repeat split; try lia. exact Hd.
Qed.
Theorem contains_empty lsb0 d : bs_contains lsb0 d [] = Err ValueError.
Proof. reflexivity. Qed.

Print Assumptions cut_spec.
Print Assumptions cut_piece_lengths.
Print Assumptions cut_concat.
Print Assumptions cut_errors.
Print Assumptions startswith_spec.
Print Assumptions endswith_spec.
Print Assumptions startswith_endswith_matches.
Print Assumptions startswith_find.
Print Assumptions count_spec.
Print Assumptions split_count_prefix.
Print Assumptions split_count_spec.
Print Assumptions split_exact.
Print Assumptions cuts_greedy.
Print Assumptions contains_iff.
Print Assumptions contains_empty.
