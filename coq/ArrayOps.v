(* ArrayOps.v — C14 (last clause): the element-wise operators of bitstring.Array (array_.py):
   _apply_op_to_all_elements, _apply_op_to_all_elements_inplace, _apply_op_between_arrays, the comparison variants,
   _apply_bitwise_op_to_all_elements(_inplace) and _promotetype, modelled loop by loop on the data bits (msb0, as ArrayM.v /
   ArrayMut.v) and proved to be "map the operator over the items", with the all-or-nothing failure behaviour. *)
From BS Require Import Prims BitsCore Mutators SeqProofs MutSpec MutProofs MutProofs2 ArrayM ArrayProofs StoreProofs ArraySlice ArrayMut Golomb.
From Coq Require Import ZifyBool String.
Notation concat := List.concat.
Notation length := List.length.
Open Scope Z_scope.

(* except (CreationError, ZeroDivisionError, ValueError): CreationError is an alias of ValueError (exceptions.py) *)
Definition caught (e : exn) : bool := match e with ValueError | ZeroDivisionError => true | _ => false end.

(* ---------- the part common to the three Python loops: new_data / failures / index, one try-block per item ---------- *)
Record lstate := mkst { new_data : bits; failures : Z; index : Z }.
Definition st0 : lstate := mkst [] 0 0.                    (* new_data = BitArray(); failures = index = 0 *)
(* one pass of the loop body for item number i whose try-block evaluates to r *)
Definition body (st : lstate) (i : Z) (r : res bits) : res lstate :=
  match r with
  | Ok e => Ok (mkst (ba_append false (new_data st) e) (failures st) (index st))         (* new_data.append(element) *)
  | Err ex => if caught ex
              then Ok (mkst (new_data st) (failures st + 1) (if failures st =? 0 then i else index st))
              else Err ex                                                                  (* any other exception propagates at once *)
  end.
Fixpoint run (irs : list (Z * res bits)) (st : lstate) : res lstate :=
  match irs with [] => Ok st | (i, r) :: t => do st' <- body st i r; run t st' end.
(* if failures != 0: raise ValueError(...) ; else the new data *)
Definition finish (r : res lstate) : res bits :=
  do st <- r; if negb (failures st =? 0) then Err ValueError else Ok (new_data st).

(* what the loop computes, on the list of per-item outcomes *)
Fixpoint uncaught (rs : list (res bits)) : option exn :=
  match rs with [] => None | Ok _ :: t => uncaught t | Err e :: t => if caught e then uncaught t else Some e end.
Fixpoint oks (rs : list (res bits)) : list bits :=
  match rs with [] => [] | Ok e :: t => e :: oks t | Err _ :: t => oks t end.
Fixpoint nfail (rs : list (res bits)) : Z :=
  match rs with [] => 0 | Ok _ :: t => nfail t | Err _ :: t => 1 + nfail t end.
Fixpoint first_fail (irs : list (Z * res bits)) (dflt : Z) : Z :=
  match irs with [] => dflt | (i, Err _) :: _ => i | (_, Ok _) :: t => first_fail t dflt end.

Lemma nfail_nonneg rs : 0 <= nfail rs.
Proof. induction rs as [|[e|e] t IH]; cbn [nfail]; lia. Qed.

Lemma run_spec : forall irs st, 0 <= failures st ->
  run irs st = match uncaught (map snd irs) with
               | Some e => Err e
               | None => Ok (mkst (new_data st ++ concat (oks (map snd irs))) (failures st + nfail (map snd irs))
                                  (if failures st =? 0 then first_fail irs (index st) else index st))
               end.
Proof.
  induction irs as [|[i [e|ex]] t IH]; intros [nd f ix] Hf; cbn [failures new_data index] in *.
  - cbn. rewrite app_nil_r, Z.add_0_r. destruct (f =? 0); reflexivity.
  - cbn [run body bind map snd uncaught oks nfail first_fail concat new_data failures index]. rewrite IH by exact Hf.
    cbn [failures new_data index]. unfold ba_append, addright. rewrite <- app_assoc. reflexivity.
  - cbn [run body bind map snd uncaught oks nfail first_fail new_data failures index].
    destruct (caught ex); [|reflexivity]. cbn [bind]. rewrite IH by (cbn; lia). cbn [failures new_data index].
    pose proof (nfail_nonneg (map snd t)). destruct (uncaught (map snd t)); [reflexivity|].
    replace (f + 1 =? 0) with false by lia. rewrite Z.add_assoc. destruct (f =? 0); reflexivity.
Qed.

(* the result of a whole loop followed by the `if failures != 0: raise ValueError` *)
Definition outcome (rs : list (res bits)) : res bits :=
  match uncaught rs with
  | Some e => Err e
  | None => if nfail rs =? 0 then Ok (concat (oks rs)) else Err ValueError
  end.
Lemma finish_run irs : finish (run irs st0) = outcome (map snd irs).
Proof.
  unfold finish, outcome. rewrite run_spec by (cbn; lia). cbn [st0 failures new_data index].
  destruct (uncaught (map snd irs)); [reflexivity|]. cbn [bind failures new_data app]. rewrite Z.add_0_l.
  destruct (nfail (map snd irs) =? 0); reflexivity.
Qed.

Lemma elements_are_items w' els : 0 < w' -> Forall (fun e : bits => zlen e = w') els ->
  items w' (concat els) = els /\ trailing w' (concat els) = [] /\ arr_len w' (concat els) = zlen els.
Proof.
  intros Hw F. assert (H : wfA w' els []) by (split; [exact F|cbn; lia]).
  replace (concat els) with (mk els []) by (unfold mk; apply app_nil_r).
  now rewrite (items_mk w' Hw els [] H), (trailing_mk w' Hw els [] H), (arr_len_mk w' Hw els [] H).
Qed.

(* every try-block succeeded with an element of w' bits: the new data is exactly these elements, nothing after them *)
Lemma outcome_success w' rs : 0 < w' -> Forall (fun r => exists e, r = Ok e /\ zlen e = w') rs ->
  exists d', outcome rs = Ok d' /\ rs = map Ok (items w' d') /\ trailing w' d' = [] /\ arr_len w' d' = zlen rs /\ zlen d' = zlen rs * w'.
Proof.
  intros Hw Hall.
  assert (X : exists els, rs = map Ok els /\ Forall (fun e : bits => zlen e = w') els).
  { induction Hall as [|r t (e & -> & He) _ (els & -> & F)]; [exists []; split; [reflexivity|constructor]|].
    exists (e :: els). split; [reflexivity|now constructor]. }
  destruct X as (els & -> & F).
  assert (Y : uncaught (map Ok els) = None /\ nfail (map Ok els) = 0 /\ oks (map Ok els) = els).
  { clear F Hall. induction els as [|e els (A & B & C)]; cbn; [auto|]. rewrite C. auto. }
  destruct Y as (Hu & Hn & Ho). destruct (elements_are_items w' els Hw F) as (Hi & Ht & Hl).
  exists (concat els). unfold outcome. rewrite Hu, Hn, Ho, Hi, Ht, Hl, zlen_map, (zlen_concat w' els F). auto.
Qed.
Lemma uncaught_none rs : Forall (fun r => forall ex, r = Err ex -> caught ex = true) rs -> uncaught rs = None.
Proof.
  induction 1 as [|r t Hr _ IH]; [reflexivity|]. destruct r as [e|ex]; cbn [uncaught]; [exact IH|].
  now rewrite (Hr ex eq_refl).
Qed.
(* some try-block failed with a caught exception, none with another one: ValueError *)
Lemma outcome_failure rs : Forall (fun r => forall ex, r = Err ex -> caught ex = true) rs -> Exists (fun r => exists ex, r = Err ex) rs ->
  outcome rs = Err ValueError.
Proof.
  intros Hc Hex. unfold outcome.
  assert (Hu : uncaught rs = None) by now apply uncaught_none.
  rewrite Hu. assert (P : 0 < nfail rs).
  { clear Hc Hu. induction Hex as [r t (ex & ->)|r t _ IH]; [cbn [nfail]; pose proof (nfail_nonneg t); lia|destruct r; cbn [nfail]; lia]. }
  destruct (nfail rs =? 0) eqn:E; [lia|reflexivity].
Qed.
(* an exception that is not caught stops the loop: the first such exception is what the caller sees *)
Lemma outcome_uncaught pre ex post : Forall (fun r => forall ex, r = Err ex -> caught ex = true) pre -> caught ex = false ->
  outcome (pre ++ Err ex :: post) = Err ex.
Proof.
  intros Hpre Hex. unfold outcome. replace (uncaught (pre ++ Err ex :: post)) with (Some ex); [reflexivity|]. symmetry.
  induction Hpre as [|r t Hr _ IH]; cbn [app uncaught]; [now rewrite Hex|].
  destruct r as [e|ex']; [exact IH|]. now rewrite (Hr ex' eq_refl).
Qed.
Lemma Forall_map_iff {A B} (P : B -> Prop) (f : A -> B) l : Forall P (map f l) <-> Forall (fun x => P (f x)) l.
Proof. induction l as [|x l IH]; split; intros H; try constructor; inversion H; subst; cbn [map]; try constructor; try tauto. Qed.
Lemma Exists_map_iff {A B} (P : B -> Prop) (f : A -> B) l : Exists P (map f l) <-> Exists (fun x => P (f x)) l.
Proof. rewrite !Exists_exists. split; [intros (y & Hy & Py); apply in_map_iff in Hy as (x & <- & Hx); eauto|intros (x & Hx & Px); exists (f x); split; [now apply in_map|assumption]]. Qed.
Lemma map_eq_Forall2 {A B C} (f : A -> C) (g : B -> C) : forall l l', map f l = map g l' -> Forall2 (fun x y => f x = g y) l l'.
Proof. induction l as [|x l IH]; intros [|y l'] E; try discriminate; constructor; injection E; auto. Qed.

(* reading item number i of the data *)
Definition read_item (w : Z) (d : bits) (i : Z) : bits := take w (drop (w * i) d).   (* the bits that read_fn(self.data, start=bitlength * i) decodes *)
Lemma progression_unit_scale w : forall n a, progression (w * a) w n = map (fun i => w * i) (progression a 1 n).
Proof. induction n as [|n IH]; intros a; [reflexivity|]. cbn [progression map]. f_equal. rewrite <- IH. f_equal. lia. Qed.
Lemma reads_are_items w d : 0 < w -> map (read_item w d) (range_list 0 (arr_len w d) 1) = items w d.
Proof.
  intros Hw. rewrite <- (C14_iter w Hw d). unfold arr_iter, range_list. rewrite range_len_unit.
  assert (0 <= arr_len w d) by (unfold arr_len; apply Z.div_pos; [apply zlen_nonneg|lia]).
  replace (Z.max 0 (arr_len w d - 0)) with (arr_len w d) by lia.
  replace (progression 0 w (Z.to_nat (arr_len w d))) with (progression (w * 0) w (Z.to_nat (arr_len w d))) by (f_equal; lia).
  rewrite progression_unit_scale, map_map. reflexivity.
Qed.
Lemma zlen_items w d : 0 < w -> zlen (items w d) = arr_len w d.
Proof. intros Hw. destruct (data_is_items_then_trailing w Hw d) as [H E]. rewrite E at 2. now rewrite (arr_len_mk w Hw _ _ H). Qed.

(* ================= 1. Array <op> scalar, unary operators, comparisons with a scalar ================= *)
Section OpLoop.
  Variables V U : Type.
  Variable w : Z.                      (* self._dtype.bitlength *)
  Variable dec : bits -> V.            (* self._dtype.read_fn on the w bits of an item *)
  Variable w' : Z.                     (* new_array._dtype.bitlength: = w, or 1 for the 'bool' Array of a comparison *)
  Variable build : U -> res bits.      (* new_array._dtype.build(value); Err e = it raises e (CreationError = ValueError: the value does not fit) *)
  Variable op : V -> res U.            (* partial_op; Err e = the operator raises e (ZeroDivisionError; ValueError: negative shift; TypeError ...) *)
  Hypothesis w_pos : 0 < w.
  Hypothesis w'_pos : 0 < w'.

  (* _create_element *)
  Definition create_element (x : U) : res bits :=
    do b <- build x; if negb (zlen b =? w') then Err ValueError else Ok b.
  (* the try-block: new_array._create_element(partial_op(v)) *)
  Definition step (it : bits) : res bits := do r <- op (dec it); create_element r.

  (* for i in range(len(self)): v = read_fn(self.data, start=bitlength * i); try: ... except ...: ... *)
  Fixpoint op_loop (d : bits) (idx : list Z) (st : lstate) : res lstate :=
    match idx with
    | [] => Ok st
    | i :: idx' => let v := dec (read_item w d i) in
                   do st' <- body st i (do r <- op v; create_element r); op_loop d idx' st'
    end.
  Definition apply_op (d : bits) : res bits := finish (op_loop d (range_list 0 (arr_len w d) 1) st0).

  Lemma op_loop_run d : forall idx st, op_loop d idx st = run (map (fun i => (i, step (read_item w d i))) idx) st.
  Proof.
    induction idx as [|i idx IH]; intros st; [reflexivity|]. cbn [op_loop map run]. fold (step (read_item w d i)).
    destruct (body st i (step (read_item w d i))) as [st'|e]; [|reflexivity]. cbn [bind]. apply IH.
  Qed.
  Lemma create_len x e : create_element x = Ok e -> build x = Ok e /\ zlen e = w'.
  Proof.
    unfold create_element. destruct (build x) as [b|]; [|discriminate]. cbn [bind].
    destruct (zlen b =? w') eqn:E; cbn [negb]; [|discriminate]. intros [= <-]. split; [reflexivity|lia].
  Qed.
  Lemma step_len it e : step it = Ok e -> zlen e = w'.
  Proof. unfold step. destruct (op (dec it)) as [r|]; [|discriminate]. cbn [bind]. intros H. now apply create_len in H. Qed.

  (* the complete characterisation: the first exception that is not caught propagates; else any caught failure gives ValueError at the
     end of the loop; else the result is the concatenation of the elements *)
  Theorem apply_op_char d : apply_op d = outcome (map step (items w d)).
  Proof.
    unfold apply_op. rewrite op_loop_run, finish_run, map_map. cbn [snd].
    rewrite <- (reads_are_items w d w_pos), map_map. reflexivity.
  Qed.

  (* 1. Array op scalar, success: when every item's result fits, the new Array has the same number of items, item i is the element built
     from op(value of item i), and it has NO trailing bits (those of self are not carried over) *)
  Theorem apply_op_success d : Forall (fun it => exists e, step it = Ok e) (items w d) ->
    exists d', apply_op d = Ok d' /\ map step (items w d) = map Ok (items w' d') /\ trailing w' d' = [] /\
               arr_len w' d' = arr_len w d /\ zlen d' = arr_len w d * w'.
  Proof.
    intros Hall. rewrite apply_op_char. rewrite <- (zlen_items w d w_pos), <- (zlen_map step). apply outcome_success; [exact w'_pos|].
    apply Forall_map_iff. revert Hall. apply Forall_impl. intros it (e & He). exists e. split; [exact He|now apply (step_len it)].
  Qed.

  (* 2. Array op scalar, failure: when the result of some item does not fit, or the operator raises ZeroDivisionError / ValueError on it
     (and no item raises anything else), the call raises ValueError, wherever the item is - the loop does not stop at it *)
  Theorem apply_op_failure d :
    Forall (fun it => forall ex, step it = Err ex -> caught ex = true) (items w d) ->
    Exists (fun it => exists ex, step it = Err ex) (items w d) ->
    apply_op d = Err ValueError.
  Proof. intros Hc Hex. rewrite apply_op_char. apply outcome_failure; [now apply Forall_map_iff|now apply Exists_map_iff]. Qed.
  (* an exception outside (ValueError, ZeroDivisionError) - TypeError, OverflowError ... - is not counted: the first one propagates as it is *)
  Theorem apply_op_uncaught d pre it post ex : items w d = pre ++ it :: post ->
    Forall (fun it => forall ex, step it = Err ex -> caught ex = true) pre -> step it = Err ex -> caught ex = false ->
    apply_op d = Err ex.
  Proof.
    intros E Hpre Hit Hex. rewrite apply_op_char, E, map_app. cbn [map]. rewrite Hit. apply outcome_uncaught; [now apply Forall_map_iff|exact Hex].
  Qed.

  (* the bookkeeping behind the error message: `failures` is the number of failing items and `index` the number of the first one *)
  Theorem op_loop_counts d : uncaught (map step (items w d)) = None ->
    exists st, op_loop d (range_list 0 (arr_len w d) 1) st0 = Ok st /\
      failures st = nfail (map step (items w d)) /\
      index st = first_fail (map (fun i => (i, step (read_item w d i))) (range_list 0 (arr_len w d) 1)) 0.
  Proof.
    intros Hu. rewrite op_loop_run, run_spec by (cbn; lia). rewrite map_map. cbn [snd].
    rewrite <- (map_map (read_item w d) step), (reads_are_items w d w_pos), Hu. eexists. split; [reflexivity|]. cbn. split; reflexivity.
  Qed.

  (* with a decoder of the result dtype that inverts build: the VALUE of item i of the result is op(value of item i of self) *)
  Variable dec' : bits -> U.
  Hypothesis dec_build : forall u b, build u = Ok b -> dec' b = u.
  Theorem apply_op_values d : Forall (fun it => exists e, step it = Ok e) (items w d) ->
    exists d', apply_op d = Ok d' /\ Forall2 (fun it it' => op (dec it) = Ok (dec' it')) (items w d) (items w' d') /\ trailing w' d' = [].
  Proof.
    intros Hall. destruct (apply_op_success d Hall) as (d' & Hd & Hm & Ht & _). exists d'. split; [exact Hd|]. split; [|exact Ht].
    apply map_eq_Forall2 in Hm. clear Hd Hall. induction Hm as [|it it' l l' H _ IH]; constructor; [|exact IH]. unfold step in H.
    destruct (op (dec it)) as [r|]; [|discriminate]. cbn [bind] in H. apply create_len in H as [H _]. now rewrite (dec_build r it' H).
  Qed.
End OpLoop.

(* ================= 2. the in-place variant (+=, -=, *=, //=, /=, <<=, >>=, %= with a scalar) ================= *)
Section InPlace.
  Variable V : Type.
  Variable w : Z.
  Variable dec : bits -> V.
  Variable build : V -> res bits.
  Variable op : V -> res V.            (* fun v => op(v, value) *)

  (* the state is self.data; the result is (self.data afterwards, what the call raised).  The loop is the one of the pure variant, with
     self._create_element; it only reads self.data and `self.data = new_data` is the last statement. *)
  Definition apply_op_inplace (d : bits) : bits * res unit :=
    match op_loop V V w dec w build op d (range_list 0 (arr_len w d) 1) st0 with
    | Err e => (d, Err e)
    | Ok st => if negb (failures st =? 0) then (d, Err ValueError) else (new_data st, Ok tt)
    end.

  (* 2 + 3. atomicity and agreement: the in-place operator succeeds exactly when the pure one does, self.data is then exactly the data of
     the Array the pure operator returns (so the trailing bits of self are dropped); when it raises, it raises the same exception and
     self.data is untouched *)
  Theorem inplace_is_pure_or_nothing d :
    apply_op_inplace d = match apply_op V V w dec w build op d with Ok d' => (d', Ok tt) | Err e => (d, Err e) end.
  Proof.
    unfold apply_op_inplace, apply_op, finish.
    destruct (op_loop V V w dec w build op d (range_list 0 (arr_len w d) 1) st0) as [st|e]; [|reflexivity]. cbn [bind].
    destruct (failures st =? 0); reflexivity.
  Qed.
  Corollary inplace_failure_atomic d e : snd (apply_op_inplace d) = Err e -> fst (apply_op_inplace d) = d.
  Proof. rewrite inplace_is_pure_or_nothing. destruct (apply_op V V w dec w build op d); [discriminate|reflexivity]. Qed.
End InPlace.

(* ================= 3. Array <op> Array ================= *)
Section Between.
  Variables V1 V2 U : Type.
  Variable w1 : Z. Variable dec1 : bits -> V1.       (* self._dtype *)
  Variable w2 : Z. Variable dec2 : bits -> V2.       (* other._dtype *)
  Variable w3 : Z. Variable build : U -> res bits.   (* new_type: _promotetype(self._dtype, other._dtype), or bool for a comparison *)
  Variable new_type : res unit.                      (* what computing new_type raises (_promotetype: ValueError for non-numeric dtypes) *)
  Variable op : V1 -> V2 -> res U.
  Hypothesis w1_pos : 0 < w1.
  Hypothesis w2_pos : 0 < w2.
  Hypothesis w3_pos : 0 < w3.

  Definition step2 (p : bits * bits) : res bits := do r <- op (dec1 (fst p)) (dec2 (snd p)); create_element U w3 build r.
  Fixpoint between_loop (d1 d2 : bits) (idx : list Z) (st : lstate) : res lstate :=
    match idx with
    | [] => Ok st
    | i :: idx' => let a := dec1 (read_item w1 d1 i) in
                   let b := dec2 (read_item w2 d2 i) in
                   do st' <- body st i (do r <- op a b; create_element U w3 build r); between_loop d1 d2 idx' st'
    end.
  Definition apply_between (d1 d2 : bits) : res bits :=
    if negb (arr_len w1 d1 =? arr_len w2 d2) then Err ValueError else           (* if len(self) != len(other): raise ValueError *)
    do _ <- new_type;
    finish (between_loop d1 d2 (range_list 0 (arr_len w1 d1) 1) st0).

  Lemma between_loop_run d1 d2 : forall idx st,
    between_loop d1 d2 idx st = run (map (fun i => (i, step2 (read_item w1 d1 i, read_item w2 d2 i))) idx) st.
  Proof.
    induction idx as [|i idx IH]; intros st; [reflexivity|]. cbn [between_loop map run].
    change (do r <- op (dec1 (read_item w1 d1 i)) (dec2 (read_item w2 d2 i)); create_element U w3 build r) with (step2 (read_item w1 d1 i, read_item w2 d2 i)).
    destruct (body st i (step2 (read_item w1 d1 i, read_item w2 d2 i))) as [st'|e]; [|reflexivity]. cbn [bind]. apply IH.
  Qed.
  Lemma combine_map {A B C} (f : A -> B) (g : A -> C) l : combine (map f l) (map g l) = map (fun x => (f x, g x)) l.
  Proof. induction l as [|x l IH]; [reflexivity|]. cbn [map combine]. now rewrite IH. Qed.

  (* 4a. Arrays with different numbers of items: ValueError, whatever the dtypes and the items *)
  Theorem between_length_mismatch d1 d2 : arr_len w1 d1 <> arr_len w2 d2 -> apply_between d1 d2 = Err ValueError.
  Proof. intros H. unfold apply_between. destruct (arr_len w1 d1 =? arr_len w2 d2) eqn:E; [lia|reflexivity]. Qed.
  (* 4b. same number of items: item i of self is paired with item i of other; the outcome follows the same rules as with a scalar *)
  Theorem between_char d1 d2 : arr_len w1 d1 = arr_len w2 d2 ->
    apply_between d1 d2 = do _ <- new_type; outcome (map step2 (combine (items w1 d1) (items w2 d2))).
  Proof.
    intros H. unfold apply_between. rewrite H at 1. rewrite Z.eqb_refl. cbn [negb]. destruct new_type as [u|e]; [|reflexivity]. cbn [bind].
    rewrite between_loop_run, finish_run, map_map. cbn [snd].
    rewrite <- (reads_are_items w1 d1 w1_pos), <- (reads_are_items w2 d2 w2_pos), <- H, combine_map, map_map. reflexivity.
  Qed.
  Theorem between_success d1 d2 : arr_len w1 d1 = arr_len w2 d2 -> new_type = Ok tt ->
    Forall (fun p => exists e, step2 p = Ok e) (combine (items w1 d1) (items w2 d2)) ->
    exists d', apply_between d1 d2 = Ok d' /\ map step2 (combine (items w1 d1) (items w2 d2)) = map Ok (items w3 d') /\
               trailing w3 d' = [] /\ arr_len w3 d' = arr_len w1 d1.
  Proof.
    intros H Hn Hall. rewrite (between_char d1 d2 H), Hn. cbn [bind].
    destruct (outcome_success w3 (map step2 (combine (items w1 d1) (items w2 d2))) w3_pos) as (d' & Hd & Hm & Ht & Hl & _).
    - apply Forall_map_iff. revert Hall. apply Forall_impl. intros p (e & He). exists e. split; [exact He|].
      unfold step2 in He. destruct (op (dec1 (fst p)) (dec2 (snd p))) as [r|]; [|discriminate]. cbn [bind] in He. now apply create_len in He.
    - exists d'. repeat split; try assumption. rewrite Hl, zlen_map. unfold zlen. rewrite combine_length.
      pose proof (zlen_items w1 d1 w1_pos) as L1. pose proof (zlen_items w2 d2 w2_pos) as L2. unfold zlen in L1, L2. lia.
  Qed.
  Theorem between_failure d1 d2 : arr_len w1 d1 = arr_len w2 d2 -> new_type = Ok tt ->
    Forall (fun p => forall ex, step2 p = Err ex -> caught ex = true) (combine (items w1 d1) (items w2 d2)) ->
    Exists (fun p => exists ex, step2 p = Err ex) (combine (items w1 d1) (items w2 d2)) ->
    apply_between d1 d2 = Err ValueError.
  Proof.
    intros H Hn Hc Hex. rewrite (between_char d1 d2 H), Hn. cbn [bind]. apply outcome_failure; [now apply Forall_map_iff|now apply Exists_map_iff].
  Qed.
End Between.

(* ================= 4. comparisons: the result is an Array('bool') ================= *)
Definition build_bool (b : bool) : res bits := Ok [b].          (* Dtype('bool').build(True / False) *)
Lemma cmp_outcome {A} (c : A -> bool) l : outcome (map (fun x => Ok [c x]) l) = Ok (map c l).
Proof.
  unfold outcome.
  assert (X : uncaught (map (fun x => Ok [c x]) l) = None /\ nfail (map (fun x => Ok [c x]) l) = 0 /\ concat (oks (map (fun x => Ok [c x]) l)) = map c l).
  { induction l as [|x l (A1 & A2 & A3)]; cbn; [auto|]. rewrite A3. auto. }
  destruct X as (-> & -> & ->). reflexivity.
Qed.
(* a < scalar (and >, <=, >=, ==, !=) never fails when the comparison itself does not raise: the data of the bool Array is the list of the
   comparison results, one bit per item, the trailing bits of self play no role *)
Theorem compare_scalar {V} w (dec : bits -> V) (cmp : V -> bool) d : 0 < w ->
  apply_op V bool w dec 1 build_bool (fun v => Ok (cmp v)) d = Ok (map (fun it => cmp (dec it)) (items w d)).
Proof. intros Hw. rewrite apply_op_char by exact Hw. exact (cmp_outcome (fun it => cmp (dec it)) (items w d)). Qed.
(* a < b for two Arrays: ValueError when the numbers of items differ, else the list of the item-wise comparison results *)
Theorem compare_arrays {V1 V2} w1 (dec1 : bits -> V1) w2 (dec2 : bits -> V2) (cmp : V1 -> V2 -> bool) d1 d2 : 0 < w1 -> 0 < w2 ->
  apply_between V1 V2 bool w1 dec1 w2 dec2 1 build_bool (Ok tt) (fun a b => Ok (cmp a b)) d1 d2 =
  if arr_len w1 d1 =? arr_len w2 d2 then Ok (map (fun p => cmp (dec1 (fst p)) (dec2 (snd p))) (combine (items w1 d1) (items w2 d2)))
  else Err ValueError.
Proof.
  intros H1 H2. destruct (arr_len w1 d1 =? arr_len w2 d2) eqn:E.
  - rewrite between_char by (try assumption; lia). cbn [bind].
    exact (cmp_outcome (fun p => cmp (dec1 (fst p)) (dec2 (snd p))) (combine (items w1 d1) (items w2 d2))).
  - apply between_length_mismatch. lia.
Qed.

(* ================= 5. bitwise operators: a & v, a | v, a ^ v and &=, |=, ^= ================= *)
Section Bitwise.
  Variable w : Z.
  Hypothesis w_pos : 0 < w.
  Variable f : bool -> bool -> bool.       (* andb / orb / xorb: op = operator.iand / ior / ixor on the w-bit BitArray slice *)
  Notation isw := (fun it : bits => zlen it = w).

  (* for start in range(0, len(self) * w, w): self.data[start: start + w] = op(self.data[start: start + w], value)
     - the state self.data is threaded: an exception in the middle would leave the earlier items modified *)
  Fixpoint bitwise_loop (value d : bits) (starts : list Z) : bits * res unit :=
    match starts with
    | [] => (d, Ok tt)
    | s :: r => match (do cur <- bs_getitem_slice false d (mkslice (Some s) (Some (s + w)) None);
                       do x <- ba_bitop f cur value;
                       ba_setitem_slice false d (mkslice (Some s) (Some (s + w)) None) (VBits x)) with
                | Ok d' => bitwise_loop value d' r
                | Err e => (d, Err e)
                end
    end.
  Definition bitwise_inplace (value d : bits) : bits * res unit :=
    if negb (zlen value =? w) then (d, Err ValueError)
    else bitwise_loop value d (range_list 0 (arr_len w d * w) w).
  (* a_copy = self[:]; a_copy._apply_bitwise_op_to_all_elements_inplace(op, value); return a_copy *)
  Definition bitwise_pure (value d : bits) : res bits :=
    do c <- arr_getslice w d (mkslice None None None);
    let (c', r) := bitwise_inplace value c in do _ <- r; Ok c'.

  Lemma zlen_map2 : forall a b : bits, zlen a = zlen b -> zlen (map2 f a b) = zlen a.
  Proof.
    induction a as [|x a IH]; intros [|y b] H; try reflexivity.
    - rewrite zlen_cons, zlen_nil in H. pose proof (zlen_nonneg a). lia.
    - cbn [map2]. rewrite !zlen_cons in *. rewrite (IH b); lia.
  Qed.

  Lemma bitwise_loop_spec value : zlen value = w -> forall its P Q s, Forall isw its -> zlen P = s ->
    bitwise_loop value (P ++ concat its ++ Q) (progression s w (length its)) = (P ++ concat (map (fun it => map2 f it value) its) ++ Q, Ok tt).
  Proof.
    intros Hv. induction its as [|x its IH]; intros P Q s Hi HP; [reflexivity|].
    pose proof (Forall_inv Hi) as Hx. pose proof (Forall_inv_tail Hi) as Hi'. cbv beta in Hx.
    cbn [length progression bitwise_loop concat map]. rewrite <- !app_assoc.
    rewrite (get_block w w_pos _ P x (concat its ++ Q) s eq_refl HP Hx). cbn [bind].
    unfold ba_bitop. replace (zlen x =? zlen value) with true by lia. cbn [bind].
    rewrite (set_block w w_pos _ P x (concat its ++ Q) s _ eq_refl HP Hx).
    rewrite (app_assoc P (map2 f x value)). rewrite (IH (P ++ map2 f x value) Q (s + w) Hi').
    - now rewrite <- !app_assoc.
    - rewrite zlen_app, zlen_map2; lia.
  Qed.

  (* a &= v (|=, ^=) on ANY data: ValueError, self untouched, when v has not exactly the item width; else it cannot fail, every item is
     combined bit by bit with v, and the trailing bits are KEPT (unlike the arithmetic in-place operators) *)
  Theorem bitwise_inplace_spec value d :
    bitwise_inplace value d =
    if zlen value =? w then (mk (map (fun it => map2 f it value) (items w d)) (trailing w d), Ok tt) else (d, Err ValueError).
  Proof.
    unfold bitwise_inplace. destruct (zlen value =? w) eqn:Ev; cbn [negb]; [|reflexivity].
    destruct (data_is_items_then_trailing w w_pos d) as [H E].
    set (its := items w d) in *. set (tr := trailing w d) in *. clearbody its tr. subst d.
    rewrite (arr_len_mk w w_pos its tr H). destruct H as [Hi Ht].
    unfold range_list. replace (range_len 0 (zlen its * w) w) with (zlen its).
    2:{ pose proof (range_len_scale w w_pos 0 (zlen its) 1 ltac:(lia)) as R. rewrite Z.mul_0_l, Z.mul_1_l in R. rewrite R, range_len_unit.
        pose proof (zlen_nonneg its). lia. }
    unfold zlen at 1. rewrite Nat2Z.id. unfold mk.
    exact (bitwise_loop_spec value ltac:(lia) its [] tr 0 Hi eq_refl).
  Qed.

  Lemma getslice_all its tr : wfA w its tr -> arr_getslice w (mk its tr) (mkslice None None None) = Ok (concat its).
  Proof.
    intros H. rewrite (getslice_is_list_slice w w_pos its tr _ H). unfold seq_slice, slice_indices. cbn [s_step s_start s_stop].
    change (1 =? 0) with false. change (1 <? 0) with false. cbv iota. cbn [bind res_map]. unfold range_list. rewrite range_len_unit.
    rewrite Z.sub_0_r, Z.max_r by apply zlen_nonneg. unfold zlen. rewrite Nat2Z.id.
    change 0 with (Z.of_nat 0). rewrite map_znth_unit_progression by (cbn; lia). cbn [skipn]. now rewrite firstn_all.
  Qed.
  (* a & v (|, ^; also v & a ...) on ANY data: a new Array whose items are the items of self combined bit by bit with v and which has NO
     trailing bits (the copy self[:] drops them); ValueError when v has not the item width *)
  Theorem bitwise_pure_spec value d :
    if zlen value =? w then exists d', bitwise_pure value d = Ok d' /\ items w d' = map (fun it => map2 f it value) (items w d) /\ trailing w d' = []
    else bitwise_pure value d = Err ValueError.
  Proof.
    unfold bitwise_pure. destruct (data_is_items_then_trailing w w_pos d) as [H E].
    set (its := items w d) in *. set (tr := trailing w d) in *. clearbody its tr. subst d.
    rewrite (getslice_all its tr H). cbn [bind]. rewrite bitwise_inplace_spec. destruct H as [Hi Ht].
    destruct (zlen value =? w) eqn:Ev; [|reflexivity]. cbn [bind].
    assert (H0 : wfA w its []) by (split; [exact Hi|cbn; lia]).
    replace (concat its) with (mk its []) by (unfold mk; apply app_nil_r).
    rewrite (items_mk w w_pos its [] H0), (trailing_mk w w_pos its [] H0).
    assert (H1 : wfA w (map (fun it => map2 f it value) its) []).
    { split; [|cbn; lia]. apply Forall_map_iff. revert Hi. apply Forall_impl. intros it Hit. cbv beta in *. rewrite zlen_map2; lia. }
    eexists. split; [reflexivity|]. now rewrite (items_mk w w_pos _ [] H1), (trailing_mk w w_pos _ [] H1).
  Qed.
End Bitwise.

(* ================= 6. _promotetype ================= *)
Inductive kind := KInt | KFloat | KOther.          (* return_type is int or bool | is float | anything else (str, bytes, Bits, None) *)
(* dt_tag: whatever else distinguishes two Dtype objects with the same name and length (the scale) *)
Record dt := mkdt { dt_name : string; dt_kind : kind; dt_signed : bool; dt_len : Z; dt_tag : Z }.
Definition is_float (x : dt) : bool := match dt_kind x with KFloat => true | _ => false end.
Definition is_int (x : dt) : bool := match dt_kind x with KInt => true | _ => false end.
Definition b2z (b : bool) : Z := if b then 1 else 0.
Definition promotetype (t1 t2 : dt) : res dt :=
  if negb (b2z (is_float t1) + b2z (is_int t1) + b2z (is_float t2) + b2z (is_int t2) =? 2) then Err ValueError else
  if String.eqb (dt_name t1) (dt_name t2) then Ok (if dt_len t2 >? dt_len t1 then t2 else t1) else      (* as repaired by D62 *)
  if is_float t1 && is_int t2 then Ok t1 else
  if is_int t1 && is_float t2 then Ok t2 else
  if is_float t1 && is_float t2 then Ok (if dt_len t2 >? dt_len t1 then t2 else t1) else
  if negb (is_int t1 && is_int t2) then Err AssertionError else
  if dt_signed t1 && negb (dt_signed t2) then Ok t1 else
  if dt_signed t2 && negb (dt_signed t1) then Ok t2 else
  Ok (if dt_len t2 >? dt_len t1 then t2 else t1).

Definition numeric (t : dt) : Prop := dt_kind t <> KOther.
(* in the dtype register the name determines the return type and the signedness *)
Definition coherent (t1 t2 : dt) : Prop := dt_name t1 = dt_name t2 -> dt_kind t1 = dt_kind t2 /\ dt_signed t1 = dt_signed t2.
(* the class that rules 3 and 4 order: float > signed int > unsigned int *)
Definition rank (t : dt) : Z := match dt_kind t with KFloat => 2 | KInt => if dt_signed t then 1 else 0 | KOther => -1 end.

Ltac promo := unfold promotetype, numeric, coherent, rank, is_float, is_int, b2z in *.
Ltac name_cases t1 t2 := let E := fresh "En" in destruct (String.eqb (dt_name t1) (dt_name t2)) eqn:E; [apply String.eqb_eq in E|apply String.eqb_neq in E].

(* rule 1: ValueError exactly when one of the two is not an int / float type; the assert never fires *)
Theorem promote_defined t1 t2 :
  (numeric t1 /\ numeric t2 -> exists t, promotetype t1 t2 = Ok t) /\ (~ (numeric t1 /\ numeric t2) -> promotetype t1 t2 = Err ValueError).
Proof.
  promo. split.
  - intros [H1 H2]. destruct (dt_kind t1), (dt_kind t2); try congruence; cbn; destruct (String.eqb _ _); eauto;
      destruct (dt_signed t1), (dt_signed t2); cbn; eauto.
  - intros H. destruct (dt_kind t1), (dt_kind t2); cbn; try reflexivity; exfalso; apply H; split; congruence.
Qed.
(* rule 2: one of the two arguments is returned, never a new type *)
Theorem promote_is_argument t1 t2 t : promotetype t1 t2 = Ok t -> t = t1 \/ t = t2.
Proof.
  promo. destruct (dt_kind t1), (dt_kind t2); cbn; try discriminate; destruct (String.eqb _ _);
    try (destruct (dt_len t1 >? dt_len t2)); try (destruct (dt_len t2 >? dt_len t1));
    try (destruct (dt_signed t1), (dt_signed t2); cbn); intros [= <-]; auto.
Qed.
(* the whole function in one line: for dtypes of the register, the one of higher class wins, then the longer one; when class and length
   are equal the FIRST is returned (since the repair D62 also when the names are equal and only the scales differ) *)
Theorem promote_char t1 t2 : numeric t1 -> numeric t2 -> coherent t1 t2 ->
  promotetype t1 t2 = Ok (if rank t1 =? rank t2
                          then (if dt_len t2 >? dt_len t1 then t2 else t1)
                          else if rank t1 >? rank t2 then t1 else t2).
Proof.
  intros H1 H2 Hc. promo. name_cases t1 t2.
  - destruct (Hc En) as [Ek Es]. rewrite <- Ek, <- Es in *. destruct (dt_kind t1); try congruence; cbn;
      rewrite ?Z.eqb_refl; reflexivity.
  - clear Hc. destruct (dt_kind t1), (dt_kind t2); try congruence; cbn; try reflexivity;
      try (destruct (dt_signed t1), (dt_signed t2); cbn; try reflexivity).
Qed.
(* rule 3: a float type wins against an int type, in either position, whatever the lengths *)
Theorem promote_float_beats_int tf ti : dt_kind tf = KFloat -> dt_kind ti = KInt -> coherent tf ti -> coherent ti tf ->
  promotetype tf ti = Ok tf /\ promotetype ti tf = Ok tf.
Proof.
  intros Hf Hi C1 C2. split; [rewrite (promote_char tf ti)|rewrite (promote_char ti tf)]; try assumption; unfold numeric, rank; try congruence;
    rewrite Hf, Hi; destruct (dt_signed ti); reflexivity.
Qed.
(* rule 4: a signed int type wins against an unsigned one, in either position, whatever the lengths *)
Theorem promote_signed_beats_unsigned ts tu : dt_kind ts = KInt -> dt_kind tu = KInt -> dt_signed ts = true -> dt_signed tu = false ->
  coherent ts tu -> coherent tu ts -> promotetype ts tu = Ok ts /\ promotetype tu ts = Ok ts.
Proof.
  intros Hs Hu Ss Su C1 C2. split; [rewrite (promote_char ts tu)|rewrite (promote_char tu ts)]; try assumption; unfold numeric, rank; try congruence;
    rewrite Hs, Hu, Ss, Su; reflexivity.
Qed.
(* rule 5: within a class (two floats, two signed ints, two unsigned ints) the longer type wins, in either position *)
Theorem promote_longer_wins tl ts : numeric tl -> numeric ts -> rank tl = rank ts -> dt_len tl > dt_len ts -> coherent tl ts -> coherent ts tl ->
  promotetype tl ts = Ok tl /\ promotetype ts tl = Ok tl.
Proof.
  intros Hl Hs Hr Hlen C1 C2. split; [rewrite (promote_char tl ts)|rewrite (promote_char ts tl)]; try assumption; rewrite Hr, Z.eqb_refl.
  - destruct (dt_len ts >? dt_len tl) eqn:E1; [lia|]. destruct (dt_len tl >? dt_len ts) eqn:E2; [reflexivity|lia].
  - destruct (dt_len tl >? dt_len ts) eqn:E2; [reflexivity|lia].
Qed.
(* rule 6: same class, same length (float16 / bfloat16, int16 / intle16, bool / uint1, uint8 scale 2 / uint8 scale 4): the first wins *)
Theorem promote_tie_first t1 t2 : numeric t1 -> numeric t2 -> coherent t1 t2 -> rank t1 = rank t2 -> dt_len t1 = dt_len t2 ->
  promotetype t1 t2 = Ok t1.
Proof.
  intros H1 H2 Hc Hr Hl. rewrite promote_char by assumption. rewrite Hr, Z.eqb_refl, Hl.
  replace (dt_len t2 >? dt_len t2) with false by lia. reflexivity.
Qed.
(* idempotent *)
Theorem promote_idempotent t : numeric t -> promotetype t t = Ok t.
Proof. intros H. apply promote_tie_first; try assumption; try reflexivity. intros _. split; reflexivity. Qed.
(* commutative except on ties: when class or length differ, both orders return the same type *)
Theorem promote_comm_no_tie t1 t2 : numeric t1 -> numeric t2 -> coherent t1 t2 -> coherent t2 t1 ->
  rank t1 <> rank t2 \/ dt_len t1 <> dt_len t2 -> promotetype t1 t2 = promotetype t2 t1.
Proof.
  intros H1 H2 C1 C2 Hd. rewrite (promote_char t1 t2), (promote_char t2 t1) by assumption. f_equal.
  rewrite (Z.eqb_sym (rank t2)). destruct (rank t1 =? rank t2) eqn:Er.
  - destruct Hd as [Hd|Hd]; [lia|]. destruct (dt_len t2 >? dt_len t1) eqn:E1, (dt_len t1 >? dt_len t2) eqn:E2; try reflexivity; lia.
  - destruct (rank t1 >? rank t2) eqn:E1, (rank t2 >? rank t1) eqn:E2; try reflexivity; lia.
Qed.

(* samples of the dtype register: (name, return type, is_signed, length) as /repo reports them *)
Definition d_uint8 tag := mkdt "uint" KInt false 8 tag.
Definition d_uintbe8 := mkdt "uintbe" KInt false 8 0.
Definition d_int8 := mkdt "int" KInt true 8 0.
Definition d_uint16 := mkdt "uint" KInt false 16 0.
Definition d_float16 := mkdt "float" KFloat true 16 0.
Definition d_bfloat := mkdt "bfloat" KFloat true 16 0.
Definition d_hex8 := mkdt "hex" KOther false 8 0.
Example promo_ex1 : promotetype d_int8 d_uint16 = Ok d_int8 /\ promotetype d_uint16 d_int8 = Ok d_int8. Proof. split; reflexivity. Qed.
Example promo_ex2 : promotetype d_hex8 d_int8 = Err ValueError. Proof. reflexivity. Qed.
(* not commutative: a tie between different names goes to the first *)
Example promo_not_comm : promotetype d_float16 d_bfloat = Ok d_float16 /\ promotetype d_bfloat d_float16 = Ok d_bfloat. Proof. split; reflexivity. Qed.
(* rule 6 for two Dtypes with the same name and length: Dtype('uint8', scale=2) / Dtype('uint8', scale=4). Before the repair D62 the
   function returned the second one here (and was not associative for that reason) *)
Example promo_tie_scaled : promotetype (d_uint8 2) (d_uint8 4) = Ok (d_uint8 2). Proof. reflexivity. Qed.

(* ================= the models against the real library (uint8 / int8 items; every value below is what /repo gives) ================= *)
Definition dec_int (s : bool) (b : bits) : Z := match ba2int b s with Ok v => v | Err _ => 0 end.
Definition build_int (n : Z) (s : bool) (v : Z) : res bits := int2bitstore v n s.
Definition ints (n : Z) (l : list Z) : bits := concat (map (fun v => enc_uint n (v mod 2 ^ n)) l).
Definition showi (n : Z) (s : bool) (r : res bits) := match r with Ok d => Ok (map (dec_int s) (items n d), trailing n d) | Err e => Err e end.
Definition arith (s : bool) (op : Z -> res Z) d := showi 8 s (apply_op Z Z 8 (dec_int s) 8 (build_int 8 s) op d).
Definition A1 := ints 8 [10;200;30].
Definition B1 := ints 8 [-128;5;127].
Definition py_floordiv (n v : Z) : res Z := if n =? 0 then Err ZeroDivisionError else Ok (v / n).
Definition py_rshift (n v : Z) : res Z := if n <? 0 then Err ValueError else Ok (Z.shiftr v n).
Definition py_lshift (n v : Z) : res Z := if n <? 0 then Err ValueError else Ok (Z.shiftl v n).
Example v_add1 : arith false (fun v => Ok (v + 50)) A1 = Ok ([60;250;80], []). Proof. vm_compute. reflexivity. Qed.
Example v_add2 : arith false (fun v => Ok (v + 60)) A1 = Err ValueError. Proof. vm_compute. reflexivity. Qed.               (* 260 does not fit *)
Example v_div0 : arith false (py_floordiv 0) A1 = Err ValueError. Proof. vm_compute. reflexivity. Qed.                      (* 3 ZeroDivisionErrors -> ValueError *)
Example v_rsub : arith false (fun v => Ok (100 - v)) A1 = Err ValueError. Proof. vm_compute. reflexivity. Qed.              (* 100 - 200 < 0 *)
Example v_neg : arith true (fun v => Ok (- v)) B1 = Err ValueError. Proof. vm_compute. reflexivity. Qed.                    (* -(-128) does not fit int8 *)
Example v_rshift : arith true (py_rshift 1) B1 = Ok ([-64;2;63], []). Proof. vm_compute. reflexivity. Qed.
Example v_rshift_neg : arith true (py_rshift (-1)) B1 = Err ValueError. Proof. vm_compute. reflexivity. Qed.               (* negative shift count *)
(* b << 1: "caused 2 errors. First error at index 0" *)
Example v_lshift_counts : match op_loop Z Z 8 (dec_int true) 8 (build_int 8 true) (py_lshift 1) B1 [0;1;2] st0 with
                          | Ok st => (failures st, index st) = (2, 0) | Err _ => False end. Proof. vm_compute. reflexivity. Qed.
Example v_trailing : arith false (fun v => Ok (v + 1)) (ints 8 [1;2;3] ++ t101) = Ok ([2;3;4], []). Proof. vm_compute. reflexivity. Qed.
Example v_typeerror : arith false (fun v => Err TypeError) A1 = Err TypeError. Proof. vm_compute. reflexivity. Qed.        (* a + "x" *)
Example v_lt : apply_op Z bool 8 (dec_int true) 1 build_bool (fun v => Ok (v <? 5)) B1 = Ok [true;false;false]. Proof. vm_compute. reflexivity. Qed.
(* c += 1 with trailing bits 101: a failure leaves everything, a success drops the trailing bits *)
Example v_iadd_fail : apply_op_inplace Z 8 (dec_int false) (build_int 8 false) (fun v => Ok (v + 1)) (ints 8 [1;255;3] ++ t101) = (ints 8 [1;255;3] ++ t101, Err ValueError).
Proof. vm_compute. reflexivity. Qed.
Example v_iadd_ok : apply_op_inplace Z 8 (dec_int false) (build_int 8 false) (fun v => Ok (v + 1)) (ints 8 [1;2;3] ++ t101) = (ints 8 [2;3;4], Ok tt).
Proof. vm_compute. reflexivity. Qed.
(* Array('uint8', [1,2,3]) + 1 trailing bit  +  Array('int16', [-1,-2,-4]) + 7 trailing bits  ->  Array('int16', [0,0,-1]) *)
Definition between_u8_i16 := apply_between Z Z Z 8 (dec_int false) 16 (dec_int true) 16 (build_int 16 true) (Ok tt) (fun a b => Ok (a + b)).
Example v_between : showi 16 true (between_u8_i16 (ints 8 [1;2;3] ++ [true]) (ints 16 [-1;-2;-4] ++ repeat false 7)) = Ok ([0;0;-1], []).
Proof. vm_compute. reflexivity. Qed.
Example v_between_len : between_u8_i16 (ints 8 [1;2]) (ints 16 [-1;-2;-4]) = Err ValueError. Proof. vm_compute. reflexivity. Qed.
(* Array('uint8', [100, 2]) + Array('int8', [100, -3]): 200 does not fit int8 *)
Example v_between_fit : apply_between Z Z Z 8 (dec_int false) 8 (dec_int true) 8 (build_int 8 true) (Ok tt) (fun a b => Ok (a + b)) (ints 8 [100;2]) (ints 8 [100;-3]) = Err ValueError.
Proof. vm_compute. reflexivity. Qed.
(* c &= '0xf0' and c & '0x0f' with trailing bits 101; a 1-bit operand is refused *)
Example v_iand : bitwise_inplace 8 andb (ints 8 [240]) (ints 8 [1;255;3] ++ t101) = (ints 8 [0;240;0] ++ t101, Ok tt). Proof. vm_compute. reflexivity. Qed.
Example v_and : bitwise_pure 8 andb (ints 8 [15]) (ints 8 [1;2;3] ++ t101) = Ok (ints 8 [1;2;3]). Proof. vm_compute. reflexivity. Qed.
Example v_iand_len : bitwise_inplace 8 andb [true] (ints 8 [1;255;3] ++ t101) = (ints 8 [1;255;3] ++ t101, Err ValueError). Proof. vm_compute. reflexivity. Qed.

(* the hypotheses of the theorems are satisfiable on these inputs *)
Example hyp_success : Forall (fun it => exists e, step Z Z (dec_int false) 8 (build_int 8 false) (fun v => Ok (v + 50)) it = Ok e) (items 8 A1).
Proof. vm_compute. repeat constructor; eexists; reflexivity. Qed.
Example hyp_failure :
  Forall (fun it => forall ex, step Z Z (dec_int false) 8 (build_int 8 false) (fun v => Ok (v + 60)) it = Err ex -> caught ex = true) (items 8 A1) /\
  Exists (fun it => exists ex, step Z Z (dec_int false) 8 (build_int 8 false) (fun v => Ok (v + 60)) it = Err ex) (items 8 A1).
Proof.
  vm_compute. split.
  - repeat constructor; intros ex H; try discriminate H. now injection H as <-.
  - apply Exists_cons_tl. apply Exists_cons_hd. eexists. reflexivity.
Qed.

Print Assumptions apply_op_char.
Print Assumptions apply_op_success.
Print Assumptions apply_op_failure.
Print Assumptions apply_op_uncaught.
Print Assumptions op_loop_counts.
Print Assumptions apply_op_values.
Print Assumptions inplace_is_pure_or_nothing.
Print Assumptions inplace_failure_atomic.
Print Assumptions between_length_mismatch.
Print Assumptions between_char.
Print Assumptions between_success.
Print Assumptions between_failure.
Print Assumptions compare_scalar.
Print Assumptions compare_arrays.
Print Assumptions bitwise_inplace_spec.
Print Assumptions bitwise_pure_spec.
Print Assumptions promote_defined.
Print Assumptions promote_is_argument.
Print Assumptions promote_char.
Print Assumptions promote_float_beats_int.
Print Assumptions promote_signed_beats_unsigned.
Print Assumptions promote_longer_wins.
Print Assumptions promote_tie_first.
Print Assumptions promote_idempotent.
Print Assumptions promote_comm_no_tie.

(* the function is "the leftmost maximum for (class, length)", and it is associative *)
Definition gtk (t2 t1 : dt) : bool := (rank t2 >? rank t1) || ((rank t2 =? rank t1) && (dt_len t2 >? dt_len t1)).
Definition leftmax (t1 t2 : dt) : dt := if gtk t2 t1 then t2 else t1.
Lemma promote_leftmax t1 t2 : numeric t1 -> numeric t2 -> coherent t1 t2 -> promotetype t1 t2 = Ok (leftmax t1 t2).
Proof.
  intros H1 H2 C. rewrite promote_char by assumption. f_equal. unfold leftmax, gtk. rewrite (Z.eqb_sym (rank t2)).
  destruct (rank t1 =? rank t2) eqn:Er.
  - replace (rank t2 >? rank t1) with false by lia. cbn [orb andb]. reflexivity.
  - cbn [andb]. rewrite orb_false_r. destruct (rank t1 >? rank t2) eqn:E1, (rank t2 >? rank t1) eqn:E2; try reflexivity; lia.
Qed.
Theorem promote_assoc a b c : numeric a -> numeric b -> numeric c ->
  coherent a b -> coherent b c -> coherent a c ->
  (do x <- promotetype a b; promotetype x c) = (do y <- promotetype b c; promotetype a y).
Proof.
  intros Na Nb Nc Cab Cbc Cac. rewrite (promote_leftmax a b), (promote_leftmax b c) by assumption. cbn [bind]. unfold leftmax.
  destruct (gtk b a) eqn:Eba, (gtk c b) eqn:Ecb; rewrite ?(promote_leftmax b c), ?(promote_leftmax a c), ?(promote_leftmax a b) by assumption;
    f_equal; unfold leftmax; rewrite ?Eba, ?Ecb; try reflexivity.
  - (* b > a, c > b: c > a *) replace (gtk c a) with true; [reflexivity|]. unfold gtk in *. lia.
  - (* b <= a, c <= b: c <= a *) replace (gtk c a) with false; [reflexivity|]. unfold gtk in *. lia.
Qed.
Print Assumptions promote_assoc.
