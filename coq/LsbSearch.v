(* LsbSearch.v — C12/C07: the lsb0 search (_findall_lsb0: chunked scan from the end backwards) is the mirror of the msb0 search:
   findall under lsb0 on (d, p) over [s, e) returns exactly the msb0 brute-force matches of (rev p) in (rev d) over [s, e). *)
From BS Require Import Prims BitsCore Search SeqProofs RangeLemmas SearchProofs FastPath SearchTop StoreProofs MirrorProofs.
From Coq Require Import ZifyBool.
Open Scope Z_scope.

Definition lpos (d p : bits) (q : Z) : Z := zlen d - q - zlen p.
Definition aligned (d p : bits) (ba : bool) (q : Z) : bool := negb ba || (lpos d p q mod 8 =? 0).

(* emit without a count: every (aligned) element, in the order given *)
Lemma emit_lsb0_nocount d p ba : forall l c, exists c', emit_lsb0 d p l None ba c = (map (lpos d p) (filter (aligned d p ba) l), c', false).
Proof.
  induction l as [|q l IH]; intros c; [exists c; reflexivity|].
  cbn [emit_lsb0 filter]. unfold aligned at 1. fold (lpos d p q).
  destruct (negb ba || (lpos d p q mod 8 =? 0)) eqn:E.
  - destruct (IH (c + 1)) as [c' ->]. exists c'. reflexivity.
  - destruct (IH c) as [c' ->]. exists c'. reflexivity.
Qed.

Lemma spec_matches_split d p a m b : a <= m -> m <= b + 1 ->
  spec_matches d p a (b + zlen p) false = spec_matches d p a (m - 1 + zlen p) false ++ spec_matches d p m (b + zlen p) false.
Proof.
  intros H1 H2. unfold spec_matches. rewrite <- filter_app. f_equal.
  replace (m - 1 + zlen p - zlen p + 1) with m by lia. replace (b + zlen p - zlen p + 1) with (b + 1) by lia.
  apply zrange_split. lia.
Qed.

Lemma spec_matches_empty d p a b ba : b < a + zlen p -> spec_matches d p a b ba = [].
Proof. intros H. unfold spec_matches. rewrite zrange_empty by lia. reflexivity. Qed.

(* the chunk loop: all matches with start in [ms, hi], highest first *)
Lemma lsb0_chunks_spec d p ms inc ba : p <> [] -> 0 < inc -> 0 <= ms ->
  forall fuel hi c, hi + zlen p <= zlen d -> (Z.to_nat (hi - ms + 1) < fuel)%nat ->
  lsb0_chunks fuel d p ms inc hi None ba c =
  Ok (map (lpos d p) (filter (aligned d p ba) (rev (spec_matches d p ms (hi + zlen p) false)))).
Proof.
  intros Hp Hinc Hms. induction fuel as [|fuel IH]; intros hi c Hhi Hf; [lia|].
  cbn [lsb0_chunks]. destruct (hi >=? ms) eqn:E.
  - set (lo := Z.max ms (hi - inc + 1)).
    assert (Hlo : ms <= lo <= hi) by (unfold lo; lia).
    rewrite findall_store_spec by (try assumption; pose proof (zlen_nonneg p); lia). cbn [bind].
    destruct (emit_lsb0_nocount d p ba (rev (spec_matches d p lo (hi + zlen p) false)) c) as [c' ->].
    rewrite IH by lia. cbn [bind]. f_equal.
    rewrite (spec_matches_split d p ms lo hi) by lia.
    rewrite rev_app_distr, filter_app, map_app. reflexivity.
  - rewrite spec_matches_empty by lia. reflexivity.
Qed.

(* the msb0 window of an lsb0 [s, e) *)
Lemma lsb0_window_spec d s e : 0 <= s -> s <= e -> e <= zlen d -> lsb0_window d s e = Ok (zlen d - e, zlen d - s).
Proof.
  intros H0 H1 H2. unfold lsb0_window. pose proof (zlen_nonneg d) as Hl.
  assert (Hsi : slice_indices (mkslice (Some s) (Some e) None) (zlen d) = Ok (s, e, 1)) by (apply slice_indices_unit_id; lia).
  rewrite (offset_unit _ _ _ _ _ Hl Hsi). cbn [bind].
  destruct (e <=? s) eqn:E.
  - assert (s = e) by lia. subst e. cbn [s_start s_stop]. unfold validate_slice.
    replace (zlen d - s <? 0) with false by lia.
    replace ((0 <=? zlen d - s) && (zlen d - s <=? zlen d - s) && (zlen d - s <=? zlen d)) with true by lia. reflexivity.
  - cbn [s_start s_stop]. unfold validate_slice.
    replace (zlen d - e <? 0) with false by lia. replace (zlen d - s <? 0) with false by lia.
    replace ((0 <=? zlen d - e) && (zlen d - e <=? zlen d - s) && (zlen d - s <=? zlen d)) with true by lia. reflexivity.
Qed.

(* occurrence of p in d at msb0 position q  <->  occurrence of rev p in rev d at position len - q - |p| *)
Lemma sub_rev {A} (l : list A) a b : 0 <= a -> a <= b -> b <= zlen l -> sub (rev l) a b = rev (sub l (zlen l - b) (zlen l - a)).
Proof.
  intros H0 H1 H2. unfold sub. rewrite skipn_rev, firstn_rev. f_equal.
  rewrite firstn_length. unfold zlen in *. rewrite skipn_firstn_comm. f_equal; [lia|]. f_equal. lia.
Qed.

Lemma beq_bits_rev (a b : bits) : beq_bits (rev a) (rev b) = beq_bits a b.
Proof.
  destruct (beq_bits a b) eqn:E.
  - apply beq_bits_eq in E. subst. apply beq_bits_eq. reflexivity.
  - destruct (beq_bits (rev a) (rev b)) eqn:E2; [|reflexivity]. apply beq_bits_eq in E2.
    assert (a = b) by (rewrite <- (rev_involutive a), <- (rev_involutive b), E2; reflexivity).
    subst. assert (beq_bits b b = true) by (apply beq_bits_eq; reflexivity). congruence.
Qed.

Lemma occurs_at_mirror d p q : occurs_at (rev d) (rev p) (lpos d p q) = occurs_at d p q.
Proof.
  unfold occurs_at, lpos. rewrite !zlen_rev. pose proof (zlen_nonneg p) as Hp. pose proof (zlen_nonneg d) as Hd.
  destruct ((0 <=? q) && (q + zlen p <=? zlen d)) eqn:E.
  - replace ((0 <=? zlen d - q - zlen p) && (zlen d - q - zlen p + zlen p <=? zlen d)) with true by lia. cbn [andb].
    rewrite sub_rev by lia. rewrite beq_bits_rev. f_equal. f_equal; lia.
  - replace ((0 <=? zlen d - q - zlen p) && (zlen d - q - zlen p + zlen p <=? zlen d)) with false by lia. reflexivity.
Qed.

Lemma incr_rev_map_decreasing g l : (forall x y, x < y -> g y < g x) -> incr l -> incr (map g (rev l)).
Proof.
  intros Hg. induction l as [|x l IH]; intros H; [constructor|]. destruct (incr_cons_inv _ _ H) as [S F].
  cbn [rev]. rewrite map_app. apply incr_app; [auto|cbn; apply incr_cons; [constructor|intros y []]|].
  intros a b Ha Hb. cbn in Hb. destruct Hb as [<-|[]]. apply in_map_iff in Ha as (z & <- & Hz). apply in_rev in Hz. apply Hg, F, Hz.
Qed.

(* ---------- the mirror equation between the two brute-force specifications ---------- *)
Lemma mirror_matches d p s e ba : 0 <= s -> s <= e -> e <= zlen d ->
  map (lpos d p) (filter (aligned d p ba) (rev (spec_matches d p (zlen d - e) (zlen d - s) false))) = spec_matches (rev d) (rev p) s e ba.
Proof.
  intros H0 H1 H2. pose proof (zlen_nonneg p) as Lp.
  apply incr_ext.
  - rewrite filter_rev'.
    apply incr_rev_map_decreasing; [unfold lpos; intros; lia|]. apply incr_filter. unfold spec_matches. apply incr_filter, incr_zrange.
  - unfold spec_matches. apply incr_filter, incr_zrange.
  - intros L. rewrite in_map_iff. split.
    + intros (q & <- & Hq). apply filter_In in Hq as [Hq Hal]. apply in_rev in Hq.
      unfold spec_matches in *. apply filter_In in Hq as [Hr Ho]. apply In_zrange in Hr. cbn [negb orb] in Ho. rewrite andb_true_r in Ho.
      apply filter_In. rewrite zlen_rev. split; [apply In_zrange; unfold lpos; lia|].
      rewrite occurs_at_mirror, Ho. cbn [andb]. exact Hal.
    + intros HL. unfold spec_matches in HL. apply filter_In in HL as [Hr Ho]. apply In_zrange in Hr. rewrite zlen_rev in Hr.
      apply andb_prop in Ho as [Ho Hal].
      exists (zlen d - L - zlen p). assert (E : lpos d p (zlen d - L - zlen p) = L) by (unfold lpos; lia).
      split; [exact E|]. apply filter_In. split.
      * apply in_rev. rewrite rev_involutive. unfold spec_matches. apply filter_In. split; [apply In_zrange; lia|].
        cbn [negb orb]. rewrite andb_true_r. rewrite <- occurs_at_mirror, E. exact Ho.
      * unfold aligned. rewrite E. exact Hal.
Qed.

(* ---------- the theorem: lsb0 findall = msb0 brute force on the mirrored data ---------- *)
Theorem findall_lsb0_is_mirror d p s e ba : p <> [] -> 0 <= s -> s <= e -> e <= zlen d ->
  findall_lsb0 d p s e None ba = Ok (spec_matches (rev d) (rev p) s e ba).
Proof.
  intros Hp H0 H1 H2. unfold findall_lsb0. replace (s <=? e) with true by lia.
  rewrite lsb0_window_spec by lia. cbn [bind].
  pose proof (zlen_nonneg p) as Lp. assert (Lp1 : 0 < zlen p) by (destruct p; [congruence|unfold zlen; cbn [length]; lia]).
  rewrite lsb0_chunks_spec; [|assumption|lia|lia|lia|unfold zlen in *; lia].
  f_equal. replace (zlen d - s - zlen p + zlen p) with (zlen d - s) by lia.
  apply mirror_matches; assumption.
Qed.

(* ---------- with a count: the first `count` of the same list ---------- *)
Lemma emit_cons d p q l count ba c : emit_lsb0 d p (q :: l) count ba c =
  if (match count with Some k => c >=? k | None => false end) then ([], c, true) else
  if aligned d p ba q then let '(r, c', stop) := emit_lsb0 d p l count ba (c + 1) in (lpos d p q :: r, c', stop)
  else emit_lsb0 d p l count ba c.
Proof. reflexivity. Qed.

Lemma emit_lsb0_count d p ba k : forall l c, c <= k ->
  exists out c' stopped, emit_lsb0 d p l (Some k) ba c = (out, c', stopped) /\
    out = firstn (Z.to_nat (k - c)) (map (lpos d p) (filter (aligned d p ba) l)) /\
    c' = c + zlen out /\ c' <= k /\
    (stopped = false -> out = map (lpos d p) (filter (aligned d p ba) l)) /\
    (stopped = true -> k - c <= zlen (map (lpos d p) (filter (aligned d p ba) l))).
Proof.
  induction l as [|q l IH]; intros c Hc.
  - exists [], c, false. cbn. rewrite firstn_nil. repeat split; auto; try lia; try discriminate.
  - rewrite emit_cons. cbn [filter]. destruct (c >=? k) eqn:E.
    + exists [], c, true. assert (k - c = 0) by lia. rewrite H. cbn [Z.to_nat firstn]. repeat split; auto; try (unfold zlen; cbn; lia); try discriminate; try (intros _; apply zlen_nonneg).
    + destruct (aligned d p ba q) eqn:Ea.
      * destruct (IH (c + 1) ltac:(lia)) as (r & c' & st & -> & Hr & Hc' & Hle & Hns & Hst).
        exists (lpos d p q :: r), c', st. split; [reflexivity|]. cbn [map].
        replace (Z.to_nat (k - c)) with (S (Z.to_nat (k - (c + 1)))) by lia. cbn [firstn].
        split; [now rewrite Hr|]. split; [rewrite zlen_cons; lia|]. split; [exact Hle|].
        split; [intros Hf; now rewrite (Hns Hf)|]. intros Hs. specialize (Hst Hs). rewrite zlen_cons. lia.
      * destruct (IH c Hc) as (r & c' & st & -> & Hr & Hc' & Hle & Hns & Hst).
        exists r, c', st. repeat split; auto.
Qed.

Lemma firstn_app_le {A} (l1 l2 : list A) n : (n <= length l1)%nat -> firstn n (l1 ++ l2) = firstn n l1.
Proof. intros H. rewrite firstn_app. replace (n - length l1)%nat with 0%nat by lia. cbn [firstn]. apply app_nil_r. Qed.

Lemma firstn_app_ge {A} (l1 l2 : list A) n : (length l1 <= n)%nat -> firstn n (l1 ++ l2) = l1 ++ firstn (n - length l1) l2.
Proof. intros H. rewrite firstn_app. f_equal. apply firstn_all2. exact H. Qed.

Lemma lsb0_chunks_count_spec d p ms inc ba k : p <> [] -> 0 < inc -> 0 <= ms ->
  forall fuel hi c, c <= k -> hi + zlen p <= zlen d -> (Z.to_nat (hi - ms + 1) < fuel)%nat ->
  lsb0_chunks fuel d p ms inc hi (Some k) ba c =
  Ok (firstn (Z.to_nat (k - c)) (map (lpos d p) (filter (aligned d p ba) (rev (spec_matches d p ms (hi + zlen p) false))))).
Proof.
  intros Hp Hinc Hms. induction fuel as [|fuel IH]; intros hi c Hck Hhi Hf; [lia|].
  cbn [lsb0_chunks]. destruct (hi >=? ms) eqn:E.
  - set (lo := Z.max ms (hi - inc + 1)).
    assert (Hlo : ms <= lo <= hi) by (unfold lo; lia).
    rewrite findall_store_spec by (try assumption; pose proof (zlen_nonneg p); lia). cbn [bind].
    destruct (emit_lsb0_count d p ba k (rev (spec_matches d p lo (hi + zlen p) false)) c Hck) as (out & c' & st & -> & Ho & Hc' & Hle & Hns & Hst).
    rewrite (spec_matches_split d p ms lo hi) by lia. rewrite rev_app_distr, filter_app, map_app.
    set (F1 := map (lpos d p) (filter (aligned d p ba) (rev (spec_matches d p lo (hi + zlen p) false)))) in *.
    set (F2 := map (lpos d p) (filter (aligned d p ba) (rev (spec_matches d p ms (lo - 1 + zlen p) false)))).
    destruct st.
    + specialize (Hst eq_refl). f_equal. rewrite firstn_app_le by (unfold zlen in Hst; lia). exact Ho.
    + specialize (Hns eq_refl). rewrite IH by lia. cbn [bind]. f_equal.
      rewrite Hns in *. unfold zlen in Hc'. rewrite firstn_app_ge by lia. f_equal. f_equal. lia.
  - rewrite spec_matches_empty by lia. cbn. now rewrite firstn_nil.
Qed.

Theorem findall_lsb0_count_is_mirror d p s e ba count : p <> [] -> count_ok count -> 0 <= s -> s <= e -> e <= zlen d ->
  findall_lsb0 d p s e count ba = Ok (take_count count (spec_matches (rev d) (rev p) s e ba)).
Proof.
  intros Hp Hc H0 H1 H2. destruct count as [k|]; [|apply findall_lsb0_is_mirror; assumption].
  cbn [take_count count_ok] in *.
  pose proof (findall_lsb0_is_mirror d p s e ba Hp H0 H1 H2) as M.
  pose proof (zlen_nonneg p) as Lp. assert (Lp1 : 0 < zlen p) by (destruct p; [congruence|unfold zlen; cbn [length]; lia]).
  assert (Hfuel : (Z.to_nat (zlen d - s - zlen p - (zlen d - e) + 1) < S (length d))%nat) by (unfold zlen in *; lia).
  assert (Ese : (s <=? e) = true) by lia.
  assert (Ew : lsb0_window d s e = Ok (zlen d - e, zlen d - s)) by (apply lsb0_window_spec; lia).
  unfold findall_lsb0 in *. rewrite Ese, Ew in *. cbn [bind] in *.
  rewrite lsb0_chunks_spec in M; [|assumption|lia|lia|lia|exact Hfuel].
  rewrite lsb0_chunks_count_spec; [|assumption|lia|lia|lia|lia|exact Hfuel].
  injection M as M. rewrite M. rewrite Z.sub_0_r. reflexivity.
Qed.

(* the public entry point under lsb0 *)
Theorem bs_findall_lsb0_is_mirror d p start stop count ba s e : p <> [] -> count_ok count -> validate_slice d start stop = Ok (s, e) ->
  bs_findall true d p start stop count ba = bs_findall false (rev d) (rev p) (Some s) (Some e) count ba.
Proof.
  intros Hp Hc Hv. destruct (validate_slice_ok _ _ _ _ _ Hv) as (H0 & H1 & H2).
  assert (Hrp : rev p <> []) by (intros E; apply Hp; rewrite <- (rev_involutive p), E; reflexivity).
  assert (Hv' : validate_slice (rev d) (Some s) (Some e) = Ok (s, e)).
  { unfold validate_slice. rewrite zlen_rev. replace (s <? 0) with false by lia. replace (e <? 0) with false by lia.
    replace ((0 <=? s) && (s <=? e) && (e <=? zlen d)) with true by lia. reflexivity. }
  rewrite (findall_spec (rev d) (rev p) (Some s) (Some e) count ba s e Hrp Hc Hv').
  unfold bs_findall. replace (match count with Some c => c <? 0 | None => false end) with false by (destruct count; cbn in *; lia).
  apply nonempty_zlen in Hp as Hz. rewrite Hz, Hv. cbn [bind]. apply findall_lsb0_count_is_mirror; assumption.
Qed.

(* ---------- find / rfind under lsb0 ---------- *)
Lemma head_opt_map (g : Z -> Z) l : head_opt (map g l) = option_map g (head_opt l).
Proof. destruct l; reflexivity. Qed.

Lemma filter_all_true {A} (f : A -> bool) l : (forall x, f x = true) -> filter f l = l.
Proof. intros H. induction l as [|x l IH]; [reflexivity|]. cbn. rewrite H, IH. reflexivity. Qed.

Lemma rev_map_filter_rev (g : Z -> Z) (f : Z -> bool) (l : list Z) : rev (map g (filter f (rev l))) = map g (filter f l).
Proof. rewrite <- map_rev, <- filter_rev', rev_involutive. reflexivity. Qed.

Theorem find_lsb0_is_mirror d p s e ba : p <> [] -> 0 <= s -> s <= e -> e <= zlen d ->
  find_lsb0 d p s e ba = Ok (head_opt (spec_matches (rev d) (rev p) s e ba)).
Proof.
  intros Hp H0 H1 H2. unfold find_lsb0. replace (s <=? e) with true by lia.
  rewrite lsb0_window_spec by lia. cbn [bind]. destruct ba.
  - rewrite (findall_lsb0_count_is_mirror d p s e true (Some 1) Hp ltac:(cbn; lia) H0 H1 H2). cbn [bind take_count].
    destruct (spec_matches (rev d) (rev p) s e true); reflexivity.
  - unfold rfind_msb0, store_rfind. cbn [negb bind]. rewrite <- (mirror_matches d p s e false H0 H1 H2).
    unfold ba_rfind. 
    assert (R : rev (search_all d p (zlen d - e) (zlen d - s)) = rev (spec_matches d p (zlen d - e) (zlen d - s) false)).
    { f_equal. unfold search_all, spec_matches. apply filter_ext. intros q. cbn [negb orb]. now rewrite andb_true_r. }
    rewrite R.
    assert (F : filter (aligned d p false) (rev (spec_matches d p (zlen d - e) (zlen d - s) false)) = rev (spec_matches d p (zlen d - e) (zlen d - s) false)).
    { apply filter_all_true. intros x. reflexivity. }
    rewrite F. destruct (rev (spec_matches d p (zlen d - e) (zlen d - s) false)) as [|q r] eqn:E; [reflexivity|].
    assert (0 <= q). { apply (spec_matches_nonneg d p (zlen d - e) (zlen d - s) false). apply in_rev. rewrite E. left; reflexivity. }
    destruct (q =? -1) eqn:Eq; [lia|]. reflexivity.
Qed.

Theorem rfind_lsb0_is_mirror d p s e ba : p <> [] -> 0 <= s -> s <= e -> e <= zlen d ->
  rfind_lsb0 d p s e ba = Ok (last_opt (spec_matches (rev d) (rev p) s e ba)).
Proof.
  intros Hp H0 H1 H2. unfold rfind_lsb0. replace (s <=? e) with true by lia.
  rewrite lsb0_window_spec by lia. cbn [bind].
  rewrite <- (mirror_matches d p s e ba H0 H1 H2). unfold last_opt. rewrite rev_map_filter_rev.
  pose proof (zlen_nonneg p) as Lp.
  destruct ba.
  - rewrite findall_store_spec by (try assumption; lia). cbn [bind].
    assert (E : filter (fun q => (zlen d - q - zlen p) mod 8 =? 0) (spec_matches d p (zlen d - e) (zlen d - s) false)
              = filter (aligned d p true) (spec_matches d p (zlen d - e) (zlen d - s) false)) by (apply filter_ext; intros q; reflexivity).
    rewrite E. destruct (filter (aligned d p true) (spec_matches d p (zlen d - e) (zlen d - s) false)); reflexivity.
  - unfold find_msb0, store_find. cbn [negb bind]. rewrite ba_find_spec.
    assert (F : filter (aligned d p false) (spec_matches d p (zlen d - e) (zlen d - s) false) = spec_matches d p (zlen d - e) (zlen d - s) false).
    { apply filter_all_true. intros x. reflexivity. }
    rewrite F. destruct (spec_matches d p (zlen d - e) (zlen d - s) false) as [|q r] eqn:E; [reflexivity|].
    assert (0 <= q). { apply (spec_matches_nonneg d p (zlen d - e) (zlen d - s) false). rewrite E. left; reflexivity. }
    destruct (q =? -1) eqn:Eq; [lia|]. reflexivity.
Qed.

(* the public entry points *)
Theorem bs_find_lsb0_is_mirror d p start stop ba s e : p <> [] -> validate_slice d start stop = Ok (s, e) ->
  bs_find true d p start stop ba = bs_find false (rev d) (rev p) (Some s) (Some e) ba.
Proof.
  intros Hp Hv. destruct (validate_slice_ok _ _ _ _ _ Hv) as (H0 & H1 & H2).
  assert (Hrp : rev p <> []) by (intros E; apply Hp; rewrite <- (rev_involutive p), E; reflexivity).
  assert (Hv' : validate_slice (rev d) (Some s) (Some e) = Ok (s, e)).
  { unfold validate_slice. rewrite zlen_rev. replace (s <? 0) with false by lia. replace (e <? 0) with false by lia.
    replace ((0 <=? s) && (s <=? e) && (e <=? zlen d)) with true by lia. reflexivity. }
  rewrite (find_spec (rev d) (rev p) (Some s) (Some e) ba s e Hrp Hv').
  unfold bs_find. apply nonempty_zlen in Hp as Hz. rewrite Hz, Hv. cbn [bind]. apply find_lsb0_is_mirror; assumption.
Qed.

Theorem bs_rfind_lsb0_is_mirror d p start stop ba s e : p <> [] -> validate_slice d start stop = Ok (s, e) ->
  bs_rfind true d p start stop ba = bs_rfind false (rev d) (rev p) (Some s) (Some e) ba.
Proof.
  intros Hp Hv. destruct (validate_slice_ok _ _ _ _ _ Hv) as (H0 & H1 & H2).
  assert (Hrp : rev p <> []) by (intros E; apply Hp; rewrite <- (rev_involutive p), E; reflexivity).
  assert (Hv' : validate_slice (rev d) (Some s) (Some e) = Ok (s, e)).
  { unfold validate_slice. rewrite zlen_rev. replace (s <? 0) with false by lia. replace (e <? 0) with false by lia.
    replace ((0 <=? s) && (s <=? e) && (e <=? zlen d)) with true by lia. reflexivity. }
  rewrite (rfind_spec (rev d) (rev p) (Some s) (Some e) ba s e Hrp Hv').
  unfold bs_rfind. rewrite Hv. cbn [bind]. apply nonempty_zlen in Hp as Hz. rewrite Hz. apply rfind_lsb0_is_mirror; assumption.
Qed.
