(* PackProofs.v — C05: pack has the sum-of-token-lengths length, composes, rejects wrong arity,
   and unpack inverts it (token level; fixed-length and self-delimiting tokens). *)
From BS Require Import Prims BitsCore Golomb GolombSpec GolombProofs IntCodec CodecProofs Mutators Search Stream StreamProofs Pack SeqProofs.
From Coq Require Import ZifyBool.
Open Scope Z_scope.

Lemma int2bitstore_len v n s b : int2bitstore v n s = Ok b -> zlen b = n.
Proof.
  unfold int2bitstore, int2ba. destruct (n <=? 0) eqn:E0; [discriminate|].
  destruct s.
  - destruct ((v <? - 2 ^ (n - 1)) || (v >=? 2 ^ (n - 1))) eqn:E.
    + destruct ((v >=? Z.shiftl 1 (n - 1)) || (v <? - Z.shiftl 1 (n - 1))); discriminate.
    + intros [= <-]. apply zlen_enc_uint. lia.
  - destruct ((v <? 0) || (v >=? 2 ^ n)) eqn:E.
    + destruct (v >=? Z.shiftl 1 n); [discriminate|]. destruct (v <? 0); discriminate.
    + intros [= <-]. apply zlen_enc_uint. lia.
Qed.

Lemma make_dtype_ok k n bl : make_dtype k n = Ok bl -> bl = n * bits_per_item k /\ 0 <= n /\ length_allowed k n = true.
Proof.
  unfold make_dtype. destruct (n <? 0) eqn:E; [discriminate|]. destruct (length_allowed k n) eqn:El; [|discriminate].
  intros [= <-]. repeat split; lia.
Qed.

(* ---------- length ---------- *)
Lemma encode_token_len t v b l : encode_token t v = Ok b -> token_len t = Some l -> zlen b = l.
Proof.
  intros He Hl. destruct t as [k n| k | c | n]; cbn [token_len] in Hl; try discriminate; injection Hl as <-.
  - destruct k; destruct v; cbn [encode_token] in He; try discriminate;
      repeat match type of He with
      | (do _ <- make_dtype ?k ?n; _) = _ => destruct (make_dtype k n) as [bl|] eqn:Em; [apply make_dtype_ok in Em as [-> [Hn Ha]]|discriminate]; cbn [bind] in He
      end; cbn [bits_per_item] in *.
    all: try (destruct (zlen b0 =? _) eqn:E; [injection He as <-; lia|discriminate]).
    all: try (injection He as <-; rewrite zlen_repeat; lia).
    + (* uint *) unfold set_intlike in He. destruct (n =? 0); [discriminate|]. apply int2bitstore_len in He. lia.
    + unfold set_intlike in He. destruct (n =? 0); [discriminate|]. apply int2bitstore_len in He. lia.
    + (* bool *) cbn [length_allowed] in Ha. injection He as <-. cbn. lia.
  - destruct v; cbn [encode_token] in He; try discriminate. destruct (n <? 0); [discriminate|].
    destruct (zlen b0 =? n) eqn:E; [injection He as <-; lia|discriminate].
Qed.

Definition sum_lens (toks : list (token * option value)) : option Z :=
  fold_right (fun tv acc => match token_len (fst tv), acc with Some l, Some a => Some (l + a) | _, _ => None end) (Some 0) toks.

Lemma pack_loop_len toks : forall vals bs left total, pack_loop toks vals = Ok (bs, left) -> sum_lens toks = Some total ->
  zlen (concat bs) = total.
Proof.
  induction toks as [|[t ov] rest IH]; intros vals bs left total Hp Hs.
  - cbn in Hp, Hs. injection Hp as <- _. injection Hs as <-. reflexivity.
  - cbn [pack_loop] in Hp. cbn [sum_lens fold_right fst] in Hs.
    destruct (token_len t) as [l|] eqn:Et; [|discriminate].
    fold (sum_lens rest) in Hs. destruct (sum_lens rest) as [a|] eqn:Er; [|discriminate]. injection Hs as <-.
    match type of Hp with (do2 (v, vals') <- ?X; _) = _ => destruct X as [[v vals']|]; [|discriminate] end. cbn [bind] in Hp.
    destruct (encode_token t v) as [b|] eqn:Ee; [|discriminate]. cbn [bind] in Hp.
    destruct (pack_loop rest vals') as [[bs' left']|] eqn:Ep; [|discriminate]. cbn [bind] in Hp. injection Hp as <- <-.
    cbn [concat]. rewrite zlen_app. rewrite (encode_token_len _ _ _ _ Ee Et). rewrite (IH _ _ _ _ Ep eq_refl). reflexivity.
Qed.

Theorem pack_length toks vals b total : pack false toks vals = Ok b -> sum_lens toks = Some total -> zlen b = total.
Proof.
  unfold pack. destruct (pack_loop toks vals) as [[bs left]|] eqn:E; [|discriminate]. cbn [bind].
  destruct left; [|discriminate]. intros [= <-] Hs. eapply pack_loop_len; eauto.
Qed.

(* ---------- composition ---------- *)
Lemma pack_loop_app t1 : forall t2 vals bs1 left1, pack_loop t1 vals = Ok (bs1, left1) ->
  pack_loop (t1 ++ t2) vals = do2 (bs2, left2) <- pack_loop t2 left1; Ok (bs1 ++ bs2, left2).
Proof.
  induction t1 as [|[t ov] rest IH]; intros t2 vals bs1 left1 H.
  - cbn in H. injection H as <- <-. cbn [app]. destruct (pack_loop t2 vals) as [[b l]|]; reflexivity.
  - cbn [app pack_loop] in *.
    match type of H with (do2 (v, vals') <- ?X; _) = _ => destruct X as [[v vals']|]; [|discriminate] end. cbn [bind] in *.
    destruct (encode_token t v) as [b|]; [|discriminate]. cbn [bind] in *.
    destruct (pack_loop rest vals') as [[bs' left']|] eqn:Ep; [|discriminate]. cbn [bind] in H. injection H as <- <-.
    rewrite (IH t2 vals' bs' left' Ep). destruct (pack_loop t2 left') as [[b2 l2]|]; reflexivity.
Qed.

(* the bits for f1 followed by f2 are the bits for f1 followed by those for f2 (v1 = exactly the values f1 consumes) *)
Theorem pack_compose f1 f2 v1 v2 b1 b2 : pack false f1 v1 = Ok b1 -> pack false f2 v2 = Ok b2 ->
  pack false (f1 ++ f2) (v1 ++ v2) = Ok (b1 ++ b2).
Proof.
  unfold pack. destruct (pack_loop f1 v1) as [[bs1 l1]|] eqn:E1; [|discriminate]. cbn [bind]. destruct l1; [|discriminate]. intros H1.
  assert (Hb1 : b1 = concat bs1) by congruence. subst b1. clear H1.
  destruct (pack_loop f2 v2) as [[bs2 l2]|] eqn:E2; [|discriminate]. cbn [bind]. destruct l2; [|discriminate]. intros H2.
  assert (Hb2 : b2 = concat bs2) by congruence. subst b2. clear H2.
  assert (E1' : pack_loop f1 (v1 ++ v2) = Ok (bs1, v2)).
  { clear E2. revert v1 bs1 E1. induction f1 as [|[t ov] rest IH]; intros v1 bs1 E1.
    - cbn in E1. injection E1 as Hb Hv. subst. reflexivity.
    - cbn [pack_loop] in *. destruct ov as [v|].
      + cbn [bind] in *. destruct (encode_token t v); [|discriminate]. cbn [bind] in *.
        destruct (pack_loop rest v1) as [[bs' l']|] eqn:Ep; [|discriminate]. cbn [bind] in E1. injection E1 as Hb Hl; subst.
        rewrite (IH v1 bs' Ep). reflexivity.
      + destruct (is_pad t).
        * cbn [bind] in *. destruct (encode_token t ValNone); [|discriminate]. cbn [bind] in *.
          destruct (pack_loop rest v1) as [[bs' l']|] eqn:Ep; [|discriminate]. cbn [bind] in E1. injection E1 as Hb Hl; subst.
          rewrite (IH v1 bs' Ep). reflexivity.
        * destruct v1 as [|x xs]; [discriminate|]. cbn [app bind] in *. destruct (encode_token t x); [|discriminate]. cbn [bind] in *.
          destruct (pack_loop rest xs) as [[bs' l']|] eqn:Ep; [|discriminate]. cbn [bind] in E1. injection E1 as Hb Hl; subst.
          rewrite (IH xs bs' Ep). reflexivity. }
  rewrite (pack_loop_app f1 f2 _ _ _ E1'). rewrite E2. cbn [bind]. now rewrite concat_app.
Qed.

(* n*(f) is f written n times *)
Fixpoint repeat_fmt {A} (n : nat) (l : list A) : list A := match n with O => [] | S n' => l ++ repeat_fmt n' l end.
Theorem pack_repeat f v b : pack false f v = Ok b -> forall n, pack false (repeat_fmt n f) (repeat_fmt n v) = Ok (SeqProofs.rep b n).
Proof.
  intros H n. induction n as [|n IH]; [reflexivity|]. cbn [repeat_fmt]. rewrite (pack_compose f _ v _ b _ H IH). reflexivity.
Qed.

(* ---------- arity ---------- *)
Theorem pack_too_few t rest : is_pad t = false -> pack false ((t, None) :: rest) [] = Err ValueError.
Proof. intros H. unfold pack. cbn [pack_loop]. rewrite H. reflexivity. Qed.
Theorem pack_too_many toks vals bs x left : pack_loop toks vals = Ok (bs, x :: left) -> pack false toks vals = Err ValueError.
Proof. intros H. unfold pack. rewrite H. reflexivity. Qed.

(* ---------- unpack inverts pack ---------- *)
Definition supported (t : token) (v : value) : bool :=
  match t, v with
  | TFixed KUint _, ValZ _ | TFixed KInt _, ValZ _ | TFixed KBits _, ValBits _ | TFixed KBool _, ValBool _ | TFixed KPad _, _ => true
  | TVar c, ValZ z => g_dom c z
  | TCount _, ValBits _ => true
  | _, _ => false
  end.

(* the values unpack returns: pads yield nothing *)
Fixpoint used_values (toks : list (token * option value)) (vals : list value) : list value :=
  match toks with
  | [] => []
  | (t, ov) :: rest =>
      match ov with
      | Some v => (if is_pad t then [] else [v]) ++ used_values rest vals
      | None => if is_pad t then used_values rest vals
                else match vals with [] => [] | v :: vs => v :: used_values rest vs end
      end
  end.
Fixpoint all_supported (toks : list (token * option value)) (vals : list value) : bool :=
  match toks with
  | [] => true
  | (t, ov) :: rest =>
      match ov with
      | Some v => supported t v && all_supported rest vals
      | None => if is_pad t then all_supported rest vals
                else match vals with [] => true | v :: vs => supported t v && all_supported rest vs end
      end
  end.

Lemma read_fixed_mid k pre e rest bl : zlen e = bl -> 0 <= bl ->
  read_fixed k (pre ++ e ++ rest) (zlen pre) bl =
  match k with KBool => if zlen e =? 1 then interp k e else Err ValueError | _ => interp k e end.
Proof.
  intros He Hbl. unfold read_fixed. rewrite !zlen_app. pose proof (zlen_nonneg rest).
  destruct (zlen pre + (zlen e + zlen rest) <? zlen pre + bl) eqn:E; [lia|].
  rewrite seq_slice_unit by (rewrite ?zlen_app; pose proof (zlen_nonneg pre); lia). cbn [bind].
  rewrite <- He. rewrite sub_mid. reflexivity.
Qed.

Lemma token_roundtrip t v e : encode_token t v = Ok e -> supported t v = true ->
  forall pre rest ts after,
  read_list_loop (pre ++ e ++ rest) (t :: ts) (zlen pre) after =
  do2 (vs, p) <- read_list_loop (pre ++ e ++ rest) ts (zlen pre + zlen e) after;
  Ok ((if is_pad t then vs else v :: vs), p).
Proof.
  intros He Hs pre rest ts after.
  destruct t as [k n| k | c | n]; cbn [supported] in Hs; try discriminate.
  - (* fixed *)
    destruct k; destruct v; try discriminate; cbn [encode_token] in He;
      (destruct (make_dtype _ n) as [bl|] eqn:Em; [|discriminate]); cbn [bind] in He;
      pose proof (make_dtype_ok _ _ _ Em) as [Hbl [Hn Ha]]; cbn [bits_per_item] in Hbl;
      cbn [read_list_loop]; rewrite Em; cbn [bind].
    + (* bits *)
      destruct (zlen b =? bl) eqn:E; [|discriminate]. injection He as <-.
      rewrite read_fixed_mid by lia. cbn [interp bind is_pad].
      replace (zlen pre + bl) with (zlen pre + zlen b) by lia.
      destruct (read_list_loop _ ts _ after) as [[vs p]|]; reflexivity.
    + (* uint *)
      unfold set_intlike in He. destruct (n =? 0) eqn:En; [discriminate|].
      pose proof (int2bitstore_len _ _ _ _ He) as Hl.
      rewrite read_fixed_mid by lia. cbn [interp]. rewrite Hl, En.
      assert (Hv : ba2int e false = Ok z).
      { unfold int2bitstore, int2ba in He. destruct (n <=? 0) eqn:E0; [discriminate|].
        destruct ((z <? 0) || (z >=? 2 ^ n)) eqn:Er.
        - destruct (z >=? Z.shiftl 1 n); [discriminate|]. destruct (z <? 0); discriminate.
        - injection He as <-. apply uint_encode; lia. }
      rewrite Hv. cbn [bind is_pad]. subst bl. rewrite ?Hl, ?Z.mul_1_r. reflexivity.
    + (* int *)
      unfold set_intlike in He. destruct (n =? 0) eqn:En; [discriminate|].
      pose proof (int2bitstore_len _ _ _ _ He) as Hl.
      rewrite read_fixed_mid by lia. cbn [interp]. rewrite Hl, En.
      assert (Hv : ba2int e true = Ok z).
      { unfold int2bitstore, int2ba in He. destruct (n <=? 0) eqn:E0; [discriminate|].
        destruct ((z <? - 2 ^ (n - 1)) || (z >=? 2 ^ (n - 1))) eqn:Er.
        - destruct ((z >=? Z.shiftl 1 (n - 1)) || (z <? - Z.shiftl 1 (n - 1))); discriminate.
        - injection He as <-. apply int_encode; lia. }
      rewrite Hv. cbn [bind is_pad]. subst bl. rewrite ?Hl, ?Z.mul_1_r. reflexivity.
    + (* bool *)
      injection He as <-. cbn [length_allowed] in Ha. assert (n = 1) by lia. subst n bl.
      rewrite read_fixed_mid by (cbn; lia). change (zlen [b]) with 1. cbn [Z.eqb Pos.eqb interp seq_getitem].
      cbn. destruct (read_list_loop _ ts _ after) as [[vs p]|]; reflexivity.
    + (* pad: bits *) injection He as <-. rewrite read_fixed_mid by (rewrite ?zlen_repeat; lia). cbn [interp bind is_pad].
      rewrite zlen_repeat, Z2Nat.id by lia. reflexivity.
    + injection He as <-. rewrite read_fixed_mid by (rewrite ?zlen_repeat; lia). cbn [interp bind is_pad].
      rewrite zlen_repeat, Z2Nat.id by lia. reflexivity.
    + injection He as <-. rewrite read_fixed_mid by (rewrite ?zlen_repeat; lia). cbn [interp bind is_pad].
      rewrite zlen_repeat, Z2Nat.id by lia. reflexivity.
    + injection He as <-. rewrite read_fixed_mid by (rewrite ?zlen_repeat; lia). cbn [interp bind is_pad].
      rewrite zlen_repeat, Z2Nat.id by lia. reflexivity.
  - (* variable length *)
    destruct v; try discriminate. cbn [encode_token] in He. rewrite g_enc_table in He by exact Hs. injection He as <-.
    cbn [read_list_loop]. unfold read_fn_var.
    pose proof (zlen_nonneg pre). rewrite seq_slice_from by (try rewrite zlen_app; pose proof (zlen_nonneg (g_spec c z ++ rest)); lia).
    unfold zlen at 1. rewrite Nat2Z.id, skipn_app, skipn_all, Nat.sub_diag. cbn [skipn app].
    pose proof (g_read_spec c z [] rest Hs) as R. cbn [app] in R. change (zlen (@nil bool)) with 0 in R. rewrite R.
    cbn [bind is_pad]. rewrite Z.add_0_l. reflexivity.
  - (* integer count *)
    destruct v; try discriminate. cbn [encode_token] in He. destruct (n <? 0) eqn:En; [discriminate|].
    destruct (zlen b =? n) eqn:E; [|discriminate]. injection He as <-.
    cbn [read_list_loop]. rewrite read_fixed_mid by lia. cbn [interp bind is_pad].
    replace (zlen pre + n) with (zlen pre + zlen b) by lia.
    destruct (read_list_loop _ ts _ after) as [[vs p]|]; reflexivity.
Qed.

Theorem unpack_pack_loop toks : forall vals bs, pack_loop toks vals = Ok (bs, []) -> all_supported toks vals = true ->
  forall pre rest after,
  read_list_loop (pre ++ concat bs ++ rest) (map fst toks) (zlen pre) after
  = Ok (used_values toks vals, zlen pre + zlen (concat bs)).
Proof.
  induction toks as [|[t ov] toks IH]; intros vals bs Hp Hs pre rest after.
  - cbn in Hp. injection Hp as <- _. cbn. f_equal. f_equal. change (zlen (@nil bool)) with 0. lia.
  - cbn [pack_loop] in Hp. cbn [map fst].
    (* which value does this token take? *)
    assert (Hcase : exists v vals', (match ov with Some v => Ok (v, vals) | None => if is_pad t then Ok (ValNone, vals) else match vals with [] => Err ValueError | v :: vs => Ok (v, vs) end end) = Ok (v, vals')).
    { destruct ov as [v|]; [eauto|]. destruct (is_pad t); [eauto|]. destruct vals; [discriminate|eauto]. }
    destruct Hcase as [v [vals' Hc]]. rewrite Hc in Hp. cbn [bind] in Hp.
    destruct (encode_token t v) as [b|] eqn:Ee; [|discriminate]. cbn [bind] in Hp.
    destruct (pack_loop toks vals') as [[bs' left]|] eqn:Ep; [|discriminate]. cbn [bind] in Hp.
    injection Hp as <- ->. cbn [concat].
    assert (Hsup : supported t v = true /\ all_supported toks vals' = true /\
                   used_values ((t, ov) :: toks) vals = (if is_pad t then [] else [v]) ++ used_values toks vals').
    { cbn [all_supported used_values] in *. destruct ov as [v0|].
      - injection Hc as <- <-. apply andb_prop in Hs as [H1 H2]. auto.
      - destruct (is_pad t) eqn:Epad.
        + injection Hc as <- <-. destruct t as [k n| | |]; try discriminate. destruct k; try discriminate. repeat split; auto.
        + destruct vals as [|x xs]; [discriminate|]. injection Hc as <- <-. apply andb_prop in Hs as [H1 H2]. auto. }
    destruct Hsup as [H1 [H2 H3]].
    rewrite <- app_assoc.
    rewrite (token_roundtrip t v b Ee H1 pre (concat bs' ++ rest) (map fst toks) after).
    replace (pre ++ b ++ concat bs' ++ rest) with ((pre ++ b) ++ concat bs' ++ rest) by (now rewrite <- app_assoc).
    replace (zlen pre + zlen b) with (zlen (pre ++ b)) by apply zlen_app.
    rewrite (IH vals' bs' Ep H2 (pre ++ b) rest after). cbn [bind]. rewrite H3.
    rewrite !zlen_app. destruct (is_pad t); cbn [app]; f_equal; f_equal; lia.
Qed.

(* unpack(fmt) on pack(fmt, values) returns the values (tokens of fixed or self-delimiting length) *)
Theorem unpack_pack toks vals b : pack false toks vals = Ok b -> all_supported toks vals = true ->
  scan_tokens (map fst toks) false 0 = Ok 0 ->
  unpack b (map fst toks) = Ok (used_values toks vals).
Proof.
  unfold pack, unpack, read_dtype_list. destruct (pack_loop toks vals) as [[bs left]|] eqn:Ep; [|discriminate]. cbn [bind].
  destruct left; [|discriminate]. intros [= <-] Hs Hscan. rewrite (scan_tokens_check _ _ _ _ Hscan). cbn [bind]. rewrite Hscan. cbn [bind].
  pose proof (unpack_pack_loop toks vals bs Ep Hs [] [] 0) as R. cbn [app] in R. rewrite app_nil_r in R.
  change (zlen (@nil bool)) with 0 in R. rewrite R. reflexivity.
Qed.
