(* KernelLib.v — support for the kernel translator (tools/gen/kernels.py): the hand models of the few helpers that BitsCore/Mutators
   inline into their callers, and the tactic that proves  `translated source = hand model`  by case analysis. *)
From BS Require Import Prims BitsCore Mutators Search Stream.
From Coq Require Import ZifyBool.
Open Scope Z_scope.

(* Bits._ilshift / _irshift (bits.py): assert 0 < n <= len; add n zero bits on one side, truncate n on the other *)
Definition ilshift_ (b : bits) (n : Z) : res bits :=
  if (0 <? n) && (n <=? zlen b) then truncateleft (addright b (repeat false (Z.to_nat n))) n else Err AssertionError.
Definition irshift_ (b : bits) (n : Z) : res bits :=
  if (0 <? n) && (n <=? zlen b) then truncateright (addleft b (repeat false (Z.to_nat n))) n else Err AssertionError.

Lemma bs_ilshift_unfold b n : bs_ilshift b n =
  if n <? 0 then Err ValueError else if zlen b =? 0 then Err ValueError else if n =? 0 then Ok b else ilshift_ b (Z.min n (zlen b)).
Proof. reflexivity. Qed.
Lemma bs_irshift_unfold b n : bs_irshift b n =
  if n <? 0 then Err ValueError else if zlen b =? 0 then Err ValueError else if n =? 0 then Ok b else irshift_ b (Z.min n (zlen b)).
Proof. reflexivity. Qed.

(* the stream machine's results as (content, pos) * result, the shape the translated stream methods have *)
Definition unst {A} (x : stream * res A) : (bits * Z) * res A := ((sbits (fst x), spos (fst x)), snd x).

(* calls that cannot fail under their guard (the translated source binds their result before it is needed) *)
Lemma seq_slice_nostep_ok {A} (d : A) (l : list A) a b : exists r, seq_slice d l (mkslice a b None) = Ok r.
Proof. unfold seq_slice, slice_indices; cbn. eexists; reflexivity. Qed.
Lemma getslice_msb0_not_err b a e x : getslice_msb0 b a e = Err x -> False.
Proof. unfold getslice_msb0. destruct (seq_slice_nostep_ok false b a e) as [r Hr]. rewrite Hr. discriminate. Qed.
Lemma absolute_slice_not_err b s e x : s <= e -> absolute_slice b s e = Err x -> False.
Proof.
  unfold absolute_slice, getslice_msb0. intros H. destruct (e =? s) eqn:E1; [discriminate|].
  destruct (s <? e) eqn:E2; [|lia]. destruct (seq_slice_nostep_ok false b (Some s) (Some e)) as [r Hr]. rewrite Hr. discriminate.
Qed.

(* one step of case analysis: the innermost scrutinee of a match / if in the goal *)
Ltac brk_step :=
  match goal with
  | |- context [match ?x with _ => _ end] =>
      lazymatch x with
      | context [match _ with _ => _ end] => fail
      | _ => first [ is_var x; destruct x | let E := fresh "E" in destruct x eqn:E ]
      end
  end.
Ltac use_identity := repeat match goal with H : true = true -> _ |- _ => specialize (H eq_refl) | H : false = true -> _ |- _ => clear H end; subst.
Ltac bridge_close :=
  first [ reflexivity | exfalso; lia | congruence | (repeat f_equal; lia) | (use_identity; first [ reflexivity | congruence | repeat f_equal; lia ])
        | (exfalso; match goal with H : absolute_slice _ _ _ = Err _ |- _ => eapply absolute_slice_not_err; [|exact H]; lia end)
        | (exfalso; match goal with H : getslice_msb0 _ _ _ = Err _ |- _ => exact (getslice_msb0_not_err _ _ _ _ H) end) ].
Ltac bridge_core := repeat (first [ progress cbn beta iota zeta | brk_step ]); try bridge_close.
(* `bridge k`: unfold the generated definition k and the model's top-level definitions, split, close *)
Tactic Notation "bridge" constr(k) :=
  intros; unfold k;
  cbv beta delta [bind validate_slice absolute_slice insert_ overwrite_ delete_ truncateleft truncateright ilshift_ irshift_
                  ba_insert ba_overwrite ror_msb0 rol_msb0 ba_ror ba_rol ba_reverse bs_ilshift bs_irshift ba_imul slice_ reversebytes
                  indices offset_slice_indices_lsb0 bs_lshift bs_rshift bs_add
                  unst set_pos set_bytepos get_bytepos bytealign st_clear st_append st_prepend st_insert st_overwrite st_delitem_slice st_delitem_int
                  on_content keep_pos reset_if_len_changed ba_append ba_prepend ba_delitem_int ba_delitem_slice sbits spos fst snd];
  bridge_core.

(* boolean comparisons of the kernels' result types, for the small-domain search that runs when a bridge no longer proves *)
From BS Require Import CaseLib.
Definition oz_eqb := opt_eqb Z.eqb.
Definition slice_eqb (a b : pyslice) : bool := oz_eqb (s_start a) (s_start b) && oz_eqb (s_stop a) (s_stop b) && oz_eqb (s_step a) (s_step b).
Definition rslice_eqb := res_eqb slice_eqb.
Definition zoz_eqb (a b : Z * option Z * Z) : bool :=
  let '(a1, a2, a3) := a in let '(b1, b2, b3) := b in (a1 =? b1) && oz_eqb a2 b2 && (a3 =? b3).
Definition rzoz_eqb := res_eqb zoz_eqb.

Definition st_unit_eqb (a b : (bits * Z) * res unit) : bool :=
  bits_eqb (fst (fst a)) (fst (fst b)) && (snd (fst a) =? snd (fst b)) && res_eqb unit_eqb (snd a) (snd b).
Definition st_z_eqb (a b : (bits * Z) * res Z) : bool :=
  bits_eqb (fst (fst a)) (fst (fst b)) && (snd (fst a) =? snd (fst b)) && res_eqb Z.eqb (snd a) (snd b).
