(* MiniFloat.v — C11: the 8/6/4-bit float formats as their definitions say (spec), over exact dyadic
   values scaled by 2^24 (every value of every format and every half-precision value is an integer
   multiple of 2^-24), and the model of the library's encoder:
   bitstring/fp8.py   Binary8Format.float_to_int8       bitstring/mxfp.py  MXFPFormat.float_to_int
   bitstring/bitstore_helpers.py  p4binary2bitstore .. e2m1mxfp2bitstore, e8m0mxfp2bitstore, mxint2bitstore
   The tables themselves are regenerated from luts.py on every run (GenLuts.v) and checked against
   this spec by the obligations in BridgeC11.v. *)
From BS Require Import Prims.
Open Scope Z_scope.

Definition SC : Z := 24.

Inductive fval := FNaN | FInf (neg : bool) | FFin (neg : bool) (mag : Z).    (* mag = |value| * 2^24 >= 0 *)
Inductive style := P3109 | IEEE | E4M3 | Finite.
Record fmt := mkfmt { f_bits : Z; f_eb : Z; f_mb : Z; f_bias : Z; f_style : style }.

Definition fmt_p4 := mkfmt 8 4 3 8 P3109.
Definition fmt_p3 := mkfmt 8 5 2 16 P3109.
Definition fmt_e5m2 := mkfmt 8 5 2 15 IEEE.
Definition fmt_e4m3 := mkfmt 8 4 3 7 E4M3.
Definition fmt_e3m2 := mkfmt 6 3 2 3 Finite.
Definition fmt_e2m3 := mkfmt 6 2 3 1 Finite.
Definition fmt_e2m1 := mkfmt 4 2 1 1 Finite.

(* ---------- decoding: sign | biased exponent | mantissa, subnormals, special codes ---------- *)
Definition decode (f : fmt) (c : Z) : fval :=
  let sign := Z.testbit c (f_bits f - 1) in
  let e := (c / 2 ^ f_mb f) mod 2 ^ f_eb f in
  let m := c mod 2 ^ f_mb f in
  let special :=
    match f_style f with
    | P3109 => if c =? 128 then Some FNaN else if c =? 127 then Some (FInf false) else if c =? 255 then Some (FInf true) else None
    | IEEE => if e =? 2 ^ f_eb f - 1 then Some (if m =? 0 then FInf sign else FNaN) else None
    | E4M3 => if (e =? 15) && (m =? 7) then Some FNaN else None
    | Finite => None
    end in
  match special with
  | Some v => v
  | None =>
      (* value * 2^24 : subnormal m * 2^(1-bias-mb+24) ; normal (2^mb + m) * 2^(e-bias-mb+24) *)
      let mag := if e =? 0 then m * 2 ^ (1 - f_bias f - f_mb f + SC)
                 else (2 ^ f_mb f + m) * 2 ^ (e - f_bias f - f_mb f + SC) in
      (* P3109 has no negative zero: code 0x80 is NaN, handled above *)
      FFin sign mag
  end.

Definition half_decode (h : Z) : fval :=
  let sign := Z.testbit h 15 in
  let e := (h / 1024) mod 32 in
  let m := h mod 1024 in
  if e =? 31 then (if m =? 0 then FInf sign else FNaN)
  else FFin sign (if e =? 0 then m else (1024 + m) * 2 ^ (e - 1)).   (* m * 2^-24 * 2^24 ; (1024+m) * 2^(e-15-10+24) *)

(* float32 bit pattern -> value (used for the decode tables) ; exact for |v| >= 2^-24 multiples *)
Definition f32_decode (w : Z) : fval :=
  let sign := Z.testbit w 31 in
  let e := (w / 2 ^ 23) mod 256 in
  let m := w mod 2 ^ 23 in
  if e =? 255 then (if m =? 0 then FInf sign else FNaN)
  else if (e =? 0) && (m =? 0) then FFin sign 0
  else (* (2^23 + m) * 2^(e - 127 - 23 + 24) ; the tables only hold normal float32 values with e - 126 >= 0 or exactly divisible *)
    let sh := e - 126 in
    FFin sign (if sh >=? 0 then (2 ^ 23 + m) * 2 ^ sh else (2 ^ 23 + m) / 2 ^ (- sh)).

(* ---------- round to nearest, ties to even ---------- *)
Definition rne_div (a q : Z) : Z :=
  let d := a / q in let r := a mod q in
  if (2 * r >? q) || ((2 * r =? q) && Z.odd d) then d + 1 else d.

(* the spacing of representable values around magnitude a (scaled), with an unbounded exponent range *)
Definition quantum (f : fmt) (a : Z) : Z :=
  let minnorm := 2 ^ (1 - f_bias f + SC) in
  if a <? minnorm then 2 ^ (1 - f_bias f - f_mb f + SC) else 2 ^ (Z.log2 a - f_mb f).

Definition max_finite (f : fmt) : Z :=   (* scaled magnitude of the largest finite value *)
  match f_style f with
  | P3109 => (2 ^ f_mb f + (2 ^ f_mb f - 2)) * 2 ^ (2 ^ f_eb f - 1 - f_bias f - f_mb f + SC)      (* code 0x7e *)
  | IEEE => (2 ^ f_mb f + (2 ^ f_mb f - 1)) * 2 ^ (2 ^ f_eb f - 2 - f_bias f - f_mb f + SC)
  | E4M3 => (2 ^ f_mb f + (2 ^ f_mb f - 2)) * 2 ^ (2 ^ f_eb f - 1 - f_bias f - f_mb f + SC)
  | Finite => (2 ^ f_mb f + (2 ^ f_mb f - 1)) * 2 ^ (2 ^ f_eb f - 1 - f_bias f - f_mb f + SC)
  end.

(* the code of a representable magnitude r (scaled), sign bit excluded *)
Definition code_of_mag (f : fmt) (r : Z) : Z :=
  let minnorm := 2 ^ (1 - f_bias f + SC) in
  if r <? minnorm then r / 2 ^ (1 - f_bias f - f_mb f + SC)
  else let l := Z.log2 r in
       let e := l - SC + f_bias f in
       e * 2 ^ f_mb f + (r - 2 ^ l) / 2 ^ (l - f_mb f).

Definition signbit (f : fmt) (neg : bool) : Z := if neg then 2 ^ (f_bits f - 1) else 0.

(* what overflow, infinities and NaN map to *)
Definition inf_code (f : fmt) (ovf : bool) (neg : bool) : Z :=
  match f_style f with
  | P3109 => if neg then 255 else 127
  | IEEE => if ovf then (if neg then 252 else 124) else (if neg then 251 else 123)
  | E4M3 => if ovf then 255 else (if neg then 254 else 126)
  | Finite => signbit f neg + code_of_mag f (max_finite f)
  end.
Definition nan_code (f : fmt) : option Z :=
  match f_style f with P3109 => Some 128 | IEEE | E4M3 => Some 255 | Finite => None end.

(* THE SPEC: the code of the representable value nearest to x, ties to even, IEEE overflow rule.
   None = the format has no code for the input (NaN into an all-finite format: the caller must refuse) *)
Definition encode_spec (f : fmt) (ovf : bool) (x : fval) : option Z :=
  match x with
  | FNaN => nan_code f
  | FInf neg => Some (inf_code f ovf neg)
  | FFin neg a =>
      let q := quantum f a in
      let r := rne_div a q * q in
      if r >? max_finite f then Some (inf_code f ovf neg)
      else if (r =? 0) && (match f_style f with P3109 => true | _ => false end) then Some 0
      else Some (signbit f neg + code_of_mag f r)
  end.

(* ---------- tables (run-length encoded) ---------- *)
Fixpoint rle_nth (t : list (Z * Z)) (i : Z) : Z :=
  match t with
  | [] => -1
  | (n, v) :: rest => if i <? n then v else rle_nth rest (i - n)
  end.
Fixpoint rle_expand (t : list (Z * Z)) : list Z :=
  match t with [] => [] | (n, v) :: rest => repeat v (Z.to_nat n) ++ rle_expand rest end.

(* ---------- model of the library's encoder ---------- *)
(* a Python float as m * 2^e (exact); struct.pack('>e') = IEEE RNE to binary16, OverflowError above *)
Inductive pyfloat := PyNaN | PyInf (neg : bool) | PyFin (neg : bool) (m e : Z).   (* |value| = m * 2^e, m >= 0 *)
Inductive half_res := HOverflow | HBits (h : Z).

Definition half_rne (x : pyfloat) : half_res :=
  match x with
  | PyNaN => HBits 32256          (* 0x7e00 *)
  | PyInf neg => HBits (if neg then 64512 else 31744)
  | PyFin neg m e =>
      if m =? 0 then HBits (if neg then 32768 else 0) else
      (* scaled magnitude a = m * 2^(e+24) may be fractional: keep numerator / 2^k *)
      let s := e + SC in
      let lg := Z.log2 m + s in                                   (* floor(log2(|x| * 2^24)) *)
      let qexp := if lg <? 10 then 0 else lg - 10 in              (* quantum = 2^qexp (scaled): subnormals have spacing 1 *)
      (* units = |x|*2^24 / 2^qexp, rounded to nearest even *)
      let units := if s - qexp >=? 0 then m * 2 ^ (s - qexp) else rne_div m (2 ^ (qexp - s)) in
      let r := units * 2 ^ qexp in
      if r >=? 65520 * 2 ^ SC then HOverflow else
      (* half pattern of the scaled magnitude r *)
      let pat := if r <? 2 ^ 10 then r else (Z.log2 r - 9) * 1024 + (r - 2 ^ Z.log2 r) / 2 ^ (Z.log2 r - 10) in
      HBits ((if neg then 32768 else 0) + pat)
  end.

Definition py_positive (x : pyfloat) : bool :=   (* the `f > 0` test of the clamp branch *)
  match x with PyFin false m _ => m >? 0 | PyInf false => true | _ => false end.

(* MXFPFormat.float_to_int / Binary8Format.float_to_int8 *)
Definition float_to_int (table : list (Z * Z)) (clamp : Z * Z) (x : pyfloat) : Z :=
  match half_rne x with
  | HOverflow => if py_positive x then fst clamp else snd clamp
  | HBits h => rle_nth table h
  end.

(* mxint2bitstore: nearest-even of 64x directly, saturating; the library's algorithm adds +-0.5 and fixes ties.
   Modelled on exact values (x = m * 2^e), i.e. assuming the float additions are exact: see C11 notes. *)
Definition mxint_spec (x : pyfloat) : option Z :=
  match x with
  | PyNaN => None
  | PyInf neg => Some (if neg then -128 else 127)
  | PyFin neg m e =>
      (* q = 64 * |x| = m * 2^(e+6) *)
      let s := e + 6 in
      let mag_gt_127 := if s >=? 0 then m * 2 ^ s >? 127 else m >? 127 * 2 ^ (- s) in
      let mag_ge_128 := if s >=? 0 then m * 2 ^ s >=? 128 else m >=? 128 * 2 ^ (- s) in
      if negb neg && mag_gt_127 then Some 127
      else if neg && mag_ge_128 then Some (-128)
      else let r := if s >=? 0 then m * 2 ^ s else rne_div m (2 ^ (- s)) in
           Some (if neg then - r else r)
  end.

(* e8m0: 2^(c-127); 0xff NaN ; encoding only exact powers of two *)
Definition e8m0_encode (x : pyfloat) : option Z :=
  match x with
  | PyNaN => Some 255
  | PyFin false m e => if (m >? 0) && (m =? 2 ^ Z.log2 m) && (-127 <=? Z.log2 m + e) && (Z.log2 m + e <=? 127) then Some (Z.log2 m + e + 127) else None
  | _ => None
  end.

(* ---------- the finite obligations evaluated against the generated tables ---------- *)
Fixpoint zseq (n : nat) (a : Z) : list Z := match n with O => [] | S n' => a :: zseq n' (a + 1) end.
Definition all_halves : list Z := zseq (Z.to_nat 65536) 0.
Definition all_codes (f : fmt) : list Z := zseq (Z.to_nat (2 ^ f_bits f)) 0.

Definition fval_eqb (a b : fval) : bool :=
  match a, b with
  | FNaN, FNaN => true
  | FInf x, FInf y => Bool.eqb x y
  | FFin x m, FFin y n => Bool.eqb x y && (m =? n)
  | _, _ => false
  end.

(* every one of the 65536 half-precision inputs is mapped to the code the spec demands *)
Definition check_enc (f : fmt) (ovf : bool) (t : list (Z * Z)) : bool :=
  forallb (fun h => match encode_spec f ovf (half_decode h) with Some c => rle_nth t h =? c | None => true end) all_halves.
(* every code decodes (as float32 in the table) to the value the format defines *)
Definition check_dec (f : fmt) (d : list Z) : bool :=
  (Z.of_nat (List.length d) =? 2 ^ f_bits f) &&
  forallb (fun c => fval_eqb (f32_decode (nth (Z.to_nat c) d (-1))) (decode f c)) (all_codes f).
(* the clamp codes used when the float does not fit half precision are the overflow codes of the format *)
Definition check_clamp (f : fmt) (ovf : bool) (cl : Z * Z) : bool :=
  (fst cl =? inf_code f ovf false) && (snd cl =? inf_code f ovf true).
(* decode then re-encode returns the code, for every non-NaN code (e5m2 infinities under saturate excepted) *)
Definition check_redecode (f : fmt) (ovf : bool) : bool :=
  forallb (fun c => match decode f c with
                    | FNaN => true
                    | FInf _ => match f_style f, ovf with IEEE, false => true | _, _ => match encode_spec f ovf (decode f c) with Some c' => c' =? c | None => false end end
                    | v => match encode_spec f ovf v with Some c' => c' =? c | None => false end
                    end) (all_codes f).
(* the format parameters in the source are the ones of the spec *)
Definition check_params (f : fmt) (p : Z * Z * Z) : bool :=
  let '(eb, mb, bias) := p in (eb =? f_eb f) && (mb =? f_mb f) && (bias =? f_bias f).

Lemma zseq_In n : forall a x, In x (zseq n a) <-> a <= x < a + Z.of_nat n.
Proof.
  induction n; intros a x; cbn [zseq]; [cbn; lia|]. rewrite Nat2Z.inj_succ. cbn [In]. rewrite IHn. lia.
Qed.

(* lifting the finite check to a statement about every half pattern *)
Theorem check_enc_sound f ovf t : check_enc f ovf t = true ->
  forall h, 0 <= h < 65536 -> forall c, encode_spec f ovf (half_decode h) = Some c -> rle_nth t h = c.
Proof.
  unfold check_enc. intros H h Hh c Hc. rewrite forallb_forall in H.
  specialize (H h). rewrite Hc in H. apply Z.eqb_eq. apply H. unfold all_halves. apply zseq_In. lia.
Qed.

(* hence, for EVERY Python float: the library's code is the spec's code of the half-precision rounding,
   or the overflow code when the float does not fit half precision *)
Theorem float_to_int_spec f ovf t cl x : check_enc f ovf t = true -> check_clamp f ovf cl = true ->
  float_to_int t cl x =
  match half_rne x with
  | HOverflow => inf_code f ovf (negb (py_positive x))
  | HBits h => float_to_int t cl x
  end /\
  (forall h c, half_rne x = HBits h -> 0 <= h < 65536 -> encode_spec f ovf (half_decode h) = Some c -> float_to_int t cl x = c).
Proof.
  intros He Hc. unfold check_clamp in Hc. apply andb_prop in Hc as [H1 H2]. apply Z.eqb_eq in H1. apply Z.eqb_eq in H2.
  split.
  - unfold float_to_int. destruct (half_rne x); [|reflexivity]. destruct (py_positive x); cbn [negb]; congruence.
  - intros h c Hh Hr Hs. unfold float_to_int. rewrite Hh. eapply check_enc_sound; eauto.
Qed.

(* rne_div is round-to-nearest: the error is at most half a quantum, and an exact tie goes to the even multiple *)
Theorem rne_div_nearest a q : 0 < q -> 2 * Z.abs (a - rne_div a q * q) <= q.
Proof.
  intros Hq. unfold rne_div. pose proof (Z.div_mod a q ltac:(lia)). pose proof (Z.mod_pos_bound a q Hq).
  destruct ((2 * (a mod q) >? q) || ((2 * (a mod q) =? q) && Z.odd (a / q))) eqn:E.
  - assert (2 * (a mod q) >= q) by (destruct (2 * (a mod q) >? q) eqn:E1; [lia|]; destruct (2 * (a mod q) =? q) eqn:E2; [lia|discriminate]). nia.
  - assert (2 * (a mod q) <= q) by (destruct (2 * (a mod q) >? q) eqn:E1; [discriminate|lia]). nia.
Qed.
Theorem rne_div_tie_even a q : 0 < q -> 2 * (a mod q) = q -> Z.even (rne_div a q) = true.
Proof.
  intros Hq Ht. unfold rne_div. rewrite Ht. rewrite Z.gtb_ltb, Z.ltb_irrefl, Z.eqb_refl. cbn [orb andb].
  destruct (Z.odd (a / q)) eqn:E.
  - rewrite Z.even_add. rewrite <- Z.negb_odd, E. reflexivity.
  - rewrite <- Z.negb_odd, E. reflexivity.
Qed.
