(* RangeLemmas.v — integer ranges and strictly increasing lists: two strictly increasing lists with the same members are equal,
   so equalities between filtered / mapped ranges reduce to membership (arithmetic) plus monotonicity. *)
From BS Require Import Prims.
From Coq Require Import Sorting.Sorted ZifyBool.
Open Scope Z_scope.

Definition incr (l : list Z) : Prop := StronglySorted Z.lt l.

Lemma incr_nil : incr []. Proof. constructor. Qed.

Lemma incr_cons_inv x l : incr (x :: l) -> incr l /\ forall y, In y l -> x < y.
Proof. intros H. inversion H as [|? ? Hs Hf]; subst. split; [exact Hs|]. intros y Hy. rewrite Forall_forall in Hf. auto. Qed.

Lemma incr_cons x l : incr l -> (forall y, In y l -> x < y) -> incr (x :: l).
Proof. intros Hs Hf. constructor; [exact Hs|]. rewrite Forall_forall. exact Hf. Qed.

Theorem incr_ext : forall l1 l2, incr l1 -> incr l2 -> (forall x, In x l1 <-> In x l2) -> l1 = l2.
Proof.
  induction l1 as [|a l1 IH]; intros l2 H1 H2 Hm.
  - destruct l2 as [|b l2]; [reflexivity|]. exfalso. apply (proj2 (Hm b)). left; reflexivity.
  - destruct l2 as [|b l2]; [exfalso; apply (proj1 (Hm a)); left; reflexivity|].
    destruct (incr_cons_inv _ _ H1) as [S1 F1]. destruct (incr_cons_inv _ _ H2) as [S2 F2].
    assert (a = b).
    { destruct (proj1 (Hm a) (or_introl eq_refl)) as [E|Hin]; [congruence|].
      destruct (proj2 (Hm b) (or_introl eq_refl)) as [E|Hin']; [congruence|].
      pose proof (F2 _ Hin). pose proof (F1 _ Hin'). lia. }
    subst b. f_equal. apply IH; try assumption.
    intros x. split; intros Hx.
    + destruct (proj1 (Hm x) (or_intror Hx)) as [E|Hin]; [|exact Hin]. subst x. pose proof (F1 _ Hx). lia.
    + destruct (proj2 (Hm x) (or_intror Hx)) as [E|Hin]; [|exact Hin]. subst x. pose proof (F2 _ Hx). lia.
Qed.

Lemma incr_filter f l : incr l -> incr (filter f l).
Proof.
  induction l as [|x l IH]; intros H; [constructor|]. destruct (incr_cons_inv _ _ H) as [S F]. cbn.
  destruct (f x); [|auto]. apply incr_cons; [auto|]. intros y Hy. apply filter_In in Hy. apply F. tauto.
Qed.

Lemma incr_map g l : (forall x y, x < y -> g x < g y) -> incr l -> incr (map g l).
Proof.
  intros Hg. induction l as [|x l IH]; intros H; [constructor|]. destruct (incr_cons_inv _ _ H) as [S F]. cbn.
  apply incr_cons; [auto|]. intros y Hy. apply in_map_iff in Hy as (z & <- & Hz). apply Hg, F, Hz.
Qed.

Lemma incr_app l1 l2 : incr l1 -> incr l2 -> (forall x y, In x l1 -> In y l2 -> x < y) -> incr (l1 ++ l2).
Proof.
  induction l1 as [|a l1 IH]; intros H1 H2 Hlt; [exact H2|]. destruct (incr_cons_inv _ _ H1) as [S F]. cbn.
  apply incr_cons.
  - apply IH; auto. intros x y Hx Hy. apply Hlt; [right; exact Hx|exact Hy].
  - intros y Hy. apply in_app_or in Hy as [Hy|Hy]; [apply F, Hy|apply Hlt; [left; reflexivity|exact Hy]].
Qed.

Lemma In_zrange x a b : In x (zrange a b) <-> a <= x < b.
Proof.
  unfold zrange. rewrite in_map_iff. split.
  - intros (i & <- & Hi). apply in_seq in Hi. lia.
  - intros H. exists (Z.to_nat (x - a)). split; [lia|]. apply in_seq. lia.
Qed.

Lemma incr_seq_map a : forall n k, incr (map (fun i => a + Z.of_nat i) (seq k n)).
Proof.
  induction n as [|n IH]; intros k; [constructor|]. cbn [seq map]. apply incr_cons; [apply IH|].
  intros y Hy. apply in_map_iff in Hy as (i & <- & Hi). apply in_seq in Hi. lia.
Qed.

Lemma incr_zrange a b : incr (zrange a b).
Proof. apply incr_seq_map. Qed.

Lemma zrange_empty a b : b <= a -> zrange a b = [].
Proof. intros H. unfold zrange. replace (Z.to_nat (b - a)) with 0%nat by lia. reflexivity. Qed.

Lemma zrange_cons a b : a < b -> zrange a b = a :: zrange (a + 1) b.
Proof.
  intros H. apply incr_ext; [apply incr_zrange| |].
  - apply incr_cons; [apply incr_zrange|]. intros y Hy. apply In_zrange in Hy. lia.
  - intros x. cbn [In]. rewrite !In_zrange. lia.
Qed.

Lemma zrange_split a m b : a <= m <= b -> zrange a b = zrange a m ++ zrange m b.
Proof.
  intros H. apply incr_ext; [apply incr_zrange| |].
  - apply incr_app; try apply incr_zrange. intros x y Hx Hy. apply In_zrange in Hx, Hy. lia.
  - intros x. rewrite in_app_iff, !In_zrange. lia.
Qed.

(* the head of a filtered range: the least element satisfying the predicate; the tail is the filter of the rest of the range *)
Lemma filter_zrange_head f a b j r : filter f (zrange a b) = j :: r ->
  a <= j < b /\ f j = true /\ (forall x, a <= x < j -> f x = false) /\ r = filter f (zrange (j + 1) b).
Proof.
  intros H.
  assert (Hin : In j (filter f (zrange a b))) by (rewrite H; left; reflexivity).
  apply filter_In in Hin as [Hr Hf]. apply In_zrange in Hr.
  assert (Hs : incr (j :: r)) by (rewrite <- H; apply incr_filter, incr_zrange).
  destruct (incr_cons_inv _ _ Hs) as [Sr Fr].
  repeat split; try lia; try assumption.
  - intros x Hx. destruct (f x) eqn:E; [|reflexivity]. exfalso.
    assert (In x (j :: r)) by (rewrite <- H; apply filter_In; split; [apply In_zrange; lia|exact E]).
    destruct H0 as [->|Hxr]; [lia|]. pose proof (Fr _ Hxr). lia.
  - apply incr_ext; [exact Sr|apply incr_filter, incr_zrange|].
    intros x. rewrite filter_In, In_zrange. split.
    + intros Hx. pose proof (Fr _ Hx).
      assert (In x (filter f (zrange a b))) by (rewrite H; right; exact Hx).
      apply filter_In in H1 as [H1 H2]. apply In_zrange in H1. repeat split; try lia; assumption.
    + intros [Hx Hfx]. assert (In x (j :: r)) by (rewrite <- H; apply filter_In; split; [apply In_zrange; lia|exact Hfx]).
      destruct H0 as [->|]; [lia|assumption].
Qed.

Lemma filter_nil_iff {A} (f : A -> bool) l : filter f l = [] <-> forall x, In x l -> f x = false.
Proof.
  induction l as [|y l IH]; cbn; [tauto|]. destruct (f y) eqn:E; split.
  - discriminate.
  - intros H. specialize (H y (or_introl eq_refl)). congruence.
  - intros H x [->|Hx]; [exact E|apply IH; assumption].
  - intros H. apply IH. intros x Hx. apply H. right; exact Hx.
Qed.
