(* StoreProofs.v — C08/C13/C15/C17 lemmas about stores, windows, equality and serialisation. *)
From BS Require Import Prims BitsCore Search Store SeqProofs.
From Coq Require Import ZifyBool.
Open Scope Z_scope.

Lemma beq_bits_eq a : forall b, beq_bits a b = true <-> a = b.
Proof.
  induction a as [|x a IH]; intros [|y b]; cbn; split; intros H; try congruence; try discriminate.
  - apply andb_prop in H as [H1 H2]. apply eqb_prop in H1. apply IH in H2. congruence.
  - injection H as -> ->. rewrite eqb_reflx. cbn. apply IH. reflexivity.
Qed.

Lemma wf_raw s : wf s -> bits_of s = raw s.
Proof.
  unfold wf, bits_of. destruct (mlen s) as [n|]; [|reflexivity]. intros ->.
  unfold zlen. rewrite Nat2Z.id. apply firstn_all.
Qed.

Theorem eq_iff a b : wf a -> wf b -> (bs_eq a b = true <-> bits_of a = bits_of b).
Proof. intros Ha Hb. rewrite (wf_raw a Ha), (wf_raw b Hb). unfold bs_eq, st_eq. apply beq_bits_eq. Qed.

Theorem eq_equivalence a b c : wf a -> wf b -> wf c ->
  bs_eq a a = true /\ (bs_eq a b = bs_eq b a) /\ (bs_eq a b = true -> bs_eq b c = true -> bs_eq a c = true).
Proof.
  intros Ha Hb Hc. repeat split.
  - apply eq_iff; auto.
  - destruct (bs_eq a b) eqn:E1; destruct (bs_eq b a) eqn:E2; try reflexivity.
    + apply eq_iff in E1; auto. assert (bs_eq b a = true) by (apply eq_iff; auto). congruence.
    + apply eq_iff in E2; auto. assert (bs_eq a b = true) by (apply eq_iff; auto). congruence.
  - intros H1 H2. apply eq_iff in H1; auto. apply eq_iff in H2; auto. apply eq_iff; auto. congruence.
Qed.

Theorem hash_input_len b : snd (hash_input b) = zlen b.
Proof. unfold hash_input. destruct (zlen b <=? 2000); reflexivity. Qed.

(* content determines behaviour: every raw-buffer method factors through bits_of on well-formed stores *)
Theorem content_determines a b : wf a -> wf b -> bits_of a = bits_of b ->
  st_len a = st_len b /\ st_eq a b = true /\ (forall v, st_count a v = st_count b v) /\
  (forall i, st_getindex a i = st_getindex b i) /\ st_invert a = st_invert b /\
  (forall c, st_add a c = st_add b c) /\ raw (st_copy a) = raw (st_copy b).
Proof.
  intros Ha Hb H. rewrite (wf_raw a Ha), (wf_raw b Hb) in H.
  assert (La : st_len a = zlen (raw a)) by (unfold st_len; unfold wf in Ha; destruct (mlen a); auto).
  assert (Lb : st_len b = zlen (raw b)) by (unfold st_len; unfold wf in Hb; destruct (mlen b); auto).
  unfold st_eq, st_count, st_getindex, st_invert, st_add, st_copy. cbn [raw]. rewrite La, Lb, H.
  repeat split; auto. apply beq_bits_eq. reflexivity.
Qed.

(* ---------- windows ---------- *)
Theorem bytes_window data l o : 0 <= o -> 0 <= l -> o + l <= zlen data ->
  setbytes_with_truncation data (Some l) (Some o) = Ok (sub data o (o + l)).
Proof.
  intros Ho Hl Hb. unfold setbytes_with_truncation, check_window_args.
  destruct (o <? 0) eqn:E1; [lia|]. destruct (l <? 0) eqn:E2; [lia|]. cbn [bind].
  destruct (l + o >? zlen data) eqn:E3; [lia|]. cbn [bind]. apply seq_slice_unit; lia.
Qed.

Theorem bytes_window_rejects data l o : (o < 0 \/ l < 0 \/ o + l > zlen data) ->
  setbytes_with_truncation data (Some l) (Some o) = Err ValueError.
Proof.
  intros H. unfold setbytes_with_truncation, check_window_args.
  destruct (o <? 0) eqn:E1; [reflexivity|]. destruct (l <? 0) eqn:E2; [reflexivity|]. cbn [bind].
  destruct (l + o >? zlen data) eqn:E3; [reflexivity|lia].
Qed.

Theorem file_window f l o : 0 <= o -> 0 <= l -> o + l <= zlen f ->
  exists s, setfile f (Some l) (Some o) = Ok s /\ bits_of s = sub f o (o + l) /\ wf s.
Proof.
  intros Ho Hl Hb. unfold setfile, check_window_args.
  destruct (o <? 0) eqn:E1; [lia|]. destruct (l <? 0) eqn:E2; [lia|]. cbn [bind].
  destruct (o =? 0) eqn:E0.
  - assert (o = 0) by lia. subst o. destruct (l =? zlen f) eqn:El; cbn [andb].
    + assert (l = zlen f) by lia. subst l. unfold frombuffer. rewrite E2.
      destruct (zlen f >? zlen f) eqn:E3; [lia|]. eexists. split; [reflexivity|].
      split; [|reflexivity]. unfold bits_of. cbn [mlen raw]. unfold sub. rewrite Z.add_0_l, Z.sub_0_r. reflexivity.
    + unfold frombuffer. rewrite E2. destruct (l >? zlen f) eqn:E3; [lia|]. cbn [bind].
      unfold st_getslice_msb0. cbn [mlen raw].
      unfold slice_indices. cbn [s_step s_start s_stop]. change (1 =? 0) with false. change (1 <? 0) with false. cbv iota.
      unfold clamp_index. change (0 <? 0) with false. cbv iota. destruct (0 >? l) eqn:E4; [lia|].
      rewrite E2. destruct (l >? l) eqn:E5; [lia|]. cbn [bind].
      rewrite seq_slice_unit by lia. cbn [bind]. eexists. split; [reflexivity|]. split; [|exact I].
      unfold bits_of. cbn [mlen raw]. rewrite Z.add_0_l. reflexivity.
  - cbn [andb]. unfold st_getslice_msb0. cbn [mlen raw]. rewrite seq_slice_unit by lia. cbn [bind].
    assert (Hz : zlen (sub f o (o + l)) = l).
    { unfold sub. rewrite zlen_firstn, zlen_skipn. lia. }
    rewrite Hz, Z.eqb_refl. unfold st_len. cbn [mlen raw]. destruct (o >? zlen f) eqn:Eo; [lia|]. cbn [andb negb].
    eexists. split; [reflexivity|]. split; [reflexivity|exact I].
Qed.

Theorem setfile_wf f l o s : setfile f l o = Ok s -> wf s.
Proof.
  unfold setfile. destruct (check_window_args l o); [|discriminate]. cbn [bind].
  set (off := match o with Some o0 => o0 | None => 0 end).
  destruct ((off =? 0) && match l with Some l0 => l0 =? zlen f | None => true end) eqn:E.
  - unfold frombuffer. destruct l as [n|]; [|intros [= <-]; exact I].
    destruct (n <? 0); [discriminate|]. destruct (n >? zlen f); [discriminate|]. intros [= <-]. unfold wf. cbn. lia.
  - destruct (off =? 0).
    + destruct (frombuffer f l); [|discriminate]. cbn [bind]. destruct (st_getslice_msb0 _ _ _); [|discriminate].
      intros [= <-]. exact I.
    + destruct l as [n|].
      * destruct (st_getslice_msb0 _ _ _) as [b|]; [|discriminate]. cbn [bind]. destruct ((zlen b =? n) && _); [|discriminate].
        intros [= <-]. exact I.
      * destruct (off >? _); [discriminate|]. destruct (st_getslice_msb0 _ _ _); [|discriminate]. intros [= <-]. exact I.
Qed.

Theorem getbytes_spec b : (zlen b mod 8 <> 0 -> bs_getbytes b = Err ValueError) /\ (zlen b mod 8 = 0 -> bs_getbytes b = Ok (tobytes b)).
Proof. unfold bs_getbytes. split; intros H; destruct (zlen b mod 8 =? 0) eqn:E; try reflexivity; lia. Qed.

(* ---------- the methods that honour modified_length factor through the content too ---------- *)
Lemma clamp_id v n lo up : 0 <= v -> v <= up -> clamp_index v n lo up = v.
Proof. intros H0 H1. unfold clamp_index. destruct (v <? 0) eqn:E; [lia|]. destruct (v >? up) eqn:E2; [lia|reflexivity]. Qed.

Lemma slice_indices_bounds k n a b c : 0 <= n -> slice_indices k n = Ok (a, b, c) ->
  c <> 0 /\ (0 < c -> 0 <= a <= n /\ 0 <= b <= n) /\ (c < 0 -> -1 <= a <= n - 1 /\ -1 <= b <= n - 1).
Proof.
  intros Hn. unfold slice_indices. destruct k as [ks ke kst]; cbn [s_step s_start s_stop].
  set (st := match kst with None => 1 | Some s => s end).
  destruct (st =? 0) eqn:E0; [discriminate|]. intros H.
  assert (Hc : c = st) by congruence. subst c.
  destruct (st <? 0) eqn:Es.
  - split; [lia|]. split; [lia|]. intros _.
    assert (Ha : a = match ks with None => n - 1 | Some v => clamp_index v n (-1) (n - 1) end) by congruence.
    assert (Hb : b = match ke with None => -1 | Some v => clamp_index v n (-1) (n - 1) end) by congruence.
    subst a b. unfold clamp_index. split.
    + destruct ks as [v|]; [|lia]. destruct (v <? 0) eqn:?; [destruct (v + n <? -1) eqn:?|destruct (v >? n - 1) eqn:?]; lia.
    + destruct ke as [v|]; [|lia]. destruct (v <? 0) eqn:?; [destruct (v + n <? -1) eqn:?|destruct (v >? n - 1) eqn:?]; lia.
  - split; [lia|]. split; [|lia]. intros _.
    assert (Ha : a = match ks with None => 0 | Some v => clamp_index v n 0 n end) by congruence.
    assert (Hb : b = match ke with None => n | Some v => clamp_index v n 0 n end) by congruence.
    subst a b. unfold clamp_index. split.
    + destruct ks as [v|]; [|lia]. destruct (v <? 0) eqn:?; [destruct (v + n <? 0) eqn:?|destruct (v >? n) eqn:?]; lia.
    + destruct ke as [v|]; [|lia]. destruct (v <? 0) eqn:?; [destruct (v + n <? 0) eqn:?|destruct (v >? n) eqn:?]; lia.
Qed.

Lemma range_len_empty_neg b c : c < 0 -> -1 <= b -> range_len (-1) b c = 0.
Proof. intros Hc Hb. unfold range_len. destruct (c >? 0) eqn:E; [lia|]. destruct (b <? -1) eqn:E2; [lia|reflexivity]. Qed.

Theorem getslice_withstep_content s k : wf s ->
  st_getslice_withstep_msb0 s k = seq_slice false (bits_of s) k.
Proof.
  intros Hw. rewrite (wf_raw s Hw). unfold st_getslice_withstep_msb0. unfold wf in Hw.
  destruct (mlen s) as [n|]; [|reflexivity]. subst n.
  set (l := raw s). assert (Hn : 0 <= zlen l) by apply zlen_nonneg.
  unfold seq_slice at 5.
  destruct (slice_indices k (zlen l)) as [[[a b] c]|e] eqn:Hsi; [|reflexivity]. cbn [bind].
  destruct (slice_indices_bounds k (zlen l) a b c Hn Hsi) as (Hc0 & Hpos & Hneg).
  destruct (c <? 0) eqn:Ec.
  - destruct Hneg as [Ha Hb]; [lia|].
    destruct (a <? 0) eqn:Ea.
    + assert (a = -1) by lia. subst a. unfold range_list. rewrite range_len_empty_neg by lia. cbn [Z.to_nat progression map].
      unfold seq_slice, slice_indices. cbn [s_step s_start s_stop]. destruct (c =? 0) eqn:E0; [lia|]. rewrite Ec. cbn [bind].
      unfold range_list, range_len. destruct (c >? 0) eqn:E1; [lia|].
      match goal with |- context [?x <? ?x] => replace (x <? x) with false by lia end. reflexivity.
    + destruct (b <? 0) eqn:Eb.
      * assert (b = -1) by lia. subst b.
        unfold seq_slice, slice_indices. cbn [s_step s_start s_stop]. destruct (c =? 0) eqn:E0; [lia|]. rewrite Ec.
        rewrite clamp_id by lia. reflexivity.
      * unfold seq_slice, slice_indices. cbn [s_step s_start s_stop]. destruct (c =? 0) eqn:E0; [lia|]. rewrite Ec.
        rewrite !clamp_id by lia. reflexivity.
  - destruct Hpos as [Ha Hb]; [lia|].
    unfold seq_slice, slice_indices. cbn [s_step s_start s_stop]. destruct (c =? 0) eqn:E0; [lia|]. rewrite Ec.
    rewrite !clamp_id by lia. reflexivity.
Qed.

Theorem getslice_content s a b : wf s ->
  st_getslice_msb0 s a b = seq_slice false (bits_of s) (mkslice a b None).
Proof.
  intros Hw. rewrite (wf_raw s Hw). unfold st_getslice_msb0. unfold wf in Hw.
  destruct (mlen s) as [n|]; [|reflexivity]. subst n.
  set (l := raw s). assert (Hn : 0 <= zlen l) by apply zlen_nonneg.
  unfold seq_slice at 2.
  destruct (slice_indices (mkslice a b None) (zlen l)) as [[[x y] c]|e] eqn:Hsi; [|reflexivity]. cbn [bind].
  destruct (slice_indices_bounds _ (zlen l) x y c Hn Hsi) as (Hc0 & Hpos & Hneg).
  assert (c = 1) by (unfold slice_indices in Hsi; cbn [s_step] in Hsi; cbn in Hsi; congruence). subst c.
  destruct Hpos as [Hx Hy]; [lia|].
  unfold seq_slice, slice_indices. cbn [s_step s_start s_stop]. cbn [Z.eqb Z.ltb Z.compare]. rewrite !clamp_id by lia. reflexivity.
Qed.

Theorem tobytes_content s : wf s -> st_tobytes s = tobytes (bits_of s).
Proof.
  intros Hw. rewrite (wf_raw s Hw). unfold st_tobytes. unfold wf in Hw.
  destruct (mlen s) as [n|]; [|reflexivity]. subst n.
  pose proof (zlen_nonneg (raw s)) as Hn.
  assert (E : seq_slice false (raw s) (mkslice None (Some (zlen (raw s))) None) =
              seq_slice false (raw s) (mkslice (Some 0) (Some (zlen (raw s))) None)).
  { unfold seq_slice, slice_indices. cbn [s_step s_start s_stop]. cbn [Z.eqb Z.ltb Z.compare].
    rewrite (clamp_id 0) by lia. reflexivity. }
  rewrite E. rewrite (seq_slice_unit false (raw s) 0 (zlen (raw s))) by lia.
  unfold sub. cbn [Z.to_nat skipn]. rewrite Z.sub_0_r. unfold zlen. rewrite Nat2Z.id, firstn_all. reflexivity.
Qed.
