(* Mutators.v — hand model of the in-place operations of BitArray (bitstring/bitarray_.py) and the
   Bits._* helpers they call (bitstring/bits.py), as state transformers  bits -> args -> res bits
   (plus a return value where the method has one).  `lsb0` is options.lsb0: it selects the
   BitStore method table exactly as Options.set_lsb0 does. *)
From BS Require Import Prims BitsCore.
Open Scope Z_scope.

(* ---------------- helpers of bits.py ---------------- *)
(* _slice(start, end): self._bitstore.getslice(start, end)  (mode dependent) *)
Definition slice_ (lsb0 : bool) (b : bits) (s e : Z) : res bits := getslice lsb0 b (Some s) (Some e).

(* _insert(bs, pos): assert 0 <= pos <= len; self._bitstore[pos:pos] = bs *)
Definition insert_ (lsb0 : bool) (b bs : bits) (pos : Z) : res bits :=
  if (0 <=? pos) && (pos <=? zlen b) then setslice lsb0 b (mkslice (Some pos) (Some pos) None) bs
  else Err AssertionError.

(* _overwrite(bs, pos): assert 0 <= pos <= len; self._bitstore[pos:pos+len(bs)] = bs
   (the `bs is self` branch: nothing to do at pos 0, otherwise a copy is written) *)
Definition overwrite_ (lsb0 : bool) (same_object : bool) (b bs : bits) (pos : Z) : res bits :=
  if (0 <=? pos) && (pos <=? zlen b) then
    if same_object && (pos =? 0) then Ok b      (* fix D27: other positions overwrite with a copy *)
    else setslice lsb0 b (mkslice (Some pos) (Some (pos + zlen bs)) None) bs
  else Err AssertionError.

(* _delete(bits, pos): asserts; del self._bitstore[pos:pos+bits] *)
Definition delete_ (lsb0 : bool) (b : bits) (n pos : Z) : res bits :=
  if (0 <=? pos) && (pos <=? zlen b) && (pos + n <=? zlen b)
  then delslice lsb0 b (mkslice (Some pos) (Some (pos + n)) None)
  else Err AssertionError.

(* ---------------- BitArray public mutators ---------------- *)
(* insert(bs, pos) ; `bs is self` copies first, so the value inserted is the old content *)
Definition ba_insert (lsb0 : bool) (b bs : bits) (pos : Z) : res bits :=
  let pos := if pos <? 0 then pos + zlen b else pos in
  if (0 <=? pos) && (pos <=? zlen b) then (if zlen bs =? 0 then Ok b else insert_ lsb0 b bs pos) else Err ValueError.

Definition ba_overwrite (lsb0 : bool) (same_object : bool) (b bs : bits) (pos : Z) : res bits :=
  let pos := if pos <? 0 then pos + zlen b else pos in
  if (pos <? 0) || (pos >? zlen b) then Err ValueError else
  if zlen bs =? 0 then Ok b else overwrite_ lsb0 same_object b bs pos.

(* append / prepend: the method table swaps them under lsb0
   _append_msb0 = _addright ; _append_lsb0 = _addleft *)
Definition ba_append (lsb0 : bool) (b bs : bits) : bits := if lsb0 then addleft b bs else addright b bs.
Definition ba_prepend (lsb0 : bool) (b bs : bits) : bits := if lsb0 then addright b bs else addleft b bs.

Definition ba_clear (b : bits) : bits := [].

(* __delitem__(key) *)
Definition ba_delitem_int (lsb0 : bool) (b : bits) (i : Z) : res bits := delbit lsb0 b i.
Definition ba_delitem_slice (lsb0 : bool) (b : bits) (k : pyslice) : res bits := delslice lsb0 b k.

(* set(value, pos): None -> all; int -> one; range -> slice fill; iterable -> one by one.
   The iterable form is modelled on a list and returns the content reached when an error stops it. *)
Fixpoint set_list (lsb0 : bool) (b : bits) (v : bool) (ps : list Z) : bits * option exn :=
  match ps with
  | [] => (b, None)
  | p :: ps' => match setbit lsb0 b p v with
                | Ok b' => set_list lsb0 b' v ps'
                | Err e => (b, Some e)
                end
  end.
(* set(value) with pos=None is self._setint(-1 if value else 0): needs a non-zero length *)
Definition ba_set_all (b : bits) (v : bool) : res bits :=
  if zlen b =? 0 then Err ValueError else Ok (repeat v (length b)).
(* set(value, range(a, s, c)): the slice fast path only when range and slice denote the same positions
   (fix D3); the fast path goes through BitStore.__setitem__ (mode dependent; fix D17) *)
Definition setslice_scalar (lsb0 : bool) (b : bits) (k : pyslice) (v : bool) : res bits :=
  if lsb0 then do k' <- offset_slice_indices_lsb0 k (zlen b); ba_setslice_scalar b k' v
  else ba_setslice_scalar b k v.
Definition ba_set_range (lsb0 : bool) (b : bits) (v : bool) (a s c : Z) : bits * option exn :=
  if (c >? 0) && (0 <=? a) && (0 <=? s) && (s <=? zlen b) then
    match setslice_scalar lsb0 b (mkslice (Some a) (Some s) (Some c)) v with
    | Ok b' => (b', None)
    | Err e => (b, Some e)
    end
  else set_list lsb0 b v (range_list a s c).

(* invert(pos) *)
Fixpoint invert_list (lsb0 : bool) (b : bits) (ps : list Z) : bits * option exn :=
  match ps with
  | [] => (b, None)
  | p :: ps' =>
      let p' := if p <? 0 then p + zlen b else p in
      if (0 <=? p') && (p' <? zlen b) then
        match invert_at lsb0 b p' with
        | Ok b' => invert_list lsb0 b' ps'
        | Err e => (b, Some e)
        end
      else (b, Some IndexError)
  end.
Definition ba_invert_all (b : bits) : bits := map negb b.

(* reverse(start, end) *)
Definition ba_reverse (lsb0 : bool) (b : bits) (start stop : option Z) : res bits :=
  do2 (s, e) <- validate_slice b start stop;
  if (s =? 0) && (e =? zlen b) then Ok (rev b) else
  do sl <- slice_ lsb0 b s e;
  setslice lsb0 b (mkslice (Some s) (Some e) None) (rev sl).

(* _ror_msb0 / _rol_msb0 ; ror/rol pick them through the table (swapped under lsb0) *)
Definition ror_msb0 (lsb0 : bool) (b : bits) (n : Z) (start stop : option Z) : res bits :=
  do2 (s, e) <- validate_slice b start stop;
  if e - s =? 0 then Ok b else      (* fix D21: rotating an empty range is a no-op *)
  let n := n mod (e - s) in
  if n =? 0 then Ok b else
  do rhs <- slice_ lsb0 b (e - n) e;
  do b1 <- delete_ lsb0 b n (e - n);
  insert_ lsb0 b1 rhs s.

Definition rol_msb0 (lsb0 : bool) (b : bits) (n : Z) (start stop : option Z) : res bits :=
  do2 (s, e) <- validate_slice b start stop;
  if e - s =? 0 then Ok b else
  let n := n mod (e - s) in
  if n =? 0 then Ok b else
  do lhs <- slice_ lsb0 b s (s + n);
  do b1 <- delete_ lsb0 b n s;
  insert_ lsb0 b1 lhs (e - n).

Definition ba_ror (lsb0 : bool) (b : bits) (n : Z) (start stop : option Z) : res bits :=
  if zlen b =? 0 then Err BsError else
  if n <? 0 then Err ValueError else
  if lsb0 then rol_msb0 lsb0 b n start stop else ror_msb0 lsb0 b n start stop.
Definition ba_rol (lsb0 : bool) (b : bits) (n : Z) (start stop : option Z) : res bits :=
  if zlen b =? 0 then Err BsError else
  if n <? 0 then Err ValueError else
  if lsb0 then ror_msb0 lsb0 b n start stop else rol_msb0 lsb0 b n start stop.

(* _reversebytes(start, end): self._bitstore[start:end] = frombytes(getslice(start,end).tobytes()[::-1]) *)
Definition reversebytes (lsb0 : bool) (b : bits) (s e : Z) : res bits :=
  if (e - s) mod 8 =? 0 then
    do sl <- slice_ lsb0 b s e;
    setslice lsb0 b (mkslice (Some s) (Some e) None) (frombytes (rev (tobytes sl)))
  else Err AssertionError.

(* byteswap(fmt, start, end, repeat) with fmt already reduced to the list of byte sizes.
   for patternend in range(start+total, finalbit+1, total): for bytesize in bytesizes: reverse bytes *)
Fixpoint byteswap_pattern (lsb0 : bool) (b : bits) (bytestart : Z) (sizes : list Z) : res bits :=
  match sizes with
  | [] => Ok b
  | sz :: rest => do b' <- reversebytes lsb0 b bytestart (bytestart + sz * 8);
                  byteswap_pattern lsb0 b' (bytestart + sz * 8) rest
  end.
Fixpoint byteswap_loop (lsb0 : bool) (b : bits) (sizes : list Z) (total : Z) (ends : list Z) (repeats : Z) : res (bits * Z) :=
  match ends with
  | [] => Ok (b, repeats)
  | pe :: ends' => do b' <- byteswap_pattern lsb0 b (pe - total) sizes;
                   byteswap_loop lsb0 b' sizes total ends' (repeats + 1)
  end.
Definition ba_byteswap (lsb0 : bool) (b : bits) (sizes : list Z) (start stop : option Z) (repeat_ : bool) : res (bits * Z) :=
  do2 (s, e) <- validate_slice b start stop;
  if existsb (fun x => x <? 0) sizes then Err ValueError else
  let total := 8 * fold_right Z.add 0 sizes in
  if total =? 0 then Ok (b, 0) else
  let finalbit := if repeat_ then e else Z.min e (s + total) in    (* fix D2: never past `end` *)
  byteswap_loop lsb0 b sizes total (range_list (s + total) (finalbit + 1) total) 0.

(* __setitem__(int key, value) *)
Inductive setval := VInt (v : Z) | VBits (v : bits).
Definition ba_setitem_int (lsb0 : bool) (b : bits) (key : Z) (value : setval) : res bits :=
  match value with
  | VInt v => if v =? 0 then setbit lsb0 b key false
              else if (v =? 1) || (v =? -1) then setbit lsb0 b key true
              else Err ValueError
  | VBits v =>
      let pk := if key <? 0 then key + zlen b else key in
      if (pk <? 0) || (pk >=? zlen b) then Err IndexError
      else setslice lsb0 b (mkslice (Some pk) (Some (pk + 1)) None) v
  end.

(* uint=/int= creation used by _setitem_slice: int2bitstore + the zero-length check of _setuint/_setint *)
Definition make_int (v len : Z) : res bits :=
  if len =? 0 then Err ValueError else
  match int2ba v len (v <? 0) with
  | Ok b => Ok b
  | Err OverflowError => Err ValueError
  | Err e => Err e
  end.

(* __setitem__(slice key, value) *)
Definition ba_setitem_slice (lsb0 : bool) (b : bits) (k : pyslice) (value : setval) : res bits :=
  match value with
  | VInt v =>
      let unit_step := match s_step k with None => true | Some s => (s =? 1) || (s =? -1) end in
      if negb unit_step then
        if (v =? 0) || (v =? 1) then
          do3 (a, s, c) <- slice_indices k (zlen b);
          match ba_set_range lsb0 b (v =? 1) a s c with
          | (b', None) => Ok b'
          | (_, Some e) => Err e
          end
        else Err ValueError
      else
        do sl <- getslice lsb0 b (s_start k) (s_stop k);
        do vb <- make_int v (zlen sl);
        setslice lsb0 b k vb
  | VBits v => setslice lsb0 b k v
  end.

(* __imul__ *)
Definition ba_imul (lsb0 : bool) (b : bits) (n : Z) : res bits :=
  if n <? 0 then Err ValueError else imul lsb0 b n.
