(* SearchTop.v — C07: the public msb0 entry points (findall, find, rfind, contains) against the brute-force specification. *)
From BS Require Import Prims BitsCore Search SeqProofs RangeLemmas SearchProofs FastPath.
From Coq Require Import ZifyBool.
Open Scope Z_scope.

Lemma validate_slice_ok d start stop s e : validate_slice d start stop = Ok (s, e) -> 0 <= s /\ s <= e /\ e <= zlen d.
Proof.
  unfold validate_slice. 
  set (s' := match start with None => 0 | Some v => if v <? 0 then v + zlen d else v end).
  set (e' := match stop with None => zlen d | Some v => if v <? 0 then v + zlen d else v end).
  destruct ((0 <=? s') && (s' <=? e') && (e' <=? zlen d)) eqn:E; [|discriminate].
  intros H. assert (s = s') by congruence. assert (e = e') by congruence. subst. lia.
Qed.

Lemma nonempty_zlen (p : bits) : p <> [] <-> (zlen p =? 0) = false.
Proof. destruct p; unfold zlen; cbn [length]; split; intros H; try congruence; try lia; try discriminate. Qed.

Definition count_ok (count : option Z) : Prop := match count with None => True | Some c => 0 <= c end.

Theorem findall_spec d p start stop count ba s e :
  p <> [] -> count_ok count -> validate_slice d start stop = Ok (s, e) ->
  bs_findall false d p start stop count ba = Ok (take_count count (spec_matches d p s e ba)).
Proof.
  intros Hp Hc Hv. destruct (validate_slice_ok _ _ _ _ _ Hv) as (H0 & H1 & H2).
  unfold bs_findall. replace (match count with Some c => c <? 0 | None => false end) with false by (destruct count; cbn in *; lia).
  apply nonempty_zlen in Hp as Hz. rewrite Hz, Hv. cbn [bind]. unfold findall_msb0.
  rewrite findall_store_spec by assumption. reflexivity.
Qed.

Definition head_opt (l : list Z) : option Z := match l with [] => None | q :: _ => Some q end.
Definition last_opt (l : list Z) : option Z := head_opt (rev l).

Lemma spec_matches_nonneg d p s e ba q : In q (spec_matches d p s e ba) -> 0 <= q.
Proof. unfold spec_matches. intros H. apply filter_In in H as [_ H]. unfold occurs_at in H. lia. Qed.

Theorem find_spec d p start stop ba s e :
  p <> [] -> validate_slice d start stop = Ok (s, e) ->
  bs_find false d p start stop ba = Ok (head_opt (spec_matches d p s e ba)).
Proof.
  intros Hp Hv. destruct (validate_slice_ok _ _ _ _ _ Hv) as (H0 & H1 & H2).
  unfold bs_find. apply nonempty_zlen in Hp as Hz. rewrite Hz, Hv. cbn [bind]. unfold find_msb0, store_find.
  destruct ba; cbn [negb].
  - rewrite findall_store_spec by assumption. cbn [bind].
    destruct (spec_matches d p s e true) as [|q r] eqn:E; [reflexivity|]. cbn [head_opt].
    assert (0 <= q) by (apply (spec_matches_nonneg d p s e true); rewrite E; left; reflexivity).
    destruct (q =? -1) eqn:Eq; [lia|reflexivity].
  - cbn [bind]. rewrite ba_find_spec.
    destruct (spec_matches d p s e false) as [|q r] eqn:E; [reflexivity|]. cbn [head_opt].
    assert (0 <= q) by (apply (spec_matches_nonneg d p s e false); rewrite E; left; reflexivity).
    destruct (q =? -1) eqn:Eq; [lia|reflexivity].
Qed.

Lemma filter_rev' {A} (f : A -> bool) l : filter f (rev l) = rev (filter f l).
Proof.
  induction l as [|x l IH]; [reflexivity|]. cbn [rev filter]. rewrite filter_app, IH. cbn [filter].
  destruct (f x); cbn [rev]; [reflexivity|now rewrite app_nil_r].
Qed.

Theorem rfind_spec d p start stop ba s e :
  p <> [] -> validate_slice d start stop = Ok (s, e) ->
  bs_rfind false d p start stop ba = Ok (last_opt (spec_matches d p s e ba)).
Proof.
  intros Hp Hv. unfold bs_rfind. apply nonempty_zlen in Hp as Hz. rewrite Hv. cbn [bind]. rewrite Hz.
  unfold rfind_msb0, store_rfind, last_opt.
  assert (R : (if ba then filter (fun q => q mod 8 =? 0) (rev (search_all d p s e)) else rev (search_all d p s e)) = rev (spec_matches d p s e ba)).
  { unfold spec_matches, search_all. destruct ba; cbn [negb orb].
    - rewrite filter_rev', filter_filter. reflexivity.
    - f_equal. apply filter_ext. intros q. now rewrite andb_true_r. }
  destruct ba; cbn [negb bind].
  - unfold rfindall_store_msb0. rewrite R.
    destruct (rev (spec_matches d p s e true)) as [|q r] eqn:E; [reflexivity|]. cbn [head_opt].
    assert (0 <= q). { apply (spec_matches_nonneg d p s e true). apply in_rev. rewrite E. left; reflexivity. }
    destruct (q =? -1) eqn:Eq; [lia|reflexivity].
  - unfold ba_rfind. rewrite R.
    destruct (rev (spec_matches d p s e false)) as [|q r] eqn:E; [reflexivity|]. cbn [head_opt].
    assert (0 <= q). { apply (spec_matches_nonneg d p s e false). apply in_rev. rewrite E. left; reflexivity. }
    destruct (q =? -1) eqn:Eq; [lia|reflexivity].
Qed.

(* `p in d` is true exactly when p occurs somewhere in d *)
Theorem contains_spec d p : p <> [] ->
  bs_contains false d p = Ok (match spec_matches d p 0 (zlen d) false with [] => false | _ => true end).
Proof.
  intros Hp. unfold bs_contains.
  assert (Hv : validate_slice d None None = Ok (0, zlen d)).
  { unfold validate_slice. pose proof (zlen_nonneg d). replace ((0 <=? 0) && (0 <=? zlen d) && (zlen d <=? zlen d)) with true by lia. reflexivity. }
  rewrite (find_spec d p None None false 0 (zlen d) Hp Hv). cbn [bind].
  destruct (spec_matches d p 0 (zlen d) false); reflexivity.
Qed.

(* every reported position is a real occurrence inside the window, and every occurrence is reported (no count) *)
Theorem findall_sound_complete d p start stop ba s e l :
  p <> [] -> validate_slice d start stop = Ok (s, e) -> bs_findall false d p start stop None ba = Ok l ->
  forall q, In q l <-> (s <= q /\ q + zlen p <= e /\ sub d q (q + zlen p) = p /\ (ba = true -> q mod 8 = 0)).
Proof.
  intros Hp Hv H q. rewrite (findall_spec d p start stop None ba s e Hp I Hv) in H. injection H as <-.
  destruct (validate_slice_ok _ _ _ _ _ Hv) as (H0 & H1 & H2).
  cbn [take_count]. unfold spec_matches. rewrite filter_In, In_zrange. unfold occurs_at.
  split.
  - intros [Hr Ho]. apply andb_prop in Ho as [Ho Hal]. apply andb_prop in Ho as [Hb Hbits].
    apply StoreProofs.beq_bits_eq in Hbits. repeat split; try lia; try assumption.
  - intros (Hs & He & Hsub & Hal). split; [lia|].
    apply andb_true_intro. split.
    + apply andb_true_intro. split; [lia|]. apply StoreProofs.beq_bits_eq. exact Hsub.
    + destruct ba; cbn [negb orb]; [specialize (Hal eq_refl); lia|reflexivity].
Qed.
