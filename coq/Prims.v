(* Prims.v — modelled primitives that live OUTSIDE /repo: Python ints, slices, list-like
   bit containers (bitarray), and the result monad.  Everything here is L0-tested
   against the real CPython/bitarray on every run (tools/props/prims.py). *)
From Coq Require Export ZArith List Bool Lia.
From Coq Require Import Ascii String.
Export ListNotations.
Notation length := List.length.
Open Scope Z_scope.

Inductive exn :=
| IndexError | ReadError | ValueError | TypeError | BsError | ByteAlignError
| OverflowError | AttributeError | AssertionError | KeyError | StopIteration
| NotImplementedError | ZeroDivisionError | OutOfFuel.

Inductive res (A : Type) := Ok (a : A) | Err (e : exn).
Arguments Ok {A} a.
Arguments Err {A} e.

Definition bind {A B} (r : res A) (f : A -> res B) : res B :=
  match r with Ok a => f a | Err e => Err e end.
Notation "'do' x <- r ; k" := (bind r (fun x => k)) (at level 200, x name, r at level 100, k at level 200).
Notation "'do3' ( a , b , c ) <- r ; k" := (bind r (fun abc => let '(a, b, c) := abc in k))
  (at level 200, a name, b name, c name, r at level 100, k at level 200).
Notation "'do2' ( a , b ) <- r ; k" := (bind r (fun ab => let '(a, b) := ab in k))
  (at level 200, a name, b name, r at level 100, k at level 200).

Definition exn_eqb (a b : exn) : bool :=
  match a, b with
  | IndexError, IndexError | ReadError, ReadError | ValueError, ValueError | TypeError, TypeError
  | BsError, BsError | ByteAlignError, ByteAlignError | OverflowError, OverflowError
  | AttributeError, AttributeError | AssertionError, AssertionError | KeyError, KeyError
  | StopIteration, StopIteration | NotImplementedError, NotImplementedError
  | ZeroDivisionError, ZeroDivisionError | OutOfFuel, OutOfFuel => true
  | _, _ => false
  end.

Definition bits := list bool.

Definition zlen {A} (l : list A) : Z := Z.of_nat (length l).

(* nth with Z index; callers establish 0 <= i < len *)
Definition znth {A} (d : A) (l : list A) (i : Z) : A := nth (Z.to_nat i) l d.

(* ---------- Python slice.indices (CPython sliceobject.c, _PySlice_GetLongIndices) ---------- *)
Record pyslice := mkslice { s_start : option Z; s_stop : option Z; s_step : option Z }.

Definition clamp_index (v : Z) (len lower upper : Z) : Z :=
  if v <? 0 then (if v + len <? lower then lower else v + len)
  else (if v >? upper then upper else v).

Definition slice_indices (k : pyslice) (len : Z) : res (Z * Z * Z) :=
  let step := match s_step k with None => 1 | Some s => s end in
  if step =? 0 then Err ValueError else
  let lower := if step <? 0 then -1 else 0 in
  let upper := if step <? 0 then len - 1 else len in
  let start := match s_start k with
               | None => if step <? 0 then upper else lower
               | Some v => clamp_index v len lower upper end in
  let stop := match s_stop k with
              | None => if step <? 0 then lower else upper
              | Some v => clamp_index v len lower upper end in
  Ok (start, stop, step).

(* len(range(a, b, c)), c <> 0 *)
Definition range_len (a b c : Z) : Z :=
  if c >? 0 then (if a <? b then (b - a - 1) / c + 1 else 0)
  else (if b <? a then (a - b - 1) / (- c) + 1 else 0).

(* the arithmetic progression a, a+c, ... of n terms *)
Fixpoint progression (a c : Z) (n : nat) : list Z :=
  match n with O => [] | S n' => a :: progression (a + c) c n' end.

Definition range_list (a b c : Z) : list Z := progression a c (Z.to_nat (range_len a b c)).

(* Python sequence slicing on a list (language reference: items start + i*step) *)
Definition seq_slice {A} (d : A) (l : list A) (k : pyslice) : res (list A) :=
  do3 (a, b, c) <- slice_indices k (zlen l);
  Ok (map (znth d l) (range_list a b c)).

(* Python sequence indexing *)
Definition seq_getitem {A} (l : list A) (i : Z) : res A :=
  let j := if i <? 0 then i + zlen l else i in
  if (j <? 0) || (j >=? zlen l) then Err IndexError
  else match nth_error l (Z.to_nat j) with Some x => Ok x | None => Err IndexError end.

(* contiguous slice with already-clamped bounds *)
Definition sub {A} (l : list A) (a b : Z) : list A :=
  firstn (Z.to_nat (b - a)) (skipn (Z.to_nat a) l).

(* list update at position *)
Fixpoint set_nth {A} (l : list A) (n : nat) (x : A) : list A :=
  match l, n with
  | [], _ => []
  | _ :: t, O => x :: t
  | h :: t, S n' => h :: set_nth t n' x
  end.

(* ---------- bitarray slice assignment / deletion (bitarray 3.x semantics) ---------- *)
(* assign the items of v to positions idx (same length) *)
Fixpoint assign_at {A} (l : list A) (idx : list Z) (v : list A) : list A :=
  match idx, v with
  | i :: idx', x :: v' => assign_at (set_nth l (Z.to_nat i) x) idx' v'
  | _, _ => l
  end.

(* bitarray.__setitem__(slice, bitarray) *)
Definition ba_setslice {A} (l : list A) (k : pyslice) (v : list A) : res (list A) :=
  do3 (a, b, c) <- slice_indices k (zlen l);
  if c =? 1 then
    let b' := if b <? a then a else b in
    Ok (firstn (Z.to_nat a) l ++ v ++ skipn (Z.to_nat b') l)
  else
    let idx := range_list a b c in
    if zlen idx =? zlen v then Ok (assign_at l idx v) else Err ValueError.

(* bitarray.__setitem__(slice, int 0/1): scalar fill *)
Definition ba_setslice_scalar {A} (l : list A) (k : pyslice) (x : A) : res (list A) :=
  do3 (a, b, c) <- slice_indices k (zlen l);
  let idx := range_list a b c in
  Ok (assign_at l idx (repeat x (length idx))).

(* delete positions in idx: keep element j iff j not in idx *)
Fixpoint remove_at {A} (l : list A) (j : Z) (idx : list Z) : list A :=
  match l with
  | [] => []
  | h :: t => if existsb (Z.eqb j) idx then remove_at t (j + 1) idx else h :: remove_at t (j + 1) idx
  end.

Definition ba_delslice {A} (l : list A) (k : pyslice) : res (list A) :=
  do3 (a, b, c) <- slice_indices k (zlen l);
  Ok (remove_at l 0 (range_list a b c)).

(* bitarray.__setitem__(int, 0/1) and __delitem__(int), invert(int): IndexError outside [-len, len) *)
Definition norm_index {A} (l : list A) (i : Z) : res Z :=
  let j := if i <? 0 then i + zlen l else i in
  if (j <? 0) || (j >=? zlen l) then Err IndexError else Ok j.

Definition ba_setitem {A} (l : list A) (i : Z) (x : A) : res (list A) :=
  do j <- norm_index l i; Ok (set_nth l (Z.to_nat j) x).

Definition ba_delitem {A} (l : list A) (i : Z) : res (list A) :=
  do j <- norm_index l i; Ok (firstn (Z.to_nat j) l ++ skipn (Z.to_nat j + 1) l).

Definition ba_invert_at (l : bits) (i : Z) : res bits :=
  do j <- norm_index l i; Ok (set_nth l (Z.to_nat j) (negb (znth false l j))).

(* ---------- integers <-> bits (bitarray.util.int2ba / ba2int, big-endian) ---------- *)
Fixpoint value_msb_acc (acc : Z) (b : bits) : Z :=
  match b with [] => acc | h :: t => value_msb_acc (2 * acc + (if h then 1 else 0)) t end.
Definition value_msb (b : bits) : Z := value_msb_acc 0 b.

(* n low bits of v, MSB first *)
Fixpoint enc_uint_nat (n : nat) (v : Z) : bits :=
  match n with
  | O => []
  | S n' => enc_uint_nat n' (v / 2) ++ [Z.odd v]
  end.
Definition enc_uint (n v : Z) : bits := enc_uint_nat (Z.to_nat n) v.

(* int2ba(i, length, 'big', signed): OverflowError when out of range; length <= 0 is ValueError *)
Definition int2ba (i n : Z) (signed : bool) : res bits :=
  if n <=? 0 then Err ValueError else
  if signed then
    if (i <? - 2 ^ (n - 1)) || (i >=? 2 ^ (n - 1)) then Err OverflowError
    else Ok (enc_uint n (i mod 2 ^ n))
  else
    if (i <? 0) || (i >=? 2 ^ n) then Err OverflowError else Ok (enc_uint n i).

(* ba2int(signed); empty is ValueError *)
Definition ba2int (b : bits) (signed : bool) : res Z :=
  match b with
  | [] => Err ValueError
  | h :: _ => let u := value_msb b in
              Ok (if signed && h then u - 2 ^ zlen b else u)
  end.

(* ---------- searching ---------- *)
Fixpoint beq_bits (a b : bits) : bool :=
  match a, b with
  | [], [] => true
  | x :: a', y :: b' => Bool.eqb x y && beq_bits a' b'
  | _, _ => false
  end.

Definition occurs_at (d p : bits) (q : Z) : bool :=
  (0 <=? q) && (q + zlen p <=? zlen d) && beq_bits (sub d q (q + zlen p)) p.

(* all q in [start, end - len p] (ascending) where p occurs; bitarray.search(sub, start, end) *)
Definition zrange (a b : Z) : list Z := map (fun i => a + Z.of_nat i) (seq 0 (Z.to_nat (b - a))).

Definition search_all (d p : bits) (s e : Z) : list Z :=
  filter (occurs_at d p) (zrange s (e - zlen p + 1)).

(* bytes as lists of Z in 0..255; tobytes pads with zero bits *)
Fixpoint chunks8 (fuel : nat) (b : bits) : list bits :=
  match fuel with
  | O => []
  | S f => match b with [] => [] | _ => firstn 8 b :: chunks8 f (skipn 8 b) end
  end.
Definition pad8 (b : bits) : bits := b ++ repeat false (Z.to_nat ((- zlen b) mod 8)).
Definition tobytes (b : bits) : list Z := map value_msb (chunks8 (length b) (pad8 b)).
Definition frombytes (bs : list Z) : bits := flat_map (enc_uint 8) bs.

(* to01 *)
Definition bit_char (b : bool) : string := if b then "1"%string else "0"%string.
Fixpoint to01 (b : bits) : string :=
  match b with [] => EmptyString | h :: t => String (if h then "1"%char else "0"%char) (to01 t) end.
Fixpoint of01 (s : string) : bits :=
  match s with
  | EmptyString => []
  | String c t => (if Ascii.eqb c "1"%char then true else false) :: of01 t
  end.
