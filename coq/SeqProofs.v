(* SeqProofs.v — lemmas about the sequence core (BitsCore.v): slicing, concatenation,
   repetition, iteration, shifts and bit-wise operators. *)
From BS Require Import Prims BitsCore.
From Coq Require Import ZifyBool.
Open Scope Z_scope.

Lemma zlen_app {A} (a b : list A) : zlen (a ++ b) = zlen a + zlen b.
Proof. unfold zlen. rewrite app_length. lia. Qed.
Lemma zlen_nonneg {A} (a : list A) : 0 <= zlen a.
Proof. unfold zlen. lia. Qed.
Lemma zlen_cons {A} (x : A) l : zlen (x :: l) = 1 + zlen l.
Proof. unfold zlen. simpl length. lia. Qed.
Lemma zlen_repeat {A} (x : A) n : zlen (repeat x n) = Z.of_nat n.
Proof. unfold zlen. now rewrite repeat_length. Qed.
Lemma zlen_nil {A} : zlen (@nil A) = 0. Proof. reflexivity. Qed.
Lemma zlen_firstn {A} (l : list A) n : zlen (firstn n l) = Z.min (Z.of_nat n) (zlen l).
Proof. unfold zlen. rewrite firstn_length. lia. Qed.
Lemma zlen_skipn {A} (l : list A) n : zlen (skipn n l) = Z.max 0 (zlen l - Z.of_nat n).
Proof. unfold zlen. rewrite skipn_length. lia. Qed.
Lemma zlen_map {A B} (f : A -> B) l : zlen (map f l) = zlen l.
Proof. unfold zlen. now rewrite map_length. Qed.

(* ---------- progressions ---------- *)
Lemma progression_length a c n : length (progression a c n) = n.
Proof. revert a. induction n; intros; simpl; auto. Qed.

Lemma progression_nth a c n i : (i < n)%nat -> nth i (progression a c n) 0 = a + Z.of_nat i * c.
Proof.
  revert a i. induction n; intros a i H; [lia|].
  destruct i; cbn [progression nth]; [lia|]. rewrite IHn by lia. lia.
Qed.

Lemma skipn_nth_cons {A} (d : A) (l : list A) : forall a, (a < length l)%nat ->
  skipn a l = nth a l d :: skipn (S a) l.
Proof.
  induction l as [|h t IH]; intros a H; [simpl in H; lia|].
  destruct a; [reflexivity|]. cbn [skipn nth]. simpl in H. rewrite IH by lia. reflexivity.
Qed.

Lemma map_znth_unit_progression {A} (d : A) (l : list A) : forall n a,
  (a + n <= length l)%nat ->
  map (znth d l) (progression (Z.of_nat a) 1 n) = firstn n (skipn a l).
Proof.
  induction n; intros a H; [reflexivity|].
  cbn [progression map]. replace (Z.of_nat a + 1) with (Z.of_nat (S a)) by lia.
  rewrite IHn by lia. unfold znth. rewrite Nat2Z.id.
  rewrite (skipn_nth_cons d l a) by lia. reflexivity.
Qed.

(* contiguous slice with in-range bounds is firstn/skipn *)
Lemma range_len_unit a b : range_len a b 1 = Z.max 0 (b - a).
Proof. unfold range_len. change (1 >? 0) with true. cbv iota. destruct (a <? b) eqn:E; [rewrite Z.div_1_r|]; lia. Qed.

Lemma seq_slice_unit {A} (d : A) (l : list A) a b : 0 <= a -> a <= b -> b <= zlen l ->
  seq_slice d l (mkslice (Some a) (Some b) None) = Ok (sub l a b).
Proof.
  intros Ha Hab Hb. unfold seq_slice, slice_indices. cbn [s_step s_start s_stop].
  change (1 =? 0) with false. change (1 <? 0) with false. cbv iota.
  unfold clamp_index. destruct (a <? 0) eqn:E1; [lia|]. destruct (b <? 0) eqn:E2; [lia|].
  destruct (a >? zlen l) eqn:E3; [lia|]. destruct (b >? zlen l) eqn:E4; [lia|].
  cbn [bind]. unfold range_list. rewrite range_len_unit.
  replace (Z.max 0 (b - a)) with (b - a) by lia. unfold sub.
  replace a with (Z.of_nat (Z.to_nat a)) at 1 by lia.
  rewrite map_znth_unit_progression; [reflexivity|]. unfold zlen in *. lia.
Qed.

Lemma seq_slice_from {A} (d : A) (l : list A) a : 0 <= a -> a <= zlen l ->
  seq_slice d l (mkslice (Some a) None None) = Ok (skipn (Z.to_nat a) l).
Proof.
  intros Ha Hb. unfold seq_slice, slice_indices. cbn [s_step s_start s_stop].
  change (1 =? 0) with false. change (1 <? 0) with false. cbv iota.
  unfold clamp_index. destruct (a <? 0) eqn:E1; [lia|]. destruct (a >? zlen l) eqn:E3; [lia|].
  cbn [bind]. unfold range_list. rewrite range_len_unit.
  replace (Z.max 0 (zlen l - a)) with (zlen l - a) by lia.
  replace a with (Z.of_nat (Z.to_nat a)) at 1 by lia.
  rewrite map_znth_unit_progression by (unfold zlen in *; lia).
  rewrite firstn_all2; [reflexivity|]. rewrite skipn_length. unfold zlen in *. lia.
Qed.

Lemma sub_0 {A} (l : list A) b : sub l 0 b = firstn (Z.to_nat b) l.
Proof. unfold sub. rewrite Z.sub_0_r. reflexivity. Qed.
Lemma sub_to_end {A} (l : list A) a : sub l a (zlen l) = skipn (Z.to_nat a) l.
Proof. unfold sub. rewrite firstn_all2; [reflexivity|]. rewrite skipn_length. unfold zlen. lia. Qed.

(* ---------- iteration ---------- *)
Lemma seq_getitem_nth {A} (d : A) (l : list A) i : (i < length l)%nat ->
  seq_getitem l (Z.of_nat i) = Ok (nth i l d).
Proof.
  intros H. unfold seq_getitem. destruct (Z.of_nat i <? 0) eqn:E; [lia|]. rewrite E.
  unfold zlen. destruct (Z.of_nat i >=? Z.of_nat (length l)) eqn:E2; [lia|]. cbn [orb].
  rewrite Nat2Z.id. rewrite (nth_error_nth' l d H). reflexivity.
Qed.

Lemma iter_from_msb0 (b : bits) : forall n i, (i + n = length b)%nat ->
  iter_from false b (Z.of_nat i) n = Ok (skipn i b).
Proof.
  induction n; intros i H.
  - cbn. rewrite skipn_all2 by lia. reflexivity.
  - cbn [iter_from getindex getindex_msb0]. rewrite (seq_getitem_nth false) by lia. cbn [bind].
    replace (Z.of_nat i + 1) with (Z.of_nat (S i)) by lia. rewrite IHn by lia. cbn [bind].
    rewrite (skipn_nth_cons false b i) by lia. reflexivity.
Qed.

Theorem iter_refines (b : bits) : bs_iter false b = Ok b.
Proof. unfold bs_iter. apply (iter_from_msb0 b (length b) 0%nat). lia. Qed.

(* ---------- concatenation ---------- *)
Theorem add_refines (a b : bits) : bs_add a b = a ++ b.
Proof. unfold bs_add, addright, addleft. destruct (zlen b <=? zlen a); reflexivity. Qed.

Theorem add_class_is_left self other l1 l2 : bs_add_class self other l1 l2 = self.
Proof. unfold bs_add_class. destruct (l2 <=? l1); reflexivity. Qed.

Theorem radd_refines (a b : bits) : bs_radd a b = b ++ a.
Proof. unfold bs_radd. apply add_refines. Qed.

(* ---------- repetition ---------- *)
Definition rep (x : bits) (n : nat) : bits := concat (repeat x n).

Lemma rep_add x a b : rep x (a + b) = rep x a ++ rep x b.
Proof. unfold rep. rewrite repeat_app, concat_app. reflexivity. Qed.

Lemma rep_length x n : length (rep x n) = (n * length x)%nat.
Proof. unfold rep. induction n; simpl; [reflexivity|]. rewrite app_length, IHn. reflexivity. Qed.

Lemma imul_loop_inv (self : bits) n : forall fuel m,
  (1 <= m)%nat -> Z.of_nat m <= n ->
  (Z.to_nat (Z.log2_up n) - Nat.log2 m < fuel)%nat ->
  exists m', imul_loop fuel (rep self m) (Z.of_nat m) n = Ok (rep self m', Z.of_nat m')
             /\ (1 <= m')%nat /\ Z.of_nat m' <= n /\ n <= 2 * Z.of_nat m'.
Proof.
  induction fuel as [|f IH]; intros m Hm Hmn Hf; [lia|].
  cbn [imul_loop]. destruct (Z.of_nat m * 2 <? n) eqn:E.
  - replace (Z.of_nat m * 2) with (Z.of_nat (m + m)) by lia.
    unfold addright. rewrite <- rep_add. apply IH; try lia.
    assert (Hl : Nat.log2 (m + m) = S (Nat.log2 m)).
    { replace (m + m)%nat with (2 * m)%nat by lia. apply Nat.log2_double. lia. }
    rewrite Hl.
    (* log2 m + 1 <= log2_up n because 2m < n *)
    assert (Z.of_nat (Nat.log2 m) + 1 < Z.log2_up n \/ Z.of_nat (Nat.log2 m) + 1 >= Z.log2_up n) as [Hc|Hc] by lia; [lia|].
    exfalso.
    pose proof (Nat.log2_spec m ltac:(lia)) as [Hlo _].
    assert (H2 : 2 ^ (Z.of_nat (Nat.log2 m)) <= Z.of_nat m).
    { rewrite <- (Nat2Z.inj_pow 2). lia. }
    assert (Hn1 : 1 < n) by lia.
    pose proof (Z.log2_up_spec n Hn1) as [_ Hup].
    assert (Hpw : 2 ^ Z.log2_up n <= 2 ^ (Z.of_nat (Nat.log2 m) + 1)) by (apply Z.pow_le_mono_r; lia).
    rewrite Z.pow_add_r in Hpw by lia. lia.
  - exists m. repeat split; try lia.
Qed.

Lemma firstn_rep x a b : firstn (a * length x) (rep x (a + b)) = rep x a.
Proof.
  rewrite rep_add. rewrite firstn_app. rewrite rep_length, Nat.sub_diag. cbn [firstn].
  rewrite app_nil_r. apply firstn_all2. rewrite rep_length. lia.
Qed.

Theorem mul_refines (self : bits) (n : Z) : 0 <= n ->
  bs_mul false self n = Ok (rep self (Z.to_nat n)).
Proof.
  intros Hn. unfold bs_mul. destruct (n <? 0) eqn:E; [lia|]. destruct (n =? 0) eqn:E0.
  - apply Z.eqb_eq in E0. subst. reflexivity.
  - pose proof E0 as E0'. apply Z.eqb_neq in E0'. unfold imul. rewrite E, E0.
    destruct (imul_loop_inv self n (imul_fuel n) 1%nat ltac:(lia) ltac:(lia)) as [m [Hl [Hm1 [Hmn Hn2]]]].
    { unfold imul_fuel. cbn [Nat.log2]. change (Nat.log2 1) with 0%nat. lia. }
    change (rep self 1) with (self ++ []) in Hl. rewrite app_nil_r in Hl. change (Z.of_nat 1) with 1 in Hl.
    rewrite Hl. cbn [bind].
    unfold bs_getitem_slice, getslice_withstep, getslice_withstep_msb0.
    assert (Hlen : zlen (rep self m) = Z.of_nat m * zlen self).
    { unfold zlen. rewrite rep_length. lia. }
    pose proof (zlen_nonneg self) as Hs.
    rewrite seq_slice_unit; try nia.
    cbn [bind]. unfold addright. rewrite sub_0. f_equal.
    replace (Z.to_nat n) with (m + (Z.to_nat n - m))%nat by lia.
    rewrite rep_add. f_equal.
    replace (Z.to_nat ((n - Z.of_nat m) * zlen self)) with ((Z.to_nat n - m) * length self)%nat by (unfold zlen; nia).
    set (k := (Z.to_nat n - m)%nat).
    replace (rep self m) with (rep self (k + (m - k))) by (f_equal; unfold k; lia).
    apply firstn_rep.
Qed.

Theorem mul_negative (lsb0 : bool) (self : bits) n : n < 0 -> bs_mul lsb0 self n = Err ValueError.
Proof. intros H. unfold bs_mul. destruct (n <? 0) eqn:E; [reflexivity|lia]. Qed.

(* ================= LSB0 mirror law for indexing and positive-step slicing ================= *)
Definition res_map {A B} (f : A -> B) (r : res A) : res B :=
  match r with Ok a => Ok (f a) | Err e => Err e end.

Lemma zlen_rev {A} (l : list A) : zlen (rev l) = zlen l.
Proof. unfold zlen. now rewrite rev_length. Qed.

Lemma znth_rev {A} (d : A) (l : list A) i : 0 <= i < zlen l ->
  znth d (rev l) i = znth d l (zlen l - 1 - i).
Proof.
  intros H. unfold znth, zlen in *. rewrite rev_nth by lia. f_equal. lia.
Qed.

Theorem mirror_getindex (b : bits) i : getindex_lsb0 b i = getindex_msb0 (rev b) i.
Proof.
  unfold getindex_lsb0, getindex_msb0, seq_getitem. rewrite zlen_rev.
  pose proof (zlen_nonneg b) as Hl.
  destruct (i <? 0) eqn:Ei; destruct (- i - 1 <? 0) eqn:Ej; try lia.
  - (* i < 0 : j = -i-1 >= 0 ; other side index i + len *)
    destruct ((- i - 1 <? 0) || (- i - 1 >=? zlen b)) eqn:E1;
    destruct ((i + zlen b <? 0) || (i + zlen b >=? zlen b)) eqn:E2; try lia; [reflexivity|].
    unfold zlen in *.
    rewrite (nth_error_nth' b false) by lia. rewrite (nth_error_nth' (rev b) false) by (rewrite rev_length; lia).
    rewrite rev_nth by lia. f_equal. f_equal. lia.
  - destruct ((- i - 1 + zlen b <? 0) || (- i - 1 + zlen b >=? zlen b)) eqn:E1;
    destruct ((i <? 0) || (i >=? zlen b)) eqn:E2; try lia; [reflexivity|].
    unfold zlen in *.
    rewrite (nth_error_nth' b false) by lia. rewrite (nth_error_nth' (rev b) false) by (rewrite rev_length; lia).
    rewrite rev_nth by lia. f_equal. f_equal. lia.
Qed.

Lemma nth_map_progression {A} (f : Z -> A) a c n j d : (j < n)%nat ->
  nth j (map f (progression a c n)) d = f (a + Z.of_nat j * c).
Proof.
  intros H. rewrite (nth_indep _ d (f 0)) by (rewrite map_length, progression_length; lia).
  rewrite map_nth. rewrite progression_nth by lia. reflexivity.
Qed.

Lemma rev_map_znth_rev {A} (d : A) (l : list A) a c n :
  (forall j, (j < n)%nat -> 0 <= a + Z.of_nat j * c < zlen l) ->
  rev (map (znth d (rev l)) (progression a c n))
  = map (znth d l) (progression (zlen l - 1 - (a + (Z.of_nat n - 1) * c)) c n).
Proof.
  intros H. apply (nth_ext _ _ d d).
  - rewrite rev_length, !map_length, !progression_length. reflexivity.
  - intros j Hj. rewrite rev_length, map_length, progression_length in Hj.
    rewrite rev_nth by (rewrite map_length, progression_length; lia).
    rewrite map_length, progression_length.
    rewrite !nth_map_progression by lia.
    rewrite znth_rev by (apply H; lia). f_equal.
    rewrite Nat2Z.inj_sub by lia. rewrite Nat2Z.inj_succ. ring.
Qed.

Theorem mirror_getslice_posstep (b : bits) (k : pyslice) :
  (match s_step k with None => True | Some s => 0 < s end) ->
  getslice_withstep_lsb0 b k = res_map (@rev bool) (getslice_withstep_msb0 (rev b) k).
Proof.
  intros Hstep.
  unfold getslice_withstep_lsb0, getslice_withstep_msb0, offset_slice_indices_lsb0, indices, seq_slice.
  rewrite zlen_rev. set (len := zlen b). pose proof (zlen_nonneg b) as Hlen. fold len in Hlen.
  destruct (slice_indices k len) as [[[start stop] step]|e] eqn:Hsi; [|reflexivity].
  cbn [bind].
  (* facts about CPython's clamping for a positive step *)
  assert (Hfacts : 0 < step /\ 0 <= start <= len /\ 0 <= stop <= len /\ step = match s_step k with None => 1 | Some s => s end).
  { unfold slice_indices in Hsi. destruct k as [ks ke kst]; cbn [s_step s_start s_stop] in *.
    destruct kst as [s|]; cbn [s_step] in *.
    - destruct (s =? 0) eqn:E0; [lia|]. destruct (s <? 0) eqn:E1; [lia|].
      injection Hsi as <- <- <-. unfold clamp_index.
      repeat split; try lia;
        try (destruct ks as [v|]; [destruct (v <? 0) eqn:?; [destruct (v + len <? 0) eqn:?|destruct (v >? len) eqn:?]|]; lia);
        try (destruct ke as [v|]; [destruct (v <? 0) eqn:?; [destruct (v + len <? 0) eqn:?|destruct (v >? len) eqn:?]|]; lia).
    - change (1 =? 0) with false in Hsi. change (1 <? 0) with false in Hsi. cbv iota in Hsi.
      injection Hsi as <- <- <-. unfold clamp_index.
      repeat split; try lia;
        try (destruct ks as [v|]; [destruct (v <? 0) eqn:?; [destruct (v + len <? 0) eqn:?|destruct (v >? len) eqn:?]|]; lia);
        try (destruct ke as [v|]; [destruct (v <? 0) eqn:?; [destruct (v + len <? 0) eqn:?|destruct (v >? len) eqn:?]|]; lia). }
  destruct Hfacts as [Hs [Hst [Hsp Hstepk]]].
  assert (Hind : (match s_step k with
                  | None => Ok (start, Some stop, step)
                  | Some st => if st >=? 0 then Ok (start, Some stop, step)
                               else Ok (start, (if stop <? 0 then None else Some stop), step)
                  end) = Ok (start, Some stop, step)).
  { destruct (s_step k) as [s|]; [|reflexivity]. destruct (s >=? 0) eqn:E; [reflexivity|lia]. }
  rewrite Hind. cbn [bind]. destruct (step <? 0) eqn:Eneg; [lia|].
  destruct (stop <=? start) eqn:Ese.
  - (* empty slice *)
    cbn [bind]. unfold slice_indices at 1. cbn [s_step s_start s_stop].
    rewrite <- Hstepk. destruct (step =? 0) eqn:E0; [lia|]. rewrite Eneg. cbn [bind].
    unfold clamp_index, range_list.
    destruct (len - start <? 0) eqn:E3; [lia|]. destruct (len - start >? len) eqn:E4; [lia|].
    assert (Hrl1 : range_len start stop step = 0).
    { unfold range_len. destruct (step >? 0) eqn:E; [|lia]. destruct (start <? stop) eqn:Elt; [lia|reflexivity]. }
    assert (Hrl2 : range_len (len - start) (len - start) step = 0).
    { unfold range_len. destruct (step >? 0) eqn:E; [|lia]. rewrite Z.ltb_irrefl. reflexivity. }
    rewrite Hrl1, Hrl2. reflexivity.
  - cbn [bind]. set (q := (stop - 1 - start) / step).
    pose proof (Z.div_mod (stop - 1 - start) step ltac:(lia)) as Hdm.
    pose proof (Z.mod_pos_bound (stop - 1 - start) step Hs) as Hmb. fold q in Hdm.
    unfold slice_indices at 1. cbn [s_step s_start s_stop].
    rewrite <- Hstepk. destruct (step =? 0) eqn:E0; [lia|]. rewrite Eneg. cbn [bind].
    unfold clamp_index, range_list.
    assert (Elt : (start <? stop) = true) by lia.
    assert (Hq : 0 <= q) by nia.
    destruct (len - (start + q * step) - 1 <? 0) eqn:E1; [nia|].
    destruct (len - (start + q * step) - 1 >? len) eqn:E2; [nia|].
    destruct (len - start <? 0) eqn:E3; [lia|]. destruct (len - start >? len) eqn:E4; [lia|].
    assert (Hrl1 : range_len start stop step = q + 1).
    { unfold range_len. destruct (step >? 0) eqn:E; [|lia]. rewrite Elt. unfold q. f_equal. f_equal. lia. }
    assert (Hrl2 : range_len (len - (start + q * step) - 1) (len - start) step = q + 1).
    { unfold range_len. destruct (step >? 0) eqn:E; [|lia].
      destruct (len - (start + q * step) - 1 <? len - start) eqn:E5; [|nia].
      f_equal. replace (len - start - (len - (start + q * step) - 1) - 1) with (q * step) by lia.
      apply Z.div_mul. lia. }
    rewrite Hrl1, Hrl2. cbn [res_map]. f_equal.
    rewrite rev_map_znth_rev.
    + f_equal. f_equal. fold len. rewrite Z2Nat.id by lia. nia.
    + intros j Hj. fold len. nia.
Qed.

Theorem mirror_len (b : bits) : bs_len (rev b) = bs_len b.
Proof. apply zlen_rev. Qed.

Theorem len_bool (b : bits) : bs_len b = Z.of_nat (length b) /\ (bs_bool b = true <-> b <> []).
Proof.
  split; [reflexivity|]. unfold bs_bool. destruct b as [|x t].
  - cbn. split; intros; congruence.
  - rewrite zlen_cons. pose proof (zlen_nonneg t). destruct (1 + zlen t =? 0) eqn:E; [lia|].
    cbn. split; intros; [discriminate|reflexivity].
Qed.

Theorem getitem_out_of_range (b : bits) i : (i < - zlen b \/ zlen b <= i) -> bs_getitem_int false b i = Err IndexError.
Proof.
  intros H. unfold bs_getitem_int, getindex, getindex_msb0, seq_getitem.
  pose proof (zlen_nonneg b). destruct (i <? 0) eqn:E.
  - destruct ((i + zlen b <? 0) || (i + zlen b >=? zlen b)) eqn:E2; [reflexivity|lia].
  - destruct ((i <? 0) || (i >=? zlen b)) eqn:E2; [reflexivity|lia].
Qed.
